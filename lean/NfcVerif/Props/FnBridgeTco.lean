import NfcVerif.Lemmas.FnBridgeTco
import NfcVerif.Props.C05
import NfcVerif.Props.C10
import NfcVerif.Model.SapLink
import NfcVerif.Model.DlcSap
import NfcVerif.Model.CollectOps
/-!
# Bridge theorems, group Tco (`nfc/llcp/tco.py` -> `Gen/FnTco.lean` -> `Model/Dlc.lean`, `Model/Collect.lean`,
`Model/Sap.lean`, `Model/FnTcoRef.lean`)

Properties C05 (window / sequence arithmetic of a data link connection) and C10 (size tests).  Encodings,
stated in the theorems: the state variables of a connection are the fields of `Dlc.Ep` (naturals, cast to
`Int` where the regenerated function takes a Python int); a socket option value is `FnTcoRef.OptVal`,
related to the dynamically typed `PyFn.Val` by `encOpt`.
-/
namespace NfcVerif.FnBridge.Tco
open NfcVerif NfcVerif.PyFn

/-! ## window slots -/

/-- `DataLinkConnection.send_window_slots` is the model's `Ep.sendSlots` -/
theorem send_window_slots_bridge (e : Dlc.Ep) :
    Gen.Fn.tco_send_window_slots e.sendWin e.vs e.vsa = e.sendSlots := by
  unfold Gen.Fn.tco_send_window_slots Dlc.Ep.sendSlots; omega

/-- `DataLinkConnection.recv_window_slots` is the model's `Ep.recvSlots` -/
theorem recv_window_slots_bridge (e : Dlc.Ep) :
    Gen.Fn.tco_recv_window_slots e.recvWin e.vr e.vra = e.recvSlots := by
  unfold Gen.Fn.tco_recv_window_slots Dlc.Ep.recvSlots; omega

/-- ... and the `slots` of the collection model (C10), which works on naturals -/
theorem recv_window_slots_collect (rw cnt ack : Nat) :
    Gen.Fn.tco_recv_window_slots rw cnt ack = (Collect.slots rw cnt ack : Nat) := by
  unfold Gen.Fn.tco_recv_window_slots Collect.slots
  omega

example : Gen.Fn.tco_send_window_slots 15 3 14 = 10 := by decide
example : Gen.Fn.tco_recv_window_slots 1 0 15 = 0 := by decide

/-- the window slots are a number in `0..15`, for ANY integer state (also a corrupted one) -/
theorem gen_slots_range (w v va : Int) :
    0 ≤ Gen.Fn.tco_send_window_slots w v va ∧ Gen.Fn.tco_send_window_slots w v va < 16 := by
  unfold Gen.Fn.tco_send_window_slots; omega

/-- the send window is closed exactly when the number of unacknowledged I PDUs, `(V(S) - V(SA)) mod 16`, has
reached RW(R) (mod 16) -/
theorem gen_send_window_closed_iff (rw vs vsa : Nat) :
    Gen.Fn.tco_send_window_slots rw vs vsa = 0 ↔ FnTcoRef.outstanding vs vsa = rw % 16 := by
  unfold Gen.Fn.tco_send_window_slots FnTcoRef.outstanding; omega

/-- with the state variables in range and not more than RW(R) PDUs outstanding (`C05.dlc_window`), the slots
are what is left of the window -/
theorem gen_send_window_slots_left (rw vs vsa : Nat) (hrw : rw ≤ 15)
    (h : FnTcoRef.outstanding vs vsa ≤ rw) :
    Gen.Fn.tco_send_window_slots rw vs vsa = ((rw - FnTcoRef.outstanding vs vsa : Nat) : Int) := by
  unfold Gen.Fn.tco_send_window_slots; unfold FnTcoRef.outstanding at h ⊢; omega

/-- `C05.dlc_wakeup_rechecks` for the regenerated window function: a sender that finds
`send_window_slots == 0` does not send, whatever the message -/
theorem gen_wakeup_rechecks (s : Dlc.Sys) (m : Bytes) (hst : s.a.st = .established)
    (hw : Gen.Fn.tco_send_window_slots s.a.sendWin s.a.vs s.a.vsa = 0) :
    (Dlc.step s .A (.send m)).1 = s := by
  rw [send_window_slots_bridge] at hw
  by_cases h : m.length > s.a.sendMiu <;> simp [Dlc.step, Dlc.stepA, Dlc.Ep.send, hst, hw, h]

/-- `C05.dlc_window` for the regenerated window function: in every reachable state of two correct endpoints
the free slots `send_window_slots` plus the unacknowledged I PDUs `(V(S) - V(SA)) mod 16` are exactly the
receive window the peer announced - so a sender that only sends with `send_window_slots > 0` never exceeds it -/
theorem gen_window (c : Dlc.Cfg) (hc : c.ok) (ops : List (Dlc.Side × Dlc.Op)) :
    let s := Dlc.run (Dlc.init c) ops
    Gen.Fn.tco_send_window_slots s.a.sendWin s.a.vs s.a.vsa + ((s.a.vs : Int) - s.a.vsa) % 16 = s.b.recvWin ∧
    Gen.Fn.tco_send_window_slots s.b.sendWin s.b.vs s.b.vsa + ((s.b.vs : Int) - s.b.vsa) % 16 = s.a.recvWin := by
  intro s
  have h : Dlc.Inv s := Dlc.reach_inv c hc ops
  have w := C05.dlc_window c hc ops
  obtain ⟨_, wa, _, _, wb, _⟩ := w
  have ha := h.1.win
  have hb := h.2.win
  unfold Gen.Fn.tco_send_window_slots
  constructor
  · have e : s.a.sendWin = s.b.recvWin := ha.2.1
    have l : s.a.sendWin ≤ 15 := ha.1
    have wa' : ((s.a.vs : Int) - s.a.vsa) % 16 ≤ s.b.recvWin := wa
    omega
  · have e : s.b.sendWin = s.a.recvWin := hb.2.1
    have l : s.b.sendWin ≤ 15 := hb.1
    have wb' : ((s.b.vs : Int) - s.b.vsa) % 16 ≤ s.a.recvWin := wb
    omega


/-! ## socket options -/

/-- `TransmissionControlObject.getsockopt(option)` for every int `option` -/
theorem getsockopt_bridge (a : FnTcoRef.SockAttrs) (option : Int) :
    Gen.Fn.tco_getsockopt option a.sendMiu a.recvMiu a.sendBuf a.recvBuf
      = encOpt (FnTcoRef.getsockoptBase a (FnTcoRef.SockOpt.ofCode option)) := by
  unfold Gen.Fn.tco_getsockopt FnTcoRef.SockOpt.ofCode
  by_cases h1 : option = 1
  · subst h1; rfl
  by_cases h2 : option = 2
  · subst h2; rfl
  by_cases h3 : option = 3
  · subst h3; rfl
  by_cases h4 : option = 4
  · subst h4; rfl
  by_cases h5 : option = 5
  · subst h5; rfl
  by_cases h6 : option = 6
  · subst h6; rfl
  simp only [h1, h2, h3, h4, h5, h6, if_false]; rfl

/-- `DataLinkConnection.getsockopt(option)` -/
theorem dlc_getsockopt_bridge (a : FnTcoRef.SockAttrs) (option : Int) :
    Gen.Fn.tco_dlc_getsockopt option a.recvWin a.sendBusy a.recvBusy a.sendMiu a.recvMiu a.sendBuf a.recvBuf
      = encOpt (FnTcoRef.getsockoptDlc a (FnTcoRef.SockOpt.ofCode option)) := by
  unfold Gen.Fn.tco_dlc_getsockopt
  rw [getsockopt_bridge]
  unfold FnTcoRef.SockOpt.ofCode
  by_cases h1 : option = 1
  · subst h1; rfl
  by_cases h2 : option = 2
  · subst h2; rfl
  by_cases h3 : option = 3
  · subst h3; rfl
  by_cases h4 : option = 4
  · subst h4; rfl
  by_cases h5 : option = 5
  · subst h5; rfl
  by_cases h6 : option = 6
  · subst h6; rfl
  simp only [h1, h2, h3, h4, h5, h6, if_false]; rfl

example : Gen.Fn.tco_dlc_getsockopt 4 7 false true 128 248 1 3 = .int 7 := rfl
example : Gen.Fn.tco_getsockopt 4 128 248 1 3 = .int 3 := rfl

/-- the option a caller of `getsockopt(SO_SNDMIU)` reads is the MIU that `send()` / `sendto()` test
against (`Collect.sendCheck`, C10 `ui_i_payload_bound`) -/
theorem gen_sndmiu_is_checked (a : FnTcoRef.SockAttrs) :
    Gen.Fn.tco_getsockopt 1 a.sendMiu a.recvMiu a.sendBuf a.recvBuf = .int a.sendMiu := rfl

/-! ## connection-less reception -/

/-- `LogicalDataLink.enqueue` in front of the queue: `None` (go on to `super().enqueue`) exactly for a
UI PDU that fits `recv_miu`, otherwise `False` -/
theorem ldl_enqueue_check_bridge (name : String) (data : Bytes) (miu : Nat) :
    Gen.Fn.tco_ldl_enqueue_check name data miu
      = if FnTcoRef.ldlAccepts (decide (name = "UI")) data.length miu then Val.none else Val.bool false := by
  unfold Gen.Fn.tco_ldl_enqueue_check FnTcoRef.ldlAccepts
  by_cases hn : name = "UI"
  · by_cases hl : data.length ≤ miu
    · have : ¬ (len data > (miu : Int)) := by rw [len_eq]; omega
      simp [hn, hl, this]
    · have : (len data > (miu : Int)) := by rw [len_eq]; omega
      simp [hn, hl, this]
  · simp [hn]

/-- the address-table model (C17) lets a logical data link take a UI PDU of at most 248 octets (the
default `recv-miu` its sockets are created with) and nothing else: the same decision -/
theorem gen_ldl_enqueue_sap (s : Sap.Sock) (p : Sap.Pdu) (hk : s.kind = .ldl) :
    Sap.sockEnqueue s p = some (match p with
      | .ui _ _ data =>
        (match Gen.Fn.tco_ldl_enqueue_check "UI" data 248 with
         | .none => Sap.appendRecv s p
         | _ => s)
      | _ => s) := by
  unfold Sap.sockEnqueue
  rw [hk]
  cases p with
  | ui d ss data =>
    have e : Gen.Fn.tco_ldl_enqueue_check "UI" data 248 = _ := ldl_enqueue_check_bridge "UI" data 248
    simp only
    rw [e]
    unfold FnTcoRef.ldlAccepts
    by_cases h : data.length > 248
    · have : ¬ data.length ≤ 248 := by omega
      simp [h, this]
    · have : data.length ≤ 248 := by omega
      simp [h, this]
  | _ => rfl

example : Gen.Fn.tco_ldl_enqueue_check "UI" [1, 2, 3] 3 = .none := by
  simp [Gen.Fn.tco_ldl_enqueue_check, len_eq]
example : Gen.Fn.tco_ldl_enqueue_check "UI" [1, 2, 3, 4] 3 = .bool false := by
  simp [Gen.Fn.tco_ldl_enqueue_check, len_eq]
example : Gen.Fn.tco_ldl_enqueue_check "I" [] 248 = .bool false := by
  simp [Gen.Fn.tco_ldl_enqueue_check]

/-! ## `DataLinkConnection.send` -/

/-- the MIU test of `send()` is the model's `sendCheck` (C10) -/
theorem dlc_send_check_bridge (m : Bytes) (miu : Nat) :
    Gen.Fn.tco_dlc_send_check m miu = Collect.sendCheck m.length miu := by
  unfold Gen.Fn.tco_dlc_send_check Collect.sendCheck
  by_cases h : m.length > miu
  · have : len m > (miu : Int) := by rw [len_eq]; omega
    simp [h, this]
  · have : ¬ len m > (miu : Int) := by rw [len_eq]; omega
    simp [h, this]

/-- N(S) of the new I PDU is V(S), then V(S) advances modulo 16 -/
theorem dlc_send_seq_bridge (vs : Nat) :
    Gen.Fn.tco_dlc_send_seq vs = ((vs : Int), (((vs + 1) % 16 : Nat) : Int)) := by
  unfold Gen.Fn.tco_dlc_send_seq
  simp only [Prod.mk.injEq, true_and]
  omega

/-- the model's whole `send` step of an established endpoint, composed of the three regenerated pieces
(MIU test, window test, sequence numbers) -/
theorem dlc_send_bridge (e : Dlc.Ep) (m : Bytes) (hst : e.st = .established) :
    e.send m =
      match Gen.Fn.tco_dlc_send_check m e.sendMiu with
      | .error x => (e, .exc x)
      | .ok () =>
        if Gen.Fn.tco_send_window_slots e.sendWin e.vs e.vsa = 0 then (e, .exc (.llcp 11))
        else ({ e with sq := e.sq ++ [.i (Gen.Fn.tco_dlc_send_seq e.vs).1.toNat m],
                       vs := (Gen.Fn.tco_dlc_send_seq e.vs).2.toNat,
                       gS := e.gS + 1, accepted := e.accepted ++ [m] }, .ok) := by
  rw [dlc_send_check_bridge, dlc_send_seq_bridge, send_window_slots_bridge]
  unfold Dlc.Ep.send Collect.sendCheck
  by_cases h : m.length > e.sendMiu
  · simp [hst, h]
  · by_cases hw : e.sendSlots = 0
    · simp [hst, h, hw]
    · simp [hst, h, hw]; omega

example : Gen.Fn.tco_dlc_send_check [1, 2, 3] 2 = .error (.llcp 90) := by decide
example : Gen.Fn.tco_dlc_send_check [1, 2, 3] 3 = .ok () := by decide
example : Gen.Fn.tco_dlc_send_seq 15 = (15, 0) := by decide

/-- `C05.dlc_emsgsize` for the regenerated test: when it raises, the send step of an established endpoint
is refused with that exception and changes nothing -/
theorem gen_emsgsize (s : Dlc.Sys) (m : Bytes) (x : Exc) (hst : s.a.st = .established)
    (h : Gen.Fn.tco_dlc_send_check m s.a.sendMiu = .error x) :
    Dlc.step s .A (.send m) = (s, .exc (.llcp 90)) := by
  rw [dlc_send_check_bridge] at h
  unfold Collect.sendCheck at h
  split at h
  · exact (C05.dlc_emsgsize s m).1 hst (by assumption)
  · cases h

/-- `C10.ui_i_payload_bound` for the regenerated tests of `send()` and `sendto()`: an accepted payload is
within the MIU it was tested against, a refused one is refused with EMSGSIZE -/
theorem gen_payload_bound (m : Bytes) (miu : Nat) :
    (Gen.Fn.tco_dlc_send_check m miu = .ok () → m.length ≤ miu) ∧
    (Gen.Fn.tco_dlc_send_check m miu ≠ .ok () → Gen.Fn.tco_dlc_send_check m miu = .error (.llcp 90)) := by
  rw [dlc_send_check_bridge]
  exact ⟨(C10.ui_i_payload_bound m.length miu 0 0).1, (C10.ui_i_payload_bound m.length miu 0 0).2.1⟩

/-! ## N(R) / N(S) processing of a received I, RR or RNR PDU -/

/-- `acks = (N(R) - V(SA)) % 16`: the model's `Ep.ackIn` is this number applied to `acks_recvd` and V(SA) -/
theorem est_acks_bridge (e : Dlc.Ep) (nr : Nat) :
    e.ackIn nr =
      (let a := (Gen.Fn.tco_est_acks nr e.vsa).toNat
       if a ≠ 0 then { e with acks := e.acks + a, vsa := nr, gSA := e.gSA + a } else e) := rfl

/-- the number of newly acknowledged PDUs is in `0..15` for ANY integers -/
theorem gen_acks_range (nr vsa : Int) : 0 ≤ Gen.Fn.tco_est_acks nr vsa ∧ Gen.Fn.tco_est_acks nr vsa < 16 := by
  show 0 ≤ (nr - vsa) % 16 ∧ (nr - vsa) % 16 < 16
  omega

/-- V(R) after an I PDU with the expected N(S) and a payload within the MIU was accepted -/
theorem est_recv_cnt_bridge (e : Dlc.Ep) (ns nr : Nat) (d : Bytes) (h1 : ¬ d.length > e.recvMiu) (h2 : ns = e.vr) :
    ((e.enqEst (.i ns nr d)).vr : Int) = Gen.Fn.tco_est_recv_cnt e.vr := by
  have hv : (e.ackIn nr).vr = e.vr := by unfold Dlc.Ep.ackIn; simp only; split <;> rfl
  unfold Gen.Fn.tco_est_recv_cnt Dlc.Ep.enqEst
  simp only [h1, h2, if_false, ne_eq, not_true_eq_false, hv]
  split <;> simp <;> omega

example : Gen.Fn.tco_est_acks 2 14 = 4 := by decide
example : Gen.Fn.tco_est_recv_cnt 15 = 0 := by decide

/-! ## acknowledgement generation (`sendack`, and the two places in `dequeue`) -/

/-- voluntary acknowledgement: V(RA) := V(RA) + recv_confs mod 16, recv_confs := 0 is the model's `Ep.confirm` -/
theorem sendack_confirm_bridge (e : Dlc.Ep) :
    Gen.Fn.tco_sendack_confirm e.vra e.confs = ((e.confirm.vra : Int), (e.confirm.confs : Int)) := by
  unfold Gen.Fn.tco_sendack_confirm Dlc.Ep.confirm
  simp only [Prod.mk.injEq, Int.natCast_zero, and_true]
  omega

/-- necessary acknowledgement in `dequeue`: the same update -/
theorem deq_necessary_confirm_bridge (e : Dlc.Ep) :
    Gen.Fn.tco_deq_necessary_confirm e.vra e.confs = ((e.confirm.vra : Int), (e.confirm.confs : Int)) := by
  unfold Gen.Fn.tco_deq_necessary_confirm Dlc.Ep.confirm
  simp only [Prod.mk.injEq, Int.natCast_zero, and_true]
  omega

/-- the collection model (C10) writes the same update on its `Dlc` record -/
theorem gen_confirm_collect (d : Collect.Dlc) (q : List Collect.QPdu)
    (h : d.state = .established ∧ d.confs ≠ 0 ∧ d.cnt ≠ d.ack) :
    ∃ p, (Collect.Sock.dlc d q).sendack =
      (some p, .dlc { d with ack := (Gen.Fn.tco_sendack_confirm d.ack d.confs).1.toNat,
                              confs := (Gen.Fn.tco_sendack_confirm d.ack d.confs).2.toNat } q) := by
  refine ⟨Collect.ackPdu d.busy ((d.ack + d.confs) % 16), ?_⟩
  unfold Collect.Sock.sendack Gen.Fn.tco_sendack_confirm
  simp only [h, and_self, if_true, ne_eq, not_false_eq_true]
  congr 3

example : Gen.Fn.tco_sendack_confirm 14 3 = (1, 0) := by decide

/-! ## `LogicalDataLink.sendto` -/

/-- the three checks of `sendto()` in source order: ESHUTDOWN, EDESTADDRREQ (a connected socket only sends
to its peer; `peer = None` passed as 0), EMSGSIZE against `send_miu` -/
theorem ldl_sendto_check_bridge (m : Bytes) (dest : Nat) (sd : Bool) (peer : Option Nat) (miu : Nat) :
    Gen.Fn.tco_ldl_sendto_check m dest sd ((peer.getD 0 : Nat) : Int) miu =
      if sd then .error (.llcp 108)
      else if Sap.peerMismatch peer dest then .error (.llcp 89)
      else Collect.sendCheck m.length miu := by
  unfold Gen.Fn.tco_ldl_sendto_check
  rw [show (if len m > (miu : Int) then (Except.error (Exc.llcp 90) : Py Unit) else Except.ok ())
      = Gen.Fn.tco_dlc_send_check m miu from rfl, dlc_send_check_bridge]
  cases sd with
  | true => simp
  | false =>
    simp only [Bool.false_eq_true, if_false]
    cases peer with
    | none => simp [Sap.peerMismatch]
    | some pr =>
      simp only [Option.getD_some, Sap.peerMismatch, Bool.and_eq_true, bne_iff_ne, ne_eq]
      by_cases h0 : pr = 0
      · subst h0; simp
      · by_cases h1 : dest = pr
        · subst h1; simp
        · have b : ((dest : Int) ≠ (pr : Int)) := by omega
          simp [h0, h1, b]

example : Gen.Fn.tco_ldl_sendto_check [1] 32 false 16 128 = .error (.llcp 89) := by decide
example : Gen.Fn.tco_ldl_sendto_check [1] 32 false 0 128 = .ok () := by decide

/-- the address-table model (C17, `SapLink.apiSendto`) on a logical data link socket runs these checks with
the initial `send_miu` of 128 -/
theorem gen_ldl_sendto_saplink (s : Sap.Sock) (m : Bytes) (dest : Nat) :
    (if s.st = .shutdown then (Except.error (.llcp Sap.ESHUTDOWN) : Py Unit)
     else if Sap.peerMismatch s.peer dest then .error (.llcp Sap.EDESTADDRREQ)
     else if m.length > 128 then .error (.llcp Sap.EMSGSIZE) else .ok ())
      = Gen.Fn.tco_ldl_sendto_check m dest (decide (s.st = .shutdown)) ((s.peer.getD 0 : Nat) : Int) (128 : Nat) := by
  rw [ldl_sendto_check_bridge]
  unfold Collect.sendCheck Sap.ESHUTDOWN Sap.EDESTADDRREQ Sap.EMSGSIZE
  by_cases h : s.st = .shutdown <;> simp [h] <;> rfl

/-! ## batch 2: whole decision chains of `send`, `_enqueue_state_established`, `recv`, `dequeue`, `enqueue`, `setsockopt` -/

/-- state check and MIU test of `send()`: ENOTCONN (107) unless ESTABLISHED, EPIPE (32) in CLOSE_WAIT, then
EMSGSIZE - the first two tests of the collection model's `send` operation -/
theorem dlc_send_state_bridge (m : Bytes) (st : Collect.DlcState) (miu : Nat) :
    Gen.Fn.tco_dlc_send_state m (decide (st = .established)) (decide (st = .closeWait)) miu =
      if st ≠ .established then .error (.llcp (if st = .closeWait then 32 else 107))
      else Collect.sendCheck m.length miu := by
  rw [← dlc_send_check_bridge]
  unfold Gen.Fn.tco_dlc_send_state Gen.Fn.tco_dlc_send_check
  cases st <;> simp

/-- the `while` of `send()` waits exactly while the window is closed and the connection established -/
theorem dlc_send_wait_cond_bridge (slots : Int) (est : Bool) :
    Gen.Fn.tco_dlc_send_wait_cond slots est = (decide (slots = 0) && est) := by
  unfold Gen.Fn.tco_dlc_send_wait_cond
  cases est <;> simp

/-- a non-blocking `send()` on a closed window: EWOULDBLOCK (errno 11) iff bit 0 (MSG_DONTWAIT) is set -/
theorem dlc_send_dontwait_bridge (flags : Nat) :
    Gen.Fn.tco_dlc_send_dontwait flags = if flags % 2 = 1 then .error (.llcp 11) else .ok () := by
  unfold Gen.Fn.tco_dlc_send_dontwait
  py_bits
  by_cases h : flags % 2 = 1
  · simp [h]
  · have : flags % 2 = 0 := by omega
    simp [this]

/-- the collection model's `send` operation (C10) composed of the regenerated pieces -/
theorem gen_collect_send (M : Nat) (sec : Option Nat) (agf : Bool) (es : List Collect.Ent) (a j n id : Nat)
    (d : Collect.Dlc) (q : List Collect.QPdu) (h : Collect.getSock es a j = some (.dlc d q)) :
    Collect.step M sec agf es (.send a j n id) =
      match Gen.Fn.tco_dlc_send_state (List.replicate n 0) (decide (d.state = .established))
              (decide (d.state = .closeWait)) d.sendMiu with
      | .error e => (es, .exc e)
      | .ok () =>
        if Gen.Fn.tco_dlc_send_wait_cond (Gen.Fn.tco_send_window_slots d.sendWin d.sendCnt d.sendAck) true then
          (match Gen.Fn.tco_dlc_send_dontwait 1 with
           | .error e => (es, .exc e)
           | .ok () => (es, .bad))
        else (Collect.setSock es a j (.dlc { d with sendCnt := (Gen.Fn.tco_dlc_send_seq d.sendCnt).2.toNat }
                (q ++ [Collect.iPdu n id d.sendMiu])), .ok) := by
  rw [dlc_send_state_bridge, dlc_send_wait_cond_bridge]
  have hs : (Gen.Fn.tco_send_window_slots d.sendWin d.sendCnt d.sendAck = 0) ↔ Collect.sendSlots d = 0 := by
    unfold Gen.Fn.tco_send_window_slots Collect.sendSlots; omega
  have hq : (Gen.Fn.tco_dlc_send_seq d.sendCnt).2.toNat = (d.sendCnt + 1) % 16 := by
    unfold Gen.Fn.tco_dlc_send_seq; simp only; omega
  have hd : Gen.Fn.tco_dlc_send_dontwait 1 = .error (.llcp 11) := by decide
  rw [hq, hd]
  simp only [Collect.step, h, List.length_replicate, Collect.sendCheck]
  by_cases h1 : d.state = .established
  · by_cases h2 : n > d.sendMiu
    · simp [h1, h2]
    · by_cases h3 : Collect.sendSlots d = 0
      · simp [h1, h2, h3, hs.mpr h3]
      · have : ¬ Gen.Fn.tco_send_window_slots d.sendWin d.sendCnt d.sendAck = 0 := fun x => h3 (hs.mp x)
        simp [h1, h2, h3, this]
  · simp [h1]


/-- N(R) processing of a received RR / RNR / I PDU (statement 3 of `_enqueue_state_established`):
`acks_recvd`, V(SA) and SEND_BUSY afterwards are those of the model's `Ep.ackIn` / `Ep.enqEst`; any other PDU
leaves them alone -/
theorem est_nr_bridge (e : Dlc.Ep) (nr : Nat) :
    Gen.Fn.tco_est_nr "RR" nr e.vsa e.acks e.sendBusy
      = (((e.enqEst (.rr nr)).acks : Int), ((e.enqEst (.rr nr)).vsa : Int), (e.enqEst (.rr nr)).sendBusy) ∧
    Gen.Fn.tco_est_nr "RNR" nr e.vsa e.acks e.sendBusy
      = (((e.enqEst (.rnr nr)).acks : Int), ((e.enqEst (.rnr nr)).vsa : Int), (e.enqEst (.rnr nr)).sendBusy) ∧
    Gen.Fn.tco_est_nr "I" nr e.vsa e.acks e.sendBusy
      = (((e.ackIn nr).acks : Int), ((e.ackIn nr).vsa : Int), (e.ackIn nr).sendBusy) ∧
    (∀ name, name ≠ "I" → name ≠ "RR" → name ≠ "RNR" →
      Gen.Fn.tco_est_nr name nr e.vsa e.acks e.sendBusy = ((e.acks : Int), (e.vsa : Int), e.sendBusy)) := by
  have key : ∀ (b : Bool), 
      (((if (((nr : Int) - e.vsa) % 16) ≠ 0 then ((e.acks : Int) + ((nr : Int) - e.vsa) % 16, (nr : Int)) else ((e.acks : Int), (e.vsa : Int))).1,
        (if (((nr : Int) - e.vsa) % 16) ≠ 0 then ((e.acks : Int) + ((nr : Int) - e.vsa) % 16, (nr : Int)) else ((e.acks : Int), (e.vsa : Int))).2, b)
        : Int × Int × Bool)
      = (((e.ackIn nr).acks : Int), ((e.ackIn nr).vsa : Int), b) := by
    intro b
    unfold Dlc.Ep.ackIn
    simp only
    by_cases h : (((nr : Int) - e.vsa) % 16) = 0
    · simp [h]
    · have : ¬ (((nr : Int) - e.vsa) % 16).toNat = 0 := by omega
      simp only [h, this, ne_eq, not_false_eq_true, if_true, Prod.mk.injEq, and_true]
      simp only [Int.natCast_add]; omega
  refine ⟨?_, ?_, ?_, ?_⟩
  · have := key false
    simp only [Gen.Fn.tco_est_nr, Dlc.Ep.enqEst]
    simpa using this
  · have := key true
    simp only [Gen.Fn.tco_est_nr, Dlc.Ep.enqEst]
    simpa using this
  · have hb : (e.ackIn nr).sendBusy = e.sendBusy := by unfold Dlc.Ep.ackIn; simp only; split <;> rfl
    have := key e.sendBusy
    rw [hb]
    simp only [Gen.Fn.tco_est_nr]
    simpa using this
  · intro name h1 h2 h3
    simp [Gen.Fn.tco_est_nr, h1, h2, h3]


/-- which frame reject a received I PDU provokes: `I` (payload exceeds the local MIU) before `S` (N(S) is not
V(R)), none otherwise; `fi`, `fs` stand for the two `FrameReject.from_pdu` results -/
theorem est_check_bridge (d : Bytes) (ns miu vr : Nat) (fi fs : Int) :
    Gen.Fn.tco_est_check d ns miu vr fi fs =
      if d.length > miu then some fi else if ns ≠ vr then some fs else none := by
  unfold Gen.Fn.tco_est_check
  by_cases h : d.length > miu
  · have : len d > (miu : Int) := by rw [len_eq]; omega
    simp [h, this]
  · have : ¬ len d > (miu : Int) := by rw [len_eq]; omega
    by_cases h2 : ns = vr
    · subst h2; simp [h, this]
    · have : ¬ (ns : Int) = (vr : Int) := by omega
      simp [*]

/-- the model's reception of an I PDU on an established connection, with the regenerated decision: flag
marker 4 = `I`, 1 = `S` (the FRMR flag bits W=8, I=4, R=2, S=1) -/
theorem gen_enqEst_i (e : Dlc.Ep) (ns nr : Nat) (d : Bytes) :
    e.enqEst (.i ns nr d) =
      match Gen.Fn.tco_est_check d ns e.recvMiu e.vr 4 1 with
      | some f => e.reject f.toNat ns nr
      | none =>
        let e1 := e.ackIn nr
        let e2 := { e1 with vr := (Gen.Fn.tco_est_recv_cnt e1.vr).toNat, gR := e1.gR + 1 }
        if Gen.Fn.tco_enqueue_room e2.rq.length e2.recvWin then { e2 with rq := e2.rq ++ [.msg d] }
        else { e2 with gDiscard := true } := by
  rw [est_check_bridge]
  unfold Dlc.Ep.enqEst
  by_cases h : d.length > e.recvMiu
  · simp [h]
  · by_cases h2 : ns = e.vr
    · have hv : ∀ v : Nat, (Gen.Fn.tco_est_recv_cnt v).toNat = (v + 1) % 16 := by
        intro v; unfold Gen.Fn.tco_est_recv_cnt; simp only; omega
      have hr : ∀ a b : Nat, (Gen.Fn.tco_enqueue_room a b = true) ↔ a < b := by
        intro a b; unfold Gen.Fn.tco_enqueue_room
        by_cases hab : a < b
        · have : (a : Int) < b := by omega
          simp [hab, this]
        · have : ¬ (a : Int) < b := by omega
          simp [hab, this]
      simp only [h, h2, if_false, ne_eq, not_true_eq_false, hv, hr]
    · simp [h, h2]

/-- confirmation counting of `recv()`: one more unconfirmed message; more than RW(L) of them is the
`RuntimeError` of the model's `Ep.recv` -/
theorem dlc_recv_confs_bridge (confs win : Nat) :
    Gen.Fn.tco_dlc_recv_confs confs win =
      if confs + 1 > win then .error .runtime else .ok (((confs + 1 : Nat)) : Int) := by
  unfold Gen.Fn.tco_dlc_recv_confs
  by_cases h : confs + 1 > win
  · have : (confs : Int) + 1 > win := by omega
    simp [h, this]
  · have : ¬ (confs : Int) + 1 > win := by omega
    simp [h, this]

theorem gen_recv (e : Dlc.Ep) (d : Bytes) (rest : List Dlc.Rq) (hb : e.bound = true)
    (hst : e.st = .established) (hq : e.rq = .msg d :: rest) :
    e.recv = match Gen.Fn.tco_dlc_recv_confs e.confs e.recvWin with
      | .error x => ({ e with rq := rest, confs := e.confs + 1, gOverrun := true }, .exc x)
      | .ok c => ({ e with rq := rest, confs := c.toNat, delivered := e.delivered ++ [d] }, .data d) := by
  rw [dlc_recv_confs_bridge]
  unfold Dlc.Ep.recv
  by_cases h : e.confs + 1 > e.recvWin <;> simp [hb, hst, hq, h]

/-- piggy-backed acknowledgement: the state the model's `deq` continues with and the N(R) it puts into the I PDU -/
theorem deq_piggyback_bridge (e : Dlc.Ep) :
    let e1 := if e.confs ≠ 0 ∧ e.vr ≠ e.vra then e.confirm else e
    Gen.Fn.tco_deq_piggyback e.confs e.vr e.vra = ((e1.vra : Int), (e1.vra : Int), (e1.confs : Int)) := by
  intro e1
  unfold Gen.Fn.tco_deq_piggyback
  by_cases h : e.confs ≠ 0 ∧ e.vr ≠ e.vra
  · have h' : ((e.confs : Int) ≠ 0 ∧ (e.vr : Int) ≠ (e.vra : Int)) := by omega
    have he : e1 = e.confirm := by simp [e1, h]
    rw [he]
    rw [if_pos h']
    simp only [Dlc.Ep.confirm, Prod.mk.injEq, Int.natCast_zero, and_true]
    omega
  · have h' : ¬ ((e.confs : Int) ≠ 0 ∧ (e.vr : Int) ≠ (e.vra : Int)) := by omega
    have he : e1 = e := by simp [e1, h]
    rw [he]
    rw [if_neg h']


/-- `TransmissionControlObject.dequeue(miu_size, icv_size)` on the popped PDU `p`: requeued (None) exactly
when the model's `tcoDequeue` leaves it in the queue, otherwise the size it computed is `QPdu.size` -/
theorem dequeue_fit_bridge (p : Collect.QPdu) (rest : List Collect.QPdu) (miu : Option Int) (icv : Nat) :
    Collect.tcoDequeue (p :: rest) miu icv =
      match Gen.Fn.tco_dequeue_fit miu icv (kindName p.kind) p.len p.hdr with
      | none => (none, p :: rest)
      | some _ => (some p, rest) := by
  unfold Gen.Fn.tco_dequeue_fit
  have hk := kindName_ui_i p.kind
  cases miu with
  | none => simp [Collect.tcoDequeue]
  | some m =>
    simp only [Collect.tcoDequeue, Collect.QPdu.size]
    by_cases hui : (p.kind = .ui ∨ p.kind = .i)
    · have hn := hk.mpr hui
      simp only [hui, hn, if_true]
      by_cases hc : ((p.len + icv : Nat) : Int) - (p.hdr : Int) > m
      · have : ((p.len : Int) + (icv : Int)) - (p.hdr : Int) > m := by omega
        simp [this]
      · have : ¬ ((p.len : Int) + (icv : Int)) - (p.hdr : Int) > m := by omega
        simp [this]
    · have hn : ¬ (kindName p.kind = "UI" ∨ kindName p.kind = "I") := fun x => hui (hk.mp x)
      simp only [hui, hn, if_false]
      by_cases hc : ((p.len : Nat) : Int) - (p.hdr : Int) > m
      · simp [hc]
      · simp [hc]

/-- `TransmissionControlObject.enqueue`: True (queued) iff fewer than `recv_buf` PDUs wait -/
theorem enqueue_room_bridge (queued buf : Nat) :
    Gen.Fn.tco_enqueue_room queued buf = decide (queued < buf) := by
  unfold Gen.Fn.tco_enqueue_room
  by_cases h : queued < buf
  · have : (queued : Int) < buf := by omega
    simp [h, this]
  · have : ¬ (queued : Int) < buf := by omega
    simp [h, this]

/-- the address-table model's `appendRecv` (C17) is that decision -/
theorem gen_appendRecv (s : Sap.Sock) (p : Sap.Pdu) :
    Sap.appendRecv s p = if Gen.Fn.tco_enqueue_room s.recvq.length s.recvBuf then { s with recvq := s.recvq ++ [p] } else s := by
  rw [enqueue_room_bridge]; unfold Sap.appendRecv
  by_cases h : s.recvq.length < s.recvBuf <;> simp [h]

/-- `DataLinkConnection.setsockopt`: SO_RCVMIU (2) and SO_RCVBUF (4) only on a CLOSED socket, clamped to
2175 octets resp. 15 PDUs, `recv_buf` follows the window; SO_RCVBSY (6) in any state -/
theorem dlc_setsockopt_bridge (option value : Int) (closed : Bool) (miu win buf : Int) (busy : Bool) :
    Gen.Fn.tco_dlc_setsockopt option value closed miu win buf busy =
      if option = 2 ∧ closed then (min value 2175, win, buf, busy)
      else if option = 4 ∧ closed then (miu, min value 15, min value 15, busy)
      else if option = 6 then (miu, win, buf, decide (value ≠ 0))
      else (miu, win, buf, busy) := by
  have hm : ∀ a b : Int, imin a b = min a b := by
    intro a b; unfold imin; split <;> omega
  unfold Gen.Fn.tco_dlc_setsockopt
  simp only [hm]

/-- a data link connection socket as `llc.socket()` creates it (`recv_miu` 128, `recv_win` 1) after
`setsockopt(SO_RCVBUF, rw)` and `setsockopt(SO_RCVMIU, miu)`: the values of the model's `DlcSap.Sock.new` -/
theorem gen_sock_new (sid rw miu : Nat) :
    let s1 := Gen.Fn.tco_dlc_setsockopt 4 rw true 128 1 1 false
    let s2 := Gen.Fn.tco_dlc_setsockopt 2 miu true s1.1 s1.2.1 s1.2.2.1 s1.2.2.2
    (((DlcSap.Sock.new sid rw miu).rmiu : Int), ((DlcSap.Sock.new sid rw miu).rwin : Int),
      ((DlcSap.Sock.new sid rw miu).buf : Int), false) = s2 := by
  simp only [dlc_setsockopt_bridge, DlcSap.Sock.new]
  simp
  omega


example : Gen.Fn.tco_dlc_send_state [1] false true 128 = .error (.llcp 32) := by decide
example : Gen.Fn.tco_dlc_send_state [1] false false 128 = .error (.llcp 107) := by decide
example : Gen.Fn.tco_dlc_send_dontwait 1 = .error (.llcp 11) := by decide
example : Gen.Fn.tco_est_nr "RR" 3 1 5 true = (7, 3, false) := by decide
example : Gen.Fn.tco_est_check [1, 2, 3] 5 2 5 4 1 = some 4 := by decide
example : Gen.Fn.tco_est_check [1, 2] 6 2 5 4 1 = some 1 := by decide
example : Gen.Fn.tco_est_check [1, 2] 5 2 5 4 1 = none := by decide
example : Gen.Fn.tco_dlc_recv_confs 1 1 = .error .runtime := by decide
example : Gen.Fn.tco_deq_piggyback 2 5 3 = (5, 5, 0) := by decide
example : Gen.Fn.tco_dequeue_fit (some 128) 4 "I" 131 3 = none := by decide
example : Gen.Fn.tco_dequeue_fit (some 128) 0 "I" 131 3 = some 131 := by decide
example : Gen.Fn.tco_dequeue_fit none 0 "I" 500 3 = some 500 := by decide
example : Gen.Fn.tco_dlc_setsockopt 4 20 true 128 1 1 false = (128, 15, 15, false) := by decide
example : Gen.Fn.tco_dlc_setsockopt 4 20 false 128 1 1 false = (128, 1, 1, false) := by decide

/-- observation (outside the quantifier of C05, which takes RW in 1..15 and MIU >= 128): `setsockopt` clamps
the receive window and the receive MIU only from above; a non-positive `SO_RCVBUF` or an `SO_RCVMIU` below
128 is stored as given (the CONNECT / CC PDU built from `recv_win = -1` then fails to encode) -/
theorem setsockopt_lower_bound_counterexample :
    Gen.Fn.tco_dlc_setsockopt 4 (-1) true 128 1 1 false = (128, -1, -1, false) ∧
    Gen.Fn.tco_dlc_setsockopt 2 5 true 128 1 1 false = (5, 1, 1, false) := by decide

/-! ## acknowledgement decisions -/

/-- `DataLinkConnection.sendack()`: the model's `Ep.sendack` with the regenerated test and update -/
theorem sendack_bridge (e : Dlc.Ep) :
    e.sendack =
      if e.st = .established ∧ Gen.Fn.tco_sendack_cond e.confs e.vr e.vra = true then
        (let c := Gen.Fn.tco_sendack_confirm e.vra e.confs
         let e' := { e with vra := c.1.toNat, gRA := e.gRA + e.confs, confs := c.2.toNat }
         (e', some (e.ackPdu e'.vra)))
      else (e, none) := by
  have hc : (Gen.Fn.tco_sendack_cond e.confs e.vr e.vra = true) ↔ (e.confs ≠ 0 ∧ e.vr ≠ e.vra) := by
    unfold Gen.Fn.tco_sendack_cond; simp only [decide_eq_true_eq]; omega
  have hu := sendack_confirm_bridge e
  unfold Dlc.Ep.sendack
  simp only [hc, hu, Int.toNat_natCast]
  rfl

/-- the "necessary acknowledgement" of `dequeue` (nothing to send, receive window exhausted): the model's
`necessary` branch of `Ep.deq`, with the regenerated test, window function and update -/
theorem deq_necessary_bridge (e : Dlc.Ep) (budget : Int) (hb : ¬ (e.st = .established ∧ e.busySent ≠ e.busy))
    (hq : e.sq = []) :
    e.deq budget =
      if Gen.Fn.tco_deq_necessary_cond (decide (e.st = .established)) e.confs
           (Gen.Fn.tco_recv_window_slots e.recvWin e.vr e.vra) = true then
        (let c := Gen.Fn.tco_deq_necessary_confirm e.vra e.confs
         let e' := { e with vra := c.1.toNat, gRA := e.gRA + e.confs, confs := c.2.toNat }
         (e', some (e.ackPdu e'.vra)))
      else (e, none) := by
  have hc : (Gen.Fn.tco_deq_necessary_cond (decide (e.st = .established)) e.confs
           (Gen.Fn.tco_recv_window_slots e.recvWin e.vr e.vra) = true) ↔
      (e.st = .established ∧ e.confs ≠ 0 ∧ e.recvSlots = 0) := by
    rw [recv_window_slots_bridge]
    unfold Gen.Fn.tco_deq_necessary_cond
    simp only [decide_eq_true_eq]
    constructor
    · rintro ⟨h1, h2, h3⟩; exact ⟨h1, by omega, h3⟩
    · rintro ⟨h1, h2, h3⟩; exact ⟨h1, by omega, h3⟩
  have hu := deq_necessary_confirm_bridge e
  unfold Dlc.Ep.deq
  simp only [hb, if_false, hc, hu, Int.toNat_natCast]
  split
  · rfl
  · rename_i h; rw [hq] at h; cases h


example : Gen.Fn.tco_sendack_cond 2 5 3 = true := by decide
example : Gen.Fn.tco_sendack_cond 0 5 3 = false := by decide
example : Gen.Fn.tco_deq_necessary_cond true 1 0 = true := by decide

/-! ## state checks of the socket calls, poll -/

/-- `poll('send')` / `poll('acks')` of the model's endpoint with the regenerated results -/
theorem poll_bridge (e : Dlc.Ep) (hb : e.bound = true) (hs : e.st = .established) :
    e.poll .send = (e, .bool (Gen.Fn.tco_poll_send_ready e.sq.length (1 : Nat))) ∧
    e.poll .acks = (if Gen.Fn.tco_poll_acks e.acks then
                      ({ e with acks := (Gen.Fn.tco_poll_acks_dec e.acks).toNat }, .bool true)
                    else (e, .bool false)) := by
  have h1 : Gen.Fn.tco_poll_send_ready e.sq.length (1 : Nat) = decide (e.sq.length < 1) := by
    unfold Gen.Fn.tco_poll_send_ready
    by_cases h : e.sq.length < 1
    · simp [h]; omega
    · simp [h]; omega
  have h2 : Gen.Fn.tco_poll_acks e.acks = decide (e.acks > 0) := by
    unfold Gen.Fn.tco_poll_acks
    by_cases h : e.acks > 0
    · simp [h]
    · simp [h]
  have h3 : (Gen.Fn.tco_poll_acks_dec e.acks).toNat = e.acks - 1 := by
    unfold Gen.Fn.tco_poll_acks_dec; simp only; omega
  rw [h1, h2, h3]
  unfold Dlc.Ep.poll
  constructor
  · simp [hb, hs]
  · by_cases h : e.acks > 0 <;> simp [hb, hs, h]

/-- `DataLinkConnection.listen(backlog)`: the state tests of the collection model's `listen` operation
(ESHUTDOWN 108, ENOTSUP 95), then `recv_buf := backlog` -/
theorem dlc_listen_bridge (backlog : Int) (st : Collect.DlcState) (buf : Int) :
    Gen.Fn.tco_dlc_listen backlog (decide (st = .shutdown)) (decide (st = .closed)) buf =
      if st = .shutdown then .error (.llcp 108) else if st ≠ .closed then .error (.llcp 95) else .ok backlog := by
  unfold Gen.Fn.tco_dlc_listen
  cases st <;> simp

theorem gen_collect_listen (M : Nat) (sec : Option Nat) (agf : Bool) (es : List Collect.Ent) (a j : Nat)
    (d : Collect.Dlc) (q : List Collect.QPdu) (h : Collect.getSock es a j = some (.dlc d q)) (backlog : Int) :
    Collect.step M sec agf es (.listen a j) =
      match Gen.Fn.tco_dlc_listen backlog (decide (d.state = .shutdown)) (decide (d.state = .closed)) 1 with
      | .error e => (es, .exc e)
      | .ok _ => (Collect.setSock es a j (.dlc { d with state := .listen } q), .ok) := by
  rw [dlc_listen_bridge]
  simp only [Collect.step, h]
  by_cases h1 : d.state = .shutdown
  · simp [h1]
  · by_cases h2 : d.state = .closed <;> simp [h1, h2]

/-- `DataLinkConnection.connect()` on a socket that is not CLOSED: EISCONN 106 / EALREADY 114 / EPIPE 32,
as in the collection model's `connected` operation -/
theorem dlc_connect_state_bridge (st : Collect.DlcState) :
    Gen.Fn.tco_dlc_connect_state (decide (st = .closed)) (decide (st = .established)) (decide (st = .connect)) =
      if st = .closed then .ok ()
      else if st = .established then .error (.llcp 106)
      else if st = .connect then .error (.llcp 114) else .error (.llcp 32) := by
  unfold Gen.Fn.tco_dlc_connect_state
  cases st <;> simp

/-- `DataLinkConnection.accept()`: ESHUTDOWN 108, EINVAL 22 unless LISTEN (`accepted` operation) -/
theorem dlc_accept_state_bridge (st : Collect.DlcState) :
    Gen.Fn.tco_dlc_accept_state (decide (st = .shutdown)) (decide (st = .listen)) =
      if st = .shutdown then .error (.llcp 108) else if st ≠ .listen then .error (.llcp 22) else .ok () := by
  unfold Gen.Fn.tco_dlc_accept_state
  cases st <;> simp

/-- `DataLinkConnection.recv()`: ENOTCONN 107 unless ESTABLISHED or CLOSE_WAIT (`Ep.recv`) -/
theorem dlc_recv_state_bridge (e : Dlc.Ep) (hb : e.bound = true) :
    (∀ x, Gen.Fn.tco_dlc_recv_state (decide (e.st = .established)) (decide (e.st = .closeWait)) = .error x →
       e.recv = (e, .exc x)) ∧
    (Gen.Fn.tco_dlc_recv_state (decide (e.st = .established)) (decide (e.st = .closeWait)) = .ok () →
       (e.st = .established ∨ e.st = .closeWait)) := by
  unfold Gen.Fn.tco_dlc_recv_state Dlc.Ep.recv
  cases hs : e.st <;> simp [hb]

/-- a raw access point calls the base `dequeue` with `miu_size=None` (tco.py:255, a keyword call that is not
translated): then no PDU is ever requeued, whatever its size -/
theorem gen_raw_dequeue_always (icv : Int) (name : String) (len hs : Int) :
    Gen.Fn.tco_dequeue_fit none icv name len hs ≠ none := by
  unfold Gen.Fn.tco_dequeue_fit
  simp


example : Gen.Fn.tco_dlc_listen 4 false true 1 = .ok 4 := by decide
example : Gen.Fn.tco_dlc_listen 4 false false 1 = .error (.llcp 95) := by decide
example : Gen.Fn.tco_dlc_connect_state false false true = .error (.llcp 114) := by decide
example : Gen.Fn.tco_dlc_accept_state false false = .error (.llcp 22) := by decide
example : Gen.Fn.tco_dlc_recv_state false false = .error (.llcp 107) := by decide
example : Gen.Fn.tco_poll_acks 1 = true := by decide

end NfcVerif.FnBridge.Tco
