import NfcVerif.Lemmas.FnBridgeTco
/-!
# Bridge theorems, group Tco (`nfc/llcp/tco.py` -> `Gen/FnTco.lean` -> `Model/Dlc.lean`, `Model/Collect.lean`,
`Model/Sap.lean`, `Model/FnTcoRef.lean`)

Properties C05 (window / sequence arithmetic of a data link connection) and C10 (size tests).  Encodings,
stated in the theorems: the state variables of a connection are the fields of `Dlc.Ep` (naturals, cast to
`Int` where the regenerated function takes a Python int); a socket option value is `FnTcoRef.OptVal`,
related to the dynamically typed `PyFn.Val` by `encOpt`.
-/
namespace NfcVerif.FnBridge.Tco
open NfcVerif NfcVerif.PyFn

/-! ## window slots -/

/-- `DataLinkConnection.send_window_slots` is the model's `Ep.sendSlots` -/
theorem send_window_slots_bridge (e : Dlc.Ep) :
    Gen.Fn.tco_send_window_slots e.sendWin e.vs e.vsa = e.sendSlots := rfl

/-- `DataLinkConnection.recv_window_slots` is the model's `Ep.recvSlots` -/
theorem recv_window_slots_bridge (e : Dlc.Ep) :
    Gen.Fn.tco_recv_window_slots e.recvWin e.vr e.vra = e.recvSlots := rfl

/-- ... and the `slots` of the collection model (C10), which works on naturals -/
theorem recv_window_slots_collect (rw cnt ack : Nat) :
    Gen.Fn.tco_recv_window_slots rw cnt ack = (Collect.slots rw cnt ack : Nat) := by
  unfold Gen.Fn.tco_recv_window_slots Collect.slots
  exact slots_nat rw cnt ack

example : Gen.Fn.tco_send_window_slots 15 3 14 = 10 := by decide
example : Gen.Fn.tco_recv_window_slots 1 0 15 = 0 := by decide

/-- the window slots are a number in `0..15`, for ANY integer state (also a corrupted one) -/
theorem gen_slots_range (w v va : Int) :
    0 ≤ Gen.Fn.tco_send_window_slots w v va ∧ Gen.Fn.tco_send_window_slots w v va < 16 := by
  unfold Gen.Fn.tco_send_window_slots; omega

/-- the send window is closed exactly when the number of unacknowledged I PDUs, `(V(S) - V(SA)) mod 16`, has
reached RW(R) (mod 16) -/
theorem gen_send_window_closed_iff (rw vs vsa : Nat) :
    Gen.Fn.tco_send_window_slots rw vs vsa = 0 ↔ FnTcoRef.outstanding vs vsa = rw % 16 := by
  unfold Gen.Fn.tco_send_window_slots FnTcoRef.outstanding; omega

/-- with the state variables in range and not more than RW(R) PDUs outstanding (`C05.dlc_window`), the slots
are what is left of the window -/
theorem gen_send_window_slots_left (rw vs vsa : Nat) (hrw : rw ≤ 15)
    (h : FnTcoRef.outstanding vs vsa ≤ rw) :
    Gen.Fn.tco_send_window_slots rw vs vsa = ((rw - FnTcoRef.outstanding vs vsa : Nat) : Int) := by
  unfold Gen.Fn.tco_send_window_slots; unfold FnTcoRef.outstanding at h ⊢; omega

/-- `C05.dlc_wakeup_rechecks` for the regenerated window function: a sender that finds
`send_window_slots == 0` does not send, whatever the message -/
theorem gen_wakeup_rechecks (s : Dlc.Sys) (m : Bytes) (hst : s.a.st = .established)
    (hw : Gen.Fn.tco_send_window_slots s.a.sendWin s.a.vs s.a.vsa = 0) :
    (Dlc.step s .A (.send m)).1 = s := by
  rw [send_window_slots_bridge] at hw
  by_cases h : m.length > s.a.sendMiu <;> simp [Dlc.step, Dlc.stepA, Dlc.Ep.send, hst, hw, h]

/-! ## socket options -/

/-- `TransmissionControlObject.getsockopt(option)` for every int `option` -/
theorem getsockopt_bridge (a : FnTcoRef.SockAttrs) (option : Int) :
    Gen.Fn.tco_getsockopt option a.sendMiu a.recvMiu a.sendBuf a.recvBuf
      = encOpt (FnTcoRef.getsockoptBase a (FnTcoRef.SockOpt.ofCode option)) := by
  unfold Gen.Fn.tco_getsockopt FnTcoRef.SockOpt.ofCode
  by_cases h1 : option = 1
  · subst h1; rfl
  by_cases h2 : option = 2
  · subst h2; rfl
  by_cases h3 : option = 3
  · subst h3; rfl
  by_cases h4 : option = 4
  · subst h4; rfl
  by_cases h5 : option = 5
  · subst h5; rfl
  by_cases h6 : option = 6
  · subst h6; rfl
  simp only [h1, h2, h3, h4, h5, h6, if_false]; rfl

/-- `DataLinkConnection.getsockopt(option)` -/
theorem dlc_getsockopt_bridge (a : FnTcoRef.SockAttrs) (option : Int) :
    Gen.Fn.tco_dlc_getsockopt option a.recvWin a.sendBusy a.recvBusy a.sendMiu a.recvMiu a.sendBuf a.recvBuf
      = encOpt (FnTcoRef.getsockoptDlc a (FnTcoRef.SockOpt.ofCode option)) := by
  unfold Gen.Fn.tco_dlc_getsockopt
  rw [getsockopt_bridge]
  unfold FnTcoRef.SockOpt.ofCode
  by_cases h1 : option = 1
  · subst h1; rfl
  by_cases h2 : option = 2
  · subst h2; rfl
  by_cases h3 : option = 3
  · subst h3; rfl
  by_cases h4 : option = 4
  · subst h4; rfl
  by_cases h5 : option = 5
  · subst h5; rfl
  by_cases h6 : option = 6
  · subst h6; rfl
  simp only [h1, h2, h3, h4, h5, h6, if_false]; rfl

example : Gen.Fn.tco_dlc_getsockopt 4 7 false true 128 248 1 3 = .int 7 := rfl
example : Gen.Fn.tco_getsockopt 4 128 248 1 3 = .int 3 := rfl

/-- the option a caller of `getsockopt(SO_SNDMIU)` reads is the MIU that `send()` / `sendto()` test
against (`Collect.sendCheck`, C10 `ui_i_payload_bound`) -/
theorem gen_sndmiu_is_checked (a : FnTcoRef.SockAttrs) :
    Gen.Fn.tco_getsockopt 1 a.sendMiu a.recvMiu a.sendBuf a.recvBuf = .int a.sendMiu := rfl

/-! ## connection-less reception -/

/-- `LogicalDataLink.enqueue` in front of the queue: `None` (go on to `super().enqueue`) exactly for a
UI PDU that fits `recv_miu`, otherwise `False` -/
theorem ldl_enqueue_check_bridge (name : String) (data : Bytes) (miu : Nat) :
    Gen.Fn.tco_ldl_enqueue_check name data miu
      = if FnTcoRef.ldlAccepts (decide (name = "UI")) data.length miu then Val.none else Val.bool false := by
  unfold Gen.Fn.tco_ldl_enqueue_check FnTcoRef.ldlAccepts
  by_cases hn : name = "UI"
  · by_cases hl : data.length ≤ miu
    · have : ¬ (len data > (miu : Int)) := by rw [len_eq]; omega
      simp [hn, hl, this]
    · have : (len data > (miu : Int)) := by rw [len_eq]; omega
      simp [hn, hl, this]
  · simp [hn]

/-- the address-table model (C17) lets a logical data link take a UI PDU of at most 248 octets (the
default `recv-miu` its sockets are created with) and nothing else: the same decision -/
theorem gen_ldl_enqueue_sap (s : Sap.Sock) (p : Sap.Pdu) (hk : s.kind = .ldl) :
    Sap.sockEnqueue s p = some (match p with
      | .ui _ _ data =>
        (match Gen.Fn.tco_ldl_enqueue_check "UI" data 248 with
         | .none => Sap.appendRecv s p
         | _ => s)
      | _ => s) := by
  unfold Sap.sockEnqueue
  rw [hk]
  cases p with
  | ui d ss data =>
    simp only
    rw [ldl_enqueue_check_bridge]
    unfold FnTcoRef.ldlAccepts
    by_cases h : data.length > 248
    · have : ¬ data.length ≤ 248 := by omega
      simp [h, this]
    · have : data.length ≤ 248 := by omega
      simp [h, this]
  | _ => rfl

example : Gen.Fn.tco_ldl_enqueue_check "UI" (List.replicate 248 0) 248 = .none := by decide
example : Gen.Fn.tco_ldl_enqueue_check "UI" (List.replicate 249 0) 248 = .bool false := by decide

end NfcVerif.FnBridge.Tco
