import NfcVerif.Lemmas.Monitor
import NfcVerif.Gen.Monitor
/-!
# Monitor discipline of the LLCP sockets - instance theorems (T-tie for C05 / C09)

`Gen/Monitor.lean` is regenerated from `/repo/src/nfc/llcp/tco.py` and `llc.py` on every run by
`harness/translate_mon.py`; the `*_discipline_ok` theorems are therefore re-checked (kernel
evaluation of the syntactic checker) against what the code says now.  `monitor_sound` is generic
(`Lemmas/Monitor.lean`).  The three exemption tables below are the only hand-written input; every
entry is justified in `docs/monitor.md`, and `tco_exemptions_used` shows that none is superfluous.
-/
namespace NfcVerif.MonitorProps
open NfcVerif.Monitor NfcVerif.Gen.Monitor

/-! ## exemption tables for `tco.py` (none are needed for `llc.py`) -/
section
open Tco

/-- wait sites that are not `while`-guarded (rule 1), with the reason:
* the three `poll` sites: timed single-shot wait, the test is evaluated again after the wait and an
  early return is the "not ready" answer the API allows;
* `TransmissionControlObject.send`: rendezvous with `dequeue`, no state predicate to re-check;
* `TransmissionControlObject.recv`: single shot, a wake-up that finds the queue empty raises
  `IndexError`, which every caller maps to EPIPE / `None` (that is how `close()` is reported). -/
def tcoWaitExempt : List (Meth × Cv × GKind) := [
  (m_TransmissionControlObject_poll, cv_recv_ready, .ifG),
  (m_TransmissionControlObject_poll, cv_send_ready, .ifG),
  (m_DataLinkConnection__poll, cv_acks_ready, .ifG),
  (m_TransmissionControlObject_send, cv_send_ready, .noG),
  (m_TransmissionControlObject_recv, cv_recv_ready, .exceptG)
]

/-- plain `notify()` sites accepted as `notify_all()` under the assumption that at most one thread
waits on that condition of that socket (one application thread per socket and direction) -/
def tcoNotifyExempt : List (Meth × Cv) := [
  (m_TransmissionControlObject_enqueue, cv_recv_ready),
  (m_DataLinkConnection_enqueue, cv_recv_ready),
  (m_DataLinkConnection_dequeue, cv_recv_ready),
  (m_TransmissionControlObject_dequeue, cv_send_ready),
  (m_DataLinkConnection_dequeue, cv_send_ready),
  (m_DataLinkConnection__enqueue_state_established, cv_send_token)
]

/-- writes that need not notify the condition although one of its guards reads the attribute -/
def tcoWriteExempt : List (Meth × Attr × Cv) := [
  -- monotone: the write moves the attribute away from what the waiters wait for
  (m_TransmissionControlObject_recv, a_recv_queue, cv_recv_ready),     -- popleft; waiters wait for non-empty
  (m_TransmissionControlObject_send, a_send_queue, cv_send_ready),     -- append; waiters wait for room
  (m_DataLinkConnection_accept, a_send_queue, cv_send_ready),          -- append
  (m_DataLinkConnection_connect, a_send_queue, cv_send_ready),         -- append
  (m_DataLinkConnection_enqueue, a_send_queue, cv_send_ready),         -- append (also outside the lock)
  (m_DataLinkConnection_send, a_send_cnt, cv_send_token),              -- V(S)+1 closes the window further
  (m_DataLinkConnection__poll, a_acks_recvd, cv_acks_ready),           -- decrement; waiters wait for > 0
  -- clear() of unread data before the DISC handshake (fix of C05): emptying the queue cannot make a guard of
  -- recv_ready true, its waiters wait for a NON-empty queue
  (m_DataLinkConnection_close, a_recv_queue, cv_recv_ready),
  -- clear() followed by append(): the queue stays non-empty and send_buf is constantly 1
  (m_DataLinkConnection_close, a_send_queue, cv_send_ready),
  (m_DataLinkConnection__enqueue_state_established, a_send_queue, cv_send_ready),
  -- popleft with a conditional notify: DLC.dequeue notifies itself for I PDUs (the only PDUs a sender waits for)
  (m_TransmissionControlObject_dequeue, a_send_queue, cv_send_ready),
  -- state transitions in which no sender can be waiting (DLC.send waits only while ESTABLISHED)
  (m_DataLinkConnection_listen, a_state, cv_send_token),
  (m_DataLinkConnection_connect, a_state, cv_send_token),
  (m_DataLinkConnection_connect, a_send_win, cv_send_token),
  -- deferred: ESTABLISHED -> CLOSE_WAIT queues a DM whose dequeue notifies send_token (tco.py dequeue)
  (m_DataLinkConnection__enqueue_state_established, a_state, cv_send_token)
]

def cfgDlc : Cfg := ⟨lock, reentrant, cvs, guardsDlc, tcoWriteExempt, tcoWaitExempt, tcoNotifyExempt⟩
def cfgRaw : Cfg := ⟨lock, reentrant, cvs, guardsRaw, tcoWriteExempt, tcoWaitExempt, tcoNotifyExempt⟩
def cfgLdl : Cfg := ⟨lock, reentrant, cvs, guardsLdl, tcoWriteExempt, tcoWaitExempt, tcoNotifyExempt⟩

end

def cfgLlc : Cfg := ⟨Llc.lock, Llc.reentrant, Llc.cvs, Llc.guardsAll, [], [], []⟩

/-! ## the discipline holds on the regenerated programs -/

/-- the side conditions about `tco.py` the translation relies on all hold -/
theorem tco_facts : Tco.facts.all (·.2) = true := by decide

/-- the side conditions about `llc.py` (and its relation to `tco.py`) all hold -/
theorem llc_facts : Llc.facts.all (·.2) = true := by decide

/-- the generated guard tables are exactly the guards of the reachable wait sites -/
theorem guard_tables :
    Tco.guardsDlc = guardsFor Tco.program Tco.reachDlc ∧ Tco.guardsRaw = guardsFor Tco.program Tco.reachRaw
    ∧ Tco.guardsLdl = guardsFor Tco.program Tco.reachLdl ∧ Llc.guardsAll = guardsFor Llc.program Llc.reachAll := by
  decide

/-- the generated reach lists are what the calls reach from the entry points -/
theorem reach_tables :
    sameSet Tco.reachDlc (reachFrom Tco.program 400 Tco.entriesDlc []) = true
    ∧ sameSet Tco.reachRaw (reachFrom Tco.program 400 Tco.entriesRaw []) = true
    ∧ sameSet Tco.reachLdl (reachFrom Tco.program 400 Tco.entriesLdl []) = true
    ∧ sameSet Llc.reachAll (reachFrom Llc.program 400 Llc.entriesAll []) = true := by
  decide

/-- **`DataLinkConnection` obeys the discipline** (with the exemption tables above) -/
theorem dlc_discipline_ok : disciplineOk cfgDlc Tco.program Tco.entriesDlc = true := by decide +kernel

theorem raw_discipline_ok : disciplineOk cfgRaw Tco.program Tco.entriesRaw = true := by decide +kernel

theorem ldl_discipline_ok : disciplineOk cfgLdl Tco.program Tco.entriesLdl = true := by decide +kernel

/-- all three socket classes of `tco.py` -/
theorem tco_discipline_ok :
    disciplineOk cfgDlc Tco.program Tco.entriesDlc = true ∧ disciplineOk cfgRaw Tco.program Tco.entriesRaw = true
    ∧ disciplineOk cfgLdl Tco.program Tco.entriesLdl = true :=
  ⟨dlc_discipline_ok, raw_discipline_ok, ldl_discipline_ok⟩

/-- **`llc.py` (controller, service access points, service discovery) obeys the discipline with no
exemption at all** -/
theorem llc_discipline_ok : disciplineOk cfgLlc Llc.program Llc.entriesAll = true := by decide +kernel

theorem llc_no_exemptions :
    cfgLlc.writeExempt = [] ∧ cfgLlc.waitExempt = [] ∧ cfgLlc.notifyExempt = [] := ⟨rfl, rfl, rfl⟩

/-! ## the invariant instantiated: no lost wake-up on the current source -/

/-- **C05/C09, `DataLinkConnection`**: any number of threads, each running any sequence of the
methods callable on a data link connection (application calls `send/recv/accept/connect/poll/close/...`
and the link thread's `enqueue/dequeue/sendack`), every interleaving, spurious wake-ups included; as
long as at most one thread waits on each condition notified by a plain `notify()`
(`tcoNotifyExempt`): every condition operation happens with the lock held and whenever the lock is
free no blocked thread's guard attributes were changed (by a write outside `tcoWriteExempt`) since
it started to wait. -/
theorem dlc_no_lost_wakeup (n : Nat) (σ : Sched n)
    (hthreads : ∀ i, ∃ full, ThreadRuns Tco.program Tco.entriesDlc full ∧ ∃ ext, proj σ i ++ ext = full) :
    runGood cfgDlc (G.init n) σ :=
  monitor_sound cfgDlc Tco.program Tco.entriesDlc dlc_discipline_ok n σ hthreads

/-- the same for raw access points and logical data links -/
theorem tco_no_lost_wakeup (n : Nat) (σ : Sched n) :
    ((∀ i, ∃ full, ThreadRuns Tco.program Tco.entriesRaw full ∧ ∃ ext, proj σ i ++ ext = full) →
      runGood cfgRaw (G.init n) σ) ∧
    ((∀ i, ∃ full, ThreadRuns Tco.program Tco.entriesLdl full ∧ ∃ ext, proj σ i ++ ext = full) →
      runGood cfgLdl (G.init n) σ) :=
  ⟨monitor_sound cfgRaw Tco.program Tco.entriesRaw raw_discipline_ok n σ,
   monitor_sound cfgLdl Tco.program Tco.entriesLdl ldl_discipline_ok n σ⟩

/-- **C09, `llc.py`**: threads in `resolve()` against the link thread's `dispatch/collect/terminate`
(and every other method of the controller, its service access points and service discovery): no
lost wake-up, without any exemption and without any single-waiter assumption. -/
theorem llc_no_lost_wakeup (n : Nat) (σ : Sched n)
    (hthreads : ∀ i, ∃ full, ThreadRuns Llc.program Llc.entriesAll full ∧ ∃ ext, proj σ i ++ ext = full) :
    runGood cfgLlc (G.init n) σ :=
  monitor_sound cfgLlc Llc.program Llc.entriesAll llc_discipline_ok n σ hthreads

/-- for `llc.py` the single-waiter assumption inside `runGood` is vacuous (there is no plain `notify`) -/
theorem llc_single_trivial {n : Nat} (g : G n) : Single cfgLlc g := by
  intro m cv h
  simp [cfgLlc, Cfg.nExempt] at h

/-! ## wait sites of the public blocking calls -/
section
open Tco

/-- for each blocking call of a data link connection: the wait sites it can reach
(method containing the wait, condition, guard kind, attributes read by the guard, timeout) -/
theorem tco_wait_sites :
    waitSitesFrom program m_DataLinkConnection_send =
      [(m_DataLinkConnection_send, cv_send_token, .whileG, [a_send_ack, a_send_cnt, a_send_win, a_state], false),
       (m_TransmissionControlObject_send, cv_send_ready, .noG, [], false)]
    ∧ waitSitesFrom program m_DataLinkConnection_recv =
      [(m_TransmissionControlObject_recv, cv_recv_ready, .exceptG, [a_recv_queue], false)]
    ∧ waitSitesFrom program m_DataLinkConnection_accept =
      [(m_TransmissionControlObject_recv, cv_recv_ready, .exceptG, [a_recv_queue], false)]
    ∧ waitSitesFrom program m_DataLinkConnection_connect =
      [(m_TransmissionControlObject_recv, cv_recv_ready, .exceptG, [a_recv_queue], false)]
    ∧ waitSitesFrom program m_DataLinkConnection_close =
      [(m_TransmissionControlObject_recv, cv_recv_ready, .exceptG, [a_recv_queue], false)]
    ∧ waitSitesFrom program m_DataLinkConnection_poll =
      [(m_DataLinkConnection__poll, cv_acks_ready, .ifG, [a_acks_recvd], true),
       (m_TransmissionControlObject_poll, cv_recv_ready, .ifG, [a_recv_queue], true),
       (m_TransmissionControlObject_poll, cv_send_ready, .ifG, [a_send_buf, a_send_queue], true)]
    ∧ waitSitesFrom program m_RawAccessPoint_send = [(m_TransmissionControlObject_send, cv_send_ready, .noG, [], false)]
    ∧ waitSitesFrom program m_RawAccessPoint_recv =
      [(m_TransmissionControlObject_recv, cv_recv_ready, .exceptG, [a_recv_queue], false)]
    ∧ waitSitesFrom program m_LogicalDataLink_sendto = [(m_TransmissionControlObject_send, cv_send_ready, .noG, [], false)]
    ∧ waitSitesFrom program m_LogicalDataLink_recvfrom =
      [(m_TransmissionControlObject_recv, cv_recv_ready, .exceptG, [a_recv_queue], false)]
    -- and there is no other wait site in tco.py
    ∧ (program.flatMap waitSites).length = 6 := by
  refine ⟨?_, ?_, ?_, ?_, ?_, ?_, ?_, ?_, ?_, ?_, ?_⟩ <;> decide

/-- the window wait of `DataLinkConnection.send` is the only wait on `send_token` and it is a `while` loop -/
theorem dlc_send_waits_in_a_loop :
    (program.flatMap waitSites).filter (fun x => x.2.1 == cv_send_token) =
      [(m_DataLinkConnection_send, cv_send_token, .whileG, [a_send_ack, a_send_cnt, a_send_win, a_state], false)] := by
  decide

/-- the plain `notify()` sites of tco.py are exactly the `tcoNotifyExempt` table -/
theorem tco_notify_sites :
    (program.flatMap notifySites).all (fun x => tcoNotifyExempt.contains x) = true
    ∧ tcoNotifyExempt.all (fun x => (program.flatMap notifySites).contains x) = true := by
  decide

/-- no exemption is superfluous: removing any single entry makes the check of `DataLinkConnection`
(or, for the `dequeue` notify of the base class, of `RawAccessPoint`) fail.  A write exemption whose
(method, attribute) is not a write site of the current source is vacuous (it exempts nothing); this
is the case of `DataLinkConnection.close / recv_queue` on a tree without the C05 repair. -/
theorem tco_exemptions_used :
    tcoWriteExempt.all (fun e =>
      !disciplineOk { cfgDlc with writeExempt := tcoWriteExempt.filter (· != e) } program entriesDlc
      || !(program.flatMap writeSites).contains (e.1, e.2.1)) = true
    ∧ tcoWaitExempt.all (fun e => !disciplineOk { cfgDlc with waitExempt := tcoWaitExempt.filter (· != e) }
      program entriesDlc) = true
    ∧ tcoNotifyExempt.all (fun e =>
        !disciplineOk { cfgDlc with notifyExempt := tcoNotifyExempt.filter (· != e) } program entriesDlc
        || !disciplineOk { cfgRaw with notifyExempt := tcoNotifyExempt.filter (· != e), writeExempt := [] }
             program [m_RawAccessPoint_dequeue]) = true := by
  decide +kernel

/-- rule 1 as the brief states it (every wait in a `while` loop) does NOT hold on the current tree:
without the wait exemptions already `poll`, `send`, `recv` of the base class fail -/
theorem tco_strict_rule1_fails :
    disciplineOk { cfgDlc with waitExempt := [] } program entriesDlc = false
    ∧ entryOk { cfgRaw with waitExempt := [] } program entriesRaw m_RawAccessPoint_recv = false
    ∧ entryOk { cfgRaw with waitExempt := [] } program entriesRaw m_RawAccessPoint_send = false
    ∧ entryOk { cfgRaw with waitExempt := [] } program entriesRaw m_RawAccessPoint_poll = false := by
  decide +kernel

/-- nor does rule 3 with `notify_all` only: the link thread's `enqueue`/`dequeue` use plain `notify()` -/
theorem tco_strict_notify_fails :
    entryOk { cfgDlc with notifyExempt := [] } program entriesDlc m_DataLinkConnection_enqueue = false
    ∧ entryOk { cfgDlc with notifyExempt := [] } program entriesDlc m_DataLinkConnection_dequeue = false
    ∧ entryOk { cfgRaw with notifyExempt := [] } program entriesRaw m_RawAccessPoint_enqueue = false := by
  decide +kernel

end

theorem llc_wait_sites :
    waitSitesFrom Llc.program Llc.m_LogicalLinkController_resolve =
      [(Llc.m_ServiceDiscovery_resolve, Llc.cv_Sd_resp, .whileG, [Llc.a_Sd_snl], false)]
    ∧ (Llc.program.flatMap waitSites).length = 1 ∧ Llc.program.flatMap notifySites = [] := by
  decide

/-! ## non-vacuity: concrete traces of the regenerated programs with a waiter that is woken -/
section
open Llc

/-- `resolve(name)`: take the lock, register the request, wait on `resp`, wake up, return -/
def resolveTrace : List Ev :=
  [.acq, .wr m_ServiceDiscovery_resolve a_Sd_tids, .wr m_ServiceDiscovery_resolve a_Sd_sdreq,
   .waitB m_ServiceDiscovery_resolve cv_Sd_resp [a_Sd_snl], .wake, .rel]

/-- `shutdown()` of the service discovery (link termination): `snl = None`, `resp.notify_all()` -/
def shutdownTrace : List Ev :=
  [.acq, .wr m_ServiceDiscovery_shutdown a_Sd_snl, .ntfAll cv_Sd_resp, .rel]

theorem resolve_thread_runs : ThreadRuns program entriesAll resolveTrace := by
  have h : Runs program (.call m_ServiceDiscovery_resolve) resolveTrace false := by
    refine Runs.call (s := s_ServiceDiscovery_resolve) (by rfl) ?_
    have inner : Runs program
        (.seq (.branch .exit .skip) (.seq (.tryc .exit .skip)
          (.seq (.branch (.write m_ServiceDiscovery_resolve a_Sd_tids) .exit)
            (.seq (.write m_ServiceDiscovery_resolve a_Sd_sdreq)
              (.seq (.loop (.tryc (.wait m_ServiceDiscovery_resolve cv_Sd_resp .whileG [a_Sd_snl] false) .skip)) .exit)))))
        ([] ++ ([] ++ [] ++ ([.wr m_ServiceDiscovery_resolve a_Sd_tids] ++ ([.wr m_ServiceDiscovery_resolve a_Sd_sdreq]
          ++ (([.waitB m_ServiceDiscovery_resolve cv_Sd_resp [a_Sd_snl], .wake] ++ []) ++ []))))) false :=
      Runs.seq (Runs.brR Runs.skip)
        (Runs.seq (Runs.tryCaught Runs.exit Runs.skip)
          (Runs.seq (Runs.brL Runs.write)
            (Runs.seq Runs.write
              (Runs.seq (Runs.loopS (Runs.tryOk Runs.wait) Runs.loop0) Runs.exit))))
    exact Runs.withLock inner
  have := ThreadRuns.cons (E := entriesAll) (m := m_ServiceDiscovery_resolve) (by decide) h ThreadRuns.nil
  simpa [resolveTrace] using this

theorem shutdown_thread_runs : ThreadRuns program entriesAll shutdownTrace := by
  have h : Runs program (.call m_ServiceDiscovery_shutdown) shutdownTrace true := by
    refine Runs.call (s := s_ServiceDiscovery_shutdown) (by rfl) ?_
    exact Runs.withLock (Runs.seq Runs.write Runs.notifyAll)
  have := ThreadRuns.cons (E := entriesAll) (m := m_ServiceDiscovery_shutdown) (by decide) h ThreadRuns.nil
  simpa [shutdownTrace] using this

/-- thread 0 blocks in `resolve`, thread 1 (link termination) shuts the service discovery down -/
def resolveSched : Sched 2 :=
  [(0, .acq, 0), (0, .wr m_ServiceDiscovery_resolve a_Sd_tids, 0), (0, .wr m_ServiceDiscovery_resolve a_Sd_sdreq, 0),
   (0, .waitB m_ServiceDiscovery_resolve cv_Sd_resp [a_Sd_snl], 0),
   (1, .acq, 0), (1, .wr m_ServiceDiscovery_shutdown a_Sd_snl, 0), (1, .ntfAll cv_Sd_resp, 0), (1, .rel, 0),
   (0, .wake, 0), (0, .rel, 0)]

/-- the hypotheses of `llc_no_lost_wakeup` are satisfiable by a real two-thread history of the
regenerated program; in it the thread blocked in `resolve()` is notified by `shutdown()` (state
`notified` after step 8, with the lock free and `snl` changed) and runs again -/
theorem resolve_wake_trace :
    (∀ i : Fin 2, ∃ full, ThreadRuns program entriesAll full ∧ ∃ ext, proj resolveSched i ++ ext = full)
    ∧ runGood cfgLlc (G.init 2) resolveSched
    ∧ (grun cfgLlc (G.init 2) (resolveSched.take 4)).map (fun g => (blockedOn (g.ts 0) cv_Sd_resp, g.holder)) = some (true, none)
    ∧ (grun cfgLlc (G.init 2) (resolveSched.take 8)).map (fun g => (g.ts 0, g.holder, g.ver a_Sd_snl cv_Sd_resp)) = some (.notified 1, none, 1)
    ∧ (grun cfgLlc (G.init 2) resolveSched).map (fun g => (g.ts 0, g.holder, lostB g)) = some (.run, none, false) := by
  have hth : ∀ i : Fin 2, ∃ full, ThreadRuns program entriesAll full ∧ ∃ ext, proj resolveSched i ++ ext = full := by
    intro i
    match i with
    | 0 => exact ⟨resolveTrace, resolve_thread_runs, [], by decide⟩
    | 1 => exact ⟨shutdownTrace, shutdown_thread_runs, [], by decide⟩
  exact ⟨hth, llc_no_lost_wakeup 2 resolveSched hth, by decide, by decide, by decide⟩

end

section
open Tco

/-- thread 0: `DataLinkConnection.send` finds the window closed and waits on `send_token`;
thread 1 (link thread): `_enqueue_state_established` processes an acknowledgement
(`acks_recvd += acks; acks_ready.notify_all(); send_token.notify(); send_ack = N(R)`) -/
def dlcSched : Sched 2 :=
  [(0, .acq, 0),
   (0, .waitB m_DataLinkConnection_send cv_send_token [a_send_ack, a_send_cnt, a_send_win, a_state], 0),
   (1, .acq, 0), (1, .wr m_DataLinkConnection__enqueue_state_established a_acks_recvd, 0),
   (1, .ntfAll cv_acks_ready, 0), (1, .ntf m_DataLinkConnection__enqueue_state_established cv_send_token, 0),
   (1, .wr m_DataLinkConnection__enqueue_state_established a_send_ack, 0), (1, .rel, 0),
   (0, .wake, 0)]

/-- the blocked sender is notified inside the region that changes `send_ack` (the notification comes
BEFORE the write, which is fine because the lock is held), and runs again with the lock -/
theorem dlc_wake_trace :
    (grun cfgDlc (G.init 2) (dlcSched.take 2)).map (fun g => (blockedOn (g.ts 0) cv_send_token, g.holder)) = some (true, none)
    ∧ (grun cfgDlc (G.init 2) (dlcSched.take 8)).map (fun g => (g.ts 0, g.holder, g.ver a_send_ack cv_send_token, lostB g))
        = some (.notified 1, none, 1, false)
    ∧ (grun cfgDlc (G.init 2) dlcSched).map (fun g => (g.ts 0, g.holder, g.depth)) = some (.run, some 0, 1) := by
  refine ⟨?_, ?_, ?_⟩ <;> decide

end

end NfcVerif.MonitorProps
