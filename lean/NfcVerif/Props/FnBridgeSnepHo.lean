import NfcVerif.Lemmas.FnBridgeSnepHo
import NfcVerif.Props.C06
/-!
# Bridge theorems, group SnepHo (`nfc/snep/client.py`, `nfc/snep/server.py`, `nfc/handover/server.py`,
`nfc/handover/client.py` -> `Gen/FnSnepHo.lean` -> `Model/FnSnepHoRef.lean`, `Model/SnepObj.lean`, `Model/SnepChannel.lean`)

Properties C06 (acceptable length, fragmentation, client histories), C07 (empty first fragment), C09 (listen loops end
with the link).  The cuts are listed in `harness/fnspecs/snepho.py`.  All socket calls are oracle parameters of type
`.. -> Py ..`; every theorem holds for every oracle.

* `recv_response_bridge`: the whole `recv_response` is `FnSnepHoRef.recvResponse` (header checks, acceptable length in
  front of the Continue request, reassembly loop with the same fuel);
* `srv_respond_bridge`, `ho_respond_bridge`: the response fragment loops are `sendEach` / `sendWhile` over `Chan.chunks`
  (send MIU >= 1);
* `listen_loop_bridge`, `ho_listen_loop_bridge`: the accept loops are `listenLoop` (no handler inside the loop);
* `put_release_bridge`, `get_release_bridge`, `request_release_bridge`, `finally_bridge`: `release_connection` bookkeeping;
  `SnepObj.request` (C06 client-history model, `sticky := false`) is the composition of the regenerated pieces;
* `close_bridge`, `connect_bridge`, `exchange_calls_bridge`: `SnepClient.close` / `connect`, the calls of
  `send_request` / `recv_response` with their arguments;
* `process_bridge`, `handlers_bridge`: `process_snep_request` dispatch and its handlers;
* `ho_guard_bridge`, `ho_step_bridge`, `ho_modes_bridge`, `serve_pieces_bridge`: pieces of the serve loops at pinned positions;
* `gen_*`: the property statements for the regenerated code.
-/
namespace NfcVerif.FnBridge.SnepHo
open NfcVerif NfcVerif.PyFn NfcVerif.Chan NfcVerif.Snep NfcVerif.FnSnepHoRef NfcVerif.FnBridge NfcVerif.FnBridge.Snep

/-! ## bridges -/

theorem recv_response_bridge (fuel : Nat) (acc timeout : Int) (poll : String → Int → Py Bool) (recv : Py Bytes)
    (send : Bytes → Py Bool) :
    Gen.Fn.sh_recv_response fuel acc timeout poll recv send = recvResponse fuel acc (poll "recv" timeout) recv send := by
  unfold Gen.Fn.sh_recv_response recvResponse
  cases poll "recv" timeout with
  | error e => rfl
  | ok b =>
    cases b with
    | false => rfl
    | true =>
      cases recv with
      | error e => rfl
      | ok r =>
        simp only [Py.bind_ok, if_true]
        by_cases h6 : r.length < 6
        · have : PyFn.len r < 6 := by rw [len_eq]; omega
          rw [if_pos this, if_pos h6]
        · have : ¬ PyFn.len r < 6 := by rw [len_eq]; omega
          rw [if_neg this, if_neg h6]
          have e0 : PyFn.sliceTo r 6 = r.take 6 := sliceTo_ofNat r 6
          have hx : needExact (r.take 6) 6 = if (r.take 6).length = 6 then .ok () else .error .struct := needExact_nat _ 6
          have h6' : (r.take 6).length = 6 := by rw [List.length_take]; omega
          have e3 : ube (r.take 6) (0 + 2) 4 = ((rspLength r : Nat) : Int) := ube_nat _ 2 4
          rw [e0, hx, if_pos h6']
          simp only [Py.bind_ok, e3]
          by_cases hb : ((rspLength r : Nat) : Int) > acc
          · rw [if_pos hb, if_pos hb]
          · rw [if_neg hb, if_neg hb]
            by_cases hm : PyFn.len r - 6 < ((rspLength r : Nat) : Int)
            · have hm' : (r.length : Int) - 6 < ((rspLength r : Nat) : Int) := by rw [← len_eq]; exact hm
              rw [if_pos hm, if_pos hm']
              show (send contReq >>= _) = _
              cases send contReq with
              | error e => rfl
              | ok b => exact whileC_reasm (Except.ok true) (Except.ok r) (rspLength r) fuel r
            · have hm' : ¬ (r.length : Int) - 6 < ((rspLength r : Nat) : Int) := by rw [← len_eq]; exact hm
              rw [if_neg hm, if_neg hm']


theorem srv_respond_bridge (data : Bytes) (miu : Nat) (hm : 0 < miu) (recv : Py Bytes) (send : Bytes → Py Bool) :
    Gen.Fn.sh_srv_respond data (miu : Int) recv send = srvRespond data miu recv send := by
  unfold Gen.Fn.sh_srv_respond srvRespond
  simp only [len_eq, Int.ofNat_le]
  by_cases hfit : data.length ≤ miu
  · rw [if_pos hfit, if_pos hfit]
    cases send data with
    | error e => rfl
    | ok b => rfl
  · rw [if_neg hfit, if_neg hfit, slice_zero_nat]
    cases send (data.take miu) with
    | error e => rfl
    | ok b =>
      cases recv with
      | error e => rfl
      | ok m =>
        simp only [Py.bind_ok]
        by_cases hc : m = [16, 0, 0, 0, 0, 0]
        · have hc' : m = contReq := hc
          rw [if_pos hc, if_pos hc', rangeStep_frags miu data.length hm (by omega)]
          simp only [Py.bind_ok]
          have hfe := forM_sendEach send (fun (offset : Int) => slice data offset (offset + (miu : Int)))
            ((List.range (nfrag miu (data.length - miu))).map (fun i => (((i + 1) * miu : Nat) : Int)))
          rw [List.map_map] at hfe
          have hfg := fragsGen_eq (fun d a m => slice d a (a + m)) (fun _ _ _ => rfl) data miu hm
          unfold fragsGen at hfg
          have hl : (List.map ((fun (offset : Int) => slice data offset (offset + (miu : Int))) ∘ fun i => (((i + 1) * miu : Nat) : Int))
              (List.range (nfrag miu (data.length - miu)))) = chunks miu (data.drop miu) := hfg
          rw [hl] at hfe
          rw [hfe]
          cases sendEach send (chunks miu (List.drop miu data)) with
          | error e => rfl
          | ok u => rfl
        · have hc' : ¬ m = contReq := hc
          rw [if_neg hc, if_neg hc']
          rfl

theorem ho_respond_bridge (response : Bytes) (miu : Nat) (hm : 0 < miu) (send : Bytes → Py Bool) :
    Gen.Fn.sh_ho_respond response (miu : Int) send
      = match hoRespond response miu send with
        | .error e => .error e
        | .ok _ => .ok none := by
  unfold Gen.Fn.sh_ho_respond hoRespond
  have ho := HoClient.offsets_bridge response miu hm
  unfold Gen.Fn.hc_srv_offsets at ho
  rw [ho]
  simp only [Py.bind_ok]
  have hf := forC_sendWhile send (fun (offset : Int) => slice response offset (offset + (miu : Int)))
    ((List.range (nfrag miu response.length)).map (fun i => (((i * miu : Nat)) : Int)))
  rw [List.map_map] at hf
  have hg := ho_srv_frags_bridge miu hm response
  have hl : List.map ((fun (offset : Int) => slice response offset (offset + (miu : Int))) ∘ fun i => (((i * miu : Nat)) : Int))
      (List.range (nfrag miu response.length)) = chunks miu response := hg
  rw [hl] at hf
  rw [hf]
  cases sendWhile send (chunks miu response) with
  | error e => rfl
  | ok b => cases b <;> rfl

theorem listen_loop_bridge (fuel : Nat) (ct : Int) (start : Py Unit) (accept : Py Int) :
    Gen.Fn.sh_listen_loop fuel ct start accept = listenLoop accept start fuel := by
  unfold Gen.Fn.sh_listen_loop
  induction fuel with
  | zero => rfl
  | succ n ih =>
    unfold listenLoop
    simp only [PyFn.whileM, decide_true]
    cases accept with
    | error e => rfl
    | ok s =>
      cases start with
      | error e => rfl
      | ok u => simpa using ih

theorem ho_listen_loop_bridge (fuel : Nat) (ct : Int) (start : Py Unit) (accept : Py Int) :
    Gen.Fn.sh_ho_listen_loop fuel ct start accept = listenLoop accept start fuel := by
  unfold Gen.Fn.sh_ho_listen_loop
  induction fuel with
  | zero => rfl
  | succ n ih =>
    unfold listenLoop
    simp only [PyFn.whileM, decide_true]
    cases accept with
    | error e => rfl
    | ok s =>
      cases start with
      | error e => rfl
      | ok u => simpa using ih


theorem put_release_bridge {α} (s : Option α) : putReleaseGen (sockTok s) = releaseAfter s.isSome := by
  cases s <;> simp [putReleaseGen, sockTok, releaseAfter, Gen.Fn.sh_put_need_connect, Gen.Fn.sh_put_release_opened,
    Gen.Fn.sh_put_release_kept]

theorem get_release_bridge {α} (s : Option α) : getReleaseGen (sockTok s) = releaseAfter s.isSome := by
  cases s <;> simp [getReleaseGen, sockTok, releaseAfter, Gen.Fn.sh_get_need_connect, Gen.Fn.sh_get_release_opened,
    Gen.Fn.sh_get_release_kept]

theorem request_release_bridge (w : SnepObj.World) (fuel : Nat) (o : SnepObj.Obj) (op : Op) (octets : Bytes) :
    SnepObj.request w fuel false o op octets = requestGen w fuel o op octets := by
  unfold SnepObj.request requestGen
  cases h : o.sock with
  | none =>
    simp only [sockTok, Gen.Fn.sh_put_need_connect, Gen.Fn.sh_put_release_opened, Option.map_none]
    rfl
  | some c =>
    simp [sockTok, Gen.Fn.sh_put_need_connect, Gen.Fn.sh_put_release_kept]

theorem finally_bridge (release : Bool) (close : Py Unit) :
    Gen.Fn.sh_put_finally release close = (if release = true then close else .ok ())
    ∧ Gen.Fn.sh_get_finally release close = (if release = true then close else .ok ()) := by
  unfold Gen.Fn.sh_put_finally Gen.Fn.sh_get_finally
  cases release <;> cases close <;> exact ⟨rfl, rfl⟩

theorem close_bridge (sock : Option Int) (sclose : Py Unit) :
    Gen.Fn.sh_close sock sclose
      = (match sock with
         | none => .ok none
         | some s => if s ≠ 0 then (match sclose with | .error e => .error e | .ok _ => .ok none) else .ok (some s))
    ∧ Gen.Fn.sh_ho_close sock sclose = Gen.Fn.sh_close sock sclose := by
  unfold Gen.Fn.sh_close Gen.Fn.sh_ho_close
  refine ⟨?_, rfl⟩
  cases sock with
  | none => rfl
  | some s =>
    by_cases h : s ≠ 0
    · simp only [if_pos h]
      cases sclose <;> rfl
    · simp only [if_neg h]
      rfl

theorem connect_bridge (name : String) (llc dlc so : Int) (mksock : Int → Int → Py Int) (close : Py Unit)
    (sconnect : String → Py Unit) (getsockopt : Int → Py Int) :
    Gen.Fn.sh_connect name llc dlc so mksock close sconnect getsockopt
      = (match close with
         | .error e => .error e
         | .ok _ =>
           match mksock llc dlc with
           | .error e => .error e
           | .ok _ =>
             match sconnect name with
             | .error e => .error e
             | .ok _ => getsockopt so) := by
  unfold Gen.Fn.sh_connect
  cases close with
  | error e => rfl
  | ok u =>
    cases mksock llc dlc with
    | error e => rfl
    | ok sk =>
      cases sconnect name with
      | error e => rfl
      | ok u2 => cases getsockopt so <;> rfl

theorem ho_guard_bridge (request : Bytes) : Gen.Fn.sh_ho_guard request = decide (request = []) := by
  unfold Gen.Fn.sh_ho_guard
  cases request with
  | nil => rfl
  | cons a t =>
    have : ¬ (PyFn.len (a :: t) = 0) := by rw [len_eq, List.length_cons]; omega
    simp [this]

theorem ho_step_bridge (complete : Bytes → Bool) (request : Bytes) : hoStepGen complete request = hoStep complete request := by
  unfold hoStepGen hoStep
  rw [ho_guard_bridge]
  simp

theorem ho_modes_bridge : Gen.Fn.sh_ho_complete_mode = completeMode ∧ Gen.Fn.sh_ho_process_mode = processMode
    ∧ Gen.Fn.sh_ho_complete_mode ≠ Gen.Fn.sh_ho_process_mode := by
  refine ⟨rfl, rfl, ?_⟩
  decide

theorem serve_pieces_bridge (data received : Bytes) (recv : Py Bytes) (send : Bytes → Py Bool) :
    Gen.Fn.sh_srv_more_first recv send = send contRsp
    ∧ Gen.Fn.sh_srv_append data received = data ++ received
    ∧ Gen.Fn.sh_srv_first recv send = recv := by
  refine ⟨rfl, rfl, ?_⟩
  unfold Gen.Fn.sh_srv_first
  cases recv <;> rfl

theorem handlers_bridge : Gen.Fn.sh_process_bad = (0xC2, []) ∧ Gen.Fn.sh_process_notfound = (0xC0, [])
    ∧ Gen.Fn.sh_ho_recv_closed = [] ∧ (∀ e : Int, Gen.Fn.sh_listen_debug e = decide (e = 32)) :=
  ⟨rfl, rfl, rfl, fun _ => rfl⟩

theorem exchange_calls_bridge (request : Bytes) (sock miu acc timeout : Int) (rr : Int → Int → Int → Py (Option Bytes))
    (sr : Int → Bytes → Int → Py Bool) :
    Gen.Fn.sh_put_send_test request sock miu rr sr = (match sr sock request miu with | .error e => .error e | .ok b => .ok (!b))
    ∧ Gen.Fn.sh_get_send_test request sock miu rr sr = (match sr sock request miu with | .error e => .error e | .ok b => .ok (!b))
    ∧ Gen.Fn.sh_put_recv_call timeout sock rr sr = rr sock 0 timeout
    ∧ Gen.Fn.sh_get_recv_call timeout sock acc rr sr = rr sock acc timeout := by
  unfold Gen.Fn.sh_put_send_test Gen.Fn.sh_get_send_test
  refine ⟨?_, ?_, rfl, rfl⟩ <;> (cases sr sock request miu with | error e => rfl | ok b => cases b <;> rfl)

theorem process_bridge (d : Bytes) (records : Int) (isInt : Bool) (encoded : Bytes) (onGet onPut : Int → Py Int) :
    Gen.Fn.sh_process d records isInt encoded onGet onPut = processDispatch d records isInt encoded onGet onPut := by
  unfold Gen.Fn.sh_process processDispatch
  match d with
  | [] => simp [getB_nil]
  | [a] => simp [getB_one, getB_nil]
  | a :: code :: t =>
    have hg : PyFn.getB (a :: code :: t) 1 = .ok (code : Int) := by rw [getB_one, getB_zero]
    simp only [hg, Py.bind_ok, len_eq]
    by_cases hget : code = 1 ∧ 10 ≤ (a :: code :: t).length
    · have hget' : ((code : Int) = 1) ∧ (((a :: code :: t).length : Int) ≥ 10) := ⟨by omega, by omega⟩
      rw [if_pos hget', if_pos hget]
      have e0 : slice (a :: code :: t) 6 10 = ((a :: code :: t).drop 6).take 4 := slice_nat _ 6 10
      have hl : (((a :: code :: t).drop 6).take 4).length = 4 := by
        rw [List.length_take, List.length_drop]; omega
      have hx : needExact (((a :: code :: t).drop 6).take 4) 4
          = if (((a :: code :: t).drop 6).take 4).length = 4 then .ok () else .error .struct := needExact_nat _ 4
      rw [if_pos hl] at hx
      have e3 : ube (((a :: code :: t).drop 6).take 4) 0 4 = ((beNat (((a :: code :: t).drop 6).take 4) : Nat) : Int) := by
        have := ube_nat (((a :: code :: t).drop 6).take 4) 0 4
        simpa [List.take_take] using this
      rw [e0, hx]
      simp only [Py.bind_ok, e3]
      cases onGet records with
      | error e => rfl
      | ok rsp =>
        simp only [Py.bind_ok]
        cases isInt with
        | true =>
          simp
          rw [if_neg (by omega)]
          exact ⟨rfl, rfl⟩
        | false =>
          simp only [Bool.false_eq_true, if_false, len_eq]
          by_cases hx2 : encoded.length > beNat (((a :: code :: t).drop 6).take 4)
          · have : ((encoded.length : Nat) : Int) > ((beNat (((a :: code :: t).drop 6).take 4) : Nat) : Int) := by omega
            simp [hx2, this]
          · have : ¬ ((encoded.length : Nat) : Int) > ((beNat (((a :: code :: t).drop 6).take 4) : Nat) : Int) := by omega
            simp [hx2, this]
    · have hget' : ¬ (((code : Int) = 1) ∧ (((a :: code :: t).length : Int) ≥ 10)) := by
        intro h; exact hget ⟨by omega, by omega⟩
      rw [if_neg hget', if_neg hget]
      by_cases h2 : code = 2
      · have h2' : (code : Int) = 2 := by omega
        rw [if_pos h2', if_pos h2]
        cases onPut records <;> rfl
      · have h2' : ¬ (code : Int) = 2 := by omega
        rw [if_neg h2', if_neg h2]
        rfl

/-! ## property statements for the regenerated code -/

/-- C06 (acceptable length, client side): a response whose header announces more than the acceptable length is never
returned by the regenerated `recv_response`, complete or as a first fragment, whatever the socket does afterwards -/
theorem gen_recv_oversize_dropped (fuel : Nat) (acc timeout : Int) (poll : String → Int → Py Bool) (r : Bytes)
    (send : Bytes → Py Bool) (hp : poll "recv" timeout = .ok true) (h : (rspLength r : Int) > acc) :
    Gen.Fn.sh_recv_response fuel acc timeout poll (.ok r) send = .ok none := by
  rw [recv_response_bridge]
  exact recvResponse_oversize fuel acc _ r send hp h

/-- C09: every exception of `accept()` - every `nfc.llcp.Error`, whatever its errno - ends both regenerated listen loops -/
theorem gen_listen_ends_on_any_error (fuel : Nat) (ct : Int) (start : Py Unit) (e : Exc) :
    Gen.Fn.sh_listen_loop (fuel + 1) ct start (.error e) = .error e
    ∧ Gen.Fn.sh_ho_listen_loop (fuel + 1) ct start (.error e) = .error e := by
  rw [listen_loop_bridge, ho_listen_loop_bridge]
  exact ⟨rfl, rfl⟩

/-- ... and nothing but an exception ends them -/
theorem gen_listen_only_exception (fuel : Nat) (ct s : Int) :
    Gen.Fn.sh_listen_loop fuel ct (.ok ()) (.ok s) = .error .outOfFuel := by
  rw [listen_loop_bridge]
  exact listenLoop_only_exception s fuel

/-- C06 (client histories): `release_connection` is true iff the connection was opened by that very call -/
theorem gen_release_iff {α} (s : Option α) :
    (putReleaseGen (sockTok s) = true ↔ s = none) ∧ (getReleaseGen (sockTok s) = true ↔ s = none) := by
  rw [put_release_bridge, get_release_bridge]
  cases s <;> simp [releaseAfter]

/-- C07: an empty reassembly buffer never reaches the completeness test nor `records[0]` -/
theorem gen_ho_empty_never_processed (complete : Bytes → Bool) : hoStepGen complete [] = .needData := by
  rw [ho_step_bridge]
  rfl

/-- C06: the fragments the regenerated SNEP server response loop offers (peer sent Continue, socket accepts) are the
model's `Chan.fragments`, which concatenate to the response -/
theorem gen_respond_offers_fragments (data : Bytes) (miu : Nat) (hm : 0 < miu) (hbig : ¬ data.length ≤ miu)
    (send : Bytes → Py Bool) :
    Gen.Fn.sh_srv_respond data (miu : Int) (.ok contReq) send = sendEach send (fragments miu data)
    ∧ (fragments miu data).flatten = data := by
  refine ⟨?_, ?_⟩
  · rw [srv_respond_bridge data miu hm]
    unfold srvRespond fragments
    rw [if_neg hbig]
    simp only [sendEach]
    cases send (data.take miu) <;> simp
  · have hd : data ≠ [] := by intro h; subst h; simp at hbig
    exact ((C06.frag_concat miu hm data).2 hd).1

/-- C06: a GET response longer than the acceptable length of the request is answered ExcessData with no octet of it -/
theorem gen_process_excess (a : Nat) (t : Bytes) (hl : 10 ≤ (a :: 1 :: t).length)
    (records rsp : Int) (encoded : Bytes) (onGet onPut : Int → Py Int) (hg : onGet records = .ok rsp)
    (hx : encoded.length > beNat (((a :: 1 :: t).drop 6).take 4)) :
    Gen.Fn.sh_process (a :: 1 :: t) records false encoded onGet onPut = .ok (0xC1, []) := by
  rw [process_bridge]
  exact process_excess _ a 1 t rfl rfl hl records rsp encoded onGet onPut hg hx

/-! ## non-vacuity -/

/-- a complete two-octet response under a 10-octet limit is returned; announced 300 octets are refused -/
example : Gen.Fn.sh_recv_response 3 10 1 (fun _ _ => .ok true) (.ok [0x10, 0x81, 0, 0, 0, 2, 7, 8]) (fun _ => .ok true)
    = .ok (some [0x10, 0x81, 0, 0, 0, 2, 7, 8]) := by decide
example : Gen.Fn.sh_recv_response 3 10 1 (fun _ _ => .ok true) (.ok [0x10, 0x81, 0, 0, 1, 44, 7, 8]) (fun _ => .ok true)
    = .ok none := by decide
/-- fragmented: Continue is sent, the oracle repeats its answer until the announced length is there -/
example : Gen.Fn.sh_recv_response 5 100 1 (fun _ _ => .ok true) (.ok [0x10, 0x81, 0, 0, 0, 10, 7, 8]) (fun _ => .ok true)
    = .ok (some [0x10, 0x81, 0, 0, 0, 10, 7, 8, 0x10, 0x81, 0, 0, 0, 10, 7, 8]) := by decide
example : Gen.Fn.sh_listen_loop 5 0 (.ok ()) (.error (.llcp 108)) = .error (.llcp 108) := by decide
example : Gen.Fn.sh_srv_respond [1, 2, 3, 4, 5] 2 (.ok contReq) (fun f => if f = [5] then .error .brokenLink else .ok true)
    = .error .brokenLink := by decide
example : Gen.Fn.sh_ho_respond [1, 2, 3, 4, 5] 2 (fun f => .ok (decide (f ≠ [3, 4]))) = .ok none := by decide
example : hoRespond [1, 2, 3, 4, 5] 2 (fun f => .ok (decide (f ≠ [3, 4]))) = .ok false := by decide
example : putReleaseGen (sockTok (none : Option Nat)) = true ∧ putReleaseGen (sockTok (some 7)) = false := by decide
example : Gen.Fn.sh_process [0x10, 1, 0, 0, 0, 4, 0, 0, 0, 2] 0 false [1, 2, 3] (fun _ => .ok 0) (fun _ => .ok 0x81)
    = .ok (0xC1, []) := by decide
example : Gen.Fn.sh_process [0x10, 2, 0, 0, 0, 0] 0 false [] (fun _ => .ok 0) (fun _ => .ok 0x81) = .ok (0x81, []) := by decide
example : Gen.Fn.sh_close (some 5) (.ok ()) = .ok none := by decide
example : hoStepGen (fun _ => true) [] = .needData ∧ hoStepGen (fun _ => true) [0xd0, 0, 0] = .process := by decide

end NfcVerif.FnBridge.SnepHo
