import NfcVerif.Gen.FnRcs380Rf
import NfcVerif.Model.FnRcs380RfRef
import NfcVerif.Lemmas.FnBridgeRcs380Rf
import NfcVerif.Props.FnBridgePn53xRf
import NfcVerif.Props.FnBridgeRcs380
import NfcVerif.Props.FnBridgeCrc
/-!
# Bridge theorems, group Rcs380Rf (`nfc/clf/rcs380.py` -> `Gen/FnRcs380Rf.lean` -> `Model/FnRcs380RfRef.lean`)

Properties C18 / C19 (what `sense_*` / `listen_*` of the RC-S380 driver return for which chip answer, which first
command is accepted as which target type, ATR_REQ length, DID rules), C13 (timeout arithmetic never leaves the 16 bit
field of InCommRF - no `struct.error` -, which slices raise what; the status word mapping itself is
`Props/FnBridgeRcs380.lean` `comm_err_eq_bridge` / `in_comm_rf_bridge` / `tg_comm_rf_bridge` and
`Props/FnBridgeErrMap.lean`, not re-proved here), C14 (InCommRF command data; the Type 2 Tag CRC_A check of
`_tt2_send_cmd_recv_rsp` against `Model/Crc.lean`).  Every regenerated definition is a pure slice of a driver method
between two chipset calls.  `Gen/FnRcs380Rf.lean` is regenerated from the source on every run.

Agreement with the PN53x family (`Model/FnPn53xRfRef.lean`, `Props/FnBridgePn53xRf.lean`) is proved where both drivers
must deliver the same thing: cascade tag insertion (`tta_uid_agrees`), the Type 2 Tag test on SEL_RES
(`lta_is_tt2_agrees`), the fields of the returned LocalTarget (`lta_fields_agree`), default polling frames, PSL_RES.
-/
namespace NfcVerif.FnBridge.Rcs380Rf
open NfcVerif NfcVerif.PyFn NfcVerif.FnRcs380RfRef NfcVerif.FnPn53xRfRef NfcVerif.FnBridge.HostLink

/-! ## Chipset -/

theorem in_comm_timeout_bridge (ms : Nat) : Gen.Fn.rrf_in_comm_timeout ms = (inCommTimeout ms : Int) := by
  unfold Gen.Fn.rrf_in_comm_timeout inCommTimeout imin
  by_cases h : ms = 0
  · subst h; simp
  · have h1 : ((ms : Int) > 0) := by omega
    simp only [h1, if_true, h, if_false]
    by_cases h2 : (ms + 1) * 10 ≤ 65535
    · rw [Nat.min_eq_left h2]
      have : ¬ ((65535 : Int) < ((ms : Int) + 1) * 10) := by omega
      simp only [this, if_false]; omega
    · rw [Nat.min_eq_right (by omega)]
      have : ((65535 : Int) < ((ms : Int) + 1) * 10) := by omega
      simp only [this, if_true]; omega

/-- a negative timeout is passed on times ten (and fails to pack: `in_comm_cmd_neg`) -/
theorem in_comm_timeout_neg (t : Int) (h : t < 0) : Gen.Fn.rrf_in_comm_timeout t = t * 10 := by
  unfold Gen.Fn.rrf_in_comm_timeout imin
  have h1 : ¬ (t > 0) := by omega
  have h2 : ¬ ((65535 : Int) < (t + 0) * 10) := by omega
  simp only [h1, if_false, h2]; omega

theorem in_comm_cmd_bridge (data : Bytes) (t : Nat) : Gen.Fn.rrf_in_comm_cmd data t = inCommCmd data t := by
  unfold Gen.Fn.rrf_in_comm_cmd inCommCmd le16
  simp only [pack_cons, pack_nil, packField_Hle]
  by_cases h : t < 65536 <;> simp [h]

theorem set_protocol_data_bridge (d : Option Bytes) : Gen.Fn.rrf_set_protocol_data d = settingsOf d := by
  cases d <;> rfl
theorem tg_set_protocol_data_bridge (d : Option Bytes) : Gen.Fn.rrf_tg_set_protocol_data d = settingsOf d := by
  cases d <;> rfl

theorem set_item_aux (k v : Int) : PyFn.mkBytes [k, v] = settingItem k v := by
  unfold settingItem
  by_cases hk : 0 ≤ k ∧ k ≤ 255
  · obtain ⟨kn, rfl⟩ := Int.eq_ofNat_of_zero_le hk.1
    have hk' : kn < 256 := by omega
    by_cases hv : 0 ≤ v ∧ v ≤ 255
    · obtain ⟨vn, rfl⟩ := Int.eq_ofNat_of_zero_le hv.1
      have hv' : vn < 256 := by omega
      simp only [mkBytes_cons, mkBytes_nil, hk', hv', if_true, Py.bind_ok, hk, hv, and_self, Int.toNat_natCast]
    · simp only [mkBytes_cons, hk', if_true, hk, and_self, hv, if_false]
      rw [mkBytes_bad v [] (by omega)]; rfl
  · simp only [hk, if_false]
    exact mkBytes_bad k [v] (by omega)

theorem set_protocol_item_bridge (v k : Int) : Gen.Fn.rrf_set_protocol_item v k = settingItem k v := set_item_aux k v
theorem tg_set_protocol_item_bridge (v k : Int) : Gen.Fn.rrf_tg_set_protocol_item v k = settingItem k v := set_item_aux k v

theorem set_protocol_send_bridge (d : Bytes) : Gen.Fn.rrf_set_protocol_send d = decide (d ≠ []) := by
  unfold Gen.Fn.rrf_set_protocol_send
  cases d <;> simp [len_eq]

theorem tg_comm_transmit_bridge (p : Bytes) (tx : Option Bytes) : Gen.Fn.rrf_tg_comm_transmit p tx = tgCommData p tx := by
  unfold Gen.Fn.rrf_tg_comm_transmit tgCommData
  cases tx with
  | none => simp
  | some s => by_cases h : s = [] <;> simp [h]

theorem reset_arg_bridge (n : Nat) : Gen.Fn.rrf_reset_arg n = if n < 65536 then .ok (le16 n) else .error .struct := by
  unfold Gen.Fn.rrf_reset_arg le16
  simp only [pack_cons, pack_nil, packField_Hle]
  by_cases h : n < 65536 <;> simp [h]

theorem max_send_bridge (t : Int) : Gen.Fn.rrf_max_send t = maxData := rfl
theorem max_recv_bridge (t : Int) : Gen.Fn.rrf_max_recv t = maxData := rfl

/-! ## sense_tta -/

theorem tta_brty_bad_bridge (b : String) : Gen.Fn.rrf_tta_brty_bad b = decide (¬ brtyA b) := rfl
theorem ttb_brty_bad_bridge (b : String) : Gen.Fn.rrf_ttb_brty_bad b = decide (¬ brtyB b) := rfl
theorem ttf_brty_bad_bridge (b : String) : Gen.Fn.rrf_ttf_brty_bad b = decide (¬ brtyF b) := rfl

theorem or_default_aux (o : Option Bytes) (d : Bytes) :
    (match o with | none => d | some s => (if s ≠ [] then s else d)) = orDefault o d := by
  unfold orDefault
  cases o with
  | none => rfl
  | some s => cases s <;> simp

theorem tta_sens_req_bridge (o : Option Bytes) : Gen.Fn.rrf_tta_sens_req o = orDefault o defaultSensReq :=
  or_default_aux o _
theorem ttb_req_bridge (o : Option Bytes) : Gen.Fn.rrf_ttb_req o = orDefault o defaultSensbReq :=
  or_default_aux o _
theorem ttf_req_bridge (o : Option Bytes) : Gen.Fn.rrf_ttf_req o = orDefault o defaultSensfReq :=
  or_default_aux o _

theorem tta_sens_bad_bridge (s : Bytes) : Gen.Fn.rrf_tta_sens_bad s = sensResBad s := by
  unfold Gen.Fn.rrf_tta_sens_bad sensResBad
  simp only [lit_cast, len_eq, ne_eq, Int.natCast_inj]

theorem tta_is_tt1_bridge (s : Bytes) : Gen.Fn.rrf_tta_is_tt1 s = sensIsTt1 s := by
  unfold Gen.Fn.rrf_tta_is_tt1 sensIsTt1
  simp only [lit_cast, getB_bind, band_ofNat, Int.natCast_inj, and31]

theorem tta_tt1_rid_bridge (s : Bytes) : Gen.Fn.rrf_tta_tt1_rid s = sensTt1Rid s := by
  unfold Gen.Fn.rrf_tta_tt1_rid sensTt1Rid
  simp only [lit_cast, getB_bind, band_ofNat, Int.natCast_inj, and15]

theorem tta_rid_cmd_bridge : Gen.Fn.rrf_tta_rid_cmd = ridCmd := rfl

theorem tta_uid_bridge (u : Bytes) : Gen.Fn.rrf_tta_uid u = ttaUid u := Pn53xRf.tta_uid_aux u

theorem tta_sel_req_bridge (uid : Bytes) (i c b : Nat) : Gen.Fn.rrf_tta_sel_req uid i c b = selReq uid i c b := by
  unfold Gen.Fn.rrf_tta_sel_req selReq
  simp only [lit_cast, mkBytes_cons, mkBytes_nil, ← Int.natCast_add, slice_ofNat, sliceN]
  by_cases hc : c < 256 <;> by_cases hb : b < 256 <;> simp [hc, hb]

theorem tta_sdd_req_bridge (c : Nat) : Gen.Fn.rrf_tta_sdd_req c = sddReq c := by
  unfold Gen.Fn.rrf_tta_sdd_req sddReq
  simp only [lit_cast, mkBytes_cons, mkBytes_nil]
  by_cases hc : c < 256 <;> simp [hc]

theorem tta_sdd_sel_req_bridge (c : Nat) (sdd : Bytes) : Gen.Fn.rrf_tta_sdd_sel_req c sdd = sddSelReq c sdd := by
  unfold Gen.Fn.rrf_tta_sdd_sel_req sddSelReq
  simp only [lit_cast, mkBytes_cons, mkBytes_nil]
  by_cases hc : c < 256 <;> simp [hc]

theorem tta_cascade_bridge (s : Bytes) : Gen.Fn.rrf_tta_cascade s = selCascade s := by
  unfold Gen.Fn.rrf_tta_cascade selCascade
  simp only [lit_cast, getB_bind, band_ofNat, ne_eq, Int.natCast_inj]

theorem tta_complete_bridge (s : Bytes) : Gen.Fn.rrf_tta_complete s = selComplete s := by
  unfold Gen.Fn.rrf_tta_complete selComplete
  simp only [lit_cast, getB_bind, band_ofNat, Int.natCast_inj]

theorem tta_uid_part_bridge (u s : Bytes) : Gen.Fn.rrf_tta_uid_part u s = uidPart u s := by
  unfold Gen.Fn.rrf_tta_uid_part uidPart
  simp only [lit_cast, slice_ofNat, sliceN]
theorem tta_uid_last_bridge (u s : Bytes) : Gen.Fn.rrf_tta_uid_last u s = uidLast u s := by
  unfold Gen.Fn.rrf_tta_uid_last uidLast
  simp only [lit_cast, slice_ofNat, sliceN, List.drop_zero]

/-! ## sense_ttb / sense_ttf -/

theorem ttb_res_ok_bridge (r : Bytes) : Gen.Fn.rrf_ttb_res_ok r = sensbResOk r := by
  unfold Gen.Fn.rrf_ttb_res_ok sensbResOk
  simp only [bind_decide_true, lit_cast, len_eq, ge_iff_le, Int.ofNat_le, getB_bind, Int.natCast_inj]

theorem len_frame_aux (p : Bytes) :
    (PyFn.mkBytes [((PyFn.len p) + 1)] >>= fun t1 => (Except.ok (t1 ++ p) : Py Bytes)) = FnPn53xRfRef.lenFrame p := by
  unfold FnPn53xRfRef.lenFrame
  simp only [lit_cast, len_eq, ← Int.natCast_add, mkBytes_cons, mkBytes_nil]
  by_cases h : p.length + 1 < 256 <;> simp [h]

theorem ttf_frame_bridge (p : Bytes) : Gen.Fn.rrf_ttf_frame p = FnRcs380RfRef.lenFrame p := len_frame_aux p

theorem ttf_res_code_bridge (f : Bytes) : Gen.Fn.rrf_ttf_res_code f = ttfResCode f := by
  unfold Gen.Fn.rrf_ttf_res_code ttfResCode
  simp only [lit_cast, getB_bind, Int.natCast_inj]

theorem ttf_res_bridge (f : Bytes) : Gen.Fn.rrf_ttf_res f = ttfRes f := by
  unfold Gen.Fn.rrf_ttf_res ttfRes
  simp only [lit_cast, sliceFrom_ofNat]

/-! ## listen_tta -/

theorem lta_checks_core (sens sdd sel : Bytes) :
    (if ((PyFn.len sens) ≠ 2) then Except.error Exc.value else
     if ((PyFn.len sdd) ≠ 4) then Except.error Exc.value else
     if ((PyFn.len sel) ≠ 1) then Except.error Exc.value else
     PyFn.getB sdd 0 >>= fun t1 =>
     if (t1 ≠ 8) then Except.error Exc.value else
     (Except.ok ((sens ++ (slice sdd 1 4)) ++ sel) : Py Bytes)) =
    (if sens.length = 2 ∧ sdd.length = 4 ∧ sel.length = 1 ∧ sdd.head? = some 8 then .ok (nfcaParams sens sdd sel)
      else .error .value) := by
  unfold nfcaParams
  simp only [lit_cast, len_eq, ne_eq, Int.natCast_inj, slice_ofNat, sliceN, getB_bind]
  by_cases h1 : sens.length = 2
  · by_cases h2 : sdd.length = 4
    · by_cases h3 : sel.length = 1
      · cases sdd with
        | nil => simp at h2
        | cons a l =>
          simp only [h1, h2, h3, not_true_eq_false, if_false, idxN_cons_zero, Py.bind_ok, Int.natCast_inj, List.head?_cons,
            Option.some.injEq, true_and]
          by_cases h4 : a = 8 <;> simp [h4]
      · simp [h1, h2, h3]
    · simp [h1, h2]
  · simp [h1]

theorem lta_checks_bridge (brty : String) (rid sens sdd sel : Option Bytes) :
    Gen.Fn.rrf_lta_checks brty rid sens sdd sel = FnRcs380RfRef.ltaChecks brty rid sens sdd sel := by
  unfold Gen.Fn.rrf_lta_checks FnRcs380RfRef.ltaChecks
  by_cases hb : brty = "106A"
  · simp only [hb, not_true_eq_false, if_false, ne_eq]
    have core := lta_checks_core
    cases rid with
    | none =>
      cases sens <;> cases sdd <;> cases sel <;> simp only [Option.getD, not_true_eq_false, if_false] <;> first | rfl | exact core _ _ _
    | some r =>
      by_cases hr : r = []
      · subst hr
        cases sens <;> cases sdd <;> cases sel <;> simp only [Option.getD, not_true_eq_false, if_false] <;> first | rfl | exact core _ _ _
      · simp [hr]
  · simp [hb]

theorem lta_recv_timeout_bridge (ms : Int) : Gen.Fn.rrf_lta_recv_timeout ms = clamp16 ms := imin_clamp ms
theorem ltf_recv_timeout_bridge (ms : Int) : Gen.Fn.rrf_ltf_recv_timeout ms = clamp16 ms := imin_clamp ms
theorem ldep_recv_timeout_bridge (ms : Int) : Gen.Fn.rrf_ldep_recv_timeout ms = clamp16 ms := imin_clamp ms

theorem lta_is_tt2_bridge (sel : Bytes) : Gen.Fn.rrf_lta_is_tt2 sel = selIsTt2 sel := by
  unfold Gen.Fn.rrf_lta_is_tt2 selIsTt2
  simp only [lit_cast, getB_bind, band_ofNat, Int.natCast_inj]

theorem lta_is_tt4_bridge (sel : Bytes) : Gen.Fn.rrf_lta_is_tt4 sel = FnRcs380RfRef.selIsTt4 sel := by
  unfold Gen.Fn.rrf_lta_is_tt4 FnRcs380RfRef.selIsTt4
  simp only [lit_cast, getB_bind, band_ofNat, Int.natCast_inj]

theorem brty_index_aux (d : Bytes) : (PyFn.getB d 0 >>= fun t1 => (Except.ok (t1 - 11) : Py Int)) = brtyIndex d := by
  unfold brtyIndex
  simp only [lit_cast, getB_bind]
theorem lta2_brty_index_bridge (d : Bytes) : Gen.Fn.rrf_lta2_brty_index d = brtyIndex d := brty_index_aux d
theorem ltf_brty_index_bridge (d : Bytes) : Gen.Fn.rrf_ltf_brty_index d = brtyIndex d := brty_index_aux d
theorem ldep_brty_index_bridge (d : Bytes) : Gen.Fn.rrf_ldep_brty_index d = brtyIndex d := brty_index_aux d

theorem ldep_activated_bridge (d : Bytes) : Gen.Fn.rrf_ldep_activated d = activated d := by
  unfold Gen.Fn.rrf_ldep_activated activated
  simp only [lit_cast, getB_bind, band_ofNat, Int.natCast_inj, and3]

theorem lta2_accept_bridge (b : String) (d : Bytes) : Gen.Fn.rrf_lta2_accept b d = lta2Accept b d := by
  unfold Gen.Fn.rrf_lta2_accept lta2Accept activated
  simp only [bind_decide_true, lit_cast, getB_bind, band_ofNat, Int.natCast_inj, and3]

theorem lta2_cmd_bridge (d : Bytes) : Gen.Fn.rrf_lta2_cmd d = rxFrame d := by
  unfold Gen.Fn.rrf_lta2_cmd rxFrame
  simp only [lit_cast, sliceFrom_ofNat]
theorem ldep_frame_bridge (d : Bytes) : Gen.Fn.rrf_ldep_frame d = rxFrame d := by
  unfold Gen.Fn.rrf_ldep_frame rxFrame
  simp only [lit_cast, sliceFrom_ofNat]

theorem lta_sens_res_bridge (p : Bytes) : Gen.Fn.rrf_lta_sens_res p = ltaSens p := by
  unfold Gen.Fn.rrf_lta_sens_res ltaSens
  simp only [lit_cast, slice_ofNat, sliceN, List.drop_zero]
theorem lta_sdd_res_bridge (p : Bytes) : Gen.Fn.rrf_lta_sdd_res p = ltaSdd p := by
  unfold Gen.Fn.rrf_lta_sdd_res ltaSdd
  simp only [lit_cast, slice_ofNat, sliceN]; rfl
theorem lta_sel_res_bridge (p : Bytes) : Gen.Fn.rrf_lta_sel_res p = ltaSel p := by
  unfold Gen.Fn.rrf_lta_sel_res ltaSel
  simp only [lit_cast, slice_ofNat, sliceN]

theorem lta4_is_rats_bridge (b : String) (d : Bytes) : Gen.Fn.rrf_lta4_is_rats b d = lta4IsRats b d := by
  unfold Gen.Fn.rrf_lta4_is_rats lta4IsRats
  simp only [bind_decide_true, lit_cast, getB_bind, Int.natCast_inj]

theorem lta4_rats_bridge (d : Bytes) (r : Option Bytes) : Gen.Fn.rrf_lta4_rats d r = lta4Rats d r := by
  unfold Gen.Fn.rrf_lta4_rats lta4Rats rxFrame defaultRatsRes
  simp only [lit_cast, sliceFrom_ofNat]
  cases r <;> rfl

theorem lta4_is_cmd_bridge (b : String) (d : Bytes) (r : Option Bytes) : Gen.Fn.rrf_lta4_is_cmd b d r = lta4IsCmd b d r := by
  unfold Gen.Fn.rrf_lta4_is_cmd lta4IsCmd
  simp only [bind_decide_true, lit_cast, getB_bind, ne_eq, Int.natCast_inj]
  cases r with
  | none => simp
  | some s => simp

theorem lta4_did_bridge (r : Bytes) : Gen.Fn.rrf_lta4_did r = (ratsDid r >>= fun d => .ok (d : Int)) := by
  unfold Gen.Fn.rrf_lta4_did ratsDid
  simp only [lit_cast, getB_bind, band_ofNat, and15]
  cases idxN r 1 <;> rfl

theorem lta4_did_supported_bridge (tc : Option Nat) :
    Gen.Fn.rrf_lta4_did_supported (tc.map (fun (n : Nat) => (n : Int))) = didSupported tc := by
  unfold Gen.Fn.rrf_lta4_did_supported didSupported
  cases tc with
  | none => rfl
  | some t => simp only [Option.map, lit_cast, band_ofNat, ne_eq, Int.natCast_inj]; simp

theorem lta4_with_did_bridge (c : Bytes) : Gen.Fn.rrf_lta4_with_did c = withDid c := by
  unfold Gen.Fn.rrf_lta4_with_did withDid
  simp only [lit_cast, getB_bind, band_ofNat, ne_eq, Int.natCast_inj]

theorem lta4_for_us_bridge (w s : Bool) (c : Bytes) (did : Int) : Gen.Fn.rrf_lta4_for_us w s c did = forUs w s c did := by
  unfold Gen.Fn.rrf_lta4_for_us forUs
  by_cases h : w = true ∧ s = true
  · simp only [h, and_self, if_true, lit_cast, getB_bind]
    cases idxN c 1 with
    | error e => rfl
    | ok d => simp
  · simp only [h, if_false, Py.bind_ok]
    simp

theorem lta4_is_deselect_bridge (c : Bytes) : Gen.Fn.rrf_lta4_is_deselect c = FnRcs380RfRef.isDeselect c := by
  unfold Gen.Fn.rrf_lta4_is_deselect FnRcs380RfRef.isDeselect
  simp only [lit_cast, getB_bind, Int.natCast_inj]

/-! ## listen_ttf -/

theorem ltf_checks_bridge (b : String) (s : Option Bytes) : Gen.Fn.rrf_ltf_checks b s = FnRcs380RfRef.ltfChecks b s := by
  unfold Gen.Fn.rrf_ltf_checks FnRcs380RfRef.ltfChecks brtyF
  by_cases hb : (b = "212F" ∨ b = "424F")
  · simp only [hb, not_true_eq_false, if_false]
    cases s with
    | none => rfl
    | some x =>
      simp only [lit_cast, len_eq, ne_eq, Int.natCast_inj]
      by_cases h : x.length = 19 <;> simp [h]
  · simp [hb]

theorem ltf_len_ok_bridge (d : Bytes) : Gen.Fn.rrf_ltf_len_ok d = FnRcs380RfRef.ltfLenOk d := by
  unfold Gen.Fn.rrf_ltf_len_ok FnRcs380RfRef.ltfLenOk
  simp only [bind_decide_true, lit_cast, len_eq, gt_iff_lt, Int.ofNat_lt, getB_bind]
  by_cases h : 7 < d.length
  · simp only [h, if_true]
    cases idxN d 7 with
    | error e => rfl
    | ok l => simp only [Py.bind_ok]; congr 1; apply decide_eq_decide.mpr; omega
  · simp [h]

theorem ltf_for_us_bridge (q : Option Bytes) (d r : Bytes) : Gen.Fn.rrf_ltf_for_us q d r = FnRcs380RfRef.ltfForUs q d r := by
  unfold Gen.Fn.rrf_ltf_for_us FnRcs380RfRef.ltfForUs
  simp only [lit_cast, slice_ofNat, sliceN]
  cases q with
  | none => simp
  | some s => simp

theorem ltf_tt3_cmd_bridge (d : Bytes) : Gen.Fn.rrf_ltf_tt3_cmd d = tt3Cmd d := by
  unfold Gen.Fn.rrf_ltf_tt3_cmd tt3Cmd
  simp only [lit_cast, sliceFrom_ofNat]

theorem ltf_is_polling_bridge (d : Bytes) : Gen.Fn.rrf_ltf_is_polling d = ltfIsPolling d := by
  unfold Gen.Fn.rrf_ltf_is_polling ltfIsPolling
  simp only [bind_decide_true, lit_cast, len_eq, getB_bind, Int.natCast_inj]

theorem ltf_sc_match_bridge (q r : Bytes) : Gen.Fn.rrf_ltf_sc_match q r = scMatch q r := by
  unfold Gen.Fn.rrf_ltf_sc_match scMatch
  simp only [bind_decide_true, lit_cast, getB_bind, Int.natCast_inj]
  cases h1 : idxN q 1 with
  | error e => rfl
  | ok a =>
    simp only [Py.bind_ok]
    by_cases ha : a = 255
    · simp only [ha, if_true, Py.bind_ok]
      cases h2 : idxN q 2 with
      | error e => rfl
      | ok b => simp only [Py.bind_ok]
    · simp only [ha, if_false]
      cases idxN r 17 with
      | error e => rfl
      | ok x =>
        simp only [Py.bind_ok]
        by_cases hx : a = x
        · simp only [hx, decide_true, if_true]
          cases h2 : idxN q 2 with
          | error e => rfl
          | ok b => simp only [Py.bind_ok]
        · simp [hx]

/-! ## listen_dep -/

theorem ldep_params_bridge (sens sel sdd sensf atr : Bytes) :
    Gen.Fn.rrf_ldep_params sens sel sdd sensf atr = FnRcs380RfRef.ldepParams sens sel sdd sensf atr := by
  unfold Gen.Fn.rrf_ldep_params FnRcs380RfRef.ldepParams nfcaParams
  simp only [lit_cast, len_eq, ne_eq, Int.natCast_inj, Int.ofNat_lt, slice_ofNat, sliceN, Decidable.not_not]
  by_cases h1 : sens.length = 2
  · have e1 : sens ≠ [] := by intro h; simp [h] at h1
    by_cases h2 : sel.length = 1
    · have e2 : sel ≠ [] := by intro h; simp [h] at h2
      by_cases h3 : sdd.length = 4
      · have e3 : sdd ≠ [] := by intro h; simp [h] at h3
        by_cases h4 : 19 ≤ sensf.length
        · have e4 : sensf ≠ [] := by intro h; simp [h] at h4
          have n4 : ¬ (sensf.length < 19) := by omega
          by_cases h5 : 17 ≤ atr.length
          · have e5 : atr ≠ [] := by intro h; simp [h] at h5
            have n5 : ¬ (atr.length < 17) := by omega
            simp [h1, h2, h3, h4, h5, e1, e2, e3, e4, e5, n4, n5]
          · have n5 : (atr.length < 17) := by omega
            simp [h1, h2, h3, h4, h5, e1, e2, e3, e4, n4, n5]
        · have n4 : (sensf.length < 19) := by omega
          simp [h1, h2, h3, h4, e1, e2, e3, n4]
      · simp [h1, h2, h3, e1, e2]
    · simp [h1, h2, e1]
  · simp [h1]

theorem ldep_is_tag_cmd_bridge (b : String) (d : Bytes) : Gen.Fn.rrf_ldep_is_tag_cmd b d = isTagCmd b d := by
  unfold Gen.Fn.rrf_ldep_is_tag_cmd isTagCmd
  simp only [bind_decide_true, lit_cast, len_eq, gt_iff_lt, Int.ofNat_lt, getB_bind, ne_eq, Int.natCast_inj]

theorem ldep_offset_bridge (b : String) (d : Bytes) (c : List Int) : Gen.Fn.rrf_ldep_offset b d c = (depOffset b : Int) := by
  unfold Gen.Fn.rrf_ldep_offset depOffset
  by_cases h : b = "106A" <;> simp [h]

theorem ldep_tx_frame_bridge (b : String) (d : Bytes) (t : Int) : Gen.Fn.rrf_ldep_tx_frame b d t = txFrame b d := by
  unfold Gen.Fn.rrf_ldep_tx_frame txFrame FnPn53xRfRef.lenFrame
  simp only [lit_cast, len_eq, ← Int.natCast_add, mkBytes_cons, mkBytes_nil]
  by_cases h : d.length + 1 < 256 <;> by_cases hb : b = "106A" <;> simp [h, hb]

theorem ldep_atr_len_ok_bridge (a : Bytes) : Gen.Fn.rrf_ldep_atr_len_ok a = atrLenOk a := by
  unfold Gen.Fn.rrf_ldep_atr_len_ok atrLenOk
  simp only [lit_cast, len_eq, Int.ofNat_le]

theorem ldep_is_atr_bridge (f : Bytes) : Gen.Fn.rrf_ldep_is_atr f = isAtrReq f := by
  unfold Gen.Fn.rrf_ldep_is_atr isAtrReq
  simp only [bind_decide_true, lit_cast, getB_bind, ne_eq, Int.natCast_inj]
  by_cases h : f = [] <;> simp [h]

theorem ldep_is_req_bridge (f : Bytes) : Gen.Fn.rrf_ldep_is_req f = isDepCmd f := by
  unfold Gen.Fn.rrf_ldep_is_req isDepCmd
  simp only [bind_decide_true, lit_cast, getB_bind, ne_eq, Int.natCast_inj]
  by_cases h : f = [] <;> simp [h]

theorem did_of_aux (f : Bytes) (i : Nat) :
    (PyFn.getB f (i : Int) >>= fun t1 => if (t1 > 0) then (PyFn.getB f (i : Int) >>= fun t2 => Except.ok (some t2))
      else (Except.ok (none : Option Int) : Py (Option Int))) = didOf f i := by
  unfold didOf
  simp only [getB_bind]
  cases h : idxN f i with
  | error e => rfl
  | ok d =>
    simp only [Py.bind_ok, h]
    by_cases hd : d > 0
    · have : ((d : Int) > 0) := by omega
      simp [hd, this]
    · have : ¬ ((d : Int) > 0) := by omega
      simp [hd, this]

theorem ldep_did_bridge (a : Bytes) : Gen.Fn.rrf_ldep_did a = didOf a 12 := did_of_aux a 12
theorem ldep_psl_did_bridge (f : Bytes) : Gen.Fn.rrf_ldep_psl_did f = didOf f 2 := did_of_aux f 2

theorem ldep_dsl_did_bridge (f : Bytes) : Gen.Fn.rrf_ldep_dsl_did f = dslDid f := by
  unfold Gen.Fn.rrf_ldep_dsl_did dslDid
  simp only [lit_cast, len_eq, gt_iff_lt, Int.ofNat_lt, getB_bind]

theorem ldep_dep_did_bridge (f : Bytes) : Gen.Fn.rrf_ldep_dep_did f = depDid f := by
  unfold Gen.Fn.rrf_ldep_dep_did depDid
  simp only [lit_cast, getB_bind, shr_ofNat, band_ofNat, and1, Nat.shiftRight_eq_div_pow, ne_eq, Int.natCast_inj]

theorem ldep_psl_res_bridge (f : Bytes) : Gen.Fn.rrf_ldep_psl_res f = pslRes f := by
  unfold Gen.Fn.rrf_ldep_psl_res pslRes
  simp only [lit_cast, slice_ofNat, sliceN]; rfl
theorem ldep_dsl_res_bridge (f : Bytes) : Gen.Fn.rrf_ldep_dsl_res f = dslRes f := by
  unfold Gen.Fn.rrf_ldep_dsl_res dslRes
  simp only [lit_cast, slice_ofNat, sliceN]; rfl
theorem ldep_rls_res_bridge (f : Bytes) : Gen.Fn.rrf_ldep_rls_res f = rlsRes f := by
  unfold Gen.Fn.rrf_ldep_rls_res rlsRes
  simp only [lit_cast, slice_ofNat, sliceN]; rfl
theorem ldep_sensf_res_bridge (p : Bytes) : Gen.Fn.rrf_ldep_sensf_res p = ldepSensfRes p := rfl

/-! ## data exchange -/

theorem timeout_msec_bridge (t ms : Int) : Gen.Fn.rrf_timeout_msec t ms = (timeoutMsec (decide (t ≠ 0)) ms : Int) := by
  unfold Gen.Fn.rrf_timeout_msec timeoutMsec imax imin
  by_cases h : t = 0
  · simp [h]
  · simp only [ne_eq, h, not_false_eq_true, if_true, decide_true]
    by_cases h1 : ms < 1
    · have a : ¬ ((65535 : Int) < ms) := by omega
      simp [h1, a]
    · by_cases h2 : ms > 65535
      · have a : ((65535 : Int) < ms) := by omega
        simp [h1, h2]
      · have a : ¬ ((65535 : Int) < ms) := by omega
        have b : ¬ ((1 : Int) > ms) := by omega
        simp [h1, h2]; omega

theorem route_tt2_bridge (b : String) (sel : Bytes) : Gen.Fn.rrf_route_tt2 b sel = routeTt2 b sel := by
  unfold Gen.Fn.rrf_route_tt2 routeTt2 selIsTt2
  simp only [bind_decide_true, lit_cast, getB_bind, band_ofNat, ne_eq, Int.natCast_inj]

theorem tgt_recv_timeout_bridge (t : Option Int) (ms : Int) : Gen.Fn.rrf_tgt_recv_timeout t ms = tgtRecvTimeout t ms := by
  cases t <;> rfl

/-! ## remaining slices: PSL, Type 2 Tag CRC -/

theorem ldep_psl_bridge (b : String) (f : Bytes) : Gen.Fn.rrf_ldep_psl b f = pslDsi f := by
  unfold Gen.Fn.rrf_ldep_psl pslDsi
  simp only [lit_cast, getB_bind]
  cases idxN f 3 with
  | error e => rfl
  | ok x =>
    simp only [Py.bind_ok, shr_ofNat, band_ofNat, and7, Nat.shiftRight_eq_div_pow, ne_eq, Int.natCast_inj]
    rw [Rcs380.comm_err_init_bridge]
    by_cases h : x / 2 ^ 3 % 8 = x % 8
    · have h' : x / 8 % 8 = x % 8 := h
      simp [h, h']
    · have h' : ¬ (x / 8 % 8 = x % 8) := h
      simp [h, h']; rfl

theorem sliceTo_neg_two {α} (l : List α) : PyFn.sliceTo l (-2) = l.take (l.length - 2) := by
  unfold PyFn.sliceTo clampBound
  congr 1
  simp only [show ((-2 : Int) < 0) from by omega, if_true]
  split
  · omega
  · split <;> omega

open NfcVerif.FnBridge.Crc in
/-- `_tt2_send_cmd_recv_rsp` behind the chipset call: the CRC_A check of `Model/Crc.lean` (C14) -/
theorem tt2_crc_bridge (d : List (BitVec 8)) :
    Gen.Fn.rrf_tt2_crc (enc d) = (tt2Crc d >>= fun r => .ok (enc r)) := by
  unfold Gen.Fn.rrf_tt2_crc tt2Crc
  rw [check_crc_a_bridge]
  have hl : (enc d).length = d.length := by simp [enc]
  simp only [lit_cast, len_eq, hl, gt_iff_lt, Int.ofNat_lt]
  by_cases h : 2 < d.length
  · simp only [h, if_true]
    cases Crc.checkCrcA d with
    | error e => rfl
    | ok ok =>
      cases ok
      · rfl
      · simp only [Py.bind_ok, Bool.true_eq_false, decide_false, Bool.false_eq_true, if_false, if_true]
        rw [show ((2 : Nat) : Int) = 2 from rfl, sliceTo_neg_two, hl]
        simp [enc, List.map_take]
  · simp [h]

/-! ## agreement with the PN53x family -/

/-- both drivers insert the cascade tag(s) in the same way -/
theorem tta_uid_agrees (u : Bytes) : Gen.Fn.rrf_tta_uid u = Gen.Fn.rf_tta_uid (some u) := by
  rw [tta_uid_bridge, Pn53xRf.tta_uid_bridge]; rfl

/-- both drivers take the same SEL_RES values as Type 2 Tag -/
theorem lta_is_tt2_agrees (sel : Bytes) :
    Gen.Fn.rrf_lta_is_tt2 sel = Gen.Fn.rf_lta_is_tt2 sel ∧ Gen.Fn.rrf_lta_is_tt2 sel = Gen.Fn.rf_tta_is_tt2 sel := by
  rw [lta_is_tt2_bridge, Pn53xRf.lta_is_tt2_bridge, Pn53xRf.tta_is_tt2_bridge]; exact ⟨rfl, rfl⟩

/-- the Type A fields of a LocalTarget are cut from the activation parameters in the same way -/
theorem lta_fields_agree (p : Bytes) :
    Gen.Fn.rrf_lta_sens_res p = Gen.Fn.rf_lta_sens_res p ∧ Gen.Fn.rrf_lta_sdd_res p = Gen.Fn.rf_lta_sdd_res p
    ∧ Gen.Fn.rrf_lta_sel_res p = Gen.Fn.rf_lta_sel_res p := by
  rw [lta_sens_res_bridge, lta_sdd_res_bridge, lta_sel_res_bridge, Pn53xRf.lta_sens_res_bridge,
    Pn53xRf.lta_sdd_res_bridge, Pn53xRf.lta_sel_res_bridge]; exact ⟨rfl, rfl, rfl⟩

/-- same default polling frame, same RID command, same PSL_RES -/
theorem defaults_agree (o : Option Bytes) (f : Bytes) :
    Gen.Fn.rrf_ttf_req o = Gen.Fn.rf_ttf_req o ∧ Gen.Fn.rrf_tta_rid_cmd = Gen.Fn.rf_tta_rid_cmd
    ∧ Gen.Fn.rrf_ldep_psl_res f = Gen.Fn.rf_ldep_psl_res f := by
  refine ⟨?_, rfl, ?_⟩
  · rw [ttf_req_bridge, Pn53xRf.ttf_req_bridge]; unfold orDefault ttfReq; cases o with
    | none => rfl
    | some s => cases s <;> rfl
  · rw [ldep_psl_res_bridge, Pn53xRf.ldep_psl_res_bridge]

/-! ## property-relevant facts restated for the regenerated definitions -/

/-- C13: whatever timeout `send_cmd_recv_rsp` is given, the InCommRF command data can be packed (no `struct.error`) -/
theorem gen_exchange_timeout_fits (t ms : Int) (data : Bytes) :
    Gen.Fn.rrf_in_comm_cmd data (Gen.Fn.rrf_in_comm_timeout (Gen.Fn.rrf_timeout_msec t ms)) =
      .ok (le16 (inCommTimeout (timeoutMsec (decide (t ≠ 0)) ms)) ++ data) := by
  rw [timeout_msec_bridge, in_comm_timeout_bridge, in_comm_cmd_bridge]
  unfold inCommCmd inCommTimeout
  have : (if timeoutMsec (decide (t ≠ 0)) ms = 0 then 0 else min ((timeoutMsec (decide (t ≠ 0)) ms + 1) * 10) 65535) < 65536 := by
    split <;> omega
  simp only [this, if_true]

/-- the receive timeout of `send_rsp_recv_cmd` is NOT clamped: 66 s is 66000 ms, which does not fit the 16 bit field
of TgCommRF (`struct.pack("<HH?6s18s??H", ..)` raises `struct.error`) -/
theorem tgt_recv_timeout_overflow : Gen.Fn.rrf_tgt_recv_timeout (some 66) 66000 > 65535 := by decide

/-- the listen timeouts are clamped to the 16 bit field -/
theorem gen_listen_timeout_fits (ms : Int) :
    Gen.Fn.rrf_lta_recv_timeout ms ≤ 65535 ∧ Gen.Fn.rrf_ltf_recv_timeout ms ≤ 65535 ∧ Gen.Fn.rrf_ldep_recv_timeout ms ≤ 65535 := by
  rw [lta_recv_timeout_bridge, ltf_recv_timeout_bridge, ldep_recv_timeout_bridge]
  unfold clamp16; split <;> omega

/-- C18: `listen_tta` hands TgCommRF exactly the 6 octets of its `6s` field -/
theorem gen_lta_params_len (b : String) (rid sens sdd sel : Option Bytes) (p : Bytes)
    (h : Gen.Fn.rrf_lta_checks b rid sens sdd sel = .ok p) : p.length = 6 ∧ b = "106A" := by
  rw [lta_checks_bridge] at h
  unfold FnRcs380RfRef.ltaChecks at h
  by_cases hb : b = "106A"
  · refine ⟨?_, hb⟩
    simp only [hb, ne_eq, not_true_eq_false, if_false] at h
    split at h
    · cases h
    · split at h
      · split at h
        · rename_i hc
          cases h
          simp [nfcaParams, hc.1, hc.2.1, hc.2.2.1]
        · cases h
      · cases h
  · simp [hb] at h

/-- C19: `listen_dep` hands TgCommRF exactly 6 and 18 octets (`6s18s`) -/
theorem gen_ldep_params_len (sens sel sdd sensf atr a f : Bytes)
    (h : Gen.Fn.rrf_ldep_params sens sel sdd sensf atr = .ok (a, f)) : a.length = 6 ∧ f.length = 18 := by
  rw [ldep_params_bridge] at h
  unfold FnRcs380RfRef.ldepParams at h
  split at h
  · rename_i hc
    cases h
    simp [nfcaParams, hc.1, hc.2.1, hc.2.2.1]
    omega
  · cases h

/-- C18: a discovered Type A target has a SENS_RES of two octets; C19: ATR_RES is sent only for an ATR_REQ of 16..64 -/
theorem gen_lengths (s a : Bytes) :
    (Gen.Fn.rrf_tta_sens_bad s = false ↔ s.length = 2) ∧
    (Gen.Fn.rrf_ldep_atr_len_ok a = true ↔ 16 ≤ a.length ∧ a.length ≤ 64) := by
  rw [tta_sens_bad_bridge, ldep_atr_len_ok_bridge]
  unfold sensResBad atrLenOk
  simp

open NfcVerif.FnBridge.Crc in
/-- C14: the driver accepts every Type 2 Tag answer that carries its CRC_A and returns it without the CRC -/
theorem gen_tt2_crc_accepts (d : List (BitVec 8)) (h : 0 < d.length) :
    Gen.Fn.rrf_tt2_crc (enc (Crc.addCrcA d)) = .ok (enc d) := by
  rw [tt2_crc_bridge]
  unfold tt2Crc
  have hl : (Crc.addCrcA d).length = d.length + 2 := by simp [Crc.addCrcA]
  have hc : Crc.checkCrcA (Crc.addCrcA d) = .ok true := by simp [Crc.checkCrcA, Crc.addCrcA]
  simp only [hl, show 2 < d.length + 2 from by omega, if_true, hc, Py.bind_ok, Nat.add_sub_cancel]
  simp [Crc.addCrcA]

open NfcVerif.FnBridge.Crc in
/-- C14: an answer of more than two octets is returned only if its CRC_A is right -/
theorem gen_tt2_crc_sound (d : List (BitVec 8)) (r : Bytes) (h : 2 < d.length)
    (hr : Gen.Fn.rrf_tt2_crc (enc d) = .ok r) : Crc.checkCrcA d = .ok true := by
  rw [tt2_crc_bridge] at hr
  unfold tt2Crc at hr
  simp only [h, if_true] at hr
  cases hc : Crc.checkCrcA d with
  | error e => rw [hc] at hr; cases hr
  | ok b => cases b with
    | true => rfl
    | false => rw [hc] at hr; cases hr

/-! ## non-vacuity -/
example : Gen.Fn.rrf_in_comm_timeout 30 = 310 := by decide
example : Gen.Fn.rrf_in_comm_cmd [0x26] 310 = .ok [0x36, 0x01, 0x26] := by decide
example : Gen.Fn.rrf_tta_uid [1, 2, 3, 4, 5, 6, 7] = [0x88, 1, 2, 3, 4, 5, 6, 7] := by decide
example : Gen.Fn.rrf_tta_sel_req [0x88, 1, 2, 3, 4, 5, 6, 7] 4 0x95 0 = .ok [0x95, 0x70, 4, 5, 6, 7, 0] := by decide
example : Gen.Fn.rrf_tta_cascade [0x04] = .ok true ∧ Gen.Fn.rrf_tta_complete [0x00] = .ok true := by decide
example : Gen.Fn.rrf_lta_checks "106A" none (some [0x44, 0x00]) (some [8, 1, 2, 3]) (some [0x00]) = .ok [0x44, 0, 1, 2, 3, 0] := by decide
example : Gen.Fn.rrf_lta_checks "106A" none (some [0x44, 0x00]) (some [4, 1, 2, 3]) (some [0x00]) = .error .value := by decide
example : Gen.Fn.rrf_lta4_is_rats "106A" [11, 0, 3, 0, 0, 0, 0, 0xE0, 0x80] = .ok true := by decide
example : Gen.Fn.rrf_ltf_is_polling [12, 0, 0, 0, 0, 0, 0, 6, 0, 0xFF, 0xFF, 1, 0] = .ok true := by decide
example : Gen.Fn.rrf_ldep_psl "106A" [0xD4, 0x04, 0, 0x09, 3] = .ok 1 := by decide
example : Gen.Fn.rrf_ldep_psl "106A" [0xD4, 0x04, 0, 0x0A, 3] = .error .rcsComm := by decide
example : Gen.Fn.rrf_timeout_msec 1 100000 = 65535 ∧ Gen.Fn.rrf_timeout_msec 1 0 = 1 ∧ Gen.Fn.rrf_timeout_msec 0 500 = 0 := by decide
example : Gen.Fn.rrf_ldep_dep_did [0xD4, 0x06, 0x04, 0x07] = .ok (some 7) := by decide

end NfcVerif.FnBridge.Rcs380Rf
