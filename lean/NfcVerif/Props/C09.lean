import NfcVerif.Lemmas.Term
/-!
# C09 - when the LLCP link ends no application thread is left waiting

Statements about the executable model `NfcVerif.Model.Term` (wait structures of
the socket calls of tco.py / llc.py as repaired by fixes/C09, `terminate()`, the
run loops, the SNEP / handover service loops).  The model is tied to the real
code by harness/props/c09.py (every scheduling point, result and final socket
state compared under a Condition double, action tree enumerated).

Assumed, not proved (Python runtime): `notify_all` wakes every waiter, a woken
thread eventually gets the lock, the link thread preempts an application thread
only where that thread holds no lock.
-/
namespace NfcVerif.C09
open NfcVerif NfcVerif.Term

/-- `terminate()` notifies the condition variable of every thread that waits in a socket call:
    for every waiting point `p`, every world in which the socket is in a service access point
    (resp. the service discovery SAP exists, for `resolve`) - any state, queues, counters. -/
theorem terminate_notifies_every_waiter (w : World) (p : Pt) (hw : p.isWait = true)
    (hreg : waiter w p = true) (hk : kindOK w p = true) : (terminate w).2.contains p.cv = true :=
  terminate_notifies w p hw hreg hk

example : waiter { s := ⟨.dlc, .established, true, [], [.i], 1, 1, 128, 1, 1, 0, 0, 0, 1⟩, registered := true,
                   sapAlive := true, sapOthers := false, terminated := false, sdAlive := true, resolved := false,
                   viaSap := false } .wWindow = true := by decide

/-- **blocked calls return**: a thread waiting at any waiting point `p` of any call `c`, socket of any
    kind in any state (any queues, window, counters): when the link terminates the thread is woken,
    and resuming the call ends - within 3 scheduling steps of its own, whatever quiet event `a2`
    comes next - in a return value or nfc.llcp.Error.  Together with `wait_points_closed` (every
    earlier wake-up, for whatever reason, leaves the thread at a waiting point of the same call or
    ends the call) this covers any number of wake-ups in any order before the link ends. -/
theorem blocked_calls_return (c : Call) (p : Pt) (w : World) (a2 : Act) (hv : validWait c p = true)
    (hreg : waiter w p = true) (hk : kindOK w p = true) (hq : quiet a2 = true) :
    finishesGood (run c 3 (.at p w) [.term, a2]) = true :=
  blocked_return c p w a2 hv hreg hk hq

example : validWait .connect .wTcoRecv = true ∧ validWait (.send false 5) .wWindow = true ∧
    validWait (.poll .acks false) .wPollAcks = true ∧ validWait .resolve .wResolve = true := by decide

/-- **no lost wake-up**: the link terminates while the thread stands at a lock acquisition point of
    its call (it has made its unlocked checks, the link thread runs first): the call still ends in a
    return value or nfc.llcp.Error, it never reaches a wait that nobody will notify.
    `WF`: the socket is as the API leaves sockets; `acqInv`: what `start` has established. -/
theorem no_lost_wakeup (c : Call) (p : Pt) (w : World) (a2 : Act) (hv : validAcq c p = true) (hwf : WF w)
    (hinv : acqInv c p w = true) (hal : allowed c w = true) (hq : quiet a2 = true) :
    finishesGood (run c 4 (.at p w) [.term, a2]) = true :=
  acq_terminate_return c p w a2 hv hwf hinv hal hq

example : WF { s := ⟨.raw, .established, true, [], [], 1, 1, 128, 1, 0, 0, 0, 0, 1⟩, registered := true,
               sapAlive := true, sapOthers := false, terminated := false, sdAlive := true, resolved := false,
               viaSap := false } := by simp [WF]

/-- **later calls return**: every call (except `connect` on a raw access point, which has no such
    method) issued on a socket of a terminated link - shut down by terminate(), closed before, or
    created afterwards - ends in a return value or nfc.llcp.Error within 4 scheduling steps. -/
theorem later_calls_return (c : Call) (w : World) (a1 a2 : Act) (hw : After w) (hal : allowed c w = true)
    (hq1 : quiet a1 = true) (hq2 : quiet a2 = true) :
    finishesGood (run c 4 (start c w) [a1, a2]) = true :=
  later_return c w a1 a2 hw hal hq1 hq2

/-- the hypothesis of `later_calls_return` is what terminate() leaves behind -/
theorem terminated_stable (w : World) (h : WF w) : After (terminate w).1 := wf_terminate_after w h

/-- a data link connection waiting for the CC of its CONNECT -/
def exConnecting : World :=
  { s := ⟨.dlc, .connect, true, [], [.connect], 1, 1, 128, 1, 0, 0, 0, 0, 1⟩, registered := true, sapAlive := true,
    sapOthers := false, terminated := false, sdAlive := true, resolved := false, viaSap := false }

example : After (terminate exConnecting).1 := terminated_stable _ (by simp [WF, exConnecting])
example : finishesGood (run .connect 3 (.at .wTcoRecv exConnecting) [.term, .none]) = true := by decide
example : ∃ cv w, run .connect 3 (.at .wTcoRecv exConnecting) [.none] = .hang cv w := ⟨_, _, rfl⟩

/-- the scheduling points of a call are closed: `start` leads to a lock acquisition point of the call
    (with `acqInv`), continuing from a point of the call leads to a point of the call, and only a data
    link connection reaches the send_token / acks_ready waits -/
theorem wait_points_closed (c : Call) (w : World) (p p' : Pt) (w' : World) :
    (start c w = .at p' w' → validAcq c p' = true ∧ acqInv c p' w' = true) ∧
    (validPt c p = true → kindOK w p = true → exec c p w = .at p' w' → validPt c p' = true ∧ kindOK w' p' = true) :=
  ⟨start_valid c w p' w', fun hv hk h => exec_valid c p w p' w' hv hk h⟩

/-- **terminate reached**: for every cause of ending - remote DISC, exchange() returning None, the
    terminate callback, KeyboardInterrupt, IOError (also with a dead device), the three security
    errors and any other exception - striking at every point of the run loop (during the DPS key
    agreement, at the first collect/exchange before the link is ESTABLISHED, or later) the run loop of
    either role executes terminate(); and terminate() shuts the service access points down even when
    the MAC deactivation raises. -/
theorem terminate_reached (r : Role) (pt : LoopPt) (c : Cause) (deactivateRaises : Bool) :
    (loopEnd r pt c).terminateCalled = true ∧ terminateShutsDown deactivateRaises = true :=
  ⟨loop_terminates r pt c, rfl⟩

example : (loopEnd .target .first .otherException).terminateCalled = true := by decide

/-- **a bind() racing terminate() never leaks a socket**: terminate() is the sequence "set the
    terminated flag, shut down SAP 63, ..., SAP 0"; an application thread that binds a socket to any
    address after any number `k` of these steps is either refused (ESHUTDOWN) or its socket is shut
    down by the remaining steps. -/
theorem late_bind_never_leaks (k a : Nat) (ha : a < 64) : lateBind termSteps k a ≠ .leaked :=
  late_bind_safe k a ha

example : lateBind termSteps 0 40 = .shutDown ∧ lateBind termSteps 30 40 = .refused := by decide

/-- the order matters: with the flag set after the loop a socket bound to 63 after the first step leaks -/
theorem late_bind_order_counterexample : lateBind termStepsFlagLast 1 63 = .leaked :=
  late_bind_flag_last_leaks

/-- connect() returns to its caller (or re-raises the unexpected exception itself) for every cause
    except IOError and the security errors, at every point of the loop. Partial: see
    `connect_returns_counterexample` (F21). -/
theorem connect_returns_partial (r : Role) (pt : LoopPt) (c : Cause)
    (h : c ≠ .ioError ∧ c ≠ .keyAgreementError ∧ c ≠ .decryptionError ∧ c ≠ .encryptionError) :
    connectEnd r pt c = .returns ∨ (c = .otherException ∧ connectEnd r pt c = .reraises) :=
  connect_returns r pt c h

def ConnectAlwaysReturns : Prop := ∀ r pt c, connectEnd r pt c ≠ .raisesSystemExit

/-- F21: an IOError (or a security error) in the link loop leaves connect() by SystemExit -/
theorem connect_returns_counterexample : ¬ ConnectAlwaysReturns := by
  intro h; exact h .initiator .established .ioError (by decide)

/-- **service threads exit**: from every program point of the SNEP / handover listen and serve loops,
    on a socket of a terminated link, the thread function ends within 3 socket calls. -/
theorem service_threads_exit (w : World) (p : SPt) (hw : After w) : serviceRun w 3 p = .exited :=
  service_exit w p hw

end NfcVerif.C09
