import NfcVerif.Lemmas.Term
import NfcVerif.Lemmas.TermMulti
import NfcVerif.Lemmas.Deact
/-!
# C09 - when the LLCP link ends no application thread is left waiting

Statements about the executable models `NfcVerif.Model.Term` (wait structures of the socket
calls of tco.py / llc.py as repaired by fixes/C09, `terminate()`, the run loops, the SNEP /
handover service loops - one thread) and `NfcVerif.Model.TermMulti` (any number of threads on one
socket / controller, condition variables with FIFO waiter lists, `notify()` vs `notify_all()`,
schedules).  The models are tied to the real code by harness/props/c09.py (every scheduling
point, result and final socket state compared under a Condition double, action tree enumerated)
and harness/props/c09_multi.py (2..4 real threads under a deterministic scheduler, every
execution compared with `TermMulti.runM`; the service loops walked along `serviceStep`).

Assumed, not proved (Python runtime): `notify()` wakes waiters in arrival order, a woken thread
eventually gets the lock, a thread is preempted only at outermost lock acquisitions and waits.
-/
namespace NfcVerif.C09
open NfcVerif NfcVerif.Term NfcVerif.TermMulti

/-- `terminate()` notifies the condition variable of every thread that waits in a socket call, and it
    wakes EVERY such thread (notify_all, not notify): `m` is any state of any number of threads on one
    socket / controller (`NfcVerif.TermMulti`, condition variables with FIFO waiter lists and
    `notify()` / `notify_all()` as in threading.Condition) in which the link thread is about to run
    `terminate()`; every thread `i` parked at a waiting point `p` - its socket in a service access point
    (resp. the service discovery SAP alive, for `resolve`), any state, queues, counters - is marked
    notified afterwards. -/
theorem terminate_notifies_every_waiter (m : MState) (rest : List Act) (hs : m.script = .term :: rest)
    (i : Nat) (t : Thread) (p : Pt) (hi : m.ths[i]? = some t) (hst : t.stat = .parked p false)
    (hw : p.isWait = true) (hreg : waiter m.w p = true) (hk : kindOK m.w p = true) :
    (terminate m.w).2.contains p.cv = true ∧
    (linkStep m).ths[i]? = some { t with stat := .parked p true } :=
  ⟨terminate_notifies m.w p hw hreg hk, terminate_wakes_all m rest hs i t p hi hst hw hreg hk⟩

/-- three threads wait on the same established connection: window, send queue, acknowledgements -/
def exThreeWaiters : MState :=
  { w := { s := ⟨.dlc, .established, true, [], [.i], 1, 1, 128, 1, 1, 0, 0, 0, 1⟩, registered := true,
           sapAlive := true, sapOthers := false, terminated := false, sdAlive := true, resolved := false,
           viaSap := false },
    ths := [⟨.send false 1, .parked .wWindow false, false⟩, ⟨.send false 1, .parked .wWindow false, false⟩,
            ⟨.poll .acks false, .parked .wPollAcks false, false⟩, ⟨.resolve, .parked .wResolve false, false⟩],
    order := [0, 1, 2, 3], script := [.term] }

example : (linkStep exThreeWaiters).ths.map stillWaiting = [false, false, false, false] := by decide
example : exThreeWaiters.ths.map stillWaiting = [true, true, true, true] := by decide

/-- the model distinguishes `notify()` from `notify_all()` (seeded change C09-r2m1: ServiceDiscovery.shutdown
    with `resp.notify()`): of two threads in resolve() the second one stays parked, un-notified - for ever,
    whatever the schedule of the threads afterwards -/
theorem notify_one_counterexample (ds : List Nat) :
    (linkStepG applyActNotifyOne twoResolvers).ths.map stillWaiting = [false, true] ∧
    ((runThreads (linkStepG applyActNotifyOne twoResolvers) ds).ths[1]?).map stillWaiting = some true :=
  ⟨notify_one_leaves_a_waiter.1, notify_one_waits_forever ds⟩

/-- **all threads return, any number of threads, any schedule**: `m` is the moment the link thread is about
    to execute `terminate()`; every thread is in a state `preB` allows - its call not started, at a lock
    acquisition of its call (`validAcq`, `acqInv`), parked at a wait of its call (notified or not; its socket
    in a service access point), or ended.  After the termination, in whatever order `ds` the threads continue:
    * no thread is ever parked without having been notified (no lost wake-up, no wait entered on the dead link),
    * a thread keeps its call, and every result it obtains is a value or nfc.llcp.Error,
    * a thread that has been scheduled four times has returned. -/
theorem all_threads_return (m : MState) (rest : List Act) (hs : m.script = .term :: rest) (hwf : WF m.w)
    (hpre : ∀ t ∈ m.ths, preB m.w t = true) (ds : List Nat) :
    (∀ t' ∈ (runThreads (linkStep m) ds).ths, waitsOn t' = none) ∧
    ∀ i t, m.ths[i]? = some t → ∃ t', (runThreads (linkStep m) ds).ths[i]? = some t' ∧ t'.call = t.call ∧
      (∀ r, t'.stat = .done r → good r = true ∨ t.stat = .done r) ∧
      (4 ≤ ds.count i → ∃ r, t'.stat = .done r) :=
  threads_return m rest hs hwf hpre ds

example : WF exThreeWaiters.w ∧ ∀ t ∈ exThreeWaiters.ths, preB exThreeWaiters.w t = true := by
  refine ⟨by simp [WF, exThreeWaiters], ?_⟩
  decide

/-- the scheduler runs of the driver (`runM`) are runs of the threads once the link thread has ended -/
theorem schedule_after_terminate (m : MState) (hs : m.script = [.term]) (ds : List Nat) :
    runM m (m.ths.length :: ds) = runThreads (linkStep m) ds := by
  have h1 : decide1 m m.ths.length = linkStep m := by simp [decide1]
  have h2 : (linkStep m).script = [] := (linkStep_term m [] hs).2.2
  simp only [runM, h1]
  exact runM_eq_runThreads _ h2 ds

example : waiter { s := ⟨.dlc, .established, true, [], [.i], 1, 1, 128, 1, 1, 0, 0, 0, 1⟩, registered := true,
                   sapAlive := true, sapOthers := false, terminated := false, sdAlive := true, resolved := false,
                   viaSap := false } .wWindow = true := by decide

/-- **blocked calls return**: a thread waiting at any waiting point `p` of any call `c`, socket of any
    kind in any state (any queues, window, counters): when the link terminates the thread is woken,
    and resuming the call ends - within 3 scheduling steps of its own, whatever quiet event `a2`
    comes next - in a return value or nfc.llcp.Error.  Together with `wait_points_closed` (every
    earlier wake-up, for whatever reason, leaves the thread at a waiting point of the same call or
    ends the call) this covers any number of wake-ups in any order before the link ends. -/
theorem blocked_calls_return (c : Call) (p : Pt) (w : World) (a2 : Act) (hv : validWait c p = true)
    (hreg : waiter w p = true) (hk : kindOK w p = true) (hq : quiet a2 = true) :
    finishesGood (run c 3 (.at p w) [.term, a2]) = true :=
  blocked_return c p w a2 hv hreg hk hq

example : validWait .connect .wTcoRecv = true ∧ validWait (.send false 5) .wWindow = true ∧
    validWait (.poll .acks false) .wPollAcks = true ∧ validWait .resolve .wResolve = true := by decide

/-- **no lost wake-up**: the link terminates while the thread stands at a lock acquisition point of
    its call (it has made its unlocked checks, the link thread runs first): the call still ends in a
    return value or nfc.llcp.Error, it never reaches a wait that nobody will notify.
    `WF`: the socket is as the API leaves sockets; `acqInv`: what `start` has established. -/
theorem no_lost_wakeup (c : Call) (p : Pt) (w : World) (a2 : Act) (hv : validAcq c p = true) (hwf : WF w)
    (hinv : acqInv c p w = true) (hal : allowed c w = true) (hq : quiet a2 = true) :
    finishesGood (run c 4 (.at p w) [.term, a2]) = true :=
  acq_terminate_return c p w a2 hv hwf hinv hal hq

example : WF { s := ⟨.raw, .established, true, [], [], 1, 1, 128, 1, 0, 0, 0, 0, 1⟩, registered := true,
               sapAlive := true, sapOthers := false, terminated := false, sdAlive := true, resolved := false,
               viaSap := false } := by simp [WF]

/-- **later calls return**: every call (except `connect` on a raw access point, which has no such
    method) issued on a socket of a terminated link - shut down by terminate(), closed before, or
    created afterwards - ends in a return value or nfc.llcp.Error within 4 scheduling steps. -/
theorem later_calls_return (c : Call) (w : World) (a1 a2 : Act) (hw : After w) (hal : allowed c w = true)
    (hq1 : quiet a1 = true) (hq2 : quiet a2 = true) :
    finishesGood (run c 4 (start c w) [a1, a2]) = true :=
  later_return c w a1 a2 hw hal hq1 hq2

/-- the hypothesis of `later_calls_return` is what terminate() leaves behind -/
theorem terminated_stable (w : World) (h : WF w) : After (terminate w).1 := wf_terminate_after w h

/-- a data link connection waiting for the CC of its CONNECT -/
def exConnecting : World :=
  { s := ⟨.dlc, .connect, true, [], [.connect], 1, 1, 128, 1, 0, 0, 0, 0, 1⟩, registered := true, sapAlive := true,
    sapOthers := false, terminated := false, sdAlive := true, resolved := false, viaSap := false }

example : After (terminate exConnecting).1 := terminated_stable _ (by simp [WF, exConnecting])
example : finishesGood (run .connect 3 (.at .wTcoRecv exConnecting) [.term, .none]) = true := by decide
example : ∃ cv w, run .connect 3 (.at .wTcoRecv exConnecting) [.none] = .hang cv w := ⟨_, _, rfl⟩

/-- the scheduling points of a call are closed: `start` leads to a lock acquisition point of the call
    (with `acqInv`), continuing from a point of the call leads to a point of the call, and only a data
    link connection reaches the send_token / acks_ready waits -/
theorem wait_points_closed (c : Call) (w : World) (p p' : Pt) (w' : World) :
    (start c w = .at p' w' → validAcq c p' = true ∧ acqInv c p' w' = true) ∧
    (validPt c p = true → kindOK w p = true → exec c p w = .at p' w' → validPt c p' = true ∧ kindOK w' p' = true) :=
  ⟨start_valid c w p' w', fun hv hk h => exec_valid c p w p' w' hv hk h⟩

/-- **terminate reached**: for every cause of ending - remote DISC, exchange() returning None, the
    terminate callback, KeyboardInterrupt, IOError (also with a dead device), the three security
    errors and any other exception - striking at every point of the run loop (during the DPS key
    agreement, at the first collect/exchange before the link is ESTABLISHED, or later) the run loop of
    either role executes terminate(); and terminate() shuts the service access points down even when
    the MAC deactivation raises. -/
theorem terminate_reached (r : Role) (pt : LoopPt) (c : Cause) (deactivateRaises : Bool) :
    (loopEnd r pt c).terminateCalled = true ∧ terminateShutsDown deactivateRaises = true :=
  ⟨loop_terminates r pt c, rfl⟩

example : (loopEnd .target .first .otherException).terminateCalled = true := by decide

/-- **a bind() racing terminate() never leaks a socket**: terminate() is the sequence "set the
    terminated flag, shut down SAP 63, ..., SAP 0"; an application thread that binds a socket to any
    address after any number `k` of these steps is either refused (ESHUTDOWN) or its socket is shut
    down by the remaining steps. -/
theorem late_bind_never_leaks (k a : Nat) (ha : a < 64) : lateBind termSteps k a ≠ .leaked :=
  late_bind_safe k a ha

example : lateBind termSteps 0 40 = .shutDown ∧ lateBind termSteps 30 40 = .refused := by decide

/-- the order matters: with the flag set after the loop a socket bound to 63 after the first step leaks -/
theorem late_bind_order_counterexample : lateBind termStepsFlagLast 1 63 = .leaked :=
  late_bind_flag_last_leaks

/-- connect() returns to its caller (or re-raises the unexpected exception itself) for every cause
    except IOError and the security errors, at every point of the loop. Partial: see
    `connect_returns_counterexample` (F21). -/
theorem connect_returns_partial (r : Role) (pt : LoopPt) (c : Cause)
    (h : c ≠ .ioError ∧ c ≠ .keyAgreementError ∧ c ≠ .decryptionError ∧ c ≠ .encryptionError) :
    connectEnd r pt c = .returns ∨ (c = .otherException ∧ connectEnd r pt c = .reraises) :=
  connect_returns r pt c h

def ConnectAlwaysReturns : Prop := ∀ r pt c, connectEnd r pt c ≠ .raisesSystemExit

/-- F21: an IOError (or a security error) in the link loop leaves connect() by SystemExit -/
theorem connect_returns_counterexample : ¬ ConnectAlwaysReturns := by
  intro h; exact h .initiator .established .ioError (by decide)

/-- **service threads exit**: from every program point of the SNEP / handover listen and serve loops,
    on a socket of a terminated link, the thread function ends within 3 socket calls. -/
theorem service_threads_exit (srv : Srv) (w : World) (p : SPt) (hw : After w) : serviceRun srv w 3 p = .exited :=
  service_exit srv w p hw

/-- **service threads exit, from every point, at every moment**: a service thread (thread `i` of any number
    of threads) stands at program point `sp` of its listen / serve loop; the socket call of that point is in
    progress - not yet started, at one of its lock acquisitions, or parked at one of its waits (`preB`) -
    when the link thread executes `terminate()`.  Whatever the schedule `ds` afterwards, once the thread has
    been given four turns its call has returned a value or nfc.llcp.Error, and from the program point that
    follows this result the thread function of either server ends within three further socket calls. -/
theorem service_threads_exit_any_point (srv : Srv) (sp : SPt) (m : MState) (rest : List Act)
    (hs : m.script = .term :: rest) (hwf : WF m.w) (hpre : ∀ t ∈ m.ths, preB m.w t = true)
    (i : Nat) (t : Thread) (hi : m.ths[i]? = some t) (_hc : t.call = sp.call) (hnd : ∀ r, t.stat ≠ .done r)
    (ds : List Nat) (h4 : 4 ≤ ds.count i) :
    ∃ t' r, (runThreads (linkStep m) ds).ths[i]? = some t' ∧ t'.stat = .done r ∧ good r = true ∧
      serviceRun srv (runThreads (linkStep m) ds).w 3 (serviceStep srv sp (classify r)) = .exited := by
  obtain ⟨_, h⟩ := threads_return m rest hs hwf hpre ds
  obtain ⟨t', ht', _, hgood, hdone⟩ := h i t hi
  obtain ⟨r, hr⟩ := hdone h4
  refine ⟨t', r, ht', hr, ?_, service_exit srv _ _ (threads_world_after m rest hs hwf hpre ds)⟩
  rcases hgood r hr with h | h
  · exact h
  · exact absurd h (hnd r)

/-- the listen thread of a server parked in accept(), a second thread about to take the llc lock after its
    accept() returned a connection (the window of C09-r2m3) -/
def exListener : MState :=
  { w := { s := ⟨.dlc, .listen, true, [], [.cc], 1, 2, 128, 1, 0, 0, 0, 0, 1⟩, registered := true,
           sapAlive := true, sapOthers := true, terminated := false, sdAlive := true, resolved := false,
           viaSap := false },
    ths := [⟨.accept, .parked .wTcoRecv false, false⟩, ⟨.accept, .ready .llcAcq, false⟩],
    order := [0], script := [.term] }

example : WF exListener.w ∧ (∀ t ∈ exListener.ths, preB exListener.w t = true) ∧
    (∀ t ∈ exListener.ths, t.call = SPt.listenAccept.call) := by
  refine ⟨by simp [WF, exListener], by decide, by decide⟩

/-! ## the MAC deactivation that `terminate()` runs BEFORE it shuts the sockets down (virtual clock)

`NfcVerif.Model.Deact`: `Target._deactivate` / `send_res_recv_req` and `Initiator.deactivate` of nfc/dep.py
with the clock made explicit; the peer is an arbitrary script of exchange outcomes (requests of any kind,
with matching or foreign DID, undecodable frames, None, TimeoutError, TransmissionError, other communication
errors, anything else the driver raises) with arbitrary response times.  Tied to the real classes by
harness/props/c09_deact.py (virtual `time` patched into nfc.dep, scripted `clf.exchange`): outcome, end time,
and per exchange what was sent with which timeout. -/
section Deactivation
open NfcVerif.Deact

/-- **Target.deactivate returns in bounded time, every peer script** (the code as found, and with the
    proposed repair): called at `t0`, it has ended - by return or by an exception of the driver, in both cases
    `terminate()` goes on to shut the service access points down - by
    `t0 + D + 2 * lat + txSlack`: the deadline of one second, one driver latency for the exchange that runs
    into the deadline, one for the RLS_RES / DSL_RES sent with timeout 0, and `txSlack` = one driver latency per
    TransmissionError event of the script on the code as found (0 with the repair fixes/C09/0010, which stops
    repeating an exchange once the deadline has passed).  No hypothesis on the script, the pending first command,
    `D`, `lat` or `t0`. -/
theorem target_deactivate_time (cfg : Cfg) (hr : cfg.renew = false) (cmd : Pending) (script : List Deact.Ev)
    (t0 : Nat) :
    (targetDeactivate cfg cmd script t0).tEnd ≤ t0 + cfg.D + 2 * cfg.lat + txSlack cfg script :=
  target_time cfg hr cmd script t0

/-- with the repair the bound is a constant: deadline + two driver latencies, for EVERY peer script; this is
    also the moment by which `terminate()` has reached the shutdown of the service access points -/
theorem target_deactivate_bounded (cfg : Cfg) (hr : cfg.renew = false) (hb : cfg.retryBounded = true)
    (cmd : Pending) (script : List Deact.Ev) (t0 : Nat) :
    targetShutdownAt cfg cmd script t0 ≤ t0 + cfg.D + 2 * cfg.lat := by
  have := target_time cfg hr cmd script t0
  simp only [txSlack, hb, if_true] at this
  simpa [targetShutdownAt] using this

/-- the code as found: the same constant bound for every peer script in which the driver never reports a
    TransmissionError. Partial: see `target_deactivate_unbounded_counterexample`. -/
theorem target_deactivate_bounded_partial (cfg : Cfg) (hr : cfg.renew = false) (cmd : Pending)
    (script : List Deact.Ev) (hs : ∀ ev ∈ script, ev.out ≠ .transmission) (t0 : Nat) :
    targetShutdownAt cfg cmd script t0 ≤ t0 + cfg.D + 2 * cfg.lat := by
  have := target_time cfg hr cmd script t0
  have h0 : txSlack cfg script = 0 := by
    unfold txSlack; split
    · rfl
    · exact slack_no_tx cfg script hs
  simpa [targetShutdownAt, h0] using this

def TargetDeactivateBounded (cfg : Cfg) : Prop :=
  ∃ B, ∀ script t0, (targetDeactivate cfg .no script t0).tEnd ≤ t0 + B

/-- open finding `deactivate-unbounded-transmission-errors`: `send_res_recv_req` repeats an exchange after a
    TransmissionError without looking at the deadline (`while True`), so a driver that keeps reporting
    transmission errors (one per tick) keeps `_deactivate` - and with it `terminate()` - busy beyond every bound -/
theorem target_deactivate_unbounded_counterexample (cfg : Cfg) (hb : cfg.retryBounded = false) (hl : 1 ≤ cfg.lat)
    (hD : 0 < cfg.D) : ¬ TargetDeactivateBounded cfg := by
  rintro ⟨B, h⟩
  obtain ⟨script, hs⟩ := target_unbounded cfg hb hl hD 0 B
  have := h script 0
  omega

/-- the model tells a renewed deadline from a fixed one (class of seeded change C09-r5m4: "allow the initiator
    one more second from each answered request"): an initiator that does nothing but legal DEP requests, one per
    tick, keeps the deactivation - and the application threads - waiting beyond every bound -/
theorem renewed_deadline_counterexample (cfg : Cfg) (hn : cfg.renew = true) (hl : 1 ≤ cfg.lat) (hD : 0 < cfg.D)
    (t0 B : Nat) :
    ∃ script, (∀ ev ∈ script, ev = infEv) ∧ B < (targetDeactivate cfg .no script t0).tEnd :=
  renew_unbounded cfg hn hl hD t0 B

/-- **Initiator.deactivate returns in bounded time**: exactly one exchange, over by `t0 + tInit + lat`,
    whatever the target answers or the driver raises -/
theorem initiator_deactivate_bounded (cfg : Cfg) (tInit : Nat) (release : Bool) (script : List Deact.Ev) (t0 : Nat) :
    (initiatorDeactivate cfg tInit release script t0).tEnd ≤ t0 + tInit + cfg.lat ∧
    (initiatorDeactivate cfg tInit release script t0).trace.length = 1 :=
  initiator_time cfg tInit release script t0

/-- one second = 1024 ticks, driver latency 2 ticks -/
def exCfg : Cfg := { D := 1024, lat := 2, retryBounded := false }

/-- a chatty initiator: SYMM every 100 ticks for ever; the dialogue ends with the deadline -/
example : (targetDeactivate exCfg .no (List.replicate 300 ⟨.frame .inf true, 100⟩) 5000).tEnd = 6026 := by decide
/-- ATN, RLS: released after two requests -/
example : (targetDeactivate exCfg .no [⟨.frame .atn true, 7⟩, ⟨.frame .rls true, 9⟩, ⟨.timeout, 1⟩] 0).tEnd = 17 := by decide
/-- the same chatty initiator against a renewed deadline: still there after 300 requests -/
example : (targetDeactivate { exCfg with renew := true } .no (List.replicate 300 ⟨.frame .inf true, 100⟩) 5000).tEnd
    = 5000 + 300 * 100 + 1026 := by decide
/-- ten transmission errors after the deadline cost ten more latencies -/
example : (targetDeactivate exCfg .no (⟨.frame .inf true, 1023⟩ :: List.replicate 10 ⟨.transmission, 2⟩) 0).tEnd
    = 1023 + 2 + 9 * 2 + 2 := by decide
example : (initiatorDeactivate exCfg 102 false [⟨.frame .inf true, 500⟩] 10).tEnd = 114 := by decide

end Deactivation

end NfcVerif.C09
