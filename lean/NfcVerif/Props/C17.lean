import NfcVerif.Lemmas.Sap
import NfcVerif.Lemmas.SapSpec
import NfcVerif.Lemmas.SapSrc
import NfcVerif.Lemmas.SapEnd
import NfcVerif.Lemmas.SapSd
/-!
# C17 - LLCP addressing: binding, discovery and delivery reach the right socket

Statements only; proofs are in `Lemmas/Sap.lean`.  Models: `Model/Sap.lean`
(address table of one `LogicalLinkController`: `bind/_bind_by_*`,
`insert/remove_socket`, `dispatch`, `collect`, service discovery) and
`Model/SapLink.lean` (two coupled controllers and the socket API; a blocking
call = run the link until nothing moves).  The model is of the code with the
repairs `fixes/C17` (F8: names are forgotten with their SAP, F9: a well-known
name is not bound over an occupied address); F22 is as found.

`abs c` is the abstract table of the statement (address ⇀ sockets, name ⇀
address), `BindOk`/`BindErr` the allocation rule and its refusals written
declaratively, `Inv` the table invariant, `run Pair.init ops` the state after an
arbitrary history `ops` of socket/bind/listen/connect/accept/sendto/raw
send/recvfrom/resolve/close/link-transfer operations on two controllers.
-/
namespace NfcVerif.C17
open NfcVerif NfcVerif.Sap

/-! ## allocation: refinement of the rule of the statement -/

/-- Every outcome of `bind` on an unbound socket is one the allocation rule allows
(address class, freeness, name uniqueness), with exactly the specified effect on
the abstract table; a refusal changes nothing and carries the specified errno. -/
theorem bind_refines_spec (c : Llc) (id : Nat) (arg : BindArg) (hu : (c.sock id).addr = none) :
    (∃ c' a, bind c id arg = .ok c' ∧ BindOk (abs c) (c.sock id).kind arg a ∧
        (c'.sock id).addr = some a ∧ abs c' = (abs c).bound id a arg) ∨
    (∃ n, bind c id arg = .error (.llcp n) ∧ BindErr (abs c) (c.sock id).kind arg n) :=
  bind_sound c id arg hu

example : ∃ c' , bind Sap.init 0 (.name nameSnep) = .ok c' ∧ (c'.sock 0).addr = some 4 := ⟨_, rfl, rfl⟩

/-- errno table, exact: `bind` raises `llcp.Error(n)` exactly in the situations listed by
`BindErr` (EAGAIN: 32..63 all in use; EFAULT: address outside 0..63 or malformed name;
EACCES: address below 32 for a non-raw socket; EADDRINUSE: address in use, name in
use, well-known address in use; EADDRNOTAVAIL (F22): 16..31 all in use). -/
theorem errno_exact (c : Llc) (id : Nat) (arg : BindArg) (n : Nat) (hu : (c.sock id).addr = none) :
    bind c id arg = .error (.llcp n) ↔ BindErr (abs c) (c.sock id).kind arg n := by
  rcases bind_sound c id arg hu with ⟨c', a, h1, h2, _⟩ | ⟨m, h1, h2⟩
  · constructor
    · intro h; rw [h1] at h; cases h
    · intro h; exact (bindOk_not_err h2 h).elim
  · constructor
    · intro h; rw [h1] at h; cases h; exact h2
    · intro h; rw [bindErr_unique h h2]; exact h1

example : BindErr (abs Sap.init) .dlc (.addr 1) EACCES := .eacces 1 (by decide) (by decide) (by decide)

/-- a socket is bound to at most one service access point: a second bind is refused -/
theorem bound_socket_refused (c : Llc) (id : Nat) (arg : BindArg) (h : (c.sock id).addr.isSome) :
    bind c id arg = .error (.llcp EINVAL) := by
  unfold Sap.bind; simp [h]

/-- the full errno statement of the property -/
def ErrnoStatement : Prop :=
  ∀ (ops : List Op) (x : Side) (id : Nat) (arg : BindArg) (e : Exc),
    (((run Pair.init ops).get x).sock id).addr = none →
    bind ((run Pair.init ops).get x) id arg = .error e →
    e = .llcp EADDRINUSE ∨ e = .llcp EACCES ∨ e = .llcp EFAULT ∨ e = .llcp EAGAIN

/-- errno table of the statement, proved for every state in which an address in
16..31 is still free (missing part: exhaustion of the named range, F22). -/
theorem errno_table_partial (c : Llc) (id : Nat) (arg : BindArg) (e : Exc) (hu : (c.sock id).addr = none)
    (hfree : ∃ a, 16 ≤ a ∧ a ≤ 31 ∧ c.sap a = none) (h : bind c id arg = .error e) :
    e = .llcp EADDRINUSE ∨ e = .llcp EACCES ∨ e = .llcp EFAULT ∨ e = .llcp EAGAIN := by
  rcases bind_sound c id arg hu with ⟨c', a, h1, _⟩ | ⟨m, h1, h2⟩
  · rw [h1] at h; cases h
  · rw [h1] at h; cases h
    cases h2 with
    | eagain _ => simp
    | efaultAddr _ _ => simp
    | eacces _ _ _ _ => simp
    | inuseAddr _ _ _ _ _ => simp
    | efaultName _ _ => simp
    | inuseName _ _ _ _ => simp
    | inuseWks _ _ _ _ _ _ => simp
    | exhausted nm _ _ _ hx =>
      obtain ⟨a, h16, h31, hs⟩ := hfree
      exact (hx a h16 h31 (by simp [Abs.free, abs, hs])).elim

example : ∃ a, 16 ≤ a ∧ a ≤ 31 ∧ Sap.init.sap a = none := ⟨16, by decide, by decide, rfl⟩

def errOf {α : Type} : Py α → Option Exc
  | .error e => some e
  | .ok _ => none

/-- name `urn:nfc:sn:s<letter i>` -/
def nameS (i : Nat) : Bytes := pfxSn ++ [115, 65 + i]

/-- 17 sockets at controller A, the first 16 bound to 16 different service names -/
def exhaustOps : List Op :=
  (List.range 17).map (fun _ => Op.socket false .dlc) ++
  (List.range 16).map (fun i => Op.bind false i (.name (nameS i)))

set_option maxRecDepth 100000 in
theorem named_exhaustion_witness :
    errOf (bind (run Pair.init exhaustOps).a 16 (.name (nameS 16))) = some (.llcp EADDRNOTAVAIL) ∧
    (((run Pair.init exhaustOps).a).sock 16).addr = none := by
  decide +kernel

/-- F22: the errno statement is false on the current code - the 17th service name gets
`EADDRNOTAVAIL` (pinned by `tests/test_llcp_llc.py::test_bind_by_name`). -/
theorem named_exhaustion_counterexample : ¬ ErrnoStatement := by
  intro h
  have hw := named_exhaustion_witness
  cases hb : bind (run Pair.init exhaustOps).a 16 (.name (nameS 16)) with
  | ok c' => rw [hb] at hw; simp [errOf] at hw
  | error e =>
    rw [hb] at hw
    simp only [errOf, Option.some.injEq] at hw
    have := h exhaustOps false 16 (.name (nameS 16)) e hw.2 hb
    rw [hw.1] at this
    simp [EADDRNOTAVAIL, EADDRINUSE, EACCES, EFAULT, EAGAIN] at this

/-- well-known service names get their fixed address -/
theorem wks_fixed (c c' : Llc) (id : Nat) (nm : Bytes) (a : Nat) (hw : wks nm = some a)
    (h : bind c id (.name nm) = .ok c') : (c'.sock id).addr = some a ∧ c.sap a = none := by
  obtain ⟨hu, b, hs, _, h1 | ⟨nm', he, _, _, hw', h1⟩⟩ := bind_ok_form h
  · rcases bind_sound c id (.name nm) hu with ⟨c2, a2, h2, h3, h4, _⟩ | ⟨m, h2, _⟩
    · rw [h] at h2; cases h2
      cases h3 with
      | wks _ _ _ _ hw2 hf => rw [hw] at hw2; cases hw2; exact ⟨h4, by simpa [Abs.free, abs] using hf⟩
      | named _ _ _ _ hw2 _ _ _ => rw [hw] at hw2; cases hw2
    · rw [h] at h2; cases h2
  · cases he
    rcases hw' with hw' | ⟨hw', _⟩
    · rw [hw] at hw'; cases hw'; subst h1; exact ⟨by simp [bindAt, upd], hs⟩
    · rw [hw] at hw'; cases hw'

example : wks nameSnep = some 4 := by decide

/-- other service names get a free address in 16..31 -/
theorem named_range_16_31 (c c' : Llc) (id : Nat) (nm : Bytes) (hw : wks nm = none)
    (h : bind c id (.name nm) = .ok c') :
    ∃ a, (c'.sock id).addr = some a ∧ 16 ≤ a ∧ a ≤ 31 ∧ c.sap a = none ∧ c.snl.lookup nm = none := by
  obtain ⟨hu, _⟩ := bind_ok_form h
  rcases bind_sound c id (.name nm) hu with ⟨c2, a2, h2, h3, h4, _⟩ | ⟨m, h2, _⟩
  · rw [h] at h2; cases h2
    cases h3 with
    | wks _ _ _ _ hw2 _ => rw [hw] at hw2; cases hw2
    | named _ _ _ hl _ h16 h31 hf => exact ⟨a2, h4, h16, h31, by simpa [Abs.free, abs] using hf, hl⟩
  · rw [h] at h2; cases h2

example : errOf (bind Sap.init 0 (.name (nameS 0))) = none ∧ wks (nameS 0) = none := by decide +kernel

/-- anonymous binds get a free address in 32..63 -/
theorem anon_range_32_63 (c c' : Llc) (id : Nat) (h : bind c id .none = .ok c') :
    ∃ a, (c'.sock id).addr = some a ∧ 32 ≤ a ∧ a ≤ 63 ∧ c.sap a = none := by
  obtain ⟨hu, _⟩ := bind_ok_form h
  rcases bind_sound c id .none hu with ⟨c2, a2, h2, h3, h4, _⟩ | ⟨m, h2, _⟩
  · rw [h] at h2; cases h2
    cases h3 with
    | anon _ h32 h63 hf => exact ⟨a2, h4, h32, h63, by simpa [Abs.free, abs] using hf⟩
  · rw [h] at h2; cases h2

/-! ## invariant over all histories -/

/-- The table invariant holds after every history of operations on the two
controllers (socket ids < number of sockets is checked by `apply`). -/
theorem reachable_invariant (ops : List Op) : PInv (run Pair.init ops) := reach_inv ops

/-- no address is handed out twice, a socket is in at most one SAP and at most once;
every socket of a SAP carries the address of that SAP -/
theorem addr_unique (ops : List Op) (x : Side) (a b id : Nat) (e e' : SapEntry)
    (h1 : ((run Pair.init ops).get x).sap a = some e) (h2 : ((run Pair.init ops).get x).sap b = some e')
    (m1 : id ∈ e.socks) (m2 : id ∈ e'.socks) :
    a = b ∧ e.socks.Nodup ∧ (((run Pair.init ops).get x).sock id).addr = some a := by
  have hi := (reach_inv ops).get x
  have q1 := (hi.addrOf a e id h1 m1).1
  have q2 := (hi.addrOf b e' id h2 m2).1
  rw [q1] at q2
  exact ⟨Option.some.inj q2, hi.nodup a e h1, q1⟩

/-- moving PDUs over the link (any number of collect/dispatch rounds) never changes
either address table -/
theorem link_keeps_table (k : Nat) (p p' : Pair) (h : pump k p = .ok p') :
    abs p'.a = abs p.a ∧ abs p'.b = abs p.b := by
  have hs := pump_same k h
  constructor
  · simp only [abs]; congr 1
    · funext a; exact hs.1.2.2.1 a
    · exact hs.1.2.2.2
  · simp only [abs]; congr 1
    · funext a; exact hs.2.2.2.1 a
    · exact hs.2.2.2.2

/-! ## close -/

/-- closing the last socket of an address frees the address and forgets its service
names (repaired F8); nothing else in the table changes -/
theorem close_frees (c : Llc) (id a : Nat) (e : SapEntry) (s' : Sock) (h : e.socks = [id]) :
    (removeSocket c id a e s').sap a = none ∧
    (∀ nm, (removeSocket c id a e s').snl.lookup nm ≠ some a) ∧
    (∀ b, b ≠ a → (removeSocket c id a e s').sap b = c.sap b) ∧
    (∀ nm b, b ≠ a → c.snl.lookup nm = some b → (removeSocket c id a e s').snl.lookup nm = some b) :=
  removeSocket_last c id a e s' h

/-- while other sockets remain the address and its names stay -/
theorem close_keeps_shared (c : Llc) (id a : Nat) (e : SapEntry) (s' : Sock) (h : e.socks.erase id ≠ []) :
    (removeSocket c id a e s').sap a = some { e with socks := e.socks.erase id } ∧
    (removeSocket c id a e s').snl = c.snl :=
  removeSocket_more c id a e s' h

/-- bind a name, close, bind the name again: works and reuses the address -/
def rebindOps : List Op :=
  [.socket false .dlc, .bind false 0 (.name (nameS 0)), .close false 0, .socket false .ldl,
   .bind false 1 (.name (nameS 0))]

set_option maxRecDepth 100000 in
example : (((run Pair.init rebindOps).a).sock 1).addr = some 16 ∧
    ((run Pair.init rebindOps).a).snl.lookup (nameS 0) = some 16 := by decide +kernel

/-! ## discovery, connect-by-name, datagrams -/

/-- a registered service name always designates a live SAP whose sockets are bound
there (in every reachable state): no stale names -/
theorem names_live (ops : List Op) (x : Side) (nm : Bytes) (a : Nat)
    (h : ((run Pair.init ops).get x).snl.lookup nm = some a) :
    (nm = nameSdp ∧ a = 1) ∨
    (2 ≤ a ∧ ∃ e, ((run Pair.init ops).get x).sap a = some e ∧ e.socks ≠ [] ∧
       ∀ j ∈ e.socks, (((run Pair.init ops).get x).sock j).addr = some a) :=
  name_live ((reach_inv ops).get x) h

/-- name resolution: the responder answers SDREQ(tid, name) with the address
registered under the name or 0 (absence) and changes nothing else; the requester
stores exactly the answered address for the requested name -/
theorem resolve_exact (b : Llc) (a : Llc) (tid : Nat) (nm : Bytes) (ha : a.sd.sent.lookup tid = some nm)
    (hv : (b.snl.lookup nm).getD 0 < 64) :
    ∃ b' a', dispatch b (.snl [(tid, nm)] []) = .ok b' ∧
      b'.sd.sdres = b.sd.sdres ++ [(tid, (b.snl.lookup nm).getD 0)] ∧ abs b' = abs b ∧
      dispatch a (.snl [] [(tid, (b.snl.lookup nm).getD 0)]) = .ok a' ∧
      a'.sd.cache.lookup nm = some ((b.snl.lookup nm).getD 0) := by
  obtain ⟨b', h1, h2, _, h4, h5⟩ := sdreq_answer b tid nm
  obtain ⟨a', h6, h7⟩ := sdres_cached a tid _ nm ha hv
  exact ⟨b', a', h1, h2, by simp [abs, h4, h5], h6, h7⟩

/-- connect-by-name reaches only a listening socket bound at the address registered
under that name -/
theorem connect_by_name_exact (ops : List Op) (x : Side) (ss : Nat) (nm : Bytes) (c' : Llc)
    (h : dispatch ((run Pair.init ops).get x) (.conn 1 ss (some nm)) = .ok c') (j : Nat)
    (hj : c'.sock j ≠ ((run Pair.init ops).get x).sock j) :
    ∃ a, ((run Pair.init ops).get x).snl.lookup nm = some a ∧
      (((run Pair.init ops).get x).sock j).addr = some a ∧ (((run Pair.init ops).get x).sock j).st = .listen :=
  by_name_exact ((reach_inv ops).get x) h hj

/-- ... and reports absence (DM, reason 2) without touching any socket when the name is
not registered -/
theorem connect_by_name_absent (c : Llc) (ss : Nat) (nm : Bytes) (h : c.snl.lookup nm = none) :
    dispatch c (.conn 1 ss (some nm)) =
      .ok { c with sd := { c.sd with dmpdu := c.sd.dmpdu ++ [.dm ss 1 2] } } :=
  by_name_absent h

/-- a connectionless datagram changes only a socket bound at its destination
address; a raw/logical-data-link socket receives exactly the PDU (payload, length
and source address unchanged) at the end of its queue -/
theorem datagram_delivery (ops : List Op) (x : Side) (d s : Nat) (m : Bytes) (c' : Llc)
    (h : dispatch ((run Pair.init ops).get x) (.ui d s m) = .ok c') (j : Nat)
    (hj : c'.sock j ≠ ((run Pair.init ops).get x).sock j) :
    (((run Pair.init ops).get x).sock j).addr = some d ∧
    ((((run Pair.init ops).get x).sock j).kind ≠ .dlc →
      c'.sock j = { ((run Pair.init ops).get x).sock j with
                    recvq := (((run Pair.init ops).get x).sock j).recvq ++ [.ui d s m] }) :=
  ui_delivery ((reach_inv ops).get x) h hj

/-- end to end on a concrete history: A sends a datagram from 32 to B's socket at 40,
a neighbour socket at 41 stays empty -/
def dgramOps : List Op :=
  [.socket false .ldl, .socket true .ldl, .socket true .ldl, .bind false 0 .none, .bind true 0 (.addr 40),
   .bind true 1 (.addr 41), .sendto false 0 [1, 2, 3] 40, .xfer false]

set_option maxRecDepth 100000 in
example : (((run Pair.init dgramOps).b).sock 0).recvq = [.ui 40 32 [1, 2, 3]] ∧
    (((run Pair.init dgramOps).b).sock 1).recvq = [] := by decide +kernel


/-! ## simulation: the controllers refine the abstract specification

`SpecSide` = (number of sockets, kinds, per-socket binding, address ⇀ sockets,
name ⇀ address), `absP` the abstraction of the two controllers, `Spec.step` the
transition function of the specification, `Spec.valid` what it says about outcomes.

Expressed at the abstract level, with exact outcome: `socket` (new id), `bind`
none/addr/name (address or errno), `close`; the implicit anonymous bind of
`listen`/`connect`/`sendto`/raw send (table effect exact; `EAGAIN` when 32..63 are
exhausted; `EOPNOTSUPP`/`TypeError` for the wrong socket kind); `accept` (the new
socket gets the next id and the address the listener is bound to, and joins that
address).  NOT expressible on this abstract state, so `Spec.valid` says nothing
about them: whether `accept` finds a pending request, the other outcomes of
`listen/connect/sendto`, and the results of `recvfrom`, `resolve` and of a link
transfer - they depend on connection state machines, queue contents and on what
else is waiting on the link (which PDU `collect` picks, whether an answer arrives
before the wait ends).  For those the specification only says "the tables do not
change"; what they return is covered by `resolve_exact`,
`connect_by_name_exact/absent`, `datagram_end_to_end` and `recvfrom_returns`. -/

/-- one operation: `abs (step c op) = Spec.step (abs c) op` (the outcome is the label
of the transition) and the outcome is one the specification allows -/
theorem simulation_step (p : Pair) (op : Op) (p' : Pair) (out : Py Out) (h : apply p op = .ok (p', out)) :
    absP p' = Spec.step (absP p) op out ∧ Spec.valid ((absP p).get op.side) op out :=
  Sap.simulation_step h

/-- whole histories: the abstraction of the reached state is the specification run
over the observed trace, and the specification accepts the trace -/
theorem simulation (ops : List Op) :
    absP (run Pair.init ops) = Spec.run Spec.init (trace Pair.init ops) ∧
    Spec.accepts Spec.init (trace Pair.init ops) :=
  Sap.simulation ops Pair.init

set_option maxRecDepth 100000 in
example : (trace Pair.init rebindOps).length = 5 := by decide +kernel

/-- the specification keeps the table invariant by itself (for every operation and
every outcome label) -/
theorem spec_keeps_invariant (s : SpecSide) (hi : SpecInv s) (op : Op) (out : Py Out)
    (hw : ∀ id, op.sock? = some id → id < s.n) : SpecInv (Spec.sideStep s op out) :=
  specInv_sideStep hi op out hw

/-- ... hence the abstraction of every reachable state satisfies it (via `simulation`) -/
theorem spec_reachable_invariant (ops : List Op) (x : Side) :
    SpecInv ((absP (run Pair.init ops)).get x) := specInv_reach ops x

/-- re-derived: no address handed out twice, a socket in at most one address set and once,
bound exactly where it is listed -/
theorem spec_addr_unique (ops : List Op) (x : Side) (a b id : Nat) (l l' : List Nat)
    (h1 : ((absP (run Pair.init ops)).get x).owner a = some l)
    (h2 : ((absP (run Pair.init ops)).get x).owner b = some l') (m1 : id ∈ l) (m2 : id ∈ l') :
    a = b ∧ l.Nodup ∧ ((absP (run Pair.init ops)).get x).bound id = some a ∧
      id < ((absP (run Pair.init ops)).get x).n :=
  (specInv_reach ops x).unique h1 h2 m1 m2

/-- re-derived: registered names designate live addresses, name ⇀ address is injective -/
theorem spec_names_live (ops : List Op) (x : Side) (nm : Bytes) (a : Nat)
    (h : ((absP (run Pair.init ops)).get x).names.lookup nm = some a) :
    ((nm = nameSdp ∧ a = 1) ∨ (2 ≤ a ∧ ∃ l, ((absP (run Pair.init ops)).get x).owner a = some l ∧ l ≠ [] ∧
        ∀ j ∈ l, ((absP (run Pair.init ops)).get x).bound j = some a)) ∧
    (((absP (run Pair.init ops)).get x).names.map Prod.snd).Nodup :=
  ⟨(specInv_reach ops x).name_live h, (specInv_reach ops x).names_injective.2⟩

/-- the allocation function of the specification obeys the declarative rule of the
statement (address classes, freeness, errno table) -/
theorem spec_bind_rule (s : SpecSide) (id : Nat) (arg : BindArg) (hu : s.bound id = none) :
    (∃ s' a, s.bind id arg = .ok s' ∧ BindOk s.tbl (s.kind id) arg a ∧ s'.bound id = some a ∧
        s'.tbl = s.tbl.bound id a arg) ∨
    (∃ n, s.bind id arg = .error n ∧ BindErr s.tbl (s.kind id) arg n) :=
  Sap.spec_bind_rule s id arg hu

/-- re-derived at the API: what `bind` + `getsockname` return on an unbound socket is an
address allowed by the rule, or the errno the rule prescribes -/
theorem api_bind_rule (p p' : Pair) (x : Side) (id : Nat) (arg : BindArg) (out : Py Out)
    (h : apply p (.bind x id arg) = .ok (p', out)) (hu : ((absP p).get x).bound id = none) :
    (∃ a, out = .ok (.addr (some a)) ∧
        BindOk ((absP p).get x).tbl (((absP p).get x).kind id) arg a) ∨
    (∃ n, out = .error (.llcp n) ∧ BindErr ((absP p).get x).tbl (((absP p).get x).kind id) arg n) := by
  have hv := (Sap.simulation_step h).2
  simp only [Spec.valid, Op.side] at hv
  rcases Sap.spec_bind_rule _ id arg hu with ⟨s', a, h1, h2, h3, _⟩ | ⟨n, h1, h2⟩
  · rw [h1] at hv; simp only at hv; rw [h3] at hv; exact .inl ⟨a, hv, h2⟩
  · rw [h1] at hv; exact .inr ⟨n, hv, h2⟩

/-- re-derived: closing the last socket frees the address and its names -/
theorem spec_close_frees (s : SpecSide) (id a : Nat) (hb : s.bound id = some a) (ho : s.owner a = some [id]) :
    (s.close id).owner a = none ∧ (∀ nm, (s.close id).names.lookup nm ≠ some a) ∧
    (∀ b, b ≠ a → (s.close id).owner b = s.owner b) :=
  let h := spec_close_last s id a hb ho; ⟨h.1, h.2.1, h.2.2.1⟩

theorem api_close_frees (p p' : Pair) (x : Side) (id a : Nat) (out : Py Out)
    (h : apply p (.close x id) = .ok (p', out))
    (hb : ((absP p).get x).bound id = some a) (ho : ((absP p).get x).owner a = some [id]) :
    out = .ok .unit ∧ ((absP p').get x).owner a = none ∧
    (∀ nm, ((absP p').get x).names.lookup nm ≠ some a) := by
  obtain ⟨h1, h2⟩ := Sap.simulation_step h
  have hc := spec_close_last _ id a hb ho
  refine ⟨h2, ?_, ?_⟩
  · rw [h1]; simp only [Spec.step, Op.side, Spec.sideStep]
    cases x <;> simp only [SpecState.set, SpecState.get] at hc ⊢ <;> exact hc.1
  · rw [h1]; simp only [Spec.step, Op.side, Spec.sideStep]
    cases x <;> simp only [SpecState.set, SpecState.get] at hc ⊢ <;> exact hc.2.1

/-! ## source address intact from `sendto` to `recvfrom` -/

/-- in every reachable state a UI PDU waiting in the send queue of a logical-data-link
socket carries the address that socket is bound to (`sendto` puts it there, nothing
changes it afterwards) -/
theorem queued_datagram_source (ops : List Op) (x : Side) (j d s : Nat) (m : Bytes)
    (hk : (((run Pair.init ops).get x).sock j).kind = .ldl)
    (hm : Pdu.ui d s m ∈ (((run Pair.init ops).get x).sock j).sendq) :
    (((run Pair.init ops).get x).sock j).addr = some s :=
  reach_src ops x j hk d s m hm

/-- link transfer of a UI PDU, end to end (see `Lemmas/SapEnd.lean`) -/
theorem datagram_end_to_end (ops : List Op) (x : Side) (p' : Pair) (d s : Nat) (m : Bytes)
    (h : xfer (run Pair.init ops) x = .ok (p', true))
    (hw : p'.wire.head? = some (x, .ui d s m)) :
    ((∃ j rest, (((run Pair.init ops).get x).sock j).sendq = .ui d s m :: rest ∧
        ((((run Pair.init ops).get x).sock j).kind = .ldl →
          (((run Pair.init ops).get x).sock j).addr = some s)) ∨
      (p'.get x).sock = ((run Pair.init ops).get x).sock) ∧
    (∀ k, (p'.get (!x)).sock k ≠ ((run Pair.init ops).get (!x)).sock k →
      (((run Pair.init ops).get (!x)).sock k).addr = some d ∧
      ((((run Pair.init ops).get (!x)).sock k).kind ≠ .dlc →
        (p'.get (!x)).sock k = { ((run Pair.init ops).get (!x)).sock k with
          recvq := (((run Pair.init ops).get (!x)).sock k).recvq ++ [.ui d s m] })) :=
  Sap.datagram_end_to_end ops x p' d s m h hw

/-- `recvfrom` returns payload and source of the PDU at the head of the queue -/
theorem recvfrom_returns (p : Pair) (x : Side) (id a d s : Nat) (m : Bytes) (rest : List Pdu) (e : SapEntry)
    (hk : ((p.get x).sock id).kind = .ldl) (ha : ((p.get x).sock id).addr = some a) (ha0 : a ≠ 0)
    (hs : (p.get x).sap a = some e) (hst : ((p.get x).sock id).st ≠ .shutdown)
    (hq : ((p.get x).sock id).recvq = .ui d s m :: rest) :
    ∃ p', apiRecvfrom p x id = .ok (p', .ok (.data (some m) (some s))) :=
  Sap.recvfrom_returns p x id a d s m rest e hk ha ha0 hs hst hq

/-- concrete run: sendto at A, one link transfer, recvfrom at B returns payload and A's address -/
def dgramOps2 : List Op := dgramOps ++ [.recvfrom true 0]

set_option maxRecDepth 100000 in
example : (trace Pair.init dgramOps2).getLast?.map (fun q => errOf q.2) = some none ∧
    (((run Pair.init dgramOps2).b).sock 0).recvq = [] := by decide +kernel


/-- client side of a completed connect (by address or by name): the peer recorded in the
socket is the source address of the CC, i.e. the address of the accepting socket - not the
address the CONNECT was sent to (SAP 1 for connect-by-name) -/
theorem connect_peer_is_cc_source (p : Pair) (x : Side) (id d ss : Nat) :
    (connectFinish p x id (some (.cc d ss))).2 = .ok .unit ∧
    (((connectFinish p x id (some (.cc d ss))).1.get x).sock id).peer = some ss ∧
    (((connectFinish p x id (some (.cc d ss))).1.get x).sock id).st = .established := by
  simp [connectFinish, get_set, setSock, upd]

/-! ## service discovery with several requests per SNL PDU

`sdAnswer snl (tid, name) = (tid, address registered under name, or 0)` is a function of the ONE
request and the service name table; everything below is for arbitrary lists: any mix of bound,
unbound and well-known names in any order, repeated names, repeated transaction identifiers. -/

/-- responder: an SNL PDU with ANY list of requests (and any answers riding along) is answered
pointwise - the answers queued are the image of the request list under `sdAnswer`, in the same
order, behind what was queued before; the address tables and all sockets are untouched -/
theorem resolve_answers_pointwise (b : Llc) (rq : List (Nat × Bytes)) (rs : List (Nat × Nat)) :
    ∃ b', dispatch b (.snl rq rs) = .ok b' ∧
      b'.sd.sdres = b.sd.sdres ++ rq.map (sdAnswer b.snl) ∧ abs b' = abs b ∧ b'.sock = b.sock := by
  obtain ⟨b', h1, h2, h3, h4, h5, _⟩ := dispatch_snl b rq rs
  exact ⟨b', h1, h2, by simp [abs, h4, h5], h3⟩

/-- ... in particular the answer to a request does not depend on what precedes or follows it in the PDU:
whatever `pre`, `post` and `rs` are, the answer at the position of `(tid, nm)` is `(tid, address of nm or 0)` -/
theorem resolve_answer_independent (b : Llc) (pre post : List (Nat × Bytes)) (tid : Nat) (nm : Bytes)
    (rs : List (Nat × Nat)) :
    ∃ b', dispatch b (.snl (pre ++ (tid, nm) :: post) rs) = .ok b' ∧
      b'.sd.sdres[b.sd.sdres.length + pre.length]? = some (tid, (b.snl.lookup nm).getD 0) := by
  obtain ⟨b', h1, h2, _⟩ := dispatch_snl b (pre ++ (tid, nm) :: post) rs
  refine ⟨b', h1, ?_⟩
  rw [h2, List.getElem?_append_right (by omega)]
  simp [sdAnswer]

/-- the seeded defect C17-r2m3 as an instance: a bound name followed by an unbound one -/
example : ∃ b', dispatch ((run Pair.init [.socket false .dlc, .bind false 0 (.name (nameS 0))]).a)
      (.snl [(0, nameS 0), (1, nameS 1), (2, nameSdp), (3, nameSnep)] []) = .ok b' ∧
    b'.sd.sdres = [(0, 16), (1, 0), (2, 1), (3, 0)] := ⟨_, rfl, by decide +kernel⟩

/-- requester: after an SNL PDU with ANY list of answers the cache entry of a name is the decoded
value of the LAST answer whose transaction identifier was used for that name (a name no answer belongs to
keeps its entry); identifiers return to the pool exactly for the answers that belong to a request -/
theorem answers_cached_pointwise (a : Llc) (rq : List (Nat × Bytes)) (rs : List (Nat × Nat)) (nm : Bytes) :
    ∃ a', dispatch a (.snl rq rs) = .ok a' ∧
      a'.sd.cache.lookup nm =
        (match (answersFor a.sd.sent nm rs).getLast? with
         | some r => some (decodeSap r.2)
         | none => a.sd.cache.lookup nm) ∧
      a'.sd.tids = a.sd.tids ++ (rs.filter fun r => (a.sd.sent.lookup r.1).isSome).map (·.1) :=
  let ⟨a', h1, h2, h3, _⟩ := dispatch_snl_cache a rq rs nm; ⟨a', h1, h2, h3⟩

/-- requester, answers to a whole list of requests: when `sent` holds the names asked (distinct
identifiers), every asked name ends up with exactly the responder's address for THAT name -/
theorem answers_cached_exact (sd : Sd) (rq : List (Nat × Bytes)) (snl : List (Bytes × Nat))
    (hnd : (rq.map (·.1)).Nodup) (hv : ∀ nm a, snl.lookup nm = some a → a < 64) (nm : Bytes)
    (hm : nm ∈ rq.map (·.2)) :
    (sdResponses { sd with sent := sentAll sd.sent rq } (rq.map (sdAnswer snl))).cache.lookup nm =
      some ((snl.lookup nm).getD 0) :=
  answers_cached _ rq snl (sentAll_lookup rq _ hnd) hv nm hm

example : (sdResponses { ({} : Sd) with sent := sentAll [] [(7, nameS 0), (9, nameS 1)] }
    ([(7, nameS 0), (9, nameS 1)].map (sdAnswer [(nameS 0, 16)]))).cache = [(nameS 0, 16), (nameS 1, 0)] := by
  decide +kernel

/-- packing (`ServiceDiscovery.dequeue`, link MIU 128): answers leave in the order queued, 32 per PDU,
the rest stays; the requests put into the PDU together with the requests that stay queued are a
permutation of the queued requests (none lost, none invented), `sent` records exactly those put
into the PDU; cache and identifier pool are untouched -/
theorem snl_packing_exact (sd : Sd) (h : sd.sdres ≠ [] ∨ sd.sdreq ≠ []) :
    ∃ rq sd', sdDequeue sd = some (.snl rq (sd.sdres.take 32), sd') ∧ sd'.sdres = sd.sdres.drop 32 ∧
      (rq ++ sd'.sdreq).Perm sd.sdreq ∧ sd'.sent = sentAll sd.sent rq ∧
      sd'.cache = sd.cache ∧ sd'.tids = sd.tids ∧ sd'.dmpdu = sd.dmpdu :=
  sdDequeue_spec sd h

/-- requests that fit the MIU together leave in ONE PDU in the order the calls queued them -/
theorem snl_requests_one_pdu (sd : Sd) (hres : sd.sdres = []) (hne : sd.sdreq ≠ [])
    (hfit : (sd.sdreq.map reqSize).sum ≤ 128) :
    sdDequeue sd = some (.snl sd.sdreq [], { sd with sdreq := [], sent := sentAll sd.sent sd.sdreq }) :=
  sdDequeue_all sd hres hne hfit

example : ∃ rq sd', sdDequeue { ({} : Sd) with sdres := (List.range 40).map fun i => (i, 0) } = some (.snl rq ((List.range 32).map fun i => (i, 0)), sd') ∧
    sd'.sdres = (List.range' 32 8).map fun i => (i, 0) := ⟨_, _, rfl, by decide +kernel⟩

/-- several `resolve()` calls waiting at once: one request per name that is not cached, in the order of
the calls, each with its own transaction identifier from the front of the pool -/
theorem concurrent_requests_queued (sd : Sd) (nms : List Bytes) :
    sdAskAll sd nms =
      if (uncached sd.cache nms).length ≤ sd.tids.length then
        some { sd with tids := sd.tids.drop (uncached sd.cache nms).length,
                       sdreq := sd.sdreq ++ (sd.tids.take (uncached sd.cache nms).length).zip (uncached sd.cache nms) }
      else none :=
  sdAskAll_eq nms sd

/-- one waiting call is the `resolve` operation -/
theorem resolve_many_single (p : Pair) (x : Side) (nm : Bytes)
    (h : ((p.get x).sd.cache.lookup nm).isSome ∨ (p.get x).sd.tids ≠ []) :
    apiResolveMany p x [nm] =
      (apiResolve p x nm).map fun r => (r.1, r.2.map fun o => match o with | .num a => .nums [a] | o => o) :=
  resolveMany_single p x nm h

/-- END TO END, for every reachable state of the two controllers in which the link is quiet (nothing
but service discovery has something to send, no lookup in progress): `k` calls `resolve(name_i)`
waiting at the same time return, each for ITS name, the cached address or the address registered
under that name at the other controller right now, 0 when it is not registered - for every list of
names (bound, unbound, well-known, repeated, in any order); no table changes.
PARTIAL: the requests must fit one SNL PDU (≤ 32 names, ≤ 128 bytes of TLVs) and the identifiers in
the pool must be distinct (a raw access point at the peer can break that with forged answers);
longer lists and busy links are covered by the correspondence runs only; a single name whose request
does not fit the MIU is never resolved at all (`resolve_overlong_counterexample`, open finding). -/
theorem resolve_many_end_to_end_partial (ops : List Op) (x : Side) (nms : List Bytes)
    (hqA : Quiet ((run Pair.init ops).get x)) (hqB : Quiet ((run Pair.init ops).get (!x)))
    (hiA : SdIdle ((run Pair.init ops).get x).sd) (hiB : SdIdle ((run Pair.init ops).get (!x)).sd)
    (hnd : ((run Pair.init ops).get x).sd.tids.Nodup)
    (hk : (uncached ((run Pair.init ops).get x).sd.cache nms).length ≤ ((run Pair.init ops).get x).sd.tids.length)
    (h32 : (uncached ((run Pair.init ops).get x).sd.cache nms).length ≤ 32)
    (hfit : ((uncached ((run Pair.init ops).get x).sd.cache nms).map fun nm => 3 + nm.length).sum ≤ 128) :
    ∃ p', apiResolveMany (run Pair.init ops) x nms =
        .ok (p', .ok (.nums (nms.map (resolved ((run Pair.init ops).get x).sd.cache
                                               ((run Pair.init ops).get (!x)).snl)))) ∧
      abs p'.a = abs (run Pair.init ops).a ∧ abs p'.b = abs (run Pair.init ops).b := by
  obtain ⟨p', h1, h2⟩ := resolveMany_quiet (run Pair.init ops) x nms hqA hqB hiA hiB ((reach_inv ops).get (!x))
    hnd hk h32 hfit
  refine ⟨p', h1, ?_, ?_⟩
  · simp only [abs]; congr 1
    · funext a; exact h2.1.2.2.1 a
    · exact h2.1.2.2.2
  · simp only [abs]; congr 1
    · funext a; exact h2.2.2.2.1 a
    · exact h2.2.2.2.2

/-- a history that satisfies the hypotheses, and the concrete outcome: B binds one name, three
calls at A (bound, unbound, the discovery service itself) -/
def resolveOps : List Op := [.socket true .dlc, .bind true 0 (.name (nameS 0))]

set_option maxRecDepth 100000 in
example : (trace Pair.init (resolveOps ++ [.resolveMany false [nameS 0, nameS 1, nameSdp, nameS 0]])).getLast?.map
    (fun q => match q.2 with | .ok (.nums l) => l | _ => []) = some [16, 0, 1, 16] := by decide +kernel

set_option maxRecDepth 100000 in
/-- the hypotheses are satisfiable: the initial state is quiet and idle at both controllers -/
example : ∃ p', apiResolveMany (run Pair.init []) false [nameSdp, nameS 0, nameSdp] = .ok (p', .ok (.nums [1, 0, 1])) ∧
    abs p'.a = abs Pair.init.a ∧ abs p'.b = abs Pair.init.b :=
  resolve_many_end_to_end_partial [] false [nameSdp, nameS 0, nameSdp] quiet_init quiet_init sdIdle_init sdIdle_init
    List.nodup_range (by decide +kernel) (by decide +kernel) (by decide +kernel)

/-! ### a service name that does not fit the link MIU is never resolved (open finding) -/

/-- name resolution returns: the statement ("reach exactly the socket bound under that name or report
absence") needs every `resolve` on an idle link to come back with an answer -/
def ResolveReturns : Prop :=
  ∀ (nm : Bytes), ∃ p' a, apiResolve Pair.init false nm = .ok (p', .ok (.num a))

/-- a request whose TLV exceeds the link MIU (name longer than 125 bytes at MIU 128) is rotated in the
queue for ever: `ServiceDiscovery.dequeue` leaves the state unchanged and sends an EMPTY SNL PDU, at
every call -/
theorem overlong_request_stuck (sd : Sd) (tid : Nat) (nm : Bytes) (h : 125 < nm.length)
    (hq : sd.sdreq = [(tid, nm)]) (hres : sd.sdres = []) : sdDequeue sd = some (.snl [] [], sd) :=
  Sap.overlong_request_stuck sd tid nm h hq hres

/-- `urn:nfc:sn:` + 115 × `x` (126 bytes, a well-formed service name that `bind` accepts) -/
def longName : Bytes := pfxSn ++ List.replicate 115 120

set_option maxRecDepth 100000 in
theorem resolve_overlong_witness : validName longName = true ∧
    (match apiResolve Pair.init false longName with | .error .outOfFuel => true | _ => false) = true := by
  decide +kernel

/-- the statement is false on the current code: `resolve` of a well-formed 126-byte service name does
not return while the link is up (the model's `outOfFuel` = the `while name not in self.snl: wait()` loop
of `ServiceDiscovery.resolve` with a request that is never sent) -/
theorem resolve_overlong_counterexample : ¬ ResolveReturns := by
  intro h
  obtain ⟨p', a, hp⟩ := h longName
  have hw := resolve_overlong_witness.2
  rw [hp] at hw
  cases hw

/-! ## connected logical data link sockets -/

/-- a datagram from source `s` is taken only by a socket that is unconnected or connected to `s`
(so a connected socket never sees datagrams of third parties that arrive after `connect`); together with
`datagram_delivery` (PDU appended unchanged) and `recvfrom_returns` (payload and source of the PDU are
returned, whatever the socket is connected to) the source address reported by `recvfrom` is the one the
datagram was sent with, also for datagrams queued before the socket was (re)connected -/
theorem datagram_peer_filter (c c' : Llc) (d s : Nat) (m : Bytes) (h : dispatch c (.ui d s m) = .ok c') (j : Nat)
    (hj : c'.sock j ≠ c.sock j) : (c.sock j).peer = some s ∨ (c.sock j).peer = none :=
  ui_peer_filter h hj

/-- a datagram from 41 is queued at A's socket (bound at 40), then the socket is connected to 42:
`recvfrom` still reports 41; a later datagram from 41 is not taken any more, one from 42 is -/
def connectedOps : List Op :=
  [.socket false .ldl, .bind false 0 (.addr 40), .socket true .ldl, .bind true 0 (.addr 41), .socket true .ldl,
   .bind true 1 (.addr 42), .sendto true 0 [170] 40, .xfer true, .connect false 0 (.addr 42), .recvfrom false 0]

def connectedOps2 : List Op :=
  connectedOps ++ [.sendto true 0 [187] 40, .sendto true 1 [204] 40, .xfer true, .xfer true]

set_option maxRecDepth 100000 in
example : (trace Pair.init connectedOps).getLast?.map
      (fun q => match q.2 with | .ok (.data d src) => (d, src) | _ => (none, none)) = some (some [170], some 41) ∧
    (((run Pair.init connectedOps).a).sock 0).peer = some 42 ∧
    (((run Pair.init connectedOps2).a).sock 0).recvq = [.ui 40 42 [204]] := by
  decide +kernel

end NfcVerif.C17
