import NfcVerif.Model.SapLink
namespace NfcVerif.C17
end NfcVerif.C17
