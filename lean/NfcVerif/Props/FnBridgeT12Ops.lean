import NfcVerif.Lemmas.FnBridgeT12Ops
import NfcVerif.Props.FnBridgeTagCmd
import NfcVerif.Model.AdvT12
/-!
# Bridge theorems, group T12Ops (`nfc/tag/tt2.py`, `nfc/tag/tt1.py` -> `Gen/FnT12Ops.lean`)

Properties C03 / C16 (`Type2Tag.sector_select`: which sector the tag object believes selected; the page write
path of the memory readers), C01 / C08 (the data area bound check of `Type2Tag.NDEF._read_ndef_data`), C02
(phase 1 of `_write_ndef_data`: the length is zeroed before any message octet is written).

What group TagCmd translates as command / response slices is translated here as WHOLE methods with
`self.transceive` as a function parameter, so the regenerated text also fixes the order check - command - check.
Model counterparts: the reference `T12OpsRef.sectorSelect` (the bridge to `SectC03.sectorSelect` is suspended while
that model moves to an optional believed sector),
`Adv.fits`, `Tlv.phase1`, the reference functions of `Model/FnTagCmdRef.lean`.
-/
set_option linter.unusedSimpArgs false
namespace NfcVerif.FnBridge.T12Ops
open NfcVerif NfcVerif.PyFn NfcVerif.TagCmdRef

/-! ## `Type2Tag.sector_select` -/

theorem t2o_ss_guard_bridge (sector cur : Int) : Gen.Fn.t2o_ss_guard sector cur = decide (sector ≠ cur) := rfl
theorem t2o_ss_send1_bridge (tx : Bytes → Py Bytes) : Gen.Fn.t2o_ss_send1 tx = tx [0xC2, 0xFF] := by
  show (tx [194, 255] >>= fun t1 => Except.ok t1) = tx [194, 255]
  cases tx [194, 255] <;> rfl
theorem t2o_ss_p2_passive_bridge (code : Int) : Gen.Fn.t2o_ss_p2_passive code = decide (code ≠ 0) := rfl
theorem t2o_ss_no_sector_bridge (s : Int) : Gen.Fn.t2o_ss_no_sector s = .error (.tagCmd 1) := rfl
theorem t2o_ss_unsupported_bridge : Gen.Fn.t2o_ss_unsupported = .error (.tagCmd 1) := rfl
theorem t2o_ss_commit_bridge (s : Int) : Gen.Fn.t2o_ss_commit s = s := rfl
theorem t2o_ss_ret_bridge (cur : Option Int) : Gen.Fn.t2o_ss_ret cur = cur := rfl
/-- statement 0 of the `if` in the handler of packet 2: `self._current_sector = None` (fixes/C16/0007) -/
theorem t2o_ss_p2_forget_bridge : Gen.Fn.t2o_ss_p2_forget = none := rfl

theorem select_send_bridge (cur : Option Int) (sector : Int) (tx1 : Bytes → Py Bytes) (p2 : Py Bytes)
    (hs : ¬ cur = some sector) :
    genSelectSend cur sector tx1 p2 = T12OpsRef.sectorSelect cur sector (tx1 [0xC2, 0xFF]) p2 := by
  unfold genSelectSend T12OpsRef.sectorSelect
  rw [t2o_ss_send1_bridge]
  simp only [hs, if_false]
  match tx1 [0xC2, 0xFF] with
  | .error e => rfl
  | .ok rsp =>
    simp only [ack_eq]
    by_cases hr : rsp = [0x0A]
    · simp only [hr, decide_true, if_true]
      match p2 with
      | .ok _ => simp [t2o_ss_no_sector_bridge]
      | .error e =>
        cases e with
        | tagCmd code =>
          by_cases hc : code = 0 <;>
            simp [hc, t2o_ss_commit_bridge, t2o_ss_ret_bridge, t2o_ss_p2_passive_bridge, t2o_ss_p2_forget_bridge]
        | _ => rfl
    · simp [hr, t2o_ss_unsupported_bridge]

/-- the slices of `sector_select`, nested as in the source, are the reference function -/
theorem sector_select_bridge (cur : Option Int) (sector : Int) (tx1 : Bytes → Py Bytes) (p2 : Py Bytes) :
    genSectorSelect cur sector tx1 p2 = T12OpsRef.sectorSelect cur sector (tx1 [0xC2, 0xFF]) p2 := by
  unfold genSectorSelect
  cases cur with
  | none => exact select_send_bridge none sector tx1 p2 (by simp)
  | some c =>
    simp only [t2o_ss_guard_bridge]
    by_cases hs : sector = c
    · subst hs
      simp [T12OpsRef.sectorSelect, t2o_ss_ret_bridge]
    · have h' : ¬ (some c = some sector) := by
        intro h; cases h; exact hs rfl
      simp only [hs, ne_eq, not_false_eq_true, decide_true, if_true]
      exact select_send_bridge (some c) sector tx1 p2 h'

example : genSectorSelect (some 0) 1 (fun _ => .ok [0x0A]) (.error (.tagCmd 0)) = (.ok (some 1), some 1) := by decide
example : genSectorSelect (some 0) 1 (fun _ => .error (.tagCmd 0)) (.error (.tagCmd 0)) = (.error (.tagCmd 0), some 0) := by
  decide
example : genSectorSelect (some 0) 1 (fun _ => .ok [0x0A]) (.error (.tagCmd (-1))) = (.error (.tagCmd (-1)), none) := by decide
example : genSectorSelect none 0 (fun _ => .ok [0x0A]) (.error (.tagCmd 0)) = (.ok (some 0), some 0) := by decide

/-- C03 / C16, restated for the regenerated slices: after every return or raise the belief is unknown or the
sector the tag is in -/
theorem gen_sector_belief (cur : Option Int) (sector real : Int) (tx1 : Bytes → Py Bytes) (p2 : Py Bytes)
    (h0 : T12OpsRef.BeliefOk cur real) :
    T12OpsRef.BeliefOk (genSectorSelect cur sector tx1 p2).2
      (T12OpsRef.tagSectorAfter real cur sector (tx1 [0xC2, 0xFF]) p2) := by
  rw [sector_select_bridge]; exact T12OpsRef.sectorSelect_belief cur sector real _ p2 h0

/-- a garbled acknowledge of packet 2 leaves the regenerated slices with an unknown sector -/
theorem gen_p2_garbled_forgets (cur : Option Int) (sector code : Int) (tx1 : Bytes → Py Bytes)
    (h : cur ≠ some sector) (hc : code ≠ 0) (h1 : tx1 [0xC2, 0xFF] = .ok [0x0A]) :
    genSectorSelect cur sector tx1 (.error (.tagCmd code)) = (.error (.tagCmd code), none) := by
  rw [sector_select_bridge, h1]; exact T12OpsRef.sectorSelect_p2_garbled cur sector code h hc

/-! ## `Type2Tag.write`, `Type2Tag.read` (NAK branch) -/

/-- the whole method: argument check, WRITE command, `transceive`, answer check - in this order -/
theorem t2o_write_bridge (page : Int) (data : Bytes) (tx : Bytes → Py Bytes) :
    Gen.Fn.t2o_write page data tx = (t2WriteCmd page data >>= tx >>= t2WriteRsp) := by
  rw [← TagCmd.t2_write_cmd_bridge]
  have hr : t2WriteRsp = fun rsp => Gen.Fn.t2_write_rsp rsp data := funext fun rsp => (TagCmd.t2_write_rsp_bridge rsp data).symm
  rw [hr]
  unfold Gen.Fn.t2o_write Gen.Fn.t2_write_check Gen.Fn.t2_write_cmd Gen.Fn.t2_write_rsp
  by_cases h : len data ≠ 4
  · simp [h]
  · simp only [h, if_false, bind_assoc, Py.bind_ok]

example : Gen.Fn.t2o_write 0x104 [1, 2, 3, 4] (fun c => if c = [0xA2, 4, 1, 2, 3, 4] then .ok [0x0A] else .ok [0]) = .ok true := by
  decide

/-- `INVALID_PAGE_ERROR if self.target else RECEIVE_ERROR` after the re-activation that follows a NAK -/
theorem t2o_read_nak_exc_bridge (alive : Bool) :
    Gen.Fn.t2o_read_nak_exc alive = .error (.tagCmd (if alive then 2 else -1)) := by
  cases alive <;> rfl

/-- statement 3 of the NAK branch: `self._current_sector = 0` (fixes/C03/0003) -/
theorem t2o_read_nak_reset_bridge : Gen.Fn.t2o_read_nak_reset = T12OpsRef.reactivatedSector := rfl

/-- the NAK branch behind the re-activation: belief := 0, then the raise -/
theorem read_nak_bridge (alive : Bool) : genReadNak alive = T12OpsRef.readNak alive := by
  unfold genReadNak T12OpsRef.readNak
  rw [t2o_read_nak_exc_bridge]; rfl

/-- C03, restated for the regenerated slices: after the NAK branch the believed sector is the one a
re-activated tag is in -/
theorem gen_reactivation_resets_belief (alive : Bool) : (genReadNak alive).2 = T12OpsRef.reactivatedSector := by
  rw [read_nak_bridge]; exact T12OpsRef.reactivation_resets_belief alive

example : genReadNak true = (.error (.tagCmd 2), 0) := by decide

/-! ## `Type2Tag.NDEF._read_ndef_data`: the message must lie inside the data area -/

theorem room_len (s : Tlv.Skip) (sk : List Int) (h : Tlv.SameSkip s sk) (head end_ : Nat) :
    len (setDiff (range (head : Int) (end_ : Int)) sk) = ((Tlv.countFree s head end_ : Nat) : Int) := by
  rw [Tlv.range_ofNat, len_eq, Tlv.count_free s sk h]; rfl

/-- the statements behind the TLV walk: `None` unless the value starts inside the area and fits into the
non-reserved bytes up to its end (`Adv.fits`, C08 / C01); `hdr` is 4 after the marker `FF`, else 2 -/
theorem t2o_fits_bridge (s : Tlv.Skip) (sk : List Int) (h : Tlv.SameSkip s sk) (v : Bytes) (off cap l0 : Nat) :
    Gen.Fn.t2o_fits (some v) off cap sk l0 =
      if Adv.fits false s off (if l0 = 255 then 4 else 2) (cap + 16) v.length = true then some v else none := by
  unfold Gen.Fn.t2o_fits Adv.fits
  have e0 : ((l0 : Int) = 255) ↔ l0 = 255 := by omega
  have eh : ((off : Int) + (if (l0 : Int) = 255 then 4 else 2)) = ((off + (if l0 = 255 then 4 else 2) : Nat) : Int) := by
    by_cases hl : l0 = 255
    · simp [hl]
    · have : ¬ ((l0 : Int) = 255) := by omega
      simp [hl, this]
  have ee : ((cap : Int) + 16) = ((cap + 16 : Nat) : Int) := by omega
  simp only [eh, ee, room_len s sk h, len_eq]
  simp only [Bool.false_or, Bool.and_eq_true, decide_eq_true_eq]
  generalize off + (if l0 = 255 then 4 else 2) = head
  generalize Tlv.countFree s head (cap + 16) = cf
  split <;> split <;> first | rfl | (exfalso; omega)

/-- no NDEF TLV: nothing to check -/
theorem t2o_fits_none (off cap l0 : Int) (sk : List Int) : Gen.Fn.t2o_fits none off cap sk l0 = none := rfl

/-- the two statements on their own: first value byte and the free addresses behind it -/
theorem t2o_room_bridge (v : Bytes) (off cap l0 : Int) (sk : List Int) :
    Gen.Fn.t2o_room v off cap sk l0 =
      (off + (if l0 = 255 then 4 else 2), setDiff (range (off + (if l0 = 255 then 4 else 2)) (cap + 16)) sk) := rfl

theorem t2o_fits_cond_bridge (v : Bytes) (head cap : Int) (room : List Int) :
    Gen.Fn.t2o_fits_cond v head cap room = decide (head > cap + 16 ∨ (v.length : Int) > (room.length : Int)) := rfl

example : Gen.Fn.t2o_fits (some [1, 2, 3]) 16 8 [22, 23] 3 = some [1, 2, 3] := by decide
example : Gen.Fn.t2o_fits (some [1, 2, 3, 4, 5]) 16 8 [22, 23] 3 = none := by decide

/-! ## `_write_ndef_data`, phase 1: the length octet is zeroed first (C02) -/

theorem phase1_eq (c : Tlv.Cfg) (m : Bytes) (off : Nat) (h : off + 1 < m.length) :
    setB m ((off : Int) + 1) 0 = Tlv.phase1 c m off := by
  unfold setB Tlv.phase1 Tlv.wr
  have a : ¬ ((off : Int) + 1 < 0) := by omega
  have b : ¬ ((off : Int) + 1 < 0 ∨ (off : Int) + 1 ≥ (m.length : Int)) := by omega
  have e : ((off : Int) + 1).toNat = off + 1 := by omega
  have d : (off : Int) + 1 < (m.length : Int) := by omega
  simp [a, b, h, e, d]

/-- Type 2: `tag_memory[offset+1] = 0; tag_memory.synchronize()` are statements 4, 5 of the method, in front of
every write of a message octet.  Inside the cached image this is `Tlv.phase1`; outside (`IndexError` here) the
real memory reader first fetches the missing pages from the tag. -/
theorem t2o_phase1_bridge (m : Bytes) (off : Nat) (h : off + 1 < m.length) :
    Gen.Fn.t2o_phase1 m off = Tlv.phase1 Tlv.t2Cfg m off := phase1_eq _ m off h

/-- Type 1: statements 5, 6 (seeded regression C02-r5m3 makes them conditional) -/
theorem t1o_phase1_bridge (unit : Nat) (m : Bytes) (off : Nat) (h : off + 1 < m.length) :
    Gen.Fn.t1o_phase1 m off = Tlv.phase1 (Tlv.t1Cfg unit) m off := phase1_eq _ m off h

example : Gen.Fn.t1o_phase1 [0xE1, 0x10, 3, 5, 1, 2] 2 = .ok [0xE1, 0x10, 3, 0, 1, 2] := by decide

/-! ## the Type 2 memory reader -/

/-- `elif key >= len(self)`: the test of the int-key branch of `__getitem__` (`SectC03.getItem`) -/
theorem t2o_mr_get_cond_bridge (a n : Nat) : Gen.Fn.t2o_mr_get_cond a n = decide (a ≥ n) := by
  unfold Gen.Fn.t2o_mr_get_cond; simp

theorem t2o_mr_get_stop_bridge (a : Nat) : Gen.Fn.t2o_mr_get_stop a = ((a + 1 : Nat) : Int) := by
  unfold Gen.Fn.t2o_mr_get_stop; omega

theorem shr10 (i : Nat) : shr (i : Int) 10 = ((i / 1024 : Nat) : Int) := by
  have := shr_ofNat i 10
  simp only [Nat.shiftRight_eq_div_pow] at this
  exact this

theorem shr2 (i : Nat) : shr (i : Int) 2 = ((i / 4 : Nat) : Int) := by
  have := shr_ofNat i 2
  simp only [Nat.shiftRight_eq_div_pow] at this
  exact this

/-- one round of `_read_from_tag`: SECTOR SELECT for `index / 1024`, then READ of linear page `index / 4`
(`SectC03.readFrom`) -/
theorem t2o_mr_read_step_bridge (index : Nat) (rd : Int → Py Bytes) (sel : Int → Py Int) :
    Gen.Fn.t2o_mr_read_step index rd sel =
      (sel ((index / 1024 : Nat) : Int) >>= fun _ => rd ((index / 4 : Nat) : Int)) := by
  unfold Gen.Fn.t2o_mr_read_step
  rw [shr10, shr2]
  cases sel ((index / 1024 : Nat) : Int) with
  | error e => rfl
  | ok v =>
    simp only [Py.bind_ok]
    cases rd ((index / 4 : Nat) : Int) <;> rfl

/-- the page image that is compared and written: `SectC03.writeUnits` uses `sliceN cache i (i + 4)` -/
theorem t2o_mr_write_data_bridge (i : Nat) (cache : Bytes) :
    Gen.Fn.t2o_mr_write_data i cache = sliceN cache i (i + 4) := by
  unfold Gen.Fn.t2o_mr_write_data
  have : ((i : Int) + 4) = ((i + 4 : Nat) : Int) := by omega
  rw [this, TagCmd.slice_nat]

/-- which pages `_write_to_tag` writes: changed ones and those whose last write is unconfirmed -/
theorem t2o_mr_write_cond_bridge (i : Nat) (data fromTag : Bytes) (unconf : List Int) :
    Gen.Fn.t2o_mr_write_cond i data fromTag unconf =
      decide (data ≠ sliceN fromTag i (i + 4) ∨ (i : Int) ∈ unconf) := by
  unfold Gen.Fn.t2o_mr_write_cond
  have : ((i : Int) + 4) = ((i + 4 : Nat) : Int) := by omega
  rw [this, TagCmd.slice_nat]

/-- the write of one page: select, MARK, write, RELEASE (the order `SectC03.writeUnits` models) -/
theorem t2o_mr_write_step_bridge (i : Nat) (data : Bytes) (sel : Int → Py Int) (wr : Int → Bytes → Py Bool)
    (uadd udel : Int → Py Int) :
    Gen.Fn.t2o_mr_write_step i data sel wr uadd udel =
      (sel ((i / 1024 : Nat) : Int) >>= fun _ => uadd i >>= fun _ => wr ((i / 4 : Nat) : Int) data >>= fun _ =>
       udel i >>= fun _ => .ok data) := by
  unfold Gen.Fn.t2o_mr_write_step
  rw [shr10, shr2]

/-- a failed WRITE leaves the page marked: with the mark operations read as updates of a mark list, the step is
`T12OpsRef.writeStep` -/
theorem gen_write_step_marks (i : Nat) (data : Bytes) (marks : List Int) (sel : Py Int) (wr : Py Bool) :
    (match Gen.Fn.t2o_mr_write_step i data (fun _ => sel) (fun _ _ => wr) (fun _ => .ok 0) (fun _ => .ok 0) with
     | .ok _ => (.ok (), marks.filter (· ≠ (i : Int)))
     | .error e => (.error e, match sel with
                             | .error _ => marks
                             | .ok _ => if (i : Int) ∈ marks then marks else (i : Int) :: marks)) =
    T12OpsRef.writeStep i marks (sel >>= fun _ => .ok ()) (wr >>= fun _ => .ok ()) := by
  rw [t2o_mr_write_step_bridge]
  unfold T12OpsRef.writeStep
  cases sel with
  | error e => rfl
  | ok v =>
    cases wr with
    | error e => rfl
    | ok b => rfl

theorem t2o_mr_sync_stop_bridge (n : Int) : Gen.Fn.t2o_mr_sync_stop n = n := rfl

/-! ## Type 1 Tag commands as whole methods: check - command - `transceive` - answer check -/

theorem t1o_read_id_bridge (tx : Bytes → Py Bytes) : Gen.Fn.t1o_read_id tx = tx t1Rid := rfl
theorem t1o_read_all_bridge (uid : Bytes) (tx : Bytes → Py Bytes) : Gen.Fn.t1o_read_all uid tx = tx (t1Rall uid) := rfl

theorem t1o_read_byte_bridge (addr : Int) (uid : Bytes) (tx : Bytes → Py Bytes) :
    Gen.Fn.t1o_read_byte addr uid tx =
      (t1Read addr uid >>= tx >>= fun rsp => if len rsp < 2 then .error (.tagCmd 2) else getB rsp (-1)) := by
  rw [← TagCmd.t1_read_byte_cmd_bridge]
  unfold Gen.Fn.t1o_read_byte Gen.Fn.t1_read_byte_cmd
  by_cases h : addr < 0 ∨ addr > 127
  · simp only [h, if_true, Py.bind_error]
  · simp only [h, if_false, bind_assoc, Py.bind_ok]

theorem t1o_read_block_bridge (block : Int) (uid : Bytes) (tx : Bytes → Py Bytes) :
    Gen.Fn.t1o_read_block block uid tx = (t1Read8 block uid >>= tx >>= t1Read8Rsp) := by
  rw [← TagCmd.t1_read_block_cmd_bridge]
  have hr : t1Read8Rsp = Gen.Fn.t1_read_block_rsp := funext fun rsp => (TagCmd.t1_read_block_rsp_bridge rsp).symm
  rw [hr]
  unfold Gen.Fn.t1o_read_block Gen.Fn.t1_read_block_cmd Gen.Fn.t1_read_block_rsp
  by_cases h : block < 0 ∨ block > 255
  · simp only [h, if_true, Py.bind_error]
  · simp only [h, if_false, bind_assoc, Py.bind_ok]

theorem t1o_read_segment_bridge (segment : Int) (uid : Bytes) (tx : Bytes → Py Bytes) :
    Gen.Fn.t1o_read_segment segment uid tx = (t1Rseg segment uid >>= tx >>= t1RsegRsp) := by
  rw [← TagCmd.t1_read_segment_cmd_bridge]
  have hr : t1RsegRsp = Gen.Fn.t1_read_segment_rsp := funext fun rsp => (TagCmd.t1_read_segment_rsp_bridge rsp).symm
  rw [hr]
  unfold Gen.Fn.t1o_read_segment Gen.Fn.t1_read_segment_cmd Gen.Fn.t1_read_segment_rsp
  by_cases h : segment < 0 ∨ segment > 15
  · simp only [h, if_true, Py.bind_error]
  · simp only [h, if_false, bind_assoc, Py.bind_ok]

theorem t1o_write_byte_bridge (addr data : Int) (erase : Bool) (uid : Bytes) (tx : Bytes → Py Bytes) :
    Gen.Fn.t1o_write_byte addr data erase uid tx = (t1Write addr data erase uid >>= tx) := by
  rw [← TagCmd.t1_write_byte_cmd_bridge]
  unfold Gen.Fn.t1o_write_byte Gen.Fn.t1_write_byte_cmd
  by_cases h : addr < 0 ∨ addr ≥ 128
  · simp only [h, if_true, Py.bind_error]
  · simp only [h, if_false, bind_assoc, Py.bind_ok]

theorem t1o_write_block_bridge (block : Int) (data : Bytes) (erase : Bool) (uid : Bytes) (tx : Bytes → Py Bytes) :
    Gen.Fn.t1o_write_block block data erase uid tx =
      (t1Write8 block data erase uid >>= tx >>= fun rsp => t1Write8Rsp rsp data erase) := by
  rw [← TagCmd.t1_write_block_cmd_bridge]
  have hr : ∀ rsp, t1Write8Rsp rsp data erase = Gen.Fn.t1_write_block_rsp rsp data erase := fun rsp => (TagCmd.t1_write_block_rsp_bridge rsp data erase).symm
  simp only [hr]
  unfold Gen.Fn.t1o_write_block Gen.Fn.t1_write_block_cmd Gen.Fn.t1_write_block_rsp
  by_cases h : block < 0 ∨ block > 255
  · simp only [h, if_true, Py.bind_error]
  · simp only [h, if_false, bind_assoc, Py.bind_ok]

example : Gen.Fn.t1o_read_byte 8 [1, 2, 3, 4] (fun c => if c = [1, 8, 0, 1, 2, 3, 4] then .ok [8, 0xE1] else .error .runtime)
    = .ok 0xE1 := by decide

/-- write-back of one 8 byte block / one byte of a Type 1 Tag: MARK, write, RELEASE -/
theorem t1o_mr_write_block_step_bridge (i : Int) (data : Bytes) (wr : Int → Bytes → Py Unit) (uadd udel : Int → Py Int) :
    Gen.Fn.t1o_mr_write_block_step i data wr uadd udel =
      (uadd i >>= fun _ => wr (i / 8) data >>= fun _ => udel i >>= fun _ => .ok data) := rfl

theorem t1o_mr_write_byte_step_bridge (i data : Int) (wr : Int → Int → Py Bytes) (uadd udel : Int → Py Int) :
    Gen.Fn.t1o_mr_write_byte_step i data wr uadd udel =
      (uadd i >>= fun _ => wr i data >>= fun _ => udel i >>= fun _ => .ok data) := rfl

end NfcVerif.FnBridge.T12Ops
