import NfcVerif.Lemmas.DlcSapNet
/-!
# C05, routing layer: several data link connection sockets on one service access point

Statements only; proofs in `Lemmas/DlcSap.lean` (invariant `SInv` of a `sock_list`, the routing lemma),
`Lemmas/DlcSapInv.lean`, `Lemmas/DlcSapStep.lean` (every operation of a controller keeps the invariant).

Model: `Model/DlcSap.lean` - `ServiceAccessPoint` with its `sock_list` (`insert_socket` = push to the
left, `remove_socket`, `enqueue` with the peer-matching rule, `dequeue`, `sendack`), the connection set-up
of `DataLinkConnection` (`listen`, `accept`, `connect`, CONNECT / CC / DM), `LogicalLinkController`
`collect` / `dispatch` over all access points; an established connection is the endpoint `Ep` of
`Model/Dlc.lean`.  `Ctl.run c ops` executes any finite sequence of application calls (on any socket),
link steps and `dlv frame` - the dispatch of an ARBITRARY inbound frame - of one controller.

Every PDU and socket carries a ghost connection number `cid` (the number of the `connect()` call it stems
from; never read by a transition).  `Disc` is what the theorems assume about the inbound stream: the
CONNECT PDUs of one source address carry increasing numbers, and an I / RR / RNR PDU carries a number that
is not below the last CONNECT of its source address.  A peer that uses one socket per source address at a
time and a FIFO link produces such a stream (a new `connect()` from an address needs the previous socket of
that address to be gone): `client_stream_disciplined` proves that for every controller on which no socket
listens, `net_route_reaches_connection` composes both halves for two controllers joined by FIFO wires, and the
harness checks the real traffic against `Disc` as well.
-/
namespace NfcVerif.C05
open NfcVerif NfcVerif.Dlc NfcVerif.DlcSap

/-- The `for ... else` loop of `ServiceAccessPoint.enqueue`: a PDU that is not a CONNECT goes to the FIRST socket
of the list whose peer is the PDU's source address or that has no peer yet; if there is none the access point
answers DM (reason 1) itself. -/
theorem sap_route_first_match (a : Sap) (w : WPdu) (hw : w.isConn = false) :
    (∃ pre s post, a.socks = pre ++ s :: post ∧ (∀ t ∈ pre, matchPeer w.ssap t = false) ∧ matchPeer w.ssap s = true ∧
        a.enqueue w = { a with socks := pre ++ s.enqueue w :: post }) ∨
    ((∀ t ∈ a.socks, matchPeer w.ssap t = false) ∧
        a.enqueue w = { a with sendList := a.sendList ++ [dmReply w 1] }) := by
  have hgen : ∀ l : List Sock,
      (∃ pre s post, l = pre ++ s :: post ∧ (∀ t ∈ pre, matchPeer w.ssap t = false) ∧ matchPeer w.ssap s = true ∧
        updFirst (matchPeer w.ssap) (·.enqueue w) l = some (pre ++ s.enqueue w :: post)) ∨
      ((∀ t ∈ l, matchPeer w.ssap t = false) ∧ updFirst (matchPeer w.ssap) (·.enqueue w) l = none) := by
    intro l
    induction l with
    | nil => exact Or.inr ⟨fun t ht => (by cases ht), rfl⟩
    | cons y r ih =>
      cases hy : matchPeer w.ssap y with
      | true => exact Or.inl ⟨[], y, r, rfl, fun t ht => (by cases ht), hy, (by simp [updFirst, hy])⟩
      | false =>
        rcases ih with ⟨pre, s, post, h1, h2, h3, h4⟩ | ⟨h1, h2⟩
        · refine Or.inl ⟨y :: pre, s, post, by rw [h1]; rfl, ?_, h3, by simp [updFirst, hy, h4]⟩
          intro t ht
          rcases List.mem_cons.1 ht with rfl | ht
          · exact hy
          · exact h2 t ht
        · refine Or.inr ⟨?_, by simp [updFirst, hy, h2]⟩
          intro t ht
          rcases List.mem_cons.1 ht with rfl | ht
          · exact hy
          · exact h1 t ht
  unfold Sap.enqueue
  rw [if_neg (by simp [hw])]
  rcases hgen a.socks with ⟨pre, s, post, h1, h2, h3, h4⟩ | ⟨h1, h2⟩
  · exact Or.inl ⟨pre, s, post, h1, h2, h3, by rw [h4]⟩
  · exact Or.inr ⟨h1, by rw [h2]⟩

/-- **An inbound I / RR / RNR PDU reaches the socket of its connection.**  For every history `ops` of a
controller (any application calls on any sockets, any link steps, any inbound frames) whose inbound stream,
including the PDU `w` that arrives next, is disciplined: if the access point `w.dsap` holds a socket `σ` whose
peer is the source address of `w` and that belongs to the same connection attempt as `w`, then `σ` is the socket
`ServiceAccessPoint.enqueue` selects - no socket further left in the `sock_list` (an accepted socket of an
earlier connection from that address in CLOSE_WAIT, DISCONNECT or SHUTDOWN, not yet closed by its application,
or a socket without peer) takes the PDU - and after `dispatch` exactly that socket has processed it. -/
theorem sap_route_reaches_connection (link : Nat) (agf : Bool) (ops : List COp) (w : WPdu)
    (hd : Disc (((Ctl.init link agf).run ops).seen ++ [w])) (hw : w.isData = true)
    (a : Sap) (ha : a ∈ ((Ctl.init link agf).run ops).saps) (hda : a.addr = w.dsap)
    (σ : Sock) (hσ : σ ∈ a.socks) (hp : σ.peer = some w.ssap) (hc : σ.cid = w.cid) :
    ∃ pre post, a.socks = pre ++ σ :: post ∧ (∀ τ ∈ pre, matchPeer w.ssap τ = false) ∧
      { a with socks := pre ++ σ.enqueue w :: post } ∈ (((Ctl.init link agf).run ops).dispatch w).saps := by
  have hinv := run_inv _ ops (init_inv link agf) hd.prefix
  have hsa : SInv (hiOf ((Ctl.init link agf).run ops).seen) a.addr (tags a.socks) :=
    hinv.1 (a.addr, tags a.socks) (List.mem_map_of_mem ha)
  have hk : hiOf ((Ctl.init link agf).run ops).seen w.ssap ≤ σ.cid := by rw [hc]; exact hd.last.2 hw
  obtain ⟨pre, post, h1, h2⟩ := hsa.route σ hσ w.ssap hp hk
  refine ⟨pre, post, h1, h2, ?_⟩
  have hnc : w.isConn = false := by
    unfold WPdu.isData at hw; unfold WPdu.isConn
    cases hb : w.body <;> simp [hb] at hw ⊢
  have hm : matchPeer w.ssap σ = true := by simp [matchPeer, hp]
  have henq : a.enqueue w = { a with socks := pre ++ σ.enqueue w :: post } := by
    unfold Sap.enqueue
    rw [if_neg (by simp [hnc]), h1, updFirst_of_route _ _ pre post σ h2 hm]
  -- `dispatch` applies `enqueue` to the access point with address `w.dsap`
  have hfind : (((Ctl.init link agf).run ops).sap? w.dsap).isSome = true := by
    unfold Ctl.sap?
    rw [List.find?_isSome]
    exact ⟨a, ha, by simp [hda]⟩
  obtain ⟨p, hb⟩ : ∃ p, w.body = .dlc p := by
    unfold WPdu.isData at hw
    cases hb : w.body with
    | dlc p => exact ⟨p, rfl⟩
    | conn _ _ _ => simp [hb] at hw
    | cc _ _ => simp [hb] at hw
  rw [dispatch_dlc _ w p hb hfind, ← henq]
  exact List.mem_map.2 ⟨a, ha, by simp [hda]⟩

/-- **The other half: a controller on which no socket ever listens sends a disciplined stream**, for every history
of application calls (`connect`, re-connects from the same address after `close`, refused connects, ...), link steps
and inbound frames - whatever the peer sends.  Together with the FIFO link this discharges the hypothesis `Disc` of
`sap_route_reaches_connection` for connections initiated by such a controller. -/
theorem client_stream_disciplined (link : Nat) (agf : Bool) (ops : List COp) (ho : ∀ o ∈ ops, isListenOp o = false) :
    Disc ((Ctl.init link agf).run ops).out :=
  client_out_disc link agf ops ho

/-- **Closed system.**  Two controllers joined by two FIFO wires; side A only initiates connections (no socket of A
ever listens), side B is arbitrary (listening sockets, accepted connections, its own clients), every interleaving
`hist` of application calls on both sides, `collect()` / single dequeue steps and frame deliveries.  When the frame
at the head of the wire A -> B is dispatched and its PDU `w` (an I, RR or RNR) comes up - `pre` are the PDUs of the
same frame before it - then any socket `σ` of the destination access point that has `w`'s source address as peer
and belongs to the same connection attempt is the one that gets the PDU: a stale socket of an earlier connection
from that address never swallows it. -/
theorem net_route_reaches_connection (link : Nat) (agf : Bool) (hist : List NOp) (hA : ClientA hist)
    (f : List WPdu) (rest : List (List WPdu)) (pre post : List WPdu) (w : WPdu)
    (hwire : ((Net.init link agf).run hist).wab = f :: rest) (hf : f = pre ++ w :: post) (hw : w.isData = true)
    (a : Sap) (ha : a ∈ (((Net.init link agf).run hist).b.dispatchAll pre).saps) (hda : a.addr = w.dsap)
    (σ : Sock) (hσ : σ ∈ a.socks) (hp : σ.peer = some w.ssap) (hc : σ.cid = w.cid) :
    ∃ pre' post', a.socks = pre' ++ σ :: post' ∧ (∀ τ ∈ pre', matchPeer w.ssap τ = false) ∧
      { a with socks := pre' ++ σ.enqueue w :: post' } ∈ ((((Net.init link agf).run hist).b.dispatchAll pre).dispatch w).saps := by
  obtain ⟨oa, ob, h1, h2, h3⟩ := netRun_proj (Net.init link agf) hist
  have hok : NOk ((Net.init link agf).run hist) := netRun_ok _ hist ⟨rfl, rfl⟩
  have hdisc : Disc ((Net.init link agf).run hist).a.out := by
    rw [h1]; exact client_out_disc link agf oa (h3 hA)
  -- B after the first PDUs of the frame is a controller history too
  have hb : ((Net.init link agf).run hist).b.dispatchAll pre = (Ctl.init link agf).run (ob ++ [.dlv pre]) := by
    rw [run_append, h2]; rfl
  have hseen : (((Net.init link agf).run hist).b.dispatchAll pre).seen ++ [w] ++ (post ++ rest.flatten) =
      ((Net.init link agf).run hist).a.out := by
    rw [dispatchAll_seen, ← hok.1, hwire, hf]; simp
  have hd : Disc ((((Net.init link agf).run hist).b.dispatchAll pre).seen ++ [w]) := by
    rw [← hseen] at hdisc; exact hdisc.prefix
  rw [hb] at hd ha ⊢
  exact sap_route_reaches_connection link agf (ob ++ [.dlv pre]) w hd hw a ha hda σ hσ hp hc

/-! ### findings: proved counter-examples on the model of the code as found -/

/-- the socket object with handle `sid` (`default` when there is none) -/
def sockOf (c : Ctl) (sid : Nat) : Sock := (c.sock? sid).getD default

/-- `accept(); send()` on the server while the client is still in `connect()`: the I PDU leaves before the CC -/
def earlyData : List NOp :=
  [.op .B (.sock 2 128 (.addr 40)), .op .B (.listen 0 1), .op .A (.sock 2 128 (.addr 33)), .op .A (.connect 0 (.addr 40)),
   .op .A .collect, .deliver .B, .op .B (.accept 0), .op .B (.send 1 [1]), .op .B .collect, .op .B .collect,
   .deliver .A, .deliver .A, .op .A (.connFin 0), .op .A .collect, .op .B .collect]

/-- Finding `dlc-data-before-connect-complete`: after this history both ends are ESTABLISHED, every queue and both
wires are empty, the accepting side has had a message accepted by `send()` - and the peer will never receive it. -/
theorem net_early_data_counterexample :
    let n := (Net.init 128 false).run earlyData
    (sockOf n.b 1).ep.accepted = [[1]] ∧ (sockOf n.a 0).ep.delivered = [] ∧ (sockOf n.a 0).ep.rq = [] ∧
    (sockOf n.b 1).ep.sq = [] ∧ n.wab = [] ∧ n.wba = [] ∧
    (sockOf n.a 0).ep.st = .established ∧ (sockOf n.b 1).ep.st = .established ∧
    (sockOf n.a 0).peer = some 40 ∧ (sockOf n.b 1).peer = some 33 := by decide +kernel

/-- `close()` of a socket with an unread message, the closing handshake, then a new connection from the same source
address; the accepted socket of the first connection is never closed by its application -/
def closeUnread : List NOp :=
  [.op .B (.sock 2 128 (.addr 40)), .op .B (.listen 0 1), .op .A (.sock 2 128 (.addr 33)), .op .A (.connect 0 (.addr 40)),
   .op .A .collect, .deliver .B, .op .B (.accept 0), .op .B .collect, .deliver .A, .op .A (.connFin 0),
   .op .B (.send 1 [5]), .op .B .collect, .deliver .A, .op .A (.close 0), .op .A .collect, .deliver .B,
   .op .B .collect, .deliver .A, .op .A (.closeFin 0),
   .op .A (.sock 2 128 (.addr 33)), .op .A (.connect 1 (.addr 40)), .op .A .collect, .deliver .B, .op .B (.accept 0),
   .op .B .collect, .deliver .A, .op .A (.connFin 1),
   .op .B (.send 2 [7]), .op .B .collect, .deliver .A, .op .B (.send 1 [9]), .op .B .collect, .deliver .A,
   .op .A (.recv 1)]

/-- The history of the former finding `dlc-close-unread-data-no-disc` on the repaired code (fixes/C05/0002): `close()`
with an unread message waits (`pending`) with DISC queued and the receive queue empty, the peer's socket goes to
CLOSE_WAIT, its later `send()` is refused (nothing of it is accepted), and the second connection from SAP 33
delivers exactly what its own peer sent. -/
theorem net_close_unread_repaired :
    let n := (Net.init 128 false).run closeUnread
    (sockOf n.a 0).ep.st = .shutdown ∧ (sockOf n.b 1).ep.st = .closeWait ∧ (sockOf n.b 1).ep.accepted = [[5]] ∧
    (sockOf n.a 1).ep.delivered = [[7]] ∧ (sockOf n.b 2).ep.accepted = [[7]] ∧ (sockOf n.a 1).ep.rq = [] ∧
    n.wab = [] ∧ n.wba = [] ∧
    (let m := (Net.init 128 false).run (closeUnread.take 14)
     (sockOf m.a 0).ep.st = .disconnect ∧ (sockOf m.a 0).ep.sq = [.disc] ∧ (sockOf m.a 0).ep.rq = [] ∧
     (sockOf m.a 0).ep.closing = true) := by
  decide +kernel

/-! Non-vacuity of `sap_route_reaches_connection`: a server access point that still holds the accepted socket
of an earlier connection from SAP 33 (CLOSE_WAIT) behind the socket of the current one. -/
def reconnect : List COp :=
  [.sock 2 128 (.addr 40), .listen 0 2,
   .dlv [⟨40, 33, 1, .conn 128 2 none⟩], .accept 0, .collect,
   .dlv [⟨40, 33, 1, .dlc (.i 0 0 [1])⟩], .dlv [⟨40, 33, 1, .dlc .disc⟩], .collect,
   .dlv [⟨40, 33, 2, .conn 128 2 none⟩], .accept 0, .collect]

example : Disc (((Ctl.init 128 false).run reconnect).seen ++ [⟨40, 33, 2, .dlc (.i 0 0 [7])⟩]) := by
  intro pre w post h
  have hl : ((Ctl.init 128 false).run reconnect).seen ++ [⟨40, 33, 2, .dlc (.i 0 0 [7])⟩] =
      [⟨40, 33, 1, .conn 128 2 none⟩, ⟨40, 33, 1, .dlc (.i 0 0 [1])⟩, ⟨40, 33, 1, .dlc .disc⟩,
       ⟨40, 33, 2, .conn 128 2 none⟩, ⟨40, 33, 2, .dlc (.i 0 0 [7])⟩] := by decide
  rw [hl] at h
  have : (pre, w) ∈ [(([] : List WPdu), (⟨40, 33, 1, .conn 128 2 none⟩ : WPdu)),
      ([⟨40, 33, 1, .conn 128 2 none⟩], ⟨40, 33, 1, .dlc (.i 0 0 [1])⟩),
      ([⟨40, 33, 1, .conn 128 2 none⟩, ⟨40, 33, 1, .dlc (.i 0 0 [1])⟩], ⟨40, 33, 1, .dlc .disc⟩),
      ([⟨40, 33, 1, .conn 128 2 none⟩, ⟨40, 33, 1, .dlc (.i 0 0 [1])⟩, ⟨40, 33, 1, .dlc .disc⟩], ⟨40, 33, 2, .conn 128 2 none⟩),
      ([⟨40, 33, 1, .conn 128 2 none⟩, ⟨40, 33, 1, .dlc (.i 0 0 [1])⟩, ⟨40, 33, 1, .dlc .disc⟩, ⟨40, 33, 2, .conn 128 2 none⟩],
        ⟨40, 33, 2, .dlc (.i 0 0 [7])⟩)] := by
    rcases pre with _ | ⟨p1, _ | ⟨p2, _ | ⟨p3, _ | ⟨p4, _ | ⟨p5, pre⟩⟩⟩⟩⟩ <;> simp_all
  simp only [List.mem_cons, Prod.mk.injEq, List.mem_nil_iff, or_false] at this
  rcases this with ⟨rfl, rfl⟩ | ⟨rfl, rfl⟩ | ⟨rfl, rfl⟩ | ⟨rfl, rfl⟩ | ⟨rfl, rfl⟩ <;> (unfold StepOk; decide)

/-- the list is `[new (ESTABLISHED), old (CLOSE_WAIT), listener]`: the I PDU of connection 2 goes to the new socket -/
example : (((Ctl.init 128 false).run reconnect).saps.map fun a => a.socks.map fun s => (s.sid, s.cid, s.peer, s.ep.st)) =
    [[(2, 2, some 33, .established), (1, 1, some 33, .closeWait), (0, 0, none, .shutdown)]] := by decide


/-! Non-vacuity of `net_route_reaches_connection`: A connects from SAP 33, closes, connects again from SAP 33 while
B still holds the accepted socket of the first connection (CLOSE_WAIT, never closed by its application), and sends.
The I PDU of connection 2 is at the head of the wire; B's list is `[new, stale, listener]`. -/
def reconnectNet : List NOp :=
  [.op .B (.sock 2 128 (.addr 40)), .op .B (.listen 0 2), .op .A (.sock 2 128 (.addr 33)), .op .A (.connect 0 (.addr 40)),
   .op .A .collect, .deliver .B, .op .B (.accept 0), .op .B .collect, .deliver .A, .op .A (.connFin 0),
   .op .A (.close 0), .op .A .collect, .deliver .B, .op .B .collect, .deliver .A, .op .A (.closeFin 0),
   .op .A (.sock 2 128 (.addr 33)), .op .A (.connect 1 (.addr 40)), .op .A .collect, .deliver .B, .op .B (.accept 0),
   .op .B .collect, .deliver .A, .op .A (.connFin 1), .op .A (.send 1 [7]), .op .A .collect]

example : ClientA reconnectNet := ClientA_of_bool _ (by decide)

example : ((Net.init 128 false).run reconnectNet).wab = [[⟨40, 33, 2, .dlc (.i 0 0 [7])⟩]] := by decide +kernel

example : (((Net.init 128 false).run reconnectNet).b.saps.map fun a => a.socks.map (·.sid)) = [[2, 1, 0]] ∧
    (((Net.init 128 false).run reconnectNet).b.saps.map fun a => a.socks.map (·.cid)) = [[2, 1, 0]] ∧
    (((Net.init 128 false).run reconnectNet).b.saps.map fun a => a.socks.map (·.peer)) = [[some 33, some 33, none]] ∧
    (((Net.init 128 false).run reconnectNet).b.saps.map fun a => a.socks.map (·.ep.st)) =
      [[St.established, St.closeWait, St.shutdown]] := by decide +kernel

end NfcVerif.C05
