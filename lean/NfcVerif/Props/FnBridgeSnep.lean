import NfcVerif.Lemmas.FnBridgeSnep
/-!
# Bridge theorems, group Snep (`nfc/snep/client.py`, `nfc/snep/server.py`, `nfc/handover/client.py` pure slices
-> `Gen/FnSnep.lean` -> `Model/Snep.lean`, `Model/SnepChannel.lean`, `Model/Handover.lean`, `Model/PeerSnep.lean`)

Properties C06 (messages survive fragmentation; the size limits are enforced) and C07 (octets of the peer raise
nothing but what the code handles).  The cuts are listed in `harness/fnspecs/snep.py` and in the doc comments of
`Gen/FnSnep.lean`.  Kinds of statements:

* `<slice>_bridge`: a regenerated slice equals the arithmetic the models use (`Snep.hdr`, `Snep.request`,
  `beNat` of the length field, `List.drop`), `<slice>_peer`: it equals the `Py`-level transcription of the C07
  model (`PeerSnep.unpackL`, `unpackFromBxL`, `unpackBBL`, `packResponse`);
* `process_bridge`, `respond_bridge`, `srv_on_recv_bridge`, `cli_finish_bridge`, `cli_on_recv_bridge`, `cli_send_bridge`,
  `cli_start_bridge`: the transition functions of the C06 state machines (`Snep.process`, `respond`, `srvOnRecv`,
  `cliFinish`, `cliOnRecv`, `cliSend`, `cliStart`) equal the compositions `processGen`, .. of `Lemmas/FnBridgeSnep.lean`,
  in which every condition, slice and protocol constant is a regenerated `expr=` cut pinned to its statement; hand
  written remain the control skeleton and the offsets of the fragment loops.  Hypotheses: send MIU >= 1, the
  application callbacks answer with a one-octet code / a message below 2^32 octets (`HandlersOk`), and - because the
  models subtract the 6 header octets in `Nat` while Python subtracts in `int` - a reassembly buffer of at least 6
  octets (an invariant of the models: the buffer starts as a first fragment that passed the `len < 6` check).
  `*_mid` are stepping stones (header slices regenerated, conditions by hand);
* `ho_send_octets_bridge`: `HandoverClient.send_octets` over an oracle socket offers exactly `Chan.chunks miu octets`;
  `ho_srv_frags_bridge`: the fragments of `HandoverServer.serve`;
* `gen_*`: statements of C06 / C07 restated for the regenerated code.
-/
namespace NfcVerif.FnBridge.Snep
open NfcVerif NfcVerif.PyFn NfcVerif.Chan NfcVerif.Snep

/-! ## headers built by the client and by the server -/

/-- the response header in front of the response data: `Snep.hdr`; `struct.error` when the code is not an octet
or the data does not fit a 32 bit length -/
theorem response_pack_bridge (code : Nat) (data : Bytes) :
    Gen.Fn.snep_response_pack (code : Int) data
      = if code > 255 ∨ data.length ≥ 2 ^ 32 then .error .struct else .ok (hdr code data.length ++ data) := by
  unfold Gen.Fn.snep_response_pack
  have h := pack_BBL 16 code data.length
  simp only [len_eq]
  rw [show (16 : Int) = ((16 : Nat) : Int) from rfl, h]
  by_cases h1 : code > 255 <;> by_cases h2 : data.length ≥ 2 ^ 32 <;> simp [h1, h2, hdr]

theorem put_request_bridge (acc : Nat) (octets : Bytes) :
    Gen.Fn.snep_put_request octets = request acc .put octets := by
  unfold Gen.Fn.snep_put_request request
  have h := pack_BBL 16 2 octets.length
  simp only [len_eq]
  rw [show (16 : Int) = ((16 : Nat) : Int) from rfl, show (2 : Int) = ((2 : Nat) : Int) from rfl, h]
  by_cases h2 : octets.length ≥ 2 ^ 32 <;> simp [h2]

theorem get_request_bridge (acc : Nat) (octets : Bytes) :
    Gen.Fn.snep_get_request octets (acc : Int) = request acc .get octets := by
  unfold Gen.Fn.snep_get_request request
  have h := pack_BBLL 16 1 (4 + octets.length) acc
  simp only [len_eq]
  rw [show (16 : Int) = ((16 : Nat) : Int) from rfl, show (1 : Int) = ((1 : Nat) : Int) from rfl,
    show (4 : Int) = ((4 : Nat) : Int) from rfl, ← Int.natCast_add, h]
  by_cases h1 : 4 + octets.length ≥ 2 ^ 32 <;> by_cases h2 : acc ≥ 2 ^ 32 <;> simp [h1, h2]

/-- a negative `acceptable_length` is `struct.error` as well -/
theorem get_request_neg (acc : Int) (h : acc < 0) (octets : Bytes) :
    Gen.Fn.snep_get_request octets acc = .error .struct := by
  unfold Gen.Fn.snep_get_request
  have h4 : packField .Ibe acc = .error .struct := packField_neg _ _ h
  simp only [PyFn.pack, h4, len_eq]
  rw [show (16 : Int) = ((16 : Nat) : Int) from rfl, show (1 : Int) = ((1 : Nat) : Int) from rfl,
    show (4 : Int) = ((4 : Nat) : Int) from rfl, ← Int.natCast_add, packField_B, packField_B, packField_Ibe]
  by_cases h1 : 4 + octets.length ≥ 2 ^ 32 <;> simp [h1]


example : Gen.Fn.snep_response_pack 0x81 [1, 2, 3] = .ok [0x10, 0x81, 0, 0, 0, 3, 1, 2, 3] := by decide +kernel
example : Gen.Fn.snep_response_pack 256 [] = .error .struct := by decide +kernel
example : Gen.Fn.snep_put_request [0xD0, 0, 0] = .ok [0x10, 2, 0, 0, 0, 3, 0xD0, 0, 0] := by decide +kernel
example : Gen.Fn.snep_get_request [0xD0, 0, 0] 1024 = .ok [0x10, 1, 0, 0, 0, 7, 0, 0, 4, 0, 0xD0, 0, 0] := by
  decide +kernel

/-! ## header fields read from the peer's octets -/

/-- `struct.unpack_from(">BxL", data)`: version octet and big-endian length; `struct.error` below 6 octets -/
theorem serve_header_bridge (m : Bytes) :
    Gen.Fn.snep_serve_header m
      = if m.length < 6 then .error .struct
        else .ok (((m.headD 0 : Nat) : Int), ((beNat ((m.drop 2).take 4) : Nat) : Int)) := by
  unfold Gen.Fn.snep_serve_header
  have h : needFrom m 0 6 = if 0 + 6 ≤ m.length then .ok 0 else .error .struct := needFrom_nat m 0 6
  rw [h]
  by_cases h6 : m.length < 6
  · simp [h6, show ¬ 6 ≤ m.length by omega]
  · have h6' : 6 ≤ m.length := by omega
    simp only [h6', h6, if_true, if_false, Py.bind_ok]
    have e1 : ube m 0 1 = ((beNat ((m.drop 0).take 1) : Nat) : Int) := ube_nat m 0 1
    have e2 : ube m (0 + 2) 4 = ((beNat ((m.drop 2).take 4) : Nat) : Int) := ube_nat m 2 4
    rw [e1, e2]
    match m, h6' with
    | a :: _ :: _ :: _ :: _ :: _ :: _, _ => simp [beNat]


/-- `struct.unpack(">BBL", snep_response[:6])`: `struct.error` below 6 octets -/
theorem recv_unpack_bridge (m : Bytes) :
    Gen.Fn.snep_recv_unpack m
      = if m.length < 6 then .error .struct
        else .ok (((m.headD 0 : Nat) : Int), (((m.drop 1).headD 0 : Nat) : Int),
                  ((beNat ((m.drop 2).take 4) : Nat) : Int)) := by
  unfold Gen.Fn.snep_recv_unpack
  have e0 : PyFn.sliceTo m 6 = m.take 6 := sliceTo_ofNat m 6
  have h : needExact (m.take 6) 6 = if (m.take 6).length = 6 then .ok () else .error .struct := needExact_nat _ 6
  rw [e0, h]
  by_cases h6 : m.length < 6
  · have : ¬ (m.take 6).length = 6 := by rw [List.length_take]; omega
    rw [if_neg this, if_pos h6]; rfl
  · have h6' : (m.take 6).length = 6 := by rw [List.length_take]; omega
    simp only [h6', h6, if_true, if_false, Py.bind_ok]
    have e1 : ube (m.take 6) 0 1 = ((beNat (((m.take 6).drop 0).take 1) : Nat) : Int) := ube_nat _ 0 1
    have e2 : ube (m.take 6) (0 + 1) 1 = ((beNat (((m.take 6).drop 1).take 1) : Nat) : Int) := ube_nat _ 1 1
    have e3 : ube (m.take 6) (0 + 2) 4 = ((beNat (((m.take 6).drop 2).take 4) : Nat) : Int) := ube_nat _ 2 4
    rw [e1, e2, e3]
    match m, h6 with
    | a :: b :: _ :: _ :: _ :: _ :: _, _ => simp [beNat]

theorem get_fields_bridge (d : Bytes) :
    Gen.Fn.snep_get_fields d
      = if d.length < 10 then .error .struct
        else .ok (((beNat ((d.drop 6).take 4) : Nat) : Int), d.drop 10) := by
  unfold Gen.Fn.snep_get_fields
  have e0 : slice d 6 10 = (d.drop 6).take 4 := slice_nat d 6 10
  have e1 : PyFn.sliceFrom d 10 = d.drop 10 := sliceFrom_ofNat d 10
  have h : needExact ((d.drop 6).take 4) 4 = if ((d.drop 6).take 4).length = 4 then .ok () else .error .struct :=
    needExact_nat _ 4
  have e2 : ube ((d.drop 6).take 4) 0 4 = ((beNat ((((d.drop 6).take 4).drop 0).take 4) : Nat) : Int) := ube_nat _ 0 4
  rw [e0, e1, h, e2]
  by_cases h10 : d.length < 10
  · have : ¬ ((d.drop 6).take 4).length = 4 := by rw [List.length_take, List.length_drop]; omega
    rw [if_neg this, if_pos h10]; rfl
  · have : ((d.drop 6).take 4).length = 4 := by rw [List.length_take, List.length_drop]; omega
    rw [if_pos this, if_neg h10]
    simp only [Py.bind_ok, List.drop_zero, List.take_take, Nat.min_self]

theorem put_fields_bridge (d : Bytes) : Gen.Fn.snep_put_fields d = d.drop 6 := by
  unfold Gen.Fn.snep_put_fields
  exact sliceFrom_ofNat d 6

theorem get_excess_bridge (code acc : Nat) (data : Bytes) :
    Gen.Fn.snep_get_excess (code : Int) data (acc : Int)
      = if data.length > acc then (0xC1, []) else ((code : Int), data) := by
  unfold Gen.Fn.snep_get_excess
  simp only [len_eq]
  by_cases h : data.length > acc
  · have h' : ((data.length : Nat) : Int) > (acc : Int) := by omega
    simp [h, h']
  · have h' : ¬ ((data.length : Nat) : Int) > (acc : Int) := by omega
    simp [h, h']


example : Gen.Fn.snep_serve_header [0x10, 2, 0, 0, 1, 2, 9] = .ok (0x10, 258) := by decide +kernel
example : Gen.Fn.snep_serve_header [0x10, 2, 0, 0, 1] = .error .struct := by decide +kernel
example : Gen.Fn.snep_recv_unpack [0x10, 0x81, 0, 0, 0, 1, 7] = .ok (0x10, 0x81, 1) := by decide +kernel
example : Gen.Fn.snep_get_fields [0x10, 1, 0, 0, 0, 5, 0, 0, 1, 0, 0xD0] = .ok (256, [0xD0]) := by decide +kernel
example : Gen.Fn.snep_get_excess 0x81 [1, 2, 3] 2 = (0xC1, []) := by decide +kernel

/-! ## transitions of the C06 state machines as compositions of the regenerated slices -/

theorem response_pack_ok (code : Nat) (data : Bytes) (hc : code < 256) (hl : data.length < 2 ^ 32) :
    Gen.Fn.snep_response_pack (code : Int) data = .ok (hdr code data.length ++ data) := by
  rw [response_pack_bridge, if_neg (by omega)]

/-- `process_snep_request` of the model is the composition of the regenerated slices with the application callbacks
(which answer with a one-octet code / a message that fits the 32 bit length field) -/
theorem process_mid (h : Handlers) (data : Bytes)
    (hput : ∀ o, h.put o < 256) (hget : ∀ o c, h.get o = .inl c → c < 256)
    (hlen : ∀ o d, h.get o = .inr d → d.length < 2 ^ 32) :
    process h data = processMid h data := by
  unfold process processMid
  have hbad : Gen.Fn.snep_response_pack 0xC2 [] = .ok (hdr 0xC2 0) := by
    have := response_pack_ok 0xC2 [] (by omega) (by simp)
    simpa using this
  match data with
  | [] => simp [idxN, getB_nil]
  | [a] => rw [getB_one, getB_nil]; simp [idxN]
  | a :: c :: rest =>
    rw [getB_one, getB_zero]
    simp only [idxN, List.getElem?_cons_succ, List.getElem?_cons_zero, Py.bind_ok, len_eq, hbad]
    have e1 : (((c : Nat) : Int) = 1) ↔ c = 1 := by omega
    have e2 : (((c : Nat) : Int) = 2) ↔ c = 2 := by omega
    have e10 : (((a :: c :: rest).length : Int) ≥ 10) ↔ (a :: c :: rest).length ≥ 10 := by omega
    simp only [e1, e2, e10]
    by_cases hc1 : c = 1 ∧ (a :: c :: rest).length ≥ 10
    · have h10 : ¬ (a :: c :: rest).length < 10 := by omega
      rw [if_pos hc1, if_pos hc1, get_fields_bridge, if_neg h10]
      simp only [Py.bind_ok]
      cases hv : h.valid ((a :: c :: rest).drop 10) with
      | false => simp
      | true =>
        simp only [Bool.true_eq_false, if_false]
        cases hg : h.get ((a :: c :: rest).drop 10) with
        | inl k =>
          have hk := hget _ _ hg
          simp only []
          rw [get_excess_bridge]
          simp only [List.length_nil]
          by_cases hx : 0 > beNat (((a :: c :: rest).drop 6).take 4)
          · omega
          · rw [if_neg hx, if_neg (by omega), response_pack_ok k [] hk (by simp)]
            simp
        | inr d =>
          have hd := hlen _ _ hg
          simp only []
          rw [show (0x81 : Int) = ((0x81 : Nat) : Int) from rfl, get_excess_bridge]
          by_cases hx : d.length > beNat (((a :: c :: rest).drop 6).take 4)
          · rw [if_pos hx, if_pos hx, show (0xC1 : Int) = ((0xC1 : Nat) : Int) from rfl,
              response_pack_ok 0xC1 [] (by omega) (by simp)]
            simp
          · rw [if_neg hx, if_neg hx, response_pack_ok 0x81 d (by omega) hd]
            simp
    · rw [if_neg hc1, if_neg hc1]
      by_cases hc2 : c = 2
      · rw [if_pos hc2, if_pos hc2, put_fields_bridge]
        cases hv : h.valid ((a :: c :: rest).drop 6) with
        | false => simp
        | true =>
          simp only [Bool.true_eq_false, if_false]
          rw [response_pack_ok _ [] (hput _) (by simp)]
          simp
      · rw [if_neg hc2, if_neg hc2]


/-- the head of the `_serve` loop (model `srvOnRecv cfg .idle`) is the regenerated header unpack inside the
conditions of the source -/
theorem srv_idle_mid (cfg : SCfg) (m : Bytes) : srvOnRecv cfg .idle m = srvIdleMid cfg m := by
  unfold srvIdleMid
  rw [serve_header_bridge]
  match m with
  | [] => simp [srvOnRecv]
  | [_] => simp [srvOnRecv, len_eq]
  | [_, _] => simp [srvOnRecv, len_eq]
  | [_, _, _] => simp [srvOnRecv, len_eq]
  | [_, _, _, _] => simp [srvOnRecv, len_eq]
  | [_, _, _, _, _] => simp [srvOnRecv, len_eq]
  | v :: x :: a :: b :: c :: d :: rest =>
    have hl : ¬ (v :: x :: a :: b :: c :: d :: rest).length < 6 := by simp
    have hl' : ¬ PyFn.len (v :: x :: a :: b :: c :: d :: rest) < 6 := by simp [len_eq]; omega
    have e4 : PyFn.shr ((v : Nat) : Int) 4 = ((v / 16 : Nat) : Int) := by
      rw [show (4 : Int) = ((4 : Nat) : Int) from rfl, shr_ofNat, Nat.shiftRight_eq_div_pow]
    simp only [srvOnRecv, hl, hl', if_false, reduceCtorEq, List.headD_cons, List.drop_succ_cons, List.drop_zero,
      List.take_succ_cons, List.take_zero, e4, Int.toNat_natCast]
    have c1 : (((v / 16 : Nat) : Int) > 1) ↔ v / 16 > 1 := by omega
    have c2 : (((beNat [a, b, c, d] : Nat) : Int) > (cfg.maxAcc : Int)) ↔ beNat [a, b, c, d] > cfg.maxAcc := by omega
    have c3 : (PyFn.len (v :: x :: a :: b :: c :: d :: rest) - 6 < ((beNat [a, b, c, d] : Nat) : Int))
        ↔ (v :: x :: a :: b :: c :: d :: rest).length - 6 < beNat [a, b, c, d] := by
      simp only [len_eq, List.length_cons]; omega
    simp only [c1, c2, c3]


/-- `recv_response` on the first fragment (model `cliOnRecv (.awaitResp op acc)`) is the regenerated header
unpack inside the conditions of the source -/
theorem cli_await_mid (op : Op) (acc : Nat) (m : Bytes) :
    cliOnRecv (.awaitResp op acc) m = cliAwaitMid op acc m := by
  unfold cliAwaitMid
  rw [recv_unpack_bridge]
  match m with
  | [] => simp [cliOnRecv, len_eq]
  | [_] => simp [cliOnRecv, len_eq]
  | [_, _] => simp [cliOnRecv, len_eq]
  | [_, _, _] => simp [cliOnRecv, len_eq]
  | [_, _, _, _] => simp [cliOnRecv, len_eq]
  | [_, _, _, _, _] => simp [cliOnRecv, len_eq]
  | v :: x :: a :: b :: c :: d :: rest =>
    have hl : ¬ (v :: x :: a :: b :: c :: d :: rest).length < 6 := by simp
    have hl' : ¬ PyFn.len (v :: x :: a :: b :: c :: d :: rest) < 6 := by simp [len_eq]; omega
    simp only [cliOnRecv, hl, hl', if_false, List.headD_cons, List.drop_succ_cons, List.drop_zero,
      List.take_succ_cons, List.take_zero, Int.toNat_natCast]
    have c2 : (((beNat [a, b, c, d] : Nat) : Int) > (acc : Int)) ↔ beNat [a, b, c, d] > acc := by omega
    have c3 : (PyFn.len (v :: x :: a :: b :: c :: d :: rest) - 6 < ((beNat [a, b, c, d] : Nat) : Int))
        ↔ (v :: x :: a :: b :: c :: d :: rest).length - 6 < beNat [a, b, c, d] := by
      simp only [len_eq, List.length_cons]; omega
    simp only [c2, c3]

/-! ## `recv_response`: the whole check slice of the first fragment -/

/-- the checks of the first response fragment: `None` (no response) below six octets or above the acceptable
length, else the announced length -/
theorem recv_header_bridge (m : Bytes) (acc : Nat) :
    Gen.Fn.snep_recv_header m (acc : Int)
      = if m.length < 6 then .ok none
        else if beNat ((m.drop 2).take 4) > acc then .ok none
        else .ok (some ((beNat ((m.drop 2).take 4) : Nat) : Int)) := by
  unfold Gen.Fn.snep_recv_header
  by_cases h6 : m.length < 6
  · have : PyFn.len m < 6 := by rw [len_eq]; omega
    rw [if_pos this, if_pos h6]
  · have : ¬ PyFn.len m < 6 := by rw [len_eq]; omega
    rw [if_neg this, if_neg h6]
    have e0 : PyFn.sliceTo m 6 = m.take 6 := sliceTo_ofNat m 6
    have hx : needExact (m.take 6) 6 = if (m.take 6).length = 6 then .ok () else .error .struct := needExact_nat _ 6
    have h6' : (m.take 6).length = 6 := by rw [List.length_take]; omega
    have e3 : ube (m.take 6) (0 + 2) 4 = ((beNat (((m.take 6).drop 2).take 4) : Nat) : Int) := ube_nat _ 2 4
    rw [e0, hx, if_pos h6']
    simp only [Py.bind_ok, e3]
    have e4 : ((m.take 6).drop 2).take 4 = (m.drop 2).take 4 := by
      have h6'' : 6 ≤ m.length := by omega
      match m, h6'' with
      | _ :: _ :: _ :: _ :: _ :: _ :: _, _ => rfl
    rw [e4]
    by_cases hb : beNat ((m.drop 2).take 4) > acc
    · have : ((beNat ((m.drop 2).take 4) : Nat) : Int) > (acc : Int) := by omega
      simp [hb, this]
    · have : ¬ ((beNat ((m.drop 2).take 4) : Nat) : Int) > (acc : Int) := by omega
      simp [hb, this]

/-- `recv_response` on the first fragment (model `cliOnRecv (.awaitResp op acc)`) is the regenerated check slice
followed by the reassembly condition -/
theorem cli_await_hdr_mid (op : Op) (acc : Nat) (m : Bytes) :
    cliOnRecv (.awaitResp op acc) m = cliAwaitHdrMid op acc m := by
  unfold cliAwaitHdrMid
  rw [recv_header_bridge]
  match m with
  | [] => simp [cliOnRecv]
  | [_] => simp [cliOnRecv]
  | [_, _] => simp [cliOnRecv]
  | [_, _, _] => simp [cliOnRecv]
  | [_, _, _, _] => simp [cliOnRecv]
  | [_, _, _, _, _] => simp [cliOnRecv]
  | v :: x :: a :: b :: c :: d :: rest =>
    have hl : ¬ (v :: x :: a :: b :: c :: d :: rest).length < 6 := by simp
    simp only [cliOnRecv, hl, if_false, List.drop_succ_cons, List.drop_zero, List.take_succ_cons, List.take_zero]
    by_cases hb : beNat [a, b, c, d] > acc
    · simp [hb]
    · have c3 : (PyFn.len (v :: x :: a :: b :: c :: d :: rest) - 6 < ((beNat [a, b, c, d] : Nat) : Int))
          ↔ (v :: x :: a :: b :: c :: d :: rest).length - 6 < beNat [a, b, c, d] := by
        simp only [len_eq, List.length_cons]; omega
      simp only [hb, if_false, c3, Int.toNat_natCast]

example : Gen.Fn.snep_recv_header [0x10, 0x81, 0, 0, 0, 9, 1] 8 = .ok none := by decide +kernel
example : Gen.Fn.snep_recv_header [0x10, 0x81, 0, 0, 0, 9, 1] 9 = .ok (some 9) := by decide +kernel

/-- C06 (`snep_oversize_rejected`, client side of GET): a response that announces more than the acceptable length
is dropped whole, whatever its first fragment carries -/
theorem gen_recv_oversize_dropped (op : Op) (acc : Nat) (m : Bytes) (h6 : 6 ≤ m.length)
    (hbig : beNat ((m.drop 2).take 4) > acc) :
    cliOnRecvGen (.awaitResp op acc) m = (.done (noResponse op), []) := by
  show cliAwaitGen op acc m = _
  unfold cliAwaitGen
  rw [recv_header_bridge, if_neg (by omega), if_pos hbig]

/-! ## the transition functions of the C06 model = compositions of regenerated pieces only -/

theorem process_bridge (h : Handlers) (hk : HandlersOk h) (data : Bytes) : process h data = processGen h data := by
  rw [process_mid h data hk.put hk.getCode hk.getLen]
  unfold processMid processGen Gen.Fn.snep_srv_is_get Gen.Fn.snep_srv_is_put
  cases hg : getB data 1 with
  | error e => rfl
  | ok code =>
    simp only [Py.bind_ok, decide_eq_true_eq]

theorem respond_bridge (smiu : Nat) (hm : 0 < smiu) (resp : Bytes) : respond smiu resp = respondGen smiu resp := by
  unfold respond respondGen Gen.Fn.snep_srv_fits Gen.Fn.snep_srv_first
  rw [fragsGen_eq _ (fun d a m => rfl) resp smiu hm, slice_zero_nat]
  simp only [len_eq, decide_eq_true_eq, Int.ofNat_le]

theorem srv_finish_bridge (cfg : SCfg) (hk : HandlersOk cfg.h) (hm : 0 < cfg.smiu) (data : Bytes) :
    srvFinish cfg data = srvFinishGen cfg data := by
  unfold srvFinish srvFinishGen
  rw [process_bridge cfg.h hk]
  cases processGen cfg.h data with
  | error e => rfl
  | ok r => simp only [respond_bridge cfg.smiu hm]

/-- the whole server transition function of the C06 model -/
theorem srv_on_recv_bridge (cfg : SCfg) (hk : HandlersOk cfg.h) (hm : 0 < cfg.smiu) (st : SState) (m : Bytes)
    (hst : ∀ data length, st = .reasm data length → 6 ≤ data.length) :
    srvOnRecv cfg st m = srvOnRecvGen cfg st m := by
  cases st with
  | idle =>
    rw [srv_idle_mid]
    unfold srvIdleMid srvOnRecvGen Gen.Fn.snep_srv_empty Gen.Fn.snep_srv_short Gen.Fn.snep_srv_bad_version
      Gen.Fn.snep_srv_too_long Gen.Fn.snep_srv_more
    simp only [decide_eq_true_eq, Decidable.not_not, srv_finish_bridge cfg hk hm]
    rfl
  | reasm data length =>
    unfold srvOnRecvGen Gen.Fn.snep_srv_more_loop
    simp only [srvOnRecv, srv_finish_bridge cfg hk hm, len_eq]
    have h6 := hst data length rfl
    have c : (((data ++ m).length : Int) - 6 < (length : Int)) ↔ ((data ++ m).length - 6 < length) := by
      rw [List.length_append]; omega
    simp only [c, decide_eq_true_eq]
  | awaitCont rest => rfl
  | closed => rfl
  | crashed e => rfl


theorem cli_finish_bridge (op : Op) (resp : Bytes) : cliFinish op resp = cliFinishGen op resp := by
  unfold cliFinish cliFinishGen Gen.Fn.snep_cli_get_status Gen.Fn.snep_cli_put_status Gen.Fn.snep_cli_get_data
  match resp with
  | [] => cases op <;> simp [idxN, getB_nil]
  | [a] => cases op <;> simp [idxN, getB_one, getB_nil]
  | a :: st :: rest =>
    simp only [idxN, List.getElem?_cons_succ, List.getElem?_cons_zero, getB_one, getB_zero, Py.bind_ok]
    have e : (((st : Nat) : Int) ≠ 129) ↔ st ≠ 129 := by omega
    by_cases h : st = 129
    · subst h
      have e6 : PyFn.sliceFrom (a :: 129 :: rest) 6 = (a :: 129 :: rest).drop 6 := sliceFrom_ofNat _ 6
      cases op <;> simp [e6]
    · have h' : ¬ (((st : Nat) : Int) = 129) := by omega
      cases op <;> simp [h, h']

theorem cli_await_bridge (op : Op) (acc : Nat) (m : Bytes) : cliOnRecv (.awaitResp op acc) m = cliAwaitGen op acc m := by
  rw [cli_await_hdr_mid]
  unfold cliAwaitHdrMid cliAwaitGen Gen.Fn.snep_cli_more
  cases Gen.Fn.snep_recv_header m (acc : Int) with
  | error e => rfl
  | ok o =>
    cases o with
    | none => rfl
    | some length => simp only [decide_eq_true_eq, cli_finish_bridge]; rfl

/-- the whole client transition function of the C06 model -/
theorem cli_on_recv_bridge (st : CState) (m : Bytes)
    (hst : ∀ op buf length, st = .reasm op buf length → 6 ≤ buf.length) :
    cliOnRecv st m = cliOnRecvGen st m := by
  cases st with
  | idle => rfl
  | awaitCont op acc rest => rfl
  | awaitResp op acc => rw [cli_await_bridge]; rfl
  | reasm op buf length =>
    unfold cliOnRecvGen Gen.Fn.snep_cli_more_loop
    have h6 := hst op buf length rfl
    have c : (((buf ++ m).length : Int) - 6 < (length : Int)) ↔ ((buf ++ m).length - 6 < length) := by
      rw [List.length_append]; omega
    simp only [cliOnRecv, cli_finish_bridge, len_eq, c, decide_eq_true_eq]
  | done r => rfl

theorem cli_send_bridge (miu acc : Nat) (hm : 0 < miu) (op : Op) (req : Bytes) :
    cliSend miu acc op req = cliSendGen miu acc op req := by
  unfold cliSend cliSendGen Gen.Fn.snep_cli_fits Gen.Fn.snep_cli_first
  rw [fragsGen_eq _ (fun d a m => rfl) req miu hm, slice_zero_nat]
  simp only [len_eq, decide_eq_true_eq, Int.ofNat_le]

theorem cli_start_bridge (miu acc : Nat) (hm : 0 < miu) (op : Op) (octets : Bytes) :
    cliStart miu acc op octets = cliStartGen miu acc op octets := by
  unfold cliStart cliStartGen
  cases op with
  | put =>
    rw [← put_request_bridge acc octets]
    cases Gen.Fn.snep_put_request octets with
    | error e => rfl
    | ok req => simp only [cli_send_bridge miu acc hm]
  | get =>
    rw [← get_request_bridge acc octets]
    cases Gen.Fn.snep_get_request octets (acc : Int) with
    | error e => rfl
    | ok req => simp only [cli_send_bridge miu acc hm]


/-! ## `send_request` as a whole (oracle socket) -/

/-- a `for` loop whose body returns False at the first element that fails `p`, else goes on -/
theorem forC_all {α} (p : α → Bool) :
    ∀ (l : List α), PyFn.forC (ρ := Bool) l () (fun (_ : Unit) (o : α) =>
        Except.ok (if (¬ (p o = true)) then (PyFn.Ctl.ret false) else (PyFn.Ctl.next ())))
      = .ok (if l.all p then .inl () else .inr false) := by
  intro l
  induction l with
  | nil => rfl
  | cons a t ih =>
    simp only [forC, List.all_cons]
    by_cases hp : p a = true
    · simp only [hp, not_true_eq_false, if_false, Bool.true_and]
      exact ih
    · have hp' : p a = false := by simpa using hp
      simp [hp']

/-- `range(miu, n, miu)` for `miu >= 1`, `n > miu`: the offsets `(i + 1) * miu` of the fragments behind the first -/
theorem rangeStep_frags (miu n : Nat) (hm : 0 < miu) (hn : miu < n) :
    PyFn.rangeStep (miu : Int) (n : Int) (miu : Int)
      = .ok ((List.range (nfrag miu (n - miu))).map (fun i => (((i + 1) * miu : Nat) : Int))) := by
  unfold PyFn.rangeStep nfrag
  have h0 : ¬ ((miu : Int) = 0) := by omega
  have h1 : (miu : Int) > 0 := by omega
  rw [if_neg h0, if_pos h1]
  have e : (((n : Int) - (miu : Int) + (miu : Int) - 1) / (miu : Int)).toNat = (n - miu + miu - 1) / miu := by
    have : (n : Int) - (miu : Int) + (miu : Int) - 1 = ((n - miu + miu - 1 : Nat) : Int) := by omega
    rw [this]
    exact Int.toNat_natCast _ ▸ congrArg Int.toNat (Int.natCast_ediv _ _).symm
  rw [e]
  congr 1
  apply List.map_congr_left
  intro i _
  rw [Nat.succ_mul]
  omega


/-- `send_request` over ANY socket oracle (`send`, `recv`) and send MIU `miu >= 1`: a request that fits is sent whole;
else the first `miu` octets, then - only if that was accepted and the peer answered Continue - the fragments
`Chan.chunks miu (request.drop miu)` in order until one is refused.  These are exactly the messages `Snep.cliSend` /
`cliOnRecv (.awaitCont ..)` put on the wire (`Chan.fragments`) -/
theorem send_request_bridge (req : Bytes) (miu : Nat) (hm : 0 < miu) (recv : Bytes) (send : Bytes → Bool) :
    Gen.Fn.snep_send_request req (miu : Int) recv send
      = .ok (if req.length ≤ miu then send req
             else send (req.take miu) && decide (recv = contRsp) && (chunks miu (req.drop miu)).all send) := by
  unfold Gen.Fn.snep_send_request
  simp only [len_eq, Int.ofNat_le]
  by_cases hfit : req.length ≤ miu
  · rw [if_pos hfit, if_pos hfit]
  · rw [if_neg hfit, if_neg hfit, slice_zero_nat]
    by_cases hs : send (req.take miu) = true
    · have : ¬ ¬ (send (req.take miu) = true) := by simp [hs]
      rw [if_neg this]
      by_cases hr : recv = contRsp
      · have hr' : ¬ (recv ≠ [16, 128, 0, 0, 0, 0]) := by simp [hr, contRsp]
        rw [if_neg hr', rangeStep_frags miu req.length hm (by omega)]
        simp only [Py.bind_ok]
        have hf := forC_all (fun (o : Int) => send (slice req o (o + (miu : Int))))
          ((List.range (nfrag miu (req.length - miu))).map (fun i => (((i + 1) * miu : Nat) : Int)))
        rw [hf]
        simp only [Py.bind_ok]
        have hall : ((List.range (nfrag miu (req.length - miu))).map (fun i => (((i + 1) * miu : Nat) : Int))).all
              (fun (o : Int) => send (slice req o (o + (miu : Int))))
            = (chunks miu (req.drop miu)).all send := by
          rw [← fragsGen_eq (fun d a m => slice d a (a + m)) (fun d a m => rfl) req miu hm]
          unfold fragsGen
          rw [List.all_map, List.all_map]
          rfl
        rw [hall]
        cases hc : (chunks miu (req.drop miu)).all send <;> simp [hs, hr]
      · have hr' : recv ≠ [16, 128, 0, 0, 0, 0] := by simpa [contRsp] using hr
        rw [if_pos hr']
        simp [hs, hr]
    · have : ¬ (send (req.take miu) = true) := hs
      rw [if_pos this]
      have hs' : send (req.take miu) = false := by simpa using hs
      simp [hs']

/-- every fragment is offered: against a socket that answers Continue and refuses exactly the frame `f`,
`send_request` of a request longer than the MIU fails iff `f` is one of `Chan.fragments miu request` -/
theorem send_request_offers_every_fragment (req f : Bytes) (miu : Nat) (hm : 0 < miu) (hl : miu < req.length) :
    Gen.Fn.snep_send_request req (miu : Int) contRsp (fun g => decide (g ≠ f))
      = .ok (decide (f ∉ fragments miu req)) := by
  rw [send_request_bridge req miu hm, if_neg (by omega)]
  congr 1
  rw [Bool.eq_iff_iff]
  simp only [fragments, Bool.and_eq_true, decide_eq_true_eq, List.all_eq_true, List.mem_cons, not_or, decide_true,
    Bool.and_true, ne_eq]
  constructor
  · rintro ⟨h1, h2⟩
    exact ⟨fun e => h1 e.symm, fun hf => h2 f hf rfl⟩
  · rintro ⟨h1, h2⟩
    exact ⟨fun e => h1 e.symm, fun g hg e => h2 (e ▸ hg)⟩

example : Gen.Fn.snep_send_request [1, 2, 3, 4, 5] 2 [16, 128, 0, 0, 0, 0] (fun g => decide (g ≠ [5])) = .ok false := by
  decide +kernel
example : Gen.Fn.snep_send_request [1, 2, 3, 4, 5] 2 [16, 128, 0, 0, 0, 0] (fun _ => true) = .ok true := by
  decide +kernel
/-- a send MIU of 0 would be `ValueError` (`range()` step 0); LLCP guarantees MIU >= 128 -/
example : Gen.Fn.snep_send_request [1, 2, 3, 4, 5] 0 [16, 128, 0, 0, 0, 0] (fun _ => true) = .error .value := by
  decide +kernel

/-! ## the socket calls / tests that enclose the sub-expression cuts (`whole=True` cuts over oracle sockets) -/

/-- the fragments and protocol constants above are `expr=` cuts of SUB-expressions (arguments of `send`, operands of the
Continue tests).  The complete statements / tests around them are regenerated as well: for EVERY oracle socket they are
exactly the socket call on that sub-expression (`Snep.unsupRsp`, `rejectRsp`, `contRsp`, `contReq`, the fragments) -
an operand added to the sent value or to the test changes these definitions -/
theorem whole_calls_bridge (data : Bytes) (offset miu : Int) (recv : Bytes) (send : Bytes → Bool) :
    Gen.Fn.snep_srv_unsup_send recv send = send unsupRsp
    ∧ Gen.Fn.snep_srv_reject_send recv send = send rejectRsp
    ∧ Gen.Fn.snep_srv_cont_send recv send = send contRsp
    ∧ Gen.Fn.snep_srv_first_send data miu recv send = send (Gen.Fn.snep_srv_first data miu)
    ∧ Gen.Fn.snep_srv_frag_send data offset miu recv send = send (Gen.Fn.snep_srv_frag data offset miu)
    ∧ Gen.Fn.snep_srv_cont_test recv send = decide (recv = contReq)
    ∧ Gen.Fn.snep_cli_cont_send recv send = send contReq
    ∧ Gen.Fn.snep_cli_first_test data miu recv send = !(send (Gen.Fn.snep_cli_first data miu))
    ∧ Gen.Fn.snep_cli_cont_test recv send = decide (recv ≠ contRsp) := by
  refine ⟨rfl, rfl, rfl, rfl, rfl, rfl, rfl, ?_, rfl⟩
  unfold Gen.Fn.snep_cli_first_test Gen.Fn.snep_cli_first
  cases send (slice data 0 miu) <;> rfl

example : Gen.Fn.snep_srv_first_send [1, 2, 3] 2 [] (fun g => decide (g = [1, 2])) = true := by decide +kernel
example : Gen.Fn.snep_cli_cont_test [16, 128, 0, 0, 0, 0] (fun _ => true) = false := by decide +kernel

/-! ## the same slices against the `Py`-level transcriptions of the C07 model (`Model/PeerSnep.lean`) -/

theorem serve_header_peer (m : Bytes) :
    Gen.Fn.snep_serve_header m = PeerSnep.unpackFromBxL m >>= fun vl => .ok ((vl.1 : Int), (vl.2 : Int)) := by
  rw [serve_header_bridge]
  unfold PeerSnep.unpackFromBxL
  by_cases h : m.length < 6
  · simp [h]
  · rw [if_neg h, if_neg h]
    have h6 : 6 ≤ m.length := by omega
    match m, h6 with
    | a :: _ :: _ :: _ :: _ :: _ :: _, _ => simp [idxN, sliceN]

theorem recv_unpack_peer (m : Bytes) :
    Gen.Fn.snep_recv_unpack m
      = if m.length < 6 then .error .struct
        else PeerSnep.unpackBBL (m.take 6) >>= fun h => .ok ((h.1 : Int), (h.2.1 : Int), (h.2.2 : Int)) := by
  rw [recv_unpack_bridge]
  unfold PeerSnep.unpackBBL
  by_cases h : m.length < 6
  · simp [h]
  · rw [if_neg h, if_neg h]
    have h6 : 6 ≤ m.length := by omega
    match m, h6 with
    | a :: b :: _ :: _ :: _ :: _ :: _, _ => simp [idxN, sliceN]

theorem get_fields_peer (d : Bytes) (h : d.length ≥ 10) :
    Gen.Fn.snep_get_fields d = PeerSnep.unpackL (sliceN d 6 10) >>= fun acc => .ok ((acc : Int), d.drop 10) := by
  rw [get_fields_bridge, if_neg (by omega)]
  unfold PeerSnep.unpackL sliceN
  have : ((d.drop 6).take (10 - 6)).length = 4 := by rw [List.length_take, List.length_drop]; omega
  rw [if_pos this]; rfl

theorem response_pack_peer (code : Nat) (data : Bytes) :
    Gen.Fn.snep_response_pack (code : Int) data = PeerSnep.packResponse code data := by
  rw [response_pack_bridge]
  unfold PeerSnep.packResponse PeerSnep.packBBL
  have e1 : (16 ≥ 256 ∨ code ≥ 256 ∨ data.length ≥ 2 ^ 32) ↔ (code > 255 ∨ data.length ≥ 2 ^ 32) := by omega
  simp only [e1]
  split <;> simp [hdr]

/-! ## `HandoverClient.send_octets` -/

/-- `send_octets` over ANY socket oracle `send` and send MIU `miu >= 1`: it returns whether every fragment of
`Chan.chunks miu octets` (the fragments `Handover.startReq` puts on the wire) was accepted; `fuel > len(octets)`
iterations suffice -/
theorem ho_send_octets_bridge (miu : Nat) (hm : 0 < miu) (send : Bytes → Bool) (octets : Bytes) (fuel : Nat)
    (hf : octets.length < fuel) :
    Gen.Fn.ho_send_octets fuel octets (miu : Int) send = .ok ((chunks miu octets).all send) := by
  unfold Gen.Fn.ho_send_octets
  simp only [slice_zero_nat, sliceFrom_ofNat]
  obtain ⟨d', h1, h2⟩ := ho_loop miu hm send fuel octets hf
  rw [h1]
  simp only [Py.bind_ok]
  rw [h2]

/-- every fragment is really offered to the socket: against a socket that refuses exactly the frame `f`,
`send_octets` fails iff `f` is one of `chunks miu octets` -/
theorem ho_send_offers_every_chunk (miu : Nat) (hm : 0 < miu) (octets f : Bytes) :
    Gen.Fn.ho_send_octets (octets.length + 1) octets (miu : Int) (fun g => decide (g ≠ f))
      = .ok (decide (f ∉ chunks miu octets)) := by
  rw [ho_send_octets_bridge miu hm _ octets _ (Nat.lt_succ_self _)]
  congr 1
  rw [Bool.eq_iff_iff]
  simp only [List.all_eq_true, decide_eq_true_eq]
  constructor
  · intro h hf; exact h f hf rfl
  · intro h g hg e; exact h (e ▸ hg)

/-- with a socket that accepts everything the client puts exactly the model's fragments on the wire and
reports success (`Handover.startReq`: `c2s := n.c2s ++ chunks cmiu msg`) -/
theorem ho_send_all_accepted (miu : Nat) (hm : 0 < miu) (octets : Bytes) :
    Gen.Fn.ho_send_octets (octets.length + 1) octets (miu : Int) (fun _ => true) = .ok true := by
  rw [ho_send_octets_bridge miu hm _ octets _ (Nat.lt_succ_self _)]
  simp

example : Gen.Fn.ho_send_octets 6 [1, 2, 3, 4, 5] 2 (fun g => decide (g ≠ [5])) = .ok false := by decide +kernel
example : chunks 2 [1, 2, 3, 4, 5] = [[1, 2], [3, 4], [5]] := by decide +kernel

/-- `HandoverServer.serve`: the response fragments `response[offset:offset + send_miu]` for `offset` in
`range(0, len(response), send_miu)` (offsets written by hand) are `Chan.chunks send_miu response`, what
`Handover.srvOnRecv` puts on the wire -/
theorem ho_srv_frags_bridge (miu : Nat) (hm : 0 < miu) (response : Bytes) :
    (List.range (nfrag miu response.length)).map (fun i => Gen.Fn.ho_srv_frag response ((i * miu : Nat) : Int) (miu : Int))
      = chunks miu response := by
  rw [chunks_eq_offsets miu hm _ _ (Nat.le_refl _)]
  apply List.map_congr_left
  intro i _
  unfold Gen.Fn.ho_srv_frag
  rw [← Int.natCast_add, slice_nat]
  congr 2
  omega

example : (List.range (nfrag 2 5)).map (fun i => Gen.Fn.ho_srv_frag [1, 2, 3, 4, 5] ((i * 2 : Nat) : Int) 2)
    = [[1, 2], [3, 4], [5]] := by decide +kernel

/-! ## statements of C06 / C07 for the regenerated slices -/

/-- C07 (`PeerSnep.unpackFromBxL_ok`, used by `snep_serve_total`): the header unpack of `_serve` cannot raise on
a first fragment of six or more octets - whatever they are -/
theorem gen_serve_header_total (m : Bytes) (h : ¬ m.length < 6) : ∃ vl, Gen.Fn.snep_serve_header m = .ok vl := by
  rw [serve_header_bridge, if_neg h]; exact ⟨_, rfl⟩

/-- C07: the response header of `process_snep_request` is always six octets starting with the version 1.0 -/
theorem gen_response_pack_shape (code : Nat) (data r : Bytes) (h : Gen.Fn.snep_response_pack (code : Int) data = .ok r) :
    r.length = 6 + data.length ∧ r.take 1 = [0x10] := by
  rw [response_pack_bridge] at h
  split at h
  · cases h
  · injection h with h; subst h
    simp [hdr, toBE]; omega

/-- C06 (`snep_oversize_rejected`): a first fragment that announces more than the server accepts is answered with
the Reject response and nothing reaches the application, whatever else the fragment holds -/
theorem gen_oversize_rejected (cfg : SCfg) (hk : HandlersOk cfg.h) (hm : 0 < cfg.smiu) (m : Bytes) (h6 : 6 ≤ m.length)
    (hv : m.headD 0 / 16 ≤ 1) (hbig : beNat ((m.drop 2).take 4) > cfg.maxAcc) :
    srvOnRecvGen cfg .idle m = (.idle, [Gen.Fn.snep_srv_reject_rsp], []) := by
  rw [← srv_on_recv_bridge cfg hk hm .idle m (by intro _ _ h; cases h)]
  show srvOnRecv cfg .idle m = (.idle, [rejectRsp], [])
  match m, h6 with
  | v :: x :: a :: b :: c :: d :: rest, _ =>
    simp only [List.headD_cons, List.drop_succ_cons, List.drop_zero, List.take_succ_cons, List.take_zero] at hv hbig
    simp only [srvOnRecv]
    rw [if_neg (by omega), if_pos hbig]

/-- C06 (`snep_get_excess_data`): a GET response longer than the client's acceptable length is replaced by the
ExcessData code with no data - never sent in part -/
theorem gen_excess_never_partial (code acc : Nat) (data : Bytes) :
    let r := Gen.Fn.snep_get_excess (code : Int) data (acc : Int)
    r.2 = data ∨ (r.2 = [] ∧ r.1 = 0xC1 ∧ data.length > acc) := by
  simp only [get_excess_bridge]
  split
  · exact Or.inr ⟨rfl, rfl, by assumption⟩
  · exact Or.inl rfl

end NfcVerif.FnBridge.Snep
