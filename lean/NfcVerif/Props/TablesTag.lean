import NfcVerif.Gen.Tables
/-!
Bridge theorems (constants of the source = constants of the models). `Gen/Tables.lean` is
regenerated from `/repo/src/nfc` by `harness/translate_tables.py` on every run of a check that
depends on it; each theorem is closed by kernel evaluation, so an edit of a constant in the
source breaks it.  One small module per model so that the checks stay independent.
-/
namespace NfcVerif.Tables
open NfcVerif

/-- reason codes of TagCommandError as used by the tag models (C12, C16, C08) -/
theorem tag_errno_bridge :
    Gen.Tables.tagErrno = [("TIMEOUT_ERROR", 0), ("RECEIVE_ERROR", -1), ("PROTOCOL_ERROR", -2)] := by decide

end NfcVerif.Tables
