import NfcVerif.Props.ExcFlow
/-!
# Exception flow, instance theorems: C13 / C18: target discovery of the drivers, `open` / `close`, `connect(llcp=...)`

Re-checked on the regenerated `Gen/ExcFlow.lean` (see `Props/ExcFlow.lean` for what `Only` / `Can` mean).
Continues `Props/ExcFlowDrivers.lean` (a module of its own so that the two evaluations run in parallel).
-/
namespace NfcVerif.ExcFlowProps
open NfcVerif.ExcFlow NfcVerif.Gen.ClassTree NfcVerif.Gen.ExcFlow

/-! ## C13 / C18: target discovery, `open` / `close`, and `connect(llcp=...)` without the inner layer boundaries

Translated in addition to the exchange paths of `Props/ExcFlowDrivers.lean`: `sense_tta/ttb/ttf/dep` and `listen_tta/ttb/ttf/dep`
(with `_listen_*`, `_init_as_target`, `_send_atr_response`, `_send_psl_response` and the nested helpers of the RC-S380
`listen_tta` / `listen_dep`) of every driver class, `close`, `__init__`, `get_max_*_data_size`,
`turn_on/off_led_and_buzzer`, the driver base class `nfc.clf.device.Device`, the Arygon variants, `arygon.init`,
`nfc.clf.device.connect`, `ContactlessFrontend.__init__/open/close`.  `ContactlessFrontend.sense` / `listen` now
*call* the drivers (`self.device.sense_tta(...)` is a branch over what each driver class resolves the method to) -
the former assumption "a driver's `sense_*` / `listen_*` raises `CommunicationError`, `IOError` or
`UnsupportedTargetError`" is gone, and the statements of `Props/ExcFlowClf.lean` hold without it. -/

/-- `sense_*` of the PN53x family (base class, pn531, pn532, pn533, rcs956, acr122; Arygon inherits pn531 / pn532) -/
def pn53xSenseOnlyFns : List Site := [
  Site.fn_pn53x_Device_sense_tta, Site.fn_pn53x_Device_sense_ttb, Site.fn_pn53x_Device_sense_ttf,
  Site.fn_pn53x_Device_sense_dep, Site.fn_pn531_Device_sense_tta, Site.fn_pn531_Device_sense_ttb,
  Site.fn_pn531_Device_sense_ttf, Site.fn_pn531_Device_sense_dep, Site.fn_pn532_Device_sense_tta,
  Site.fn_pn532_Device_sense_ttb, Site.fn_pn532_Device_sense_ttf, Site.fn_pn532_Device_sense_dep,
  Site.fn_pn533_Device_sense_tta, Site.fn_pn533_Device_sense_ttb, Site.fn_pn533_Device_sense_ttf,
  Site.fn_pn533_Device_sense_dep, Site.fn_rcs956_Device_sense_tta, Site.fn_rcs956_Device_sense_ttb,
  Site.fn_rcs956_Device_sense_ttf, Site.fn_rcs956_Device_sense_dep, Site.fn_acr122_Device_sense_tta,
  Site.fn_acr122_Device_sense_ttb, Site.fn_acr122_Device_sense_ttf, Site.fn_acr122_Device_sense_dep]
/-- `listen_*` of the PN53x family and their helpers -/
def pn53xListenOnlyFns : List Site := [
  Site.fn_pn53x_Device_listen_tta, Site.fn_pn53x_Device_listen_ttf, Site.fn_pn53x_Device_listen_dep,
  Site.fn_pn53x_Device__send_atr_response, Site.fn_pn53x_Device__send_psl_response, Site.fn_pn531_Device_listen_tta,
  Site.fn_pn531_Device_listen_ttb, Site.fn_pn531_Device_listen_ttf, Site.fn_pn531_Device_listen_dep,
  Site.fn_pn531_Device__init_as_target, Site.fn_pn532_Device_listen_tta, Site.fn_pn532_Device_listen_ttb,
  Site.fn_pn532_Device_listen_ttf, Site.fn_pn532_Device_listen_dep, Site.fn_pn532_Device__init_as_target,
  Site.fn_pn533_Device_listen_tta, Site.fn_pn533_Device_listen_ttb, Site.fn_pn533_Device_listen_ttf,
  Site.fn_pn533_Device_listen_dep, Site.fn_pn533_Device__init_as_target, Site.fn_rcs956_Device_listen_tta,
  Site.fn_rcs956_Device_listen_ttb, Site.fn_rcs956_Device_listen_ttf, Site.fn_rcs956_Device_listen_dep,
  Site.fn_rcs956_Device__init_as_target, Site.fn_rcs956_Device__send_atr_response, Site.fn_acr122_Device_listen_tta,
  Site.fn_acr122_Device_listen_ttb, Site.fn_acr122_Device_listen_ttf, Site.fn_acr122_Device_listen_dep]
/-- `sense_*` of the RC-S380 -/
def rcs380SenseOnlyFns : List Site := [
  Site.fn_rcs380_Device_sense_tta, Site.fn_rcs380_Device_sense_ttb, Site.fn_rcs380_Device_sense_ttf,
  Site.fn_rcs380_Device_sense_dep]
/-- `listen_*` of the RC-S380 with the nested helpers of `listen_tta` / `listen_dep` -/
def rcs380ListenOnlyFns : List Site := [
  Site.fn_rcs380_Device_listen_tta, Site.fn_rcs380_Device_listen_ttb, Site.fn_rcs380_Device_listen_ttf,
  Site.fn_rcs380_Device_listen_dep, Site.fn_rcs380_Device_listen_tta_tt2, Site.fn_rcs380_Device_listen_tta_tt4]
/-- `sense_*` of the UDP driver -/
def udpSenseOnlyFns : List Site := [
  Site.fn_udp_Device_sense_tta, Site.fn_udp_Device_sense_ttb, Site.fn_udp_Device_sense_ttf,
  Site.fn_udp_Device_sense_dep]
/-- `listen_*` of the UDP driver -/
def udpListenOnlyFns : List Site := [
  Site.fn_udp_Device_listen_tta, Site.fn_udp_Device_listen_ttb, Site.fn_udp_Device_listen_ttf,
  Site.fn_udp_Device_listen_dep, Site.fn_udp_Device__listen_tta, Site.fn_udp_Device__listen_ttf]

def pn53xSenseOnlyAllowed : List Cls :=
  [Cls.clf_UnsupportedTargetError, Cls.ValueError, Cls.OSError, Cls.AssertionError, Cls.clf_pn53x_Chipset_Error]
def pn53xListenOnlyAllowed : List Cls :=
  [Cls.clf_UnsupportedTargetError, Cls.ValueError, Cls.OSError, Cls.AssertionError, Cls.clf_pn53x_Chipset_Error]
def rcs380SenseOnlyAllowed : List Cls := [Cls.clf_UnsupportedTargetError, Cls.OSError, Cls.clf_rcs380_StatusError]
def rcs380ListenOnlyAllowed : List Cls :=
  [Cls.clf_UnsupportedTargetError, Cls.ValueError, Cls.OSError, Cls.AssertionError, Cls.clf_rcs380_StatusError]
def udpSenseOnlyAllowed : List Cls := [Cls.clf_UnsupportedTargetError, Cls.OSError, Cls.clf_CommunicationError]
def udpListenOnlyAllowed : List Cls := [Cls.OSError, Cls.AssertionError, Cls.clf_CommunicationError]

/-- the frontend, `open` / `close`, initialisation -/
def frontendOnly : List (Site × List Cls) := [
  (Site.fn_clf_sense, [Cls.clf_UnsupportedTargetError, Cls.ValueError, Cls.OSError, Cls.AssertionError,
    Cls.clf_pn53x_Chipset_Error, Cls.clf_rcs380_StatusError, Cls.clf_TransmissionError]),
  (Site.fn_clf_listen, [Cls.clf_UnsupportedTargetError, Cls.ValueError, Cls.OSError, Cls.AssertionError,
    Cls.clf_pn53x_Chipset_Error, Cls.clf_rcs380_StatusError, Cls.clf_CommunicationError]),
  (Site.fn_clf_close, [Cls.AssertionError, Cls.clf_pn53x_Chipset_Error, Cls.clf_rcs380_StatusError, Cls.clf_TransmissionError]),
  (Site.fn_clf_open, [Cls.OSError, Cls.TypeError, Cls.ValueError, Cls.ImportError, Cls.AssertionError,
    Cls.clf_pn53x_Chipset_Error, Cls.clf_rcs380_StatusError, Cls.clf_TransmissionError]),
  (Site.fn_clf_init, [Cls.OSError, Cls.TypeError, Cls.ValueError, Cls.ImportError, Cls.AssertionError,
    Cls.clf_pn53x_Chipset_Error, Cls.clf_rcs380_StatusError, Cls.clf_TransmissionError]),
  (Site.fn_device_connect, [Cls.OSError, Cls.ImportError, Cls.AssertionError]),
  (Site.fn_arygon_init, [Cls.OSError, Cls.AssertionError, Cls.clf_pn53x_Chipset_Error]),
  (Site.fn_arygon_ChipsetA_write_frame, [Cls.OSError]), (Site.fn_arygon_ChipsetB_write_frame, [Cls.OSError]),
  (Site.fn_arygon_DeviceA_close, [Cls.OSError]), (Site.fn_arygon_DeviceB_close, [Cls.OSError]),
  (Site.fn_pn53x_Device___init__, [Cls.OSError, Cls.AssertionError]),
  (Site.fn_pn531_Device___init__, [Cls.OSError, Cls.AssertionError, Cls.clf_pn53x_Chipset_Error]),
  (Site.fn_pn532_Device___init__, [Cls.OSError, Cls.AssertionError, Cls.clf_pn53x_Chipset_Error]),
  (Site.fn_pn533_Device___init__, [Cls.OSError, Cls.AssertionError, Cls.clf_pn53x_Chipset_Error]),
  (Site.fn_rcs956_Device___init__, [Cls.OSError, Cls.AssertionError, Cls.clf_pn53x_Chipset_Error]),
  (Site.fn_acr122_Device___init__, [Cls.OSError, Cls.AssertionError]),
  (Site.fn_pn53x_Device_close, [Cls.OSError]),
  (Site.fn_pn532_Device_close, [Cls.OSError, Cls.AssertionError, Cls.clf_pn53x_Chipset_Error]),
  (Site.fn_rcs380_Device_close, [Cls.OSError, Cls.clf_rcs380_StatusError]),
  (Site.fn_udp_Device_close, [Cls.OSError, Cls.clf_TransmissionError]),
  (Site.fn_pn53x_Device_mute, [Cls.OSError, Cls.AssertionError, Cls.clf_pn53x_Chipset_Error]),
  (Site.fn_rcs380_Device_mute, [Cls.OSError, Cls.clf_rcs380_StatusError]),
  (Site.fn_udp_Device_mute, [Cls.OSError, Cls.clf_TransmissionError]),
  (Site.fn_clf_connect_stack, [Cls.OSError, Cls.TypeError, Cls.ValueError, Cls.SystemExit, Cls.RuntimeError, Cls.AssertionError,
    Cls.clf_pn53x_Chipset_Error, Cls.clf_rcs380_StatusError, Cls.clf_CommunicationError])]

abbrev discoveryOnly : List (Site × List Cls) :=
  pn53xSenseOnlyFns.map (fun f => (f, pn53xSenseOnlyAllowed)) ++ (pn53xListenOnlyFns.map (fun f => (f, pn53xListenOnlyAllowed)) ++
  (rcs380SenseOnlyFns.map (fun f => (f, rcs380SenseOnlyAllowed)) ++ (rcs380ListenOnlyFns.map (fun f => (f, rcs380ListenOnlyAllowed)) ++
  (udpSenseOnlyFns.map (fun f => (f, udpSenseOnlyAllowed)) ++ (udpListenOnlyFns.map (fun f => (f, udpListenOnlyAllowed)) ++
  frontendOnly)))))

/-- classes that never leave -/
def discoveryNever : List (Site × List Cls) := [
  (Site.fn_rcs380_Device_listen_dep, [Cls.clf_rcs380_CommunicationError]),
  (Site.fn_rcs380_Device_listen_tta, [Cls.clf_rcs380_CommunicationError]),
  (Site.fn_rcs380_Device_listen_ttf, [Cls.clf_rcs380_CommunicationError]),
  (Site.fn_rcs380_Device_sense_tta, [Cls.clf_rcs380_CommunicationError]),
  (Site.fn_clf_sense, [Cls.clf_TimeoutError, Cls.clf_BrokenLinkError, Cls.clf_ProtocolError, Cls.clf_rcs380_CommunicationError]),
  (Site.fn_clf_close, [Cls.OSError]),
  (Site.fn_clf_connect_stack, [Cls.clf_UnsupportedTargetError, Cls.KeyboardInterrupt, Cls.llcp_pdu_Error, Cls.tag_TagCommandError,
    Cls.clf_rcs380_CommunicationError])]

def discoveryCan : List (Site × Cls) := [
  (Site.fn_pn53x_Device_sense_tta, Cls.clf_pn53x_Chipset_Error),
  (Site.fn_pn532_Device_sense_ttf, Cls.clf_pn53x_Chipset_Error),
  (Site.fn_pn53x_Device_listen_dep, Cls.clf_pn53x_Chipset_Error),
  (Site.fn_pn53x_Device_listen_tta, Cls.clf_pn53x_Chipset_Error),
  (Site.fn_rcs380_Device_sense_tta, Cls.clf_rcs380_StatusError),
  (Site.fn_rcs380_Device_listen_dep, Cls.clf_rcs380_StatusError),
  (Site.fn_udp_Device_listen_dep, Cls.clf_TimeoutError),
  (Site.fn_udp_Device_listen_dep, Cls.clf_BrokenLinkError),
  (Site.fn_udp_Device_sense_tta, Cls.clf_BrokenLinkError),
  (Site.fn_pn53x_Device_mute, Cls.clf_pn53x_Chipset_Error),
  (Site.fn_rcs380_Device_mute, Cls.clf_rcs380_StatusError),
  (Site.fn_udp_Device_mute, Cls.clf_TransmissionError),
  (Site.fn_clf_sense, Cls.clf_pn53x_Chipset_Error),
  (Site.fn_clf_sense, Cls.clf_rcs380_StatusError),
  (Site.fn_clf_sense, Cls.clf_TransmissionError),
  (Site.fn_clf_sense, Cls.AssertionError),
  (Site.fn_clf_listen, Cls.clf_pn53x_Chipset_Error),
  (Site.fn_clf_listen, Cls.clf_rcs380_StatusError),
  (Site.fn_clf_listen, Cls.clf_TimeoutError),
  (Site.fn_clf_listen, Cls.clf_BrokenLinkError),
  (Site.fn_clf_close, Cls.clf_pn53x_Chipset_Error),
  (Site.fn_clf_close, Cls.clf_rcs380_StatusError),
  (Site.fn_clf_close, Cls.clf_TransmissionError),
  (Site.fn_dep_Target_activate_stack, Cls.clf_TimeoutError),
  (Site.fn_llc_activate_stack, Cls.clf_TimeoutError),
  (Site.fn_clf_connect_stack, Cls.clf_TimeoutError),
  (Site.fn_clf_connect_stack, Cls.clf_BrokenLinkError),
  (Site.fn_clf_connect_stack, Cls.clf_TransmissionError),
  (Site.fn_clf_connect_stack, Cls.clf_pn53x_Chipset_Error),
  (Site.fn_clf_connect_stack, Cls.clf_rcs380_StatusError)]

/-- every statement of this section, checked with one evaluation of the summary table -/
theorem discoveryAll_ok : checkAll world table prog discoveryOnly discoveryNever discoveryCan = true := by decide +kernel
theorem discoveryOnly_ok : checkOnly world table prog discoveryOnly = true := (checkAll_split discoveryAll_ok).1
theorem discoveryNever_ok : checkNever world table prog discoveryNever = true := (checkAll_split discoveryAll_ok).2.1
theorem discoveryCan_ok : checkCan world table prog discoveryCan = true := (checkAll_split discoveryAll_ok).2.2

private theorem mem_mapped {fs : List Site} {al : List Cls} {f : Site} (h : f ∈ fs) : (f, al) ∈ fs.map (fun f => (f, al)) :=
  List.mem_map.mpr ⟨f, h, rfl⟩

/-- **PN53x family** (base class, pn531, pn532, pn533, rcs956, acr122; the Arygon variants inherit): `sense_*` raise
the documented `UnsupportedTargetError` / `ValueError` (refused target or bit rate: `ContactlessFrontend.sense`
handles both), `IOError`, and - outside the documented driver interface - the driver-internal `Chipset.Error`
(`driver_internal_classes_leave_discovery`) and the `AssertionError` of `Chipset.command` / `sense_dep` -/
theorem pn53x_sense_escapes : ∀ f ∈ pn53xSenseOnlyFns, Only f pn53xSenseOnlyAllowed :=
  fun f h => only_all discoveryOnly_ok (f, _) (List.mem_append_left _ (mem_mapped h))
/-- `listen_*` (with `_init_as_target`, `_send_atr_response`, `_send_psl_response`): the same classes -/
theorem pn53x_listen_escapes : ∀ f ∈ pn53xListenOnlyFns, Only f pn53xListenOnlyAllowed :=
  fun f h => only_all discoveryOnly_ok (f, _) (List.mem_append_right _ (List.mem_append_left _ (mem_mapped h)))
/-- **RC-S380**: `UnsupportedTargetError`, `ValueError` / `AssertionError` (argument checks of `listen_*`), `IOError`,
and the driver-internal `StatusError`; the driver-internal `CommunicationError` never leaves
(`rcs380_discovery_no_internal_commerror`) -/
theorem rcs380_sense_escapes : ∀ f ∈ rcs380SenseOnlyFns, Only f rcs380SenseOnlyAllowed :=
  fun f h => only_all discoveryOnly_ok (f, _)
    (List.mem_append_right _ (List.mem_append_right _ (List.mem_append_left _ (mem_mapped h))))
theorem rcs380_listen_escapes : ∀ f ∈ rcs380ListenOnlyFns, Only f rcs380ListenOnlyAllowed :=
  fun f h => only_all discoveryOnly_ok (f, _)
    (List.mem_append_right _ (List.mem_append_right _ (List.mem_append_right _ (List.mem_append_left _ (mem_mapped h)))))
theorem rcs380_discovery_no_internal_commerror : ∀ f ∈ [Site.fn_rcs380_Device_listen_dep, Site.fn_rcs380_Device_listen_tta,
    Site.fn_rcs380_Device_listen_ttf, Site.fn_rcs380_Device_sense_tta],
    NeverEscapes world table prog f [Cls.clf_rcs380_CommunicationError] := by
  intro f hf
  simp only [List.mem_cons, List.not_mem_nil, or_false] at hf
  rcases hf with h | h | h | h <;> subst h <;> exact neverEscapes_of_checkNever tree_ordered discoveryNever_ok (by decide)
/-- **UDP**: `UnsupportedTargetError`, `IOError` of the socket, `AssertionError` (argument checks of `listen_*`), and
`CommunicationError` subclasses: `sense_tta` lets the `TransmissionError` / `BrokenLinkError` of `_send_data` /
`_recv_data` pass, `listen_dep` / `listen_ttb` the `TimeoutError` / `BrokenLinkError` / `TransmissionError` of the
exchanges that follow the ATR_RES (they are outside the handler that covers the first receive) -/
theorem udp_sense_escapes : ∀ f ∈ udpSenseOnlyFns, Only f udpSenseOnlyAllowed :=
  fun f h => only_all discoveryOnly_ok (f, _) (List.mem_append_right _ (List.mem_append_right _ (List.mem_append_right _
    (List.mem_append_right _ (List.mem_append_left _ (mem_mapped h))))))
theorem udp_listen_escapes : ∀ f ∈ udpListenOnlyFns, Only f udpListenOnlyAllowed :=
  fun f h => only_all discoveryOnly_ok (f, _) (List.mem_append_right _ (List.mem_append_right _ (List.mem_append_right _
    (List.mem_append_right _ (List.mem_append_right _ (List.mem_append_left _ (mem_mapped h)))))))

/-- the frontend and the rest of the driver interface (the lists are in `frontendOnly`): `sense`, `listen`, `close`,
`open`, `__init__`, `device.connect`, the Arygon functions, `Device.__init__` / `close` / `mute` -/
theorem frontend_escapes : ∀ fa ∈ frontendOnly, Only fa.1 fa.2 :=
  fun fa h => only_all discoveryOnly_ok fa (List.mem_append_right _ (List.mem_append_right _ (List.mem_append_right _
    (List.mem_append_right _ (List.mem_append_right _ (List.mem_append_right _ h))))))

/-- **Not guaranteed by the current code** (C13 "driver-internal exception types never escape" holds for `exchange`,
`clf_exchange_escapes`, not for target discovery): the chipset layer's `Chipset.Error` leaves `sense_*` / `listen_*`
/ `mute` of the PN53x family (only `sense_dep`, `sense_ttb` and the RID probe of `sense_tta` have a handler), the
RC-S380 `StatusError` leaves `sense_*` / `listen_*` / `mute`, and with them `ContactlessFrontend.sense()` and
`listen()`, whose handlers name `CommunicationError`, `UnsupportedTargetError` and `ValueError` only.
`udp.Device.mute` lets the `TransmissionError` of its RFOFF datagram through. -/
theorem driver_internal_classes_leave_discovery :
    Can Site.fn_pn53x_Device_sense_tta Cls.clf_pn53x_Chipset_Error ∧ Can Site.fn_pn532_Device_sense_ttf Cls.clf_pn53x_Chipset_Error ∧
    Can Site.fn_pn53x_Device_listen_dep Cls.clf_pn53x_Chipset_Error ∧ Can Site.fn_pn53x_Device_listen_tta Cls.clf_pn53x_Chipset_Error ∧
    Can Site.fn_rcs380_Device_sense_tta Cls.clf_rcs380_StatusError ∧ Can Site.fn_rcs380_Device_listen_dep Cls.clf_rcs380_StatusError ∧
    Can Site.fn_pn53x_Device_mute Cls.clf_pn53x_Chipset_Error ∧ Can Site.fn_rcs380_Device_mute Cls.clf_rcs380_StatusError ∧
    Can Site.fn_udp_Device_mute Cls.clf_TransmissionError :=
  ⟨canEscape_of_checkCan tree_ordered discoveryCan_ok (by decide), canEscape_of_checkCan tree_ordered discoveryCan_ok (by decide),
   canEscape_of_checkCan tree_ordered discoveryCan_ok (by decide), canEscape_of_checkCan tree_ordered discoveryCan_ok (by decide),
   canEscape_of_checkCan tree_ordered discoveryCan_ok (by decide), canEscape_of_checkCan tree_ordered discoveryCan_ok (by decide),
   canEscape_of_checkCan tree_ordered discoveryCan_ok (by decide), canEscape_of_checkCan tree_ordered discoveryCan_ok (by decide),
   canEscape_of_checkCan tree_ordered discoveryCan_ok (by decide)⟩
/-- ... and reach the application through `sense()` / `listen()` / `close()` -/
theorem clf_sense_listen_internal_classes :
    Can Site.fn_clf_sense Cls.clf_pn53x_Chipset_Error ∧ Can Site.fn_clf_sense Cls.clf_rcs380_StatusError ∧
    Can Site.fn_clf_sense Cls.clf_TransmissionError ∧ Can Site.fn_clf_sense Cls.AssertionError ∧
    Can Site.fn_clf_listen Cls.clf_pn53x_Chipset_Error ∧ Can Site.fn_clf_listen Cls.clf_rcs380_StatusError ∧
    Can Site.fn_clf_close Cls.clf_pn53x_Chipset_Error ∧ Can Site.fn_clf_close Cls.clf_rcs380_StatusError ∧
    Can Site.fn_clf_close Cls.clf_TransmissionError :=
  ⟨canEscape_of_checkCan tree_ordered discoveryCan_ok (by decide), canEscape_of_checkCan tree_ordered discoveryCan_ok (by decide),
   canEscape_of_checkCan tree_ordered discoveryCan_ok (by decide), canEscape_of_checkCan tree_ordered discoveryCan_ok (by decide),
   canEscape_of_checkCan tree_ordered discoveryCan_ok (by decide), canEscape_of_checkCan tree_ordered discoveryCan_ok (by decide),
   canEscape_of_checkCan tree_ordered discoveryCan_ok (by decide), canEscape_of_checkCan tree_ordered discoveryCan_ok (by decide),
   canEscape_of_checkCan tree_ordered discoveryCan_ok (by decide)⟩
/-- what `sense()` does guarantee: the `CommunicationError` of a driver's `sense_*` is absorbed (a `TransmissionError`
can only come from `udp.Device.mute`); `close()` absorbs `IOError` -/
theorem clf_sense_absorbs_commerror : NeverEscapes world table prog Site.fn_clf_sense
      [Cls.clf_TimeoutError, Cls.clf_BrokenLinkError, Cls.clf_ProtocolError, Cls.clf_rcs380_CommunicationError] ∧
    NeverEscapes world table prog Site.fn_clf_close [Cls.OSError] :=
  ⟨neverEscapes_of_checkNever tree_ordered discoveryNever_ok (by decide),
   neverEscapes_of_checkNever tree_ordered discoveryNever_ok (by decide)⟩
theorem udp_discovery_raises_commerror : Can Site.fn_udp_Device_listen_dep Cls.clf_TimeoutError ∧
    Can Site.fn_udp_Device_listen_dep Cls.clf_BrokenLinkError ∧ Can Site.fn_udp_Device_sense_tta Cls.clf_BrokenLinkError ∧
    Can Site.fn_clf_listen Cls.clf_TimeoutError ∧ Can Site.fn_clf_listen Cls.clf_BrokenLinkError :=
  ⟨canEscape_of_checkCan tree_ordered discoveryCan_ok (by decide), canEscape_of_checkCan tree_ordered discoveryCan_ok (by decide),
   canEscape_of_checkCan tree_ordered discoveryCan_ok (by decide), canEscape_of_checkCan tree_ordered discoveryCan_ok (by decide),
   canEscape_of_checkCan tree_ordered discoveryCan_ok (by decide)⟩

/-! ### `connect(llcp=...)` from the frontend down to the drivers

`clf.connect.stack` is `ContactlessFrontend.connect` in which `_llcp_connect`, `LogicalLinkController.activate`,
`nfc.dep.Initiator/Target.activate` are the copies that *call* `sense()` / `listen()` (and through them the drivers)
instead of assuming `mac.activate: [IOError]` (the assumption of `clf_connect_escapes`). -/

/-- what can leave `connect()` on this path: the classes of `clf_connect_escapes` and `CommunicationError` subclasses;
still no `UnsupportedTargetError`, `KeyboardInterrupt`, `pdu.Error`, `TagCommandError` -/
theorem clf_connect_stack_escapes : Only Site.fn_clf_connect_stack
      [Cls.OSError, Cls.TypeError, Cls.ValueError, Cls.SystemExit, Cls.RuntimeError, Cls.AssertionError,
       Cls.clf_pn53x_Chipset_Error, Cls.clf_rcs380_StatusError, Cls.clf_CommunicationError] ∧
    NeverEscapes world table prog Site.fn_clf_connect_stack [Cls.clf_UnsupportedTargetError, Cls.KeyboardInterrupt,
      Cls.llcp_pdu_Error, Cls.tag_TagCommandError, Cls.clf_rcs380_CommunicationError] :=
  ⟨only_all discoveryOnly_ok (_, _) (List.mem_append_right _ (List.mem_append_right _ (List.mem_append_right _
    (List.mem_append_right _ (List.mem_append_right _ (List.mem_append_right _ (by decide))))))),
   neverEscapes_of_checkNever tree_ordered discoveryNever_ok (by decide)⟩
/-- **Defect of the current tree** (reproduced on the real code with the UDP driver: an initiator that sends ATR_REQ
and then nothing): `listen()` is called by `nfc.dep.Target.activate` outside every handler, `udp.Device.listen_dep`
lets the `TimeoutError` / `BrokenLinkError` / `TransmissionError` of the exchanges after the ATR_RES pass, and
`connect()` catches `IOError`, `UnsupportedTargetError`, `KeyboardInterrupt` only: `connect(llcp=...)` is left by a
`CommunicationError` (the llcp twin of the repaired `connect-raises-communication-error-from-listen`); likewise
by `Chipset.Error` / `StatusError` of a PN53x / RC-S380 `listen_dep` / `sense_*`. -/
theorem clf_connect_llcp_commerror : Can Site.fn_clf_connect_stack Cls.clf_TimeoutError ∧
    Can Site.fn_clf_connect_stack Cls.clf_BrokenLinkError ∧ Can Site.fn_clf_connect_stack Cls.clf_TransmissionError ∧
    Can Site.fn_dep_Target_activate_stack Cls.clf_TimeoutError ∧ Can Site.fn_llc_activate_stack Cls.clf_TimeoutError ∧
    Can Site.fn_clf_connect_stack Cls.clf_pn53x_Chipset_Error ∧ Can Site.fn_clf_connect_stack Cls.clf_rcs380_StatusError :=
  ⟨canEscape_of_checkCan tree_ordered discoveryCan_ok (by decide), canEscape_of_checkCan tree_ordered discoveryCan_ok (by decide),
   canEscape_of_checkCan tree_ordered discoveryCan_ok (by decide), canEscape_of_checkCan tree_ordered discoveryCan_ok (by decide),
   canEscape_of_checkCan tree_ordered discoveryCan_ok (by decide), canEscape_of_checkCan tree_ordered discoveryCan_ok (by decide),
   canEscape_of_checkCan tree_ordered discoveryCan_ok (by decide)⟩

end NfcVerif.ExcFlowProps
