import NfcVerif.Props.ExcFlow
/-!
# Exception flow, instance theorems: C13 / C18: target discovery of the drivers, `open` / `close`, NFC-DEP activation

Re-checked on the regenerated `Gen/ExcFlow.lean` (see `Props/ExcFlow.lean` for what `Only` / `Can` mean).
Continues `Props/ExcFlowDrivers.lean` (a module of its own so that the two evaluations run in parallel).
-/
namespace NfcVerif.ExcFlowProps
open NfcVerif.ExcFlow NfcVerif.Gen.ClassTree NfcVerif.Gen.ExcFlow

/-! ## C13 / C18: target discovery, `open` / `close`, NFC-DEP activation on the real frontend

Translated in addition to the exchange paths of `Props/ExcFlowDrivers.lean`: `sense_tta/ttb/ttf/dep` and `listen_tta/ttb/ttf/dep`
(with `_listen_*`, `_init_as_target`, `_send_atr_response`, `_send_psl_response` and the nested helpers of the RC-S380
`listen_tta` / `listen_dep`) of every driver class, `close`, `__init__`, `get_max_*_data_size`,
`turn_on/off_led_and_buzzer`, the driver base class `nfc.clf.device.Device`, the Arygon variants, `arygon.init`,
`nfc.clf.device.connect`, `ContactlessFrontend.__init__/open/close`.  `ContactlessFrontend.sense` / `listen` now
*call* the drivers (`self.device.sense_tta(...)` is a branch over what each driver class resolves the method to) -
the former assumption "a driver's `sense_*` / `listen_*` raises `CommunicationError`, `IOError` or
`UnsupportedTargetError`" is gone, and the statements of `Props/ExcFlowClf.lean` hold without it. -/

/-- `sense_*` of the PN53x family (base class, pn531, pn532, pn533, rcs956, acr122; Arygon inherits pn531 / pn532) -/
def pn53xSenseOnlyFns : List Site := [
  Site.fn_pn53x_Device_sense_tta, Site.fn_pn53x_Device_sense_ttb, Site.fn_pn53x_Device_sense_ttf,
  Site.fn_pn53x_Device_sense_dep, Site.fn_pn531_Device_sense_tta, Site.fn_pn531_Device_sense_ttb,
  Site.fn_pn531_Device_sense_ttf, Site.fn_pn531_Device_sense_dep, Site.fn_pn532_Device_sense_tta,
  Site.fn_pn532_Device_sense_ttb, Site.fn_pn532_Device_sense_ttf, Site.fn_pn532_Device_sense_dep,
  Site.fn_pn533_Device_sense_tta, Site.fn_pn533_Device_sense_ttb, Site.fn_pn533_Device_sense_ttf,
  Site.fn_pn533_Device_sense_dep, Site.fn_rcs956_Device_sense_tta, Site.fn_rcs956_Device_sense_ttb,
  Site.fn_rcs956_Device_sense_ttf, Site.fn_rcs956_Device_sense_dep, Site.fn_acr122_Device_sense_tta,
  Site.fn_acr122_Device_sense_ttb, Site.fn_acr122_Device_sense_ttf, Site.fn_acr122_Device_sense_dep]
/-- `listen_*` of the PN53x family and their helpers -/
def pn53xListenOnlyFns : List Site := [
  Site.fn_pn53x_Device_listen_tta, Site.fn_pn53x_Device_listen_ttf, Site.fn_pn53x_Device_listen_dep,
  Site.fn_pn53x_Device__send_atr_response, Site.fn_pn53x_Device__send_psl_response, Site.fn_pn531_Device_listen_tta,
  Site.fn_pn531_Device_listen_ttb, Site.fn_pn531_Device_listen_ttf, Site.fn_pn531_Device_listen_dep,
  Site.fn_pn531_Device__init_as_target, Site.fn_pn532_Device_listen_tta, Site.fn_pn532_Device_listen_ttb,
  Site.fn_pn532_Device_listen_ttf, Site.fn_pn532_Device_listen_dep, Site.fn_pn532_Device__init_as_target,
  Site.fn_pn533_Device_listen_tta, Site.fn_pn533_Device_listen_ttb, Site.fn_pn533_Device_listen_ttf,
  Site.fn_pn533_Device_listen_dep, Site.fn_pn533_Device__init_as_target, Site.fn_rcs956_Device_listen_tta,
  Site.fn_rcs956_Device_listen_ttb, Site.fn_rcs956_Device_listen_ttf, Site.fn_rcs956_Device_listen_dep,
  Site.fn_rcs956_Device__init_as_target, Site.fn_rcs956_Device__send_atr_response, Site.fn_acr122_Device_listen_tta,
  Site.fn_acr122_Device_listen_ttb, Site.fn_acr122_Device_listen_ttf, Site.fn_acr122_Device_listen_dep]
/-- `sense_*` of the RC-S380 -/
def rcs380SenseOnlyFns : List Site := [
  Site.fn_rcs380_Device_sense_tta, Site.fn_rcs380_Device_sense_ttb, Site.fn_rcs380_Device_sense_ttf,
  Site.fn_rcs380_Device_sense_dep]
/-- `listen_*` of the RC-S380 with the nested helpers of `listen_tta` / `listen_dep` -/
def rcs380ListenOnlyFns : List Site := [
  Site.fn_rcs380_Device_listen_tta, Site.fn_rcs380_Device_listen_ttb, Site.fn_rcs380_Device_listen_ttf,
  Site.fn_rcs380_Device_listen_dep, Site.fn_rcs380_Device_listen_tta_tt2, Site.fn_rcs380_Device_listen_tta_tt4]
/-- `sense_*` of the UDP driver -/
def udpSenseOnlyFns : List Site := [
  Site.fn_udp_Device_sense_tta, Site.fn_udp_Device_sense_ttb, Site.fn_udp_Device_sense_ttf,
  Site.fn_udp_Device_sense_dep]
/-- `listen_*` of the UDP driver -/
def udpListenOnlyFns : List Site := [
  Site.fn_udp_Device_listen_tta, Site.fn_udp_Device_listen_ttb, Site.fn_udp_Device_listen_ttf,
  Site.fn_udp_Device_listen_dep, Site.fn_udp_Device__listen_tta, Site.fn_udp_Device__listen_ttf]

def pn53xSenseOnlyAllowed : List Cls :=
  [Cls.clf_UnsupportedTargetError, Cls.ValueError, Cls.OSError, Cls.AssertionError, Cls.clf_pn53x_Chipset_Error]
def pn53xListenOnlyAllowed : List Cls :=
  [Cls.clf_UnsupportedTargetError, Cls.ValueError, Cls.OSError, Cls.AssertionError, Cls.clf_pn53x_Chipset_Error]
def rcs380SenseOnlyAllowed : List Cls := [Cls.clf_UnsupportedTargetError, Cls.OSError, Cls.clf_rcs380_StatusError]
def rcs380ListenOnlyAllowed : List Cls :=
  [Cls.clf_UnsupportedTargetError, Cls.ValueError, Cls.OSError, Cls.AssertionError, Cls.clf_rcs380_StatusError]
def udpSenseOnlyAllowed : List Cls := [Cls.clf_UnsupportedTargetError, Cls.OSError, Cls.clf_CommunicationError]
def udpListenOnlyAllowed : List Cls := [Cls.OSError, Cls.AssertionError, Cls.clf_CommunicationError]

/-- the frontend, `open` / `close`, initialisation -/
def frontendOnly : List (Site × List Cls) := [
  (Site.fn_clf_sense, [Cls.clf_UnsupportedTargetError, Cls.ValueError, Cls.OSError, Cls.AssertionError,
    Cls.clf_pn53x_Chipset_Error, Cls.clf_rcs380_StatusError, Cls.clf_TransmissionError]),
  (Site.fn_clf_listen, [Cls.clf_UnsupportedTargetError, Cls.ValueError, Cls.OSError, Cls.AssertionError,
    Cls.clf_pn53x_Chipset_Error, Cls.clf_rcs380_StatusError, Cls.clf_CommunicationError]),
  (Site.fn_clf_close, [Cls.AssertionError, Cls.clf_pn53x_Chipset_Error, Cls.clf_rcs380_StatusError, Cls.clf_TransmissionError]),
  (Site.fn_clf_open, [Cls.OSError, Cls.TypeError, Cls.ValueError, Cls.ImportError, Cls.AssertionError,
    Cls.clf_pn53x_Chipset_Error, Cls.clf_rcs380_StatusError, Cls.clf_TransmissionError]),
  (Site.fn_clf_init, [Cls.OSError, Cls.TypeError, Cls.ValueError, Cls.ImportError, Cls.AssertionError,
    Cls.clf_pn53x_Chipset_Error, Cls.clf_rcs380_StatusError, Cls.clf_TransmissionError]),
  (Site.fn_device_connect, [Cls.OSError, Cls.ImportError, Cls.AssertionError]),
  (Site.fn_arygon_init, [Cls.OSError, Cls.AssertionError, Cls.clf_pn53x_Chipset_Error]),
  (Site.fn_arygon_ChipsetA_write_frame, [Cls.OSError]), (Site.fn_arygon_ChipsetB_write_frame, [Cls.OSError]),
  (Site.fn_arygon_DeviceA_close, [Cls.OSError]), (Site.fn_arygon_DeviceB_close, [Cls.OSError]),
  (Site.fn_pn53x_Device___init__, [Cls.OSError, Cls.AssertionError]),
  (Site.fn_pn531_Device___init__, [Cls.OSError, Cls.AssertionError, Cls.clf_pn53x_Chipset_Error]),
  (Site.fn_pn532_Device___init__, [Cls.OSError, Cls.AssertionError, Cls.clf_pn53x_Chipset_Error]),
  (Site.fn_pn533_Device___init__, [Cls.OSError, Cls.AssertionError, Cls.clf_pn53x_Chipset_Error]),
  (Site.fn_rcs956_Device___init__, [Cls.OSError, Cls.AssertionError, Cls.clf_pn53x_Chipset_Error]),
  (Site.fn_acr122_Device___init__, [Cls.OSError, Cls.AssertionError]),
  (Site.fn_pn53x_Device_close, [Cls.OSError]),
  (Site.fn_pn532_Device_close, [Cls.OSError, Cls.AssertionError, Cls.clf_pn53x_Chipset_Error]),
  (Site.fn_rcs380_Device_close, [Cls.OSError, Cls.clf_rcs380_StatusError]),
  (Site.fn_udp_Device_close, [Cls.OSError, Cls.clf_TransmissionError]),
  (Site.fn_pn53x_Device_mute, [Cls.OSError, Cls.AssertionError, Cls.clf_pn53x_Chipset_Error]),
  (Site.fn_rcs380_Device_mute, [Cls.OSError, Cls.clf_rcs380_StatusError]),
  (Site.fn_udp_Device_mute, [Cls.OSError, Cls.clf_TransmissionError]),
  (Site.fn_dep_Target_activate_stack, [Cls.clf_UnsupportedTargetError, Cls.ValueError, Cls.OSError, Cls.AssertionError,
    Cls.clf_pn53x_Chipset_Error, Cls.clf_rcs380_StatusError, Cls.clf_TransmissionError]),
  (Site.fn_dep_Initiator_activate_stack, [Cls.clf_UnsupportedTargetError, Cls.ValueError, Cls.OSError, Cls.AssertionError,
    Cls.clf_pn53x_Chipset_Error, Cls.clf_rcs380_StatusError, Cls.clf_TransmissionError])]

abbrev discoveryOnly : List (Site × List Cls) :=
  pn53xSenseOnlyFns.map (fun f => (f, pn53xSenseOnlyAllowed)) ++ (pn53xListenOnlyFns.map (fun f => (f, pn53xListenOnlyAllowed)) ++
  (rcs380SenseOnlyFns.map (fun f => (f, rcs380SenseOnlyAllowed)) ++ (rcs380ListenOnlyFns.map (fun f => (f, rcs380ListenOnlyAllowed)) ++
  (udpSenseOnlyFns.map (fun f => (f, udpSenseOnlyAllowed)) ++ (udpListenOnlyFns.map (fun f => (f, udpListenOnlyAllowed)) ++
  frontendOnly)))))

/-- classes that never leave -/
def discoveryNever : List (Site × List Cls) := [
  (Site.fn_rcs380_Device_listen_dep, [Cls.clf_rcs380_CommunicationError]),
  (Site.fn_rcs380_Device_listen_tta, [Cls.clf_rcs380_CommunicationError]),
  (Site.fn_rcs380_Device_listen_ttf, [Cls.clf_rcs380_CommunicationError]),
  (Site.fn_rcs380_Device_sense_tta, [Cls.clf_rcs380_CommunicationError]),
  (Site.fn_clf_sense, [Cls.clf_TimeoutError, Cls.clf_BrokenLinkError, Cls.clf_ProtocolError, Cls.clf_rcs380_CommunicationError]),
  (Site.fn_clf_close, [Cls.OSError]),
  (Site.fn_udp_Device_listen_dep, [Cls.clf_TimeoutError, Cls.clf_BrokenLinkError, Cls.clf_ProtocolError]),
  (Site.fn_udp_Device_listen_ttb, [Cls.clf_CommunicationError]),
  (Site.fn_clf_listen, [Cls.clf_TimeoutError, Cls.clf_BrokenLinkError, Cls.clf_ProtocolError]),
  (Site.fn_dep_Target_activate_stack, [Cls.clf_TimeoutError, Cls.clf_BrokenLinkError, Cls.clf_ProtocolError]),
  (Site.fn_dep_Initiator_activate_stack, [Cls.clf_TimeoutError, Cls.clf_BrokenLinkError, Cls.clf_ProtocolError])]

def discoveryCan : List (Site × Cls) := [
  (Site.fn_pn53x_Device_sense_tta, Cls.clf_pn53x_Chipset_Error),
  (Site.fn_pn532_Device_sense_ttf, Cls.clf_pn53x_Chipset_Error),
  (Site.fn_pn53x_Device_listen_dep, Cls.clf_pn53x_Chipset_Error),
  (Site.fn_pn53x_Device_listen_tta, Cls.clf_pn53x_Chipset_Error),
  (Site.fn_rcs380_Device_sense_tta, Cls.clf_rcs380_StatusError),
  (Site.fn_rcs380_Device_listen_dep, Cls.clf_rcs380_StatusError),
  (Site.fn_udp_Device_listen_dep, Cls.clf_TransmissionError),
  (Site.fn_udp_Device_sense_tta, Cls.clf_BrokenLinkError),
  (Site.fn_pn53x_Device_mute, Cls.clf_pn53x_Chipset_Error),
  (Site.fn_rcs380_Device_mute, Cls.clf_rcs380_StatusError),
  (Site.fn_udp_Device_mute, Cls.clf_TransmissionError),
  (Site.fn_clf_sense, Cls.clf_pn53x_Chipset_Error),
  (Site.fn_clf_sense, Cls.clf_rcs380_StatusError),
  (Site.fn_clf_sense, Cls.clf_TransmissionError),
  (Site.fn_clf_sense, Cls.AssertionError),
  (Site.fn_clf_listen, Cls.clf_pn53x_Chipset_Error),
  (Site.fn_clf_listen, Cls.clf_rcs380_StatusError),
  (Site.fn_clf_listen, Cls.clf_TransmissionError),
  (Site.fn_clf_close, Cls.clf_pn53x_Chipset_Error),
  (Site.fn_clf_close, Cls.clf_rcs380_StatusError),
  (Site.fn_clf_close, Cls.clf_TransmissionError),
  (Site.fn_dep_Target_activate_stack, Cls.clf_pn53x_Chipset_Error),
  (Site.fn_dep_Target_activate_stack, Cls.clf_rcs380_StatusError),
  (Site.fn_dep_Initiator_activate_stack, Cls.clf_pn53x_Chipset_Error),
  (Site.fn_clf_connect, Cls.clf_TransmissionError),
  (Site.fn_clf_connect, Cls.clf_pn53x_Chipset_Error),
  (Site.fn_clf_connect, Cls.clf_rcs380_StatusError)]

/-- every statement of this section, checked with one evaluation of the summary table -/
theorem discoveryAll_ok : checkAll world table prog discoveryOnly discoveryNever discoveryCan = true := by decide +kernel
theorem discoveryOnly_ok : checkOnly world table prog discoveryOnly = true := (checkAll_split discoveryAll_ok).1
theorem discoveryNever_ok : checkNever world table prog discoveryNever = true := (checkAll_split discoveryAll_ok).2.1
theorem discoveryCan_ok : checkCan world table prog discoveryCan = true := (checkAll_split discoveryAll_ok).2.2

private theorem mem_mapped {fs : List Site} {al : List Cls} {f : Site} (h : f ∈ fs) : (f, al) ∈ fs.map (fun f => (f, al)) :=
  List.mem_map.mpr ⟨f, h, rfl⟩

/-- **PN53x family** (base class, pn531, pn532, pn533, rcs956, acr122; the Arygon variants inherit): `sense_*` raise
the documented `UnsupportedTargetError` / `ValueError` (refused target or bit rate: `ContactlessFrontend.sense`
handles both), `IOError`, and - outside the documented driver interface - the driver-internal `Chipset.Error`
(`driver_internal_classes_leave_discovery`) and the `AssertionError` of `Chipset.command` / `sense_dep` -/
theorem pn53x_sense_escapes : ∀ f ∈ pn53xSenseOnlyFns, Only f pn53xSenseOnlyAllowed :=
  fun f h => only_all discoveryOnly_ok (f, _) (List.mem_append_left _ (mem_mapped h))
/-- `listen_*` (with `_init_as_target`, `_send_atr_response`, `_send_psl_response`): the same classes -/
theorem pn53x_listen_escapes : ∀ f ∈ pn53xListenOnlyFns, Only f pn53xListenOnlyAllowed :=
  fun f h => only_all discoveryOnly_ok (f, _) (List.mem_append_right _ (List.mem_append_left _ (mem_mapped h)))
/-- **RC-S380**: `UnsupportedTargetError`, `ValueError` / `AssertionError` (argument checks of `listen_*`), `IOError`,
and the driver-internal `StatusError`; the driver-internal `CommunicationError` never leaves
(`rcs380_discovery_no_internal_commerror`) -/
theorem rcs380_sense_escapes : ∀ f ∈ rcs380SenseOnlyFns, Only f rcs380SenseOnlyAllowed :=
  fun f h => only_all discoveryOnly_ok (f, _)
    (List.mem_append_right _ (List.mem_append_right _ (List.mem_append_left _ (mem_mapped h))))
theorem rcs380_listen_escapes : ∀ f ∈ rcs380ListenOnlyFns, Only f rcs380ListenOnlyAllowed :=
  fun f h => only_all discoveryOnly_ok (f, _)
    (List.mem_append_right _ (List.mem_append_right _ (List.mem_append_right _ (List.mem_append_left _ (mem_mapped h)))))
theorem rcs380_discovery_no_internal_commerror : ∀ f ∈ [Site.fn_rcs380_Device_listen_dep, Site.fn_rcs380_Device_listen_tta,
    Site.fn_rcs380_Device_listen_ttf, Site.fn_rcs380_Device_sense_tta],
    NeverEscapes world table prog f [Cls.clf_rcs380_CommunicationError] := by
  intro f hf
  simp only [List.mem_cons, List.not_mem_nil, or_false] at hf
  rcases hf with h | h | h | h <;> subst h <;> exact neverEscapes_of_checkNever tree_ordered discoveryNever_ok (by decide)
/-- **UDP**: `UnsupportedTargetError`, `IOError` of the socket, `AssertionError` (argument checks of `listen_*`), and
`CommunicationError` subclasses: `sense_tta` lets the `TransmissionError` / `BrokenLinkError` of `_send_data` /
`_recv_data` pass, `listen_*` the `TransmissionError` of the short-send check of `_send_data` -/
theorem udp_sense_escapes : ∀ f ∈ udpSenseOnlyFns, Only f udpSenseOnlyAllowed :=
  fun f h => only_all discoveryOnly_ok (f, _) (List.mem_append_right _ (List.mem_append_right _ (List.mem_append_right _
    (List.mem_append_right _ (List.mem_append_left _ (mem_mapped h))))))
theorem udp_listen_escapes : ∀ f ∈ udpListenOnlyFns, Only f udpListenOnlyAllowed :=
  fun f h => only_all discoveryOnly_ok (f, _) (List.mem_append_right _ (List.mem_append_right _ (List.mem_append_right _
    (List.mem_append_right _ (List.mem_append_right _ (List.mem_append_left _ (mem_mapped h)))))))

/-- the frontend and the rest of the driver interface (the lists are in `frontendOnly`): `sense`, `listen`, `close`,
`open`, `__init__`, `device.connect`, the Arygon functions, `Device.__init__` / `close` / `mute` -/
theorem frontend_escapes : ∀ fa ∈ frontendOnly, Only fa.1 fa.2 :=
  fun fa h => only_all discoveryOnly_ok fa (List.mem_append_right _ (List.mem_append_right _ (List.mem_append_right _
    (List.mem_append_right _ (List.mem_append_right _ (List.mem_append_right _ h))))))

/-- **Not guaranteed by the current code** (C13 "driver-internal exception types never escape" holds for `exchange`,
`clf_exchange_escapes`, not for target discovery): the chipset layer's `Chipset.Error` leaves `sense_*` / `listen_*`
/ `mute` of the PN53x family (only `sense_dep`, `sense_ttb` and the RID probe of `sense_tta` have a handler), the
RC-S380 `StatusError` leaves `sense_*` / `listen_*` / `mute`, and with them `ContactlessFrontend.sense()` and
`listen()`, whose handlers name `CommunicationError`, `UnsupportedTargetError` and `ValueError` only.
`udp.Device.mute` lets the `TransmissionError` of its RFOFF datagram through. -/
theorem driver_internal_classes_leave_discovery :
    Can Site.fn_pn53x_Device_sense_tta Cls.clf_pn53x_Chipset_Error ∧ Can Site.fn_pn532_Device_sense_ttf Cls.clf_pn53x_Chipset_Error ∧
    Can Site.fn_pn53x_Device_listen_dep Cls.clf_pn53x_Chipset_Error ∧ Can Site.fn_pn53x_Device_listen_tta Cls.clf_pn53x_Chipset_Error ∧
    Can Site.fn_rcs380_Device_sense_tta Cls.clf_rcs380_StatusError ∧ Can Site.fn_rcs380_Device_listen_dep Cls.clf_rcs380_StatusError ∧
    Can Site.fn_pn53x_Device_mute Cls.clf_pn53x_Chipset_Error ∧ Can Site.fn_rcs380_Device_mute Cls.clf_rcs380_StatusError ∧
    Can Site.fn_udp_Device_mute Cls.clf_TransmissionError :=
  ⟨canEscape_of_checkCan tree_ordered discoveryCan_ok (by decide), canEscape_of_checkCan tree_ordered discoveryCan_ok (by decide),
   canEscape_of_checkCan tree_ordered discoveryCan_ok (by decide), canEscape_of_checkCan tree_ordered discoveryCan_ok (by decide),
   canEscape_of_checkCan tree_ordered discoveryCan_ok (by decide), canEscape_of_checkCan tree_ordered discoveryCan_ok (by decide),
   canEscape_of_checkCan tree_ordered discoveryCan_ok (by decide), canEscape_of_checkCan tree_ordered discoveryCan_ok (by decide),
   canEscape_of_checkCan tree_ordered discoveryCan_ok (by decide)⟩
/-- ... and reach the application through `sense()` / `listen()` / `close()` -/
theorem clf_sense_listen_internal_classes :
    Can Site.fn_clf_sense Cls.clf_pn53x_Chipset_Error ∧ Can Site.fn_clf_sense Cls.clf_rcs380_StatusError ∧
    Can Site.fn_clf_sense Cls.clf_TransmissionError ∧ Can Site.fn_clf_sense Cls.AssertionError ∧
    Can Site.fn_clf_listen Cls.clf_pn53x_Chipset_Error ∧ Can Site.fn_clf_listen Cls.clf_rcs380_StatusError ∧
    Can Site.fn_clf_close Cls.clf_pn53x_Chipset_Error ∧ Can Site.fn_clf_close Cls.clf_rcs380_StatusError ∧
    Can Site.fn_clf_close Cls.clf_TransmissionError :=
  ⟨canEscape_of_checkCan tree_ordered discoveryCan_ok (by decide), canEscape_of_checkCan tree_ordered discoveryCan_ok (by decide),
   canEscape_of_checkCan tree_ordered discoveryCan_ok (by decide), canEscape_of_checkCan tree_ordered discoveryCan_ok (by decide),
   canEscape_of_checkCan tree_ordered discoveryCan_ok (by decide), canEscape_of_checkCan tree_ordered discoveryCan_ok (by decide),
   canEscape_of_checkCan tree_ordered discoveryCan_ok (by decide), canEscape_of_checkCan tree_ordered discoveryCan_ok (by decide),
   canEscape_of_checkCan tree_ordered discoveryCan_ok (by decide)⟩
/-- what `sense()` does guarantee: the `CommunicationError` of a driver's `sense_*` is absorbed (a `TransmissionError`
can only come from `udp.Device.mute`); `close()` absorbs `IOError` -/
theorem clf_sense_absorbs_commerror : NeverEscapes world table prog Site.fn_clf_sense
      [Cls.clf_TimeoutError, Cls.clf_BrokenLinkError, Cls.clf_ProtocolError, Cls.clf_rcs380_CommunicationError] ∧
    NeverEscapes world table prog Site.fn_clf_close [Cls.OSError] :=
  ⟨neverEscapes_of_checkNever tree_ordered discoveryNever_ok (by decide),
   neverEscapes_of_checkNever tree_ordered discoveryNever_ok (by decide)⟩
theorem udp_discovery_raises_commerror : Can Site.fn_udp_Device_listen_dep Cls.clf_TransmissionError ∧
    Can Site.fn_udp_Device_sense_tta Cls.clf_BrokenLinkError ∧ Can Site.fn_clf_listen Cls.clf_TransmissionError :=
  ⟨canEscape_of_checkCan tree_ordered discoveryCan_ok (by decide), canEscape_of_checkCan tree_ordered discoveryCan_ok (by decide),
   canEscape_of_checkCan tree_ordered discoveryCan_ok (by decide)⟩
/-- a driver that waits for activation returns `None` when the peer stops answering: no `TimeoutError`,
`BrokenLinkError`, `ProtocolError` leaves `udp.Device.listen_dep` (no `CommunicationError` at all `listen_ttb`) -
repaired by fixes/C18/0005 - nor `ContactlessFrontend.listen()` for any driver -/
theorem listen_returns_none_when_peer_silent :
    NeverEscapes world table prog Site.fn_udp_Device_listen_dep [Cls.clf_TimeoutError, Cls.clf_BrokenLinkError, Cls.clf_ProtocolError] ∧
    NeverEscapes world table prog Site.fn_udp_Device_listen_ttb [Cls.clf_CommunicationError] ∧
    NeverEscapes world table prog Site.fn_clf_listen [Cls.clf_TimeoutError, Cls.clf_BrokenLinkError, Cls.clf_ProtocolError] :=
  ⟨neverEscapes_of_checkNever tree_ordered discoveryNever_ok (by decide),
   neverEscapes_of_checkNever tree_ordered discoveryNever_ok (by decide),
   neverEscapes_of_checkNever tree_ordered discoveryNever_ok (by decide)⟩

/-! ### NFC-DEP activation on the real frontend (`connect(llcp=...)`)

`dep.Initiator.activate.stack` / `dep.Target.activate.stack` are `nfc.dep.Initiator.activate` / `Target.activate` in
which `self.clf.sense` / `self.clf.listen` are *calls* of `ContactlessFrontend.sense()` / `listen()` (for a
peer-to-peer target) - and through them of the drivers - instead of assumption sites.  `LogicalLinkController.activate`
calls them, so `clf_connect_escapes` / `clf_connect_no_commerror` (`Props/ExcFlowClf.lean`) need no assumption
about `mac.activate`. -/

/-- what leaves NFC-DEP activation: the lists are in `frontendOnly`; no `TimeoutError`, `BrokenLinkError`,
`ProtocolError` (`ATR_REQ.decode` is given an ATR_REQ whose length `listen()` has checked) -/
theorem dep_activate_stack_escapes :
    NeverEscapes world table prog Site.fn_dep_Target_activate_stack [Cls.clf_TimeoutError, Cls.clf_BrokenLinkError, Cls.clf_ProtocolError] ∧
    NeverEscapes world table prog Site.fn_dep_Initiator_activate_stack [Cls.clf_TimeoutError, Cls.clf_BrokenLinkError, Cls.clf_ProtocolError] :=
  ⟨neverEscapes_of_checkNever tree_ordered discoveryNever_ok (by decide),
   neverEscapes_of_checkNever tree_ordered discoveryNever_ok (by decide)⟩
/-- **Not guaranteed by the current code**: the driver-internal classes and the `TransmissionError` of the UDP driver's
short-send check do leave activation and with it `connect()` (they are in the list of `clf_connect_escapes`) -/
theorem clf_connect_internal_classes : Can Site.fn_dep_Target_activate_stack Cls.clf_pn53x_Chipset_Error ∧
    Can Site.fn_dep_Target_activate_stack Cls.clf_rcs380_StatusError ∧ Can Site.fn_dep_Initiator_activate_stack Cls.clf_pn53x_Chipset_Error ∧
    Can Site.fn_clf_connect Cls.clf_TransmissionError ∧ Can Site.fn_clf_connect Cls.clf_pn53x_Chipset_Error ∧
    Can Site.fn_clf_connect Cls.clf_rcs380_StatusError :=
  ⟨canEscape_of_checkCan tree_ordered discoveryCan_ok (by decide), canEscape_of_checkCan tree_ordered discoveryCan_ok (by decide),
   canEscape_of_checkCan tree_ordered discoveryCan_ok (by decide), canEscape_of_checkCan tree_ordered discoveryCan_ok (by decide),
   canEscape_of_checkCan tree_ordered discoveryCan_ok (by decide), canEscape_of_checkCan tree_ordered discoveryCan_ok (by decide)⟩

end NfcVerif.ExcFlowProps
