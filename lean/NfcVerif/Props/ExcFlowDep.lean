import NfcVerif.Props.ExcFlow
/-!
# Exception flow, instance theorems: C04 / C07: NFC-DEP (`nfc/dep.py`)

Re-checked on the regenerated `Gen/ExcFlow.lean` (see `Props/ExcFlow.lean` for what `Only` / `Can` mean).

Layer boundary (assumption table): `ContactlessFrontend.exchange` raises `CommunicationError` subclasses;
`sense()` / `listen()` raise `CommunicationError` subclasses or `UnsupportedTargetError`.  Everything of
`nfc/dep.py` between that boundary and `Initiator/Target.activate/exchange/deactivate` is translated: the retry
machinery (`send_dep_req_recv_dep_res`, `request_attention`, `request_retransmission`,
`send_dep_res_recv_dep_req`, `send_res_recv_req`), `encode_frame` / `decode_frame` of both roles and
`decode` / `encode` of the ATR/PSL/DEP/DSL/RLS protocol data units.  The `*_io` theorems repeat the statements
with a host link that can fail (`IOError` at the three boundary sites): it passes through unchanged.
-/
namespace NfcVerif.ExcFlowProps
open NfcVerif.ExcFlow NfcVerif.Gen.ClassTree NfcVerif.Gen.ExcFlow

/-! ## C04 / C07: NFC-DEP -/

/-- the `Only` statements of this module -/
def depOnly : List (Site × List Cls) := [
  (Site.fn_dep_Initiator_exchange, [Cls.clf_CommunicationError]),
  (Site.fn_dep_Target_exchange, [Cls.clf_CommunicationError, Cls.ValueError, Cls.AssertionError]),
  (Site.fn_dep_Initiator_activate, [Cls.clf_CommunicationError, Cls.clf_UnsupportedTargetError, Cls.AssertionError]),
  (Site.fn_dep_Target_activate, [Cls.clf_CommunicationError, Cls.clf_UnsupportedTargetError]),
  (Site.fn_dep_Initiator_deactivate, []),
  (Site.fn_dep_Target_deactivate, []),
  (Site.fn_dep_Initiator_send_dep_req_recv_dep_res, [Cls.clf_CommunicationError]),
  (Site.fn_dep_Initiator_send_req_recv_res, [Cls.clf_CommunicationError]),
  (Site.fn_dep_Initiator_request_attention, [Cls.clf_TimeoutError, Cls.clf_ProtocolError]),
  (Site.fn_dep_Initiator_request_retransmission, [Cls.clf_TimeoutError, Cls.clf_ProtocolError]),
  (Site.fn_dep_Target_send_dep_res_recv_dep_req, [Cls.clf_CommunicationError]),
  (Site.fn_dep_Target_send_res_recv_req, [Cls.clf_CommunicationError]),
  (Site.fn_dep_Target_send_timeout_extension, [Cls.clf_CommunicationError]),
  (Site.fn_dep_Initiator_encode_frame, []),
  (Site.fn_dep_Target_encode_frame, []),
  (Site.fn_dep_Initiator_decode_frame, [Cls.clf_ProtocolError, Cls.clf_TransmissionError]),
  (Site.fn_dep_Target_decode_frame, [Cls.clf_ProtocolError, Cls.clf_TransmissionError]),
  (Site.fn_dep_ATR_REQ_decode, [Cls.clf_ProtocolError]),
  (Site.fn_dep_ATR_RES_decode, [Cls.clf_ProtocolError]),
  (Site.fn_dep_PSL_REQ_RES_decode, [Cls.clf_ProtocolError]),
  (Site.fn_dep_DEP_REQ_RES_decode, [Cls.clf_ProtocolError]),
  (Site.fn_dep_DSL_REQ_RES_decode, [Cls.clf_ProtocolError]),
  (Site.fn_dep_ATR_REQ_encode, []),
  (Site.fn_dep_ATR_RES_encode, []),
  (Site.fn_dep_PSL_REQ_encode, []),
  (Site.fn_dep_PSL_RES_encode, []),
  (Site.fn_dep_DEP_REQ_RES_encode, []),
  (Site.fn_dep_DSL_REQ_RES_encode, [])]

/-- the assumption table with a host link that may fail: `IOError` at the boundary sites of `nfc/dep.py` -/
def tblDepIO : List (Site × List Cls) :=
  [(Site.dep_Initiator_activate_self_clf_sense, [Cls.clf_CommunicationError, Cls.clf_UnsupportedTargetError, Cls.OSError]),
   (Site.dep_Target_activate_self_clf_listen, [Cls.clf_CommunicationError, Cls.clf_UnsupportedTargetError, Cls.OSError])]
  ++ tableIO
abbrev OnlyDepIO (f : Site) (allowed : List Cls) : Prop := EscapesOnly world tblDepIO prog f allowed
def depOnlyIO : List (Site × List Cls) := [
  (Site.fn_dep_Initiator_exchange, [Cls.clf_CommunicationError, Cls.OSError]),
  (Site.fn_dep_Target_exchange, [Cls.clf_CommunicationError, Cls.OSError, Cls.ValueError, Cls.AssertionError]),
  (Site.fn_dep_Initiator_activate, [Cls.clf_CommunicationError, Cls.OSError, Cls.clf_UnsupportedTargetError, Cls.AssertionError]),
  (Site.fn_dep_Target_activate, [Cls.clf_CommunicationError, Cls.OSError, Cls.clf_UnsupportedTargetError]),
  (Site.fn_dep_Initiator_deactivate, [Cls.OSError]),
  (Site.fn_dep_Target_deactivate, [Cls.OSError])]
theorem depOnlyIO_ok : checkOnly world tblDepIO prog depOnlyIO = true := by decide +kernel

/-- classes that never leave (`checkNever`) -/
def depNever : List (Site × List Cls) := [
  (Site.fn_dep_Initiator_exchange, [Cls.clf_TransmissionError]),
  (Site.fn_dep_Initiator_send_dep_req_recv_dep_res, [Cls.clf_TransmissionError])]

def depCan : List (Site × Cls) := [
  (Site.fn_dep_Initiator_exchange, Cls.clf_TimeoutError),
  (Site.fn_dep_Initiator_exchange, Cls.clf_ProtocolError),
  (Site.fn_dep_Initiator_exchange, Cls.clf_BrokenLinkError),
  (Site.fn_dep_Initiator_send_req_recv_res, Cls.clf_TransmissionError),
  (Site.fn_dep_Target_exchange, Cls.clf_TransmissionError),
  (Site.fn_dep_Target_exchange, Cls.ValueError),
  (Site.fn_dep_Target_exchange, Cls.AssertionError),
  (Site.fn_dep_Initiator_activate, Cls.clf_UnsupportedTargetError),
  (Site.fn_dep_Initiator_activate, Cls.clf_TimeoutError),
  (Site.fn_dep_Initiator_activate, Cls.AssertionError),
  (Site.fn_dep_Target_activate, Cls.clf_TimeoutError),
  (Site.fn_dep_Target_activate, Cls.clf_ProtocolError),
  (Site.fn_dep_Target_send_res_recv_req, Cls.clf_TimeoutError),
  (Site.fn_dep_Initiator_send_req_recv_res, Cls.clf_TimeoutError),
  (Site.fn_dep_Initiator_decode_frame, Cls.clf_TransmissionError),
  (Site.fn_dep_Target_decode_frame, Cls.clf_ProtocolError),
  (Site.fn_dep_PSL_REQ_RES_decode, Cls.clf_ProtocolError),
  (Site.fn_dep_DEP_REQ_RES_decode, Cls.clf_ProtocolError)]
/-- every statement of this module about the table `table`, checked with one evaluation of the summary table -/
theorem depAll_ok : checkAll world table prog depOnly depNever depCan = true := by decide +kernel
theorem depOnly_ok : checkOnly world table prog depOnly = true := (checkAll_split depAll_ok).1
theorem depNever_ok : checkNever world table prog depNever = true := (checkAll_split depAll_ok).2.1
theorem depCan_ok : checkCan world table prog depCan = true := (checkAll_split depAll_ok).2.2

/-! ### `exchange` -/

/-- C04 "the caller gets a CommunicationError": only `CommunicationError` subclasses leave `Initiator.exchange`
(no residual at all: the function contains no `assert`, and what `decode_frame` / the PDU decoders raise is
`ProtocolError` / `TransmissionError`) -/
theorem dep_initiator_exchange_escapes : Only Site.fn_dep_Initiator_exchange [Cls.clf_CommunicationError] :=
  escapesOnly_of_checkOnly tree_ordered depOnly_ok (by decide)
/-- C04 "any single corrupted frame is recovered": a `TransmissionError` (of `clf.exchange` or of `decode_frame`)
never leaves `Initiator.exchange` / `send_dep_req_recv_dep_res`: it is answered with NAK retransmission requests
and ends, when those fail too, as `ProtocolError` or `TimeoutError` -/
theorem dep_initiator_exchange_no_transmission_error :
    NeverEscapes world table prog Site.fn_dep_Initiator_exchange [Cls.clf_TransmissionError] ∧
    NeverEscapes world table prog Site.fn_dep_Initiator_send_dep_req_recv_dep_res [Cls.clf_TransmissionError] :=
  ⟨neverEscapes_of_checkNever tree_ordered depNever_ok (by decide),
   neverEscapes_of_checkNever tree_ordered depNever_ok (by decide)⟩
/-- non-vacuity: the retry machinery does give up (`TimeoutError`: deadline; `ProtocolError`: retries used up or
a wrong PDU; `BrokenLinkError`: passed on from `clf.exchange`), and the `TransmissionError` it absorbs is raised
underneath -/
theorem dep_initiator_exchange_can_fail : Can Site.fn_dep_Initiator_exchange Cls.clf_TimeoutError ∧
    Can Site.fn_dep_Initiator_exchange Cls.clf_ProtocolError ∧ Can Site.fn_dep_Initiator_exchange Cls.clf_BrokenLinkError ∧
    Can Site.fn_dep_Initiator_send_req_recv_res Cls.clf_TransmissionError :=
  ⟨canEscape_of_checkCan tree_ordered depCan_ok (by decide),
   canEscape_of_checkCan tree_ordered depCan_ok (by decide),
   canEscape_of_checkCan tree_ordered depCan_ok (by decide),
   canEscape_of_checkCan tree_ordered depCan_ok (by decide)⟩

/-- `Target.exchange`: `CommunicationError` subclasses, plus the two argument checks of the function itself:
`ValueError("send_data must not be empty")` and `assert send_data is None` on the first call -/
theorem dep_target_exchange_escapes : Only Site.fn_dep_Target_exchange
    [Cls.clf_CommunicationError, Cls.ValueError, Cls.AssertionError] :=
  escapesOnly_of_checkOnly tree_ordered depOnly_ok (by decide)
/-- the Target does not retransmit on its own: the `TransmissionError` of `decode_frame` leaves `exchange`; the
two argument checks are reachable -/
theorem dep_target_exchange_can_fail : Can Site.fn_dep_Target_exchange Cls.clf_TransmissionError ∧
    Can Site.fn_dep_Target_exchange Cls.ValueError ∧ Can Site.fn_dep_Target_exchange Cls.AssertionError :=
  ⟨canEscape_of_checkCan tree_ordered depCan_ok (by decide),
   canEscape_of_checkCan tree_ordered depCan_ok (by decide),
   canEscape_of_checkCan tree_ordered depCan_ok (by decide)⟩

/-- the helpers underneath -/
theorem dep_helpers_escape : ∀ f ∈ [Site.fn_dep_Initiator_send_dep_req_recv_dep_res, Site.fn_dep_Initiator_send_req_recv_res,
    Site.fn_dep_Target_send_dep_res_recv_dep_req, Site.fn_dep_Target_send_res_recv_req,
    Site.fn_dep_Target_send_timeout_extension], Only f [Cls.clf_CommunicationError] := by
  intro f hf
  simp only [List.mem_cons, List.not_mem_nil, or_false] at hf
  rcases hf with h | h | h | h | h <;> subst h <;> exact escapesOnly_of_checkOnly tree_ordered depOnly_ok (by decide)
/-- the attention / retransmission requests of the Initiator end with `TimeoutError` (deadline) or `ProtocolError`
(retries used up, unexpected answer) only -/
theorem dep_recovery_escapes : ∀ f ∈ [Site.fn_dep_Initiator_request_attention, Site.fn_dep_Initiator_request_retransmission],
    Only f [Cls.clf_TimeoutError, Cls.clf_ProtocolError] := by
  intro f hf
  simp only [List.mem_cons, List.not_mem_nil, or_false] at hf
  rcases hf with h | h <;> subst h <;> exact escapesOnly_of_checkOnly tree_ordered depOnly_ok (by decide)

/-! ### `activate` / `deactivate` -/

/-- `Initiator.activate`: what `sense()` raises for the passive-mode searches (they are outside every handler),
plus the `assert`s on the `did` / `nad` options.  The `CommunicationError` of the ATR_REQ / PSL_REQ exchange and of
the active-mode search is absorbed (`None` is returned). -/
theorem dep_initiator_activate_escapes : Only Site.fn_dep_Initiator_activate
    [Cls.clf_CommunicationError, Cls.clf_UnsupportedTargetError, Cls.AssertionError] :=
  escapesOnly_of_checkOnly tree_ordered depOnly_ok (by decide)
/-- `Target.activate`: what `listen()` raises, and the `ProtocolError` of `ATR_REQ.decode` (the ATR_REQ captured by
the driver is decoded outside every handler) -/
theorem dep_target_activate_escapes : Only Site.fn_dep_Target_activate
    [Cls.clf_CommunicationError, Cls.clf_UnsupportedTargetError] :=
  escapesOnly_of_checkOnly tree_ordered depOnly_ok (by decide)
theorem dep_activate_can_fail : Can Site.fn_dep_Initiator_activate Cls.clf_UnsupportedTargetError ∧
    Can Site.fn_dep_Initiator_activate Cls.clf_TimeoutError ∧ Can Site.fn_dep_Initiator_activate Cls.AssertionError ∧
    Can Site.fn_dep_Target_activate Cls.clf_TimeoutError ∧ Can Site.fn_dep_Target_activate Cls.clf_ProtocolError :=
  ⟨canEscape_of_checkCan tree_ordered depCan_ok (by decide),
   canEscape_of_checkCan tree_ordered depCan_ok (by decide),
   canEscape_of_checkCan tree_ordered depCan_ok (by decide),
   canEscape_of_checkCan tree_ordered depCan_ok (by decide),
   canEscape_of_checkCan tree_ordered depCan_ok (by decide)⟩

/-- `deactivate` of both roles: nothing escapes (the `CommunicationError` of the release / deselect exchange is
absorbed) -/
theorem dep_deactivate_escapes : Only Site.fn_dep_Initiator_deactivate [] ∧ Only Site.fn_dep_Target_deactivate [] :=
  ⟨escapesOnly_of_checkOnly tree_ordered depOnly_ok (by decide),
   escapesOnly_of_checkOnly tree_ordered depOnly_ok (by decide)⟩
/-- non-vacuity: the exchanges inside `deactivate` do fail -/
theorem dep_deactivate_inner_raises : Can Site.fn_dep_Target_send_res_recv_req Cls.clf_TimeoutError ∧
    Can Site.fn_dep_Initiator_send_req_recv_res Cls.clf_TimeoutError :=
  ⟨canEscape_of_checkCan tree_ordered depCan_ok (by decide),
   canEscape_of_checkCan tree_ordered depCan_ok (by decide)⟩

/-! ### frames and protocol data units (C07: "NFC-DEP frames (ATR/PSL/DEP/DSL/RLS) ... documented exception types") -/

/-- `decode_frame` of both roles: `ProtocolError` or `TransmissionError`; `encode_frame`: nothing -/
theorem dep_frame_codec_escapes : (∀ f ∈ [Site.fn_dep_Initiator_decode_frame, Site.fn_dep_Target_decode_frame],
      Only f [Cls.clf_ProtocolError, Cls.clf_TransmissionError]) ∧
    (∀ f ∈ [Site.fn_dep_Initiator_encode_frame, Site.fn_dep_Target_encode_frame], Only f []) := by
  constructor <;> intro f hf <;> simp only [List.mem_cons, List.not_mem_nil, or_false] at hf <;>
    rcases hf with h | h <;> subst h <;> exact escapesOnly_of_checkOnly tree_ordered depOnly_ok (by decide)
/-- the PDU decoders raise `ProtocolError` only - the `TypeError` of `cls(*data[2:])` (PSL) and the `IndexError` of
`data.pop(0)` (DEP) are caught and replaced; the encoders raise nothing -/
theorem dep_pdu_codec_escapes : (∀ f ∈ [Site.fn_dep_ATR_REQ_decode, Site.fn_dep_ATR_RES_decode, Site.fn_dep_PSL_REQ_RES_decode,
      Site.fn_dep_DEP_REQ_RES_decode, Site.fn_dep_DSL_REQ_RES_decode], Only f [Cls.clf_ProtocolError]) ∧
    (∀ f ∈ [Site.fn_dep_ATR_REQ_encode, Site.fn_dep_ATR_RES_encode, Site.fn_dep_PSL_REQ_encode, Site.fn_dep_PSL_RES_encode,
      Site.fn_dep_DEP_REQ_RES_encode, Site.fn_dep_DSL_REQ_RES_encode], Only f []) := by
  constructor <;> intro f hf <;> simp only [List.mem_cons, List.not_mem_nil, or_false] at hf
  · rcases hf with h | h | h | h | h <;> subst h <;> exact escapesOnly_of_checkOnly tree_ordered depOnly_ok (by decide)
  · rcases hf with h | h | h | h | h | h <;> subst h <;> exact escapesOnly_of_checkOnly tree_ordered depOnly_ok (by decide)
theorem dep_codec_can_fail : Can Site.fn_dep_Initiator_decode_frame Cls.clf_TransmissionError ∧
    Can Site.fn_dep_Target_decode_frame Cls.clf_ProtocolError ∧ Can Site.fn_dep_PSL_REQ_RES_decode Cls.clf_ProtocolError ∧
    Can Site.fn_dep_DEP_REQ_RES_decode Cls.clf_ProtocolError :=
  ⟨canEscape_of_checkCan tree_ordered depCan_ok (by decide),
   canEscape_of_checkCan tree_ordered depCan_ok (by decide),
   canEscape_of_checkCan tree_ordered depCan_ok (by decide),
   canEscape_of_checkCan tree_ordered depCan_ok (by decide)⟩

/-! ### with a host link that can fail -/

/-- `IOError` of `clf.exchange` / `sense()` / `listen()` passes through `exchange` / `activate` / `deactivate`
unchanged (no handler of `nfc/dep.py` names `IOError` or a base class of it) and nothing else appears -/
theorem dep_exchange_escapes_io : OnlyDepIO Site.fn_dep_Initiator_exchange [Cls.clf_CommunicationError, Cls.OSError] ∧
    OnlyDepIO Site.fn_dep_Target_exchange [Cls.clf_CommunicationError, Cls.OSError, Cls.ValueError, Cls.AssertionError] :=
  ⟨escapesOnly_of_checkOnly tree_ordered depOnlyIO_ok (by decide),
   escapesOnly_of_checkOnly tree_ordered depOnlyIO_ok (by decide)⟩
theorem dep_activate_escapes_io : OnlyDepIO Site.fn_dep_Initiator_activate
      [Cls.clf_CommunicationError, Cls.OSError, Cls.clf_UnsupportedTargetError, Cls.AssertionError] ∧
    OnlyDepIO Site.fn_dep_Target_activate [Cls.clf_CommunicationError, Cls.OSError, Cls.clf_UnsupportedTargetError] ∧
    OnlyDepIO Site.fn_dep_Initiator_deactivate [Cls.OSError] ∧ OnlyDepIO Site.fn_dep_Target_deactivate [Cls.OSError] :=
  ⟨escapesOnly_of_checkOnly tree_ordered depOnlyIO_ok (by decide),
   escapesOnly_of_checkOnly tree_ordered depOnlyIO_ok (by decide),
   escapesOnly_of_checkOnly tree_ordered depOnlyIO_ok (by decide),
   escapesOnly_of_checkOnly tree_ordered depOnlyIO_ok (by decide)⟩

end NfcVerif.ExcFlowProps
