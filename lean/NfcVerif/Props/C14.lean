import NfcVerif.Lemmas.HostFrame
import NfcVerif.Lemmas.Crc
/-!
# C14 - Host-link frames and ISO 14443 CRCs are built and checked correctly

Statements only; proofs are in `Lemmas/HostFrame.lean` and `Lemmas/Crc.lean`.
Models: `Model/HostFrame.lean` (transcription of `pn53x.Chipset.command`,
`acr122.Chipset.ccid_xfr_block/command`, `rcs380.Frame`) and `Model/Crc.lean`
(`device.calculate_crc`, `add/check_crc_a/b`).  `Spec.*` are independent
readings of the frame formats; `isoUpdate` is ISO/IEC 14443-3 Annex B.
-/
namespace NfcVerif.C14
open NfcVerif NfcVerif.HostFrame NfcVerif.Crc

/-- Every PN53x command frame is well formed, for every command code and every
payload (both sides of the 254/255 normal/extended switch; the driver asserts
`len ≤ host_command_frame_max_size - 2 ≤ 263`). -/
theorem pn53x_build_valid (cmd : Nat) (d : Bytes) (h : d.length + 2 < 65536) :
    Spec.parse (pnBuild cmd d) = some (0xD4, cmd, d) :=
  pn_build_valid cmd d h

/-- A PN53x response is returned as data only if the independent validator
accepts the frame as `D5, cmd+1, data`: start code, length and length checksum,
data checksum, postamble, frame identifier and response code are all valid. -/
theorem pn53x_accept_sound (cmd : Nat) (f data : Bytes) (h : pnAccept cmd f = .ok data) :
    Spec.parse f = some (0xD5, cmd + 1, data) :=
  pn_accept_sound cmd f data h

/-- Conversely every frame that is valid under the independent reading is accepted: the driver
accepts a response **exactly when** it is a valid `D5, cmd+1` frame. -/
theorem pn53x_accept_complete (cmd : Nat) (f data : Bytes) (h : Spec.parse f = some (0xD5, cmd + 1, data)) :
    pnAccept cmd f = .ok data :=
  pn_accept_complete cmd f data h

/-- Every other response - any byte string at all - ends in `IOError(EIO)` or, for
a well-formed error frame, in `Chipset.Error(0x7F)`; never in an internal exception. -/
theorem pn53x_accept_documented (cmd : Nat) (f : Bytes) :
    Safe (fun e => e = .io 5 ∨ e = .chipsetError 0x7F) (pnAccept cmd f) :=
  pn_accept_doc cmd f

/-- ACR122: CCID escape envelope and pseudo APDU are well formed whenever the
driver writes a frame at all. -/
theorem acr122_build_valid (cmd : Nat) (d w : Bytes) (h : acrBuild cmd d = .ok w) :
    Spec.acrCommand w = some (cmd, d) :=
  acr_build_valid cmd d w h

theorem acr122_accept_sound (cmd : Nat) (raw data : Bytes) (h : acrAccept cmd raw = .ok data) :
    Spec.acrResponse raw = some (cmd + 1, data) :=
  acr_accept_sound cmd raw data h

theorem acr122_accept_documented (cmd : Nat) (raw : Bytes) :
    Safe (fun e => e = .io 5) (acrAccept cmd raw) :=
  acr_accept_doc cmd raw

theorem rcs380_build_valid (d : Bytes) (h : d.length < 65536) :
    Spec.rcsParse (rcsBuild d) = some d :=
  rcs_build_valid d h

/-- The bit loop of `calculate_crc` computes the ISO/IEC 14443-3 Annex B CRC
for every initial register value and every message of any length. -/
theorem crc_impl_eq_iso (init : BitVec 16) (d : List (BitVec 8)) : crcOf init d = isoCrcOf init d :=
  crcOf_eq_iso init d

theorem crc_a_eq_iso (d : List (BitVec 8)) : addCrcA d = d ++ [lo (isoCrcA d), hi (isoCrcA d)] := by
  simp [addCrcA, isoCrcA, crcOf_eq_iso]

theorem crc_b_eq_iso (d : List (BitVec 8)) : addCrcB d = d ++ [lo (isoCrcB d), hi (isoCrcB d)] := by
  simp [addCrcB, isoCrcB, crcOf_eq_iso]

/-- a frame is accepted exactly when its last two octets are the ISO CRC of the rest -/
theorem crc_check_iff (f : List (BitVec 8)) (h : 2 ≤ f.length) :
    (checkCrcA f = .ok true ↔ f = f.take (f.length - 2) ++ [lo (isoCrcA (f.take (f.length - 2))), hi (isoCrcA (f.take (f.length - 2)))])
    ∧ (checkCrcB f = .ok true ↔ f = f.take (f.length - 2) ++ [lo (isoCrcB (f.take (f.length - 2))), hi (isoCrcB (f.take (f.length - 2)))]) := by
  have hsplit : f = f.take (f.length - 2) ++ f.drop (f.length - 2) := (List.take_append_drop _ _).symm
  have hn : ¬ f.length < 2 := by omega
  constructor
  · simp only [checkCrcA, hn, if_false, isoCrcA, crcOf_eq_iso]
    constructor
    · intro hc
      simp at hc
      rw [← hc]; exact hsplit
    · intro hc
      have := List.append_cancel_left (hsplit.symm.trans hc)
      simp [this]
  · simp only [checkCrcB, hn, if_false, isoCrcB, crcOf_eq_iso]
    constructor
    · intro hc
      simp at hc
      rw [← hc]; exact hsplit
    · intro hc
      have := List.append_cancel_left (hsplit.symm.trans hc)
      simp [this]

/-- what the driver appends is accepted by the driver's check -/
theorem crc_check_add (d : List (BitVec 8)) :
    checkCrcA (addCrcA d) = .ok true ∧ checkCrcB (addCrcB d) = .ok true := by
  simp [checkCrcA, addCrcA, checkCrcB, addCrcB]

/-- **Every single-bit error is detected.** Flipping any one bit of a frame the driver produced
(any octet of the message of any length, or either CRC octet) makes the driver's check fail -
for CRC_A and CRC_B. (From GF(2)-linearity of the register update and injectivity of the
zero-input step; no enumeration.) -/
theorem crc_detects_single_bit (d : List (BitVec 8)) (i : Nat) (b : Fin 8) (h : i < d.length + 2) :
    checkCrcA (flipBit (addCrcA d) i b) = .ok false ∧ checkCrcB (flipBit (addCrcB d) i b) = .ok false :=
  ⟨checkA_flip d i b h, checkB_flip d i b h⟩

/-! Non-vacuity: concrete instances satisfying the hypotheses. -/
example : Spec.parse (pnBuild 0 [0x31, 0x32, 0x33]) = some (0xD4, 0, [0x31, 0x32, 0x33]) := by decide
example : pnAccept 0 [0, 0, 0xFF, 5, 0xFB, 0xD5, 1, 0x34, 0x35, 0x36, 0x8B, 0] = .ok [0x34, 0x35, 0x36] := by decide
example : pnAccept 0 [0, 0, 0xFF] = .error (.io 5) := by decide
example : pnAccept 0 [0, 0, 0xFF, 1, 0xFF, 0x7F, 0x81, 0] = .error (.chipsetError 0x7F) := by decide
/-- the response that was accepted before the repair (DCS one too small, postamble 01) -/
example : pnAccept 0 [0, 0, 0xFF, 5, 0xFB, 0xD5, 1, 0x34, 0x35, 0x36, 0x8A, 1] = .error (.io 5) := by decide
example : acrAccept 0 [0x80, 5, 0, 0, 0, 0, 0, 0, 0, 0, 0xD5, 1, 0x77, 0x90, 0] = .ok [0x77] := by decide
example : checkCrcA (flipBit (addCrcA [0x12, 0x34]) 1 3) = .ok false := by decide +kernel
example : addCrcA [0x00, 0x00] = [0x00, 0x00, 0xA0, 0x1E] := by decide +kernel  -- ISO/IEC 14443-3 Annex B example
example : addCrcA [0x12, 0x34] = [0x12, 0x34, 0x26, 0xCF] := by decide +kernel  -- ISO/IEC 14443-3 Annex B example
example : addCrcB [0x00, 0x00, 0x00] = [0x00, 0x00, 0x00, 0xCC, 0xC6] := by decide +kernel  -- Annex B example
example : addCrcB [0x0F, 0xAA, 0xFF] = [0x0F, 0xAA, 0xFF, 0xFC, 0xD1] := by decide +kernel  -- Annex B example

end NfcVerif.C14
