import NfcVerif.Props.ExcFlow
/-!
# Exception flow, instance theorems: C06 / C07 / C09: SNEP and handover clients

Re-checked on the regenerated `Gen/ExcFlow.lean` (see `Props/ExcFlow.lean` for what `Only` / `Can` mean).

Layer boundary (assumption table), the same as for the server threads in `Props/ExcFlowLlc.lean`: the socket API
raises `nfc.llcp.Error` only (`Props/ExcFlowSock.lean` proves this of the code up to the residual named there);
ndeflib raises `DecodeError` / `ValueError` when decoding and `EncodeError` when encoding.  Translated:
`nfc/snep/client.py` (`send_request`, `recv_response`, every method of `SnepClient`) and `nfc/handover/client.py`
(every method of `HandoverClient`).
-/
namespace NfcVerif.ExcFlowProps
open NfcVerif.ExcFlow NfcVerif.Gen.ClassTree NfcVerif.Gen.ExcFlow

/-! ## C06 / C07 / C09: SNEP and handover clients -/

def clientsOnly : List (Site × List Cls) := [
  (Site.fn_snep_client_send_request, [Cls.llcp_err_Error]),
  (Site.fn_snep_client_recv_response, [Cls.llcp_err_Error]),
  (Site.fn_snep_client_connect, [Cls.llcp_err_Error]),
  (Site.fn_snep_client_close, []),
  (Site.fn_snep_client___enter__, [Cls.llcp_err_Error]),
  (Site.fn_snep_client___exit__, []),
  (Site.fn_snep_client_put_octets, [Cls.llcp_err_Error, Cls.snep_client_SnepError]),
  (Site.fn_snep_client_get_octets, [Cls.llcp_err_Error, Cls.snep_client_SnepError]),
  (Site.fn_snep_client_put_records, [Cls.llcp_err_Error, Cls.snep_client_SnepError, Cls.ndef_EncodeError]),
  (Site.fn_snep_client_get_records, [Cls.llcp_err_Error, Cls.snep_client_SnepError, Cls.ndef_EncodeError, Cls.ndef_DecodeError,
    Cls.ValueError]),
  (Site.fn_handover_client_connect, [Cls.llcp_err_Error]),
  (Site.fn_handover_client_close, []),
  (Site.fn_handover_client___enter__, [Cls.llcp_err_Error]),
  (Site.fn_handover_client___exit__, []),
  (Site.fn_handover_client_send_records, [Cls.llcp_err_Error]),
  (Site.fn_handover_client_send_octets, [Cls.llcp_err_Error]),
  (Site.fn_handover_client_recv_records, [Cls.llcp_err_Error]),
  (Site.fn_handover_client_recv_octets, [Cls.llcp_err_Error])]
def clientsNever : List (Site × List Cls) := [
  (Site.fn_handover_client_recv_records, [Cls.ndef_DecodeError, Cls.ValueError, Cls.ndef_EncodeError]),
  (Site.fn_handover_client_recv_octets, [Cls.ndef_DecodeError, Cls.ValueError]),
  (Site.fn_handover_client_send_records, [Cls.ndef_EncodeError]),
  (Site.fn_snep_client_put_octets, [Cls.ndef_DecodeError, Cls.ndef_EncodeError, Cls.ValueError]),
  (Site.fn_snep_client_get_octets, [Cls.ndef_DecodeError, Cls.ndef_EncodeError, Cls.ValueError])]
def clientsCan : List (Site × Cls) := [
  (Site.fn_snep_client_put_octets, Cls.snep_client_SnepError),
  (Site.fn_snep_client_get_octets, Cls.snep_client_SnepError),
  (Site.fn_snep_client_put_octets, Cls.llcp_err_Error),
  (Site.fn_snep_client_connect, Cls.llcp_err_ConnectRefused),
  (Site.fn_snep_client_put_records, Cls.ndef_EncodeError),
  (Site.fn_snep_client_get_records, Cls.ndef_DecodeError),
  (Site.fn_snep_client_get_records, Cls.ValueError),
  (Site.fn_handover_client_connect, Cls.llcp_err_ConnectRefused),
  (Site.fn_handover_client_recv_records, Cls.llcp_err_Error)]
/-- every statement of this module, checked with one evaluation of the summary table -/
theorem clientsAll_ok : checkAll world table prog clientsOnly clientsNever clientsCan = true := by decide +kernel
theorem clientsOnly_ok : checkOnly world table prog clientsOnly = true := (checkAll_split clientsAll_ok).1
theorem clientsNever_ok : checkNever world table prog clientsNever = true := (checkAll_split clientsAll_ok).2.1
theorem clientsCan_ok : checkCan world table prog clientsCan = true := (checkAll_split clientsAll_ok).2.2

/-- what leaves each function of the two client modules (the lists are in `clientsOnly`) -/
theorem clients_escape : ∀ fa ∈ clientsOnly, Only fa.1 fa.2 := only_all clientsOnly_ok

/-- SNEP client: `put_octets` / `get_octets` raise `nfc.llcp.Error` (the connection) or the documented `SnepError`
(a response code other than Success) and nothing else; `put_records` adds the `EncodeError` of encoding the
argument; `get_records` also the `DecodeError` / `ValueError` of decoding the server's message - documented as
"same as `list(ndef.message_decoder(rcvd_octets))`", i.e. the caller's to handle (`snep_get_records_decode_errors`). -/
theorem snep_client_escapes :
    Only Site.fn_snep_client_put_octets [Cls.llcp_err_Error, Cls.snep_client_SnepError] ∧
    Only Site.fn_snep_client_get_octets [Cls.llcp_err_Error, Cls.snep_client_SnepError] ∧
    Only Site.fn_snep_client_put_records [Cls.llcp_err_Error, Cls.snep_client_SnepError, Cls.ndef_EncodeError] ∧
    Only Site.fn_snep_client_get_records [Cls.llcp_err_Error, Cls.snep_client_SnepError, Cls.ndef_EncodeError,
      Cls.ndef_DecodeError, Cls.ValueError] ∧
    Only Site.fn_snep_client_connect [Cls.llcp_err_Error] ∧ Only Site.fn_snep_client_close [] :=
  ⟨escapesOnly_of_checkOnly tree_ordered clientsOnly_ok (by decide), escapesOnly_of_checkOnly tree_ordered clientsOnly_ok (by decide),
   escapesOnly_of_checkOnly tree_ordered clientsOnly_ok (by decide), escapesOnly_of_checkOnly tree_ordered clientsOnly_ok (by decide),
   escapesOnly_of_checkOnly tree_ordered clientsOnly_ok (by decide), escapesOnly_of_checkOnly tree_ordered clientsOnly_ok (by decide)⟩
/-- the octet-level calls never raise an ndeflib class: they do not decode or encode -/
theorem snep_client_octets_no_ndef_error :
    NeverEscapes world table prog Site.fn_snep_client_put_octets [Cls.ndef_DecodeError, Cls.ndef_EncodeError, Cls.ValueError] ∧
    NeverEscapes world table prog Site.fn_snep_client_get_octets [Cls.ndef_DecodeError, Cls.ndef_EncodeError, Cls.ValueError] :=
  ⟨neverEscapes_of_checkNever tree_ordered clientsNever_ok (by decide),
   neverEscapes_of_checkNever tree_ordered clientsNever_ok (by decide)⟩
/-- non-vacuity: the documented `SnepError` is raised; the temporary connection fails with `ConnectRefused`
(absorbed by `put_octets` / `get_octets` only when raised by `connect`) -/
theorem snep_client_can_fail : Can Site.fn_snep_client_put_octets Cls.snep_client_SnepError ∧
    Can Site.fn_snep_client_get_octets Cls.snep_client_SnepError ∧ Can Site.fn_snep_client_put_octets Cls.llcp_err_Error ∧
    Can Site.fn_snep_client_connect Cls.llcp_err_ConnectRefused ∧ Can Site.fn_snep_client_put_records Cls.ndef_EncodeError :=
  ⟨canEscape_of_checkCan tree_ordered clientsCan_ok (by decide), canEscape_of_checkCan tree_ordered clientsCan_ok (by decide),
   canEscape_of_checkCan tree_ordered clientsCan_ok (by decide), canEscape_of_checkCan tree_ordered clientsCan_ok (by decide),
   canEscape_of_checkCan tree_ordered clientsCan_ok (by decide)⟩
/-- C07 ("SNEP ... fragments"): a response message that does not decode leaves `get_records` as
`ndef.DecodeError` / `ValueError` (the decoding of the peer's octets is outside every handler) -/
theorem snep_get_records_decode_errors : Can Site.fn_snep_client_get_records Cls.ndef_DecodeError ∧
    Can Site.fn_snep_client_get_records Cls.ValueError :=
  ⟨canEscape_of_checkCan tree_ordered clientsCan_ok (by decide), canEscape_of_checkCan tree_ordered clientsCan_ok (by decide)⟩

/-- Handover client: only `nfc.llcp.Error` leaves any method.  In particular `recv_records` - the subject of the
C07 findings `handover-client-recv-ValueError` and `handover-client-recv-DecodeError`, repaired in /repo by
"fix: handover client returns no records for an incomplete or undecodable message" - absorbs what
`ndef.message_decoder` raises for the peer's octets (`handover_client_decoder_raises`: the assumption row is
not empty), `send_records` absorbs the `EncodeError`.  (`handover-client-recv-TypeError` was the `TypeError` of
`binascii.hexlify(None)`: a data operation, outside this analysis.) -/
theorem handover_client_escapes : ∀ f ∈ [Site.fn_handover_client_connect, Site.fn_handover_client___enter__,
    Site.fn_handover_client_send_records, Site.fn_handover_client_send_octets, Site.fn_handover_client_recv_records,
    Site.fn_handover_client_recv_octets], Only f [Cls.llcp_err_Error] := by
  intro f hf
  simp only [List.mem_cons, List.not_mem_nil, or_false] at hf
  rcases hf with h | h | h | h | h | h <;> subst h <;> exact escapesOnly_of_checkOnly tree_ordered clientsOnly_ok (by decide)
theorem handover_client_no_ndef_error :
    NeverEscapes world table prog Site.fn_handover_client_recv_records [Cls.ndef_DecodeError, Cls.ValueError, Cls.ndef_EncodeError] ∧
    NeverEscapes world table prog Site.fn_handover_client_recv_octets [Cls.ndef_DecodeError, Cls.ValueError] ∧
    NeverEscapes world table prog Site.fn_handover_client_send_records [Cls.ndef_EncodeError] :=
  ⟨neverEscapes_of_checkNever tree_ordered clientsNever_ok (by decide),
   neverEscapes_of_checkNever tree_ordered clientsNever_ok (by decide),
   neverEscapes_of_checkNever tree_ordered clientsNever_ok (by decide)⟩
/-- non-vacuity: the decoder sites of `recv_records` / `recv_octets` are assumed to raise `DecodeError` and `ValueError`,
the encoder site of `send_records` `EncodeError`; the connection does fail -/
theorem handover_client_decoder_raises :
    table.lookup Site.handover_client_recv_records_ndef_message_decoder = some [Cls.ndef_DecodeError, Cls.ValueError] ∧
    table.lookup Site.handover_client_recv_octets_ndef_message_decoder = some [Cls.ndef_DecodeError, Cls.ValueError] ∧
    table.lookup Site.handover_client_send_records_ndef_message_encoder = some [Cls.ndef_EncodeError] ∧
    Can Site.fn_handover_client_connect Cls.llcp_err_ConnectRefused ∧ Can Site.fn_handover_client_recv_records Cls.llcp_err_Error :=
  ⟨by decide +kernel, by decide +kernel, by decide +kernel,
   canEscape_of_checkCan tree_ordered clientsCan_ok (by decide), canEscape_of_checkCan tree_ordered clientsCan_ok (by decide)⟩

end NfcVerif.ExcFlowProps
