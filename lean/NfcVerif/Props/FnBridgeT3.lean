import NfcVerif.Gen.FnT3
import NfcVerif.Model.T3
import NfcVerif.Model.AdvT34
import NfcVerif.Model.T3Emu
import NfcVerif.Lemmas.FnBridgePdu
namespace NfcVerif.FnBridge.T3
open NfcVerif NfcVerif.PyFn NfcVerif.FnBridge.Pdu

theorem len16 {l : Bytes} (h : l.length = 16) :
    ∃ b0 b1 b2 b3 b4 b5 b6 b7 b8 b9 b10 b11 b12 b13 b14 b15,
      l = [b0, b1, b2, b3, b4, b5, b6, b7, b8, b9, b10, b11, b12, b13, b14, b15] := by
  match l, h with
  | [b0, b1, b2, b3, b4, b5, b6, b7, b8, b9, b10, b11, b12, b13, b14, b15], _ =>
    exact ⟨b0, b1, b2, b3, b4, b5, b6, b7, b8, b9, b10, b11, b12, b13, b14, b15, rfl⟩

/-- the decoded attribute block as the values the cut returns (fields, then capacity and the two flags) -/
def attrTup (a : T3.Attr) : Int × Int × Int × Int × Int × Int × Int × Int × Bool × Bool :=
  ((a.ver : Int), (a.nbr : Int), (a.nbw : Int), (a.nmaxb : Int), (a.writef : Int), (a.rwflag : Int), (a.ln : Int),
   ((a.nmaxb * 16 : Nat) : Int), decide (a.rwflag ≠ 0 ∧ a.nbw > 0), decide (a.writef = 0 ∧ a.nbr > 0))

theorem attr_decode_bridge (d : Bytes) (h : d.length ≤ 16) :
    Gen.Fn.t3_attr_decode (some d) = (T3.decodeAttr d >>= fun o => .ok (o.map attrTup)) := by
  unfold Gen.Fn.t3_attr_decode
  simp only []
  by_cases h16 : d.length = 16
  · obtain ⟨b0, b1, b2, b3, b4, b5, b6, b7, b8, b9, b10, b11, b12, b13, b14, b15, rfl⟩ := len16 h16
    simp [T3.decodeAttr, slice, clampBound, needExact, PyFn.len, ube, beNat, PyFn.sum, PyFn.ints, attrTup]
    have hc : ((b0 : Int) + b1 + b2 + b3 + b4 + b5 + b6 + b7 + b8 + b9 + b10 + b11 + b12 + b13 = (b14 : Int) * 256 + b15)
        ↔ (b0 + b1 + b2 + b3 + b4 + b5 + b6 + b7 + b8 + b9 + b10 + b11 + b12 + b13 = b14 * 256 + b15) := by omega
    simp only [hc]
    split
    · simp [attrTup]
    · simp
  · have hlt : d.length < 16 := by omega
    have hm : T3.decodeAttr d = .error .struct := by
      unfold T3.decodeAttr
      split
      · simp at hlt
      · rfl
    rw [hm]
    have hsl : slice d 14 16 = sliceN d 14 16 := slice_nat d 14 16
    have hs : (slice d 14 16).length < 2 := by
      rw [hsl]; simp [sliceN]; omega
    have : PyFn.needExact (slice d 14 16) 2 = .error .struct := by
      have := needExact_nat (slice d 14 16) 2
      simp only [show ((2 : Nat) : Int) = 2 from rfl] at this
      rw [this, if_neg (by omega)]
    rw [this]; rfl

/-- block 0 could not be verified (`read_from_ndef_service` gave None): no attributes, like a checksum error -/
theorem attr_decode_none : Gen.Fn.t3_attr_decode none = .ok none := rfl

theorem packField_Ibe (n : Nat) : packField .Ibe (n : Int) = if n ≥ 4294967296 then .error .struct else .ok (toBE 4 n) := by
  unfold packField
  by_cases h : n ≥ 4294967296
  · have : ((n : Int) < 0 ∨ (n : Int) ≥ 256 ^ Fmt.Ibe.size) := by simp [Fmt.size]; omega
    simp [this, h]
  · have : ¬ ((n : Int) < 0 ∨ (n : Int) ≥ 256 ^ Fmt.Ibe.size) := by simp [Fmt.size]; omega
    simp [this, h]

theorem setB_nat (l : Bytes) (i v : Nat) (hi : i < l.length) (hv : v < 256) :
    PyFn.setB l (i : Int) (v : Int) = .ok (l.set i v) := by
  unfold PyFn.setB
  have h0 : ¬ ((i : Int) < 0) := by omega
  simp only [h0, if_false, false_or]
  have h1 : ¬ ((i : Int) ≥ (l.length : Int)) := by omega
  have h2 : ¬ ((v : Int) < 0 ∨ (v : Int) > 255) := by omega
  rw [if_neg h1, if_neg h2]; simp

theorem attr_encode_bridge (a : T3.Attr) (h1 : a.ver < 256) (h2 : a.nbr < 256) (h3 : a.nbw < 256)
    (h4 : a.nmaxb < 65536) (h5 : a.writef < 256) (h6 : a.rwflag < 256) (h7 : a.ln < 4294967296) :
    Gen.Fn.t3_attr_encode a.ver a.nbr a.nbw a.nmaxb a.writef a.rwflag a.ln = .ok (T3.encodeAttr a) := by
  unfold Gen.Fn.t3_attr_encode T3.encodeAttr
  obtain ⟨ver, nbr, nbw, nmaxb, writef, rwflag, ln⟩ := a
  simp only at h1 h2 h3 h4 h5 h6 h7 ⊢
  have z : PyFn.zeros 16 = .ok [0, 0, 0, 0, 0, 0, 0, 0, 0, 0, 0, 0, 0, 0, 0, 0] := rfl
  rw [z]
  simp only [Py.bind_ok]
  rw [show (0 : Int) = ((0 : Nat) : Int) from rfl, setB_nat _ 0 ver (by simp) h1]
  simp only [Py.bind_ok, List.set_cons_zero]
  rw [show (1 : Int) = ((1 : Nat) : Int) from rfl, setB_nat _ 1 nbr (by simp) h2]
  simp only [Py.bind_ok, List.set_cons_succ, List.set_cons_zero]
  rw [show (2 : Int) = ((2 : Nat) : Int) from rfl, setB_nat _ 2 nbw (by simp) h3]
  simp only [Py.bind_ok, List.set_cons_succ, List.set_cons_zero]
  rw [pack_Hbe, if_neg (by omega)]
  simp only [Py.bind_ok]
  have s1 : setSlice [ver, nbr, nbw, 0, 0, 0, 0, 0, 0, 0, 0, 0, 0, 0, 0, 0] 3 5 [nmaxb / 256, nmaxb % 256]
      = [ver, nbr, nbw, nmaxb / 256, nmaxb % 256, 0, 0, 0, 0, 0, 0, 0, 0, 0, 0, 0] := by
    simp [setSlice, clampBound]
  rw [s1]
  rw [show (9 : Int) = ((9 : Nat) : Int) from rfl, setB_nat _ 9 writef (by simp) h5]
  simp only [Py.bind_ok, List.set_cons_succ, List.set_cons_zero]
  rw [show (10 : Int) = ((10 : Nat) : Int) from rfl, setB_nat _ 10 rwflag (by simp) h6]
  simp only [Py.bind_ok, List.set_cons_succ, List.set_cons_zero, PyFn.pack, packField_Ibe]
  rw [if_neg (by omega)]
  simp only [Py.bind_ok, toBE, List.nil_append, List.cons_append]
  have s2 : slice [ln / 256 / 256 / 256 % 256, ln / 256 / 256 % 256, ln / 256 % 256, ln % 256] ((1 : Nat) : Int) 4
      = [ln / 256 / 256 % 256, ln / 256 % 256, ln % 256] := by
    simp [slice, clampBound]
  rw [s2]
  have s3 : setSlice [ver, nbr, nbw, nmaxb / 256, nmaxb % 256, 0, 0, 0, 0, writef, rwflag, 0, 0, 0, 0, 0] 11 14
        [ln / 256 / 256 % 256, ln / 256 % 256, ln % 256]
      = [ver, nbr, nbw, nmaxb / 256, nmaxb % 256, 0, 0, 0, 0, writef, rwflag, ln / 256 / 256 % 256, ln / 256 % 256, ln % 256, 0, 0] := by
    simp [setSlice, clampBound]
  rw [s3]
  have s4 : PyFn.sum (PyFn.ints (slice [ver, nbr, nbw, nmaxb / 256, nmaxb % 256, 0, 0, 0, 0, writef, rwflag,
        ln / 256 / 256 % 256, ln / 256 % 256, ln % 256, 0, 0] ((0 : Nat) : Int) 14))
      = ((ver + nbr + nbw + nmaxb / 256 + nmaxb % 256 + writef + rwflag + ln / 65536 % 256 + ln / 256 % 256 + ln % 256 : Nat) : Int) := by
    simp [slice, clampBound, PyFn.sum, PyFn.ints]
    omega
  rw [s4, packField_Hbe, if_neg (by omega)]
  simp [setSlice, clampBound]
  omega

/-- the checks of `_read_ndef_data` between the attribute read and the block loop, as `AdvT34.readNdef3` has them -/
def readPlan (ver ln nmaxb nbr : Nat) : Option (Nat × Nat) :=
  if ver / 16 ≠ 1 then none
  else if ln > nmaxb * 16 then none
  else
    let last := 1 + (ln + 15) / 16
    let n := min nbr 15
    if n = 0 then none else some (last, n)

theorem read_plan_bridge (ver ln nmaxb nbr : Nat) :
    Gen.Fn.t3_read_plan ver ln nmaxb nbr = (readPlan ver ln nmaxb nbr).map (fun p => ((p.1 : Int), (p.2 : Int))) := by
  unfold Gen.Fn.t3_read_plan readPlan
  py_bits
  simp only [PyFn.imin, lit_cast, Int.ofNat_lt, Int.natCast_inj]
  have hm : min nbr 15 = if 15 < nbr then 15 else nbr := by split <;> omega
  rw [hm]
  by_cases h1 : ver / 2 ^ 4 = 1
  · have h1' : ¬ ver / 16 ≠ 1 := by simpa using h1
    by_cases h2 : nmaxb * 16 < ln
    · simp [h1, h1', h2]
    · by_cases h4 : 15 < nbr
      · simp [h1, h1', h2, h4]
      · by_cases h3 : nbr = 0
        · simp [h1, h1', h2, h3]
        · simp [h1, h1', h2, h3, h4]
  · have h1' : ver / 16 ≠ 1 := by simpa using h1
    simp [h1, h1']

open Adv in
/-- `readNdef3` with its checks between attribute read and block loop replaced by `readPlan` -/
def readNdef3P (t : Adv.Tag) (s : Adv.S3) : Py (Option Ndef) × Adv.S3 :=
  let p : Py Unit × Adv.S3 := if s.sys ≠ 0x12FC then Adv.polling3 t s else (.ok (), s)
  match p with
  | (.error e, s1) => if isTagCmd e then (.ok none, s1) else (.error e, s1)
  | (.ok _, s1) =>
    match Adv.read3 t [0] s1 with
    | (.error e, s2) => if isTagCmd e then (.ok none, s2) else (.error e, s2)
    | (.ok d, s2) =>
      match Adv.parseAttr d with
      | .error e => (.error e, s2)
      | .ok none => (.ok none, s2)
      | .ok (some a) =>
        match readPlan a.ver a.ln a.nmaxb a.nbr with
        | none => (.ok none, s2)
        | some (last, nbr) =>
            match Adv.blockLoop3 t last nbr last 1 [] s2 with
            | (.error e, s3) => (.error e, s3)
            | (.ok none, s3) => (.ok none, s3)
            | (.ok (some data), s3) =>
              (.ok (some { length := (data.take a.ln).length, cap := (a.nmaxb * 16 : Nat),
                           readable := decide (a.writef = 0 ∧ a.nbr > 0),
                           writeable := decide (a.rwflag ≠ 0 ∧ a.nbw > 0),
                           octets := data.take a.ln, addrs := List.range' 16 (data.take a.ln).length,
                           lo := 16, hi := 16 + a.nmaxb * 16 }), s3)

theorem readNdef3_plan (t : Adv.Tag) (s : Adv.S3) : Adv.readNdef3 t s = readNdef3P t s := by
  unfold Adv.readNdef3 readNdef3P
  simp only []
  generalize (if s.sys ≠ 0x12FC then Adv.polling3 t s else (Except.ok (), s)) = p
  rcases p with ⟨e | u, s1⟩
  · rfl
  · simp only []
    generalize Adv.read3 t [0] s1 = q
    rcases q with ⟨e | d, s2⟩
    · rfl
    · simp only []
      generalize Adv.parseAttr d = r
      rcases r with e | (_ | a)
      · rfl
      · rfl
      · simp only []
        unfold readPlan
        by_cases h1 : a.ver / 16 ≠ 1
        · rw [if_pos h1, if_pos h1]
        · rw [if_neg h1, if_neg h1]
          by_cases h2 : a.ln > a.nmaxb * 16
          · rw [if_pos h2, if_pos h2]
          · rw [if_neg h2, if_neg h2]
            by_cases h3 : min a.nbr 15 = 0
            · rw [if_pos h3, if_pos h3]
            · rw [if_neg h3, if_neg h3]
              rfl

theorem read_batch_end_bridge (i nbr last : Nat) :
    Gen.Fn.t3_read_batch_end i nbr last = ((min (i + nbr) last : Nat) : Int) := by
  unfold Gen.Fn.t3_read_batch_end PyFn.imin
  split <;> omega

theorem write_plan_bridge (data : Bytes) :
    Gen.Fn.t3_write_plan data = .ok (((1 + (data.length + 15) / 16 : Nat) : Int), T3.padded data) := by
  unfold Gen.Fn.t3_write_plan T3.padded T34.zeros PyFn.zeros
  have e : (-(PyFn.len data)) % 16 = (((16 - data.length % 16) % 16 : Nat) : Int) := by rw [len_eq]; omega
  rw [e]
  have h0 : ¬ ((((16 - data.length % 16) % 16 : Nat) : Int) < 0) := by omega
  simp only [h0, if_false, Py.bind_ok, Int.toNat_natCast, len_eq]
  congr 2

/-- one write command of the loop: blocks `i .. lb-1` and their data, as `T3.dataCmds` builds them (`i ≥ 1`) -/
theorem write_batch_bridge (i last nbw : Nat) (data : Bytes) (hi : 1 ≤ i) (hl : i < last) :
    Gen.Fn.t3_write_batch i data last nbw
      = (((min (i + nbw) last : Nat) : Int), sliceN data ((i - 1) * 16) ((min (i + nbw) last - 1) * 16)) := by
  unfold Gen.Fn.t3_write_batch
  have e1 : PyFn.imin ((i : Int) + nbw) last = ((min (i + nbw) last : Nat) : Int) := by
    unfold PyFn.imin; split <;> omega
  simp only [e1]
  have e2 : ((i : Int) - 1) * 16 = (((i - 1) * 16 : Nat) : Int) := by omega
  have e3 : (((min (i + nbw) last : Nat) : Int) - 1) * 16 = (((min (i + nbw) last - 1) * 16 : Nat) : Int) := by omega
  rw [e2, e3, slice_nat]

/-! ## emulation: `Type3TagEmulation.process_command` -/
section emu
open NfcVerif.T3Emu

/-- the response octets of the model's read / write handlers: what the translated dispatch gets for its two
function parameters (`read_without_encryption`, `write_without_encryption`) -/
def rdOf (e : Emu) (d : Bytes) : Py Bytes := emuRead e d >>= fun r => .ok r.1
def wrOf (e : Emu) (d : Bytes) : Py Bytes := emuWrite e d >>= fun r => .ok r.1

theorem ints_inj (a b : Bytes) : ints a = ints b ↔ a = b := by
  constructor
  · intro h
    induction a generalizing b with
    | nil => cases b <;> simp_all [ints]
    | cons x xs ih =>
      cases b with
      | nil => simp [ints] at h
      | cons y ys =>
        simp only [ints_cons, List.cons.injEq, Int.natCast_inj] at h
        rw [h.1, ih ys h.2]
  · intro h; rw [h]

theorem hdr (k c : Nat) (rsp : Bytes) (hc : c < 256) :
    mkBytes [((k : Nat) : Int) + len rsp, (c : Int)]
      = if k + rsp.length > 255 then .error .value else .ok [k + rsp.length, c] := by
  rw [len_eq]
  by_cases h : k + rsp.length > 255
  · have : ((k : Int) + (rsp.length : Int) < 0 ∨ (k : Int) + (rsp.length : Int) > 255) := by omega
    simp [mkBytes, h, this]
  · have e : (k : Int) + (rsp.length : Int) = ((k + rsp.length : Nat) : Int) := by omega
    rw [e, mkBytes_two _ _ (by omega) hc, if_neg h]

theorem respond_eq (e : Emu) (c : Nat) (rsp : Bytes) (hc : c < 256) :
    (mkBytes [(10 : Int) + len rsp, (c : Int)] >>= fun t => Except.ok (some ((t ++ e.idm) ++ rsp)))
      = (respond e c rsp >>= fun r => Except.ok (some r)) := by
  have := hdr 10 c rsp hc
  rw [show ((10 : Nat) : Int) = 10 from rfl] at this
  rw [this]
  unfold respond
  split <;> simp

theorem process_bridge (e : Emu) (cmd : Bytes) (hne : cmd ≠ []) :
    Gen.Fn.t3emu_process cmd e.idm e.pmm e.sys (rdOf e) (wrOf e)
      = (processCommand e cmd >>= fun r => .ok r.1) := by
  unfold Gen.Fn.t3emu_process processCommand
  obtain ⟨c0, rest, rfl⟩ := List.exists_cons_of_ne_nil hne
  have g0 : getB (c0 :: rest) 0 = .ok (c0 : Int) := getB_zero _ _
  have i0 : idxN (c0 :: rest) 0 = .ok c0 := rfl
  rw [g0, i0]
  simp only [ne_eq, reduceCtorEq, not_false_eq_true, not_true_eq_false, if_false, Py.bind_ok, len_eq, Int.natCast_inj, decide_eq_true_eq]
  by_cases hl : (c0 :: rest).length = c0
  · have hl' : ¬ ¬ (c0 :: rest).length = c0 := fun h => h hl
    rw [if_neg hl', if_neg hl']
    generalize c0 :: rest = cmd
    have s1 : slice cmd 0 4 = cmd.take 4 := by
      have := slice_nat cmd 0 4; simpa [sliceN] using this
    have s2 : slice cmd 2 10 = sliceN cmd 2 10 := slice_nat cmd 2 10
    have s3 : PyFn.sliceFrom cmd 2 = cmd.drop 2 := sliceFrom_ofNat cmd 2
    have s4 : PyFn.sliceFrom cmd 10 = cmd.drop 10 := sliceFrom_ofNat cmd 10
    have c1 : ints (cmd.take 4) = [6, 0, 255, 255] ↔ cmd.take 4 = [6, 0, 255, 255] :=
      ints_inj (cmd.take 4) [6, 0, 255, 255]
    have c2 : ints (cmd.take 4) = [6, 0] ++ ints e.sys ↔ cmd.take 4 = [6, 0] ++ e.sys :=
      by have := ints_inj (cmd.take 4) ([6, 0] ++ e.sys); simpa [ints] using this
    rw [s1, s2, s3, s4]
    by_cases hp : cmd.take 4 = [6, 0, 255, 255] ∨ cmd.take 4 = [6, 0] ++ e.sys
    · rw [if_pos (hp.imp c1.mpr c2.mpr), if_pos hp]
      unfold Gen.Fn.t3emu_polling
      have g2 : getB (cmd.drop 2) 2 = _ := getB_nat (cmd.drop 2) 2
      rw [g2, idxN_nat]
      by_cases h2 : 2 < (cmd.drop 2).length
      · rw [if_pos h2, if_pos h2]
        simp only [Py.bind_ok]
        have k1 : ((at0 (List.drop 2 cmd) 2 : Nat) : Int) = 1 ↔ at0 (List.drop 2 cmd) 2 = 1 := by omega
        simp only [k1]
        generalize (if at0 (List.drop 2 cmd) 2 = 1 then e.idm ++ e.pmm ++ e.sys else e.idm ++ e.pmm) = rsp
        have := hdr 2 1 rsp (by omega)
        rw [show ((2 : Nat) : Int) = 2 from rfl, show ((1 : Nat) : Int) = 1 from rfl, len_eq] at this
        rw [this]
        split <;> rfl
      · rw [if_neg h2, if_neg h2]; rfl
    · rw [if_neg (fun h => hp (h.imp c1.mp c2.mp)), if_neg hp]
      by_cases hi : sliceN cmd 2 10 = e.idm
      · rw [if_pos hi, if_pos hi]
        have g1 : getB cmd 1 = _ := getB_nat cmd 1
        rw [g1, idxN_nat]
        by_cases h1 : 1 < cmd.length
        · rw [if_pos h1, if_pos h1]
          simp only [Py.bind_ok]
          generalize at0 cmd 1 = code
          have k4 : ((code : Int) = 4) ↔ code = 4 := by omega
          have k6 : ((code : Int) = 6) ↔ code = 6 := by omega
          have k8 : ((code : Int) = 8) ↔ code = 8 := by omega
          have k12 : ((code : Int) = 12) ↔ code = 12 := by omega
          simp only [k4, k6, k8, k12]
          have r5 := respond_eq e 5 [0] (by omega)
          have r13 := respond_eq e 13 ([1] ++ e.sys) (by omega)
          rw [len_eq] at r5 r13
          by_cases e4 : code = 4
          · rw [if_pos e4, if_pos e4]
            show (mkBytes [0] >>= fun t7 => mkBytes [10 + ((List.length t7 : Nat) : Int), 5] >>= fun t8 => Except.ok (some (t8 ++ e.idm ++ t7))) = _
            show (mkBytes [10 + (([0] : Bytes).length : Int), ((5 : Nat) : Int)] >>= fun t8 => Except.ok (some (t8 ++ e.idm ++ [0]))) = _
            rw [r5]
            cases respond e 5 [0] <;> rfl
          · rw [if_neg e4, if_neg e4]
            by_cases e6 : code = 6
            · rw [if_pos e6, if_pos e6]
              unfold rdOf
              cases emuRead e (List.drop 10 cmd) with
              | error x => rfl
              | ok x =>
                simp only [Py.bind_ok]
                have r7 := respond_eq e 7 x.1 (by omega)
                rw [len_eq] at r7
                show (mkBytes [10 + ((x.1.length : Nat) : Int), ((7 : Nat) : Int)] >>= fun t => Except.ok (some (t ++ e.idm ++ x.1))) = _
                rw [r7]
                cases respond e 7 x.1 <;> rfl
            · rw [if_neg e6, if_neg e6]
              by_cases e8 : code = 8
              · rw [if_pos e8, if_pos e8]
                unfold wrOf
                cases emuWrite e (List.drop 10 cmd) with
                | error x => rfl
                | ok x =>
                  simp only [Py.bind_ok]
                  have r9 := respond_eq e 9 x.1 (by omega)
                  rw [len_eq] at r9
                  show (mkBytes [10 + ((x.1.length : Nat) : Int), ((9 : Nat) : Int)] >>= fun t => Except.ok (some (t ++ e.idm ++ x.1))) = _
                  rw [r9]
                  cases respond e 9 x.1 <;> rfl
              · rw [if_neg e8, if_neg e8]
                by_cases e12 : code = 12
                · rw [if_pos e12, if_pos e12]
                  unfold Gen.Fn.t3emu_request_system_code
                  show (mkBytes [10 + ((([1] ++ e.sys : Bytes).length : Nat) : Int), ((13 : Nat) : Int)] >>= fun t => Except.ok (some (t ++ e.idm ++ ([1] ++ e.sys)))) = _
                  rw [r13]
                  cases respond e 13 ([1] ++ e.sys) <;> rfl
                · rw [if_neg e12, if_neg e12]; rfl
        · rw [if_neg h1, if_neg h1]; rfl
      · rw [if_neg hi, if_neg hi]; rfl
  · rw [if_pos hl, if_pos hl]
    rfl

/-- `process_command` = the model with the repair of F23, seen through its response: for every command, with the
model's own read / write handlers as the two callbacks -/
theorem process_command_bridge (e : Emu) (cmd : Bytes) :
    Gen.Fn.t3emu_process_command cmd e.idm e.pmm e.sys (rdOf e) (wrOf e)
      = (processCommandR true e cmd >>= fun r => .ok r.1) := by
  unfold Gen.Fn.t3emu_process_command processCommandR
  by_cases hne : cmd = []
  · subst hne
    simp [Gen.Fn.t3emu_process, processCommand, idxN, catchRet]
  · rw [process_bridge e cmd hne]
    cases processCommand e cmd with
    | ok r => rfl
    | error x => cases x <;> rfl

example : Gen.Fn.t3emu_process_command [6, 0, 0x12, 0xFC, 1, 0] [1,2,3,4,5,6,7,8] [9,9,9,9,9,9,9,9] [0x12, 0xFC]
    (fun _ => .error .index) (fun _ => .error .index)
    = .ok (some [20, 1, 1,2,3,4,5,6,7,8, 9,9,9,9,9,9,9,9, 0x12, 0xFC]) := by decide
example : Gen.Fn.t3emu_process_command [10, 6, 1,2,3,4,5,6,7,8] [1,2,3,4,5,6,7,8] [9,9,9,9,9,9,9,9] [0x12, 0xFC]
    (fun _ => .error .index) (fun _ => .error .index) = .ok none := by decide
example : Gen.Fn.t3emu_process_command [3, 6, 1] [1,2,3,4,5,6,7,8] [9,9,9,9,9,9,9,9] [0x12, 0xFC]
    (fun _ => .error .index) (fun _ => .error .index) = .ok none := by decide

/-- the attribute record of the adversarial reader model is the one of `Model/T3` -/
def toAdv (a : T3.Attr) : Adv.Attr :=
  { ver := a.ver, nbr := a.nbr, nbw := a.nbw, nmaxb := a.nmaxb, writef := a.writef, rwflag := a.rwflag, ln := a.ln }

theorem parseAttr_eq (d : Bytes) : Adv.parseAttr d = (T3.decodeAttr d >>= fun o => .ok (o.map toAdv)) := by
  unfold Adv.parseAttr T3.decodeAttr
  split
  · simp only []
    split <;> simp_all [toAdv]
  · rename_i h
    split
    · rename_i b0 b1 b2 b3 b4 b5 b6 b7 b8 b9 b10 b11 b12 b13 b14 b15
      exact absurd rfl (h b0 b1 b2 b3 b4 b5 b6 b7 b8 b9 b10 b11 b12 b13 b14 b15)
    · rfl
end emu

/-! ## non-vacuity -/
example : Gen.Fn.t3_attr_decode (some [0x10, 4, 1, 0, 13, 0, 0, 0, 0, 0, 1, 0, 0, 5, 0, 0x28])
    = .ok (some (16, 4, 1, 13, 0, 1, 5, 208, true, true)) := by rfl
example : Gen.Fn.t3_attr_decode (some [0x10, 4, 1, 0, 13, 0, 0, 0, 0, 0, 1, 0, 0, 5, 0, 0x29]) = .ok none := by rfl
example : Gen.Fn.t3_attr_decode (some [0x10, 4, 1]) = .error .struct := by rfl
example : Gen.Fn.t3_attr_encode 0x10 4 1 13 0 1 5 = .ok [0x10, 4, 1, 0, 13, 0, 0, 0, 0, 0, 1, 0, 0, 5, 0, 0x28] := by decide
example : Gen.Fn.t3_read_plan 0x10 5 13 4 = some (2, 4) := by decide
example : Gen.Fn.t3_read_plan 0x20 5 13 4 = none := by decide
example : Gen.Fn.t3_read_plan 0x10 209 13 4 = none := by decide
example : Gen.Fn.t3_read_plan 0x10 5 13 0 = none := by decide
example : Gen.Fn.t3_write_plan [1, 2, 3] = .ok (2, [1, 2, 3, 0, 0, 0, 0, 0, 0, 0, 0, 0, 0, 0, 0, 0]) := by decide
example : Gen.Fn.t3_write_batch 1 [1, 2, 3, 0, 0, 0, 0, 0, 0, 0, 0, 0, 0, 0, 0, 0] 2 4
    = (2, [1, 2, 3, 0, 0, 0, 0, 0, 0, 0, 0, 0, 0, 0, 0, 0]) := by decide

end NfcVerif.FnBridge.T3
