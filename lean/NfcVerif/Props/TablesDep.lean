import NfcVerif.Gen.Tables
import NfcVerif.Model.NfcDep
import NfcVerif.Model.Activate
/-!
Bridge theorems (constants of the source = constants of the models). `Gen/Tables.lean` is
regenerated from `/repo/src/nfc` by `harness/translate_tables.py` on every run of a check that
depends on it; each theorem is closed by kernel evaluation, so an edit of a constant in the
source breaks it.  One small module per model so that the checks stay independent.
-/
namespace NfcVerif.Tables
open NfcVerif

/-- every length-reduction tuple in dep.py is the table both NFC-DEP models use (C04, C19) -/
theorem lr_table_bridge :
    Gen.Tables.lrTables ≠ [] ∧
    Gen.Tables.lrTables.all (fun t => t == (List.range 4).map NfcDep.lrTable) = true ∧
    Gen.Tables.lrTables.all (fun t => t == (List.range 4).map Activate.lrTable) = true := by decide

/-- the PSL_REQ bit-rate tuple (C19) -/
theorem psl_brs_bridge :
    Gen.Tables.pslBrs = [[Activate.brsByte 0, Activate.brsByte 1, Activate.brsByte 2]] := by decide

end NfcVerif.Tables
