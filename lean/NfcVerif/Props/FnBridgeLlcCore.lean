import NfcVerif.Lemmas.FnBridgeLlcCore
import NfcVerif.Lemmas.FnBridgeTco
import NfcVerif.Gen.FnLlc
import NfcVerif.Model.Collect
import NfcVerif.Model.Term
/-!
# Bridge theorems, group LlcCore (`nfc/llcp/llc.py`, `nfc/llcp/tco.py` -> `Gen/FnLlcCore.lean` ->
`Model/FnLlcCoreRef.lean`, `Model/Collect.lean`, `Model/Term.lean`)

Loops and method bodies of the link controller and the transmission control objects (C05, C09, C10, C17,
C18).  Every `*_bridge` theorem holds for all inputs; `gen_*` theorems restate a property-relevant fact for the
regenerated definitions.  Effectful calls into other objects are parameters of the regenerated functions
(`Py Unit` / `Py (Option Int)` values and functions); the theorems quantify over them, so an exception
injected into one of them shows whether - and in which order - it is reached.

Encodings: PDU / socket objects are int tokens (0 = an object whose truth value is false), the condition
variables of a data link connection are `Term.Cv`.
-/
namespace NfcVerif.FnBridge.LlcCore
open NfcVerif NfcVerif.PyFn NfcVerif.FnLlcCoreRef

/-! ## `ServiceDiscovery.dequeue` (C10) -/

/-- an SNL PDU is built iff a response or a request is pending (the test of `Collect.Sd.dequeue`) -/
theorem sd_has_work_bridge (s : Collect.Sd) :
    Gen.Fn.lc_sd_has_work s.sdres.length s.sdreq.length = decide (s.sdres ≠ [] ∨ s.sdreq ≠ []) := by
  unfold Gen.Fn.lc_sd_has_work
  cases s.sdres <;> cases s.sdreq <;> simp <;> omega

example : Gen.Fn.lc_sd_has_work 0 2 = true := by decide

/-- one turn of the response loop (`llc_sd_res_cond` of group Llc is the loop condition): the popped answer goes
to the end of the PDU's list and four octets are paid -/
theorem sd_res_bridge (x : Int × Int) (q out : List (Int × Int)) (m : Int) :
    takeRes (x :: q) m out =
      if Gen.Fn.llc_sd_res_cond m then
        takeRes q (Gen.Fn.lc_sd_res_body m x out).1 (Gen.Fn.lc_sd_res_body m x out).2
      else (m, out, x :: q) := by
  unfold Gen.Fn.llc_sd_res_cond Gen.Fn.lc_sd_res_body
  by_cases h : m ≥ 4 <;> simp [takeRes, sdresSize, h]

example : takeRes [(1, 4), (2, 16)] 7 [] = (3, [(1, 4)], [(2, 16)]) := by decide

/-- the request loop makes one turn per request queued at its start -/
theorem sd_req_range_bridge (q : List (Int × Bytes)) : (Gen.Fn.lc_sd_req_range q).length = q.length := by
  unfold Gen.Fn.lc_sd_req_range PyFn.range
  simp [len_eq]

/-- one turn of the request loop: the regenerated body computes budget and PDU contents of the reference loop
(`llc_sd_req_skip` of group Llc is the test whose outcome also decides between `rotate(-1)` and `popleft()` - the
queue operations the cut leaves to `takeReq`).  A request taken is PAID: the budget of the next turn is smaller -/
theorem sd_req_bridge (k : Nat) (x : Int × Bytes) (q out : List (Int × Bytes)) (m : Int) :
    takeReq (k + 1) (x :: q) m out =
      if Gen.Fn.llc_sd_req_skip m x.2 then
        takeReq k (q ++ [x]) (Gen.Fn.lc_sd_req_body m x x out).1 (Gen.Fn.lc_sd_req_body m x x out).2
      else takeReq k q (Gen.Fn.lc_sd_req_body m x x out).1 (Gen.Fn.lc_sd_req_body m x x out).2 := by
  obtain ⟨tid, name⟩ := x
  unfold Gen.Fn.llc_sd_req_skip Gen.Fn.lc_sd_req_body
  simp only [takeReq, sdreqSize, len_eq]
  by_cases h : 3 + (name.length : Int) > m <;> simp [h]

example : takeReq 2 [(1, [1, 2, 3, 4]), (2, [5])] 6 [] = (2, [(2, [5])], [(1, [1, 2, 3, 4])]) := by decide

/-- the reference loop is the loop of `Model/Collect.lean` (which keeps name lengths and counts octets) -/
theorem takeReq_collect : ∀ (k : Nat) (q : List (Int × Bytes)) (m : Int) (out : List (Int × Bytes)) (acc : Nat),
    Collect.takeSdreq k (q.map reqEnc) m acc =
      (acc + (reqSum (takeReq k q m out).2.1 - reqSum out).toNat, (takeReq k q m out).2.2.map reqEnc,
       (takeReq k q m out).1) := by
  intro k
  induction k with
  | zero => intro q m out acc; simp [Collect.takeSdreq, takeReq]
  | succ k ih =>
    intro q m out acc
    cases q with
    | nil => simp [Collect.takeSdreq, takeReq]
    | cons x q =>
      simp only [List.map_cons, Collect.takeSdreq, takeReq, reqEnc, sdreqSize]
      by_cases h : 3 + (x.2.length : Int) > m
      · simp only [h, if_true]
        have := ih (q ++ [x]) m out acc
        simp only [List.map_append, List.map_cons, List.map_nil, reqEnc] at this
        exact this
      · simp only [h, if_false]
        have := ih q (m - (3 + (x.2.length : Int))) (out ++ [x]) (acc + (3 + x.2.length))
        rw [this]
        have a := (takeReq_inv k q (m - sdreqSize x.2) (out ++ [x])).1
        have b := takeReq_inv k q (m - sdreqSize x.2) (out ++ [x])
        rw [reqSum_append] at a
        have e : reqSum [x] = 3 + (x.2.length : Int) := by simp [reqSum, sdreqSize]
        simp only [sdreqSize] at a b ⊢
        have hle := b.2.2
        congr 1
        rw [reqSum_append, e]
        omega

/-- **C10** restated for the regenerated loop bodies (through `sd_res_bridge` / `sd_req_bridge`): the SNL PDU built
from a budget `miu ≥ 0` has an information field of at most `miu` octets -/
theorem gen_snl_within (sdres : List (Int × Int)) (sdreq : List (Int × Bytes)) (miu : Int) (h : 0 ≤ miu) :
    snlInfo (buildSnl sdres sdreq miu).1 (buildSnl sdres sdreq miu).2 ≤ miu :=
  buildSnl_within sdres sdreq miu h

example : buildSnl [(1, 4), (2, 16)] [(3, [1, 2, 3, 4]), (4, [5])] 12 = ([(1, 4), (2, 16)], [(4, [5])]) := by decide

/-! ## `LogicalLinkController.collect`: the aggregation loop (C10) -/

/-- the whole `while miu_size >= 0` loop with its inner pass is the reference `aggLoop`; the fuel bounds the
number of passes as in the reference (no Python run produces `outOfFuel`: every productive pass shrinks a queue) -/
theorem collect_agg_bridge (E : AggEnv) (saps : List Int) (fuel : Nat) (m : Int) (agg : List Int) :
    Gen.Fn.lc_collect_agg fuel m E.icv agg saps E.sendMiu E.doEnc E.enc E.agfLen E.deq =
      aggLoop E saps fuel (m, agg) := by
  unfold Gen.Fn.lc_collect_agg
  show (PyFn.whileC (ρ := Empty) fuel (m, agg) loopCond (loopBody E saps) >>= _) = _
  rw [whileC_loop]
  cases aggLoop E saps fuel (m, agg) with
  | error e => rfl
  | ok r => rfl

/-- **C10** restated: the regenerated aggregation never asks a service access point for a PDU with negative
room - whatever the access points would hand out then (a DM, an RR / RNR, an empty SNL PDU: the dequeue paths
that do not look at the size) cannot end up in the aggregate -/
theorem gen_collect_room (E : AggEnv) (d : Int → Int → Option Int) (h : ∀ m i, 0 ≤ m → E.deq m i = d m i)
    (saps : List Int) (fuel : Nat) (m : Int) (agg : List Int) :
    Gen.Fn.lc_collect_agg fuel m E.icv agg saps E.sendMiu E.doEnc E.enc E.agfLen E.deq =
      Gen.Fn.lc_collect_agg fuel m E.icv agg saps E.sendMiu E.doEnc E.enc E.agfLen d := by
  rw [collect_agg_bridge, aggLoop_room E d h saps fuel m agg]
  exact (collect_agg_bridge (withDeq E d) saps fuel m agg).symm

/-- two access points, room for one more PDU of 10 octets: the second one is not asked any more -/
example : Gen.Fn.lc_collect_agg 5 20 0 [7] [32, 33] 30 false id (fun l => 12 * l.length) (fun m _ => if m ≥ 0 then some 9 else some 5)
    = .ok (-9, [7, 9, 9]) := by decide

/-! ## `TransmissionControlObject` and the connection-less sockets (C10, C17) -/

/-- behind the pop: the PDU is handed out iff it fits (`tcoFit`: no budget = no test, budget 0 = test) -/
theorem tco_dequeue_tail_bridge (miu : Option Int) (icv : Int) (notify : Bool) (tok : Int) (name : String) (len hdr : Int) :
    Gen.Fn.lc_tco_dequeue_tail miu icv notify tok name len hdr =
      if tcoFit miu icv (decide (name = "UI" ∨ name = "I")) len hdr then some tok else none := by
  unfold Gen.Fn.lc_tco_dequeue_tail tcoFit
  cases miu with
  | none => simp
  | some m =>
    by_cases hn : name = "UI" ∨ name = "I"
    · simp only [hn, if_true, decide_true]
      by_cases h : len + icv - hdr > m
      · have : ¬ len + icv - hdr ≤ m := by omega
        simp [h, this]
      · have : len + icv - hdr ≤ m := by omega
        simp [h, this]
    · simp only [hn, if_false, decide_false]
      by_cases h : len - hdr > m
      · have : ¬ len - hdr ≤ m := by omega
        simp [h, this]
      · have : len - hdr ≤ m := by omega
        simp [h, this]

/-- against the model of C10: `Collect.tcoDequeue` leaves the head queued exactly when the regenerated tail says None -/
theorem tco_dequeue_collect (p : Collect.QPdu) (rest : List Collect.QPdu) (miu : Option Int) (icv : Nat) (notify : Bool) :
    Collect.tcoDequeue (p :: rest) miu icv =
      match Gen.Fn.lc_tco_dequeue_tail miu icv notify 1 (Tco.kindName p.kind) p.len p.hdr with
      | none => (none, p :: rest)
      | some _ => (some p, rest) := by
  rw [tco_dequeue_tail_bridge]
  have hk := Tco.kindName_ui_i p.kind
  unfold tcoFit
  cases miu with
  | none => simp [Collect.tcoDequeue]
  | some m =>
    simp only [Collect.tcoDequeue, Collect.QPdu.size]
    by_cases hui : (p.kind = .ui ∨ p.kind = .i)
    · have hn := hk.mpr hui
      simp only [hui, hn, if_true, decide_true]
      by_cases hc : ((p.len + icv : Nat) : Int) - (p.hdr : Int) > m
      · have : ¬ ((p.len : Int) + (icv : Int)) - (p.hdr : Int) ≤ m := by omega
        simp [this]
      · have : ((p.len : Int) + (icv : Int)) - (p.hdr : Int) ≤ m := by omega
        simp [this]
    · have hn : ¬ (Tco.kindName p.kind = "UI" ∨ Tco.kindName p.kind = "I") := fun x => hui (hk.mp x)
      simp only [hui, hn, if_false, decide_false]
      by_cases hc : ((p.len : Nat) : Int) - (p.hdr : Int) > m
      · have : ¬ (p.len : Int) - (p.hdr : Int) ≤ m := by omega
        simp [this, hc]
      · have : (p.len : Int) - (p.hdr : Int) ≤ m := by omega
        simp [this, hc]

/-- **C10** restated: a remaining room of exactly 0 still restricts - only an empty information field passes -/
theorem gen_dequeue_zero_room (icv : Int) (notify : Bool) (tok : Int) (name : String) (len hdr : Int)
    (h : Gen.Fn.lc_tco_dequeue_tail (some 0) icv notify tok name len hdr = some tok) : len - hdr ≤ 0 ∨ (len + icv - hdr ≤ 0) := by
  rw [tco_dequeue_tail_bridge] at h
  unfold tcoFit at h
  by_cases hn : name = "UI" ∨ name = "I"
  · simp only [hn, decide_true, if_true] at h
    by_cases hc : len + icv - hdr ≤ 0
    · exact Or.inr hc
    · simp [hc] at h
  · simp only [hn, decide_false] at h
    by_cases hc : len - hdr ≤ 0
    · exact Or.inl hc
    · simp [hc] at h

example : Gen.Fn.lc_tco_dequeue_tail (some 0) 0 true 5 "UI" 122 2 = none := by decide
example : Gen.Fn.lc_tco_dequeue_tail none 0 true 5 "UI" 122 2 = some 5 := by decide

/-- `socket.bind(addr)` stores and returns the address -/
theorem tco_bind_bridge (addr cur : Option Int) : Gen.Fn.lc_tco_bind addr cur = addr := rfl

/-- `poll` of the connection-less sockets accepts `recv` / `send` only -/
theorem raw_poll_check_bridge (event : String) (sh : Bool) : Gen.Fn.lc_raw_poll_check event sh = pollCheck event sh := by
  unfold Gen.Fn.lc_raw_poll_check pollCheck
  cases sh <;> by_cases h : (event = "recv" ∨ event = "send") <;> simp [h, ESHUTDOWN, EINVAL]

theorem ldl_poll_check_bridge (event : String) (sh : Bool) : Gen.Fn.lc_ldl_poll_check event sh = pollCheck event sh := by
  unfold Gen.Fn.lc_ldl_poll_check pollCheck
  cases sh <;> by_cases h : (event = "recv" ∨ event = "send") <;> simp [h, ESHUTDOWN, EINVAL]

example : Gen.Fn.lc_raw_poll_check "acks" false = .error (.llcp 22) := by decide

theorem raw_recv_bridge (sh : Bool) (got : Py (Option Int)) : Gen.Fn.lc_raw_recv sh got = rawRecv sh got := by
  unfold Gen.Fn.lc_raw_recv rawRecv wrapExc pipeErr
  cases sh with
  | true => simp [ESHUTDOWN]
  | false =>
    cases got with
    | error e => by_cases h : e = Exc.index <;> simp [h, EPIPE]
    | ok v => simp

theorem ldl_connect_bridge (dest : Int) (sh : Bool) : Gen.Fn.lc_ldl_connect dest sh = ldlConnect dest sh := by
  unfold Gen.Fn.lc_ldl_connect ldlConnect
  cases sh <;> simp [ESHUTDOWN]

/-- token of the popped object: `none` stays None, a PDU is a true object -/
def tok (o : Option Unit) : Option Int := o.map fun _ => 1

/-- `LogicalDataLink.recvfrom()`: payload and source address of the received datagram as they are -/
theorem ldl_recvfrom_bridge (sh : Bool) (got : Py (Option Unit)) (data : Bytes) (ssap : Int) :
    Gen.Fn.lc_ldl_recvfrom sh data ssap (got.map tok) = recvfrom sh got (data, ssap) := by
  unfold Gen.Fn.lc_ldl_recvfrom recvfrom wrapExc pipeErr tok
  cases sh with
  | true => simp [ESHUTDOWN]
  | false =>
    cases got with
    | error e => by_cases h : e = Exc.index <;> simp [Except.map, h, EPIPE]
    | ok v =>
      cases v with
      | none => simp [Except.map]
      | some u => simp [Except.map]

/-- **C17** restated: a zero-length datagram is returned as `(b'', ssap)` - payload and source address intact -/
theorem gen_empty_datagram (ssap : Int) :
    Gen.Fn.lc_ldl_recvfrom false [] ssap (.ok (some 1)) = .ok (some [], some ssap) := by
  have := ldl_recvfrom_bridge false (.ok (some ())) [] ssap
  simpa [Except.map, tok, recvfrom] using this

example : Gen.Fn.lc_ldl_recvfrom false [1, 2] 32 (.error .index) = .error (.llcp 32) := by decide

/-! ## `DataLinkConnection` (C05, C09) -/

theorem dlc_close_cond_bridge (est bound : Bool) : Gen.Fn.lc_dlc_close_cond est bound = (est && bound) := by
  unfold Gen.Fn.lc_dlc_close_cond; cases est <;> cases bound <;> rfl

/-- the orderly disconnect wakes the senders, then the acknowledgement waiters, and enters DISCONNECT -/
theorem dlc_close_disc_bridge (wa ws : Py Unit) :
    Gen.Fn.lc_dlc_close_disc wa ws = (ws >>= fun _ => wa >>= fun _ => .ok true) := rfl

/-- the unconditional end of `close()` is the notification script of the model: base class close (send_ready,
recv_ready), acks_ready, send_token - in this order -/
theorem dlc_close_tail_bridge (n : Term.Cv → Py Unit) :
    Gen.Fn.lc_dlc_close_tail (n .acksReady) (n .sendToken) (n .sendReady >>= fun _ => n .recvReady) = closeScript n := by
  unfold Gen.Fn.lc_dlc_close_tail closeScript
  cases n .sendReady <;> cases n .recvReady <;> cases n .acksReady <;> cases n .sendToken <;> rfl

/-- a notification that fails with `e`, all others succeed -/
def inject (c : Term.Cv) (e : Exc) : Term.Cv → Py Unit := fun c' => if c' = c then .error e else .ok ()

/-- **C09** restated: every condition variable that `Term.closeNotifies .dlc` lists is notified by the end of
`DataLinkConnection.close()` also when the orderly-disconnect branch is skipped (the socket was unbound by the
link termination): a failure injected into that notification surfaces; one injected elsewhere does not -/
theorem gen_close_wakes (c : Term.Cv) (e : Exc) :
    Gen.Fn.lc_dlc_close_tail (inject c e .acksReady) (inject c e .sendToken)
        (inject c e .sendReady >>= fun _ => inject c e .recvReady) =
      if c ∈ Term.closeNotifies .dlc then .error e else .ok () := by
  cases c <;> simp [Gen.Fn.lc_dlc_close_tail, inject, Term.closeNotifies] <;> rfl

example : Gen.Fn.lc_dlc_close_tail (.ok ()) (.error .runtime) (.ok ()) = .error .runtime := by decide

theorem dlc_deq_busy_change_bridge (sent busy : Bool) : Gen.Fn.lc_dlc_deq_busy_change sent busy = (sent != busy) := by
  unfold Gen.Fn.lc_dlc_deq_busy_change; cases sent <;> cases busy <;> rfl

theorem dlc_deq_dm_closewait_bridge (name : String) (cw : Bool) :
    Gen.Fn.lc_dlc_deq_dm_closewait name cw = (decide (name = "DM") && cw) := by
  unfold Gen.Fn.lc_dlc_deq_dm_closewait; cases cw <;> simp

/-- None / bool result of `_poll` as a dynamically typed value -/
def toVal : Option Bool → PyFn.Val
  | none => .none
  | some b => .bool b

theorem dlc_poll_bridge (event : String) (timeout : Int) (sh est cw info : Bool) (acks : Int)
    (base : String → Int → Py (Option Int)) :
    Gen.Fn.lc_dlc_poll event timeout sh est cw info acks base =
      (dlcPoll event sh est cw info acks (base event timeout)).map toVal := by
  unfold Gen.Fn.lc_dlc_poll dlcPoll
  cases sh with
  | true => simp [Except.map, ESHUTDOWN]
  | false =>
    simp only [Bool.false_eq_true, if_false]
    by_cases h1 : event = "recv"
    · simp only [h1, if_true]
      cases est <;> cases cw <;> simp [Except.map, toVal] <;> cases base "recv" timeout <;> rfl
    · simp only [h1, if_false]
      by_cases h2 : event = "send"
      · simp only [h2, if_true]
        cases est with
        | false => simp [Except.map, toVal]
        | true =>
          simp only [if_true]
          cases hb : base "send" timeout with
          | error e => rfl
          | ok r =>
            by_cases hr : r ≠ none ∧ r ≠ some 0 <;> simp [Except.map, toVal, hr, bind, Except.bind]
      · simp only [h2, if_false]
        by_cases h3 : event = "acks"
        · simp only [h3, if_true]
          by_cases ha : acks > 0 <;> simp [Except.map, toVal, ha]
        · simp [h3, Except.map, EINVAL]

example : Gen.Fn.lc_dlc_poll "acks" 0 false true false false 2 (fun _ _ => .ok none) = .ok (.bool true) := rfl

/-! ## bookkeeping of the service access points -/

/-- a PDU for the peer (DM) is sent after the ones already waiting -/
theorem sap_send_bridge (p : Int) (l : List Int) : Gen.Fn.lc_sap_send p l = l ++ [p] := rfl

/-- `resolve`: the chosen transaction identifier leaves the free list (ValueError if it was not free - `choice`
picks from the list) and the request is queued behind the pending ones -/
theorem sd_resolve_alloc_bridge (name : Bytes) (tids : List Int) (sdreq : List (Int × Bytes)) (choice : List Int → Int) :
    Gen.Fn.lc_sd_resolve_alloc name tids sdreq choice =
      (PyFn.removeFirst tids (choice tids)).map fun t => (t, sdreq ++ [(choice tids, name)]) := by
  unfold Gen.Fn.lc_sd_resolve_alloc
  show (PyFn.removeFirst tids (choice tids) >>= fun t => Except.ok (t, sdreq ++ [(choice tids, name)])) = _
  cases PyFn.removeFirst tids (choice tids) <;> rfl

/-! ## `LogicalLinkController` (C17, C09, C18) -/

theorem llc_getsockopt_miu_bridge (isLdl isRaw : Bool) (sock link : Int) :
    Gen.Fn.lc_llc_getsockopt_miu isLdl isRaw sock link = if isLdl || isRaw then link else sock := by
  unfold Gen.Fn.lc_llc_getsockopt_miu; cases isLdl <;> cases isRaw <;> rfl

/-- `_bind`: no argument -> anonymous, int -> by address, bytes / str -> by name, anything else EFAULT -/
theorem bind_dispatch_bridge (sock arg : Int) (isNone isInt isBytes isStr : Bool) (encode : String → Int)
    (toBytes : Int → Int) (byAddr byName : Int → Int → Py Unit) (byNone : Int → Py Unit) :
    Gen.Fn.lc_bind_dispatch sock arg isNone isInt isBytes isStr encode toBytes byAddr byName byNone =
      match bindKind isNone isInt isBytes isStr with
      | .byNone => byNone sock
      | .byAddr => byAddr sock arg
      | .byName => byName sock (if isBytes then toBytes arg else encode "latin")
      | .fault => .error (.llcp EFAULT) := by
  unfold Gen.Fn.lc_bind_dispatch bindKind
  cases isNone <;> cases isInt <;> cases isBytes <;> cases isStr <;> simp [EFAULT] <;>
    first | rfl | (cases byNone sock <;> rfl) | (cases byAddr sock arg <;> rfl) | (cases byName sock (toBytes arg) <;> rfl) |
      (cases byName sock (encode "latin") <;> rfl)

theorem sendto_dest_bridge (dest : Option Int) :
    Gen.Fn.lc_sendto_dest dest = if dest = none then .error (.llcp EDESTADDRREQ) else .ok () := by
  unfold Gen.Fn.lc_sendto_dest; cases dest <;> simp [EDESTADDRREQ]

/-- **C09**: the first statement of the `finally` clause of `terminate()` - in front of the shutdown loop - is the
`terminated` flag of the model: from here on `bind` raises ESHUTDOWN (`llc_bind_pre` of group Llc) -/
theorem terminate_flag_bridge (w : Term.World) : (Term.terminate w).1.terminated = Gen.Fn.lc_terminate_flag := rfl

/-- **C18**: every activation starts without a MAC .. -/
theorem activate_reset_bridge : Gen.Fn.lc_activate_reset = none := rfl

/-- .. and reports whether it obtained one -/
theorem activate_result_bridge (mac : Option Int) :
    Gen.Fn.lc_activate_result mac = decide (mac ≠ none ∧ mac ≠ some 0) := rfl

/-- **C18** restated: an activation that finds no peer (the MAC is not set after the reset) returns False, whatever
an earlier activation of the same controller object left behind -/
theorem gen_activate_no_peer : Gen.Fn.lc_activate_result Gen.Fn.lc_activate_reset = false := by decide

/-- **C17** restated for `llc_bind_by_name` (group Llc) as a fact about the address table: a bind by name hands out
either the first free address of 16..31 or the well-known address of the name - the latter only when the table
entry read there (`sapAt`) is None, i.e. never an occupied access point -/
theorem gen_bind_name_free (nm : Bytes) (ok : Bool) (known wks : Option Int) (fi : Int) (sapAt : Option Int) (a : Int)
    (h : Gen.Fn.llc_bind_by_name nm ok known wks fi sapAt = .ok a) :
    (wks = none ∧ a = 16 + fi) ∨ (wks = some a ∧ sapAt = none) := by
  unfold Gen.Fn.llc_bind_by_name at h
  cases ok with
  | false => simp at h
  | true =>
    cases known with
    | some k => simp at h
    | none =>
      cases wks with
      | none =>
        simp [wrapExc] at h
        exact Or.inl ⟨rfl, h.symm⟩
      | some w =>
        cases sapAt with
        | some s => simp at h
        | none =>
          simp at h
          exact Or.inr ⟨by rw [h], rfl⟩

example : Gen.Fn.llc_bind_by_name [] true none (some 4) 0 (some 1) = .error (.llcp 98) := by decide

end NfcVerif.FnBridge.LlcCore
