import NfcVerif.Gen.Tables
import NfcVerif.Model.IsoDep
/-!
Bridge theorems (constants of the source = constants of the models). `Gen/Tables.lean` is
regenerated from `/repo/src/nfc` by `harness/translate_tables.py` on every run of a check that
depends on it; each theorem is closed by kernel evaluation, so an edit of a constant in the
source breaks it.  One small module per model so that the checks stay independent.
-/
namespace NfcVerif.Tables
open NfcVerif

/-- every FSCI -> FSC tuple in tt4.py is the ISO-DEP model's table (C12) -/
theorem fsc_table_bridge :
    Gen.Tables.fscTables ≠ [] ∧ Gen.Tables.fscTables.all (fun t => t == IsoDep.fscTable) = true := by decide

end NfcVerif.Tables
