import NfcVerif.Lemmas.FnBridgeErrMap
import NfcVerif.Props.FnBridgePn53x
import NfcVerif.Props.FnBridgeCrc
import NfcVerif.Props.FnBridgeRcs380
/-!
# Bridge theorems, group ErrMap (`nfc/clf/pn53x.py`, `rcs380.py`, `udp.py` -> `Gen/FnErrMap.lean` -> `Model/ErrMap.lean`)

Property C13 (drivers report RF and host-link failures only as documented errors).  Each regenerated
definition is the body of one `except` handler (or one raising `if`) of the drivers' exchange functions, as a
function of the caught exception's `errno`; the model side is the corresponding case of `pnMapI`, `pnMapT`,
`guardChip`, `guardStatus`, `udpParse`, `udpRecv`, `udpExchange`, taken at result type `Unit` (the models
change only the exception, `Lemmas/FnBridgeErrMap.lean: *_error`).  `Gen/FnErrMap.lean` is regenerated from the
source on every run.
-/
namespace NfcVerif.FnBridge.ErrMap
open NfcVerif NfcVerif.PyFn NfcVerif.ErrMap NfcVerif.HostFrame NfcVerif.FnBridge.HostLink

/-- `except Chipset.Error` of `_send_cmd_recv_rsp` (pn53x.py): errno 1 is a timeout, every other chip
status a transmission error - the `chipsetError` case of `pnMapI`, for every status -/
theorem ini_chip_error_bridge (n : Nat) :
    Gen.Fn.pn53x_ini_chip_error n = pnMapI (.error (.chipsetError n) : Py Unit) := by
  unfold Gen.Fn.pn53x_ini_chip_error pnMapI
  simp only [lit_cast, Int.natCast_inj]

example : Gen.Fn.pn53x_ini_chip_error 1 = .error .timeout := by decide
example : Gen.Fn.pn53x_ini_chip_error 2 = .error .transmission := by decide

/-- `except IOError` of `_send_cmd_recv_rsp` (pn53x.py): `ETIMEDOUT` is a timeout, every other errno is
re-raised unchanged - the `io` case of `pnMapI`, for every errno -/
theorem ini_io_error_bridge (n : Nat) :
    Gen.Fn.pn53x_ini_io_error n = pnMapI (.error (.io n) : Py Unit) := by
  unfold Gen.Fn.pn53x_ini_io_error pnMapI ETIMEDOUT
  simp only [lit_cast, Int.natCast_inj, Int.toNat_natCast]
  by_cases h : n = 110 <;> simp [h]

example : Gen.Fn.pn53x_ini_io_error 110 = .error .timeout := by decide
example : Gen.Fn.pn53x_ini_io_error 5 = .error (.io 5) := by decide

/-- `except Chipset.Error` of `send_rsp_recv_cmd` (pn53x.py): 0x0A, 0x29, 0x31 are a broken link -/
theorem tgt_chip_error_bridge (n : Nat) :
    Gen.Fn.pn53x_tgt_chip_error n = pnMapT (.error (.chipsetError n) : Py Unit) := by
  unfold Gen.Fn.pn53x_tgt_chip_error pnMapT
  simp only [lit_cast, Int.natCast_inj]

example : Gen.Fn.pn53x_tgt_chip_error 0x29 = .error .brokenLink := by decide
example : Gen.Fn.pn53x_tgt_chip_error 0x01 = .error .transmission := by decide

/-- `except IOError` of `send_rsp_recv_cmd` (pn53x.py) - the `io` case of `pnMapT` -/
theorem tgt_io_error_bridge (n : Nat) (timeout : Int) :
    Gen.Fn.pn53x_tgt_io_error timeout n = pnMapT (.error (.io n) : Py Unit) := by
  unfold Gen.Fn.pn53x_tgt_io_error pnMapT ETIMEDOUT
  simp only [lit_cast, Int.natCast_inj, Int.toNat_natCast]

example : Gen.Fn.pn53x_tgt_io_error 1 110 = .error .timeout := by decide
example : Gen.Fn.pn53x_tgt_io_error 1 19 = .error (.io 19) := by decide

/-- `except Chipset.Error` around `_send_cmd_recv_rsp`: `IOError(EIO)`, the repaired `guardChip` -/
theorem guard_chip_bridge (n : Nat) :
    Gen.Fn.pn53x_guard_chip n = guardChip .repaired (.error (.chipsetError n) : Py Unit) := rfl

/-- the same around `_tt3_send_rsp_recv_cmd` -/
theorem tt3_guard_chip_bridge (n : Nat) :
    Gen.Fn.pn53x_tt3_guard_chip n = guardChip .repaired (.error (.chipsetError n) : Py Unit) := rfl

/-- `except StatusError` of rcs380 `send_cmd_recv_rsp`: `IOError(EIO)`, the repaired `guardStatus` -/
theorem guard_status_bridge (n : Nat) :
    Gen.Fn.rcs380_guard_status n = guardStatus .repaired (.error .rcsStatus : Py Unit) := rfl

/-- udp `_recv_data`: a datagram that starts with `RFOFF` is a broken link; otherwise `udpParse` continues
with the split (`udpParseRest`) -/
theorem udp_rfoff_bridge (v : Variant) (brty dg : Bytes) :
    udpParse v brty dg = (Gen.Fn.udp_rfoff dg >>= fun _ => udpParseRest v brty dg) := by
  rw [udpParse_split]
  unfold Gen.Fn.udp_rfoff startsWith rfoff
  by_cases h : ([82, 70, 79, 70, 70] : Bytes).isPrefixOf dg = true
  · simp only [h, if_true]; rfl
  · simp only [h, if_false, Bool.false_eq_true]; rfl

example : Gen.Fn.udp_rfoff [82, 70, 79, 70, 70, 32] = .error .brokenLink := by decide
example : Gen.Fn.udp_rfoff [82, 70, 79, 70] = .ok () := by decide

/-- udp `_recv_data`, `except ValueError`: what a datagram without exactly two fields becomes in the
repaired model -/
theorem udp_parse_error_bridge (brty dg : Bytes) (h : ∀ b hex, splitWs dg ≠ [b, hex]) :
    udpParseRest .repaired brty dg = (Gen.Fn.udp_parse_error >>= fun _ => .ok none) := by
  unfold udpParseRest Gen.Fn.udp_parse_error
  split
  · rename_i b hex he; exact absurd he (h b hex)
  · rfl

example : ∀ b hex, splitWs [0x31] ≠ [b, hex] := by intro b hex h; cases h

/-- udp `_send_data`: fewer (or more) octets accepted than given is a transmission error - `Wr.short` of
`udpExchange` -/
theorem udp_send_check_bridge (ret : Int) (d : Bytes) :
    Gen.Fn.udp_send_check ret d = if ret = (d.length : Int) then .ok () else .error .transmission := by
  unfold Gen.Fn.udp_send_check
  simp only [len_eq, ne_eq]
  by_cases h : ret = (d.length : Int) <;> simp [h]

theorem udp_send_short (v : Variant) (brty : Bytes) (recv : Host) (ret : Int) (d : Bytes) (h : ret ≠ (d.length : Int)) :
    udpExchange v brty true ⟨.short, []⟩ recv = (Gen.Fn.udp_send_check ret d >>= fun _ => udpRecv v brty recv.reads) := by
  rw [udp_send_check_bridge, if_neg h]; rfl

example : Gen.Fn.udp_send_check 3 [1, 2, 3] = .ok () := by decide
example : Gen.Fn.udp_send_check 2 [1, 2, 3] = .error .transmission := by decide

/-- udp `_recv_data`: the time is over - the empty case of `udpRecv` -/
theorem udp_recv_timeout_bridge (v : Variant) (brty : Bytes) :
    udpRecv v brty [] = (Gen.Fn.udp_recv_timeout >>= fun _ => .ok []) := rfl

/-- C13 for the regenerated handlers: whatever status the chip reports, what leaves the handler is a
documented exception (`Lemmas/ErrMap.lean: Documented`) -/
theorem gen_handlers_documented (n : Nat) (dg : Bytes) (ret : Int) :
    Safe Documented (Gen.Fn.pn53x_ini_chip_error n) ∧ Safe Documented (Gen.Fn.pn53x_tgt_chip_error n) ∧
    Safe Documented (Gen.Fn.pn53x_ini_io_error n) ∧ Safe Documented (Gen.Fn.pn53x_tgt_io_error ret n) ∧
    Safe Documented (Gen.Fn.pn53x_guard_chip n) ∧ Safe Documented (Gen.Fn.pn53x_tt3_guard_chip n) ∧
    Safe Documented (Gen.Fn.rcs380_guard_status n) ∧ Safe Documented (Gen.Fn.udp_rfoff dg) ∧
    Safe Documented Gen.Fn.udp_parse_error ∧ Safe Documented (Gen.Fn.udp_send_check ret dg) ∧
    Safe Documented Gen.Fn.udp_recv_timeout := by
  refine ⟨?_, ?_, ?_, ?_, ?_, ?_, ?_, ?_, ?_, ?_, ?_⟩
  · rw [ini_chip_error_bridge]; exact pnMapI_doc _ (Safe.throw (mid_chip n))
  · rw [tgt_chip_error_bridge]; exact pnMapT_doc _ (Safe.throw (mid_chip n))
  · rw [ini_io_error_bridge]; exact pnMapI_doc _ (Safe.throw (doc_io n).mid)
  · rw [tgt_io_error_bridge]; exact pnMapT_doc _ (Safe.throw (doc_io n).mid)
  · exact Safe.throw (doc_io 5)
  · exact Safe.throw (doc_io 5)
  · exact Safe.throw (doc_io 5)
  · unfold Gen.Fn.udp_rfoff; exact Safe.ite (Safe.throw doc_brokenLink) (Safe.ok ())
  · exact Safe.throw doc_transmission
  · unfold Gen.Fn.udp_send_check; exact Safe.ite (Safe.throw doc_transmission) (Safe.ok ())
  · exact Safe.throw doc_timeout

/-! ## chipset functions of an RF exchange (status evaluation behind `self.command(..)`) -/

/-- `self.chipset_error(data)` on a response payload is the model's `chipErr`, whatever follows -/
theorem chipset_error_bytes_chipErr {α} (d : Bytes) (k : Unit → Py α) :
    (Gen.Fn.pn53x_chipset_error_bytes d >>= k) = chipErr d := by
  rw [Pn53x.chipset_error_bytes_bridge]; unfold chipErr
  cases idxN d 0 <;> rfl

theorem chipErr_bind {α β} (d : Bytes) (k : α → Py β) : (chipErr d >>= k) = chipErr d := by
  unfold chipErr; cases idxN d 0 <;> rfl

/-- `in_communicate_thru` (inside `if timeout > 0`): status 0 returns the rest of the payload, anything else
(also an empty payload) goes to `chipset_error` - `ErrMap.inCommunicateThru` -/
theorem in_communicate_thru_bridge (d : Bytes) :
    Gen.Fn.pn53x_in_communicate_thru d = (inCommunicateThru (.ok d) >>= fun r => .ok (some r)) := by
  unfold Gen.Fn.pn53x_in_communicate_thru inCommunicateThru
  simp only [chipset_error_bytes_chipErr, Py.bind_ok]
  match d with
  | [] => rfl
  | s :: rest =>
    simp only [lit_cast, getB_idxN, idxN_cons_zero, Py.bind_ok, Int.natCast_inj, ne_eq, reduceCtorEq, not_false_eq_true,
      if_true, decide_eq_true_eq, sliceFrom_ofNat, List.drop_succ_cons, List.drop_zero]
    by_cases h : s = 0
    · subst h; rfl
    · simp only [h, if_false]
      cases s with
      | zero => exact absurd rfl h
      | succ n => unfold chipErr; rfl

/-- `tg_get_initiator_command`: textually the same statements - `ErrMap.tgGetInitiatorCommand` -/
theorem tg_get_initiator_command_bridge (d : Bytes) :
    Gen.Fn.pn53x_tg_get_initiator_command d = (tgGetInitiatorCommand (.ok d) >>= fun r => .ok (some r)) :=
  in_communicate_thru_bridge d

example : Gen.Fn.pn53x_in_communicate_thru [0, 0xAA] = .ok (some [0xAA]) := by decide
example : Gen.Fn.pn53x_in_communicate_thru [1] = .error (.chipsetError 1) := by decide
example : Gen.Fn.pn53x_in_communicate_thru [] = .error .index := by decide

/-- `in_data_exchange`: the low six bits of the status octet are the errno - `ErrMap.inDataExchange` (first
component of the returned pair; the second is the more-information bit) -/
theorem in_data_exchange_bridge (d : Bytes) :
    (Gen.Fn.pn53x_in_data_exchange d >>= fun r => .ok r.1) = inDataExchange (.ok d) := by
  unfold Gen.Fn.pn53x_in_data_exchange inDataExchange Gen.Fn.pn53x_chipset_error_opt
  match d with
  | [] => rfl
  | s :: rest =>
    simp only [lit_cast, getB_idxN, idxN_cons_zero, Py.bind_ok, if_false, ne_eq, reduceCtorEq, not_false_eq_true, if_true,
      band_ofNat, and63, Int.natCast_inj, decide_eq_true_eq, sliceFrom_ofNat, List.drop_succ_cons, List.drop_zero,
      Int.toNat_natCast, Py.pure_eq, Py.throw_eq]
    by_cases h : s % 64 = 0 <;> simp [h]

example : (Gen.Fn.pn53x_in_data_exchange [0x41] >>= fun r => .ok r.1) = .error (.chipsetError 1) := by decide
example : Gen.Fn.pn53x_in_data_exchange [0x40, 7] = .ok ([7], true) := by decide

/-- `tg_response_to_initiator` - `ErrMap.tgResponseToInitiator` -/
theorem tg_response_to_initiator_bridge (d : Bytes) :
    Gen.Fn.pn53x_tg_response_to_initiator d = tgResponseToInitiator (.ok d) := by
  unfold Gen.Fn.pn53x_tg_response_to_initiator tgResponseToInitiator
  match d with
  | [] => rfl
  | s :: rest =>
    simp only [lit_cast, getB_idxN, idxN_cons_zero, Py.bind_ok, if_false, Int.natCast_inj, ne_eq, decide_eq_true_eq,
      Py.pure_eq]
    by_cases h : s = 0
    · simp [h]
    · simp only [h, not_false_eq_true, if_true, chipset_error_bytes_chipErr, chipErr_bind]

/-- pn533 `_read_register`: status octet, then the register values; `ErrMap.readRegister .pn533` is this followed
by the list-or-int conversion of `read_register` (`regResult`, not translated: `list(data)`) -/
theorem pn533_read_register_bridge (d : Bytes) :
    readRegister .pn533 (.ok d) = (Gen.Fn.pn533_read_register d >>= regResult) := by
  unfold Gen.Fn.pn533_read_register readRegister
  match d with
  | [] => rfl
  | s :: rest =>
    simp only [lit_cast, getB_idxN, idxN_cons_zero, Py.bind_ok, Int.natCast_inj, ne_eq, sliceFrom_ofNat,
      List.drop_succ_cons, List.drop_zero]
    by_cases h : s = 0
    · simp [h]
    · simp only [h, not_false_eq_true, if_true, chipset_error_bytes_chipErr, chipErr_bind]

/-- pn533 `_write_register` - `ErrMap.writeRegister .pn533` -/
theorem pn533_write_register_bridge (d : Bytes) :
    Gen.Fn.pn533_write_register d = writeRegister .pn533 (.ok d) := by
  unfold Gen.Fn.pn533_write_register writeRegister
  match d with
  | [] => rfl
  | s :: rest =>
    simp only [lit_cast, getB_idxN, idxN_cons_zero, Py.bind_ok, Int.natCast_inj, ne_eq, Py.pure_eq]
    by_cases h : s = 0
    · simp [h]
    · simp only [h, not_false_eq_true, if_true, chipset_error_bytes_chipErr, chipErr_bind]

/-- rcs956 `_write_register`: a non-zero status sum is `Chipset.Error(0xfe)` - `ErrMap.writeRegister .rcs956` -/
theorem rcs956_write_register_bridge (d : Bytes) :
    Gen.Fn.rcs956_write_register d = writeRegister .rcs956 (.ok d) := by
  unfold Gen.Fn.rcs956_write_register writeRegister
  simp only [lit_cast, sum_ints, Int.natCast_inj, Pn53x.chipset_error_int_bridge, Py.bind_ok, Py.bind_error, ne_eq,
    Py.pure_eq, Py.throw_eq]
  by_cases h : HostFrame.sum d = 0 <;> simp [h]

/-- the Type 2 Tag CRC check behind InCommunicateThru, for every octet string -/
theorem tt2_crc_bridge (d : Bytes) (hd : IsBytes d) : Gen.Fn.pn53x_tt2_crc d = tt2Crc d := by
  unfold Gen.Fn.pn53x_tt2_crc tt2Crc ErrMap.checkCrcA
  have hc : Gen.Fn.check_crc_a d = Crc.checkCrcA (d.map (BitVec.ofNat 8)) := by
    have := Crc.check_crc_a_bridge (Crc.dec d)
    rw [Crc.enc_dec d hd] at this
    exact this
  rw [hc]
  simp only [lit_cast, len_eq, Int.ofNat_lt, gt_iff_lt]
  by_cases h : 2 < d.length
  · simp only [h, if_true]
    have e : PyFn.sliceTo d (-((2 : Nat) : Int)) = d.take (d.length - 2) := by
      unfold PyFn.sliceTo clampBound
      have h0 : (-((2 : Nat) : Int) < 0) := by omega
      have h1 : ¬ (-((2 : Nat) : Int) + (d.length : Int) < 0) := by omega
      have h2 : ¬ (-((2 : Nat) : Int) + (d.length : Int) > (d.length : Int)) := by omega
      simp only [h0, if_true, h1, h2, if_false]
      congr 1; omega
    rw [e]
    cases Crc.checkCrcA (d.map (BitVec.ofNat 8)) with
    | error x => rfl
    | ok b => cases b <;> rfl
  · simp only [h, if_false, Py.bind_ok, Bool.false_eq_true, Py.pure_eq]

/-- rcs380 `_tt2_send_cmd_recv_rsp`: textually the same statements -/
theorem rcs380_tt2_crc_bridge (d : Bytes) (hd : IsBytes d) : Gen.Fn.rcs380_tt2_crc d = tt2Crc d :=
  tt2_crc_bridge d hd

example : Gen.Fn.pn53x_tt2_crc [0x0A] = .ok [0x0A] := by decide +kernel
example : Gen.Fn.pn53x_tt2_crc [0x12, 0x34, 0x26, 0xCF] = .ok [0x12, 0x34] := by decide +kernel
example : Gen.Fn.pn53x_tt2_crc [0x12, 0x34, 0x26, 0xCE] = .error .transmission := by decide +kernel

/-- C13 for the regenerated chipset functions: on a non-empty response payload they raise only what the
handlers above translate - a documented exception or a `Chipset.Error` (`Lemmas/ErrMap.lean: Mid`) -/
theorem gen_chip_functions_mid (d : Bytes) (hd : d ≠ []) (hb : IsBytes d) :
    Safe Mid (Gen.Fn.pn53x_in_communicate_thru d) ∧ Safe Mid (Gen.Fn.pn53x_tg_get_initiator_command d) ∧
    Safe Mid (Gen.Fn.pn53x_in_data_exchange d >>= fun r => .ok r.1) ∧
    Safe Mid (Gen.Fn.pn53x_tg_response_to_initiator d) ∧ Safe Mid (Gen.Fn.pn53x_tt2_crc d) := by
  have hr : Safe CmdDoc (.ok d : Py Bytes) := Safe.ok d
  have hs : ∀ p, (.ok d : Py Bytes) = .ok p → p ≠ [] := by intro p h; cases h; exact hd
  refine ⟨?_, ?_, ?_, ?_, ?_⟩
  · rw [in_communicate_thru_bridge]; exact Safe.bind' (thru_mid _ hr hs) (fun _ => Safe.ok _)
  · rw [tg_get_initiator_command_bridge]; exact Safe.bind' (thru_mid _ hr hs) (fun _ => Safe.ok _)
  · rw [in_data_exchange_bridge]; exact dataex_mid _ hr hs
  · rw [tg_response_to_initiator_bridge]; exact tgresp_mid _ hr hs
  · rw [tt2_crc_bridge d hb]; exact tt2Crc_mid d

/-! ## rcs380 `except CommunicationError` -/

/-- `_send_cmd_recv_rsp` (rcs380): with the regenerated `CommunicationError.__eq__` for the comparison
`error == "RECEIVE_TIMEOUT_ERROR"` (table value 0x80) the handler is the `comm` case of `rcsMapI`, for every
32-bit (indeed every) status word -/
theorem rcs_ini_comm_error_bridge (st : Nat) (s : String) :
    Gen.Fn.rcs380_ini_comm_error (Gen.Fn.rcs380_comm_err_eq s st 0x80) = rcsMapI (.error (.comm st) : RPy Unit) := by
  rw [Rcs380.comm_err_eq_timeout]
  unfold Gen.Fn.rcs380_ini_comm_error rcsMapI
  by_cases h : st / 128 % 2 = 1 <;> simp [h]

/-- `send_rsp_recv_cmd` (rcs380): RF_OFF_ERROR (0x400) first, then RECEIVE_TIMEOUT_ERROR (0x80) - the `comm`
case of `rcsMapT` -/
theorem rcs_tgt_comm_error_bridge (st : Nat) (s t : String) :
    Gen.Fn.rcs380_tgt_comm_error (Gen.Fn.rcs380_comm_err_eq s st 0x400) (Gen.Fn.rcs380_comm_err_eq t st 0x80) st
      = rcsMapT (.error (.comm st) : RPy Unit) := by
  rw [Rcs380.comm_err_eq_timeout, Rcs380.comm_err_eq_rfoff]
  unfold Gen.Fn.rcs380_tgt_comm_error rcsMapT
  by_cases h : st / 1024 % 2 = 1 <;> by_cases h2 : st / 128 % 2 = 1 <;> simp [h, h2]

example : Gen.Fn.rcs380_ini_comm_error (Gen.Fn.rcs380_comm_err_eq "RECEIVE_TIMEOUT_ERROR" 0x80 0x80) = .error .timeout := by
  decide
example : Gen.Fn.rcs380_tgt_comm_error (Gen.Fn.rcs380_comm_err_eq "RF_OFF_ERROR" 0x480 0x400)
    (Gen.Fn.rcs380_comm_err_eq "RECEIVE_TIMEOUT_ERROR" 0x480 0x80) 0x480 = .error .brokenLink := by decide

/-- C13 for the regenerated rcs380 handlers: for every value of the comparisons, a documented exception -/
theorem gen_rcs_handlers_documented (a b : Bool) :
    Safe Documented (Gen.Fn.rcs380_ini_comm_error a) ∧ Safe Documented (Gen.Fn.rcs380_tgt_comm_error a b 0) := by
  constructor
  · unfold Gen.Fn.rcs380_ini_comm_error; exact Safe.ite (Safe.throw doc_timeout) (Safe.throw doc_transmission)
  · unfold Gen.Fn.rcs380_tgt_comm_error
    exact Safe.ite (Safe.throw doc_brokenLink) (Safe.ite (Safe.throw doc_timeout) (Safe.throw doc_transmission))

/-! ## the Type 3 Tag target loop (`_tt3_send_rsp_recv_cmd`) -/

/-- CIU_DivIRq bit 0: the external field was switched off -/
theorem tt3_field_off_bridge (d : Nat) :
    Gen.Fn.pn53x_tt3_field_off d = if d % 2 = 1 then .error .brokenLink else .ok () := by
  unfold Gen.Fn.pn53x_tt3_field_off
  simp only [lit_cast, band_ofNat, and1, Int.natCast_inj, ne_eq]
  by_cases h : d % 2 = 1
  · have : ¬ d % 2 = 0 := by omega
    simp [h, this]
  · have : d % 2 = 0 := by omega
    simp [h, this]

/-- CIU_CommIRq bit 5 (RxIRq) -/
theorem tt3_rx_irq_bridge (c : Nat) : (Gen.Fn.pn53x_tt3_rx_irq c ≠ 0) ↔ (c / 32) % 2 = 1 := by
  unfold Gen.Fn.pn53x_tt3_rx_irq
  simp only [lit_cast, band_ofNat, ne_eq, Int.natCast_inj]
  exact Rcs380.and_pow_ne_zero c 5

/-- one iteration of `ErrMap.tt3Poll` is the two regenerated tests around the register accesses -/
theorem tt3_poll_step (fam : Fam) (r : Nat → Py Bytes) (p : Py Bytes) (later : List (Py Bytes)) :
    tt3Poll fam r (p :: later) = (readRegister fam p >>= unpack2 >>= fun irq =>
      Gen.Fn.pn53x_tt3_field_off irq.2 >>= fun _ =>
      if Gen.Fn.pn53x_tt3_rx_irq irq.1 ≠ 0 then (writeRegister fam (r 2) >>= fun _ => fifoRead fam (r 3) (r 4))
      else tt3Poll fam r later) := by
  rw [tt3Poll]
  congr 1
  funext irq
  rw [tt3_field_off_bridge]
  by_cases h : irq.2 % 2 = 1
  · simp only [h, if_true, Py.bind_error]; rfl
  · simp only [h, if_false, Py.bind_ok]
    by_cases h2 : (irq.1 / 32) % 2 = 1
    · rw [if_pos h2, if_pos ((tt3_rx_irq_bridge irq.1).mpr h2)]
    · rw [if_neg h2, if_neg (fun hh => h2 ((tt3_rx_irq_bridge irq.1).mp hh))]

example : Gen.Fn.pn53x_tt3_field_off 0x11 = .error .brokenLink := by decide
example : Gen.Fn.pn53x_tt3_rx_irq 0x64 = 32 := by decide

/-- the FIFO length octet check - the tail of `ErrMap.fifoData` -/
theorem tt3_fifo_check_bridge (fifo : Bytes) :
    Gen.Fn.pn53x_tt3_fifo_check fifo
      = (idxN fifo 0 >>= fun l0 => if l0 ≠ fifo.length then .error .transmission else .ok fifo) := by
  unfold Gen.Fn.pn53x_tt3_fifo_check
  simp only [lit_cast, getB_idxN, len_eq]
  cases idxN fifo 0 <;> simp only [Py.bind_ok, Py.bind_error, Int.natCast_inj, ne_eq]

example : Gen.Fn.pn53x_tt3_fifo_check [3, 1, 2] = .ok [3, 1, 2] := by decide
example : Gen.Fn.pn53x_tt3_fifo_check [4, 1, 2] = .error .transmission := by decide
example : Gen.Fn.pn53x_tt3_fifo_check [] = .error .index := by decide

/-- the time is over (positive timeout): the empty case of `ErrMap.tt3Poll` -/
theorem tt3_timeout_bridge (fam : Fam) (r : Nat → Py Bytes) (t : Int) (h : t > 0) :
    tt3Poll fam r [] = (Gen.Fn.pn53x_tt3_timeout t >>= fun _ => .ok []) := by
  unfold Gen.Fn.pn53x_tt3_timeout
  simp only [h, if_true, Py.bind_error]; rfl

end NfcVerif.FnBridge.ErrMap
