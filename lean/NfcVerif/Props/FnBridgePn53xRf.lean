import NfcVerif.Gen.FnPn53xRf
import NfcVerif.Model.FnPn53xRfRef
import NfcVerif.Lemmas.FnBridgePn53xCommon
import NfcVerif.Lemmas.FnBridgeTagCmdPrelude
import NfcVerif.Props.FnBridgePn53x
/-!
# Bridge theorems, group Pn53xRf (`nfc/clf/pn53x.py`, `pn531.py`, `pn532.py`, `pn533.py`, `rcs956.py` ->
`Gen/FnPn53xRf.lean` -> `Model/FnPn53xRfRef.lean`)

Properties C18 / C19 (what `sense_*` / `listen_*` of the PN53x drivers return for which chip answer), C13 (which
exceptions the status evaluation raises: see `Props/ExcFlowDrivers.lean`, `Props/FnBridgeErrMap.lean` for the
exception-flow side, not re-proved here), C14 (chip command parameters).  Every regenerated definition is a pure slice
of a driver method between two chipset calls; the reference side says what the slice should compute according to the
PN53x user manuals and the NFC Forum Digital wording.  `Gen/FnPn53xRf.lean` is regenerated from the source on every run.
-/
namespace NfcVerif.FnBridge.Pn53xRf
open NfcVerif NfcVerif.PyFn NfcVerif.FnPn53xRfRef NfcVerif.FnBridge.HostLink

theorem in_list_build_bridge (brty : Nat) (ini : Bytes) :
    Gen.Fn.rf_in_list_build brty ini = if brty < 256 then .ok (inListParams brty ini) else .error .value := by
  unfold Gen.Fn.rf_in_list_build inListParams
  simp only [lit_cast, mkBytes_cons, mkBytes_nil]
  by_cases h : brty < 256 <;> simp [h]

theorem in_list_result_bridge (d : Bytes) : Gen.Fn.rf_in_list_result d = .ok (inListResult d) := by
  unfold Gen.Fn.rf_in_list_result inListResult
  cases d with
  | nil => simp
  | cons a l =>
    simp only [lit_cast, getB_idxN, sliceFrom_ofNat]
    by_cases h : a > 0 <;> simp [idxN, h]

theorem tta_uid_aux (u : Bytes) :
    (let uid_2 := (if PyFn.len u > 4 then [136] ++ u else u : Bytes)
     (if PyFn.len uid_2 > 8 then (slice uid_2 0 4 ++ [136]) ++ PyFn.sliceFrom uid_2 4 else uid_2 : Bytes)) = ttaUid u := by
  unfold ttaUid
  simp only [lit_cast, len_eq, slice_ofNat, sliceFrom_ofNat, sliceN, Int.ofNat_lt, gt_iff_lt]
  by_cases h1 : u.length ≤ 4
  · have a : ¬ (4 < u.length) := by omega
    have b : ¬ (8 < u.length) := by omega
    simp only [a, b, h1, if_false, if_true]
  · by_cases h2 : u.length ≤ 7
    · have a : (4 < u.length) := by omega
      have b : ¬ (8 < ([136] ++ u).length) := by simp; omega
      simp only [a, b, h1, h2, if_false, if_true]; rfl
    · have a : (4 < u.length) := by omega
      have b : (8 < ([136] ++ u).length) := by simp; omega
      simp only [a, b, h1, h2, if_false, if_true]
      simp

theorem tta_uid_bridge (o : Option Bytes) : Gen.Fn.rf_tta_uid o = ttaUid (o.getD []) := by
  unfold Gen.Fn.rf_tta_uid
  cases o with
  | none => exact tta_uid_aux []
  | some s =>
    by_cases h : s = []
    · subst h; exact tta_uid_aux []
    · simp only [ne_eq, h, not_false_eq_true, if_true, Option.getD]; exact tta_uid_aux s

theorem tta_fields_bridge (rsp : Bytes) : Gen.Fn.rf_tta_fields rsp = ttaFields rsp := by
  unfold Gen.Fn.rf_tta_fields ttaFields
  simp only [lit_cast, TagCmd.sliceRev_none, slice_ofNat, sliceFrom_ofNat, sliceN]

theorem tta_is_tt2_bridge (sel : Bytes) : Gen.Fn.rf_tta_is_tt2 sel = selIsTt2 sel := by
  unfold Gen.Fn.rf_tta_is_tt2 selIsTt2
  simp only [lit_cast, getB_idxN]
  cases idxN sel 0 <;> simp only [Py.bind_ok, Py.bind_error, band_ofNat, Int.natCast_inj]

theorem route_tt2_bridge (sel : Bytes) : Gen.Fn.rf_route_tt2 sel = selIsTt2 sel := by
  unfold Gen.Fn.rf_route_tt2 selIsTt2
  simp only [lit_cast, getB_idxN]
  cases idxN sel 0 <;> simp only [Py.bind_ok, Py.bind_error, band_ofNat, Int.natCast_inj]

theorem lta_is_tt2_bridge (sel : Bytes) : Gen.Fn.rf_lta_is_tt2 sel = selIsTt2 sel := by
  unfold Gen.Fn.rf_lta_is_tt2 selIsTt2
  simp only [lit_cast, getB_idxN]
  cases idxN sel 0 <;> simp only [Py.bind_ok, Py.bind_error, band_ofNat, Int.natCast_inj]

theorem tta_no_sens_bridge (fifo : Int) : Gen.Fn.rf_tta_no_sens fifo = noSensRes fifo := rfl

theorem tta_tt1_sens_bridge (rsp : Bytes) : Gen.Fn.rf_tta_tt1_sens rsp = tt1Sens rsp := by
  unfold Gen.Fn.rf_tta_tt1_sens tt1Sens
  simp only [lit_cast, TagCmd.sliceRev_none]

theorem tta_rid_cmd_bridge : Gen.Fn.rf_tta_rid_cmd = ridCmd := rfl

theorem ttb_afi_bridge (o : Option Bytes) : Gen.Fn.rf_ttb_afi o = ttbAfi o := by
  unfold Gen.Fn.rf_ttb_afi ttbAfi
  cases o with
  | none => rfl
  | some s =>
    cases s with
    | nil => simp
    | cons a l => simp only [lit_cast, slice_ofNat, sliceN]; simp

theorem ttb_is_iso_bridge (rsp : Bytes) : Gen.Fn.rf_ttb_is_iso rsp = ttbIsIso rsp := by
  unfold Gen.Fn.rf_ttb_is_iso ttbIsIso
  by_cases h : rsp = []
  · subst h; simp
  · simp only [ne_eq, h, not_false_eq_true, if_true, if_false, lit_cast, getB_idxN]
    cases idxN rsp 10 <;> simp only [Py.bind_ok, Py.bind_error, band_ofNat, Int.natCast_inj, decide_eq_true_eq] <;> simp

theorem ttb_cmds_bridge (did : Option Bytes) (afi : Bytes) : Gen.Fn.rf_ttb_cmds did afi = ttbCmds did afi := by
  unfold Gen.Fn.rf_ttb_cmds ttbCmds
  cases did with
  | none => simp
  | some s => cases s <;> simp

theorem ttf_field_off_bridge (txc : Nat) : Gen.Fn.rf_ttf_field_off txc = fieldOff txc := by
  unfold Gen.Fn.rf_ttf_field_off fieldOff
  simp only [lit_cast, band_ofNat, and3, Int.natCast_inj, ne_eq, Decidable.not_not]

theorem ttf_req_bridge (o : Option Bytes) : Gen.Fn.rf_ttf_req o = ttfReq o := by
  unfold Gen.Fn.rf_ttf_req ttfReq defaultSensfReq
  cases o with
  | none => rfl
  | some s => cases s <;> simp

theorem ttf_res_bridge (rsp : Bytes) : Gen.Fn.rf_ttf_res rsp = ttfRes rsp := by
  unfold Gen.Fn.rf_ttf_res ttfRes
  simp only [lit_cast, sliceFrom_ofNat]

theorem dep_checks_bridge (atr_req : Bytes) (s r : String) :
    Gen.Fn.rf_dep_checks atr_req s r = depChecks atr_req (decide (s = r)) := by
  unfold Gen.Fn.rf_dep_checks depChecks
  simp only [lit_cast, len_eq, Int.ofNat_le, ge_iff_le]
  by_cases h0 : atr_req = []
  · subst h0; simp
  · by_cases h1 : 16 ≤ atr_req.length <;> by_cases h2 : atr_req.length ≤ 64 <;> by_cases h3 : s = r <;> simp [h0, h1, h2, h3]

theorem dep_args_bridge (atr_req : Bytes) : Gen.Fn.rf_dep_args atr_req = depArgs atr_req := by
  unfold Gen.Fn.rf_dep_args depArgs
  simp only [lit_cast, slice_ofNat, sliceFrom_ofNat, sliceN]

theorem dep_atr_res_bridge (data : Bytes) : Gen.Fn.rf_dep_atr_res data = depAtrRes data := rfl

theorem max_send_bridge (f : Int) : Gen.Fn.rf_max_send 0 f = maxSend f := rfl
theorem max_recv_bridge (f : Int) : Gen.Fn.rf_max_recv 0 f = maxRecv f := rfl

theorem indexOf_br (br : Int) : PyFn.indexOf [106, 212, 424] br =
    match brIndex br with | some b => .ok (b : Int) | none => .error .value := by
  unfold brIndex
  by_cases h1 : br = 106
  · subst h1; rfl
  · by_cases h2 : br = 212
    · subst h2; rfl
    · by_cases h3 : br = 424
      · subst h3; rfl
      · have a : ¬ ((106 : Int) = br) := fun h => h1 h.symm
        have b : ¬ ((212 : Int) = br) := fun h => h2 h.symm
        have c : ¬ ((424 : Int) = br) := fun h => h3 h.symm
        simp [PyFn.indexOf, h1, h2, h3, a, b, c]

theorem nf_eq (pd n3 gi : Bytes) :
    (PyFn.bor (PyFn.bor (if (decide (pd ≠ [])) = true then 1 else 0) (PyFn.shl (if (decide (n3 ≠ [])) = true then 1 else 0) 1)) (PyFn.shl (if (decide (gi ≠ [])) = true then 1 else 0) 2))
      = ((flag pd + 2 * flag n3 + 4 * flag gi : Nat) : Int) := by
  unfold flag
  by_cases a : pd = [] <;> by_cases b : n3 = [] <;> by_cases c : gi = [] <;> simp [a, b, c] <;> rfl

theorem jump_build_aux (act : Bool) (br : Int) (pd n3 gi : Bytes) :
    (if ¬ (br = 106 ∨ br = 212 ∨ br = 424) then Except.error Exc.assertion else
     if ¬ ((PyFn.len pd) = 0 ∨ (PyFn.len pd) = 4 ∨ (PyFn.len pd) = 5) then Except.error Exc.assertion else
     if ¬ ((PyFn.len n3) = 0 ∨ (PyFn.len n3) = 10) then Except.error Exc.assertion else
     if ¬ ((PyFn.len gi) ≤ 48) then Except.error Exc.assertion else
     let cm : Int := (if (decide (act = true)) = true then 1 else 0)
     PyFn.indexOf [106, 212, 424] br >>= fun t1 =>
     let br_1 := t1
     let nf := (PyFn.bor (PyFn.bor (if (decide (pd ≠ [])) = true then 1 else 0) (PyFn.shl (if (decide (n3 ≠ [])) = true then 1 else 0) 1)) (PyFn.shl (if (decide (gi ≠ [])) = true then 1 else 0) 2))
     PyFn.mkBytes [cm, br_1, nf] >>= fun t2 =>
     (Except.ok (((t2 ++ pd) ++ n3) ++ gi) : Py Bytes)) = jumpParams act br pd n3 gi := by
  unfold jumpParams
  simp only [nf_eq, indexOf_br]
  have hb : (br = 106 ∨ br = 212 ∨ br = 424) ↔ brIndex br ≠ none := by
    unfold brIndex
    by_cases h1 : br = 106 <;> by_cases h2 : br = 212 <;> by_cases h3 : br = 424 <;> simp [h1, h2, h3]
  cases hbi : brIndex br with
  | none =>
    have : ¬ (br = 106 ∨ br = 212 ∨ br = 424) := by rw [hb, hbi]; simp
    simp [this]
  | some b =>
    have hbr : (br = 106 ∨ br = 212 ∨ br = 424) := by rw [hb, hbi]; simp
    have hb3 : b < 256 := by
      unfold brIndex at hbi
      by_cases h1 : br = 106 <;> by_cases h2 : br = 212 <;> by_cases h3 : br = 424 <;> simp [h1, h2, h3] at hbi <;> omega
    have hf : flag pd + 2 * flag n3 + 4 * flag gi < 256 := by
      unfold flag; split <;> split <;> split <;> omega
    rw [if_neg (not_not_intro hbr)]
    simp only [lit_cast, len_eq, Int.natCast_inj, Int.ofNat_le, Py.bind_ok]
    by_cases c1 : (pd.length = 0 ∨ pd.length = 4 ∨ pd.length = 5)
    · rw [if_neg (not_not_intro c1)]
      by_cases c2 : (n3.length = 0 ∨ n3.length = 10)
      · rw [if_neg (not_not_intro c2)]
        by_cases c3 : gi.length ≤ 48
        · rw [if_neg (not_not_intro c3), if_pos (show (pd.length = 0 ∨ pd.length = 4 ∨ pd.length = 5) ∧ (n3.length = 0 ∨ n3.length = 10) ∧ gi.length ≤ 48 from ⟨c1, c2, c3⟩)]
          cases act
          · simp only [Bool.false_eq_true, decide_false, if_false, lit_cast, mkBytes_cons, mkBytes_nil, hb3, hf, if_true, Py.bind_ok]
            simp
          · simp only [decide_true, if_true, lit_cast, mkBytes_cons, mkBytes_nil, hb3, hf, Py.bind_ok]
            simp
        · rw [if_pos c3, if_neg (fun h => c3 h.2.2)]
      · rw [if_pos c2, if_neg (fun h => c2 h.2.1)]
    · rw [if_pos c1, if_neg (fun h => c1 h.1)]

theorem jump_psl_build_bridge (act : Bool) (br : Int) (pd n3 gi : Bytes) :
    Gen.Fn.rf_jump_psl_build act br pd n3 gi = jumpParams act br pd n3 gi := jump_build_aux act br pd n3 gi
theorem jump_dep_build_bridge (act : Bool) (br : Int) (pd n3 gi : Bytes) :
    Gen.Fn.rf_jump_dep_build act br pd n3 gi = jumpParams act br pd n3 gi := jump_build_aux act br pd n3 gi

theorem jump_result_aux (d : Bytes) :
    ((if False then Except.ok true else (PyFn.getB d 0 >>= fun t2 => Except.ok (decide (t2 ≠ 0)))) >>= fun t3 =>
     (if (t3 = true) then (Gen.Fn.pn53x_chipset_error_bytes d >>= fun t4 => Except.ok ()) else Except.ok ()) >>= fun () =>
     (Except.ok (PyFn.sliceFrom d 2) : Py Bytes)) = jumpResult d := by
  unfold jumpResult
  rw [Pn53x.chipset_error_bytes_bridge]
  cases d with
  | nil => simp [getB_nil]
  | cons s l =>
    simp only [if_false, lit_cast, getB_idxN, sliceFrom_ofNat, idxN]
    by_cases h : s = 0 <;> simp [h]

theorem jump_psl_result_bridge (d : Bytes) : Gen.Fn.rf_jump_psl_result d = jumpResult d := jump_result_aux d
theorem jump_dep_result_bridge (d : Bytes) : Gen.Fn.rf_jump_dep_result d = jumpResult d := jump_result_aux d

theorem idx_map_filter_zero {α β} (f : α → β) (p : α → Bool) (l : List α) :
    idx ((l.filter p).map f) 0 = match l.find? p with | some a => .ok (f a) | none => .error .index := by
  induction l with
  | nil => simp [idx]
  | cons a l ih =>
    by_cases h : p a = true
    · simp [List.filter_cons, h, idx]
    · simp only [List.filter_cons, h, List.find?_cons]
      simpa using ih

theorem timeout_index_bridge (t : Int) :
    Gen.Fn.rf_timeout_index t =
      match (List.range 16).find? (fun i => decide (t >>> i ≤ 100)) with
      | some i => .ok (((i + 1 : Nat)) : Int) | none => .error .index := by
  unfold Gen.Fn.rf_timeout_index
  have hr : PyFn.range 0 16 = (List.range 16).map (fun (i : Nat) => (0 : Int) + (i : Int)) := rfl
  rw [hr, List.filter_map, List.map_map, idx_map_filter_zero]
  have hp : ((fun (i : Int) => decide (PyFn.shr t i ≤ 100)) ∘ fun (i : Nat) => (0 : Int) + (i : Int)) = (fun (i : Nat) => decide (t >>> i ≤ 100)) := by
    funext i; simp only [PyFn.shr, Function.comp, Int.zero_add, Int.toNat_natCast]
  rw [hp]
  cases (List.range 16).find? (fun i => decide (t >>> i ≤ 100)) with
  | none => rfl
  | some i => simp

/-- the index the driver uses (16 when the list is empty, `except IndexError: index = 16`) -/
theorem timeout_index_value (t : Int) :
    (match Gen.Fn.rf_timeout_index t with | .ok i => i | .error _ => 16) = (timeoutIndex t : Int) := by
  rw [timeout_index_bridge]; unfold timeoutIndex
  cases (List.range 16).find? (fun i => decide (t >>> i ≤ 100)) <;> rfl

/-- the timeout index is one the chip accepts: 1..16 -/
theorem timeoutIndex_range (t : Int) : 1 ≤ timeoutIndex t ∧ timeoutIndex t ≤ 16 := by
  unfold timeoutIndex
  cases h : (List.range 16).find? (fun i => decide (t >>> i ≤ 100)) with
  | none => simp
  | some i =>
    have := List.mem_of_find?_eq_some h
    simp at this; simp; omega

theorem timeout_cfg_bridge (n : Nat) :
    Gen.Fn.rf_timeout_cfg n = if n < 256 then .ok [10, 11, n] else .error .value := by
  unfold Gen.Fn.rf_timeout_cfg
  simp only [lit_cast, mkBytes_cons, mkBytes_nil]
  by_cases h : n < 256 <;> simp [h]

theorem modes_bridge (txm rxm txa brS brR frS frR : Nat) (acm sendA : Bool) :
    Gen.Fn.rf_modes txm rxm txa acm brS brR frS frR sendA =
      (((modes txm rxm txa acm brS brR frS frR sendA).1 : Int), ((modes txm rxm txa acm brS brR frS frR sendA).2.1 : Int),
       ((modes txm rxm txa acm brS brR frS frR sendA).2.2 : Int)) := by
  unfold Gen.Fn.rf_modes modes
  cases acm <;> cases sendA <;>
    simp only [lit_cast, band_ofNat, bor_ofNat, shl_ofNat, Nat.shiftLeft_eq, if_true, if_false, Bool.false_eq_true] <;> rfl

/-! ## listen as Type A target -/
theorem lta_checks_bridge (sens sdd sel : Bytes) : Gen.Fn.rf_lta_checks sens sdd sel = ltaChecks sens sdd sel := by
  unfold Gen.Fn.rf_lta_checks ltaChecks
  simp only [lit_cast, len_eq, Int.natCast_inj, getB_idxN]
  by_cases h1 : sens.length = 2 <;> by_cases h2 : sdd.length = 4 <;> by_cases h3 : sel.length = 1 <;> simp only [h1, h2, h3, not_true_eq_false, not_false_eq_true, if_true, if_false, true_and, false_and, and_false]
  cases sdd with
  | nil => simp at h2
  | cons a l => by_cases h : a = 8 <;> simp [idxN, h] <;> omega

theorem range18 : PyFn.mkBytes (PyFn.range 0 18) = .ok dummyFelica := by decide

theorem lta_params_bridge (sens sdd sel : Bytes) :
    Gen.Fn.rf_lta_params sens sdd sel = .ok (dummyFelica, nfcaParams sens sdd sel) := by
  unfold Gen.Fn.rf_lta_params nfcaParams
  rw [range18]
  simp only [Py.bind_ok, lit_cast, slice_ofNat, sliceN]

theorem lta_brty_index_bridge (data : Bytes) :
    Gen.Fn.rf_lta_brty_index data = (modeBrty data >>= fun n => .ok (n : Int)) := by
  unfold Gen.Fn.rf_lta_brty_index modeBrty
  simp only [lit_cast, getB_idxN]
  cases idxN data 0 <;> simp only [Py.bind_ok, Py.bind_error, band_ofNat, shr_ofNat, Nat.shiftRight_eq_div_pow] <;> rfl

theorem ldep_brty_index_bridge (data : Bytes) :
    Gen.Fn.rf_ldep_brty_index data = (modeBrty data >>= fun n => .ok (n : Int)) := by
  unfold Gen.Fn.rf_ldep_brty_index modeBrty
  simp only [lit_cast, getB_idxN]
  cases idxN data 0 <;> simp only [Py.bind_ok, Py.bind_error, band_ofNat, shr_ofNat, Nat.shiftRight_eq_div_pow] <;> rfl

theorem ldep_mode_index_bridge (data : Bytes) :
    Gen.Fn.rf_ldep_mode_index data = (modeActive data >>= fun n => .ok (n : Int)) := by
  unfold Gen.Fn.rf_ldep_mode_index modeActive
  simp only [lit_cast, getB_idxN]
  cases idxN data 0 <;> simp only [Py.bind_ok, Py.bind_error, band_ofNat, and1]

theorem lta_short_bridge (data : Bytes) : Gen.Fn.rf_lta_short data = decide (data.length < 2) := by
  unfold Gen.Fn.rf_lta_short
  simp only [lit_cast, len_eq, Int.ofNat_lt]

theorem lta_is_rats_bridge (data sel : Bytes) : Gen.Fn.rf_lta_is_rats data sel = isRats data sel := by
  unfold Gen.Fn.rf_lta_is_rats isRats
  simp only [lit_cast, getB_idxN]
  cases idxN sel 0 with
  | error e => rfl
  | ok s =>
    simp only [Py.bind_ok, band_ofNat, Int.natCast_inj]
    by_cases h : s &&& 32 = 32
    · simp only [h, if_true]
      cases idxN data 1 <;> simp only [Py.bind_ok, Py.bind_error, Int.natCast_inj] <;> simp
    · simp [h]

theorem lta_is_atr_bridge (data sel : Bytes) : Gen.Fn.rf_lta_is_atr data sel = isAtrA data sel := by
  unfold Gen.Fn.rf_lta_is_atr isAtrA
  simp only [lit_cast, getB_idxN, slice_ofNat, sliceN, len_eq]
  cases idxN sel 0 with
  | error e => rfl
  | ok s =>
    simp only [Py.bind_ok, band_ofNat, Int.natCast_inj, ne_eq]
    by_cases h : s &&& 64 = 0
    · simp [h]
    · simp only [h, not_false_eq_true, if_true]
      cases idxN data 1 with
      | error e => rfl
      | ok c =>
        simp only [Py.bind_ok, Int.natCast_inj, Int.ofNat_le, ge_iff_le]
        by_cases h2 : c = 240 ∧ 19 ≤ data.length
        · simp only [h2, and_self, if_true]
          cases idxN data 2 with
          | error e => rfl
          | ok l =>
            simp only [Py.bind_ok, cast_eq_sub]
            simp
        · simp [h2]

theorem lta_rats_res_bridge (data : Bytes) (r : Option Bytes) : Gen.Fn.rf_lta_rats_res data r = ratsRes data r := by
  unfold Gen.Fn.rf_lta_rats_res ratsRes defaultRatsRes
  simp only [lit_cast, sliceFrom_ofNat]
  cases r with
  | none => simp
  | some s => cases s <;> simp

theorem lta_is_deselect_bridge (data : Bytes) : Gen.Fn.rf_lta_is_deselect data = isDeselect data := by
  unfold Gen.Fn.rf_lta_is_deselect isDeselect
  cases data with
  | nil => simp
  | cons b l =>
    have e : idxN (b :: l) 0 = .ok b := rfl
    simp only [ne_eq, List.cons_ne_nil, not_false_eq_true, if_true, reduceCtorEq, lit_cast, getB_idxN, e, Py.bind_ok, band_ofNat, Int.natCast_inj, decide_eq_true_eq]

theorem lta_tt2_cmd_bridge (data : Bytes) : Gen.Fn.rf_lta_tt2_cmd data = data.drop 1 := by
  unfold Gen.Fn.rf_lta_tt2_cmd; simp only [lit_cast, sliceFrom_ofNat]
theorem lta_atr_req_bridge (data : Bytes) : Gen.Fn.rf_lta_atr_req data = data.drop 3 := by
  unfold Gen.Fn.rf_lta_atr_req; simp only [lit_cast, sliceFrom_ofNat]
theorem lta_sens_res_bridge (p : Bytes) : Gen.Fn.rf_lta_sens_res p = ltaSens p := by
  unfold Gen.Fn.rf_lta_sens_res ltaSens; simp only [lit_cast, slice_ofNat, sliceN, List.drop_zero, Nat.sub_zero]
theorem lta_sdd_res_bridge (p : Bytes) : Gen.Fn.rf_lta_sdd_res p = ltaSdd p := by
  unfold Gen.Fn.rf_lta_sdd_res ltaSdd; simp only [lit_cast, slice_ofNat, sliceN]; rfl
theorem lta_sel_res_bridge (p : Bytes) : Gen.Fn.rf_lta_sel_res p = ltaSel p := by
  unfold Gen.Fn.rf_lta_sel_res ltaSel; simp only [lit_cast, slice_ofNat, sliceN]

/-! ## listen as Type F target -/
theorem ltf_checks_bridge (sensf : Bytes) : Gen.Fn.rf_ltf_checks sensf = ltfChecks sensf := by
  unfold Gen.Fn.rf_ltf_checks ltfChecks
  simp only [lit_cast, len_eq, Int.natCast_inj]
  by_cases h : sensf.length = 19 <;> simp [h]

theorem ltf_params_bridge (sensf : Bytes) : Gen.Fn.rf_ltf_params sensf = .ok (ltfParams sensf) := by
  unfold Gen.Fn.rf_ltf_params ltfParams
  have : PyFn.zeros 6 = .ok (List.replicate 6 0) := rfl
  rw [this]; simp only [Py.bind_ok, lit_cast, sliceFrom_ofNat]

theorem ltf_modes_bridge (kbps : Nat) : Gen.Fn.rf_ltf_modes kbps = (ltfTxMode kbps : Int) := by
  unfold Gen.Fn.rf_ltf_modes ltfTxMode
  simp only [lit_cast, ← Int.natCast_ediv, shl_ofNat, bor_ofNat, Nat.shiftLeft_eq]

theorem ltf_irq_bridge (c : Nat) : Gen.Fn.rf_ltf_irq c = ltfIrq c := by
  unfold Gen.Fn.rf_ltf_irq ltfIrq
  simp only [lit_cast, band_ofNat, Int.natCast_inj]

theorem ltf_len_ok_bridge (fifo : Bytes) : Gen.Fn.rf_ltf_len_ok fifo = ltfLenOk fifo := by
  unfold Gen.Fn.rf_ltf_len_ok ltfLenOk
  cases fifo with
  | nil => simp
  | cons b l =>
    have e : idxN (b :: l) 0 = .ok b := rfl
    simp only [ne_eq, List.cons_ne_nil, not_false_eq_true, if_true, reduceCtorEq, lit_cast, getB_idxN, e, Py.bind_ok, len_eq, Int.natCast_inj, decide_eq_true_eq]

theorem ltf_for_us_bridge (fifo nfcf : Bytes) : Gen.Fn.rf_ltf_for_us fifo nfcf = ltfForUs fifo nfcf := by
  unfold Gen.Fn.rf_ltf_for_us ltfForUs
  simp only [lit_cast, slice_ofNat, sliceN, List.drop_zero, Nat.sub_zero]

theorem ltf_sensf_res_bridge (p : Bytes) : Gen.Fn.rf_ltf_sensf_res p = 1 :: p := rfl
theorem ltf_tt3_cmd_bridge (fifo : Bytes) : Gen.Fn.rf_ltf_tt3_cmd fifo = fifo.drop 1 := by
  unfold Gen.Fn.rf_ltf_tt3_cmd; simp only [lit_cast, sliceFrom_ofNat]

/-! ## listen as DEP target -/
theorem ldep_params_bridge (sens sdd sel sensf : Bytes) :
    Gen.Fn.rf_ldep_params sens sdd sel sensf = ldepParams sens sdd sel sensf := by
  unfold Gen.Fn.rf_ldep_params ldepParams nfcaParams
  simp only [lit_cast, slice_ofNat, sliceN, len_eq, Int.natCast_inj]
  by_cases h1 : (sens ++ List.take (4 - 1) (List.drop 1 sdd) ++ sel).length = 6
  · by_cases h2 : (List.take (19 - 1) (List.drop 1 sensf)).length = 18
    · simp only [h1, h2, not_true_eq_false, if_false]; simp [h1, h2]
    · simp only [h1, h2, not_true_eq_false, not_false_eq_true, if_false, if_true]; simp [h2]
  · simp only [h1, not_false_eq_true, if_true]; simp [h1]

theorem ldep_is_atr_bridge (data : Bytes) : Gen.Fn.rf_ldep_is_atr data = notAtr data := by
  unfold Gen.Fn.rf_ldep_is_atr notAtr
  simp only [lit_cast, getB_idxN, slice_ofNat, sliceN, len_eq]
  cases idxN data 1 with
  | error e => rfl
  | ok l => simp only [Py.bind_ok, cast_eq_sub]

theorem ldep_is_psl_bridge (data : Bytes) : Gen.Fn.rf_ldep_is_psl data = isPslReq data := rfl

theorem ldep_psl_req_bridge (data atr_req : Bytes) : Gen.Fn.rf_ldep_psl_req data atr_req = pslReq data atr_req := by
  unfold Gen.Fn.rf_ldep_psl_req pslReq
  simp only [lit_cast, sliceFrom_ofNat, len_eq, Int.natCast_inj, getB_idxN]
  by_cases h : (data.drop 1).length = 5
  · simp only [h, not_true_eq_false, if_false, if_true]
    cases idxN (data.drop 1) 2 with
    | error e => rfl
    | ok d =>
      cases idxN atr_req 12 with
      | error e => rfl
      | ok d' =>
        simp only [Py.bind_ok, Int.natCast_inj]
        by_cases hd : d = d' <;> simp [hd]
  · rw [if_pos h, if_neg h]

theorem ldep_psl_res_bridge (p : Bytes) : Gen.Fn.rf_ldep_psl_res p = pslRes p := by
  unfold Gen.Fn.rf_ldep_psl_res pslRes; simp only [lit_cast, slice_ofNat, sliceN]; rfl

theorem ldep_is_dep_bridge (data : Bytes) : Gen.Fn.rf_ldep_is_dep data = isDepReq data := by
  unfold Gen.Fn.rf_ldep_is_dep isDepReq
  cases data with
  | nil => simp
  | cons b l =>
    have e : idxN (b :: l) 0 = .ok b := rfl
    simp only [ne_eq, List.cons_ne_nil, not_false_eq_true, if_true, reduceCtorEq, lit_cast, getB_idxN, e, Py.bind_ok, len_eq, Int.natCast_inj, slice_ofNat, sliceN, decide_eq_true_eq]

theorem ldep_dep_req_bridge (data : Bytes) : Gen.Fn.rf_ldep_dep_req data = data.drop 1 := by
  unfold Gen.Fn.rf_ldep_dep_req; simp only [lit_cast, sliceFrom_ofNat]

theorem len_frame_aux (p : Bytes) :
    (PyFn.mkBytes [((PyFn.len p) + 1)] >>= fun t1 => (Except.ok (t1 ++ p) : Py Bytes)) = lenFrame p := by
  unfold lenFrame
  simp only [lit_cast, len_eq, ← Int.natCast_add, mkBytes_cons, mkBytes_nil]
  by_cases h : p.length + 1 < 256 <;> simp [h]

theorem atr_frame_bridge (p : Bytes) : Gen.Fn.rf_atr_frame p = lenFrame p := len_frame_aux p
theorem psl_frame_bridge (p : Bytes) : Gen.Fn.rf_psl_frame p = lenFrame p := len_frame_aux p

/-! ## PSL speed change -/
theorem bor_zero' (x : Nat) : PyFn.bor (x : Int) 0 = (x : Int) := by
  show ((x ||| 0 : Nat) : Int) = x; simp
theorem psl_tx_bridge (dri tx : Nat) : Gen.Fn.rf_psl_tx dri tx = (speedMode tx dri : Int) := by
  unfold Gen.Fn.rf_psl_tx speedMode
  simp only [lit_cast, band_ofNat, bor_ofNat, shl_ofNat, Nat.shiftLeft_eq, and3, Int.natCast_inj, Int.ofNat_lt, gt_iff_lt, ne_eq]
  by_cases h : ((tx &&& 143 ||| dri * 2 ^ 4) % 4 = 1)
  · simp [h]
  · by_cases h2 : 0 < dri <;> simp [h, h2] <;> first | rfl | exact bor_zero' _

theorem psl_rx_bridge (p : Bytes) (rx : Nat) :
    Gen.Fn.rf_psl_rx p rx = (pslRx p rx >>= fun (r : Nat × Nat × Nat) => .ok ((r.1 : Int), (r.2.1 : Int), (r.2.2 : Int))) := by
  unfold Gen.Fn.rf_psl_rx pslRx speedMode
  simp only [lit_cast, getB_idxN]
  cases idxN p 3 with
  | error e => rfl
  | ok b =>
    simp only [Py.bind_ok, band_ofNat, bor_ofNat, shr_ofNat, shl_ofNat, Nat.shiftLeft_eq, Nat.shiftRight_eq_div_pow, and3, and7, Int.natCast_inj, Int.ofNat_lt, gt_iff_lt, ne_eq]
    by_cases h : ((rx &&& 143 ||| b / 2 ^ 3 % 8 * 2 ^ 4) % 4 = 1)
    · simp [h]
    · by_cases h2 : 0 < b / 2 ^ 3 % 8 <;> simp [h, h2] <;> first | rfl | exact bor_zero' _

/-! ## TgInitAsTarget -/
theorem nfcid3t_531_bridge (m : Int) (a f : Bytes) : Gen.Fn.rf531_nfcid3t m a f = nfcid3t f := by
  unfold Gen.Fn.rf531_nfcid3t nfcid3t; simp only [lit_cast, slice_ofNat, sliceN, List.drop_zero, Nat.sub_zero]
theorem nfcid3t_532_bridge (m : Int) (a f : Bytes) : Gen.Fn.rf532_nfcid3t m a f = nfcid3t f := by
  unfold Gen.Fn.rf532_nfcid3t nfcid3t; simp only [lit_cast, slice_ofNat, sliceN, List.drop_zero, Nat.sub_zero]
theorem nfcid3t_533_bridge (m : Int) (a f : Bytes) : Gen.Fn.rf533_nfcid3t m a f = nfcid3t f := by
  unfold Gen.Fn.rf533_nfcid3t nfcid3t; simp only [lit_cast, slice_ofNat, sliceN, List.drop_zero, Nat.sub_zero]
theorem nfcid3t_956_bridge (m : Int) (a f : Bytes) : Gen.Fn.rf956_nfcid3t m a f = nfcid3t f := by
  unfold Gen.Fn.rf956_nfcid3t nfcid3t; simp only [lit_cast, slice_ofNat, sliceN, List.drop_zero, Nat.sub_zero]

theorem mode_956_bridge (m : Nat) : Gen.Fn.rf956_mode m = ((m &&& 0xFE : Nat) : Int) := rfl
theorem mode_ok_531_bridge (m : Nat) : Gen.Fn.rf531_mode_ok m = decide (m &&& 0xFC = 0) := by
  unfold Gen.Fn.rf531_mode_ok; simp only [lit_cast, band_ofNat, Int.natCast_inj]
theorem mode_ok_532_bridge (m : Nat) : Gen.Fn.rf532_mode_ok m = decide (m &&& 0xF8 = 0) := by
  unfold Gen.Fn.rf532_mode_ok; simp only [lit_cast, band_ofNat, Int.natCast_inj]
theorem mode_ok_533_bridge (m : Nat) : Gen.Fn.rf533_mode_ok m = decide (m &&& 0xFC = 0) := by
  unfold Gen.Fn.rf533_mode_ok; simp only [lit_cast, band_ofNat, Int.natCast_inj]
theorem mode_ok_956_bridge (m : Nat) : Gen.Fn.rf956_mode_ok m = decide (m &&& 0xFD = 0) := by
  unfold Gen.Fn.rf956_mode_ok; simp only [lit_cast, band_ofNat, Int.natCast_inj]

theorem mkBytes_one (m : Int) : PyFn.mkBytes [m] = if 0 ≤ m ∧ m ≤ 255 then .ok [m.toNat] else .error .value := by
  unfold PyFn.mkBytes
  by_cases h : m < 0 ∨ m > 255
  · have : ¬ (0 ≤ m ∧ m ≤ 255) := by omega
    simp [h, this]
  · have : (0 ≤ m ∧ m ≤ 255) := by omega
    simp [h, this, PyFn.mkBytes]

theorem tg_init_short_aux (mode : Int) (a f n gt : Bytes) :
    (if ¬ ((PyFn.len a) = 6) then Except.error Exc.assertion else
     if ¬ ((PyFn.len f) = 18) then Except.error Exc.assertion else
     if ¬ ((PyFn.len n) = 10) then Except.error Exc.assertion else
     PyFn.mkBytes [mode] >>= fun t1 => (Except.ok ((((t1 ++ a) ++ f) ++ n) ++ gt) : Py Bytes)) = tgInitShort mode a f n gt := by
  unfold tgInitShort tgInitChecks
  simp only [lit_cast, len_eq, Int.natCast_inj, mkBytes_one]
  by_cases h1 : a.length = 6 <;> by_cases h2 : f.length = 18 <;> by_cases h3 : n.length = 10 <;>
    simp only [h1, h2, h3, not_true_eq_false, not_false_eq_true, if_true, if_false, and_self, and_false, false_and]
  by_cases hm : 0 ≤ mode ∧ mode ≤ 255 <;> simp [hm]

theorem tg_init_531_bridge (mode : Int) (a f n gt : Bytes) : Gen.Fn.rf531_tg_init mode a f n gt = tgInitShort mode a f n gt :=
  tg_init_short_aux mode a f n gt
theorem tg_init_956_bridge (mode : Int) (a f n gt : Bytes) : Gen.Fn.rf956_tg_init mode a f n gt = tgInitShort mode a f n gt :=
  tg_init_short_aux mode a f n gt

theorem tg_init_long_aux (mode : Int) (a f n gt tk : Bytes) :
    (if ¬ ((PyFn.len a) = 6) then Except.error Exc.assertion else
     if ¬ ((PyFn.len f) = 18) then Except.error Exc.assertion else
     if ¬ ((PyFn.len n) = 10) then Except.error Exc.assertion else
     PyFn.mkBytes [mode] >>= fun t1 =>
     PyFn.mkBytes [(PyFn.len gt)] >>= fun t2 =>
     PyFn.mkBytes [(PyFn.len tk)] >>= fun t3 =>
     (Except.ok (((((((t1 ++ a) ++ f) ++ n) ++ t2) ++ gt) ++ t3) ++ tk) : Py Bytes)) = tgInitLong mode a f n gt tk := by
  unfold tgInitLong tgInitChecks
  simp only [lit_cast, len_eq, Int.natCast_inj, mkBytes_one]
  by_cases h1 : a.length = 6 <;> by_cases h2 : f.length = 18 <;> by_cases h3 : n.length = 10 <;>
    simp only [h1, h2, h3, not_true_eq_false, not_false_eq_true, if_true, if_false, and_self, and_false, false_and]
  by_cases hm : ((0 : Nat) : Int) ≤ mode ∧ mode ≤ ((255 : Nat) : Int)
  · simp only [if_pos hm, Py.bind_ok]
    by_cases hg : gt.length < 256
    · have hg' : (((0 : Nat) : Int) ≤ (gt.length : Int) ∧ (gt.length : Int) ≤ ((255 : Nat) : Int)) := by omega
      simp only [if_pos hg', if_pos hg, Py.bind_ok]
      by_cases ht : tk.length < 256
      · have ht' : (((0 : Nat) : Int) ≤ (tk.length : Int) ∧ (tk.length : Int) ≤ ((255 : Nat) : Int)) := by omega
        simp only [if_pos ht', if_pos ht, Py.bind_ok]
        simp
      · have ht' : ¬ (((0 : Nat) : Int) ≤ (tk.length : Int) ∧ (tk.length : Int) ≤ ((255 : Nat) : Int)) := by omega
        simp only [if_neg ht', if_neg ht, Py.bind_error]
    · have hg' : ¬ (((0 : Nat) : Int) ≤ (gt.length : Int) ∧ (gt.length : Int) ≤ ((255 : Nat) : Int)) := by omega
      simp only [if_neg hg', if_neg hg, Py.bind_error]
  · simp only [if_neg hm, Py.bind_error]

theorem tg_init_532_bridge (mode : Int) (a f n gt tk : Bytes) : Gen.Fn.rf532_tg_init mode a f n gt tk = tgInitLong mode a f n gt tk :=
  tg_init_long_aux mode a f n gt tk
theorem tg_init_533_bridge (mode : Int) (a f n gt tk : Bytes) : Gen.Fn.rf533_tg_init mode a f n gt tk = tgInitLong mode a f n gt tk :=
  tg_init_long_aux mode a f n gt tk

/-! ## PN531 / RC-S956 specials, Type 1 Tag routing -/
theorem sdd_fix_bridge (sdd : Bytes) : Gen.Fn.rf531_sdd_fix sdd = sddFix sdd := by
  unfold Gen.Fn.rf531_sdd_fix sddFix
  simp only [lit_cast, len_eq, Int.natCast_inj, slice_ofNat, sliceFrom_ofNat, sliceN]

theorem sdd_long_bridge (sdd : Bytes) : Gen.Fn.rf531_sdd_long sdd = decide (4 < sdd.length) := by
  unfold Gen.Fn.rf531_sdd_long; simp only [lit_cast, len_eq, Int.ofNat_lt, gt_iff_lt]

theorem lr_test_req_bridge (a : Bytes) : Gen.Fn.rf531_lr_test_req a = (idxN a 15 >>= fun b => .ok (lrIs254 b)) := by
  unfold Gen.Fn.rf531_lr_test_req lrIs254
  simp only [lit_cast, getB_idxN]
  cases idxN a 15 <;> simp only [Py.bind_ok, Py.bind_error, band_ofNat, Int.natCast_inj]

theorem lr_test_res_bridge (a : Bytes) : Gen.Fn.rf531_lr_test_res a = (idxN a 16 >>= fun b => .ok (lrIs254 b)) := by
  unfold Gen.Fn.rf531_lr_test_res lrIs254
  simp only [lit_cast, getB_idxN]
  cases idxN a 16 <;> simp only [Py.bind_ok, Py.bind_error, band_ofNat, Int.natCast_inj]

theorem lr_fix_req_bridge (a : Bytes) : Gen.Fn.rf531_lr_fix_req a = (idxN a 15 >>= fun b => .ok ((lrLower b : Nat) : Int)) := by
  unfold Gen.Fn.rf531_lr_fix_req lrLower
  simp only [lit_cast, getB_idxN]
  cases idxN a 15 <;> simp only [Py.bind_ok, Py.bind_error, band_ofNat, bor_ofNat]

theorem tt1_dynamic_bridge (rid : Bytes) : Gen.Fn.rf956_tt1_dynamic rid = tt1Dynamic rid := by
  unfold Gen.Fn.rf956_tt1_dynamic tt1Dynamic
  simp only [lit_cast, getB_idxN]
  cases idxN rid 0 with
  | error e => rfl
  | ok h =>
    simp only [Py.bind_ok, shr_ofNat, band_ofNat, Nat.shiftRight_eq_div_pow, and15, Int.natCast_inj, ne_eq]
    by_cases c : h / 2 ^ 4 = 1
    · have c' : h / 16 = 1 := c
      simp [c, c']
    · have c' : ¬ h / 16 = 1 := c
      simp [c, c']

theorem no_tt4_bridge (sel : Bytes) : Gen.Fn.rf956_no_tt4 sel = selIsTt4 sel := by
  unfold Gen.Fn.rf956_no_tt4 selIsTt4
  cases sel with
  | nil => simp
  | cons b l =>
    have e : idxN (b :: l) 0 = .ok b := rfl
    simp only [ne_eq, List.cons_ne_nil, not_false_eq_true, if_true, lit_cast, getB_idxN, e, Py.bind_ok, band_ofNat, Int.natCast_inj, decide_eq_true_eq]

theorem to_956_bridge (a : Bytes) : Gen.Fn.rf956_to a = (idxN a 15 >>= fun b => .ok ((b % 16 : Nat) : Int)) := by
  unfold Gen.Fn.rf956_to
  simp only [lit_cast, getB_idxN]
  cases idxN a 15 <;> simp only [Py.bind_ok, Py.bind_error, band_ofNat, and15]

theorem to_cfg_956_bridge (t : Nat) : Gen.Fn.rf956_to_cfg t = if t < 256 then .ok [t, 2, t] else .error .value := by
  unfold Gen.Fn.rf956_to_cfg
  simp only [lit_cast, mkBytes_cons, mkBytes_nil]
  by_cases h : t < 256 <;> simp [h]

theorem atr_gb_956_bridge (a : Bytes) : Gen.Fn.rf956_atr_gb a = a.drop 17 := by
  unfold Gen.Fn.rf956_atr_gb; simp only [lit_cast, sliceFrom_ofNat]

theorem tt1_native_aux (data : Bytes) :
    (PyFn.getB data 0 >>= fun t1 => (Except.ok (decide (t1 = 0 ∨ t1 = 1 ∨ t1 = 26 ∨ t1 = 83 ∨ t1 = 114)) : Py Bool)) = tt1Native data := by
  unfold tt1Native
  simp only [lit_cast, getB_idxN]
  cases idxN data 0 <;> simp only [Py.bind_ok, Py.bind_error, Int.natCast_inj] <;> simp

theorem tt1_native_532_bridge (d : Bytes) : Gen.Fn.rf532_tt1_native d = tt1Native d := tt1_native_aux d
theorem tt1_native_533_bridge (d : Bytes) : Gen.Fn.rf533_tt1_native d = tt1Native d := tt1_native_aux d
theorem tt1_native_956_bridge (d : Bytes) : Gen.Fn.rf956_tt1_native d = tt1Native d := tt1_native_aux d

theorem tt1_fifo_empty_bridge (n : Int) :
    Gen.Fn.rf532_tt1_fifo_empty n = if n = 0 then .error .timeout else .ok () := rfl

/-! ## property-relevant facts -/
/-- C18: the SENS_RES of a discovered Type A target has 2 octets, its SDD_RES is the NFCID1 the chip reported (4 / 7 /
10 octets when the chip reports an NFCID1 of that length), its SEL_RES 1 octet -/
theorem gen_tta_fields_lengths (s0 s1 sel : Nat) (uid : Bytes) :
    Gen.Fn.rf_tta_fields (ttaTargetData s0 s1 sel uid) = ([s1, s0], [sel], uid) := by
  rw [tta_fields_bridge]; rfl

theorem gen_tta_sdd_len (s0 s1 sel : Nat) (uid : Bytes) (h : uid.length = 4 ∨ uid.length = 7 ∨ uid.length = 10) :
    (Gen.Fn.rf_tta_fields (ttaTargetData s0 s1 sel uid)).1.length = 2 ∧
    ((Gen.Fn.rf_tta_fields (ttaTargetData s0 s1 sel uid)).2.2.length = 4 ∨
     (Gen.Fn.rf_tta_fields (ttaTargetData s0 s1 sel uid)).2.2.length = 7 ∨
     (Gen.Fn.rf_tta_fields (ttaTargetData s0 s1 sel uid)).2.2.length = 10) := by
  rw [gen_tta_fields_lengths]; exact ⟨rfl, h⟩

/-- the initiator data for a 4 / 7 / 10 octet NFCID1 has 4 / 8 / 12 octets (cascade tags inserted) -/
theorem ttaUid_len (u : Bytes) (h : u.length = 4 ∨ u.length = 7 ∨ u.length = 10) :
    (ttaUid u).length = u.length + (u.length - 1) / 3 - 1 := by
  unfold ttaUid
  rcases h with h | h | h <;> simp [h] <;> omega

/-- PN531: the cascade tags are removed again: SDD_RES of 4 / 8 / 12 octets becomes 4 / 7 / 10 -/
theorem gen_sdd_fix_len (sdd : Bytes) (h : sdd.length = 4 ∨ sdd.length = 8 ∨ sdd.length = 12) :
    (Gen.Fn.rf531_sdd_fix sdd).length = 4 ∨ (Gen.Fn.rf531_sdd_fix sdd).length = 7 ∨ (Gen.Fn.rf531_sdd_fix sdd).length = 10 := by
  rw [sdd_fix_bridge]; unfold sddFix
  rcases h with h | h | h <;> simp [h] <;> omega

/-- C19: `sense_dep` only goes on with an ATR_REQ of 16..64 octets; the general bytes handed to the chip are
at most 48 octets then -/
theorem gen_dep_checks_len (a : Bytes) (s r : String) (h : Gen.Fn.rf_dep_checks a s r = .ok ()) :
    16 ≤ a.length ∧ a.length ≤ 64 ∧ (Gen.Fn.rf_dep_args a).1.length = 10 ∧ (Gen.Fn.rf_dep_args a).2.length ≤ 48 := by
  rw [dep_checks_bridge] at h; unfold depChecks at h
  split at h
  · rename_i c
    rw [dep_args_bridge]; unfold depArgs
    simp; omega
  · cases h

/-- C18 (listen): a Type A activation is accepted as NFC-DEP only for an ATR_REQ frame of 17..  octets with a
consistent length octet; the ATR_REQ handed on (`data[3:]`) has at least 16 octets -/
theorem gen_lta_atr_len (data sel : Bytes) (h : Gen.Fn.rf_lta_is_atr data sel = .ok true) :
    16 ≤ (Gen.Fn.rf_lta_atr_req data).length := by
  rw [lta_atr_req_bridge]
  rw [lta_is_atr_bridge] at h; unfold isAtrA at h
  cases hs : idxN sel 0 with
  | error e => rw [hs] at h; cases h
  | ok s =>
    rw [hs] at h; simp only [Py.bind_ok] at h
    split at h
    · cases hc : idxN data 1 with
      | error e => rw [hc] at h; cases h
      | ok c =>
        rw [hc] at h; simp only [Py.bind_ok] at h
        split at h
        · rename_i hh; simp; omega
        · cases h
    · cases h

/-- C13: the status evaluation of InJumpForPSL / InJumpForDEP raises only `Chipset.Error` (caught by `sense_dep`:
`Props/ExcFlowDrivers.lean`) or `IndexError` on an empty answer (`Chipset.command` never returns one: group Pn53x
`gen_accept_sound`) -/
theorem gen_jump_result_excs (d : Bytes) (e : Exc) (h : Gen.Fn.rf_jump_psl_result d = .error e) :
    e = .index ∨ ∃ n, e = .chipsetError n := by
  rw [jump_psl_result_bridge] at h; unfold jumpResult at h
  cases d with
  | nil => left; cases h; rfl
  | cons s l =>
    simp only at h
    split at h
    · cases h
    · right; exact ⟨s, by cases h; rfl⟩

/-- the timeout index written to RFConfiguration is one the chip accepts (1..16), for every timeout -/
theorem gen_timeout_index_range (t : Int) :
    1 ≤ (match Gen.Fn.rf_timeout_index t with | .ok i => i | .error _ => 16) ∧
    (match Gen.Fn.rf_timeout_index t with | .ok i => i | .error _ => 16) ≤ 16 := by
  rw [timeout_index_value]; have := timeoutIndex_range t; omega

/-- frame size limits: what `get_max_send_data_size` allows plus TFI, command code fits the host frame -/
theorem gen_max_sizes (f : Int) : Gen.Fn.rf_max_send 0 f + 2 = f ∧ Gen.Fn.rf_max_recv 0 f + 3 = f := by
  unfold Gen.Fn.rf_max_send Gen.Fn.rf_max_recv; omega

/-! ## non-vacuity -/
example : Gen.Fn.rf_in_list_result [1, 1, 0x44, 0x00, 0x00, 4, 1, 2, 3, 4] = .ok (some [0x44, 0x00, 0x00, 4, 1, 2, 3, 4]) := by decide
example : Gen.Fn.rf_in_list_result [0] = .ok none := by decide
example : Gen.Fn.rf_tta_fields [0x44, 0x03, 0x00, 7, 4, 1, 2, 3, 4, 5, 6] = ([0x03, 0x44], [0x00], [4, 1, 2, 3, 4, 5, 6]) := by decide
example : Gen.Fn.rf_tta_uid (some [1, 2, 3, 4, 5, 6, 7]) = [0x88, 1, 2, 3, 4, 5, 6, 7] := by decide
example : Gen.Fn.rf_tta_uid (some [1, 2, 3, 4, 5, 6, 7, 8, 9, 10]) = [0x88, 1, 2, 3, 0x88, 4, 5, 6, 7, 8, 9, 10] := by decide
example : Gen.Fn.rf_tta_is_tt2 [0x00] = .ok true := by decide
example : Gen.Fn.rf_tta_is_tt2 [0x20] = .ok false := by decide
example : Gen.Fn.rf_ttf_req none = [0, 0xFF, 0xFF, 1, 0] := by decide
example : Gen.Fn.rf_jump_psl_build true 424 [] (List.replicate 10 1) [0x46] = .ok ([1, 2, 6] ++ List.replicate 10 1 ++ [0x46]) := by decide
example : Gen.Fn.rf_jump_psl_result [0x01] = .error (.chipsetError 1) := by decide
example : Gen.Fn.rf_jump_psl_result [0, 1, 0xD5, 0x01] = .ok [0xD5, 0x01] := by decide
example : Gen.Fn.rf_timeout_index 100 = .ok 1 := by decide
example : Gen.Fn.rf_timeout_index 1000000 = .ok 15 := by decide
example : Gen.Fn.rf_timeout_index 100000000 = .error .index := by decide
example : Gen.Fn.rf_lta_is_rats [0x00, 0xE0, 0x80] [0x20] = .ok true := by decide
example : Gen.Fn.rf_lta_is_atr ([0x00, 0xF0, 17, 0xD4, 0x00] ++ List.replicate 14 0) [0x40] = .ok true := by decide
example : Gen.Fn.rf_lta_is_atr ([0x00, 0xF0, 18, 0xD4, 0x00] ++ List.replicate 14 0) [0x40] = .ok false := by decide
example : Gen.Fn.rf_ldep_is_dep [4, 0xD4, 0x06, 0] = .ok true := by decide
example : Gen.Fn.rf_psl_rx [0xD4, 0x04, 0, 0x12, 3] 0x80 = .ok (2, 2, 0xA2) := by decide
example : Gen.Fn.rf531_sdd_fix [0x88, 1, 2, 3, 4, 5, 6, 7] = [1, 2, 3, 4, 5, 6, 7] := by decide
example : Gen.Fn.rf956_tt1_dynamic [0x12, 0x4C] = .ok true := by decide
example : Gen.Fn.rf532_tg_init 2 (List.replicate 6 0) (List.replicate 18 0) (List.replicate 10 0) [] [] =
    .ok (2 :: List.replicate 34 0 ++ [0, 0]) := by decide

end NfcVerif.FnBridge.Pn53xRf
