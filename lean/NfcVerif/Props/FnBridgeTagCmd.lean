import NfcVerif.Lemmas.FnBridgeTagCmd
import NfcVerif.Lemmas.AdvT3
import NfcVerif.Model.T3
import NfcVerif.Lemmas.T3
import NfcVerif.Model.T3Format
/-!
# Bridge theorems, group TagCmd (`nfc/tag/tt1.py`, `tt2.py`, `tt3.py` -> `Gen/FnTagCmd.lean`)

Properties C16 (the frame that is retried), C08 (what the readers send to / accept from an adversarial
tag), C01-C03 (the address octets of the write commands, the NDEF TLV header size).

The regenerated functions are the pure statement ranges in front of and behind the `transceive` /
`exchange` call of each command method (the cut is named in the doc comment of each generated
definition).  Each is proved equal, for all inputs, to the reference definition of
`Model/FnTagCmdRef.lean` or to the model function that already existed (`Tlv.hdrLen`,
`Auth.t3Command`, `Adv.checkRsp3`, `Adv.blockCode`); `Lemmas/FnBridgeTagCmd.lean` shows that the C08
reader models (`stageA`, `stageB`, `segLoop`, `read2`) send and check exactly these reference
commands.  Encodings: Python ints are `Int`; where the model's domain is the naturals the theorem
is stated for a cast natural.
-/
set_option linter.unusedSimpArgs false
namespace NfcVerif.FnBridge.TagCmd
open NfcVerif NfcVerif.PyFn NfcVerif.TagCmdRef

/-! ## Type 1 Tag -/

/-- `Type1Tag.read_id`: the RID command -/
theorem t1_read_id_cmd_bridge : Gen.Fn.t1_read_id_cmd = t1Rid := rfl

/-- `Type1Tag.read_all`: the RALL command -/
theorem t1_read_all_cmd_bridge (uid : Bytes) : Gen.Fn.t1_read_all_cmd uid = t1Rall uid := rfl

example : Gen.Fn.t1_read_all_cmd [1, 2, 3, 4] = [0, 0, 0, 1, 2, 3, 4] := by decide

/-- the C08 reader model sends the regenerated RALL command -/
theorem gen_stageA_cmd (t : Adv.Tag) (uid : Bytes) (s : Adv.S1) (h : s.cache.length < 120) :
    Adv.stageA t uid s =
      match Adv.trans1 t (Gen.Fn.t1_read_all_cmd uid) s with
      | (.error e, s1) => (.error e, s1)
      | (.ok rsp, s1) =>
        if rsp.length < 2 then (.error (.tagCmd 2), s1)
        else (.ok (), { s1 with hdr := rsp.take 2, cache := rsp.drop 2 }) := by
  rw [stageA_cmd, if_pos h, t1_read_all_cmd_bridge]
  rfl

/-- `Type1Tag.read_byte(addr)`: address check and READ command, for every int -/
theorem t1_read_byte_cmd_bridge (addr : Int) (uid : Bytes) :
    Gen.Fn.t1_read_byte_cmd addr uid = t1Read addr uid := by
  unfold Gen.Fn.t1_read_byte_cmd t1Read
  by_cases h : addr < 0 ∨ addr > 127
  · simp only [h, if_true]
  · simp only [h, if_false]
    obtain ⟨n, rfl⟩ := Int.eq_ofNat_of_zero_le (by omega : 0 ≤ addr)
    rw [show (1 : Int) = ((1 : Nat) : Int) from rfl, show (0 : Int) = ((0 : Nat) : Int) from rfl,
      mkBytes3 1 n 0 (by omega) (by omega) (by omega)]
    simp

example : Gen.Fn.t1_read_byte_cmd 127 [1, 2, 3, 4] = .ok [1, 127, 0, 1, 2, 3, 4] := by decide +kernel
example : Gen.Fn.t1_read_byte_cmd 128 [1, 2, 3, 4] = .error .value := by decide +kernel

/-- a READ command that is built addresses the static memory and has the fixed length -/
theorem gen_read_byte_cmd_spec (addr : Int) (uid cmd : Bytes) (h : Gen.Fn.t1_read_byte_cmd addr uid = .ok cmd) :
    cmd.length = 3 + uid.length ∧ ∃ a : Nat, a < 128 ∧ (a : Int) = addr ∧ cmd = [0x01, a, 0] ++ uid :=
  t1Read_spec addr uid cmd (by rw [← t1_read_byte_cmd_bridge]; exact h)

/-- `Type1Tag.read_block`: what is done with the READ8 answer -/
theorem t1_read_block_rsp_bridge (rsp : Bytes) : Gen.Fn.t1_read_block_rsp rsp = t1Read8Rsp rsp := by
  unfold Gen.Fn.t1_read_block_rsp t1Read8Rsp
  have e : slice rsp 1 9 = (rsp.drop 1).take 8 := slice_nat rsp 1 9
  rw [e]
  py_cast

example : Gen.Fn.t1_read_block_rsp [0x78, 1, 2, 3, 4, 5, 6, 7, 8, 9] = .ok [1, 2, 3, 4, 5, 6, 7, 8] := by decide +kernel
example : Gen.Fn.t1_read_block_rsp [0x78, 1, 2, 3, 4, 5, 6, 7] = .error (.tagCmd 2) := by decide +kernel

/-- `Type1Tag.read_segment`: what is done with the RSEG answer -/
theorem t1_read_segment_rsp_bridge (rsp : Bytes) : Gen.Fn.t1_read_segment_rsp rsp = t1RsegRsp rsp := by
  unfold Gen.Fn.t1_read_segment_rsp t1RsegRsp
  have e : slice rsp 1 129 = (rsp.drop 1).take 128 := slice_nat rsp 1 129
  rw [e]
  py_cast

example : Gen.Fn.t1_read_segment_rsp (List.replicate 130 7) = .ok (List.replicate 128 7) := by decide +kernel

/-- the C08 segment loop checks the answer with the regenerated function -/
theorem gen_segLoop_rsp (t : Adv.Tag) (uid : Bytes) (stop f : Nat) (s : Adv.S1) (h : ¬ s.cache.length ≥ stop)
    (cmd : Bytes) (hc : t1Rseg ((s.cache.length / 128 : Nat) : Int) uid = .ok cmd) :
    Adv.segLoop t uid stop (f + 1) s =
      match Adv.trans1 t cmd s with
      | (.error e, s1) => (.error e, s1)
      | (.ok rsp, s1) =>
        match Gen.Fn.t1_read_segment_rsp rsp with
        | .error e => (.error e, s1)
        | .ok d => Adv.segLoop t uid stop f { s1 with cache := s1.cache ++ d } := by
  rw [segLoop_cmd, if_neg h, hc]
  simp only [t1_read_segment_rsp_bridge]
  rfl

/-- `offset += 2 if len(data) < 255 else 4` of `Type1Tag.NDEF._write_ndef_data` -/
theorem t1_hdr_len_bridge (data : Bytes) (offset : Nat) :
    Gen.Fn.t1_hdr_len data offset = ((offset + Tlv.hdrLen data.length : Nat) : Int) := by
  unfold Gen.Fn.t1_hdr_len Tlv.hdrLen
  py_cast
  by_cases h : data.length < 255 <;> simp [h]

example : Gen.Fn.t1_hdr_len (List.replicate 255 0) 12 = 16 := by decide +kernel

/-! ## Type 2 Tag -/

/-- `Type2Tag.read`: the length check of the answer -/
theorem t2_read_rsp_bridge (data : Bytes) : Gen.Fn.t2_read_rsp data = t2ReadRsp data := by
  unfold Gen.Fn.t2_read_rsp t2ReadRsp
  py_cast

example : Gen.Fn.t2_read_rsp [0] = .error (.tagCmd 3) := by decide +kernel

/-- `Type2Tag.write`: argument check -/
theorem t2_write_check_bridge (page : Int) (data : Bytes) :
    Gen.Fn.t2_write_check page data = (t2WriteCmd page data >>= fun _ => .ok ()) := by
  unfold Gen.Fn.t2_write_check t2WriteCmd
  py_cast
  by_cases h : data.length = 4 <;> simp [h]

example : Gen.Fn.t2_write_check 4 [1, 2, 3] = .error .value := by decide +kernel
example : Gen.Fn.t2_write_check 4 [1, 2, 3, 4] = .ok () := by decide +kernel

/-- `Type2Tag.write`: ACK / NAK recognition -/
theorem t2_write_rsp_bridge (rsp data : Bytes) : Gen.Fn.t2_write_rsp rsp data = t2WriteRsp rsp := by
  unfold Gen.Fn.t2_write_rsp t2WriteRsp
  match rsp with
  | [] => simp [len]
  | [b] =>
    simp only [len, List.length_singleton, getB_zero]
    by_cases hb : b = 10
    · subst hb; simp
    · have : ¬ ((b : Int) = 10) := by omega
      simp [hb, this]
  | a :: b :: r =>
    have : ((a :: b :: r).length : Int) ≠ 1 := by simp; omega
    rw [if_pos (by simpa [len] using this)]

example : Gen.Fn.t2_write_rsp [0x0A] [1, 2, 3, 4] = .ok true := by decide +kernel
example : Gen.Fn.t2_write_rsp [0x00] [1, 2, 3, 4] = .error (.tagCmd 2) := by decide +kernel

/-- a write is reported successful exactly for the 4 bit ACK -/
theorem gen_write_rsp_ok (rsp data : Bytes) : Gen.Fn.t2_write_rsp rsp data = .ok true ↔ rsp = [0x0A] := by
  rw [t2_write_rsp_bridge]; exact t2WriteRsp_ok rsp

/-- `offset += 2 if len(data) < 255 else 4` of `Type2Tag.NDEF._write_ndef_data` -/
theorem t2_hdr_len_bridge (data : Bytes) (offset : Nat) :
    Gen.Fn.t2_hdr_len data offset = ((offset + Tlv.hdrLen data.length : Nat) : Int) :=
  t1_hdr_len_bridge data offset

/-! ## Type 3 Tag -/

/-- `ServiceCode.pack` for a natural service number and attribute (both are masked) -/
theorem t3_service_code_pack_bridge (number attr : Nat) :
    Gen.Fn.t3_service_code_pack number attr = .ok (t3ServiceCode number attr) := by
  unfold Gen.Fn.t3_service_code_pack t3ServiceCode
  simp only [show (1023 : Int) = ((1023 : Nat) : Int) from rfl, show (63 : Int) = ((63 : Nat) : Int) from rfl,
    show (6 : Int) = ((6 : Nat) : Int) from rfl, band_ofNat, shl_ofNat, bor_ofNat, Nat.shiftLeft_eq,
    Nat.and_two_pow_sub_one_eq_mod _ 10, Nat.and_two_pow_sub_one_eq_mod _ 6, pack_Hle, Nat.reducePow]
  rw [or_fields]
  have : ¬ (number % 1024 * 64 + attr % 64 > 65535) := by omega
  simp [this]

example : Gen.Fn.t3_service_code_pack 0 0b001011 = .ok [0x0B, 0x00] := by decide +kernel
example : Gen.Fn.t3_service_code_pack 0 0b001001 = .ok [0x09, 0x00] := by decide +kernel

/-- `send_cmd_recv_rsp`: the command frame, for a natural command code -/
theorem t3_frame_bridge (code : Nat) (data : Bytes) (timeout : Int) (sendIdm : Bool) (idm : Bytes) :
    Gen.Fn.t3_frame code data timeout sendIdm idm =
      if 2 + (if sendIdm then idm else []).length + data.length ≥ 256 ∨ code ≥ 256 then .error .value
      else .ok ([2 + (if sendIdm then idm else []).length + data.length, code] ++ (if sendIdm then idm else []) ++ data) := by
  unfold Gen.Fn.t3_frame
  simp only []
  generalize hi : (if sendIdm = true then idm else ([] : Bytes)) = idm'
  simp only [len_eq, show (2 : Int) = ((2 : Nat) : Int) from rfl, ← Int.natCast_add]
  by_cases h1 : 2 + idm'.length + data.length ≥ 256
  · have := mkBytes_bad [] ((2 + idm'.length + data.length : Nat) : Int) [(code : Int)] (by simp) (by omega)
    simp only [List.map_nil, List.nil_append, Int.natCast_add, show ((2 : Nat) : Int) = 2 from rfl] at this
    simp [h1, this]
  · by_cases h2 : code ≥ 256
    · have := mkBytes_bad [2 + idm'.length + data.length] (code : Int) [] (by intro b hb; simp at hb; omega) (by omega)
      simp only [List.map_cons, List.map_nil, List.cons_append, List.nil_append, Int.natCast_add, show ((2 : Nat) : Int) = 2 from rfl] at this
      simp [h2, this]
    · have := mkBytes2 (2 + idm'.length + data.length) code (by omega) (by omega)
      simp only [Int.natCast_add, show ((2 : Nat) : Int) = 2 from rfl] at this
      simp [h1, h2, this]

example : Gen.Fn.t3_frame 6 [1, 0x0B, 0, 1, 0x80, 0] 0 true [1, 2, 3, 4, 5, 6, 7, 8]
    = .ok [16, 6, 1, 2, 3, 4, 5, 6, 7, 8, 1, 0x0B, 0, 1, 0x80, 0] := by decide +kernel
example : Gen.Fn.t3_frame 0 [0x12, 0xFC, 0, 0] 0 false [1, 2, 3, 4, 5, 6, 7, 8] = .ok [6, 0, 0x12, 0xFC, 0, 0] := by
  decide +kernel

/-- the regenerated frame is the frame of the C20 model (`Auth.t3Command`, commands with IDm) -/
theorem gen_frame_eq_t3Command (code : Nat) (hc : code < 256) (data : Bytes) (timeout : Int) (idm : Bytes) :
    Gen.Fn.t3_frame code data timeout true idm = Auth.t3Command idm code data := by
  rw [t3_frame_bridge, t3Command_frame]
  by_cases h : 2 + idm.length + data.length > 255
  · have : 2 + idm.length + data.length ≥ 256 := by omega
    simp [h, this]
  · have : ¬ (2 + idm.length + data.length ≥ 256 ∨ code ≥ 256) := by omega
    simp [h, this]

/-- ... and the frame the C08 model hands to the air interface (`Adv.sendCmd3`) -/
theorem gen_frame_eq_sendCmd3 (t : Adv.Tag) (code : Nat) (data : Bytes) (timeout : Int) (sendIdm : Bool) (s : Adv.S3) :
    Adv.sendCmd3 t code data sendIdm s =
      match Gen.Fn.t3_frame code data timeout sendIdm s.idm with
      | .error e => (.error e, s)
      | .ok frame =>
        ((match (Adv.trx t 3 s.w frame).1 with
          | none => .error (.tagCmd 0)
          | some rsp => Adv.checkRsp3 code sendIdm s.idm rsp),
         { s with w := (Adv.trx t 3 s.w frame).2 }) := by
  rw [t3_frame_bridge]
  unfold Adv.sendCmd3
  by_cases h : 2 + (if sendIdm then s.idm else []).length + data.length ≥ 256 ∨ code ≥ 256
  · simp only [h, if_true]
  · simp only [h, if_false]
    rfl

/-- `Type3Tag.polling`: argument checks and command data, for all ints -/
theorem t3_polling_cmd_bridge (sys rc tsn : Int) :
    Gen.Fn.t3_polling_cmd sys rc tsn = t3PollingCmd sys rc tsn := by
  unfold Gen.Fn.t3_polling_cmd t3PollingCmd
  by_cases h1 : tsn = 0 ∨ tsn = 1 ∨ tsn = 3 ∨ tsn = 7 ∨ tsn = 15
  · by_cases h2 : rc = 0 ∨ rc = 1 ∨ rc = 2
    · simp only [h1, h2, not_true, if_false]
      by_cases h3 : sys < 0 ∨ sys > 65535
      · simp only [h3, if_true]
        rcases h3 with h3 | h3
        · simp [PyFn.pack, packField_neg _ _ h3]
        · obtain ⟨n, rfl⟩ := Int.eq_ofNat_of_zero_le (by omega : 0 ≤ sys)
          have : n > 65535 := by omega
          simp [PyFn.pack, packField_Hbe, this]
      · simp only [h3, if_false]
        obtain ⟨n, rfl⟩ := Int.eq_ofNat_of_zero_le (by omega : 0 ≤ sys)
        obtain ⟨r, rfl⟩ := Int.eq_ofNat_of_zero_le (by omega : 0 ≤ rc)
        obtain ⟨k, rfl⟩ := Int.eq_ofNat_of_zero_le (by omega : 0 ≤ tsn)
        have c1 : ¬ n > 65535 := by omega
        have c2 : ¬ r > 255 := by omega
        have c3 : ¬ k > 255 := by omega
        simp [PyFn.pack, packField_Hbe, packField_B, c1, c2, c3]
    · simp only [h1, h2, not_true, not_false_eq_true, if_false, if_true]
  · simp only [h1, not_false_eq_true, if_true]

example : Gen.Fn.t3_polling_cmd 0x12FC 0 0 = .ok [0x12, 0xFC, 0, 0] := by decide +kernel
example : Gen.Fn.t3_polling_cmd 0x12FC 3 0 = .error .value := by decide +kernel
example : Gen.Fn.t3_polling_cmd 0x12FC 0 2 = .error .value := by decide +kernel
example : Gen.Fn.t3_polling_cmd 0x10000 0 0 = .error .struct := by decide +kernel

/-- the regenerated polling command data is what the C08 model sends (one time slot) -/
theorem gen_polling_cmd_model (sys rc : Nat) (hs : sys < 65536) (hr : rc = 0 ∨ rc = 1 ∨ rc = 2) :
    Gen.Fn.t3_polling_cmd sys rc 0 = .ok [sys / 256, sys % 256, rc, 0] := by
  rw [t3_polling_cmd_bridge]
  unfold t3PollingCmd
  have h3 : ¬ ((sys : Int) < 0 ∨ (sys : Int) > 65535) := by omega
  rcases hr with rfl | rfl | rfl <;> simp [h3]

/-- `Type3Tag.polling`: response length check -/
theorem t3_polling_len_bridge (rc : Int) (d : Bytes) : Gen.Fn.t3_polling_len rc d = t3PollingLen rc d := by
  unfold Gen.Fn.t3_polling_len t3PollingLen
  rfl

example : Gen.Fn.t3_polling_len 0 (List.replicate 16 1) = .ok () := by decide +kernel
example : Gen.Fn.t3_polling_len 1 (List.replicate 16 1) = .error (.tagCmd 4) := by decide +kernel


/-! ## second batch (sub-expression cuts) -/

/-! ### Type 1 Tag -/

/-- `self.uid = target.rid_res[2:6]` -/
theorem t1_uid_bridge (rid : Bytes) : Gen.Fn.t1_uid rid = sliceN rid 2 6 := slice_nat rid 2 6

example : Gen.Fn.t1_uid [0x11, 0x48, 1, 2, 3, 4] = [1, 2, 3, 4] := by decide +kernel

/-- `Type1Tag.write_byte`: address check and WRITE-E / WRITE-NE command, for all ints -/
theorem t1_write_byte_cmd_bridge (addr data : Int) (erase : Bool) (uid : Bytes) :
    Gen.Fn.t1_write_byte_cmd addr data erase uid = t1Write addr data erase uid := by
  unfold Gen.Fn.t1_write_byte_cmd t1Write
  by_cases h : addr < 0 ∨ addr ≥ 128
  · simp only [h, if_true]
  · simp only [h, if_false]
    obtain ⟨a, rfl⟩ := Int.eq_ofNat_of_zero_le (by omega : 0 ≤ addr)
    by_cases hd : data < 0 ∨ data > 255
    · have := mkBytes_bad [a] data [] (by intro b hb; simp at hb; omega) hd
      simp only [List.map_cons, List.map_nil, List.cons_append, List.nil_append] at this
      simp [hd, this]
    · obtain ⟨d, rfl⟩ := Int.eq_ofNat_of_zero_le (by omega : 0 ≤ data)
      simp only [hd, if_false, mkBytes2 a d (by omega) (by omega), Py.bind_ok, Int.toNat_natCast]
      cases erase <;> simp

example : Gen.Fn.t1_write_byte_cmd 11 0x0F false [1, 2, 3, 4] = .ok [0x1A, 11, 0x0F, 1, 2, 3, 4] := by decide +kernel
example : Gen.Fn.t1_write_byte_cmd 11 0x0F true [1, 2, 3, 4] = .ok [0x53, 11, 0x0F, 1, 2, 3, 4] := by decide +kernel
example : Gen.Fn.t1_write_byte_cmd 128 0 true [1, 2, 3, 4] = .error .value := by decide +kernel

/-- a WRITE command that is built names a byte of the static memory (C01-C03: the unit the model writes) -/
theorem gen_write_byte_cmd_spec (addr data : Int) (erase : Bool) (uid cmd : Bytes)
    (h : Gen.Fn.t1_write_byte_cmd addr data erase uid = .ok cmd) :
    cmd.length = 3 + uid.length ∧ ∃ a d : Nat, a < 128 ∧ d < 256 ∧ (a : Int) = addr ∧ (d : Int) = data ∧
      cmd = [if erase then 0x53 else 0x1A, a, d] ++ uid :=
  t1Write_spec addr data erase uid cmd (by rw [← t1_write_byte_cmd_bridge]; exact h)

/-- `Type1Tag.write_block`: block number check and WRITE-E8 / WRITE-NE8 command -/
theorem t1_write_block_cmd_bridge (block : Int) (data : Bytes) (erase : Bool) (uid : Bytes) :
    Gen.Fn.t1_write_block_cmd block data erase uid = t1Write8 block data erase uid := by
  unfold Gen.Fn.t1_write_block_cmd t1Write8
  by_cases h : block < 0 ∨ block > 255
  · simp only [h, if_true]
  · simp only [h, if_false]
    obtain ⟨b, rfl⟩ := Int.eq_ofNat_of_zero_le (by omega : 0 ≤ block)
    have := mkBytes_cast [b] (by intro x hx; simp at hx; omega)
    simp only [List.map_cons, List.map_nil] at this
    simp only [this, Py.bind_ok, Int.toNat_natCast]
    cases erase <;> simp

example : Gen.Fn.t1_write_block_cmd 16 [1, 2, 3, 4, 5, 6, 7, 8] true [9, 9, 9, 9]
    = .ok [0x54, 16, 1, 2, 3, 4, 5, 6, 7, 8, 9, 9, 9, 9] := by decide +kernel
example : Gen.Fn.t1_write_block_cmd 256 [] true [] = .error .value := by decide +kernel

/-- `Type1Tag.write_block`: the answer check -/
theorem t1_write_block_rsp_bridge (rsp data : Bytes) (erase : Bool) :
    Gen.Fn.t1_write_block_rsp rsp data erase = t1Write8Rsp rsp data erase := by
  unfold Gen.Fn.t1_write_block_rsp t1Write8Rsp
  have e : slice rsp 1 9 = (rsp.drop 1).take 8 := slice_nat rsp 1 9
  rw [e]
  py_cast

example : Gen.Fn.t1_write_block_rsp [16, 1, 2, 3, 4, 5, 6, 7, 8] [1, 2, 3, 4, 5, 6, 7, 9] true = .error (.tagCmd 3) := by
  decide +kernel
example : Gen.Fn.t1_write_block_rsp [16, 1, 2, 3, 4, 5, 6, 7, 8] [1, 2, 3, 4, 5, 6, 7, 9] false = .ok () := by decide +kernel

/-- write unit of `synchronize()`: the `unit` of `Tlv.t1Cfg` -/
theorem t1_unit_size_bridge (hr0 : Nat) : Gen.Fn.t1_unit_size hr0 = ((t1Unit hr0 : Nat) : Int) := by
  unfold Gen.Fn.t1_unit_size t1Unit t1Dynamic
  py_bits
  by_cases h : hr0 / 2 ^ 4 = 1 ∧ ¬ hr0 % 16 = 1 <;> simp [h]

theorem t1_dynamic_bridge (hr0 : Nat) : Gen.Fn.t1_dynamic hr0 = t1Dynamic hr0 := by
  unfold Gen.Fn.t1_dynamic t1Dynamic
  py_bits

example : Gen.Fn.t1_unit_size 0x11 = 1 ∧ Gen.Fn.t1_unit_size 0x12 = 8 := by decide +kernel

/-- the write configuration of the C01-C03 model for a tag with header ROM byte `hr0` -/
theorem gen_t1Cfg_unit (hr0 : Nat) : ((Tlv.t1Cfg (t1Unit hr0)).unit : Int) = Gen.Fn.t1_unit_size hr0 ∧ 0 < (Tlv.t1Cfg (t1Unit hr0)).unit :=
  ⟨(t1_unit_size_bridge hr0).symm, t1Unit_pos hr0⟩

/-- block number of the WRITE-E8 call for byte address `i` -/
theorem t1_block_of_bridge (i : Nat) : Gen.Fn.t1_block_of i = ((i / 8 : Nat) : Int) := by
  unfold Gen.Fn.t1_block_of; omega

/-- the block written for unit `k` of `Tlv.diffUnits 8` (byte address `k * 8`) is block `k` -/
theorem gen_block_of_unit (k : Nat) : Gen.Fn.t1_block_of ((k * 8 : Nat) : Int) = (k : Int) := by
  rw [t1_block_of_bridge]; omega

/-- segment number of the RSEG call: `Adv.segLoop` uses `cache.length / 128` -/
theorem t1_segment_of_bridge (n : Nat) : Gen.Fn.t1_segment_of n = ((n / 128 : Nat) : Int) := by
  unfold Gen.Fn.t1_segment_of
  py_bits

/-- the C08 segment loop asks for the regenerated segment number -/
theorem gen_segLoop_segment (t : Adv.Tag) (uid : Bytes) (stop f : Nat) (s : Adv.S1) (h : ¬ s.cache.length ≥ stop) :
    Adv.segLoop t uid stop (f + 1) s =
      match t1Rseg (Gen.Fn.t1_segment_of s.cache.length) uid with
      | .error e => (.error e, s)
      | .ok cmd =>
        match Adv.trans1 t cmd s with
        | (.error e, s1) => (.error e, s1)
        | (.ok rsp, s1) =>
          match Gen.Fn.t1_read_segment_rsp rsp with
          | .error e => (.error e, s1)
          | .ok d => Adv.segLoop t uid stop f { s1 with cache := s1.cache ++ d } := by
  rw [segLoop_cmd, if_neg h, t1_segment_of_bridge]
  simp only [t1_read_segment_rsp_bridge]
  rfl

/-- tag memory size from CC byte 2 -/
theorem t1_area_end_bridge (sz : Nat) : Gen.Fn.t1_area_end sz = ((Tlv.Cfg.areaEnd (Tlv.t1Cfg 1) sz : Nat) : Int) := by
  unfold Gen.Fn.t1_area_end Tlv.Cfg.areaEnd Tlv.t1Cfg
  simp

/-- capability container checks of `Type1Tag.NDEF._read_ndef_data` as in `Adv.readNdef1` / `Tlv.readNdefRaw` -/
theorem t1_cc_magic_bridge (b : Nat) : Gen.Fn.t1_cc_magic b = decide (b ≠ 0xE1) := by
  unfold Gen.Fn.t1_cc_magic; py_bits
theorem t1_cc_version_bridge (b : Nat) : Gen.Fn.t1_cc_version b = decide (b / 16 ≠ 1) := by
  unfold Gen.Fn.t1_cc_version; py_bits
theorem t1_cc_readable_bridge (b : Nat) : Gen.Fn.t1_cc_readable b = decide (b / 16 = 0) := by
  unfold Gen.Fn.t1_cc_readable; py_bits
theorem t1_cc_writeable_bridge (b : Nat) : Gen.Fn.t1_cc_writeable b = decide (b % 16 = 0) := by
  unfold Gen.Fn.t1_cc_writeable; py_bits

example : Gen.Fn.t1_cc_magic 0xE1 = false ∧ Gen.Fn.t1_cc_version 0x10 = false ∧ Gen.Fn.t1_cc_readable 0x0F = true
    ∧ Gen.Fn.t1_cc_writeable 0x0F = false := by decide +kernel

/-- end of the static reserved range: `Tlv.Cfg.initSkip` of the Type 1 configuration -/
theorem t1_skip_end_bridge (size : Nat) (u : Nat) :
    (Tlv.t1Cfg u).initSkip size = [(104, (Gen.Fn.t1_skip_end size).toNat)] := by
  unfold Gen.Fn.t1_skip_end Tlv.Cfg.initSkip Tlv.t1Cfg
  by_cases h : size = 120
  · subst h; simp
  · have : ¬ ((size : Int) = 120) := by omega
    simp [h, this]

/-- distance to the next TLV (`Adv.walk`, `Tlv.walkPre`) -/
theorem t1_next_tlv_bridge (o l : Nat) :
    (o : Int) + Gen.Fn.t1_next_tlv l = ((o + l + 1 + (if l < 255 then 1 else 3) : Nat) : Int) := by
  unfold Gen.Fn.t1_next_tlv
  by_cases h : l < 255
  · have : (l : Int) < 255 := by omega
    simp [h, this]; omega
  · have : ¬ (l : Int) < 255 := by omega
    simp [h, this]; omega

/-! ### Type 2 Tag -/

/-- `Type2Tag.read`: the READ command, for every int page number -/
theorem t2_read_cmd_bridge (page : Int) : Gen.Fn.t2_read_cmd page = .ok (t2ReadCmd page) := by
  unfold Gen.Fn.t2_read_cmd t2ReadCmd
  have h0 : 0 ≤ page % 256 := by omega
  have h1 : page % 256 < 256 := by omega
  generalize page % 256 = q at *
  obtain ⟨n, rfl⟩ := Int.eq_ofNat_of_zero_le h0
  rw [show (48 : Int) = ((48 : Nat) : Int) from rfl, mkBytes2 48 n (by omega) (by omega), Int.toNat_natCast]

example : Gen.Fn.t2_read_cmd 260 = .ok [0x30, 4] := by decide +kernel

/-- NAK recognition -/
theorem t2_is_nak_bridge (data : Bytes) : Gen.Fn.t2_is_nak data = .ok (t2IsNak data) := by
  unfold Gen.Fn.t2_is_nak t2IsNak
  match data with
  | [] => simp [len]
  | [b] =>
    simp only [len, List.length_singleton, getB_zero]
    py_bits
    by_cases h : b &&& 250 = 0 <;> simp [h]
  | a :: b :: r =>
    have : ¬ ((r.length : Int) + 1 + 1 = 1) := by omega
    simp [len, this]

example : Gen.Fn.t2_is_nak [0x00] = .ok true ∧ Gen.Fn.t2_is_nak [0x05] = .ok true ∧ Gen.Fn.t2_is_nak [0x0A] = .ok false
    ∧ Gen.Fn.t2_is_nak [0, 0] = .ok false := by decide +kernel

/-- `Adv.read2` (C08) in terms of the regenerated command, NAK test and length check -/
theorem gen_read2 (t : Adv.Tag) (page : Nat) (s : Adv.S2) :
    (Gen.Fn.t2_read_cmd page >>= fun cmd =>
      .ok (match Adv.trans2 t 3 cmd s with
        | (.error e, s') => (.error e, s')
        | (.ok d, s') =>
          if Gen.Fn.t2_is_nak d = .ok true then
            match Adv.xchg t s'.w [] with
            | (some _, w') => ((.error (.tagCmd 2) : Py Bytes), { s' with w := w', alive := true, sector := 0 })
            | (none, w') => (.error (.tagCmd (-1)), { s' with w := w', alive := false, sector := 0 })
          else (Gen.Fn.t2_read_rsp d, s'))) = .ok (Adv.read2 t page s) := by
  rw [t2_read_cmd_bridge, read2_cmd]
  simp only [Py.bind_ok, t2_is_nak_bridge, t2_read_rsp_bridge, Except.ok.injEq]
  rfl

/-- `Type2Tag.write`: argument check and WRITE command -/
theorem t2_write_cmd_bridge (page : Int) (data : Bytes) :
    (Gen.Fn.t2_write_check page data >>= fun _ => Gen.Fn.t2_write_cmd page data) = t2WriteCmd page data := by
  unfold Gen.Fn.t2_write_check Gen.Fn.t2_write_cmd t2WriteCmd
  have h0 : 0 ≤ page % 256 := by omega
  have h1 : page % 256 < 256 := by omega
  generalize page % 256 = q at *
  obtain ⟨n, rfl⟩ := Int.eq_ofNat_of_zero_le h0
  rw [show (162 : Int) = ((162 : Nat) : Int) from rfl, mkBytes2 162 n (by omega) (by omega), Int.toNat_natCast]
  py_cast
  by_cases h : data.length = 4 <;> simp [h]

example : Gen.Fn.t2_write_cmd 5 [1, 2, 3, 4] = .ok [0xA2, 5, 1, 2, 3, 4] := by decide +kernel

/-- SECTOR SELECT packet 2 -/
theorem t2_sector_select_2_bridge (sector : Int) : Gen.Fn.t2_sector_select_2 sector = t2SectorSelect2 sector := by
  unfold Gen.Fn.t2_sector_select_2 t2SectorSelect2
  by_cases h : sector < 0 ∨ sector > 255
  · simp only [h, if_true]
    rcases h with h | h
    · simp [PyFn.pack, packField_neg _ _ h]
    · obtain ⟨n, rfl⟩ := Int.eq_ofNat_of_zero_le (by omega : 0 ≤ sector)
      have : n > 255 := by omega
      simp [PyFn.pack, packField_B, this]
  · simp only [h, if_false]
    obtain ⟨n, rfl⟩ := Int.eq_ofNat_of_zero_le (by omega : 0 ≤ sector)
    have : ¬ n > 255 := by omega
    simp [PyFn.pack, packField_B, this]

example : Gen.Fn.t2_sector_select_2 1 = .ok [1, 0, 0, 0] := by decide +kernel
example : Gen.Fn.t2_sector_select_2 256 = .error .struct := by decide +kernel

/-- ACK of SECTOR SELECT packet 1 -/
theorem t2_sector_ack_bridge (rsp : Bytes) : Gen.Fn.t2_sector_ack rsp = .ok (t2SectorAck rsp) := by
  unfold Gen.Fn.t2_sector_ack t2SectorAck
  match rsp with
  | [] => simp [len]
  | [b] =>
    simp only [len, List.length_singleton, getB_zero]
    by_cases h : b = 10
    · subst h; simp
    · have : ¬ ((b : Int) = 10) := by omega
      simp [h, this]
  | a :: b :: r =>
    have : ¬ ((r.length : Int) + 1 + 1 = 1) := by omega
    simp [len, this]

/-- sector and page of a byte address, as `Adv.fill2` computes them -/
theorem t2_sector_of_bridge (index : Nat) : Gen.Fn.t2_sector_of index = ((t2Sector index : Nat) : Int) := by
  unfold Gen.Fn.t2_sector_of t2Sector; py_bits
theorem t2_page_of_bridge (index : Nat) : Gen.Fn.t2_page_of index = ((t2Page index : Nat) : Int) := by
  unfold Gen.Fn.t2_page_of t2Page; py_bits

/-- the page octet that goes on the air addresses the right page of the selected sector -/
theorem gen_page_in_sector (index : Nat) :
    Gen.Fn.t2_read_cmd (Gen.Fn.t2_page_of index) = .ok [0x30, (index % 1024) / 4] := by
  rw [t2_read_cmd_bridge, t2_page_of_bridge]
  unfold t2ReadCmd
  have : (((t2Page index : Nat) : Int) % 256).toNat = (index % 1024) / 4 := by
    have := t2_page_in_sector index; omega
  rw [this]

/-- first byte address of a read -/
theorem t2_read_start_bridge (n : Nat) : Gen.Fn.t2_read_start n = ((t2ReadStart n : Nat) : Int) := by
  unfold Gen.Fn.t2_read_start t2ReadStart; py_bits

/-- end of the data area: `Tlv.Cfg.areaEnd` of the Type 2 configuration -/
theorem t2_area_end_bridge (sz : Nat) : Gen.Fn.t2_area_end sz = ((Tlv.Cfg.areaEnd Tlv.t2Cfg sz : Nat) : Int) := by
  unfold Gen.Fn.t2_area_end Tlv.Cfg.areaEnd Tlv.t2Cfg
  simp

/-- the complete terminator test of the Type 2 writer (`Tlv.phase2`: `nextFree .. < areaEnd`) -/
theorem t2_term_cond_bridge (off sz : Nat) : Gen.Fn.t2_term_cond off sz = decide (off < Tlv.Cfg.areaEnd Tlv.t2Cfg sz) := by
  unfold Gen.Fn.t2_term_cond Tlv.Cfg.areaEnd Tlv.t2Cfg
  by_cases h : off < sz * 8 + 16
  · have : (off : Int) < (sz : Int) * 8 + 16 := by omega
    simp [h, this]
  · have : ¬ (off : Int) < (sz : Int) * 8 + 16 := by omega
    simp [h, this]

theorem t2_cc_magic_bridge (b : Nat) : Gen.Fn.t2_cc_magic b = decide (b ≠ 0xE1) := by
  unfold Gen.Fn.t2_cc_magic; py_bits
theorem t2_cc_version_bridge (b : Nat) : Gen.Fn.t2_cc_version b = decide (b / 16 ≠ 1) := by
  unfold Gen.Fn.t2_cc_version; py_bits
theorem t2_cc_readable_bridge (b : Nat) : Gen.Fn.t2_cc_readable b = decide (b / 16 = 0) := by
  unfold Gen.Fn.t2_cc_readable; py_bits
theorem t2_cc_writeable_bridge (b : Nat) : Gen.Fn.t2_cc_writeable b = decide (b % 16 = 0) := by
  unfold Gen.Fn.t2_cc_writeable; py_bits

theorem t2_next_tlv_bridge (o l : Nat) :
    (o : Int) + Gen.Fn.t2_next_tlv l = ((o + l + 1 + (if l < 255 then 1 else 3) : Nat) : Int) :=
  t1_next_tlv_bridge o l

/-- first value byte of the NDEF TLV (`CtlC03.readNdefT2`: `head`) -/
theorem t2_ndef_head_bridge (off l0 : Nat) :
    Gen.Fn.t2_ndef_head off l0 = ((off + (if l0 = 0xFF then 4 else 2) : Nat) : Int) := by
  unfold Gen.Fn.t2_ndef_head
  by_cases h : l0 = 255
  · subst h; simp
  · have : ¬ ((l0 : Int) = 255) := by omega
    simp [h, this]

/-! ### Type 3 Tag -/

/-- `BlockCode.pack` for natural fields -/
theorem t3_block_code_pack_bridge (number access service : Nat) :
    Gen.Fn.t3_block_code_pack number access service = t3BlockCode number access service := by
  unfold Gen.Fn.t3_block_code_pack t3BlockCode
  simp only []
  have hf : ∀ x : Nat, (access % 8) * 16 ||| service % 16 = (access % 8) * 16 + service % 16 := by
    intro _
    have h := Nat.shiftLeft_add_eq_or_of_lt (a := access % 8) (b := service % 16) (i := 4) (by omega)
    rw [Nat.shiftLeft_eq] at h
    exact h.symm
  by_cases h1 : number < 256
  · have h1' : (number : Int) < 256 := by omega
    have hor : 128 ||| ((access % 8) * 16 + service % 16) = 128 + ((access % 8) * 16 + service % 16) := by
      have h := Nat.shiftLeft_add_eq_or_of_lt (a := 1) (b := (access % 8) * 16 + service % 16) (i := 7) (by omega)
      simpa using h.symm
    simp only [h1, h1', decide_true, if_true]
    py_bits
    simp only [Nat.reducePow, Nat.one_mul, hf 0, Nat.or_assoc, hor]
    have m1 := mkBytes_cast [128 + (access % 8 * 16 + service % 16)] (by intro x hx; simp at hx; omega)
    have m2 := mkBytes_cast [number] (by intro x hx; simp at hx; omega)
    simp only [List.map_cons, List.map_nil] at m1 m2
    rw [m1, m2]
    rfl
  · have h1' : ¬ (number : Int) < 256 := by omega
    simp only [h1, h1', decide_false, Bool.false_eq_true, if_false]
    py_bits
    simp only [Nat.reducePow, Nat.zero_mul, Nat.zero_or, hf 0]
    have m1 := mkBytes_cast [access % 8 * 16 + service % 16] (by intro x hx; simp at hx; omega)
    simp only [List.map_cons, List.map_nil] at m1
    rw [m1, pack_Hle]
    by_cases h2 : number < 65536
    · have : ¬ number > 65535 := by omega
      simp [h2, this]
    · have : number > 65535 := by omega
      simp [h2, this]

example : Gen.Fn.t3_block_code_pack 5 0 0 = .ok [0x80, 5] := by decide +kernel
example : Gen.Fn.t3_block_code_pack 0x1234 0 1 = .ok [0x01, 0x34, 0x12] := by decide +kernel
example : Gen.Fn.t3_block_code_pack 0x10000 0 0 = .error .struct := by decide +kernel

/-- the block list element of the C08 model is the regenerated one -/
theorem gen_block_code_model (bn : Nat) : Gen.Fn.t3_block_code_pack bn 0 0 = Adv.blockCode bn := by
  rw [blockCode_eq]
  exact t3_block_code_pack_bridge bn 0 0

/-- `send_cmd_recv_rsp`: the checks on the response frame, for a natural command code -/
theorem t3_check_rsp_bridge (code : Nat) (sendIdm checkStatus : Bool) (rsp idm : Bytes) :
    Gen.Fn.t3_check_rsp code sendIdm checkStatus rsp idm = t3CheckRsp code sendIdm checkStatus idm rsp := by
  unfold Gen.Fn.t3_check_rsp t3CheckRsp
  simp only [at0_eq]
  have hs : slice rsp 2 10 = (rsp.drop 2).take 8 := slice_nat rsp 2 10
  have hd2 : PyFn.sliceFrom rsp 2 = rsp.drop 2 := sliceFrom_ofNat rsp 2
  have hd10 : PyFn.sliceFrom rsp 10 = rsp.drop 10 := sliceFrom_ofNat rsp 10
  have hd12 : PyFn.sliceFrom rsp 12 = rsp.drop 12 := sliceFrom_ofNat rsp 12
  rw [hs, hd2, hd10, hd12]
  cases sendIdm <;> cases checkStatus <;>
    simp only [Bool.false_eq_true, not_false_eq_true, not_true_eq_false, if_true, if_false, false_and, true_and, lit_cast, getB_nat, len_eq,
      Int.ofNat_lt, Int.natCast_inj, ← Int.natCast_add, ne_eq, Py.bind_ok, Py.bind_error]
  · by_cases hl : rsp.length < 2
    · simp [hl]
    · have h0 : 0 < rsp.length := by omega
      have h1 : 1 < rsp.length := by omega
      have ha' : (((at0 rsp 0 : Nat) : Int) = (rsp.length : Int)) ↔ at0 rsp 0 = rsp.length := by omega
      have hb' : (((at0 rsp 1 : Nat) : Int) = ((code + 1 : Nat) : Int)) ↔ at0 rsp 1 = code + 1 := by omega
      have hd' : (((at0 rsp 10 : Nat) : Int) = ((0 : Nat) : Int)) ↔ at0 rsp 10 = 0 := by omega
      simp only [hl, h0, h1, if_true, if_false, Py.bind_ok, false_or, ha', hb', hd']
      by_cases ha : at0 rsp 0 = rsp.length <;> by_cases hb : at0 rsp 1 = code + 1 <;>
        by_cases hc : List.take 8 (List.drop 2 rsp) = idm <;> by_cases hd : at0 rsp 10 = 0 <;>
        simp [ha, hb, hc, hd]
  · by_cases hl : rsp.length < 2
    · simp [hl]
    · have h0 : 0 < rsp.length := by omega
      have h1 : 1 < rsp.length := by omega
      have ha' : (((at0 rsp 0 : Nat) : Int) = (rsp.length : Int)) ↔ at0 rsp 0 = rsp.length := by omega
      have hb' : (((at0 rsp 1 : Nat) : Int) = ((code + 1 : Nat) : Int)) ↔ at0 rsp 1 = code + 1 := by omega
      have hd' : (((at0 rsp 10 : Nat) : Int) = ((0 : Nat) : Int)) ↔ at0 rsp 10 = 0 := by omega
      simp only [hl, h0, h1, if_true, if_false, Py.bind_ok, false_or, ha', hb', hd']
      by_cases ha : at0 rsp 0 = rsp.length <;> by_cases hb : at0 rsp 1 = code + 1 <;>
        by_cases hc : List.take 8 (List.drop 2 rsp) = idm <;> by_cases hd : at0 rsp 10 = 0 <;>
        simp [ha, hb, hc, hd]
  · by_cases hl : rsp.length < 10
    · simp [hl]
    · have h0 : 0 < rsp.length := by omega
      have h1 : 1 < rsp.length := by omega
      have ha' : (((at0 rsp 0 : Nat) : Int) = (rsp.length : Int)) ↔ at0 rsp 0 = rsp.length := by omega
      have hb' : (((at0 rsp 1 : Nat) : Int) = ((code + 1 : Nat) : Int)) ↔ at0 rsp 1 = code + 1 := by omega
      have hd' : (((at0 rsp 10 : Nat) : Int) = ((0 : Nat) : Int)) ↔ at0 rsp 10 = 0 := by omega
      simp only [hl, h0, h1, if_true, if_false, Py.bind_ok, false_or, ha', hb', hd']
      by_cases ha : at0 rsp 0 = rsp.length <;> by_cases hb : at0 rsp 1 = code + 1 <;>
        by_cases hc : List.take 8 (List.drop 2 rsp) = idm <;> by_cases hd : at0 rsp 10 = 0 <;>
        simp [ha, hb, hc, hd]
  · by_cases hl : rsp.length < 12
    · simp [hl]
    · have h0 : 0 < rsp.length := by omega
      have h1 : 1 < rsp.length := by omega
      have h10 : 10 < rsp.length := by omega
      have hsl : slice rsp ((10 : Nat) : Int) ((12 : Nat) : Int) = [at0 rsp 10, at0 rsp 11] := slice2_at rsp 10 (by omega)
      simp only [hsl, ube_pair, needExact_pair, h10, if_true]
      have ha' : (((at0 rsp 0 : Nat) : Int) = (rsp.length : Int)) ↔ at0 rsp 0 = rsp.length := by omega
      have hb' : (((at0 rsp 1 : Nat) : Int) = ((code + 1 : Nat) : Int)) ↔ at0 rsp 1 = code + 1 := by omega
      have hd' : (((at0 rsp 10 : Nat) : Int) = ((0 : Nat) : Int)) ↔ at0 rsp 10 = 0 := by omega
      simp only [hl, h0, h1, if_true, if_false, Py.bind_ok, false_or, ha', hb', hd']
      by_cases ha : at0 rsp 0 = rsp.length <;> by_cases hb : at0 rsp 1 = code + 1 <;>
        by_cases hc : List.take 8 (List.drop 2 rsp) = idm <;> by_cases hd : at0 rsp 10 = 0 <;>
        simp [ha, hb, hc, hd]

example : Gen.Fn.t3_check_rsp 6 true true [13, 7, 1, 2, 3, 4, 5, 6, 7, 8, 0, 0, 0xAA] [1, 2, 3, 4, 5, 6, 7, 8] = .ok [0xAA] := by
  decide +kernel
example : Gen.Fn.t3_check_rsp 6 true true [12, 7, 1, 2, 3, 4, 5, 6, 7, 8, 1, 0xA6] [1, 2, 3, 4, 5, 6, 7, 8]
    = .error (.tagCmd 0x01A6) := by decide +kernel
example : Gen.Fn.t3_check_rsp 6 true true [11, 7, 1, 2, 3, 4, 5, 6, 7, 8, 0] [1, 2, 3, 4, 5, 6, 7, 8] = .error (.tagCmd 1) := by
  decide +kernel
example : Gen.Fn.t3_check_rsp 0 false true [4, 1, 9, 9] [] = .ok [9, 9] := by decide +kernel

/-- the regenerated checks are the checks of the C08 model ... -/
theorem gen_check_rsp_model (code : Nat) (sendIdm : Bool) (idm rsp : Bytes) :
    Gen.Fn.t3_check_rsp code sendIdm true rsp idm = Adv.checkRsp3 code sendIdm idm rsp := by
  rw [t3_check_rsp_bridge, checkRsp3_eq]

/-- ... and of the C20 model -/
theorem gen_check_rsp_auth (code : Nat) (idm rsp : Bytes) :
    Gen.Fn.t3_check_rsp code true true rsp idm = Auth.t3Response idm code rsp := by
  rw [t3_check_rsp_bridge, t3Response_eq]

/-- C08 `checkRsp3_spec` for the regenerated function (every combination of the flags): whatever arrives, the
result is a command error or a suffix of the frame - no `IndexError`, no `struct.error` -/
theorem gen_check_rsp_safe (code : Nat) (sendIdm checkStatus : Bool) (idm rsp : Bytes) :
    (∀ e, Gen.Fn.t3_check_rsp code sendIdm checkStatus rsp idm = .error e → ∃ n, e = .tagCmd n) ∧
    (∀ d, Gen.Fn.t3_check_rsp code sendIdm checkStatus rsp idm = .ok d → ∃ k, d = rsp.drop k) := by
  rw [t3_check_rsp_bridge]; exact t3CheckRsp_spec code sendIdm checkStatus idm rsp

/-- `read_without_encryption`: size check of the answer (only the number of blocks matters) -/
theorem t3_read_rsp_bridge (bl : List Int) (d : Bytes) : Gen.Fn.t3_read_rsp bl d = t3ReadRsp bl.length d := by
  unfold Gen.Fn.t3_read_rsp t3ReadRsp
  rw [show (1 : Int) = ((1 : Nat) : Int) from rfl, sliceFrom_ofNat]
  py_cast

example : Gen.Fn.t3_read_rsp [0] (List.replicate 17 3) = .ok (List.replicate 16 3) := by decide +kernel
example : Gen.Fn.t3_read_rsp [0, 1] (List.replicate 17 3) = .error (.tagCmd 4) := by decide +kernel

/-- count octets of the service and block lists -/
theorem t3_rw_nsvc_bridge (l : List Int) : Gen.Fn.t3_rw_nsvc l = t3Count l.length := by
  unfold Gen.Fn.t3_rw_nsvc t3Count
  by_cases h : l.length > 255
  · have := mkBytes_bad [] (l.length : Int) [] (by simp) (by omega)
    simpa [h, len] using this
  · have := mkBytes_cast [l.length] (by intro x hx; simp at hx; omega)
    simpa [h, len] using this
theorem t3_rw_nblk_bridge (l : List Int) : Gen.Fn.t3_rw_nblk l = t3Count l.length := t3_rw_nsvc_bridge l

/-- block arithmetic of `Type3Tag.NDEF._read_ndef_data` / `_write_ndef_data` (`T3.readNdef`, `Adv.readNdef3`,
`T3.planWrite`) -/
theorem t3_last_block_bridge (ln : Nat) : Gen.Fn.t3_last_block ln = ((1 + (ln + 15) / 16 : Nat) : Int) := by
  unfold Gen.Fn.t3_last_block; omega
theorem t3_nbr_bridge (nbr : Nat) : Gen.Fn.t3_nbr nbr = ((min nbr 15 : Nat) : Int) := by
  unfold Gen.Fn.t3_nbr imin; split <;> omega
theorem t3_ln_too_big_bridge (ln nmaxb : Nat) : Gen.Fn.t3_ln_too_big ln nmaxb = decide (ln > nmaxb * 16) := by
  unfold Gen.Fn.t3_ln_too_big
  by_cases h : ln > nmaxb * 16
  · have : (ln : Int) > (nmaxb : Int) * 16 := by omega
    simp [h, this]
  · have : ¬ (ln : Int) > (nmaxb : Int) * 16 := by omega
    simp [h, this]
theorem t3_chunk_end_bridge (i nbr last : Nat) : Gen.Fn.t3_chunk_end i nbr last = ((min (i + nbr) last : Nat) : Int) := by
  unfold Gen.Fn.t3_chunk_end imin; split <;> omega
theorem t3_wr_last_block_bridge (data : Bytes) : Gen.Fn.t3_wr_last_block data = ((1 + (data.length + 15) / 16 : Nat) : Int) := by
  unfold Gen.Fn.t3_wr_last_block len; omega

/-- the message padded to whole blocks is `T3.padded` -/
theorem t3_pad_bridge (data : Bytes) : Gen.Fn.t3_pad data = .ok (T3.padded data) := by
  unfold Gen.Fn.t3_pad T3.padded T34.zeros PyFn.zeros len
  have h : ¬ (-(data.length : Int) % 16 < 0) := by omega
  have e : (-(data.length : Int) % 16).toNat = (16 - data.length % 16) % 16 := by omega
  simp only [h, if_false, Py.bind_ok, e]

example : Gen.Fn.t3_pad [1, 2, 3] = .ok ([1, 2, 3] ++ List.replicate 13 0) := by decide +kernel

/-- the data of one write command: blocks `i .. last-1` of the padded message (`T3.dataCmds`) -/
theorem t3_wr_chunk_bridge (data : Bytes) (i last : Nat) (hi : 1 ≤ i) (hl : 1 ≤ last) :
    Gen.Fn.t3_wr_chunk data i last = sliceN data ((i - 1) * 16) ((last - 1) * 16) := by
  unfold Gen.Fn.t3_wr_chunk
  have e1 : ((i : Int) - 1) * 16 = (((i - 1) * 16 : Nat) : Int) := by omega
  have e2 : ((last : Int) - 1) * 16 = (((last - 1) * 16 : Nat) : Int) := by omega
  rw [e1, e2, slice_nat]

/-- system code from SENSF_RES (`Adv.activate`) -/
theorem t3_sys_bridge (sensf : Bytes) :
    (Gen.Fn.t3_sys sensf >>= fun v => .ok v.toNat) = unpackH (sliceN sensf 17 19) 0 := by
  unfold Gen.Fn.t3_sys
  rw [show (17 : Int) = ((17 : Nat) : Int) from rfl, show (19 : Int) = ((19 : Nat) : Int) from rfl, slice_nat,
    show (2 : Int) = ((2 : Nat) : Int) from rfl, needExact_nat, unpackH_eq]
  by_cases h2 : (sliceN sensf 17 19).length = 2
  · have : 0 + 2 ≤ (sliceN sensf 17 19).length := by omega
    simp only [h2, if_true, Py.bind_ok, this]
    rw [show (0 : Int) = ((0 : Nat) : Int) from rfl, ube_two _ 0 this, Int.toNat_natCast]
    simp
  · have : ¬ 0 + 2 ≤ (sliceN sensf 17 19).length := by
      have : (sliceN sensf 17 19).length ≤ 2 := by simp [sliceN]; omega
      omega
    simp only [h2, if_false, Py.bind_error, this]

/-! ## third batch: command builders with list displays, the attribute block, the polling result -/

/-- `Type1Tag.read_block`: block number check and READ8 command, for every int -/
theorem t1_read_block_cmd_bridge (block : Int) (uid : Bytes) : Gen.Fn.t1_read_block_cmd block uid = t1Read8 block uid := by
  unfold Gen.Fn.t1_read_block_cmd t1Read8
  by_cases h : block < 0 ∨ block > 255
  · simp only [h, if_true]
  · simp only [h, if_false]
    obtain ⟨n, rfl⟩ := Int.eq_ofNat_of_zero_le (by omega : 0 ≤ block)
    rw [zeros8_gen]
    have := mkBytes_cast [2, n, 0, 0, 0, 0, 0, 0, 0, 0] (by intro x hx; simp at hx; omega)
    simp only [List.map_cons, List.map_nil] at this
    show (mkBytes [((2 : Nat) : Int), (n : Int), ((0 : Nat) : Int), ((0 : Nat) : Int), ((0 : Nat) : Int), ((0 : Nat) : Int),
      ((0 : Nat) : Int), ((0 : Nat) : Int), ((0 : Nat) : Int), ((0 : Nat) : Int)] >>= fun t1 => Except.ok (t1 ++ uid)) = _
    rw [this]
    simp [TagCmdRef.zeros8]

/-- `Type1Tag.read_segment`: segment number check and RSEG command, for every int -/
theorem t1_read_segment_cmd_bridge (segment : Int) (uid : Bytes) : Gen.Fn.t1_read_segment_cmd segment uid = t1Rseg segment uid := by
  unfold Gen.Fn.t1_read_segment_cmd t1Rseg
  by_cases h : segment < 0 ∨ segment > 15
  · simp only [h, if_true]
  · simp only [h, if_false]
    obtain ⟨n, rfl⟩ := Int.eq_ofNat_of_zero_le (by omega : 0 ≤ segment)
    rw [zeros8_gen, show (4 : Int) = ((4 : Nat) : Int) from rfl, shl_ofNat, Nat.shiftLeft_eq]
    have := mkBytes_cast [16, n * 2 ^ 4, 0, 0, 0, 0, 0, 0, 0, 0] (by intro x hx; simp at hx; omega)
    simp only [List.map_cons, List.map_nil] at this
    show (mkBytes [((16 : Nat) : Int), ((n * 2 ^ 4 : Nat) : Int), ((0 : Nat) : Int), ((0 : Nat) : Int), ((0 : Nat) : Int), ((0 : Nat) : Int),
      ((0 : Nat) : Int), ((0 : Nat) : Int), ((0 : Nat) : Int), ((0 : Nat) : Int)] >>= fun t1 => Except.ok (t1 ++ uid)) = _
    rw [this]
    simp [TagCmdRef.zeros8]


example : Gen.Fn.t1_read_block_cmd 15 [1, 2, 3, 4] = .ok [0x02, 15, 0, 0, 0, 0, 0, 0, 0, 0, 1, 2, 3, 4] := by decide +kernel
example : Gen.Fn.t1_read_segment_cmd 3 [1, 2, 3, 4] = .ok [0x10, 0x30, 0, 0, 0, 0, 0, 0, 0, 0, 1, 2, 3, 4] := by decide +kernel
example : Gen.Fn.t1_read_segment_cmd 16 [1, 2, 3, 4] = .error .value := by decide +kernel

/-- one round of the C08 segment loop entirely in regenerated functions: segment number, RSEG command, answer check -/
theorem gen_segLoop (t : Adv.Tag) (uid : Bytes) (stop f : Nat) (s : Adv.S1) (h : ¬ s.cache.length ≥ stop) :
    Adv.segLoop t uid stop (f + 1) s =
      match Gen.Fn.t1_read_segment_cmd (Gen.Fn.t1_segment_of s.cache.length) uid with
      | .error e => (.error e, s)
      | .ok cmd =>
        match Adv.trans1 t cmd s with
        | (.error e, s1) => (.error e, s1)
        | (.ok rsp, s1) =>
          match Gen.Fn.t1_read_segment_rsp rsp with
          | .error e => (.error e, s1)
          | .ok d => Adv.segLoop t uid stop f { s1 with cache := s1.cache ++ d } := by
  rw [gen_segLoop_segment t uid stop f s h, t1_read_segment_cmd_bridge]

/-- the READ8 command of `Adv.stageB` is the regenerated one -/
theorem gen_stageB_cmd : Gen.Fn.t1_read_block_cmd 15 uid = .ok ([0x02, 15] ++ Adv.zeros8 ++ uid) := by
  rw [t1_read_block_cmd_bridge]; simp [t1Read8, TagCmdRef.zeros8, Adv.zeros8]

/-- `Type3Tag.polling`: length check and result tuple (`Adv.pollingTuple`) -/
theorem t3_polling_rsp_bridge (rc : Int) (d : Bytes) :
    Gen.Fn.t3_polling_rsp rc d = (t3PollingLen rc d >>= fun _ => .ok (Val.tuple ((t3PollingParts d).map Val.bytes))) := by
  unfold Gen.Fn.t3_polling_rsp t3PollingLen t3PollingParts
  have s1 : slice d 0 8 = d.take 8 := by have := slice_nat d 0 8; simpa [sliceN] using this
  have s2 : slice d 8 16 = (d.drop 8).take 8 := slice_nat d 8 16
  have s3 : slice d 16 18 = (d.drop 16).take 2 := slice_nat d 16 18
  rw [s1, s2, s3, len_eq]
  by_cases h : (d.length : Int) ≠ (if rc = 0 then 16 else 18)
  · rw [if_pos h, if_pos h]; rfl
  · rw [if_neg h, if_neg h]
    simp only [Py.bind_ok]
    by_cases h16 : d.length = 16
    · have : (d.length : Int) = 16 := by omega
      simp [h16, this]
    · have : ¬ (d.length : Int) = 16 := by omega
      simp [h16, this]


/-- the tuple of the C08 model (`Adv.pollingTuple`) -/
theorem gen_polling_parts (d : Bytes) :
    t3PollingParts d = if d.length = 16 then [d.take 8, (d.drop 8).take 8] else [d.take 8, (d.drop 8).take 8, (d.drop 16).take 2] := rfl

/-- `_write_attribute_data`: the attribute block is `T3.encodeAttr` -/
theorem t3_wr_attr_bridge (a : T3.Attr) (h : T3.AttrRange a) :
    Gen.Fn.t3_wr_attr a.ver a.nbr a.nbw a.nmaxb a.writef a.rwflag a.ln = .ok (T3.encodeAttr a) := by
  obtain ⟨h1, h2, h3, h4, h5, h6, h7⟩ := h
  obtain ⟨ver, nbr, nbw, nmaxb, writef, rwflag, ln⟩ := a
  simp only at h1 h2 h3 h4 h5 h6 h7
  unfold Gen.Fn.t3_wr_attr T3.encodeAttr
  rw [zeros16']
  simp only [Py.bind_ok, lit_cast]
  simp only [setB_nat, setSlice_nat, slice_nat, sliceN, pack_Hbe', pack_Ibe24, sum_ints, h1, h2, h3, h4, h5, h6, h7, Py.bind_ok,
    List.length_cons, List.length_nil, List.set, List.take, List.drop, List.cons_append, List.nil_append, List.foldl,
    Nat.lt_add_one, Nat.le_refl, Nat.reduceAdd, Nat.reduceLT, Nat.reduceLeDiff, Nat.reduceSub, List.take_succ_cons, List.take_zero,
    List.drop_succ_cons, List.drop_zero, Nat.zero_add, Nat.add_zero]
  rw [pack_Hbe' _ (by omega)]
  simp only [Py.bind_ok, List.append_nil]


/-- `Type3Tag._format`: the attribute block is `T3.formatAttr` -/
theorem t3_fmt_attr_bridge (version nbr nbw nmaxb : Nat) (h1 : version < 256) (h2 : nbr < 256) (h3 : nbw < 256) (h4 : nmaxb < 65536) :
    Gen.Fn.t3_fmt_attr version nbr nbw nmaxb = .ok (T3.formatAttr version nbr nbw nmaxb) := by
  unfold Gen.Fn.t3_fmt_attr T3.formatAttr T3.encodeAttr
  rw [zeros16']
  have hw : (if ((nbw : Int) > 0) then (1 : Int) else 0) = (((if nbw > 0 then 1 else 0 : Nat)) : Int) := by
    by_cases h : nbw > 0
    · have : (nbw : Int) > 0 := by omega
      simp [h, this]
    · have : ¬ (nbw : Int) > 0 := by omega
      simp [h, this]
  rw [hw]
  have hw2 : (if nbw > 0 then 1 else 0 : Nat) < 256 := by split <;> omega
  generalize (if nbw > 0 then 1 else 0 : Nat) = rwf at *
  simp only [Py.bind_ok, lit_cast]
  rw [pack_BBBH version nbr nbw nmaxb h1 h2 h3 h4]
  py_list
  rw [pack_Hbe' _ (by omega)]
  simp only [Py.bind_ok, List.append_nil]
  congr 1


/-- `_read_attribute_data` on a 16 octet block: checksum test and field extraction are `T3.decodeAttr` -/
theorem t3_rd_attr_bridge (b0 b1 b2 b3 b4 b5 b6 b7 b8 b9 b10 b11 b12 b13 b14 b15 : Nat) :
    (Gen.Fn.t3_rd_csum [b0, b1, b2, b3, b4, b5, b6, b7, b8, b9, b10, b11, b12, b13, b14, b15] >>= fun bad =>
      if bad then .ok none else
        Gen.Fn.t3_rd_attr [b0, b1, b2, b3, b4, b5, b6, b7, b8, b9, b10, b11, b12, b13, b14, b15] >>= fun r =>
          .ok (some (⟨r.1.toNat, r.2.1.toNat, r.2.2.1.toNat, r.2.2.2.1.toNat, r.2.2.2.2.1.toNat, r.2.2.2.2.2.1.toNat,
            r.2.2.2.2.2.2.toNat⟩ : T3.Attr)))
      = T3.decodeAttr [b0, b1, b2, b3, b4, b5, b6, b7, b8, b9, b10, b11, b12, b13, b14, b15] := by
  unfold Gen.Fn.t3_rd_csum Gen.Fn.t3_rd_attr T3.decodeAttr
  simp only [lit_cast, ← Int.natCast_add, slice_nat, sliceN, List.take, List.drop, List.cons_append, List.nil_append, needExact_nat, sum_ints,
    List.foldl, List.length_cons, List.length_nil, Nat.reduceAdd, Nat.reduceSub, if_true, Py.bind_ok, ube_lit1, at0_cons_zero,
    at0_cons_succ, Nat.zero_add, List.take_succ_cons, List.take_zero, List.drop_succ_cons, List.drop_zero]
  have u1 : ube [b14, b15] ((0 : Nat) : Int) 2 = ((b14 * 256 + b15 : Nat) : Int) := ube_pair b14 b15
  have u2 : ube [b0, b1, b2, b3, b4] ((3 : Nat) : Int) 2 = ((b3 * 256 + b4 : Nat) : Int) := by simp [ube, beNat]
  have u3 : ube [0, b11, b12, b13] ((0 : Nat) : Int) 4 = (((b11 * 256 + b12) * 256 + b13 : Nat) : Int) := by simp [ube, beNat]
  rw [u1, u2, u3]
  simp only [Int.toNat_natCast, ne_eq, Int.natCast_inj, decide_not, Bool.not_eq_true', decide_eq_false_iff_not]


/-- an attribute block that `read_from_ndef_service` could not verify (`None`): `_read_attribute_data` gives no attributes -/
theorem t3_rd_attr_none_bridge (d : Option Bytes) : Gen.Fn.t3_rd_attr_none d = d.isNone := by
  unfold Gen.Fn.t3_rd_attr_none; cases d <;> simp

/-- one round of the block loop of `_read_ndef_data`: a `None` from `read_from_ndef_service` ends the read with no data,
otherwise the answer is appended (`T3.readLoop` / `Adv.blockLoop3`: `acc ++ d`) -/
theorem t3_rd_block_step_bridge (data : Bytes) (bd : Option Bytes) :
    Gen.Fn.t3_rd_block_step data bd = bd.map fun b => data ++ b := by
  unfold Gen.Fn.t3_rd_block_step; cases bd <;> rfl

/-- no data survives a `None`, whatever was read before -/
theorem gen_rd_block_none (data : Bytes) : Gen.Fn.t3_rd_block_step data none = none := by
  rw [t3_rd_block_step_bridge]; rfl

example : Gen.Fn.t3_rd_block_step [1, 2] (some [3]) = some [1, 2, 3] := by decide

/-- a block shorter than 16 octets: `struct.error` like `T3.decodeAttr` -/
theorem t3_rd_csum_short (d : Bytes) (h : d.length < 16) : Gen.Fn.t3_rd_csum d = .error .struct := by
  unfold Gen.Fn.t3_rd_csum
  rw [show (14 : Int) = ((14 : Nat) : Int) from rfl, show (16 : Int) = ((16 : Nat) : Int) from rfl, slice_nat,
    show (2 : Int) = ((2 : Nat) : Int) from rfl, needExact_nat]
  have : (sliceN d 14 16).length ≠ 2 := by simp [sliceN]; omega
  simp [this]

example : Gen.Fn.t3_wr_attr 0x10 4 1 13 0 1 5 = .ok [0x10, 4, 1, 0, 13, 0, 0, 0, 0, 0, 1, 0, 0, 5, 0, 0x28] := by decide +kernel
example : Gen.Fn.t3_polling_rsp 0 (List.replicate 18 1) = .error (.tagCmd 4) := by rfl

/-! ## Type 1 memory reader: which commands fill the cache -/

theorem t1_need_rall_bridge (n : Nat) : Gen.Fn.t1_need_rall n = decide (n < 120) := by
  unfold Gen.Fn.t1_need_rall; py_bits
theorem t1_need_block15_bridge (stop n : Nat) : Gen.Fn.t1_need_block15 stop n = decide (stop > 120 ∧ n < 128) := by
  unfold Gen.Fn.t1_need_block15; py_bits
theorem t1_rall_short_bridge (r : Bytes) : Gen.Fn.t1_rall_short r = decide (r.length < 2) := by
  unfold Gen.Fn.t1_rall_short; py_bits
theorem t1_rall_hdr_bridge (r : Bytes) : Gen.Fn.t1_rall_hdr r = r.take 2 := by
  unfold Gen.Fn.t1_rall_hdr
  have := slice_nat r 0 2
  simpa [sliceN] using this
theorem t1_rall_mem_bridge (r : Bytes) : Gen.Fn.t1_rall_mem r = r.drop 2 := sliceFrom_ofNat r 2

/-- `Adv.stageA` / `Adv.stageB` (C08) with the regenerated conditions and answer split -/
theorem gen_stageA (t : Adv.Tag) (uid : Bytes) (s : Adv.S1) :
    Adv.stageA t uid s =
      if Gen.Fn.t1_need_rall s.cache.length then
        match Adv.trans1 t (Gen.Fn.t1_read_all_cmd uid) s with
        | (.error e, s1) => (.error e, s1)
        | (.ok rsp, s1) =>
          if Gen.Fn.t1_rall_short rsp then (.error (.tagCmd 2), s1)
          else (.ok (), { s1 with hdr := Gen.Fn.t1_rall_hdr rsp, cache := Gen.Fn.t1_rall_mem rsp })
      else (.ok (), s) := by
  rw [stageA_cmd, t1_need_rall_bridge, t1_read_all_cmd_bridge]
  simp only [t1_rall_short_bridge, t1_rall_hdr_bridge, t1_rall_mem_bridge, decide_eq_true_eq]
  rfl

theorem gen_stageB_cond (t : Adv.Tag) (uid : Bytes) (stop : Nat) (s1 : Adv.S1) (h : Gen.Fn.t1_need_block15 stop s1.cache.length = false) :
    Adv.stageB t uid stop s1 = (.ok (), s1) := by
  rw [t1_need_block15_bridge] at h
  rw [stageB_cmd, if_neg (by simpa using h)]

/-! ## Type 2 `protect()`: Lock Control TLV fields and the default dynamic lock bits (C03) -/

/-- first lock byte from the value of a Lock Control TLV (`Tlv.protWalk`: `specFirst d0 d2`) -/
theorem t2_lock_first_bridge (v : Bytes) :
    Gen.Fn.t2_lock_first v = (idxN v 0 >>= fun d0 => idxN v 2 >>= fun d2 => .ok ((Tlv.specFirst d0 d2 : Nat) : Int)) := by
  unfold Gen.Fn.t2_lock_first Tlv.specFirst
  rw [show (0 : Int) = ((0 : Nat) : Int) from rfl, show (2 : Int) = ((2 : Nat) : Int) from rfl, getB_idxN, getB_idxN]
  cases idxN v 0 with
  | error e => rfl
  | ok d0 =>
    simp only [Py.bind_ok]
    cases idxN v 2 with
    | error e => rfl
    | ok d2 =>
      simp only [Py.bind_ok]
      py_bits

/-- number of lock bits (`specBits d1`) -/
theorem t2_lock_bits_bridge (v : Bytes) :
    Gen.Fn.t2_lock_bits v = (idxN v 1 >>= fun d1 => .ok ((Tlv.specBits d1 : Nat) : Int)) := by
  unfold Gen.Fn.t2_lock_bits Tlv.specBits
  rw [show (1 : Int) = ((1 : Nat) : Int) from rfl, getB_idxN]
  cases idxN v 1 with
  | error e => rfl
  | ok d1 =>
    simp only [Py.bind_ok]
    by_cases h : d1 = 0
    · subst h; simp
    · have : ((d1 : Int) > 0) := by omega
      simp [h, this]

example : Gen.Fn.t2_lock_first [0xA0, 0x10, 0x44] = .ok 160 ∧ Gen.Fn.t2_lock_bits [0xA0, 0x00, 0x44] = .ok 256 := by decide +kernel

/-- default dynamic lock bits (`Tlv.defaultLocks`) -/
theorem t2_lock_default_cond_bridge (sz nlock : Nat) : Gen.Fn.t2_lock_default_cond sz nlock = decide (sz > 6 ∧ nlock = 0) := by
  unfold Gen.Fn.t2_lock_default_cond; py_bits
theorem t2_lock_default_addr_bridge (sz : Nat) : Gen.Fn.t2_lock_default_addr ((sz * 8 : Nat) : Int) = ((16 + sz * 8 : Nat) : Int) := by
  unfold Gen.Fn.t2_lock_default_addr; omega
theorem t2_lock_default_bits_bridge (sz : Nat) (h : sz > 6) :
    Gen.Fn.t2_lock_default_bits ((sz * 8 : Nat) : Int) = (((sz * 8 - 48 + 7) / 8 : Nat) : Int) := by
  unfold Gen.Fn.t2_lock_default_bits; omega

/-- C03 `defaultLocks` with the regenerated arithmetic -/
theorem gen_defaultLocks (sz : Nat) (found : List (Nat × Nat)) :
    Tlv.defaultLocks sz found =
      if Gen.Fn.t2_lock_default_cond sz found.length then
        [((Gen.Fn.t2_lock_default_addr ((sz * 8 : Nat) : Int)).toNat, (Gen.Fn.t2_lock_default_bits ((sz * 8 : Nat) : Int)).toNat)]
      else found := by
  unfold Tlv.defaultLocks
  rw [t2_lock_default_cond_bridge]
  by_cases h : sz > 6 ∧ found = []
  · have h2 : sz > 6 ∧ found.length = 0 := ⟨h.1, by rw [h.2]; rfl⟩
    rw [if_pos h, if_pos (by simpa using h2), t2_lock_default_addr_bridge, t2_lock_default_bits_bridge sz h.1]
    simp only [Int.toNat_natCast]
  · have h2 : ¬ (sz > 6 ∧ found.length = 0) := by
      intro hc; exact h ⟨hc.1, List.eq_nil_of_length_eq_zero hc.2⟩
    rw [if_neg h, if_neg (by simpa using h2)]

/-- lock bytes and bits (`Tlv.setAllLocks`: `(b + 7) / 8` bytes; `Tlv.lockByteVal`: bit `i` lives in byte `i >> 3`) -/
theorem t2_lock_byte_size_bridge (b : Nat) : Gen.Fn.t2_lock_byte_size b = (((b + 7) / 8 : Nat) : Int) := by
  unfold Gen.Fn.t2_lock_byte_size; omega
theorem t2_lock_byte_index_bridge (a i : Nat) : Gen.Fn.t2_lock_byte_index a i = ((a + i / 8 : Nat) : Int) := by
  unfold Gen.Fn.t2_lock_byte_index; py_bits
theorem t2_lock_bit_bridge (i : Nat) : Gen.Fn.t2_lock_bit i = ((2 ^ (i % 8) : Nat) : Int) := by
  unfold Gen.Fn.t2_lock_bit; py_bits; omega

/-! ## Type 3 Tag emulation (`Type3TagEmulation`, model `T3Emu`, C07) -/
section emulation

/-- little-endian 16 bit value `d[k+1] << 8 | d[k]` of octets -/
theorem le16_at (d : Bytes) (hb : IsBytes d) (k : Nat) :
    (getB d ((k + 1 : Nat) : Int) >>= fun t1 => getB d (k : Int) >>= fun t2 => Except.ok (bor (shl t1 8) t2))
      = (idxN d (k + 1) >>= fun hi => idxN d k >>= fun lo => .ok ((hi * 256 + lo : Nat) : Int)) := by
  rw [getB_idxN, getB_idxN]
  cases h1 : idxN d (k + 1) with
  | error e => rfl
  | ok hi =>
    cases h0 : idxN d k with
    | error e => rfl
    | ok lo =>
      have hlo : lo < 256 := hb lo (idxN_mem h0)
      simp only [Py.bind_ok, show (8 : Int) = ((8 : Nat) : Int) from rfl, shl_ofNat, bor_ofNat, shl8_or hi lo hlo]

/-- service code at the head of the command data (`T3Emu.parseServices`) -/
theorem t3e_rd_service_code_bridge (d : Bytes) (hb : IsBytes d) :
    Gen.Fn.t3e_rd_service_code d = (idxN d 1 >>= fun hi => idxN d 0 >>= fun lo => .ok ((hi * 256 + lo : Nat) : Int)) :=
  le16_at d hb 0
theorem t3e_wr_service_code_bridge (d : Bytes) (hb : IsBytes d) :
    Gen.Fn.t3e_wr_service_code d = (idxN d 1 >>= fun hi => idxN d 0 >>= fun lo => .ok ((hi * 256 + lo : Nat) : Int)) :=
  le16_at d hb 0

/-- block number of a 3-octet block list element (`T3Emu.parseBlocks`) -/
theorem t3e_rd_block_number_bridge (d : Bytes) (hb : IsBytes d) :
    Gen.Fn.t3e_rd_block_number d = (idxN d 2 >>= fun hi => idxN d 1 >>= fun lo => .ok ((hi * 256 + lo : Nat) : Int)) :=
  le16_at d hb 1
theorem t3e_wr_block_number_bridge (d : Bytes) (hb : IsBytes d) :
    Gen.Fn.t3e_wr_block_number d = (idxN d 2 >>= fun hi => idxN d 1 >>= fun lo => .ok ((hi * 256 + lo : Nat) : Int)) :=
  le16_at d hb 1

example : Gen.Fn.t3e_rd_block_number [0x00, 0x34, 0x12] = .ok 0x1234 := by decide +kernel
example : Gen.Fn.t3e_rd_block_number [0x00, 0x34] = .error .index := by decide +kernel

/-- service list index and length bit of a block list element -/
theorem t3e_rd_service_index_bridge (d : Bytes) :
    Gen.Fn.t3e_rd_service_index d = (idxN d 0 >>= fun b0 => .ok ((b0 % 16 : Nat) : Int)) := by
  unfold Gen.Fn.t3e_rd_service_index
  rw [show (0 : Int) = ((0 : Nat) : Int) from rfl, getB_idxN]
  cases idxN d 0 with
  | error e => rfl
  | ok b => simp only [Py.bind_ok, show (15 : Int) = ((15 : Nat) : Int) from rfl, band_ofNat, and15]
theorem t3e_wr_service_index_bridge (d : Bytes) :
    Gen.Fn.t3e_wr_service_index d = (idxN d 0 >>= fun b0 => .ok ((b0 % 16 : Nat) : Int)) := t3e_rd_service_index_bridge d

theorem t3e_rd_short_elem_bridge (d : Bytes) :
    Gen.Fn.t3e_rd_short_elem d = (idxN d 0 >>= fun b0 => .ok (decide (b0 ≥ 128))) := by
  unfold Gen.Fn.t3e_rd_short_elem
  rw [show (0 : Int) = ((0 : Nat) : Int) from rfl, getB_idxN]
  cases idxN d 0 with
  | error e => rfl
  | ok b =>
    simp only [Py.bind_ok]
    by_cases h : b ≥ 128
    · have : ((b : Int) ≥ 128) := by omega
      simp [h, this]
    · have : ¬ ((b : Int) ≥ 128) := by omega
      simp [h, this]
theorem t3e_wr_short_elem_bridge (d : Bytes) :
    Gen.Fn.t3e_wr_short_elem d = (idxN d 0 >>= fun b0 => .ok (decide (b0 ≥ 128))) := t3e_rd_short_elem_bridge d

/-- status flags: bit `i mod 8` of the first flag octet names the block list position -/
theorem t3e_status (i : Nat) (code : Nat) (hc : code < 256) :
    mkBytes [shl 1 ((i : Int) % 8), (code : Int)] = .ok [2 ^ (i % 8), code] := by
  have e : shl 1 ((i : Int) % 8) = ((2 ^ (i % 8) : Nat) : Int) := by
    rw [show ((i : Int) % 8) = ((i % 8 : Nat) : Int) from by omega, show (1 : Int) = ((1 : Nat) : Int) from rfl, shl_ofNat,
      Nat.shiftLeft_eq, Nat.one_mul]
  rw [e]
  have hp : 2 ^ (i % 8) ≤ 2 ^ 7 := Nat.pow_le_pow_right (by omega) (by omega)
  exact mkBytes2 _ _ (by omega) hc

theorem t3e_rd_status_a3_bridge (i : Nat) : Gen.Fn.t3e_rd_status_a3 i = .ok [2 ^ (i % 8), 0xA3] := t3e_status i 0xA3 (by omega)
theorem t3e_rd_status_a2_bridge (i : Nat) : Gen.Fn.t3e_rd_status_a2 i = .ok [2 ^ (i % 8), 0xA2] := t3e_status i 0xA2 (by omega)
theorem t3e_wr_status_a3_bridge (i : Nat) : Gen.Fn.t3e_wr_status_a3 i = .ok [2 ^ (i % 8), 0xA3] := t3e_status i 0xA3 (by omega)
theorem t3e_wr_status_a2_bridge (i : Nat) : Gen.Fn.t3e_wr_status_a2 i = .ok [2 ^ (i % 8), 0xA2] := t3e_status i 0xA2 (by omega)

example : Gen.Fn.t3e_rd_status_a3 9 = .ok [2, 0xA3] := by decide +kernel

/-- one step of `T3Emu.parseBlocks` in terms of the regenerated element decoding (an element whose service list
index is legal): 2 octets with the length bit, else 3 octets with a little-endian block number -/
theorem gen_parseBlocks_step (nsvc n i : Nat) (d : Bytes) (hb : IsBytes d) (acc : List (Nat × Nat)) (b0 : Nat) (rest : Bytes)
    (hd : d = b0 :: rest) (hs : ¬ b0 % 16 ≥ nsvc) :
    T3Emu.parseBlocks nsvc (n + 1) i d acc =
      (Gen.Fn.t3e_rd_short_elem d >>= fun short =>
        if short then idxN d 1 >>= fun bn => T3Emu.parseBlocks nsvc n (i + 1) (d.drop 2) (acc ++ [(b0 % 16, bn)])
        else Gen.Fn.t3e_rd_block_number d >>= fun bn =>
          T3Emu.parseBlocks nsvc n (i + 1) (d.drop 3) (acc ++ [(b0 % 16, bn.toNat)])) := by
  rw [t3e_rd_short_elem_bridge, t3e_rd_block_number_bridge d hb]
  subst hd
  simp only [T3Emu.parseBlocks, hs, if_false, idxN_cons_zero, Py.bind_ok]
  by_cases h128 : b0 ≥ 128
  · simp only [h128, if_true, decide_true]
  · simp only [h128, if_false, decide_false, Bool.false_eq_true]
    cases idxN (b0 :: rest) 2 with
    | error e => rfl
    | ok hi =>
      cases idxN (b0 :: rest) 1 with
      | error e => rfl
      | ok lo => simp only [Py.bind_ok, Int.toNat_natCast]

/-- response framing (`T3Emu.respond`) -/
theorem t3e_rsp_frame (n code : Nat) (hc : code < 256) (idm rsp : Bytes) :
    (mkBytes [((n : Int) + len rsp), (code : Int)] >>= fun t1 => Except.ok ((t1 ++ idm) ++ rsp))
      = if n + rsp.length > 255 then .error .value else .ok ([n + rsp.length, code] ++ idm ++ rsp) := by
  rw [len_eq, ← Int.natCast_add]
  by_cases h : n + rsp.length > 255
  · have := mkBytes_bad [] ((n + rsp.length : Nat) : Int) [(code : Int)] (by simp) (by omega)
    simp only [List.map_nil, List.nil_append] at this
    rw [this]; simp [h]
  · rw [mkBytes2 _ _ (by omega) hc]; simp [h]

theorem t3e_read_rsp_bridge (e : T3Emu.Emu) (rsp : Bytes) : Gen.Fn.t3e_read_rsp rsp e.idm = T3Emu.respond e 0x07 rsp :=
  t3e_rsp_frame 10 7 (by omega) e.idm rsp
theorem t3e_write_rsp_bridge (e : T3Emu.Emu) (rsp : Bytes) : Gen.Fn.t3e_write_rsp rsp e.idm = T3Emu.respond e 0x09 rsp :=
  t3e_rsp_frame 10 9 (by omega) e.idm rsp
theorem t3e_polling_rsp_bridge (rsp : Bytes) :
    Gen.Fn.t3e_polling_rsp rsp = if 2 + rsp.length > 255 then .error .value else .ok ([2 + rsp.length, 1] ++ rsp) := by
  have := t3e_rsp_frame 2 1 (by omega) [] rsp
  simpa [Gen.Fn.t3e_polling_rsp] using this

example : Gen.Fn.t3e_read_rsp [0, 0, 1, 7] [1, 2, 3, 4, 5, 6, 7, 8] = .ok [14, 7, 1, 2, 3, 4, 5, 6, 7, 8, 0, 0, 1, 7] := by decide +kernel

/-- the polling answer of the emulation (`T3Emu.processCommand`: request code 1 appends the system code) -/
theorem t3e_polling_bridge (d idm pmm sys : Bytes) :
    Gen.Fn.t3e_polling d idm pmm sys = (idxN d 2 >>= fun rc => .ok (if rc = 1 then idm ++ pmm ++ sys else idm ++ pmm)) := by
  unfold Gen.Fn.t3e_polling
  rw [show (2 : Int) = ((2 : Nat) : Int) from rfl, getB_idxN]
  cases idxN d 2 with
  | error e => rfl
  | ok rc =>
    simp only [Py.bind_ok]
    by_cases h : rc = 1
    · subst h; rfl
    · have : ¬ ((rc : Int) = 1) := by omega
      simp only [h, this, if_false]

/-- length test of a received command -/
theorem t3e_cmd_bad_len_bridge (cmd : Bytes) :
    Gen.Fn.t3e_cmd_bad_len cmd = .ok (decide (cmd = [] ∨ cmd.length ≠ at0 cmd 0)) := by
  unfold Gen.Fn.t3e_cmd_bad_len
  match cmd with
  | [] => simp
  | a :: r =>
    simp only [getB_zero, len_eq, at0_cons_zero, List.length_cons]
    by_cases h : r.length + 1 = a
    · have : ((r.length + 1 : Nat) : Int) = (a : Int) := by omega
      simp [h, this]
    · have : ¬ ((r.length + 1 : Nat) : Int) = (a : Int) := by omega
      simp only [ne_eq, reduceCtorEq, not_false_eq_true, if_false, this, decide_true, Py.bind_ok, h, false_or]
      rfl

/-- for a non-empty command this is the test of `T3Emu.processCommand` -/
theorem gen_cmd_len_model (a : Nat) (r : Bytes) :
    (idxN (a :: r) 0 >>= fun l0 => (.ok (decide ((a :: r).length ≠ l0)) : Py Bool)) = Gen.Fn.t3e_cmd_bad_len (a :: r) := by
  rw [t3e_cmd_bad_len_bridge]; simp [at0_cons_zero]

theorem t3e_idm_match_bridge (cmd idm : Bytes) : Gen.Fn.t3e_idm_match cmd idm = decide (sliceN cmd 2 10 = idm) := by
  unfold Gen.Fn.t3e_idm_match
  have e : slice cmd 2 10 = sliceN cmd 2 10 := slice_nat cmd 2 10
  rw [e]

theorem t3e_wr_data_len_bridge (data : Bytes) : Gen.Fn.t3e_wr_data_len data = decide (data.length % 16 ≠ 0) := by
  unfold Gen.Fn.t3e_wr_data_len
  by_cases h : data.length % 16 = 0
  · have : (len data % 16 = 0) := by rw [len_eq]; omega
    simp [h, this]
  · have : ¬ (len data % 16 = 0) := by rw [len_eq]; omega
    simp [h, this]

theorem t3e_wr_block_bridge (data : Bytes) (i : Nat) : Gen.Fn.t3e_wr_block data i = sliceN data (i * 16) ((i + 1) * 16) := by
  unfold Gen.Fn.t3e_wr_block
  rw [show ((i : Int) * 16) = ((i * 16 : Nat) : Int) from by omega, show (((i : Int) + 1) * 16) = (((i + 1) * 16 : Nat) : Int) from by omega,
    slice_nat]

/-- the reader-side encodings of the emulation model are the regenerated ones -/
theorem gen_frame_eq_T3Emu (code : Nat) (hc : code < 256) (body : Bytes) (timeout : Int) (idm : Bytes) :
    Gen.Fn.t3_frame code body timeout true idm = T3Emu.frame code idm body := by
  rw [gen_frame_eq_t3Command code hc]; rfl
theorem gen_block_code_T3Emu (bn : Nat) : Gen.Fn.t3_block_code_pack bn 0 0 = T3Emu.blockCode bn := by
  rw [gen_block_code_model]; rfl

end emulation

/-! ## NDEF writer: data placement (C01) -/
section placement
open NfcVerif.Tlv NfcVerif.FnBridge.Tlv

/-! The Python set `skip_bytes` is related to the model's list of ranges by `SameSkip` (as in `FnBridgeTlv`); `tag_memory`
is the cached image, so that a write behind its end is `IndexError` in the regenerated function and the command
error of the fetch in the model (`wrState` forgets which); the loops get `fuel`: more than the end of the last
reserved range (`skipMax`) resp. the data area size is enough. -/

/-- `Type1Tag.NDEF._write_ndef_data`, copy loop: `Tlv.place` -/
theorem t1_place_bridge (c : Cfg) (s : Skip) (sk : List Int) (h : SameSkip s sk) (fuel : Nat) (hf : skipMax s < fuel)
    (mem data : Bytes) (hb : IsBytes data) (off : Nat) :
    Gen.Fn.t1_place fuel mem sk off data =
      match Tlv.place c s mem off data with
      | .ok (m', a') => .ok (m', (a' : Int) - (data.length : Int))
      | .error _ => .error .index := by
  unfold Gen.Fn.t1_place
  have hr : PyFn.range 0 (PyFn.len data) = (List.range' 0 data.length).map fun (n : Nat) => (n : Int) := by
    have := range_ofNat 0 data.length
    simp only [Nat.sub_zero] at this
    rw [len_eq, show (0 : Int) = ((0 : Nat) : Int) from rfl, this, List.range_eq_range']
    apply List.map_congr_left
    intro i _
    omega
  rw [hr]
  have key := place_forM c s sk h fuel hf data hb data 0 off mem rfl
  simp only [show ((0 : Nat) : Int) = 0 from rfl, Int.sub_zero, Nat.zero_add] at key
  show (PyFn.forM _ ((off : Int), mem) (placeBody fuel sk data) >>= fun (x : Int × Bytes) => Except.ok (x.2, x.1)) = _
  rw [key]
  unfold placeState
  cases Tlv.place c s mem off data with
  | error e => rfl
  | ok r => rfl


/-- terminator placement of the Type 1 writer -/
theorem t1_term_bridge (c : Cfg) (s : Skip) (sk : List Int) (h : SameSkip s sk) (fuel : Nat)
    (mem data : Bytes) (off : Int) (a size : Nat) (ha : off + (data.length : Int) = (a : Int)) (hf : size - a < fuel) :
    Gen.Fn.t1_term fuel mem sk off data size =
      wrState (if nextFree s a < size then Tlv.wr c mem (nextFree s a) 0xFE else .ok mem) := by
  unfold Gen.Fn.t1_term
  dsimp only
  rw [len_eq, ha]
  refine (term_loop s sk h size mem fuel a hf).trans ?_
  by_cases hlt : nextFree s a < size
  · simp only [hlt, if_true]
    rw [show (254 : Int) = ((254 : Nat) : Int) from rfl, setB_wr c mem _ 254 (by omega)]
  · simp only [hlt, if_false, wrState]


/-- terminator placement of the Type 2 writer: second half of `Tlv.phase2` -/
theorem t2_term_bridge (s : Skip) (sk : List Int) (h : SameSkip s sk) (fuel : Nat) (hf : skipMax s < fuel)
    (mem data : Bytes) (off : Int) (a : Nat) (ha : off + (data.length : Int) = (a : Int)) (hcc : 14 < mem.length) :
    Gen.Fn.t2_term fuel mem sk off data =
      wrState (if nextFree s a < Tlv.Cfg.areaEnd t2Cfg (at0 mem 14) then Tlv.wr t2Cfg mem (nextFree s a) 0xFE else .ok mem) := by
  unfold Gen.Fn.t2_term
  simp only [len_eq, ha]
  rw [show (fun (offset_3 : Int) => (Except.ok (let offset_4 := offset_3 + 1; offset_4) : Py Int)) = fun (o : Int) => Except.ok (o + 1) from rfl,
    while_skip0 s sk h fuel a (by omega), show (14 : Int) = ((14 : Nat) : Int) from rfl, getB_nat]
  simp only [hcc, if_true, Py.bind_ok]
  have e : ((at0 mem 14 : Nat) : Int) * 8 + 16 = ((Tlv.Cfg.areaEnd t2Cfg (at0 mem 14) : Nat) : Int) := by
    simp [Tlv.Cfg.areaEnd, t2Cfg]
  rw [e]
  by_cases hlt : nextFree s a < Tlv.Cfg.areaEnd t2Cfg (at0 mem 14)
  · have : ((nextFree s a : Nat) : Int) < ((Tlv.Cfg.areaEnd t2Cfg (at0 mem 14) : Nat) : Int) := by omega
    simp only [hlt, this, if_true]
    rw [show (254 : Int) = ((254 : Nat) : Int) from rfl, setB_wr t2Cfg mem _ 254 (by omega)]
    cases wrState (Tlv.wr t2Cfg mem (nextFree s a) 254) <;> rfl
  · have : ¬ ((nextFree s a : Nat) : Int) < ((Tlv.Cfg.areaEnd t2Cfg (at0 mem 14) : Nat) : Int) := by omega
    simp only [hlt, this, if_false, Py.bind_ok, wrState]


/-- `Type2Tag.NDEF._write_ndef_data`, copy loop (`for index, octet in enumerate(data)`): `Tlv.place` -/
theorem t2_place_bridge (c : Cfg) (s : Skip) (sk : List Int) (h : SameSkip s sk) (fuel : Nat) (hf : skipMax s < fuel)
    (mem data : Bytes) (hb : IsBytes data) (off : Nat) :
    Gen.Fn.t2_place fuel mem sk off data =
      match Tlv.place c s mem off data with
      | .ok (m', a') => .ok (m', (a' : Int) - (data.length : Int))
      | .error _ => .error .index := by
  rw [← t1_place_bridge c s sk h fuel hf mem data hb off]
  unfold Gen.Fn.t2_place Gen.Fn.t1_place
  have hr : PyFn.range 0 (PyFn.len data) = (List.range' 0 data.length).map fun (n : Nat) => (n : Int) := by
    have := range_ofNat 0 data.length
    simp only [Nat.sub_zero] at this
    rw [len_eq, show (0 : Int) = ((0 : Nat) : Int) from rfl, this, List.range_eq_range']
    apply List.map_congr_left
    intro i _
    omega
  rw [hr]
  show (PyFn.forM _ ((off : Int), mem) (placeBody2 fuel sk data) >>= fun (x : Int × Bytes) => Except.ok (x.2, x.1))
    = (PyFn.forM _ ((off : Int), mem) (placeBody fuel sk data) >>= fun (x : Int × Bytes) => Except.ok (x.2, x.1))
  rw [forM_congr (placeBody2 fuel sk data) (placeBody fuel sk data)]
  intro x hx t
  simp only [List.mem_map, List.mem_range'_1] at hx
  obtain ⟨k, ⟨_, hk⟩, rfl⟩ := hx
  exact placeBody2_eq fuel sk data k (by omega) t

/-- C01: phase 2 of the Type 2 writer (`Tlv.phase2` with the data area end taken from CC byte 2 of the image): the
regenerated copy loop followed by the regenerated terminator placement -/
theorem gen_t2_phase2 (s : Skip) (sk : List Int) (h : SameSkip s sk) (fuel : Nat) (hf : skipMax s < fuel)
    (m1 data : Bytes) (hb : IsBytes data) (off : Nat) (hoff : 13 ≤ off) (hcc : 14 < m1.length) :
    (Gen.Fn.t2_place fuel m1 sk (Gen.Fn.t2_hdr_len data off) data >>= fun r =>
      Gen.Fn.t2_term fuel r.1 sk r.2 data) = wrState (Tlv.phase2 t2Cfg m1 off s (Tlv.Cfg.areaEnd t2Cfg (at0 m1 14)) data) := by
  rw [t2_hdr_len_bridge, t2_place_bridge t2Cfg s sk h fuel hf m1 data hb]
  unfold Tlv.phase2
  cases hp : Tlv.place t2Cfg s m1 (off + hdrLen data.length) data with
  | error e => rfl
  | ok pe =>
    obtain ⟨m', a'⟩ := pe
    have hh : 2 ≤ hdrLen data.length := by unfold hdrLen; split <;> omega
    obtain ⟨hl, h14⟩ := place_below t2Cfg s data m1 (off + hdrLen data.length) m' a' 14 hp (by omega)
    simp only [Py.bind_ok]
    rw [t2_term_bridge s sk h fuel hf m' data _ a' (by omega) (by omega), h14]

/-! ### the three octet length field across write units (`Tlv.phase3a`, `Tlv.phase3`; C02) -/

theorem t2_len_pages_bridge (off : Nat) :
    Gen.Fn.t2_len_pages off = [(((off + 1) / 4 : Nat) : Int), (((off + 2) / 4 : Nat) : Int), (((off + 3) / 4 : Nat) : Int)] := by
  unfold Gen.Fn.t2_len_pages
  simp only [List.map_cons, List.map_nil]
  py_bits

theorem t2_len_split_bridge (a b c : Nat) :
    Gen.Fn.t2_len_split [(a : Int), (b : Int), (c : Int)] = .ok (decide (a ≠ b ∧ b = c)) := by
  unfold Gen.Fn.t2_len_split
  have i0 : idx [(a : Int), (b : Int), (c : Int)] 0 = .ok (a : Int) := by simp [idx]
  have i1 : idx [(a : Int), (b : Int), (c : Int)] 1 = .ok (b : Int) := by simp [idx]
  have i2 : idx [(a : Int), (b : Int), (c : Int)] 2 = .ok (c : Int) := by simp [idx]
  simp only [i0, i1, i2, Py.bind_ok]
  by_cases h1 : a = b
  · subst h1; simp
  · have h1' : ¬ ((a : Int) = (b : Int)) := by omega
    by_cases h2 : b = c
    · subst h2; simp [h1, h1']
    · have h2' : ¬ ((b : Int) = (c : Int)) := by omega
      simp [h1, h1', h2, h2']

/-- the decision of `Tlv.phase3a` for the Type 2 write unit (4 octets): the marker `FF` alone in the first page, both
length octets together in the next one -/
theorem gen_phase3a_split (off : Nat) :
    (Gen.Fn.t2_len_split (Gen.Fn.t2_len_pages off)) =
      .ok (decide ((off + 1) / Tlv.t2Cfg.unit ≠ (off + 2) / Tlv.t2Cfg.unit ∧ (off + 2) / Tlv.t2Cfg.unit = (off + 3) / Tlv.t2Cfg.unit)) := by
  rw [t2_len_pages_bridge, t2_len_split_bridge]; rfl

/-- the two length octets (`Tlv.phase3`: `n / 256`, `n % 256`) -/
theorem t2_nlen_bridge (data : Bytes) :
    Gen.Fn.t2_nlen data = if data.length > 65535 then .error .struct else .ok [data.length / 256, data.length % 256] := by
  unfold Gen.Fn.t2_nlen
  rw [len_eq, PyFn.pack, packField_Hbe]
  by_cases h : data.length > 65535 <;> simp [h, PyFn.pack]

example : Gen.Fn.t2_len_split (Gen.Fn.t2_len_pages 18) = .ok true ∧ Gen.Fn.t2_len_split (Gen.Fn.t2_len_pages 16) = .ok false := by
  decide +kernel

/-! ### NDEF reader: one TLV -/

/-- `tt2.read_tlv(memory, offset, skip_bytes)` on the cached image: same result as the model functions whenever one of
them succeeds, failure exactly when the other fails -/
theorem t2_read_tlv_bridge (c : Cfg) (s : Skip) (sk : List Int) (h : SameSkip s sk) (fuel : Nat) (hf : skipMax s < fuel)
    (m : Bytes) (hm : IsBytes m) (off : Nat) :
    okOnly (Gen.Fn.t2_read_tlv fuel m off sk) = okOnly (readTlvRef c m s off) := by
  unfold Gen.Fn.t2_read_tlv readTlvRef
  rw [getB_nat, rd_nat]
  by_cases h0 : off < m.length
  · simp only [h0, if_true, Py.bind_ok]
    by_cases ht : at0 m off = 0 ∨ at0 m off = 0xFE
    · have : ((at0 m off : Nat) : Int) = 0 ∨ ((at0 m off : Nat) : Int) = 254 := by omega
      simp only [ht, this, if_true]
    · have : ¬ (((at0 m off : Nat) : Int) = 0 ∨ ((at0 m off : Nat) : Int) = 254) := by omega
      simp only [ht, this, if_false]
      rw [show ((off : Int) + 1) = ((off + 1 : Nat) : Int) from by omega, getB_nat]
      rw [okOnly_bind, okOnly_bind (readLen (rd c m) (off + 1))]
      by_cases h1 : off + 1 < m.length
      · have hrd : rd c m (off + 1) = .ok (at0 m (off + 1)) := by rw [rd_nat]; simp [h1]
        simp only [h1, if_true, okOnly_ok, Option.bind_some]
        rw [okOnly_bind]
        have hlen := readLen_gen c m (off + 1) (at0 m (off + 1)) hrd
        rw [hlen]
        cases hrl : readLen (rd c m) (off + 1) with
        | error e => simp
        | ok lv =>
          obtain ⟨L, a⟩ := lv
          simp only [okOnly_ok, Option.map_some, Option.bind_some]
          have hz : PyFn.zeros (L : Int) = .ok (List.replicate L 0) := by
            unfold PyFn.zeros
            have : ¬ ((L : Int) < 0) := by omega
            simp [this]
          rw [hz]
          simp only [Py.bind_ok]
          rw [range0_cast]
          have key := fetch_forM c s sk h fuel hf m hm L 0 a (List.replicate L 0) (by simp)
          simp only [show ((0 : Nat) : Int) = 0 from rfl, Int.sub_zero, List.take_zero, List.nil_append] at key
          have := okOnly_map_snd (PyFn.forM ((List.range' 0 L).map fun (j : Nat) => (j : Int)) ((a : Int), List.replicate L 0)
            (fetchBody fuel sk m)) (fun v => (((at0 m off : Nat) : Int), (L : Int), some v))
          show okOnly (PyFn.forM _ ((a : Int), List.replicate L 0) (fetchBody fuel sk m) >>= fun st =>
              Except.ok (((at0 m off : Nat) : Int), (L : Int), some st.2)) = _
          rw [this, key, okOnly_bind]
          cases Tlv.fetch (rd c m) s L a with
          | error e => simp
          | ok v => simp
      · have : readLen (rd c m) (off + 1) = .error c.rdErr := by
          unfold readLen; rw [rd_nat]; simp [h1]
        simp [h1, this]
  · simp only [h0, if_false, Py.bind_error, okOnly_error]


/-- what a successful `readTlvRef` says in terms of the three model functions -/
theorem readTlvRef_ok (c : Cfg) (m : Bytes) (s : Skip) (off : Nat) (t l : Int) (v : Bytes)
    (h : readTlvRef c m s off = .ok (t, l, some v)) :
    ∃ t' lv, rd c m off = .ok t' ∧ (t' : Int) = t ∧ readLen (rd c m) (off + 1) = .ok lv ∧ (lv.1 : Int) = l ∧
      fetch (rd c m) s lv.1 lv.2 = .ok v := by
  unfold readTlvRef at h
  cases hr : rd c m off with
  | error e => rw [hr] at h; cases h
  | ok t' =>
    rw [hr] at h
    simp only [Py.bind_ok] at h
    split at h
    · cases h
    · cases hl : readLen (rd c m) (off + 1) with
      | error e => rw [hl] at h; cases h
      | ok lv =>
        rw [hl] at h
        simp only [Py.bind_ok] at h
        cases hf : fetch (rd c m) s lv.1 lv.2 with
        | error e => rw [hf] at h; cases h
        | ok v' =>
          rw [hf] at h
          simp only [Py.bind_ok, Except.ok.injEq, Prod.mk.injEq, Option.some.injEq] at h
          obtain ⟨h1, h2, h3⟩ := h
          exact ⟨t', lv, rfl, h1, rfl, h2, by rw [← h3]; exact hf⟩

example : Gen.Fn.t2_read_tlv 100 [3, 4, 9, 8, 7, 6, 5] 0 [3] = .ok (3, 4, some [9, 7, 6, 5]) := by decide +kernel
example : Gen.Fn.t2_read_tlv 100 [0xFE] 0 [] = .ok (0xFE, -1, none) := by decide +kernel
example : Gen.Fn.t2_read_tlv 100 [3, 0xFF, 0] 0 [] = .error .struct := by decide +kernel

/-- C01: phase 2 of the Type 1 writer (`Tlv.phase2`: message octets around the reserved bytes, then the terminator
TLV at the next free byte inside the data area) is what the regenerated copy loop followed by the regenerated
terminator loop compute -/
theorem gen_t1_phase2 (c : Cfg) (s : Skip) (sk : List Int) (h : SameSkip s sk) (fuel : Nat) (size : Nat)
    (hf : skipMax s < fuel) (hf2 : size < fuel) (m1 data : Bytes) (hb : IsBytes data) (off : Nat) :
    (Gen.Fn.t1_place fuel m1 sk (Gen.Fn.t1_hdr_len data off) data >>= fun r =>
      Gen.Fn.t1_term fuel r.1 sk r.2 data size) = wrState (Tlv.phase2 c m1 off s size data) := by
  rw [t1_hdr_len_bridge, t1_place_bridge c s sk h fuel hf m1 data hb]
  unfold Tlv.phase2
  cases hp : Tlv.place c s m1 (off + hdrLen data.length) data with
  | error e => rfl
  | ok pe =>
    obtain ⟨m', a'⟩ := pe
    simp only [Py.bind_ok]
    rw [t1_term_bridge c s sk h fuel m' data _ a' size (by omega) (by omega)]

example : Gen.Fn.t1_place 200 (List.replicate 20 0) [3, 4] 2 [7, 8, 9] = .ok ([0, 0, 7, 0, 0, 8, 9] ++ List.replicate 13 0, 4) := by
  decide +kernel
example : Gen.Fn.t1_term 200 (List.replicate 8 0) [5] 2 [7, 8, 9] 8 = .ok [0, 0, 0, 0, 0, 0, 0xFE, 0] := by decide +kernel
example : Gen.Fn.t2_term 200 (List.replicate 14 0 ++ [6] ++ List.replicate 60 0) [20] 16 [7, 8, 9, 10]
    = .ok (List.replicate 14 0 ++ [6] ++ List.replicate 6 0 ++ [0xFE] ++ List.replicate 53 0) := by decide +kernel

end placement

end NfcVerif.FnBridge.TagCmd
