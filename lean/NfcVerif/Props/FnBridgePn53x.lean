import NfcVerif.Lemmas.FnBridgePn53x
/-!
# Bridge theorems, group Pn53x (`nfc/clf/pn53x.py` -> `Gen/FnPn53x.lean` -> `Model/HostFrame.lean`)

Properties C14 (`pn53x_build_valid`, `pn53x_accept_sound/complete/documented` are about `pnBuild`,
`pnStrip`, `pnBody`, `pnAccept`) and C13 (`ErrMap.pnCommand` ends in `pnAccept`).  `Gen/FnPn53x.lean` is
regenerated from the source of `Chipset.command` on every run.

Encodings: a command code is the Python int `(cmd : Nat)`; what the source does for a code outside
`0..255` (`ValueError` from `bytearray([0xD4, cmd_code])`) is stated separately (`build_value`).  The model
`pnBuild` is total; the source raises `struct.error` for a payload of 65534 octets or more
(`pack(">H", len(cmd_data)+2)`), which the bridge states (the driver asserts at most 263 octets).
-/
namespace NfcVerif.FnBridge.Pn53x
open NfcVerif NfcVerif.PyFn NfcVerif.HostFrame NfcVerif.FnBridge.HostLink

/-- frame construction of `Chipset.command`: `head + data + tail` is `pnBuild cmd d` for every command
code in `0..255` and every payload whose length fits the 16-bit length field -/
theorem build_bridge (cmd : Nat) (d : Bytes) (hc : cmd < 256) :
    (Gen.Fn.pn53x_build cmd d >>= fun r => .ok (r.1 ++ r.2.1 ++ r.2.2))
      = if d.length + 2 < 65536 then .ok (pnBuild cmd d) else .error .struct := by
  unfold Gen.Fn.pn53x_build pnBuild sof
  simp only [lit_cast, len_eq, ← Int.natCast_add, Int.ofNat_lt]
  by_cases h : d.length < 254
  · have e : ((254 : Nat) : Int) - (d.length : Int) = ((254 - d.length : Nat) : Int) := by omega
    have h1 : d.length + 2 < 256 := by omega
    have h2 : 254 - d.length < 256 := by omega
    have h3 : d.length + 2 < 65536 := by omega
    simp only [h, if_true, e, mkBytes_cons, mkBytes_nil, h1, h2, hc, Py.bind_ok, Nat.reduceLT, sum_ints, band_256_sub, h3]
    have h4 : (256 - HostFrame.sum ([212, cmd] ++ d) % 256) % 256 < 256 := Nat.mod_lt _ (by decide)
    simp only [h4, if_true, Py.bind_ok]
    rfl
  · simp only [h, if_false, pack_cons, pack_nil, packField_Hbe]
    by_cases h3 : d.length + 2 < 65536
    · simp only [h3, if_true, Py.bind_ok, List.append_nil]
      have e5 : ([0, 0, 255] ++ [255, 255] ++ [(d.length + 2) / 256 % 256, (d.length + 2) % 256] : Bytes)
          = ([0, 0, 255, 255, 255] : Bytes) ++ [(d.length + 2) / 256 % 256, (d.length + 2) % 256] := rfl
      rw [e5, sliceFrom_neg_two]
      simp only [sum_ints, band_256_sub, mkBytes_cons, mkBytes_nil, hc, Nat.reduceLT, if_true, Py.bind_ok]
      have h4 : (256 - HostFrame.sum ([212, cmd] ++ d) % 256) % 256 < 256 := Nat.mod_lt _ (by decide)
      have h5 : (256 - HostFrame.sum [(d.length + 2) / 256 % 256, (d.length + 2) % 256] % 256) % 256 < 256 :=
        Nat.mod_lt _ (by decide)
      simp only [h4, h5, if_true, Py.bind_ok]
      rw [ext_len_sum _ h3, Nat.mod_eq_of_lt (by omega : (d.length + 2) / 256 < 256)]
      rfl
    · simp only [h3, if_false, Py.bind_error]

example : (Gen.Fn.pn53x_build 0x4A [1, 0] >>= fun r => .ok (r.1 ++ r.2.1 ++ r.2.2))
    = .ok [0, 0, 0xFF, 4, 0xFC, 0xD4, 0x4A, 1, 0, 0xE1, 0] := by decide +kernel
/-- an extended frame (254 payload octets) -/
example : (Gen.Fn.pn53x_build 0 (List.replicate 254 0) >>= fun r => .ok (r.1.take 8)) = .ok [0, 0, 0xFF, 0xFF, 0xFF, 1, 0, 0xFF] := by
  decide +kernel

/-- a command code outside `0..255` is a `ValueError` (`bytearray([0xD4, cmd_code])`), after the head was
built; a payload too long for the length field is a `struct.error` before that -/
theorem build_value (cmd : Int) (d : Bytes) (h : cmd < 0 ∨ cmd > 255) (hd : d.length + 2 < 65536) :
    Gen.Fn.pn53x_build cmd d = .error .value := by
  unfold Gen.Fn.pn53x_build
  simp only [lit_cast, len_eq, ← Int.natCast_add, Int.ofNat_lt]
  have hv : mkBytes [((212 : Nat) : Int), cmd] = .error .value := by
    rw [mkBytes_cons]; simp only [Nat.reduceLT, if_true, mkBytes_bad cmd [] h, Py.bind_error]
  simp only [hv, Py.bind_error]
  by_cases h1 : d.length < 254
  · have e : ((254 : Nat) : Int) - (d.length : Int) = ((254 - d.length : Nat) : Int) := by omega
    have h2 : d.length + 2 < 256 := by omega
    have h3 : 254 - d.length < 256 := by omega
    simp only [h1, if_true, e, mkBytes_cons, mkBytes_nil, h2, h3, Py.bind_ok]
  · simp only [h1, if_false, pack_cons, pack_nil, packField_Hbe, hd, if_true, Py.bind_ok, List.append_nil]
    have e5 : ([0, 0, 255] ++ [255, 255] ++ [(d.length + 2) / 256 % 256, (d.length + 2) % 256] : Bytes)
        = ([0, 0, 255, 255, 255] : Bytes) ++ [(d.length + 2) / 256 % 256, (d.length + 2) % 256] := rfl
    rw [e5, sliceFrom_neg_two]
    simp only [sum_ints, band_256_sub, mkBytes_cons, mkBytes_nil]
    have h5 : (256 - HostFrame.sum [(d.length + 2) / 256 % 256, (d.length + 2) % 256] % 256) % 256 < 256 :=
      Nat.mod_lt _ (by decide)
    simp only [h5, if_true, Py.bind_ok]

example : Gen.Fn.pn53x_build 256 [1] = .error .value := by decide +kernel

/-- header validation of `Chipset.command` (start code, normal/extended length, length checksum, header
removal): the regenerated statement is `pnStrip`, for every byte string -/
theorem strip_bridge (f : Bytes) : Gen.Fn.pn53x_strip f = pnStrip f := by
  unfold Gen.Fn.pn53x_strip pnStrip startsWith sof HostFrame.EIO
  simp only [lit_cast, slice_ofNat, sum_ints, delSlice_zero, getB_idxN, bind_ok_id]
  py_bits
  by_cases h1 : ([0, 0, 255] ++ [255, 255] : Bytes).isPrefixOf f = true
  · simp only [h1, if_true]
    by_cases h2 : HostFrame.sum (sliceN f 5 8) % 256 = 0
    · simp only [h2, not_true_eq_false, if_false]
      by_cases h3 : f.length < 10
      · simp only [h3, if_true, Py.bind_ok, Py.bind_error]
      · have hl : (sliceN f 5 7).length = 2 := by simp [sliceN]; omega
        simp only [h3, if_false, hl, if_true, Py.bind_ok]
        have hu : unpackH (sliceN f 5 7) 0 = .ok (at0 (sliceN f 5 7) 0 * 256 + at0 (sliceN f 5 7) (0 + 1)) := by
          rw [unpackH_eq, if_pos (by omega)]
        have hb := ube_two (sliceN f 5 7) 0 (by omega)
        rw [hu, hb]
        generalize at0 (sliceN f 5 7) 0 * 256 + at0 (sliceN f 5 7) (0 + 1) = l
        simp only [Py.bind_ok, cast_eq_sub, decide_eq_true_eq]
    · simp only [h2, not_false_eq_true, if_true, Py.bind_error]
  · simp only [h1, if_false, Bool.false_eq_true]
    by_cases h5 : ([0, 0, 255] : Bytes).isPrefixOf f = true
    · simp only [h5, if_true]
      by_cases h2 : HostFrame.sum (sliceN f 3 5) % 256 = 0
      · simp only [h2, not_true_eq_false, if_false]
        by_cases h3 : f.length < 7
        · simp only [h3, if_true, Py.bind_ok, Py.bind_error]
        · simp only [h3, if_false]
          rw [idxN_eq_at0 (by omega)]
          simp only [Py.bind_ok, cast_eq_sub, decide_eq_true_eq]
      · simp only [h2, not_false_eq_true, if_true, Py.bind_error]
    · simp only [h5, if_false, Py.bind_error, Bool.false_eq_true]

example : Gen.Fn.pn53x_strip [0, 0, 0xFF, 5, 0xFB, 0xD5, 1, 0x34, 0x35, 0x36, 0x8B, 0] = .ok [0xD5, 1, 0x34, 0x35, 0x36, 0x8B, 0] := by
  decide +kernel
example : Gen.Fn.pn53x_strip [0, 0, 0xFF, 5, 0xFA, 0xD5, 1, 0x34, 0x35, 0x36, 0x8B, 0] = .error (.io 5) := by decide +kernel

/-- `chipset_error(cause)` with an int: `Chipset.Error(cause)` -/
theorem chipset_error_int_bridge (n : Nat) : Gen.Fn.pn53x_chipset_error_int n = .error (.chipsetError n) := by
  unfold Gen.Fn.pn53x_chipset_error_int; simp only [Int.toNat_natCast]

/-- `chipset_error(cause)` with a response payload: `ErrMap.chipErr` - the first octet is the errno, an empty
payload is an `IndexError` -/
theorem chipset_error_bytes_bridge (d : Bytes) :
    Gen.Fn.pn53x_chipset_error_bytes d = (idxN d 0 >>= fun n => .error (.chipsetError n)) := by
  unfold Gen.Fn.pn53x_chipset_error_bytes
  simp only [lit_cast, getB_idxN]
  cases idxN d 0 <;> simp only [Py.bind_ok, Py.bind_error, Int.toNat_natCast]

/-- `chipset_error(cause)` with `int | None` (`data[0] & 0x3f if data else None`): `None` is errno 0xff -/
theorem chipset_error_opt_bridge (o : Option Nat) :
    Gen.Fn.pn53x_chipset_error_opt (o.map fun (n : Nat) => (n : Int)) = .error (.chipsetError (o.getD 0xFF)) := by
  unfold Gen.Fn.pn53x_chipset_error_opt
  cases o <;> simp only [Option.map, Option.getD, Int.toNat_natCast] <;> rfl

/-- `chipset_error(None)` (`get_general_status`): `Chipset.Error(0xff)` - the `None` case of the `int | None` instance -/
example : Gen.Fn.pn53x_chipset_error_opt none = .error (.chipsetError 0xFF) := rfl

example : Gen.Fn.pn53x_chipset_error_bytes [0x27, 1] = .error (.chipsetError 0x27) := by decide
example : Gen.Fn.pn53x_chipset_error_bytes [] = .error .index := by decide

/-- validation of `TFI code data DCS postamble` in `Chipset.command`: the regenerated statements are
`pnBody`, for every command code and every byte string -/
theorem body_bridge (cmd : Nat) (f : Bytes) : Gen.Fn.pn53x_body f cmd = pnBody cmd f := by
  unfold Gen.Fn.pn53x_body pnBody HostFrame.EIO
  simp only [lit_cast, sum_ints, getB_idxN, chipset_error_int_bridge]
  simp only [getB_idx]
  py_bits
  by_cases h3 : f.length < 3
  · simp only [h3, if_true, Py.bind_ok, Py.bind_error]
  · simp only [h3, if_false]
    rw [idx_neg 1 (by omega) (by omega), idxN_eq_at0 (by omega : 0 < f.length), idxN_eq_at0 (by omega : 1 < f.length)]
    simp only [Py.bind_ok, Int.natCast_inj, decide_eq_true_eq, ← Int.natCast_add]
    generalize at0 f (f.length - 1) = last
    generalize at0 f 0 = tfi
    generalize at0 f 1 = code
    by_cases h4 : f.length < 4 <;> by_cases h5 : tfi = 127 <;> by_cases h6 : last = 0 <;>
      by_cases h7 : HostFrame.sum f % 256 = 0 <;> simp [h4, h5, h6, h7]

example : Gen.Fn.pn53x_body [0xD5, 1, 0x34, 0x35, 0x36, 0x8B, 0] 0 = .ok [0x34, 0x35, 0x36] := by decide +kernel
example : Gen.Fn.pn53x_body [0x7F, 0x81, 0] 0 = .error (.chipsetError 0x7F) := by decide +kernel

/-- the whole response validation is the header validation followed by the body validation (both regenerated
separately from the same statements) -/
theorem accept_split (f : Bytes) (cmd : Int) :
    Gen.Fn.pn53x_accept f cmd = (Gen.Fn.pn53x_strip f >>= fun b => Gen.Fn.pn53x_body b cmd) := by
  unfold Gen.Fn.pn53x_accept Gen.Fn.pn53x_strip Gen.Fn.pn53x_body
  simp only [bind_assoc, Py.bind_ok]

/-- response validation of `Chipset.command` (everything behind the ACK loop): the regenerated statements are
`pnAccept`, for every command code and every byte string -/
theorem accept_bridge (cmd : Nat) (f : Bytes) : Gen.Fn.pn53x_accept f cmd = pnAccept cmd f := by
  rw [accept_split, strip_bridge]
  show (pnStrip f >>= fun b => Gen.Fn.pn53x_body b cmd) = (pnStrip f >>= fun body => pnBody cmd body)
  congr 1
  funext b
  exact body_bridge cmd b

example : Gen.Fn.pn53x_accept [0, 0, 0xFF, 5, 0xFB, 0xD5, 1, 0x34, 0x35, 0x36, 0x8B, 0] 0 = .ok [0x34, 0x35, 0x36] := by
  decide +kernel
/-- the response that was accepted before the repair (DCS one too small, postamble 01) -/
example : Gen.Fn.pn53x_accept [0, 0, 0xFF, 5, 0xFB, 0xD5, 1, 0x34, 0x35, 0x36, 0x8A, 1] 0 = .error (.io 5) := by
  decide +kernel

/-- `C14.pn53x_accept_sound` for the regenerated validation: data is returned only for a frame that the
independent reading of the PN53x frame format accepts as `D5, cmd+1, data` -/
theorem gen_accept_sound (cmd : Nat) (f data : Bytes) (h : Gen.Fn.pn53x_accept f cmd = .ok data) :
    Spec.parse f = some (0xD5, cmd + 1, data) := by
  rw [accept_bridge] at h; exact pn_accept_sound cmd f data h

/-- `C14.pn53x_accept_complete`: and every such frame is accepted -/
theorem gen_accept_complete (cmd : Nat) (f data : Bytes) (h : Spec.parse f = some (0xD5, cmd + 1, data)) :
    Gen.Fn.pn53x_accept f cmd = .ok data := by
  rw [accept_bridge]; exact pn_accept_complete cmd f data h

/-- `C14.pn53x_accept_documented` / C13: any other byte string ends in `IOError(EIO)` or, for a well-formed
error frame, in `Chipset.Error(0x7F)` -/
theorem gen_accept_documented (cmd : Nat) (f : Bytes) :
    Safe (fun e => e = .io 5 ∨ e = .chipsetError 0x7F) (Gen.Fn.pn53x_accept f cmd) := by
  rw [accept_bridge]; exact pn_accept_doc cmd f

/-- the start code test on the first frame read after a command was written: `ErrMap.pnCommand` raises
`IOError(EIO)` exactly when the frame does not start with `00 00 FF` -/
theorem ack_sof_check_bridge (f : Bytes) :
    Gen.Fn.pn53x_ack_sof_check f = if ¬ startsWith f sof then .error ErrMap.eio else .ok () := rfl

/-- the condition of the ACK loop is equality with `ErrMap.ack` (`pnCommand`, `pnAwait`) -/
theorem is_ack_bridge (f : Bytes) : Gen.Fn.pn53x_is_ack f = decide (f = ErrMap.ack) := rfl

example : Gen.Fn.pn53x_is_ack [0, 0, 0xFF, 0, 0xFF, 0] = true := by decide
example : Gen.Fn.pn53x_ack_sof_check [0, 0, 0xFE] = .error (.io 5) := by decide

/-- `C14.pn53x_build_valid` for the regenerated construction: every frame the source hands to
`write_frame` is accepted by the independent reading of the PN53x frame format as `D4, cmd, payload` -/
theorem gen_build_valid (cmd : Nat) (d w : Bytes) (hc : cmd < 256)
    (h : (Gen.Fn.pn53x_build cmd d >>= fun r => .ok (r.1 ++ r.2.1 ++ r.2.2)) = .ok w) :
    Spec.parse w = some (0xD4, cmd, d) := by
  rw [build_bridge cmd d hc] at h
  by_cases hl : d.length + 2 < 65536
  · rw [if_pos hl] at h
    cases h
    exact pn_build_valid cmd d hl
  · rw [if_neg hl] at h; cases h

/-! ## the hand-built frames of `pn532.init` against `Model/FnPn53xRef.lean` -/
open NfcVerif.FnPn53xRef

/-- the literal GetFirmwareVersion / SAMConfiguration frames of `pn532.init` are the frames
`Chipset.command` would build (`pnBuild`), the literal responses the reference responses -/
theorem init_frames_bridge :
    Gen.Fn.pn532_init_frames = (getVersionCmd, getVersionRspPrefix, samConfigurationCmd, ackRsp 0x14) := by
  decide

/-- the SetSerialBaudRate frame after the two patches (`cmd[7] = 5 + index`, `cmd[8] = 256 - sum(cmd[5:8])`)
is the regular frame for the rate's BR code, for each of the three rates of the table; the expected answer is
the empty response to command 0x10 -/
theorem set_baudrate_frame_bridge (baud : Nat) (h : baud = 230400 ∨ baud = 460800 ∨ baud = 921600) :
    (setBaudrateCmd baud).map (fun c => (c, ackRsp 0x10)) = (Gen.Fn.pn532_set_baudrate_frame baud).toOption := by
  rcases h with rfl | rfl | rfl <;> decide

/-- any other rate is a `ValueError` (`tuple.index`), for every int -/
theorem set_baudrate_frame_value (baud : Int) (h : baud ≠ 230400 ∧ baud ≠ 460800 ∧ baud ≠ 921600) :
    Gen.Fn.pn532_set_baudrate_frame baud = .error .value := by
  unfold Gen.Fn.pn532_set_baudrate_frame
  have h1 : ¬ (230400 : Int) = baud := fun e => h.1 e.symm
  have h2 : ¬ (460800 : Int) = baud := fun e => h.2.1 e.symm
  have h3 : ¬ (921600 : Int) = baud := fun e => h.2.2 e.symm
  simp only [indexOf, h1, h2, h3, if_false, Py.bind_error]

example : (Gen.Fn.pn532_set_baudrate_frame 921600).toOption
    = some ([0, 0, 0xFF, 3, 0xFD, 0xD4, 0x10, 7, 0x15, 0], [0, 0, 0xFF, 2, 0xFE, 0xD5, 0x11, 0x1A, 0]) := by decide
example : Gen.Fn.pn532_set_baudrate_frame 115200 = .error .value := by decide

/-- C14 for the hand-built frames: every command frame `pn532.init` writes on the serial line is accepted by
the independent reading of the frame format with the intended command code and parameters, and every literal
response it waits for is a frame the driver's own validation accepts for that command -/
theorem gen_uart_frames_valid :
    Spec.parse Gen.Fn.pn532_init_frames.1 = some (0xD4, 0x02, []) ∧
    Spec.parse Gen.Fn.pn532_init_frames.2.2.1 = some (0xD4, 0x14, [1, 0, 0]) ∧
    pnAccept 0x14 Gen.Fn.pn532_init_frames.2.2.2 = .ok [] ∧
    (∀ baud c r, (baud = 230400 ∨ baud = 460800 ∨ baud = 921600) →
      Gen.Fn.pn532_set_baudrate_frame (baud : Nat) = .ok (c, r) →
      (∃ code, brCode baud = some code ∧ Spec.parse c = some (0xD4, 0x10, [code])) ∧ pnAccept 0x10 r = .ok []) := by
  refine ⟨by decide, by decide, by decide, ?_⟩
  intro baud c r hb hg
  have hbr := set_baudrate_frame_bridge baud hb
  rw [hg] at hbr
  rcases hb with rfl | rfl | rfl
  · simp [setBaudrateCmd, brCode, Except.toOption] at hbr
    obtain ⟨rfl, rfl⟩ := hbr
    exact ⟨⟨5, rfl, by decide⟩, by decide⟩
  · simp [setBaudrateCmd, brCode, Except.toOption] at hbr
    obtain ⟨rfl, rfl⟩ := hbr
    exact ⟨⟨6, rfl, by decide⟩, by decide⟩
  · simp [setBaudrateCmd, brCode, Except.toOption] at hbr
    obtain ⟨rfl, rfl⟩ := hbr
    exact ⟨⟨7, rfl, by decide⟩, by decide⟩

end NfcVerif.FnBridge.Pn53x
