import NfcVerif.Lemmas.HistC01
import NfcVerif.Lemmas.HistC01R
import NfcVerif.Lemmas.HistC01T34
/-!
# C01, part hist - an assignment that completes is read back, whatever failed before it

Statements about `NfcVerif.Hist` (`Model/HistC01.lean`): assignments `tag.ndef.octets = data` through ONE tag
object, some of them aborted by a communication fault on a state-changing command (`Fault ⟨k, late⟩`:
command number `k` of the attempt fails; `late = false` - not executed by the tag, `late = true` - executed,
but the reader gets no answer).  Proofs are in `Lemmas/HistC01.lean` (Type 1 / Type 2, with the memory
reader's write-back cache in the model) and `Lemmas/HistC01T34.lean` (Type 3, Type 4).

`history c L (fresh m) hs` runs the attempts `hs` through the object that found layout `L` on image `m`;
`attempt ... data none` is one more assignment without a fault.
-/
namespace NfcVerif.C01Hist
open NfcVerif NfcVerif.Tlv NfcVerif.T34 NfcVerif.Hist

/-! ## Type 1 / Type 2 -/

/-- Without a fault an attempt on a freshly activated object IS the writer of `Model/Tlv.lean`: same ordered
command list, same outcome - for every image (well formed or not), every layout record and every message.  The
theorems and the correspondence runs about `setOctets` (`Props/C01.lean`) therefore speak about this model too. -/
theorem t12_attempt_clean (c : Cfg) (hu : 0 < c.unit) (m : Bytes) (L : Layout) (data : Bytes) :
    (attempt c L (fresh m) data none).cmds = (setOctets c m L data).cmds ∧
    (attempt c L (fresh m) data none).res = (setOctets c m L data).res :=
  attempt_clean c hu m L data

/-- **Cache coherence over a whole history.**  As long as no failed command was executed by the tag, after any
number of attempts (completed, failed at any command, oversize, ...) the memory reader's picture
`_data_from_tag` equals the tag, all images keep the size of the tag memory, and tag and cache still hold the
original bytes in front of the NDEF TLV's length field. -/
theorem t12_cache_coherent (c : Cfg) (m : Bytes) (L : Layout) (hread : readNdef c m = .ok (some L))
    (hwf : WF c m L) (hs : List (Bytes × Option Fault)) (hnl : ∀ a ∈ hs, ∀ f, a.2 = some f → f.late = false) :
    (history c L (fresh m) hs).1.tag = (history c L (fresh m) hs).1.belief ∧
    (history c L (fresh m) hs).1.tag.length = m.length ∧
    ∀ x, x < L.off + 1 → (history c L (fresh m) hs).1.tag[x]? = m[x]? := by
  have hi := history_inv c m L ((readNdef_some c m L).1 hread) hwf hs hnl (fresh m) (Inv.fresh m _)
  exact ⟨hi.coh, hi.len.tag, hi.tag⟩

/-- **Round trip after any history of failed attempts.**  For every well-formed image, every history `hs` of
attempts through the same object - any number, any messages (also oversize ones), each completed or failed at any
state-changing command that the tag did not execute - and every final message up to the capacity: the final
assignment succeeds and a fresh reader of the tag finds the same TLV offset, skip set, capacity, flags and
exactly that message - also under the stricter rule of the present readers that the TLV must lie completely inside
the data area (`readBack`). -/
theorem t12_history_roundtrip (c : Cfg) (m : Bytes) (L : Layout) (hread : readNdef c m = .ok (some L))
    (hwf : WF c m L) (hw : L.writeable = true) (hs : List (Bytes × Option Fault))
    (hnl : ∀ a ∈ hs, ∀ f, a.2 = some f → f.late = false) (data : Bytes) (hcap : (data.length : Int) ≤ L.cap) :
    (attempt c L (history c L (fresh m) hs).1 data none).res = .ok () ∧
    readNdef c (attempt c L (history c L (fresh m) hs).1 data none).st.tag = .ok (some { L with ndef := data }) ∧
    readBack c (attempt c L (history c L (fresh m) hs).1 data none).st.tag = .ok (some { L with ndef := data }) := by
  obtain ⟨h1, h2, h3⟩ := history_roundtrip c m L ((readNdef_some c m L).1 hread) hwf hw hs hnl data hcap
  exact ⟨h1, (readNdef_some c _ _).2 h2, h3⟩

/-! A Type 2 image whose NDEF TLV lies at 18: its length byte is the last byte of page 4, the value starts in
page 5. -/
def cxM : Bytes := List.replicate 12 0 ++ [0xE1, 0x10, 6, 0] ++ [0, 0, 3, 2, 0xAA, 0xBB, 0xFE] ++ List.replicate 41 0
def cxL : Layout :=
  { off := 18, skip := [], areaEnd := 64, cap := 44, readable := true, writeable := true, ndef := [0xAA, 0xBB] }

/-- **The statement is false for an executed but unacknowledged command (open finding
`t12-empty-after-unacknowledged-length-write`).**  Writing `01 02 03` sends three WRITE commands; the tag
executes the last one (page 4 with the length byte 03) but its answer is lost.  The memory reader still believes
that page 4 holds length 00, so the empty message assigned next through the same object sends only page 5 (the
terminator): the assignment returns normally, the tag keeps length 03 and a fresh reader sees `FE 02 03`. -/
theorem t12_unacknowledged_counterexample :
    readNdef t2Cfg cxM = .ok (some cxL) ∧ WF t2Cfg cxM cxL ∧
    (history t2Cfg cxL (fresh cxM) [([1, 2, 3], some ⟨2, true⟩)]).2
      = [([(16, [0, 0, 3, 0]), (20, [1, 2, 3, 0xFE]), (16, [0, 0, 3, 3])], .error faultErr)] ∧
    attempt t2Cfg cxL (history t2Cfg cxL (fresh cxM) [([1, 2, 3], some ⟨2, true⟩)]).1 [] none
      = ⟨⟨(history t2Cfg cxL (fresh cxM) [([1, 2, 3], some ⟨2, true⟩)]).1.tag |>.set 20 0xFE,
          (history t2Cfg cxL (fresh cxM) [([1, 2, 3], some ⟨2, true⟩)]).1.belief |>.set 20 0xFE,
          (history t2Cfg cxL (fresh cxM) [([1, 2, 3], some ⟨2, true⟩)]).1.cache |>.set 19 0 |>.set 20 0xFE⟩,
         [(20, [0xFE, 2, 3, 0xFE])], .ok ()⟩ ∧
    readNdef t2Cfg (attempt t2Cfg cxL (history t2Cfg cxL (fresh cxM) [([1, 2, 3], some ⟨2, true⟩)]).1 [] none).st.tag
      = .ok (some { cxL with ndef := [0xFE, 2, 3] }) := by
  refine ⟨?_, ?_, ?_, ?_, ?_⟩ <;> decide +kernel


/-! ### the repaired memory reader (`syncUnitsR`: the unit of a write command that did not return is sent again at
the next `synchronize()`); the check asks the tree under test which reader it has and compares with that model -/

/-- without a fault the repaired reader sends exactly what the reader as found sends -/
theorem t12_repaired_attempt_clean (c : Cfg) (L : Layout) (m data : Bytes) :
    (attemptR c L (freshR m) data none).cmds = (attempt c L (fresh m) data none).cmds ∧
    (attemptR c L (freshR m) data none).res = (attempt c L (fresh m) data none).res :=
  attemptR_clean c L m data

/-- **With the repair the round trip holds after EVERY history**: faults of both kinds - also commands the tag
executed without the reader learning it -, any number of failed attempts, any messages: the final assignment of
any message up to the capacity succeeds and a fresh reader sees exactly it. -/
theorem t12_history_roundtrip_repaired (c : Cfg) (m : Bytes) (L : Layout) (hread : readNdef c m = .ok (some L))
    (hwf : WF c m L) (hw : L.writeable = true) (hs : List (Bytes × Option Fault)) (data : Bytes)
    (hcap : (data.length : Int) ≤ L.cap) :
    (attemptR c L (historyR c L (freshR m) hs).1 data none).res = .ok () ∧
    readNdef c (attemptR c L (historyR c L (freshR m) hs).1 data none).st.tag = .ok (some { L with ndef := data }) ∧
    readBack c (attemptR c L (historyR c L (freshR m) hs).1 data none).st.tag = .ok (some { L with ndef := data }) := by
  obtain ⟨h1, h2, h3⟩ := historyR_roundtrip c m L ((readNdef_some c m L).1 hread) hwf hw hs data hcap
  exact ⟨h1, (readNdef_some c _ _).2 h2, h3⟩

/-- the history of the counter-example on the repaired reader: page 4 (still unconfirmed) is sent again with length
00, then the terminator; a fresh reader sees the empty message -/
example : (attemptR t2Cfg cxL (historyR t2Cfg cxL (freshR cxM) [([1, 2, 3], some ⟨2, true⟩)]).1 [] none).cmds
      = [(16, [0, 0, 3, 0]), (20, [0xFE, 2, 3, 0xFE])] ∧
    readNdef t2Cfg (attemptR t2Cfg cxL (historyR t2Cfg cxL (freshR cxM) [([1, 2, 3], some ⟨2, true⟩)]).1 [] none).st.tag
      = .ok (some { cxL with ndef := [] }) := by
  constructor <;> decide +kernel

/-! ## Type 3 -/

/-- without a fault the Type 3 attempt is `T3.writeNdef` (commands, memory, outcome) -/
theorem t3_attempt_clean (m data : Bytes) :
    (t3Write m data none).sent = (T3.writeNdef m data).sent ∧ (t3Write m data none).mem = (T3.writeNdef m data).mem ∧
    (t3Write m data none).res = (T3.writeNdef m data).res :=
  t3Write_none m data

/-- **Type 3 round trip after any history**: every well-formed layout, any number of earlier attempts with any
messages, each completed or failed at any write command - executed by the tag or not -, every final message up to
the capacity: the final assignment succeeds and a fresh reader sees exactly it (`WriteF = 0`, `Ln = |data|`). -/
theorem t3_history_roundtrip (m : Bytes) (a : T3.Attr) (wf : T3.WF m a) (seen : Seen)
    (hseen : T3.see m = .ok (some seen)) (hs : List (Bytes × Option Fault)) (data : Bytes)
    (hlen : data.length ≤ 16 * a.nmaxb) :
    (t3Attempt seen (t3History seen m hs).1 data none).res = .ok () ∧
    T3.see (t3Attempt seen (t3History seen m hs).1 data none).mem
      = .ok (some ⟨(a.nmaxb * 16 : Nat), true, true, data⟩) :=
  Hist.t3_history_roundtrip m a wf seen hseen hs data hlen

/-! ## Type 4 -/

/-- without a fault the Type 4 attempt sends the UPDATE BINARY sequence of `T4.writeNdef` -/
theorem t4_attempt_clean (c : T4.Card) (us : List T4.UCmd) (file : Bytes) : runUF c file us none = T4.runU c file us :=
  runUF_none c us file

/-- **Type 4 round trip after any history**: every well-formed layout (mapping versions 1-3, NLEN of 2 or 4
octets), any number of earlier attempts, each completed or failed at any UPDATE BINARY - executed or not -, every
final message up to the capacity (final NLEN update looped or `MLc ≥ NLEN size`): the final assignment succeeds
and a fresh reader sees exactly it. -/
theorem t4_history_roundtrip (v : T4.Variant) (c : T4.Card) (i : T4.Info) (wf : T4.WF v c i) (nd : T4.Ndef)
    (hnd : T4.readNdef v c = .ok (some nd)) (hs : List (Bytes × Option Fault)) (data : Bytes)
    (hlen : (data.length : Int) ≤ i.capacity) (hv : v.nlenLoop = true ∨ i.nlenSize ≤ i.maxLc) :
    (t4Attempt v c nd (t4History v c nd c.file hs).1 data none).res = .ok () ∧
    T4.see v { c with file := (t4Attempt v c nd (t4History v c nd c.file hs).1 data none).file }
      = .ok (some ⟨i.capacity, i.readable, true, data⟩) :=
  Hist.t4_history_roundtrip v c i wf nd hnd hs data hlen hv

/-! ## Non-vacuity -/

/-- the image of the counter-example satisfies the hypotheses of `t12_history_roundtrip`; with the same fault NOT
executed by the tag the empty message is read back -/
example : (attempt t2Cfg cxL (history t2Cfg cxL (fresh cxM) [([1, 2, 3], some ⟨2, false⟩)]).1 [] none).res = .ok () ∧
    readNdef t2Cfg (attempt t2Cfg cxL (history t2Cfg cxL (fresh cxM) [([1, 2, 3], some ⟨2, false⟩)]).1 [] none).st.tag
      = .ok (some { cxL with ndef := [] }) ∧
    readBack t2Cfg (attempt t2Cfg cxL (history t2Cfg cxL (fresh cxM) [([1, 2, 3], some ⟨2, false⟩)]).1 [] none).st.tag
      = .ok (some { cxL with ndef := [] }) :=
  t12_history_roundtrip t2Cfg cxM cxL (by decide +kernel) (by decide +kernel) rfl _
    (by intro a ha f hf; simp only [List.mem_singleton] at ha; subst ha; cases hf; rfl) [] (by decide)

/-- three failed attempts (first, middle and last command), then a message: the commands of the last attempt -
its first `synchronize()` also flushes what the failed third attempt left in the cache (page 5 = `09 FE 06 07`) -/
example : (attempt t2Cfg cxL (history t2Cfg cxL (fresh cxM)
      [([1, 2, 3], some ⟨0, false⟩), ([4, 5, 6, 7, 8], some ⟨1, false⟩), ([9], some ⟨2, false⟩)]).1 [7, 7] none).cmds
    = [(20, [9, 0xFE, 6, 7]), (20, [7, 7, 0xFE, 7]), (16, [0, 0, 3, 2])] := by decide +kernel

def exM3 : Bytes := T3.encodeAttr ⟨0x10, 4, 3, 2, 0, 1, 5⟩ ++ [1, 2, 3, 4, 5] ++ List.replicate 27 7
/-- Type 3: the second of the four commands is executed but unacknowledged, then the same message is assigned -/
example : (t3History ⟨32, true, true, [1, 2, 3, 4, 5]⟩ exM3 [(List.replicate 20 9, some ⟨1, true⟩)]).2.map
      (fun a => (a.1.map fun c => (c.blk, c.n), a.2)) = [([(0, 1), (1, 2)], .error faultErr)] := by decide +kernel

end NfcVerif.C01Hist
