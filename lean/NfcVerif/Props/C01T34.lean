import NfcVerif.Lemmas.T3Write
import NfcVerif.Lemmas.T4Ndef
import NfcVerif.Lemmas.T3EmuRound
/-!
# C01, part t34 - NDEF write then read round-trips on Type 3 and Type 4 tags

Statements only; proofs are in `Lemmas/T3*.lean`, `Lemmas/T4*.lean`.
Models: `Model/T3.lean` (transcription of `Type3Tag.NDEF` of `nfc/tag/tt3.py` and of the generic
`octets` setter), `Model/T4.lean` (`Type4Tag.NDEF` of `nfc/tag/tt4.py`).  The tag is plain memory.

`T3.WF m a`: block 0 of memory `m` decodes (valid checksum) to attributes `a` with mapping version 1.x,
`1 ≤ Nbr ≤ 80`, `1 ≤ Nbw`, `WriteFits Nbw Nmaxb` (a write command of `Nbw` blocks fits the 255 octet
frame: excluded are exactly the layouts of finding F37, `Nbw = 13` with `Nmaxb > 255`), `RWFlag ≠ 0`,
`16·(Nmaxb+1) ≤ |m|`, `Ln ≤ 16·Nmaxb`.

`T4.WF v c i`: the capability container of card `c` is understood as `i` (`discover`), the NDEF file exists,
`NLEN size ≤ i.maxLe ≤ 256`, `i.maxLe ≤` what the card accepts as Le, `1 ≤ i.maxLc ≤ 255`, `i.maxLc ≤` what the
card accepts as Lc, capacity = min(file size, 65536) - NLEN size (offsets must fit P1-P2: the repair of finding
`t4-offset-over-65535-struct-error`; the file itself may be larger), old NLEN inside that part of the file.  `t4_wf_cc4` / `t4_wf_cc6` derive it for the repaired
code from the capability container octets with the hypotheses `MLe ≥ 15`, `MLc ≥ 1`.
-/
namespace NfcVerif.C01T34
open NfcVerif NfcVerif.T34

/-! ## Type 3 -/

/-- the attribute block codec round-trips (checksum included) for all field values in range -/
theorem t3_attr_roundtrip (a : T3.Attr) (h : T3.AttrRange a) : T3.decodeAttr (T3.encodeAttr a) = .ok (some a) :=
  T3.decode_encode a h

/-- For every well-formed layout and every message up to the capacity: the assignment succeeds with exactly
the planned command sequence, the memory keeps its size, and a fresh reader of the resulting memory sees
exactly `data`, readable and writeable (`Ln = |data|`, `WriteF = 0`). -/
theorem t3_roundtrip (m data : Bytes) (a : T3.Attr) (wf : T3.WF m a) (hlen : data.length ≤ 16 * a.nmaxb) :
    ∃ t, T3.setOctets m data = .ok (some t) ∧ t.res = .ok () ∧ t.sent = T3.planWrite a data ∧
      t.mem.length = m.length ∧
      T3.see t.mem = .ok (some ⟨(a.nmaxb * 16 : Nat), true, true, data⟩) :=
  ⟨_, T3.setOctets_spec m data a wf hlen, rfl, rfl, T3.finalMem_length m data a wf.mem hlen,
   T3.see_final m data a wf hlen⟩

/-- the reported capacity is `16·Nmaxb` and that many octets really exist behind the attribute block -/
theorem t3_capacity (m : Bytes) (a : T3.Attr) (wf : T3.WF m a) :
    (∃ s, T3.see m = .ok (some s) ∧ s.capacity = (a.nmaxb * 16 : Nat)) ∧ 16 + a.nmaxb * 16 ≤ m.length := by
  constructor
  · unfold T3.see; rw [T3.readNdef_old m a wf]
    exact ⟨_, rfl, rfl⟩
  · have := wf.mem; omega

/-- no write command carries more than Nbw blocks -/
theorem t3_batches_within_limits (a : T3.Attr) (data : Bytes) (hnbw : 1 ≤ a.nbw) :
    ∀ c ∈ T3.planWrite a data, c.n ≤ a.nbw :=
  T3.batches_within_nbw a data hnbw

/-- data longer than the capacity: `ValueError`, no command, memory untouched -/
theorem t3_oversize_no_command (m data : Bytes) (a : T3.Attr) (wf : T3.WF m a) (hlen : data.length > 16 * a.nmaxb) :
    T3.setOctets m data = .ok (some ⟨[], m, .error .value⟩) :=
  T3.setOctets_oversize m data a wf hlen

/-- F37 (open): `Nbw = 13` and block numbers above 255 - the frame of 13 blocks with 3-octet block list
elements has 261 octets, `ValueError` whatever the memory is; `WriteFits` excludes exactly this. -/
theorem t3_nbw13_counterexample :
    (∀ (m d : Bytes), d.length = 16 * 13 → T3.sendW m ⟨256, 13, d⟩ = .error .value) ∧ ¬ T3.WriteFits 13 300 := by
  constructor
  · intro m d hd
    have h : T3.cmdCheck 256 13 208 = .error .value := by decide
    unfold T3.sendW
    simp only [hd, h, Py.bind_error]
  · unfold T3.WriteFits; decide

/-! ## Type 4 -/

/-- For every well-formed layout (mapping versions 1-3, NLEN of 2 or 4 octets), every message up to the
capacity, with the final NLEN update looped or `MLc ≥ NLEN size`: the assignment succeeds, the file keeps its
size, holds `NLEN = |data|` followed by `data`, and a fresh reader sees exactly `data`. -/
theorem t4_roundtrip (v : T4.Variant) (c : T4.Card) (i : T4.Info) (data : Bytes) (wf : T4.WF v c i)
    (hlen : (data.length : Int) ≤ i.capacity) (hv : v.nlenLoop = true ∨ i.nlenSize ≤ i.maxLc) :
    ∃ t, T4.setOctets v c data = .ok (some t) ∧ t.res = .ok () ∧ t.sent = T4.planWrite v i data ∧
      t.file.length = c.file.length ∧
      t.file.take i.nlenSize = toBE i.nlenSize data.length ∧
      sliceN t.file i.nlenSize (i.nlenSize + data.length) = data ∧
      T4.see v { c with file := t.file } = .ok (some ⟨i.capacity, i.readable, true, data⟩) := by
  have hcap := wf.cap; have hsz := wf.lim.size
  have hl : i.nlenSize + data.length ≤ c.file.length := by omega
  exact ⟨_, T4.setOctets_spec v c i data wf hlen hv, rfl, rfl, T4.finalFile_length _ _ _ hl,
    T4.finalFile_nlen _ _ _ hl, T4.finalFile_data _ _ _ hl, T4.see_final v c i data wf hlen⟩

/-- the reported capacity plus the NLEN field fits the file and the 16 bit offset range -/
theorem t4_capacity (v : T4.Variant) (c : T4.Card) (i : T4.Info) (wf : T4.WF v c i) :
    (∃ s, T4.see v c = .ok (some s) ∧ s.capacity = i.capacity) ∧
    (i.nlenSize : Int) + i.capacity ≤ c.file.length ∧ (i.nlenSize : Int) + i.capacity ≤ 65536 := by
  refine ⟨⟨_, T4.see_old v c i wf, rfl⟩, ?_⟩
  have := wf.cap; omega

/-- every UPDATE BINARY carries 1..MLc octets (and at most 255, see `T4.Lim`) and stays inside
NLEN field + message -/
theorem t4_commands_within_limits (v : T4.Variant) (c : T4.Card) (i : T4.Info) (data : Bytes) (wf : T4.WF v c i)
    (hlen : (data.length : Int) ≤ i.capacity) :
    ∀ u ∈ T4.planWrite v i data, 1 ≤ u.data.length ∧ u.data.length ≤ i.maxLc ∧ u.data.length ≤ c.mlc ∧
      u.data.length ≤ 255 ∧ u.off + u.data.length ≤ i.nlenSize + data.length := by
  have hcap := wf.cap; have hsz := wf.lim.size; have hlc := wf.lim.lc; have hnl := wf.lim.nl
  intro u hu
  have := (T4.write_confined v i data c.file hlc.1 (by omega) (by omega)).1 u hu
  omega

theorem t4_oversize_no_command (v : T4.Variant) (c : T4.Card) (i : T4.Info) (data : Bytes) (wf : T4.WF v c i)
    (hlen : (data.length : Int) > i.capacity) :
    T4.setOctets v c data = .ok (some ⟨[], c.file, .error .value⟩) :=
  T4.setOctets_oversize v c i data wf hlen

/-- the layouts of the theorem, from the capability container octets (repaired code): CC of 15 octets,
control TLV T=4 L=6, any mapping version 1.x-3.x, `MLe ≥ 15`, `MLc ≥ 1`, writeable, file of the declared size -/
theorem t4_wf_cc4 (c : T4.Card) (ver e1 e0 c1 c0 f1 f0 s1 s0 rf : Nat)
    (hcc : c.cc = T4.cc4 ver e1 e0 c1 c0 f1 f0 s1 s0 rf 0) (hfid : c.fid = [f1, f0])
    (hver : ver / 16 = 1 ∨ ver / 16 = 2 ∨ ver / 16 = 3)
    (hmle : c.mle = e1 * 256 + e0) (h15 : 15 ≤ c.mle) (hmlc : c.mlc = c1 * 256 + c0) (h1 : 1 ≤ c.mlc)
    (hmfs : c.file.length = s1 * 256 + s0) (hs : s1 < 256 ∧ s0 < 256) (h2 : 2 ≤ c.file.length)
    (hold : 2 + beNat (c.file.take 2) ≤ min c.file.length 65536) :
    T4.WF .repaired c { maxLe := min (e1 * 256 + e0) 256, maxLc := min (c1 * 256 + c0) 255,
                        capacity := ((min (s1 * 256 + s0) 65536 : Nat) : Int) - 2, readable := decide (rf = 0),
                        writeable := true, nlenSize := 2, fid := [f1, f0] } := by
  have hd := T4.discover_cc4 .repaired c ver e1 e0 c1 c0 f1 f0 s1 s0 rf 0 hcc h15 hver
  simp only [T4.limitLe, T4.limitLc, T4.limitSize, T4.Variant.repaired, if_true, decide_true] at hd
  refine ⟨hd, hfid.symm, ⟨Or.inl rfl, ?_, ?_, ?_⟩, ?_, rfl, hold⟩
  · simp only []; omega
  · simp only []; omega
  · simp only []; omega
  · simp only []; omega

/-- same for the extended control TLV (T=6 L=8, NLEN of 4 octets) and a file of ANY declared size: beyond
65536 octets the repaired code reports only the part a 16 bit offset addresses -/
theorem t4_wf_cc6 (c : T4.Card) (ver e1 e0 c1 c0 f1 f0 s3 s2 s1 s0 rf : Nat)
    (hcc : c.cc = T4.cc6 ver e1 e0 c1 c0 f1 f0 s3 s2 s1 s0 rf 0) (hfid : c.fid = [f1, f0])
    (hver : ver / 16 = 1 ∨ ver / 16 = 2 ∨ ver / 16 = 3)
    (hmle : c.mle = e1 * 256 + e0) (h15 : 15 ≤ c.mle) (hmlc : c.mlc = c1 * 256 + c0) (h1 : 1 ≤ c.mlc)
    (hmfs : c.file.length = ((s3 * 256 + s2) * 256 + s1) * 256 + s0) (h4 : 4 ≤ c.file.length)
    (hold : 4 + beNat (c.file.take 4) ≤ min c.file.length 65536) :
    T4.WF .repaired c { maxLe := min (e1 * 256 + e0) 256, maxLc := min (c1 * 256 + c0) 255,
                        capacity := ((min (((s3 * 256 + s2) * 256 + s1) * 256 + s0) 65536 : Nat) : Int) - 4,
                        readable := decide (rf = 0), writeable := true, nlenSize := 4, fid := [f1, f0] } := by
  have hd := T4.discover_cc6 .repaired c ver e1 e0 c1 c0 f1 f0 s3 s2 s1 s0 rf 0 hcc h15 hver
  simp only [T4.limitLe, T4.limitLc, T4.limitSize, T4.Variant.repaired, if_true, decide_true] at hd
  refine ⟨hd, hfid.symm, ⟨Or.inr rfl, ?_, ?_, ?_⟩, ?_, rfl, hold⟩
  · simp only []; omega
  · simp only []; omega
  · simp only []; omega
  · simp only []; omega

/-- F35 on the unchanged code: `MLc = 1` below the 2-octet NLEN field - the write "succeeds" but only the
first NLEN octet is updated, the file reads `NLEN = 0` and the message is lost. -/
theorem t4_asFound_nlen_counterexample :
    (T4.setOctets .asFound ⟨T4.cc4 0x20 0 59 0 1 0xE1 4 0 20 0 0, List.replicate 20 0, [0xE1, 4], 59, 1⟩ [1, 2, 3]).map
        (fun o => o.map (fun t => (t.res, t.file.take 5)))
      = .ok (some (.ok (), [0, 0, 1, 2, 3])) ∧
    T4.see .asFound ⟨T4.cc4 0x20 0 59 0 1 0xE1 4 0 20 0 0, [0, 0, 1, 2, 3] ++ List.replicate 15 0, [0xE1, 4], 59, 1⟩
      = .ok (some ⟨18, true, true, []⟩) := by
  constructor <;> decide

/-! ## Emulated Type 3 Tag (`Type3TagEmulation.process_command` with the block store of `examples/tagtool.py`) -/

/-- The frame `Type3Tag.write_without_encryption` builds for service 0009h and any list of distinct existing
blocks (2-octet block list elements below block 256, 3-octet elements from there on, any mix) with `16·n`
data octets, provided it fits the 255 octet frame, is answered by the emulation with status 0000h and stores
the data; the frame `read_without_encryption` builds for service 000Bh and the same list then returns
exactly the written octets.  The store keeps its size. -/
theorem t3emu_roundtrip (e : T3Emu.Emu) (bl : List Nat) (d : Bytes) (hidm : e.idm.length = 8)
    (hnd : bl.Nodup) (hb : ∀ b ∈ bl, b * 16 + 16 ≤ e.store.length) (h65 : ∀ b ∈ bl, b < 65536)
    (hd : d.length = 16 * bl.length) (hfit : 14 + (bl.flatMap T3Emu.codeOf).length + d.length ≤ 255) :
    ∃ w r logw logr,
      T3Emu.encWrite e.idm 9 bl d = .ok w ∧
      T3Emu.processCommand e w = .ok (some ([12, 9] ++ e.idm ++ [0, 0]), T3Emu.writeAll d bl 0 e.store, logw) ∧
      T3Emu.encRead e.idm 11 bl = .ok r ∧
      T3Emu.processCommand { e with store := T3Emu.writeAll d bl 0 e.store } r
        = .ok (some ([13 + d.length, 7] ++ e.idm ++ [0, 0, bl.length] ++ d), T3Emu.writeAll d bl 0 e.store, logr) ∧
      (T3Emu.writeAll d bl 0 e.store).length = e.store.length :=
  T3Emu.emu_roundtrip e bl d hidm hnd hb h65 hd hfit

/-- `process_command` is total on every frame the reader can build with `write_without_encryption` (any
service code except the read-only 000Bh, whose tagtool write callback cannot be called) and
`read_without_encryption` (any service code): any block list, any data - unknown service, missing block,
more than 15 blocks and ragged data all end in a status response, never in an exception. -/
theorem t3emu_process_command_total (e : T3Emu.Emu) (hidm : e.idm.length = 8) (sc : Nat) (bl : List Nat) (d : Bytes) :
    (∀ w, T3Emu.encWrite e.idm sc bl d = .ok w → sc / 256 % 256 * 256 + sc % 256 ≠ 11 →
        ∃ r, T3Emu.processCommand e w = .ok r) ∧
    (∀ r, T3Emu.encRead e.idm sc bl = .ok r → ∃ x, T3Emu.processCommand e r = .ok x) :=
  T3Emu.processCommand_total e hidm sc bl d

/-! ## Non-vacuity -/
def exEmu : T3Emu.Emu := ⟨[1, 2, 3, 4, 5, 6, 7, 8], [0, 0xF0, 255, 255, 255, 255, 255, 255], [0x12, 0xFC], List.replicate 4864 7⟩
example : (T3Emu.encWrite exEmu.idm 9 [2, 300] (List.replicate 32 5)).map List.length = .ok 51 := by decide
example : 14 + ([2, 300].flatMap T3Emu.codeOf).length + (List.replicate 32 5).length ≤ 255 := by decide

def exM : Bytes := T3.encodeAttr ⟨0x10, 4, 3, 2, 0, 1, 5⟩ ++ [1, 2, 3, 4, 5] ++ List.replicate 27 7
def exA : T3.Attr := ⟨0x10, 4, 3, 2, 0, 1, 5⟩
theorem exWF3 : T3.WF exM exA :=
  ⟨by decide, ⟨by decide, by decide, by decide, by decide, by decide, by decide, by decide⟩, by decide, by decide, by decide,
   by simp [T3.WriteFits, exA], by decide, by decide, by decide⟩
example : T3.see exM = .ok (some ⟨32, true, true, [1, 2, 3, 4, 5]⟩) := by decide
example : (T3.setOctets exM (List.replicate 20 9)).map (fun o => o.map (fun t => t.sent.map (fun c => (c.blk, c.n))))
    = .ok (some [(0, 1), (1, 2), (0, 1)]) := by decide

def exCard : T4.Card := ⟨T4.cc4 0x20 0 59 0 52 0xE1 4 0 20 0 0, [0, 2, 7, 8] ++ List.replicate 16 9, [0xE1, 4], 59, 52⟩
theorem exWF4 : T4.WF .repaired exCard ⟨59, 52, 18, true, true, 2, [0xE1, 4]⟩ :=
  t4_wf_cc4 exCard 0x20 0 59 0 52 0xE1 4 0 20 0 rfl rfl (by decide) (by decide) (by decide) (by decide) (by decide)
    (by decide) (by decide) (by decide) (by decide)
example : T4.see .repaired exCard = .ok (some ⟨18, true, true, [7, 8]⟩) := by decide

def bigCard : T4.Card := ⟨T4.cc6 0x30 0 255 0 255 0xE1 4 0 1 17 112 0 0, List.replicate 70000 0, [0xE1, 4], 255, 255⟩
/-- a 70000 octet ENDEF file: the repaired code reports 65532 octets and the round trip theorem applies -/
theorem exWF6 : T4.WF .repaired bigCard ⟨255, 255, 65532, true, true, 4, [0xE1, 4]⟩ := by
  have h := t4_wf_cc6 bigCard 0x30 0 255 0 255 0xE1 4 0 1 17 112 0 rfl rfl (by decide) (by decide) (by decide) (by decide)
    (by decide)
    (by show (List.replicate 70000 0).length = _; rw [List.length_replicate])
    (by show 4 ≤ (List.replicate 70000 0).length; rw [List.length_replicate]; omega)
    (by show 4 + beNat ((List.replicate 70000 0).take 4) ≤ min (List.replicate 70000 0).length 65536
        rw [List.take_replicate, List.length_replicate]; decide)
  simpa using h

end NfcVerif.C01T34
