import NfcVerif.Lemmas.FnBridgeDepSm
import NfcVerif.Props.C04
/-!
# Bridge theorems, group DepSm (`nfc/dep.py`: the decisions of the NFC-DEP state machines -> `Gen/FnDepSm.lean` ->
`Model/NfcDep.lean`, `Model/PeerDep.lean`, `Model/Activate.lean`, `Model/FnDepSmRef.lean`)

Properties C04 (each payload is delivered exactly once, intact, or a failure is reported) and C07 (octets of the peer
raise nothing but what the code handles).  The cuts are listed in `harness/fnspecs/depsm.py` and in the doc comments of
`Gen/FnDepSm.lean`; the byte level and the single checks are the groups Dep and DepPdu, whose regenerated definitions and
bridge theorems are used here.

* `inf_bridge` .. `tgt_deact_builders_bridge`: the local PDU builders (whole functions) build the PDUs the models put on the
  air; `gen_builders_wire`: encoded with the regenerated `DEP_REQ.encode` they are the model's wire octets;
* `timeout_bridge`, `timeout_ref`, `deadline_bridge`: the deadline arithmetic against the model's `expired` flag (`Clock.Ok`)
  and against the reference `DepSmRef.attemptTimeout`;
* `req_attention_bridge`, `req_retrans_bridge`, `nak_check_bridge`, `send_dep_loop_bridge`, `send_dep_bridge`, `rtox_loop_bridge`,
  `transact_bridge`, `send_loop_bridge`, `recv_loop_bridge`, `exchange_bridge`, `deactivate_bridge`: the transition functions of
  the Initiator of `Model/NfcDep.lean` equal the `..Gen` functions of `Lemmas/FnBridgeDepSm.lean`, in which every
  condition, PDU, loop range and retry count is a regenerated piece (the hand-written control skeleton is listed in the
  header of that file).  Hypotheses: the repaired variant (`f26`, `f27`: the source HAS these repairs) and a clock that
  agrees with the model's `expired` flag;
* `tgt_send_chunk_bridge`, `tgt_recv_bridge`, `tgt_accept_bridge`, `tgt_rx_active_bridge`, `tgt_rx_bridge`: the same for the
  Target state machine `tRx` (`f40`, `f41` repaired), the duplicate detection through the regenerated dispatch chain of
  group DepPdu on tokens (`dispatch_table`);
* the remaining pieces against `Model/Activate.lean` and the reference definitions `Model/FnDepSmRef.lean`;
* `gen_*`: statements of C04 / C07 restated for the regenerated functions.
-/
namespace NfcVerif.FnBridge.DepSm
open NfcVerif NfcVerif.PyFn NfcVerif.NfcDep NfcVerif.FnBridge.DepPdu NfcVerif.DepPduRef NfcVerif.DepSmRef

/-! ## the PDU builders of the Initiator -/

theorem ack_bridge (pni : Nat) (did nad : Option Nat) :
    recPdu (Gen.Fn.smi_ack (pni : Int) (oi did) (oi nad)) = .dep fACK pni did nad [] := by
  cases did <;> cases nad <;> simp [recPdu, Gen.Fn.smi_ack, oi, fACK]

theorem inf_bridge (pni : Nat) (did nad : Option Nat) (data : Bytes) (more : Bool) :
    recPdu (Gen.Fn.smi_inf (pni : Int) data more (oi did) (oi nad)) = .dep (if more then fMORE else fINF) pni did nad data := by
  cases did <;> cases nad <;> cases more <;> simp [recPdu, Gen.Fn.smi_inf, oi, fMORE, fINF]

theorem nak_bridge (p pni : Nat) (did nad : Option Nat) :
    recPdu (Gen.Fn.smi_nak (p : Int) (oi did) (oi nad) (pni : Int)) = .dep fNAK pni did nad [] := by
  cases did <;> cases nad <;> simp [recPdu, Gen.Fn.smi_nak, oi, fNAK]

theorem atn_bridge (did : Option Nat) :
    recPdu (Gen.Fn.smi_atn (oi did)) = .dep fATN 0 did none [] := by
  cases did <;> simp [recPdu, Gen.Fn.smi_atn, oi, fATN]

theorem timeout_bridge {σ} (k : Clock σ) (hk : k.Ok) (a : Air σ) :
    Gen.Fn.smi_timeout k.rwt k.deadline (k.now a)
      = if a.expired = true then .error .timeout else .ok (imin k.rwt (k.deadline - k.now a)) := by
  unfold Gen.Fn.smi_timeout
  have h := hk.2 a
  have h0 := hk.1
  by_cases he : a.expired = true
  · have : k.deadline ≤ k.now a := h.mpr he
    have : imin k.rwt (k.deadline - k.now a) ≤ 0 := by unfold imin; split <;> omega
    simp [he, this]
  · have : ¬ k.deadline ≤ k.now a := fun x => he (h.mp x)
    have : ¬ imin k.rwt (k.deadline - k.now a) ≤ 0 := by unfold imin; split <;> omega
    simp [he, this]

theorem range_len (n : Nat) : (PyFn.range 0 (n : Int)).length = n := by
  simp [PyFn.range]

variable {σ : Type} (P : Peer σ) (c : Cfg)

theorem req_attention_bridge (k : Clock σ) (hk : k.Ok) (hf : c.v.f26 = true) :
    ∀ (l : List Int) (a : Air σ), reqAttention P c l.length a = reqAttentionGen P c k l a := by
  intro l
  induction l with
  | nil => intro a; rfl
  | cons i is ih =>
    intro a
    have hat : atnPdu c = atnReq c := by
      unfold atnPdu atnReq; rw [atn_bridge]; simp [hf]
    have ht : Gen.Fn.smi_atn_timeout k.rwt k.deadline (k.now a)
        = if a.expired = true then .error .timeout else .ok (imin k.rwt (k.deadline - k.now a)) := timeout_bridge k hk a
    simp only [List.length_cons, reqAttention, reqAttentionGen, ht, hat]
    by_cases he : a.expired = true
    · simp [he]
    · simp only [he, Bool.false_eq_true, ↓reduceIte]
      rcases hx : xfer P a (atnReq c) with ⟨a', r⟩
      cases r with
      | error e => simp only [ih]
      | ok p =>
        cases p with
        | dep fmt rp did nad data =>
          simp only [(ini_atn_chk_bridge fmt)]
          split
          · rfl
          · split <;> rfl
        | _ => rfl

theorem nakReq_eq (pni : Nat) : nakReq c pni = .dep fNAK pni c.idid c.inad [] := by
  unfold nakReq Gen.Fn.dep_ini_nak_call
  exact nak_bridge pni pni c.idid c.inad

theorem req_retrans_bridge (k : Clock σ) (hk : k.Ok) (hf : c.v.f27 = true) (pni reqfmt : Nat) :
    ∀ (l : List Int) (a : Air σ),
      reqRetrans P c pni (decide (reqfmt = fMORE)) l.length a = reqRetransGen P c k pni reqfmt l a := by
  intro l
  induction l with
  | nil => intro a; rfl
  | cons i is ih =>
    intro a
    have ht : Gen.Fn.smi_nak_timeout k.rwt k.deadline (k.now a)
        = if a.expired = true then .error .timeout else .ok (imin k.rwt (k.deadline - k.now a)) := timeout_bridge k hk a
    simp only [List.length_cons, reqRetrans, reqRetransGen, ht, nakReq_eq]
    by_cases he : a.expired = true
    · simp [he]
    · simp only [he, Bool.false_eq_true, ↓reduceIte]
      rcases hx : xfer P a (.dep fNAK pni c.idid c.inad []) with ⟨a', r⟩
      cases r with
      | error e => simp only [ih]
      | ok p =>
        cases p with
        | dep fmt rp did nad data =>
          simp only [(ini_retrans_chk_bridge fmt reqfmt), hf, true_and, decide_eq_true_eq]
          split
          · rfl
          · split <;> rfl
        | _ => rfl

theorem nak_check_bridge (a : Air σ) (res : Pdu) : nakCheck a res = nakCheckGen a res := by
  cases res with
  | dep fmt rp did nad data =>
    simp only [nakCheck, nakCheckGen, ini_nak_chk_bridge]
    split <;> rfl
  | _ => rfl

theorem fmtOf_more (req : Pdu) : decide (fmtOf req = fMORE) = decide (req.fmt? = some fMORE) := by
  cases req with
  | dep f p d n x =>
    show decide (f = fMORE) = decide (some f = some fMORE)
    by_cases h : f = fMORE <;> simp [h]
  | _ => rfl

theorem send_dep_loop_bridge (k : Clock σ) (hk : k.Ok) (h26 : c.v.f26 = true) (h27 : c.v.f27 = true) (pni : Nat) (req : Pdu) :
    ∀ (fuel : Nat) (a : Air σ), sendDepLoop P c pni req fuel a = sendDepLoopGen P c k pni req fuel a := by
  intro fuel
  induction fuel with
  | zero => intro a; rfl
  | succ f ih =>
    intro a
    have hn2 : Gen.Fn.smi_atn_range Gen.Fn.smi_n_atn = [0, 1] := by decide
    have hm2 : Gen.Fn.smi_nak_range Gen.Fn.smi_n_nak = [0, 1] := by decide
    have e1 := req_attention_bridge P c k hk h26 [0, 1]
    have e2 := req_retrans_bridge P c k hk h27 pni (fmtOf req) [0, 1]
    simp only [List.length_cons, List.length_nil, Nat.zero_add, Nat.reduceAdd] at e1 e2
    simp only [sendDepLoop, sendDepLoopGen, timeout_bridge k hk a, hn2, hm2, ← e1, ← e2, fmtOf_more]
    by_cases he : a.expired = true
    · simp [he]
    · simp only [he, Bool.false_eq_true, ↓reduceIte]
      rcases hx : xfer P a req with ⟨a1, r⟩
      cases r with
      | ok res => exact nak_check_bridge a1 res
      | error e =>
        cases e <;> try rfl
        · -- timeout
          simp only
          rcases reqAttention P c 2 a1 with ⟨a2, r2⟩
          cases r2 with
          | ok u => simp only [ih]
          | error e => rfl
        · simp only
          rcases reqRetrans P c pni (decide (req.fmt? = some fMORE)) 2 a1 with ⟨a2, r2⟩
          cases r2 with
          | ok res => exact nak_check_bridge a2 res
          | error e => rfl


theorem send_dep_bridge (k : Clock σ) (hk : k.Ok) (h26 : c.v.f26 = true) (h27 : c.v.f27 = true) (fuel pni : Nat) (a : Air σ)
    (req : Pdu) : sendDep P c fuel pni a req = sendDepGen P c k fuel pni a req :=
  send_dep_loop_bridge P c k hk h26 h27 pni req fuel _

/-- what the pieces of one copy of the timeout extension loop compute -/
structure RtoxCut.Sound (q : RtoxCut) : Prop where
  test : ∀ f : Nat, q.test (f : Int) = decide (f = fTOX)
  range : q.range.length = 3
  call : ∀ data d n mk, q.call data d n mk = mk data d n
  wait : ∀ (v : Nat) (t : Bytes) (rwt : Int), q.wait (v :: t) rwt = .ok ((v : Int) * rwt)
  done : ∀ f : Nat, q.done (f : Int) = decide (f ≠ fTOX)
  fail : q.fail = .error .timeout

theorem cutS_sound : cutS.Sound where
  test f := (fmt_tests_bridge f).1
  range := by decide
  call _ _ _ _ := rfl
  wait v t rwt := by simp [cutS, Gen.Fn.smi_rtox_wait_s, getB_zero]
  done f := by
    show decide ((f : Int) ≠ 9) = decide (f ≠ fTOX)
    unfold fTOX
    by_cases h : f = 9
    · subst h; rfl
    · have : (f : Int) ≠ 9 := by omega
      simp [h, this]
  fail := rfl

theorem cutR_sound : cutR.Sound where
  test f := by
    show decide ((f : Int) = 9) = decide (f = fTOX)
    unfold fTOX
    by_cases h : f = 9
    · subst h; rfl
    · have : ¬ (f : Int) = 9 := by omega
      simp [h, this]
  range := by decide
  call _ _ _ _ := rfl
  wait v t rwt := by simp [cutR, Gen.Fn.smi_rtox_wait_r, getB_zero]
  done f := by
    show decide ((f : Int) ≠ 9) = decide (f ≠ fTOX)
    unfold fTOX
    by_cases h : f = 9
    · subst h; rfl
    · have : (f : Int) ≠ 9 := by omega
      simp [h, this]
  fail := rfl

theorem rtox_bridge (data : Bytes) (did nad : Option Nat) :
    Gen.Fn.smi_rtox data (oi did) (oi nad)
      = match data with
        | [] => .error .protocol
        | v :: _ => if 0 < v ∧ v < 60 then .ok (((9 : Int), nad.isSome, did.isSome, (0 : Int)), oi did, oi nad, [v])
                    else .error .protocol := by
  unfold Gen.Fn.smi_rtox
  cases data with
  | nil => simp [len_eq]
  | cons v t =>
    have h0 : ¬ (((t.length + 1 : Nat) : Int) = 0) := by omega
    simp only [len_eq, List.length_cons, h0, if_false, getB_zero, Py.bind_ok]
    by_cases h : 0 < v ∧ v < 60
    · have h' : (0 < (v : Int)) ∧ ((v : Int) < 60) := by omega
      have hb : mkBytes [(v : Int)] = .ok [v] := by
        have := mkBytes_ok [v] (by intro x hx; simp at hx; omega)
        simpa using this
      have hn : ¬ ¬ ((0 < (v : Int)) ∧ ((v : Int) < 60)) := fun x => x h'
      simp only [hn, decide_false, Bool.false_eq_true, if_false, hb, Py.bind_ok, h, and_self, if_true, oi_ne_none]
    · have h' : ¬ ((0 < (v : Int)) ∧ ((v : Int) < 60)) := by omega
      simp only [h', not_false_eq_true, decide_true, if_true, h, if_false]

theorem rtox_pdu (v : Nat) (did nad : Option Nat) :
    recPdu (((9 : Int), nad.isSome, did.isSome, (0 : Int)), oi did, oi nad, [v]) = .dep fTOX 0 did nad [v] := by
  cases did <;> cases nad <;> simp [recPdu, oi, fTOX]

theorem rtox_loop_bridge (q : RtoxCut) (hq : q.Sound) (k : Clock σ) (hk : k.Ok) (h26 : c.v.f26 = true) (h27 : c.v.f27 = true)
    (fuel pni : Nat) :
    ∀ (l : List Int) (a : Air σ) (res : Pdu),
      rtoxLoop P c fuel pni l.length a res = rtoxLoopGen P c q k fuel pni l a res := by
  intro l
  induction l with
  | nil => intro a res; simp [rtoxLoop, rtoxLoopGen, hq.fail]
  | cons i is ih =>
    intro a res
    cases res with
    | dep f rp d n data =>
      simp only [List.length_cons, rtoxLoop, rtoxLoopGen, hq.call, rtox_bridge]
      cases data with
      | nil => rfl
      | cons v t =>
        simp only [hq.wait]
        by_cases h : 0 < v ∧ v < 60
        · have hk' : ({ k with rwt := (v : Int) * k.rwt } : Clock σ).Ok := by
            refine ⟨?_, hk.2⟩
            show 0 < (v : Int) * k.rwt
            exact Int.mul_pos (by omega) hk.1
          simp only [h, not_true_eq_false, and_self, if_true, if_false, rtox_pdu,
            ← send_dep_bridge P c _ hk' h26 h27]
          rcases sendDep P c fuel pni a (.dep fTOX 0 c.idid c.inad [v]) with ⟨a', r⟩
          cases r with
          | error e => rfl
          | ok res' =>
            cases res' with
            | dep f' rp' d' n' x' =>
              simp only [Pdu.fmt?, hq.done, ih, ne_eq, Option.some.injEq, decide_eq_true_eq]
            | _ => rfl
        · simp [h]
    | _ => rfl


theorem transact_bridge (q : RtoxCut) (hq : q.Sound) (k : Clock σ) (hk : k.Ok) (h26 : c.v.f26 = true) (h27 : c.v.f27 = true)
    (fuel pni : Nat) (a : Air σ) (req : Pdu) :
    transact P c fuel pni a req = transactGen P c q k fuel pni a req := by
  unfold transact transactGen
  rw [← send_dep_bridge P c k hk h26 h27]
  rcases sendDep P c fuel pni a req with ⟨a', r⟩
  cases r with
  | error e => rfl
  | ok res =>
    have e3 := rtox_loop_bridge P c q hq k hk h26 h27 fuel pni q.range a' res
    rw [hq.range] at e3
    cases res with
    | dep f rp d n x =>
      simp only [Pdu.fmt?, hq.test, ← e3, Option.some.injEq, decide_eq_true_eq]
    | _ => rfl

theorem infReq_eq (pni : Nat) (data rest : Bytes) :
    infReq c pni data rest = .dep (if rest ≠ [] then fMORE else fINF) pni c.idid c.inad data := by
  unfold infReq Gen.Fn.dep_ini_inf_call
  simp only [inf_bridge]
  cases rest <;> simp

theorem ackReq_eq (pni : Nat) : ackReq c pni = .dep fACK pni c.idid c.inad [] := by
  unfold ackReq Gen.Fn.dep_ini_ack_call
  exact ack_bridge pni c.idid c.inad

theorem send_loop_bridge (k : Clock σ) (hk : k.Ok) (h26 : c.v.f26 = true) (h27 : c.v.f27 = true) (fuel : Nat) :
    ∀ (n : Nat) (a : Air σ) (pni : Nat) (sd : Bytes),
      sendLoop P c fuel n a pni sd = sendLoopGen P c k fuel n a pni sd := by
  intro n
  induction n with
  | zero => intro a pni sd; rfl
  | succ n ih =>
    intro a pni sd
    simp only [sendLoop, sendLoopGen, ini_chunk_bridge, infReq_eq, ← transact_bridge P c cutS cutS_sound k hk h26 h27]
    rcases transact P c fuel pni a (.dep (if sd.drop c.imiu ≠ [] then fMORE else fINF) pni c.idid c.inad (sd.take c.imiu))
      with ⟨a', r⟩
    cases r with
    | error e => rfl
    | ok res =>
      cases res with
      | dep f rp d nn x =>
        simp only [ini_send_step_bridge, Gen.Fn.smi_send_test]
        by_cases h1 : f = fACK ∧ sd.drop c.imiu = []
        · simp only [h1, and_self, if_true]
        · rw [if_neg h1, if_neg h1]
          by_cases h2 : rp ≠ pni
          · rw [if_pos h2, if_pos h2]
          · rw [if_neg h2, if_neg h2]
            simp only [Int.toNat_natCast, decide_eq_true_eq, ih]
      | _ => rfl


theorem recv_loop_bridge (k : Clock σ) (hk : k.Ok) (h26 : c.v.f26 = true) (h27 : c.v.f27 = true) (fuel : Nat) :
    ∀ (n : Nat) (a : Air σ) (pni : Nat) (acc : Bytes) (fmt : Nat),
      recvLoop P c fuel n a pni acc fmt = recvLoopGen P c k fuel n a pni acc fmt := by
  intro n
  induction n with
  | zero => intro a pni acc fmt; rfl
  | succ n ih =>
    intro a pni acc fmt
    simp only [recvLoop, recvLoopGen, (fmt_tests_bridge fmt).2.1, ackReq_eq, decide_eq_false_iff_not,
      ← transact_bridge P c cutR cutR_sound k hk h26 h27]
    by_cases hm : fmt = fMORE
    · rw [if_neg (by simp [hm]), if_neg (by simp [hm])]
      rcases transact P c fuel pni a (.dep fACK pni c.idid c.inad []) with ⟨a', r⟩
      cases r with
      | error e => rfl
      | ok res =>
        cases res with
        | dep f rp d nn x =>
          simp only [ini_recv_step_bridge]
          by_cases h1 : f ≠ fINF ∧ f ≠ fMORE
          · rw [if_pos h1, if_pos h1]
          · rw [if_neg h1, if_neg h1]
            by_cases h2 : rp ≠ pni
            · rw [if_pos h2, if_pos h2]
            · rw [if_neg h2, if_neg h2]
              simp only [Int.toNat_natCast, ih]
        | _ => rfl
    · rw [if_pos hm, if_pos hm]

theorem exchange_bridge (k : Clock σ) (hk : k.Ok) (h26 : c.v.f26 = true) (h27 : c.v.f27 = true) (fuel : Nat) (a : Air σ)
    (pni : Nat) (p : Bytes) : exchange P c fuel a pni p = exchangeGen P c k fuel a pni p := by
  unfold exchange exchangeGen Gen.Fn.smi_send_test Gen.Fn.smi_recv_init
  by_cases hp : p = []
  · simp [hp]
  · have : ¬ (decide (p ≠ []) = false) := by simp [hp]
    rw [if_neg hp, if_neg this, ← send_loop_bridge P c k hk h26 h27]
    rcases sendLoop P c fuel fuel a pni p with ⟨a1, pni1, r⟩
    cases r with
    | error e => rfl
    | ok res =>
      cases res with
      | dep f rp d nn x =>
        simp only [(ini_inf_chk_bridge f).1, ← recv_loop_bridge P c k hk h26 h27]
        split <;> rfl
      | _ => rfl

theorem deactReq_eq (release : Bool) : deactReq c release = if release then .rls c.idid else .dsl c.idid := by
  unfold deactReq Gen.Fn.smi_deact_req
  cases release <;> simp [oi_toNat]

theorem deactivate_bridge (release : Bool) (a : Air σ) : deactivate P c release a = deactivateGen P c release a := by
  unfold deactivate deactivateGen
  rw [deactReq_eq]
  rcases xfer P a (if release = true then Pdu.rls c.idid else Pdu.dsl c.idid) with ⟨a', r⟩
  cases r <;> rfl


/-! ## Target -/


theorem tgt_inf_bridge (pni : Nat) (did : Option Nat) (data : Bytes) (more : Bool) :
    recPdu (Gen.Fn.smt_inf (pni : Int) data more (oi did) none) = .dep (if more then fMORE else fINF) pni did none data := by
  cases did <;> cases more <;> simp [recPdu, Gen.Fn.smt_inf, oi, fMORE, fINF]

theorem tgt_ack_bridge (pni : Nat) (did : Option Nat) :
    recPdu (Gen.Fn.smt_ack (pni : Int) (oi did) none) = .dep fACK pni did none [] := by
  cases did <;> simp [recPdu, Gen.Fn.smt_ack, oi, fACK]

theorem tgt_atn_bridge (did : Option Nat) : recPdu (Gen.Fn.smt_atn (oi did) none) = .dep fATN 0 did none [] := by
  cases did <;> simp [recPdu, Gen.Fn.smt_atn, oi, fATN]

theorem infRes_eq (pni : Nat) (sd : Bytes) :
    infRes c pni sd = .dep (if sd.length > c.tmiu then fMORE else fINF) pni c.tdid none (sd.take c.tmiu) := by
  unfold infRes Gen.Fn.dep_tgt_inf_call
  simp only [tgt_chunk_bridge, tgt_inf_bridge, decide_eq_true_eq]

theorem ackRes_eq (pni : Nat) : ackRes c pni = .dep fACK pni c.tdid none [] := by
  unfold ackRes Gen.Fn.dep_tgt_ack_call
  exact tgt_ack_bridge pni c.tdid

theorem encode_frame_len (body : Bytes) (brty : String) :
    Gen.Fn.target_encode_frame body brty
      = if body.length + 1 > 255 then .error .struct
        else .ok ((if brty = "106A" then [0xF0] else []) ++ [body.length + 1] ++ body) := by
  unfold Gen.Fn.target_encode_frame
  have e : PyFn.len body + 1 = ((body.length + 1 : Nat) : Int) := by rw [len_eq]; omega
  rw [e, pack_B]
  by_cases h : body.length + 1 > 255
  · simp [h]
  · by_cases hb : brty = "106A" <;> simp [h, hb]

theorem encodePdu_len (p : Pdu) : (encodePdu false p).length = p.tlen := by
  cases p <;> simp [Pdu.tlen, encodePdu]

theorem tgt_send_chunk_bridge (t : TState) (pni : Nat) (data : Bytes) :
    tSendChunk c t pni data = tSendChunkGen c t pni data := by
  unfold tSendChunk tSendChunkGen
  simp only [infRes_eq, encode_frame_len, encodePdu_len]
  generalize (Pdu.dep (if data.length > c.tmiu then fMORE else fINF) pni c.tdid none (data.take c.tmiu)) = res
  by_cases h : res.tlen + 1 > 255
  · rw [if_pos h, if_pos h]
  · rw [if_neg h, if_neg h]

theorem tgt_recv_bridge (t : TState) (pni : Nat) (acc : Bytes) (fmt : Nat) (data : Bytes) :
    tRecv c t pni acc fmt data = tRecvGen c t pni acc fmt data := by
  unfold tRecv tRecvGen Gen.Fn.smt_recv_acc Gen.Fn.smt_recv_last Gen.Fn.smt_empty_chk
  simp only [(fmt_tests_bridge fmt).2.2, ackRes_eq, decide_eq_true_eq]
  by_cases hm : fmt = fMORE
  · rw [if_pos hm, if_pos hm]
  · rw [if_neg hm, if_neg hm]
    cases t.tosend with
    | nil => rfl
    | cons p ps =>
      simp only [tgt_send_chunk_bridge]
      cases p with
      | nil => simp [len_eq]
      | cons x xs =>
        have : ¬ ((xs.length : Int) + 1 = 0) := by omega
        simp [len_eq, this]


theorem tgt_accept_bridge (t : TState) (fmt rpni : Nat) (data : Bytes) :
    tAccept c t fmt rpni data = tAcceptGen c t fmt rpni data := by
  unfold tAccept tAcceptGen
  cases hl : t.loc with
  | listen => rfl
  | first => simp only [tgt_recv_bridge]; rfl
  | sending sd =>
    simp only [tgt_chunk_bridge, tgt_send_step_bridge, tgt_chunk_rest_bridge, Gen.Fn.smt_send_test, decide_eq_true_eq,
      tgt_send_chunk_bridge, tgt_recv_bridge]
    by_cases h1 : sd.length > c.tmiu ∧ fmt ≠ fACK
    · rw [if_pos h1, if_pos h1]
    · rw [if_neg h1, if_neg h1]
      by_cases h2 : rpni ≠ (t.pni.getD 0 + 1) % 4
      · rw [if_pos h2, if_pos h2]
      · rw [if_neg h2, if_neg h2]
        simp only [Int.toNat_natCast]
        rfl
  | receiving acc =>
    simp only [(tgt_pni_bridge _ _).2, tgt_recv_bridge]
    by_cases h2 : rpni ≠ (t.pni.getD 0 + 1) % 4
    · rw [if_pos h2, if_pos h2]
    · rw [if_neg h2, if_neg h2]
      simp only [Int.toNat_natCast]


set_option linter.unusedSimpArgs false in
/-- the regenerated dispatch chain of `send_dep_res_recv_dep_req` on tokens, as a decision table -/
theorem dispatch_table (dr : Option Int) (didMismatch isDsl isRls isDep : Bool) (fmt rpni : Nat) (pni drf : Int)
    (did : Option Int) :
    Gen.Fn.dep_tgt_dispatch none dr none 0 false didMismatch isDsl isRls isDep (fmt : Int) (rpni : Int) pni drf did none
        (fun _ _ => some 2)
      = if didMismatch = true then some (none, none)
        else if isDsl = true ∨ isRls = true then none
        else if isDep = false then some (none, none)
        else if fmt = fATN then some (some 2, none)
        else if fmt = fNAK then some (dr, none)
        else if fmt = fTOX then (if dr.isSome = true ∧ drf = 9 then some (none, some 0) else some (dr, none))
        else if (rpni : Int) = pni then some (dr, none)
        else some (none, some 0) := by
  unfold Gen.Fn.dep_tgt_dispatch fATN fNAK fTOX
  have e8 : ((fmt : Int) = 8) ↔ fmt = 8 := by omega
  have e5 : ((fmt : Int) = 5) ↔ fmt = 5 := by omega
  have e9 : ((fmt : Int) = 9) ↔ fmt = 9 := by omega
  simp only [e8, e5, e9]
  cases didMismatch <;> cases isDsl <;> cases isRls <;> cases isDep <;> try rfl
  simp only [Bool.false_eq_true, if_false, or_self, if_true]
  by_cases h1 : fmt = 8
  · simp [h1]
  · by_cases h2 : fmt = 5
    · simp [h1, h2]
    · by_cases h3 : fmt = 9
      · cases dr with
        | none => simp [h1, h2, h3]
        | some x => by_cases h4 : drf = 9 <;> simp [h1, h2, h3, h4]
      · by_cases h4 : (rpni : Int) = pni <;> simp [h1, h2, h3, h4]

theorem rtoxPending_eq (t : TState) :
    (t.rtoxPending = true) ↔ ((tokRes t).isSome = true
      ∧ (depResFmt t : Int) = 9) := by
  unfold TState.rtoxPending tokRes depResFmt
  cases t.depRes with
  | none => simp
  | some p =>
    cases p with
    | dep f rp d n x =>
      simp only [Option.map_some, fmtOf, Pdu.fmt?, Option.getD_some, fTOX, Option.isSome_some, true_and, beq_iff_eq]
      omega
    | _ => simp [fmtOf, Pdu.fmt?]

theorem tokRes_sel (t : TState) (x : TState × Option Pdu) :
    (match tokRes t with | none => (t, none) | some tok => if tok = 2 then x else (t, t.depRes)) = (t, t.depRes) := by
  unfold tokRes
  cases t.depRes <;> simp

theorem pniTok_eq (t : TState) (rpni : Nat) : ((rpni : Int) = pniTok t) ↔ t.pni = some rpni := by
  unfold pniTok
  cases t.pni with
  | none => simp
  | some p => simp; omega

theorem fmtOf_dep (f p : Nat) (d n : Option Nat) (x : Bytes) : fmtOf (.dep f p d n x) = f := rfl

theorem tgt_rx_active_bridge (h40 : c.v.f40 = true) (h41 : c.v.f41 = true) (t : TState) (req : Pdu) :
    tRx.tRxActive c t req = tRxActiveGen c t req := by
  unfold tRx.tRxActive tRxActiveGen
  cases req with
  | dsl d => rw [dispatch_table]; by_cases hd : (Pdu.dsl d).didAttr ≠ c.tdid <;> simp [hd, Pdu.kind, h40]
  | rls d => rw [dispatch_table]; by_cases hd : (Pdu.rls d).didAttr ≠ c.tdid <;> simp [hd, Pdu.kind, h40]
  | atr b => rw [dispatch_table]; by_cases hd : (Pdu.atr b).didAttr ≠ c.tdid <;> simp [hd, Pdu.kind]
  | psl b => rw [dispatch_table]; by_cases hd : (Pdu.psl b).didAttr ≠ c.tdid <;> simp [hd, Pdu.kind]
  | dep fmt pni d n data =>
    simp only [fmtOf_dep, pniOf]
    rw [dispatch_table]
    by_cases hd : (Pdu.dep fmt pni d n data).didAttr ≠ c.tdid
    · simp [hd]
    · simp only [hd, if_false, decide_false, Bool.false_eq_true, Pdu.kind, decide_true, reduceCtorEq,
        or_self, h41, true_and, ← tgt_accept_bridge, atnRes, tgt_atn_bridge]
      by_cases h1 : fmt = fATN
      · simp [h1]
      · simp only [h1, if_false]
        by_cases h2 : fmt = fNAK
        · simp only [h2, if_true]
          exact (tokRes_sel t _).symm
        · simp only [h2, if_false]
          by_cases h3 : fmt = fTOX
          · simp only [h3, if_true]
            by_cases hp : t.rtoxPending = true
            · have hp' := (rtoxPending_eq t).mp hp
              simp only [hp, Bool.true_eq_false, if_false]
              rw [if_pos hp']
            · have hp' : ¬ _ := fun x => hp ((rtoxPending_eq t).mpr x)
              have hp2 : t.rtoxPending = false := by simpa using hp
              simp only [hp2, if_true]
              rw [if_neg hp']
              exact (tokRes_sel t _).symm
          · simp only [h3, if_false]
            by_cases h4 : t.pni = some pni
            · rw [if_pos h4, if_pos ((pniTok_eq t pni).mpr h4)]
              exact (tokRes_sel t _).symm
            · rw [if_neg h4, if_neg (fun x => h4 ((pniTok_eq t pni).mp x))]


/-! ## the builders on the wire -/

/-- the PDU objects themselves (all stored attributes, also those `encode()` does not read): an attention request never
carries a NAD, PDUs without payload carry the empty string -/
theorem builders_record (pni spni : Int) (did nad : Option Int) (data : Bytes) (more : Bool) :
    Gen.Fn.smi_inf pni data more did nad = (((if more = true then 1 else 0), decide (nad ≠ none), decide (did ≠ none), pni), did, nad, data)
    ∧ Gen.Fn.smi_ack pni did nad = ((4, decide (nad ≠ none), decide (did ≠ none), pni), did, nad, [])
    ∧ Gen.Fn.smi_nak pni did nad spni = ((5, decide (nad ≠ none), decide (did ≠ none), spni), did, nad, [])
    ∧ Gen.Fn.smi_atn did = ((8, false, decide (did ≠ none), 0), did, none, [])
    ∧ Gen.Fn.smt_inf pni data more did nad = (((if more = true then 1 else 0), decide (nad ≠ none), decide (did ≠ none), pni), did, nad, data)
    ∧ Gen.Fn.smt_ack pni did nad = ((4, decide (nad ≠ none), decide (did ≠ none), pni), did, nad, [])
    ∧ Gen.Fn.smt_atn did nad = ((8, decide (nad ≠ none), decide (did ≠ none), 0), did, nad, [])
    ∧ Gen.Fn.smt_deact_inf pni data did nad = ((0, decide (nad ≠ none), decide (did ≠ none), pni), did, nad, data)
    ∧ Gen.Fn.smt_deact_atn did nad = ((8, decide (nad ≠ none), decide (did ≠ none), 0), did, nad, []) :=
  ⟨rfl, rfl, rfl, rfl, rfl, rfl, rfl, rfl, rfl⟩


/-- the PDU objects built by INF / ACK / NAK / ATN of the Initiator, encoded by the regenerated `DEP_REQ.encode`
(group DepPdu), are the wire octets of the model's PDUs -/
theorem gen_builders_wire (pni : Nat) (did nad : Option Nat) (data : Bytes) (more : Bool) (hp : pni < 4)
    (hd : ∀ v, did = some v → v < 256) (hn : ∀ v, nad = some v → v < 256) :
    (let r := Gen.Fn.smi_inf (pni : Int) data more (oi did) (oi nad)
     Gen.Fn.dep_dep_req_encode r.1 ((did.getD 0 : Nat) : Int) ((nad.getD 0 : Nat) : Int) r.2.2.2
       = .ok (encodePdu true (.dep (if more then fMORE else fINF) pni did nad data)))
    ∧ (let r := Gen.Fn.smi_ack (pni : Int) (oi did) (oi nad)
       Gen.Fn.dep_dep_req_encode r.1 ((did.getD 0 : Nat) : Int) ((nad.getD 0 : Nat) : Int) r.2.2.2
         = .ok (encodePdu true (.dep fACK pni did nad [])))
    ∧ (let r := Gen.Fn.smi_nak (pni : Int) (oi did) (oi nad) (pni : Int)
       Gen.Fn.dep_dep_req_encode r.1 ((did.getD 0 : Nat) : Int) ((nad.getD 0 : Nat) : Int) r.2.2.2
         = .ok (encodePdu true (.dep fNAK pni did nad [])))
    ∧ (let r := Gen.Fn.smi_atn (oi did)
       Gen.Fn.dep_dep_req_encode r.1 ((did.getD 0 : Nat) : Int) 0 r.2.2.2
         = .ok (encodePdu true (.dep fATN 0 did none []))) := by
  refine ⟨?_, ?_, ?_, ?_⟩
  · simp only [Gen.Fn.smi_inf, oi_ne_none]
    have := dep_req_encode_bridge (if more then fMORE else fINF) pni did nad data (by cases more <;> decide) hp hd hn
    cases more <;> exact this
  · simp only [Gen.Fn.smi_ack, oi_ne_none]
    exact dep_req_encode_bridge fACK pni did nad [] (by decide) hp hd hn
  · simp only [Gen.Fn.smi_nak, oi_ne_none]
    exact dep_req_encode_bridge fNAK pni did nad [] (by decide) hp hd hn
  · simp only [Gen.Fn.smi_atn, oi_ne_none]
    exact dep_req_encode_bridge fATN 0 did none [] (by decide) (by decide) hd (by intro v h; cases h)

/-! ## time -/

/-- the head of the three retry loops is the reference `attemptTimeout` -/
theorem timeout_ref (rwt deadline now : Int) :
    Gen.Fn.smi_timeout rwt deadline now
      = (match attemptTimeout rwt deadline now with | none => .error .timeout | some t => .ok t)
    ∧ Gen.Fn.smi_atn_timeout rwt deadline now = Gen.Fn.smi_timeout rwt deadline now
    ∧ Gen.Fn.smi_nak_timeout rwt deadline now = Gen.Fn.smi_timeout rwt deadline now := by
  refine ⟨?_, rfl, rfl⟩
  unfold Gen.Fn.smi_timeout attemptTimeout
  have e : imin rwt (deadline - now) = min rwt (deadline - now) := by
    unfold imin; split <;> omega
  simp only [e]
  split <;> rfl

theorem deadline_bridge (timeout now : Int) : Gen.Fn.smi_deadline timeout now = freshDeadline now timeout := rfl

/-- C04 (a fresh call of `send_dep_req_recv_dep_res` has not expired: the model resets `expired`) -/
theorem gen_deadline_fresh (timeout now : Int) (h : 0 < timeout) : now < Gen.Fn.smi_deadline timeout now :=
  freshDeadline_future now timeout h

/-- the retry counts of `send_dep_req_recv_dep_res` are the model's (`reqAttention P c 2`, `reqRetrans P c .. 2`) -/
theorem retry_counts :
    (Gen.Fn.smi_atn_range Gen.Fn.smi_n_atn).length = 2 ∧ (Gen.Fn.smi_nak_range Gen.Fn.smi_n_nak).length = 2
    ∧ ∀ n : Nat, (Gen.Fn.smi_atn_range (n : Int)).length = n ∧ (Gen.Fn.smi_nak_range (n : Int)).length = n :=
  ⟨by decide, by decide, fun n => ⟨range_len n, range_len n⟩⟩

/-- the waiting time after a timeout extension request is the reference `extendedWait` -/
theorem rtox_wait_bridge (v : Nat) (t : Bytes) (rwt : Int) :
    Gen.Fn.smi_rtox_wait_s (v :: t) rwt = .ok (extendedWait v rwt)
    ∧ Gen.Fn.smi_rtox_wait_r (v :: t) rwt = .ok (extendedWait v rwt) :=
  ⟨cutS_sound.wait v t rwt, cutR_sound.wait v t rwt⟩

/-- C07: once the local function RTOX has accepted the peer's timeout extension PDU, `res.data[0] * self.rwt` cannot
raise (no IndexError from an RTOX PDU without data octet), and the granted time is between RWT and 59 RWT -/
theorem gen_rtox_wait_total (data : Bytes) (did nad : Option Nat) (rwt : Int) (hr : 0 ≤ rwt) (r : Rec)
    (h : Gen.Fn.smi_rtox data (oi did) (oi nad) = .ok r) :
    ∃ w, Gen.Fn.smi_rtox_wait_s data rwt = .ok w ∧ Gen.Fn.smi_rtox_wait_r data rwt = .ok w ∧ rwt ≤ w ∧ w ≤ 59 * rwt := by
  rw [rtox_bridge] at h
  cases data with
  | nil => cases h
  | cons v t =>
    simp only at h
    split at h
    · rename_i hv
      exact ⟨_, (rtox_wait_bridge v t rwt).1, (rtox_wait_bridge v t rwt).2, extendedWait_bound v rwt hv hr⟩
    · cases h

/-- C07: whatever the peer puts into a timeout extension PDU, the local function RTOX raises nothing but ProtocolError -/
theorem gen_rtox_safe (data : Bytes) (did nad : Option Nat) :
    Safe (fun e => e = .protocol) (Gen.Fn.smi_rtox data (oi did) (oi nad)) := by
  rw [rtox_bridge]
  intro e he
  cases data with
  | nil => simp at he; exact he.symm
  | cons v t =>
    simp only at he
    split at he <;> simp at he
    exact he.symm

/-! ## `send_req_recv_res`, `activate` -/

/-- `xfer`: `if res.kind ≠ req.kind then .error .protocol` -/
theorem kind_chk_bridge (res req : Kind) (name : String) :
    Gen.Fn.smi_kind_chk (kindName res) (kindName req) name = if res ≠ req then .error .protocol else .ok () := by
  unfold Gen.Fn.smi_kind_chk
  simp only [ne_eq, kindName_inj]

/-- the two asserts of `Initiator.activate` are `Activate.didNadOk` -/
theorem act_asserts_bridge (d : Activate.DepOpts) :
    Gen.Fn.smi_act_asserts d.did d.nad = if Activate.didNadOk d = true then .ok () else .error .assertion := by
  unfold Gen.Fn.smi_act_asserts Activate.didNadOk
  cases d.did with
  | none =>
    cases d.nad with
    | none => rfl
    | some n => by_cases h : (0 ≤ n ∧ n ≤ 255) <;> simp [h]
  | some v =>
    by_cases hv : (0 ≤ v ∧ v ≤ 255)
    · cases d.nad with
      | none => simp [hv]
      | some n => by_cases h : (0 ≤ n ∧ n ≤ 255) <;> simp [hv, h]
    · simp [hv]

theorem act_sel_res_bridge (sel_res : Bytes) :
    Gen.Fn.smi_act_sel_res sel_res = match selResDep sel_res with | none => .error .index | some b => .ok b := by
  unfold Gen.Fn.smi_act_sel_res selResDep
  cases sel_res with
  | nil => simp [getB_nil]
  | cons a t =>
    simp only [getB_zero, Py.bind_ok, List.head?_cons, Option.map_some]
    have e : band (a : Int) 64 = ((a &&& 64 : Nat) : Int) := band_ofNat a 64
    rw [e]
    have h := and_bit a 6
    simp only [show (2 : Nat) ^ 6 = 64 from rfl] at h
    rw [h]
    congr 2
    apply propext
    constructor <;> intro h' <;> omega

theorem act_sensf_bridge (sensf_res : Bytes) : Gen.Fn.smi_act_sensf sensf_res = sensfDep sensf_res := by
  unfold Gen.Fn.smi_act_sensf sensfDep
  match sensf_res with
  | [] => rfl
  | [a] => simp [List.isPrefixOf]
  | [a, b] => simp [List.isPrefixOf]
  | a :: b :: c :: t =>
    by_cases ha : a = 1
    · by_cases hb : b = 1
      · by_cases hc : c = 254
        · subst ha hb hc; simp [List.isPrefixOf]
        · have hc' : ¬ (254 = c) := fun h => hc h.symm
          subst ha hb; simp [List.isPrefixOf, hc, hc']
      · have hb' : ¬ (1 = b) := fun h => hb h.symm
        subst ha; simp [List.isPrefixOf, hb, hb']
    · have ha' : ¬ (1 = a) := fun h => ha h.symm
      simp [List.isPrefixOf, ha, ha']

/-- the PSL decision (`Activate.handshake`: `psl := decide (brs > f.brty)`) and the condition of the 212F search
(`Activate.discover`: `brs > 0 && air.f212`) -/
theorem act_psl_bridge (brs brty : Nat) :
    Gen.Fn.smi_act_psl (brs : Int) (brty : Int) = pslNeeded brs brty
    ∧ Gen.Fn.smi_act_212 (brs : Int) = decide (brs > 0) := by
  unfold Gen.Fn.smi_act_psl Gen.Fn.smi_act_212 pslNeeded
  constructor <;> (rw [Bool.eq_iff_iff]; simp)

/-- both roles start a data exchange with packet number 0 (`NfcDep.run`: `iApp .. a0 0 []`, `tAccept`: `.first => tRecv c t 0 ..`) -/
theorem first_pni_bridge : Gen.Fn.smi_act_pni = 0 ∧ Gen.Fn.smt_first_pni = 0 := ⟨rfl, rfl⟩


/-! ## Target: remaining pieces -/

variable (c : Cfg)

/-- the whole Target machine of C04 (repaired variant) runs on the regenerated pieces -/
theorem tgt_rx_bridge (h40 : c.v.f40 = true) (h41 : c.v.f41 = true) (t : TState) (rx : Rx) :
    tRx c t rx = tRxGen c t rx := by
  cases rx with
  | corrupt => rfl
  | frame req =>
    simp only [tRx, tRxGen]
    by_cases hs : t.status ≠ .running
    · rw [if_pos hs, if_pos hs]
    · rw [if_neg hs, if_neg hs]
      cases hl : t.loc <;> cases req <;> simp only [tgt_rx_active_bridge c h40 h41]

/-- RTOX(rtox, self.did, self.nad) of `send_timeout_extension`: the model's timeout extension response; an extension
value that is no octet is a ValueError -/
theorem tgt_rtox_bridge (rtox : Nat) (did : Option Nat) :
    Gen.Fn.smt_rtox (rtox : Int) (oi did) none
      = if rtox < 256 then .ok (((9 : Int), false, did.isSome, (0 : Int)), oi did, none, [rtox]) else .error .value := by
  unfold Gen.Fn.smt_rtox
  have e := mkBytes_nat [rtox]
  simp only [List.map_cons, List.map_nil, List.all_cons, List.all_nil, Bool.and_true, decide_eq_true_eq] at e
  rw [e]
  by_cases h : rtox < 256
  · simp only [h, if_true, Py.bind_ok, oi_ne_none]
    rfl
  · simp [h]

theorem tgt_rtox_pdu (rtox : Nat) (did : Option Nat) :
    recPdu (((9 : Int), false, did.isSome, (0 : Int)), oi did, none, [rtox]) = .dep fTOX 0 did none [rtox] := by
  cases did <;> simp [recPdu, oi, fTOX]

/-- the call site of RTOX and the test that recognises the Initiator's answer (`DepSmRef.isRtoxResponse`) -/
theorem tgt_rtox_call_bridge (rtox : Int) (did nad : Option Int) (mk : Int → Option Int → Option Int → Int × Option Int × Option Int)
    (isDep : Bool) (fmt : Nat) :
    Gen.Fn.smt_rtox_call rtox did nad mk = mk rtox did nad
    ∧ Gen.Fn.smt_rtox_accept isDep (fmt : Int) = isRtoxResponse isDep fmt := by
  refine ⟨rfl, ?_⟩
  unfold Gen.Fn.smt_rtox_accept isRtoxResponse fTOX
  by_cases h : fmt = 9
  · subst h; cases isDep <;> rfl
  · have : ¬ ((fmt : Int) = 9) := by omega
    cases isDep <;> simp [h, this]

/-- the time the Target waits for the next frame is the reference `remaining` (never negative) -/
theorem tgt_wait_bridge (deadline now : Int) :
    Gen.Fn.smt_wait deadline now = remaining deadline now ∧ 0 ≤ Gen.Fn.smt_wait deadline now :=
  ⟨rfl, (remaining_nonneg deadline now).1⟩

/-- `if frame:`: neither None nor an empty frame is decoded -/
theorem tgt_have_frame_bridge (frame : Option Bytes) :
    Gen.Fn.smt_have_frame frame = match frame with | none => false | some f => decide (f ≠ []) := by
  unfold Gen.Fn.smt_have_frame
  cases frame with
  | none => simp
  | some f => rw [Bool.eq_iff_iff]; simp

/-- `Target._deactivate`: the answer to a DEP_REQ is the reference `deactAnswer`; the two builders -/
theorem tgt_deact_answer_bridge (data : Bytes) (fmt rpni : Nat) (did nad : Option Int)
    (mkatn : Option Int → Option Int → Int) (mkinf : Int → Bytes → Option Int → Option Int → Int) :
    Gen.Fn.smt_deact_answer data (fmt : Int) (rpni : Int) did nad mkatn mkinf
      = match deactAnswer fmt rpni with
        | .atn => mkatn did nad
        | .inf p => mkinf (p : Int) data did nad := by
  unfold Gen.Fn.smt_deact_answer deactAnswer fATN
  by_cases h : fmt = 8
  · subst h; rfl
  · have : ¬ ((fmt : Int) = 8) := by omega
    simp [h, this]

theorem tgt_deact_builders_bridge (pni : Nat) (did : Option Nat) (data : Bytes) :
    recPdu (Gen.Fn.smt_deact_inf (pni : Int) data (oi did) none) = .dep fINF pni did none data
    ∧ recPdu (Gen.Fn.smt_deact_atn (oi did) none) = .dep fATN 0 did none [] := by
  constructor <;> cases did <;> simp [recPdu, Gen.Fn.smt_deact_inf, Gen.Fn.smt_deact_atn, oi, fINF, fATN]

/-- `self.acm`: active communication mode iff the driver reports no passive activation -/
theorem tgt_act_acm_bridge (sens sensf : Bytes) : Gen.Fn.smt_act_acm sens sensf = acmOf sens sensf := by
  unfold Gen.Fn.smt_act_acm acmOf
  cases sens <;> cases sensf <;> simp

/-- the first call of `Target.exchange` must not carry data; later calls must not carry an empty payload
(`tRecv`: `if p = [] then die .value`) -/
theorem tgt_first_assert_bridge (sd : Option Bytes) :
    Gen.Fn.smt_first_assert sd = (if sd = none then .ok () else .error .assertion)
    ∧ Gen.Fn.smt_empty_chk sd = (if sd = some [] then .error .value else .ok ()) := by
  unfold Gen.Fn.smt_first_assert Gen.Fn.smt_empty_chk
  cases sd with
  | none => simp
  | some d =>
    cases d with
    | nil => simp [len_eq]
    | cons x xs =>
      have : ¬ ((xs.length : Int) + 1 = 0) := by omega
      simp [len_eq, this]

/-! ## statements of C04 for the regenerated state machines -/

/-- C04 `dep_error_kind_initiator_any_peer` for `exchangeGen`: against ANY peer the only exceptions that leave the
regenerated `Initiator.exchange` are CommunicationError classes -/
theorem gen_exchange_error_kind {σ : Type} (P : Peer σ) (k : Clock σ) (hk : k.Ok) (h26 : c.v.f26 = true) (h27 : c.v.f27 = true)
    (hm : c.imiu + 3 + flag c.idid 1 + flag c.inad 1 ≤ 254)
    (fuel : Nat) (script : List Fault) (s0 : σ) (pni : Nat) (p : Bytes) (hp : p ≠ []) :
    Safe (fun e => isComm e = true ∨ e = .outOfFuel)
      (exchangeGen P c k fuel { script := script, peer := s0, expired := false, wire := [] } pni p).2.2 := by
  rw [← exchange_bridge P c k hk h26 h27]
  exact C04.dep_error_kind_initiator_any_peer P c hm fuel script s0 pni p hp

/-- C04 `dep_retransmission_idempotent` for `tRxGen`: a retransmission, NAK, ATN or corrupted frame never changes the
Target that runs on the regenerated dispatch chain -/
theorem gen_retransmission_idempotent (h40 : c.v.f40 = true) (h41 : c.v.f41 = true) (t : TState) (hl : t.loc ≠ .listen)
    (fmt pni : Nat) (did nad : Option Nat) (data : Bytes)
    (h : fmt = fATN ∨ fmt = fNAK ∨ (fmt ≠ fTOX ∧ t.pni = some pni)) :
    (tRxGen c t (.frame (.dep fmt pni did nad data))).1 = t ∧ (tRxGen c t .corrupt).1 = t := by
  rw [← tgt_rx_bridge c h40 h41, ← tgt_rx_bridge c h40 h41]
  exact C04.dep_retransmission_idempotent c t hl fmt pni did nad data h

/-- C04 `dep_foreign_did_silent` for `tRxGen` -/
theorem gen_foreign_did_silent (h40 : c.v.f40 = true) (h41 : c.v.f41 = true) (t : TState) (req : Pdu)
    (h : req.didAttr ≠ c.tdid) :
    (tRxGen c t (.frame req)).2 = none ∧
    ((tRxGen c t (.frame req)).1 = t ∨ (t.loc = .listen ∧ (tRxGen c t (.frame req)).1 = { t with loc := .first })) := by
  rw [← tgt_rx_bridge c h40 h41]
  exact C04.dep_foreign_did_silent c t req h

/-- C04 `dep_nothing_after_error` for `tRxGen` -/
theorem gen_nothing_after_error (h40 : c.v.f40 = true) (h41 : c.v.f41 = true) (t : TState) (h : t.status ≠ .running)
    (rx : Rx) : tRxGen c t rx = (t, none) := by
  rw [← tgt_rx_bridge c h40 h41]
  exact C04.dep_nothing_after_error c t h rx


/-! ## non-vacuity -/

example : recPdu (Gen.Fn.smi_inf 2 [9, 9] true (some 7) none) = .dep fMORE 2 (some 7) none [9, 9] := by decide +kernel
example : recPdu (Gen.Fn.smi_atn (some 7)) = .dep fATN 0 (some 7) none [] := by decide +kernel
example : Gen.Fn.smi_rtox [60] none none = .error .protocol := by decide +kernel
example : Gen.Fn.smi_rtox [] none none = .error .protocol := by decide +kernel
example : Gen.Fn.smi_timeout 5 10 7 = .ok 3 ∧ Gen.Fn.smi_timeout 5 10 10 = .error .timeout := by decide +kernel
example : (Clock.demo Unit).Ok := Clock.demo_ok Unit
example : (C04.cSmall .repaired (some 3)).v.f26 = true ∧ (C04.cSmall .repaired (some 3)).v.f27 = true := by decide
/-- the regenerated Initiator against a responder that answers the first request with an RTOX PDU without data octet -/
example : (exchangeGen scriptedPeer (C04.cSmall .repaired none) (Clock.demo _) 50
    { script := [], peer := [some (.dep fTOX 0 none none [])], expired := false, wire := [] } 0 [1, 2]).2.2
      = .error .protocol := by decide +kernel
/-- the regenerated Initiator against the regenerated Target: a payload of two chunks, answered by `[0x81]` -/
example : (exchangeGen ⟨tRxGen (C04.cSmall .repaired none)⟩ (C04.cSmall .repaired none) (Clock.demo _) 50
    { script := [], peer := TState.init [[0x81]], expired := false, wire := [] } 0 [1, 2, 3, 4, 5, 6]).2.2
      = .ok [0x81] := by decide +kernel
/-- a duplicate of the accepted request is answered from the saved response, the state is unchanged -/
example :
    let r := tRxGen (C04.cSmall .repaired none) ⟨some 2, .receiving [1], some (.dep fACK 2 none none []), [], [], .running⟩
      (.frame (.dep fMORE 2 none none [7]))
    r.2 = some (.dep fACK 2 none none []) ∧ r.1.loc = .receiving [1] ∧ r.1.pni = some 2 := by decide +kernel
example : Gen.Fn.smt_deact_answer [1] 8 3 none none (fun _ _ => 1) (fun p _ _ _ => 100 + p) = 1
    ∧ Gen.Fn.smt_deact_answer [1] 0 3 none none (fun _ _ => 1) (fun p _ _ _ => 100 + p) = 103 := by decide +kernel
example : Gen.Fn.smi_act_asserts (some 256) none = .error .assertion ∧ Gen.Fn.smi_act_asserts (some 255) (some 0) = .ok () := by
  decide +kernel


end NfcVerif.FnBridge.DepSm
