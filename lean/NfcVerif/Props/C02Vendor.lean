import NfcVerif.Props.C02T34
import NfcVerif.Lemmas.T3Vendor
/-!
# C02, part vendor - the reader side of the Type 3 commit protocol in every class that overrides it

`T3V.seeV p auth ⟨mem, mcRw, mcRd⟩` (`Model/T3Vendor.lean`): what a fresh `tag.ndef` of product class `p`
(`generic`: Type3Tag / FelicaStandard / FelicaMobile / FelicaPlug, `lite`: FelicaLite, `liteS`: FelicaLiteS) reports,
read without (`auth = false`) or after a successful `tag.authenticate()` (`auth = true`: MAC verified reads, on a
Lite-S also external authentication), on a card with the blocks `mem` and the memory configuration fields
`MC_SP_REG_ALL_RW = mcRw`, `MC_SP_REG_R_RESTR = mcRd`.  The override of `_read_attribute_data` is the function
`T3V.override` of (product, authenticated?, MC, base class result).
-/
namespace NfcVerif.C02Vendor
open NfcVerif NfcVerif.T34 NfcVerif.Hist NfcVerif.T3V

/-- **Cut safety for every vendor reader (full).**  For every well-formed layout, every old and new message, EVERY
cut point `k` of the write, every product class, BOTH reader states (plain, authenticated) and every memory
configuration of the card: the fresh reader finds no NDEF, or sees the old message, an empty message, a not-readable
area or the complete new message. -/
theorem t3_vendor_cut_safe (p : Product) (auth : Bool) (mcRw mcRd : Nat) (m data : Bytes) (a : T3.Attr)
    (wf : T3.WF m a) (hlen : data.length ≤ 16 * a.nmaxb) (sOld : Seen) (hold : T3.see m = .ok (some sOld)) (k : Nat)
    (hk : k ≤ (T3.planWrite a data).length) :
    ∃ r, seeV p auth ⟨T3.applyW m ((T3.planWrite a data).take k), mcRw, mcRd⟩ = .ok r ∧ Outcome sOld.data data r :=
  vendor_cut_safe p auth mcRw mcRd m data a wf hlen sOld hold k hk

/-- **The overrides never touch the commit marker.**  On a well-formed memory every vendor reader in either state
finds no NDEF or reports capacity, octets and - in particular - `readable` of the generic reader
(`WriteF = 0 ∧ Nbr > 0`); only `writeable` may differ. -/
theorem t3_vendor_view_refines_generic (p : Product) (auth : Bool) (c : Card) (a : T3.Attr) (wf : T3.WF c.mem a) :
    seeV p auth c = .ok none ∨
    ∃ s w, T3.see c.mem = .ok (some s) ∧ seeV p auth c = .ok (some { s with writeable := w }) :=
  seeV_vs_see p auth c a wf

/-- a write in progress (`WriteF ≠ 0` in a well-formed attribute block) is reported as not readable by every reader -/
theorem t3_vendor_writeflag_respected (p : Product) (auth : Bool) (c : Card) (a : T3.Attr) (wf : T3.WF c.mem a)
    (hf : a.writef ≠ 0) (s : Seen) (hs : seeV p auth c = .ok (some s)) : s.readable = false := by
  rcases seeV_view p auth c a wf with h | ⟨w, h⟩
  · rw [h] at hs; cases hs
  · rw [h] at hs; cases hs; simp [hf]

/-- **Not vacuous: a reader the card answers sees the generic view.**  When no read restriction stands in the way
(`generic` products, authenticated Lite-S readers, `MC_SP_REG_R_RESTR` without a bit on a user block) and the
portions fit a FeliCa Lite answer (`Nbr` after the override plus the MAC block at most 4), the vendor view is the
generic view with the `writeable` flag of the override. -/
theorem t3_vendor_answered (p : Product) (auth : Bool) (c : Card) (a : T3.Attr) (wf : T3.WF c.mem a)
    (hn : p = .generic ∨ (override p auth c.mcRw a (baseFlags a)).1.nbr + (if auth then 1 else 0) ≤ 4)
    (hr : p = .liteS → auth = false → ∀ first n, anyRestricted c.mcRd first n = false) :
    seeV p auth c = .ok (some ⟨(a.nmaxb * 16 : Nat), decide (a.writef = 0 ∧ a.nbr > 0),
      (override p auth c.mcRw a (baseFlags a)).2.writeable,
      (sliceN c.mem 16 (16 * (1 + (a.ln + 15) / 16))).take a.ln⟩) :=
  seeV_answered p auth c a wf hn hr

/-- **Histories (full).**  After EVERY history of assignments through one tag object with faults of both kinds
(`Hist.t3History`) every vendor reader in either state finds no NDEF, or what the activation saw, or a not-readable
area, or the COMPLETE message of one of the attempts. -/
theorem t3_vendor_history_cut_safe (p : Product) (auth : Bool) (mcRw mcRd : Nat) (m : Bytes) (a : T3.Attr)
    (wf : T3.WF m a) (seen : Seen) (hseen : T3.see m = .ok (some seen)) (hs : List (Bytes × Option Fault)) :
    seeV p auth ⟨(t3History seen m hs).1, mcRw, mcRd⟩ = .ok none ∨
    ∃ s, seeV p auth ⟨(t3History seen m hs).1, mcRw, mcRd⟩ = .ok (some s) ∧
      ((s.capacity = seen.capacity ∧ s.readable = seen.readable ∧ s.data = seen.data) ∨ s.readable = false ∨
        (s.data ∈ sentMsgs34 seen.capacity hs ∧ s.readable = true ∧ s.capacity = seen.capacity)) := by
  have hs0 : seen.capacity = (a.nmaxb * 16 : Nat) := by
    unfold T3.see at hseen
    rw [T3.readNdef_old m a wf] at hseen
    simp only [Py.bind_ok, Option.map, Except.ok.injEq, Option.some.injEq] at hseen
    subst hseen; rfl
  obtain ⟨a', wf', _⟩ := t3History_inv seen a hs0 hs m ⟨a, wf, rfl, rfl, rfl, rfl, rfl⟩
  obtain ⟨s0, h0, hc⟩ := C02T34.t3_history_cut_safe m a wf seen hseen hs
  rcases seeV_vs_see p auth ⟨(t3History seen m hs).1, mcRw, mcRd⟩ a' wf' with h | ⟨s, w, hsee, h⟩
  · exact Or.inl h
  · refine Or.inr ⟨_, h, ?_⟩
    simp only [] at hsee
    rw [hsee] at h0
    cases h0
    rcases hc with rfl | hc | hc
    · exact Or.inl ⟨rfl, rfl, rfl⟩
    · exact Or.inr (Or.inl hc)
    · exact Or.inr (Or.inr hc)

/-! Non-vacuity on `C01T34.exM` (old message `01..05`, Nbr 4): the write of `05 06` is cut after two of its three
commands.  An authenticated Lite-S reader sees `WriteF = 0Fh` - not readable (and, with `MC_SP_REG_ALL_RW = 01FFh`,
not writeable); a plain reader of a Lite-S whose block 1 is read restricted finds no NDEF; the complete write is
read back by the authenticated reader. -/
example : seeV .liteS true ⟨T3.applyW C01T34.exM ((T3.planWrite C01T34.exA [5, 6]).take 2), 0x01FF, 0⟩
    = .ok (some ⟨32, false, false, [5, 6, 0, 0, 0]⟩) := by decide
example : seeV .liteS false ⟨T3.applyW C01T34.exM ((T3.planWrite C01T34.exA [5, 6]).take 2), 0xFFFF, 2⟩
    = .ok none := by decide
example : seeV .liteS true ⟨T3.applyW C01T34.exM ((T3.planWrite C01T34.exA [5, 6]).take 3), 0xFFFF, 2⟩
    = .ok (some ⟨32, true, true, [5, 6]⟩) := by decide
example : ∃ r, seeV .lite true ⟨T3.applyW C01T34.exM ((T3.planWrite C01T34.exA [5, 6]).take 2), 0xFFFF, 0⟩ = .ok r ∧
    Outcome [1, 2, 3, 4, 5] [5, 6] r :=
  t3_vendor_cut_safe _ _ _ _ _ _ _ C01T34.exWF3 (by decide) ⟨32, true, true, [1, 2, 3, 4, 5]⟩ (by decide) 2 (by decide)
example : seeV .lite true ⟨C01T34.exM, 0xFFFF, 0⟩ = .ok (some ⟨32, true, true, [1, 2, 3, 4, 5]⟩) :=
  t3_vendor_answered .lite true ⟨C01T34.exM, 0xFFFF, 0⟩ C01T34.exA C01T34.exWF3 (Or.inr (by decide))
    (fun h => by cases h)
/-- the override that reports "readable whenever Nbr > 0" to an authenticated reader (seed C02-r4m3) is refuted by
`t3_vendor_writeflag_respected`: the attribute block of the cut state carries `WriteF = 0Fh` -/
example : ∀ s, seeV .liteS true ⟨T3.applyW C01T34.exM ((T3.planWrite C01T34.exA [5, 6]).take 2), 0xFFFF, 0⟩ = .ok (some s) →
    s.readable = false := by
  intro s hs
  have h : seeV .liteS true ⟨T3.applyW C01T34.exM ((T3.planWrite C01T34.exA [5, 6]).take 2), 0xFFFF, 0⟩
      = .ok (some ⟨32, false, true, [5, 6, 0, 0, 0]⟩) := by decide
  rw [h] at hs; cases hs; rfl

/-! ## Type 4: a reader that cached the capability container before the write

`tag.ndef.has_changed` on an object created BEFORE the write runs `_read_ndef_data` without `_discover_ndef`
(`hasattr(self, "_ndef_file")`): file id, NLEN size, MLe, capacity and the access flags are the cached ones. -/

/-- `_read_ndef_data` of an object that holds the discovered values `i` -/
def readCached (i : T4.Info) (c : T4.Card) : Py (Option Seen) :=
  T4.catchTag (
    if i.fid ≠ c.fid then .ok none else
    T4.readBinary c c.file i.maxLe 0 i.nlenSize >>= fun nl =>
    if nl.length ≠ i.nlenSize then .ok none else
    T4.readLoop c i (beNat nl) (beNat nl + 1) [] >>= fun d =>
    .ok (some { info := i, seen := { capacity := i.capacity, readable := i.readable,
                                      writeable := i.writeable, data := d } : T4.Ndef }))
  >>= fun o => .ok (o.map (·.seen))

/-- a write never touches the capability container: whatever the file holds afterwards, the reader with the cached
values sees exactly what a fresh reader sees -/
theorem t4_cached_reader_is_fresh (v : T4.Variant) (c : T4.Card) (i : T4.Info) (hi : T4.discover v c = .ok (some i))
    (f : Bytes) : readCached i { c with file := f } = T4.see v { c with file := f } := by
  unfold readCached T4.see T4.readNdef
  rw [T4.discover_file, hi]
  rfl

/-- **Type 4 cut safety for the cached reader** (`NLEN size ≤ MLc`): after every cut of a write the reader that looked
at the tag before the write sees the old message, an empty message or the complete new message. -/
theorem t4_cached_reader_cut_safe (v : T4.Variant) (c : T4.Card) (i : T4.Info) (data : Bytes) (wf : T4.WF v c i)
    (hlen : (data.length : Int) ≤ i.capacity) (hmlc : i.nlenSize ≤ i.maxLc)
    (sOld : Seen) (hold : T4.see v c = .ok (some sOld)) (k : Nat) (hk : k ≤ (T4.planWrite v i data).length) :
    ∃ r, readCached i { c with file := T4.applyU c.file ((T4.planWrite v i data).take k) } = .ok r ∧
      Outcome sOld.data data r := by
  rw [t4_cached_reader_is_fresh v c i wf.disc]
  exact C02T34.t4_cut_safe v c i data wf hlen hmlc sOld hold k hk

example : ∃ r, readCached C02T34.exInfo { C01T34.exCard with
      file := T4.applyU C01T34.exCard.file ((T4.planWrite .repaired C02T34.exInfo [5]).take 1) } = .ok r ∧
    Outcome [7, 8] [5] r :=
  t4_cached_reader_cut_safe _ _ _ _ C01T34.exWF4 (by decide) (by decide) ⟨18, true, true, [7, 8]⟩ (by decide) 1 (by decide)

end NfcVerif.C02Vendor
