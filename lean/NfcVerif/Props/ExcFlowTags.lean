import NfcVerif.Props.ExcFlow
/-!
# Exception flow, instance theorems: C16 / C12: tag commands fail only as `TagCommandError`

Re-checked on the regenerated `Gen/ExcFlow.lean` (see `Props/ExcFlow.lean` for what `Only` / `Can` mean).
-/
namespace NfcVerif.ExcFlowProps
open NfcVerif.ExcFlow NfcVerif.Gen.ClassTree NfcVerif.Gen.ExcFlow

/-! ## C16 / C12: tag commands fail only as `TagCommandError`

Assumption (table): `self.clf.exchange` raises `nfc.clf.CommunicationError` subclasses only,
`self.clf.sense` (re-sensing a known target) does not raise. -/

/-- every `Only` statement of this section, checked with one evaluation of the summary table -/
def tagsOnly : List (Site × List Cls) := [
  (Site.fn_tt1_transceive, [Cls.tag_TagCommandError, Cls.RuntimeError]),
  (Site.fn_tt2_transceive, [Cls.tag_TagCommandError, Cls.RuntimeError]),
  (Site.fn_tt3_send_cmd_recv_rsp, [Cls.tag_TagCommandError]),
  (Site.fn_tt4_dep_exchange_cmd, [Cls.tag_TagCommandError]),
  (Site.fn_tt4_transceive_cmd, [Cls.tag_TagCommandError]),
  (Site.fn_tt4_transceive, [Cls.tag_TagCommandError, Cls.clf_CommunicationError]),
  (Site.fn_tt4_send_apdu, [Cls.tag_TagCommandError, Cls.ValueError]),
  (Site.fn_tt1_is_present, [Cls.ValueError, Cls.RuntimeError]),
  (Site.fn_tt2_is_present, [Cls.RuntimeError]),
  (Site.fn_tt3_is_present, [Cls.ValueError]),
  (Site.fn_tt4_is_present, []),
  (Site.fn_tag_NDEF_octets_set, [Cls.tag_TagCommandError, Cls.AttributeError, Cls.ValueError, Cls.RuntimeError]),
  (Site.fn_tt1_read_id, [Cls.tag_TagCommandError, Cls.ValueError, Cls.RuntimeError]),
  (Site.fn_tt1_read_all, [Cls.tag_TagCommandError, Cls.ValueError, Cls.RuntimeError]),
  (Site.fn_tt1_read_byte, [Cls.tag_TagCommandError, Cls.ValueError, Cls.RuntimeError]),
  (Site.fn_tt1_read_block, [Cls.tag_TagCommandError, Cls.ValueError, Cls.RuntimeError]),
  (Site.fn_tt1_read_segment, [Cls.tag_TagCommandError, Cls.ValueError, Cls.RuntimeError]),
  (Site.fn_tt1_write_byte, [Cls.tag_TagCommandError, Cls.ValueError, Cls.RuntimeError]),
  (Site.fn_tt1_write_block, [Cls.tag_TagCommandError, Cls.ValueError, Cls.RuntimeError]),
  (Site.fn_tt2_read, [Cls.tag_TagCommandError, Cls.ValueError, Cls.RuntimeError]),
  (Site.fn_tt2_write, [Cls.tag_TagCommandError, Cls.ValueError, Cls.RuntimeError]),
  (Site.fn_tt2_sector_select, [Cls.tag_TagCommandError, Cls.ValueError, Cls.RuntimeError]),
  (Site.fn_tt3_polling, [Cls.tag_TagCommandError, Cls.ValueError]),
  (Site.fn_tt3_read_without_encryption, [Cls.tag_TagCommandError, Cls.ValueError]),
  (Site.fn_tt3_read_from_ndef_service, [Cls.tag_TagCommandError, Cls.ValueError]),
  (Site.fn_tt3_write_without_encryption, [Cls.tag_TagCommandError, Cls.ValueError]),
  (Site.fn_tt3_write_to_ndef_service, [Cls.tag_TagCommandError, Cls.ValueError])]
def tagsOnlyIO : List (Site × List Cls) := [
  (Site.fn_tt2_transceive, [Cls.tag_TagCommandError, Cls.RuntimeError, Cls.OSError]),
  (Site.fn_tt3_send_cmd_recv_rsp, [Cls.tag_TagCommandError, Cls.OSError]),
  (Site.fn_tt4_dep_exchange_cmd, [Cls.tag_TagCommandError, Cls.OSError])]
theorem tagsOnlyIO_ok : checkOnly world tableIO prog tagsOnlyIO = true := by decide +kernel
def tagsCan : List (Site × Cls) := [
  (Site.fn_tt1_transceive, Cls.tag_tt1_Type1TagCommandError),
  (Site.fn_tt1_transceive, Cls.RuntimeError),
  (Site.fn_tt2_transceive, Cls.tag_tt2_Type2TagCommandError),
  (Site.fn_tt2_transceive, Cls.RuntimeError),
  (Site.fn_tt3_send_cmd_recv_rsp, Cls.tag_tt3_Type3TagCommandError),
  (Site.fn_tt4_dep_exchange_cmd, Cls.tag_tt4_Type4TagCommandError),
  (Site.fn_tt4_dep__exchange, Cls.clf_TimeoutError),
  (Site.fn_tt4_dep_exchange_presence, Cls.clf_TimeoutError)]
/-- the statements about `format` / `protect` / `authenticate` (section "format / protect / authenticate" below) -/
def tagOpsOnly : List (Site × List Cls) := [
  (Site.fn_tag_Tag_authenticate, [Cls.tag_TagCommandError, Cls.ValueError, Cls.RuntimeError, Cls.AssertionError]),
  (Site.fn_tag_Tag_format, [Cls.tag_TagCommandError, Cls.ValueError, Cls.RuntimeError, Cls.AssertionError]),
  (Site.fn_tag_Tag_protect, [Cls.tag_TagCommandError, Cls.ValueError, Cls.RuntimeError, Cls.AssertionError]),
  (Site.fn_tt1_Type1Tag__protect, [Cls.tag_TagCommandError, Cls.ValueError, Cls.RuntimeError, Cls.AssertionError]),
  (Site.fn_tt1_Type1Tag_protect, [Cls.tag_TagCommandError, Cls.ValueError, Cls.RuntimeError, Cls.AssertionError]),
  (Site.fn_tt1_broadcom_Topaz__format, [Cls.tag_TagCommandError, Cls.ValueError, Cls.RuntimeError, Cls.AssertionError]),
  (Site.fn_tt1_broadcom_Topaz__protect, [Cls.tag_TagCommandError, Cls.ValueError, Cls.RuntimeError, Cls.AssertionError]),
  (Site.fn_tt1_broadcom_Topaz_format, [Cls.tag_TagCommandError, Cls.ValueError, Cls.RuntimeError, Cls.AssertionError]),
  (Site.fn_tt1_broadcom_Topaz_protect, [Cls.tag_TagCommandError, Cls.ValueError, Cls.RuntimeError, Cls.AssertionError]),
  (Site.fn_tt1_broadcom_Topaz512__format, [Cls.tag_TagCommandError, Cls.ValueError, Cls.RuntimeError, Cls.AssertionError]),
  (Site.fn_tt1_broadcom_Topaz512__protect, [Cls.tag_TagCommandError, Cls.ValueError, Cls.RuntimeError, Cls.AssertionError]),
  (Site.fn_tt1_broadcom_Topaz512_format, [Cls.tag_TagCommandError, Cls.ValueError, Cls.RuntimeError, Cls.AssertionError]),
  (Site.fn_tt1_broadcom_Topaz512_protect, [Cls.tag_TagCommandError, Cls.ValueError, Cls.RuntimeError, Cls.AssertionError]),
  (Site.fn_tt2_Type2Tag__format, [Cls.tag_TagCommandError, Cls.ValueError, Cls.RuntimeError, Cls.AssertionError]),
  (Site.fn_tt2_Type2Tag__protect, [Cls.tag_TagCommandError, Cls.ValueError, Cls.RuntimeError, Cls.AssertionError]),
  (Site.fn_tt2_Type2Tag_format, [Cls.tag_TagCommandError, Cls.ValueError, Cls.RuntimeError, Cls.AssertionError]),
  (Site.fn_tt2_Type2Tag_protect, [Cls.tag_TagCommandError, Cls.ValueError, Cls.RuntimeError, Cls.AssertionError]),
  (Site.fn_tt2_nxp_MifareUltralightC__authenticate, [Cls.tag_TagCommandError, Cls.ValueError, Cls.RuntimeError, Cls.AssertionError]),
  (Site.fn_tt2_nxp_MifareUltralightC__protect, [Cls.tag_TagCommandError, Cls.ValueError, Cls.RuntimeError, Cls.AssertionError]),
  (Site.fn_tt2_nxp_MifareUltralightC__protect_with_lockbits, [Cls.tag_TagCommandError, Cls.ValueError, Cls.RuntimeError, Cls.AssertionError]),
  (Site.fn_tt2_nxp_MifareUltralightC__protect_with_password, [Cls.tag_TagCommandError, Cls.ValueError, Cls.RuntimeError, Cls.AssertionError]),
  (Site.fn_tt2_nxp_MifareUltralightC_authenticate, [Cls.tag_TagCommandError, Cls.ValueError, Cls.RuntimeError, Cls.AssertionError]),
  (Site.fn_tt2_nxp_MifareUltralightC_protect, [Cls.tag_TagCommandError, Cls.ValueError, Cls.RuntimeError, Cls.AssertionError]),
  (Site.fn_tt2_nxp_NTAG203__format, [Cls.tag_TagCommandError, Cls.ValueError, Cls.RuntimeError, Cls.AssertionError]),
  (Site.fn_tt2_nxp_NTAG203__protect, [Cls.tag_TagCommandError, Cls.ValueError, Cls.RuntimeError, Cls.AssertionError]),
  (Site.fn_tt2_nxp_NTAG203_protect, [Cls.tag_TagCommandError, Cls.ValueError, Cls.RuntimeError, Cls.AssertionError]),
  (Site.fn_tt2_nxp_NTAG210__format, [Cls.tag_TagCommandError, Cls.ValueError, Cls.RuntimeError, Cls.AssertionError]),
  (Site.fn_tt2_nxp_NTAG212__format, [Cls.tag_TagCommandError, Cls.ValueError, Cls.RuntimeError, Cls.AssertionError]),
  (Site.fn_tt2_nxp_NTAG213__format, [Cls.tag_TagCommandError, Cls.ValueError, Cls.RuntimeError, Cls.AssertionError]),
  (Site.fn_tt2_nxp_NTAG215__format, [Cls.tag_TagCommandError, Cls.ValueError, Cls.RuntimeError, Cls.AssertionError]),
  (Site.fn_tt2_nxp_NTAG216__format, [Cls.tag_TagCommandError, Cls.ValueError, Cls.RuntimeError, Cls.AssertionError]),
  (Site.fn_tt2_nxp_NTAG21x__authenticate, [Cls.tag_TagCommandError, Cls.ValueError, Cls.RuntimeError, Cls.AssertionError]),
  (Site.fn_tt2_nxp_NTAG21x__protect, [Cls.tag_TagCommandError, Cls.ValueError, Cls.RuntimeError, Cls.AssertionError]),
  (Site.fn_tt2_nxp_NTAG21x__protect_with_lockbits, [Cls.tag_TagCommandError, Cls.ValueError, Cls.RuntimeError, Cls.AssertionError]),
  (Site.fn_tt2_nxp_NTAG21x__protect_with_password, [Cls.tag_TagCommandError, Cls.ValueError, Cls.RuntimeError, Cls.AssertionError]),
  (Site.fn_tt2_nxp_NTAG21x_authenticate, [Cls.tag_TagCommandError, Cls.ValueError, Cls.RuntimeError, Cls.AssertionError]),
  (Site.fn_tt2_nxp_NTAG21x_protect, [Cls.tag_TagCommandError, Cls.ValueError, Cls.RuntimeError, Cls.AssertionError]),
  (Site.fn_tt3_Type3Tag__format, [Cls.tag_TagCommandError, Cls.ValueError, Cls.RuntimeError, Cls.AssertionError]),
  (Site.fn_tt3_Type3Tag_format, [Cls.tag_TagCommandError, Cls.ValueError, Cls.RuntimeError, Cls.AssertionError]),
  (Site.fn_tt3_sony_FelicaLite__authenticate, [Cls.tag_TagCommandError, Cls.ValueError, Cls.RuntimeError, Cls.AssertionError]),
  (Site.fn_tt3_sony_FelicaLite__format, [Cls.tag_TagCommandError, Cls.ValueError, Cls.RuntimeError, Cls.AssertionError]),
  (Site.fn_tt3_sony_FelicaLite__protect, [Cls.tag_TagCommandError, Cls.ValueError, Cls.RuntimeError, Cls.AssertionError]),
  (Site.fn_tt3_sony_FelicaLite_authenticate, [Cls.tag_TagCommandError, Cls.ValueError, Cls.RuntimeError, Cls.AssertionError]),
  (Site.fn_tt3_sony_FelicaLite_format, [Cls.tag_TagCommandError, Cls.ValueError, Cls.RuntimeError, Cls.AssertionError]),
  (Site.fn_tt3_sony_FelicaLite_protect, [Cls.tag_TagCommandError, Cls.ValueError, Cls.RuntimeError, Cls.AssertionError]),
  (Site.fn_tt3_sony_FelicaLite_read_with_mac, [Cls.tag_TagCommandError, Cls.ValueError, Cls.RuntimeError, Cls.AssertionError]),
  (Site.fn_tt3_sony_FelicaLite_read_without_mac, [Cls.tag_TagCommandError, Cls.ValueError, Cls.RuntimeError, Cls.AssertionError]),
  (Site.fn_tt3_sony_FelicaLite_write_without_mac, [Cls.tag_TagCommandError, Cls.ValueError, Cls.RuntimeError, Cls.AssertionError]),
  (Site.fn_tt3_sony_FelicaLiteS__protect, [Cls.tag_TagCommandError, Cls.ValueError, Cls.RuntimeError, Cls.AssertionError]),
  (Site.fn_tt3_sony_FelicaLiteS_authenticate, [Cls.tag_TagCommandError, Cls.ValueError, Cls.RuntimeError, Cls.AssertionError]),
  (Site.fn_tt3_sony_FelicaLiteS_protect, [Cls.tag_TagCommandError, Cls.ValueError, Cls.RuntimeError, Cls.AssertionError]),
  (Site.fn_tt3_sony_FelicaLiteS_write_with_mac, [Cls.tag_TagCommandError, Cls.ValueError, Cls.RuntimeError, Cls.AssertionError]),
  (Site.fn_tt3_sony_FelicaStandard__is_present, [Cls.tag_TagCommandError, Cls.ValueError, Cls.RuntimeError, Cls.AssertionError]),
  (Site.fn_tt3_sony_FelicaStandard_request_response, [Cls.tag_TagCommandError, Cls.ValueError, Cls.RuntimeError, Cls.AssertionError]),
  (Site.fn_tt3_sony_FelicaStandard_request_service, [Cls.tag_TagCommandError, Cls.ValueError, Cls.RuntimeError, Cls.AssertionError]),
  (Site.fn_tt3_sony_FelicaStandard_request_system_code, [Cls.tag_TagCommandError, Cls.ValueError, Cls.RuntimeError, Cls.AssertionError]),
  (Site.fn_tt3_sony_FelicaStandard_search_service_code, [Cls.tag_TagCommandError, Cls.ValueError, Cls.RuntimeError, Cls.AssertionError]),
  (Site.fn_tt4_Type4Tag__format, [Cls.tag_TagCommandError, Cls.ValueError, Cls.RuntimeError, Cls.AssertionError]),
  (Site.fn_tt4_Type4Tag_format, [Cls.tag_TagCommandError, Cls.ValueError, Cls.RuntimeError, Cls.AssertionError]),
  (Site.fn_tt4_ndef_wipe, [Cls.tag_TagCommandError, Cls.ValueError, Cls.RuntimeError, Cls.AssertionError])]
/-- all lists about the table `table`, checked with one evaluation of the summary table -/
theorem tagsAll_ok : checkAll world table prog (tagsOnly ++ tagOpsOnly) [] tagsCan = true := by decide +kernel
theorem tagsOnly_ok : checkOnly world table prog tagsOnly = true := (checkOnly_append.mp (checkAll_split tagsAll_ok).1).1
theorem tagOpsOnly_ok : checkOnly world table prog tagOpsOnly = true := (checkOnly_append.mp (checkAll_split tagsAll_ok).1).2
theorem tagsCan_ok : checkCan world table prog tagsCan = true := (checkAll_split tagsAll_ok).2.2


/-- `Type1Tag.transceive`: `TagCommandError`, or the `RuntimeError` of the open finding
`t1t2-unknown-commerror-runtimeerror` (a `CommunicationError` that is not one of the three known kinds) -/
theorem tt1_transceive_escapes : Only Site.fn_tt1_transceive [Cls.tag_TagCommandError, Cls.RuntimeError] :=
  escapesOnly_of_checkOnly tree_ordered tagsOnly_ok (by decide)
theorem tt1_transceive_can_fail : Can Site.fn_tt1_transceive Cls.tag_tt1_Type1TagCommandError :=
  canEscape_of_checkCan tree_ordered tagsCan_ok (by decide)
/-- open finding `t1t2-unknown-commerror-runtimeerror`: the `RuntimeError` path exists -/
theorem tt1_transceive_runtimeerror : Can Site.fn_tt1_transceive Cls.RuntimeError :=
  canEscape_of_checkCan tree_ordered tagsCan_ok (by decide)

theorem tt2_transceive_escapes : Only Site.fn_tt2_transceive [Cls.tag_TagCommandError, Cls.RuntimeError] :=
  escapesOnly_of_checkOnly tree_ordered tagsOnly_ok (by decide)
theorem tt2_transceive_can_fail : Can Site.fn_tt2_transceive Cls.tag_tt2_Type2TagCommandError :=
  canEscape_of_checkCan tree_ordered tagsCan_ok (by decide)
theorem tt2_transceive_runtimeerror : Can Site.fn_tt2_transceive Cls.RuntimeError :=
  canEscape_of_checkCan tree_ordered tagsCan_ok (by decide)

/-- `Type3Tag.send_cmd_recv_rsp`: `TagCommandError` only -/
theorem tt3_send_cmd_recv_rsp_escapes : Only Site.fn_tt3_send_cmd_recv_rsp [Cls.tag_TagCommandError] :=
  escapesOnly_of_checkOnly tree_ordered tagsOnly_ok (by decide)
theorem tt3_send_cmd_recv_rsp_can_fail : Can Site.fn_tt3_send_cmd_recv_rsp Cls.tag_tt3_Type3TagCommandError :=
  canEscape_of_checkCan tree_ordered tagsCan_ok (by decide)

/-- `IsoDepInitiator.exchange` / `Type4Tag.transceive` with a command (`command is not None`):
`TagCommandError` only (C12, C16) -/
theorem tt4_exchange_cmd_escapes : Only Site.fn_tt4_dep_exchange_cmd [Cls.tag_TagCommandError] :=
  escapesOnly_of_checkOnly tree_ordered tagsOnly_ok (by decide)
theorem tt4_transceive_cmd_escapes : Only Site.fn_tt4_transceive_cmd [Cls.tag_TagCommandError] :=
  escapesOnly_of_checkOnly tree_ordered tagsOnly_ok (by decide)
theorem tt4_exchange_cmd_can_fail : Can Site.fn_tt4_dep_exchange_cmd Cls.tag_tt4_Type4TagCommandError :=
  canEscape_of_checkCan tree_ordered tagsCan_ok (by decide)
/-- inside, `_exchange` does raise `CommunicationError`: the handlers of `_exchange_command` are what the
theorem above is about -/
theorem tt4_inner_exchange_raises : Can Site.fn_tt4_dep__exchange Cls.clf_TimeoutError :=
  canEscape_of_checkCan tree_ordered tagsCan_ok (by decide)
/-- without the restriction to `command is not None` the raw `CommunicationError` of the presence check
(`exchange(None)`) is part of what `transceive` can raise; `_is_present` is its only caller and absorbs it -/
theorem tt4_transceive_escapes : Only Site.fn_tt4_transceive [Cls.tag_TagCommandError, Cls.clf_CommunicationError] :=
  escapesOnly_of_checkOnly tree_ordered tagsOnly_ok (by decide)
theorem tt4_presence_check_raises_raw : Can Site.fn_tt4_dep_exchange_presence Cls.clf_TimeoutError :=
  canEscape_of_checkCan tree_ordered tagsCan_ok (by decide)
/-- `send_apdu`: `TagCommandError`, or `ValueError` for arguments the APDU format cannot carry (documented) -/
theorem tt4_send_apdu_escapes : Only Site.fn_tt4_send_apdu [Cls.tag_TagCommandError, Cls.ValueError] :=
  escapesOnly_of_checkOnly tree_ordered tagsOnly_ok (by decide)

/-- the memory / block commands built on `transceive` (Type 1): `TagCommandError`, `ValueError` for an
address outside the command format, `RuntimeError` as above -/
theorem tt1_commands_escape : ∀ f ∈ [Site.fn_tt1_read_id, Site.fn_tt1_read_all, Site.fn_tt1_read_byte,
    Site.fn_tt1_read_block, Site.fn_tt1_read_segment, Site.fn_tt1_write_byte, Site.fn_tt1_write_block],
    Only f [Cls.tag_TagCommandError, Cls.ValueError, Cls.RuntimeError] := by
  intro f hf
  simp only [List.mem_cons, List.not_mem_nil, or_false] at hf
  rcases hf with h | h | h | h | h | h | h <;> subst h <;> exact escapesOnly_of_checkOnly tree_ordered tagsOnly_ok (by decide)

theorem tt2_commands_escape : ∀ f ∈ [Site.fn_tt2_read, Site.fn_tt2_write, Site.fn_tt2_sector_select],
    Only f [Cls.tag_TagCommandError, Cls.ValueError, Cls.RuntimeError] := by
  intro f hf
  simp only [List.mem_cons, List.not_mem_nil, or_false] at hf
  rcases hf with h | h | h <;> subst h <;> exact escapesOnly_of_checkOnly tree_ordered tagsOnly_ok (by decide)

theorem tt3_commands_escape : ∀ f ∈ [Site.fn_tt3_polling, Site.fn_tt3_read_without_encryption,
    Site.fn_tt3_read_from_ndef_service, Site.fn_tt3_write_without_encryption, Site.fn_tt3_write_to_ndef_service],
    Only f [Cls.tag_TagCommandError, Cls.ValueError] := by
  intro f hf
  simp only [List.mem_cons, List.not_mem_nil, or_false] at hf
  rcases hf with h | h | h | h | h <;> subst h <;> exact escapesOnly_of_checkOnly tree_ordered tagsOnly_ok (by decide)

/-- presence checks turn the command error into `False`: no `TagCommandError`, no `CommunicationError` -/
theorem is_present_escapes : Only Site.fn_tt1_is_present [Cls.ValueError, Cls.RuntimeError] ∧
    Only Site.fn_tt2_is_present [Cls.RuntimeError] ∧ Only Site.fn_tt3_is_present [Cls.ValueError] ∧
    Only Site.fn_tt4_is_present [] :=
  ⟨escapesOnly_of_checkOnly tree_ordered tagsOnly_ok (by decide),
   escapesOnly_of_checkOnly tree_ordered tagsOnly_ok (by decide),
   escapesOnly_of_checkOnly tree_ordered tagsOnly_ok (by decide),
   escapesOnly_of_checkOnly tree_ordered tagsOnly_ok (by decide)⟩

/-- NDEF write (`tag.ndef.octets = ...`): `TagCommandError` (documented), `AttributeError` / `ValueError`
(documented: not writeable / too long), `RuntimeError` as above - never a raw `CommunicationError` -/
theorem ndef_write_escapes : Only Site.fn_tag_NDEF_octets_set
    [Cls.tag_TagCommandError, Cls.AttributeError, Cls.ValueError, Cls.RuntimeError] :=
  escapesOnly_of_checkOnly tree_ordered tagsOnly_ok (by decide)

/-- with a host link that can fail (`IOError` from `clf.exchange`): the `IOError` passes through unchanged -/
theorem tt2_transceive_escapes_io : OnlyIO Site.fn_tt2_transceive [Cls.tag_TagCommandError, Cls.RuntimeError, Cls.OSError] :=
  escapesOnly_of_checkOnly tree_ordered tagsOnlyIO_ok (by decide)
theorem tt3_send_cmd_recv_rsp_escapes_io : OnlyIO Site.fn_tt3_send_cmd_recv_rsp [Cls.tag_TagCommandError, Cls.OSError] :=
  escapesOnly_of_checkOnly tree_ordered tagsOnlyIO_ok (by decide)
theorem tt4_exchange_cmd_escapes_io : OnlyIO Site.fn_tt4_dep_exchange_cmd [Cls.tag_TagCommandError, Cls.OSError] :=
  escapesOnly_of_checkOnly tree_ordered tagsOnlyIO_ok (by decide)

/-! ### format / protect / authenticate and the vendor specific commands (C16)

`Tag.format/protect/authenticate` dispatch to the `_format/_protect/_authenticate` of *any* tag class (the analysis
does not know which tag it is), so every entry lists the union: `TagCommandError` (any type), `ValueError`
(documented argument checks), `RuntimeError` (open finding of `transceive`; MAC mismatch of FeliCa Lite),
`AssertionError` (`assert isinstance` of the Type 1 memory reader).  No raw `CommunicationError`. -/

theorem tag_operations_escape : ∀ fa ∈ tagOpsOnly, Only fa.1 fa.2 := only_all tagOpsOnly_ok

end NfcVerif.ExcFlowProps
