import NfcVerif.Lemmas.DlcProgress
/-!
# C05 - LLCP connections deliver in order, exactly once, within the window

Statements only; proofs are in `Lemmas/Dlc.lean` (invariant `Dir` of one direction of
data flow, preserved by every atomic step) and `Lemmas/DlcLlc.lean`.

Model: `Model/Dlc.lean` - two endpoints with the state of `DataLinkConnection`
(`tco.py`), two FIFO wires, one step per critical section of the source; `run s ops`
executes any finite sequence `ops : List (Side × Op)` of steps of both sides, i.e.
every interleaving of application calls (`send recv busy poll close closeFin`) with
link activity (`deq ack dlv`).  `init c` is the state after a CONNECT/CC handshake
with parameters `c`; `c.ok` says RW is in 0..15 on both sides (0: the peer can never send) and each side sends
with the window and at most the MIU the other side announced.  MIU values are
arbitrary naturals.  `Model/DlcLlc.lean` composes the steps into `collect()`
(with and without aggregation) and `dispatch()`.

The theorems quantify over all step sequences; what they cannot exhibit is a
preemption *inside* one critical section (atomicity of a step rests on the
`with self.lock` regions of `tco.py`).

That the PDUs of a connection reach exactly its two endpoints when the service
access point holds further sockets (listening socket, other connections, stale
sockets of earlier connections from the same source address) is the subject of
`Props/C05Sap.lean`.
-/
namespace NfcVerif.C05
open NfcVerif NfcVerif.Dlc

/-- In order, exactly once, nothing invented - always, also after `close`, DISC, DM:
what the application of one side has received is a prefix of what the application
of the other side had accepted by `send`; both directions. -/
theorem dlc_prefix (c : Cfg) (hc : c.ok) (ops : List (Side × Op)) :
    (run (init c) ops).b.delivered <+: (run (init c) ops).a.accepted ∧
    (run (init c) ops).a.delivered <+: (run (init c) ops).b.accepted := by
  have h := reach_inv c hc ops
  obtain ⟨t1, c1, _⟩ := h.1.cons
  obtain ⟨t2, c2, _⟩ := h.2.cons
  constructor
  · rw [c1, List.append_assoc, List.append_assoc]; exact List.prefix_append _ _
  · rw [c2, List.append_assoc, List.append_assoc]; exact List.prefix_append _ _

/-- Nothing is lost while both ends are established: every accepted message is either
delivered, or waits in the peer's receive queue, or is on the wire, or is still in the
send queue - in this order; both directions. (`close()` discards the part that is
not yet delivered; by `dlc_prefix` nothing else.) -/
theorem dlc_conservation (c : Cfg) (hc : c.ok) (ops : List (Side × Op))
    (ha : (run (init c) ops).a.st = .established) (hb : (run (init c) ops).b.st = .established) :
    (run (init c) ops).a.accepted =
      (run (init c) ops).b.delivered ++ rqMsgs (run (init c) ops).b.rq ++
      (iPart (run (init c) ops).wab).map Prod.snd ++ (sqI (run (init c) ops).a.sq).map Prod.snd ∧
    (run (init c) ops).b.accepted =
      (run (init c) ops).a.delivered ++ rqMsgs (run (init c) ops).a.rq ++
      (iPart (run (init c) ops).wba).map Prod.snd ++ (sqI (run (init c) ops).b.sq).map Prod.snd := by
  have h := reach_inv c hc ops
  obtain ⟨t1, c1, d1⟩ := h.1.cons
  obtain ⟨t2, c2, d2⟩ := h.2.cons
  rw [if_pos hb] at c1
  rw [if_pos ha] at c2
  rw [d1 ha hb] at c1
  rw [d2 hb ha] at c2
  exact ⟨c1, c2⟩

/-- Window: `(V(S) - V(SA)) mod 16` is exactly the number of messages accepted and not yet
acknowledged, it never exceeds the receive window the peer announced, and the number of
messages accepted but not yet received by the peer *application* never exceeds it either. -/
theorem dlc_window (c : Cfg) (hc : c.ok) (ops : List (Side × Op)) :
    let s := run (init c) ops
    (((s.a.vs : Int) - s.a.vsa) % 16).toNat + s.a.gSA = s.a.accepted.length ∧
    ((s.a.vs : Int) - s.a.vsa) % 16 ≤ s.b.recvWin ∧
    s.a.accepted.length ≤ s.b.delivered.length + s.b.recvWin ∧
    (((s.b.vs : Int) - s.b.vsa) % 16).toNat + s.b.gSA = s.b.accepted.length ∧
    ((s.b.vs : Int) - s.b.vsa) % 16 ≤ s.a.recvWin ∧
    s.b.accepted.length ≤ s.a.delivered.length + s.a.recvWin := by
  intro s
  have h : Inv s := reach_inv c hc ops
  have hl : EpLen s.a ∧ EpLen s.b := reach_len c ops
  obtain ⟨w1, v1, va1, _, _, o1, _, _, _, _, _, _, _, _, f1⟩ := h.1
  obtain ⟨w2, v2, va2, _, _, o2, _, _, _, _, _, _, _, _, f2⟩ := h.2
  have la := hl.1.1
  have lb := hl.2.1
  have ra := hl.1.2 f2.2.2
  have rb := hl.2.2 f1.2.2
  rw [v1, va1, v2, va2]
  refine ⟨by omega, by omega, by omega, by omega, by omega, by omega⟩

/-- Sequence numbers stay consistent through the modulo-16 wrap: between two correct
endpoints no FRMR is ever generated, no I PDU is discarded for lack of queue space and
`recv()` never sees more unconfirmed messages than the window; the I PDU at the head of a
wire has `N(S) = V(R)`, fits the receiver's MIU and finds room in the receive queue. -/
theorem dlc_seq_consistent (c : Cfg) (hc : c.ok) (ops : List (Side × Op)) :
    let s := run (init c) ops
    (s.a.gFrmr = false ∧ s.a.gDiscard = false ∧ s.a.gOverrun = false) ∧
    (s.b.gFrmr = false ∧ s.b.gDiscard = false ∧ s.b.gOverrun = false) ∧
    (∀ ns nr d rest, s.wab = .i ns nr d :: rest → s.b.st = .established →
       ns = s.b.vr ∧ d.length ≤ s.b.recvMiu ∧ s.b.rq.length < s.b.recvWin) ∧
    (∀ ns nr d rest, s.wba = .i ns nr d :: rest → s.a.st = .established →
       ns = s.a.vr ∧ d.length ≤ s.a.recvMiu ∧ s.a.rq.length < s.a.recvWin) := by
  intro s
  have h : Inv s := reach_inv c hc ops
  refine ⟨h.2.flags, h.1.flags, ?_, ?_⟩
  · intro ns nr d rest hw hst
    obtain ⟨h1, h2, h3, _⟩ := h.1.enqI (wF' := rest) ns d hst (by rw [hw]; rfl)
    exact ⟨h2, h1, h3⟩
  · intro ns nr d rest hw hst
    obtain ⟨h1, h2, h3, _⟩ := h.2.enqI (wF' := rest) ns d hst (by rw [hw]; rfl)
    exact ⟨h2, h1, h3⟩

/-- `send` of a message longer than the connection MIU is refused with EMSGSIZE (errno 90)
and changes nothing - in every state of an established endpoint, on either side. -/
theorem dlc_emsgsize (s : Sys) (m : Bytes) :
    (s.a.st = .established → m.length > s.a.sendMiu → step s .A (.send m) = (s, .exc (.llcp 90))) ∧
    (s.b.st = .established → m.length > s.b.sendMiu → step s .B (.send m) = (s, .exc (.llcp 90))) := by
  constructor
  · intro hst h
    simp [step, stepA, Ep.send, hst, h]
  · intro hst h
    simp [step, stepA, Ep.send, Sys.swap, hst, h]

/-- Blocking `send()` is the non-blocking step retried after every wake-up (`send_token.wait()`
inside `while send_window_slots == 0`).  A thread that is woken while the window is still full - because
another thread took the slot first, or spuriously - does not send: the step changes nothing and reports
"would block", whatever the message.  Since `run` contains every such retry at every position, all
theorems above cover every wake-up order of any number of blocked senders; that the code re-checks the
window after each wake-up is what the schedule exploration of the harness ties to the real sockets. -/
theorem dlc_wakeup_rechecks (s : Sys) (m : Bytes) :
    (s.a.st = .established → s.a.sendSlots = 0 →
       (step s .A (.send m)).1 = s ∧
       ((step s .A (.send m)).2 = .exc (.llcp 11) ∨ (step s .A (.send m)).2 = .exc (.llcp 90))) ∧
    (s.b.st = .established → s.b.sendSlots = 0 →
       (step s .B (.send m)).1 = s ∧
       ((step s .B (.send m)).2 = .exc (.llcp 11) ∨ (step s .B (.send m)).2 = .exc (.llcp 90))) := by
  constructor
  · intro hst hw
    by_cases h : m.length > s.a.sendMiu <;> simp [step, stepA, Ep.send, hst, hw, h]
  · intro hst hw
    by_cases h : m.length > s.b.sendMiu <;> simp [step, stepA, Ep.send, Sys.swap, hst, hw, h]

/-- `close()` of an established connection always announces itself: whatever is unsent and whatever is unread,
the call waits for the DM (`pending`) with nothing but DISC in the send queue and an empty receive queue, and the
next `dequeue` (any budget >= 0) puts DISC on the wire - the peer is told.  (Repair fixes/C05/0002: before it,
unread data ended the wait at once and the DISC was dropped.) -/
theorem dlc_close_sends_disc (s : Sys) (b : Int) (hb : 0 ≤ b) (h1 : s.a.bound = true) (h2 : s.a.closing = false)
    (h3 : s.a.st = .established) :
    (step s .A .close).2 = .pending ∧ (step s .A .close).1.a.sq = [.disc] ∧ (step s .A .close).1.a.rq = [] ∧
    (step s .A .close).1.a.st = .disconnect ∧
    (step (step s .A .close).1 .A (.deq b)).2 = .pdu (some .disc) ∧
    (step (step s .A .close).1 .A (.deq b)).1.wab = s.wab ++ [.disc] := by
  have hc : s.a.close = ({ s.a with st := .disconnect, sq := [.disc], rq := [], closing := true }, .pending) := by
    unfold Ep.close
    rw [if_neg (by simp [h1, h2]), if_pos h3]
  have hd : ({ s.a with st := St.disconnect, sq := [Out.disc], rq := [], closing := true } : Ep).deq b =
      ({ s.a with st := St.disconnect, sq := [], rq := [], closing := true }, some .disc) := by
    unfold Ep.deq
    simp [Out.infoSize]
    omega
  simp [step, stepA, hc, hd]

/-- Frame boundaries do not matter: the state after `collect()` (any link MIU, aggregation on or
off) and after `dispatch()` of a frame is reached by atomic steps, hence satisfies everything above. -/
theorem dlc_collect_covered (s : Sys) (x : Side) (link : Nat) (agf : Bool) (fuel n : Nat) :
    (∃ ops, (collect s x link agf fuel).1 = run s ops) ∧
    deliverN s x n = run s (List.replicate n (x, .dlv)) :=
  ⟨collect_is_run s x link agf fuel, deliverN_is_run s x n⟩

/-- Progress (no stuck state): while both ends are established and some accepted message has
not yet been delivered - in either direction - some step other than `send` is enabled, i.e.
changes the state: `recv` at the peer, delivery of the PDU at the head of a wire, or `dequeue`
of the head of the send queue.  (Safety-style progress only: no fairness or termination claim.) -/
theorem dlc_no_stuck (c : Cfg) (hc : c.ok) (ops : List (Side × Op))
    (ha : (run (init c) ops).a.st = .established) (hb : (run (init c) ops).b.st = .established)
    (hne : (run (init c) ops).a.accepted ≠ (run (init c) ops).b.delivered ∨
           (run (init c) ops).b.accepted ≠ (run (init c) ops).a.delivered) :
    ∃ x op, (∀ m, op ≠ .send m) ∧ (step (run (init c) ops) x op).1 ≠ run (init c) ops := by
  rcases hne with hne | hne
  · exact no_stuck_ab _ (reach_inv c hc ops) ha hb hne
  · exact no_stuck_ba _ (reach_inv c hc ops) ha hb hne

/-! Non-vacuity: concrete histories. -/
def cfg23 : Cfg := ⟨128, 128, 3, 2, 128, 128, 2, 3⟩
example : cfg23.ok := by decide
/-- two messages A->B, delivered in order; the second `send` beyond the window (RW(B)=3, here the
fourth message) is refused with EWOULDBLOCK -/
example : (run (init cfg23) [(.A, .send [1]), (.A, .send [2]), (.A, .deq 128), (.A, .deq 128), (.B, .dlv), (.B, .dlv),
    (.B, .recv), (.B, .recv)]).b.delivered = [[1], [2]] := by decide
example : (step (run (init cfg23) [(.A, .send [1]), (.A, .send [2]), (.A, .send [3])]) .A (.send [4])).2
    = .exc (.llcp 11) := by decide
/-- a history with `close` on one side: the unsent message is discarded, DISC goes out, DM comes back -/
example : let s := run (init cfg23) [(.A, .send [1]), (.A, .close), (.A, .deq 128), (.B, .dlv), (.B, .deq 128), (.A, .dlv), (.A, .closeFin)]
    s.a.st = .shutdown ∧ s.b.st = .closeWait ∧ s.a.accepted = [[1]] ∧ s.b.delivered = [] := by decide
example : (step (init ⟨3, 3, 3, 2, 3, 3, 2, 3⟩) .A (.send [1, 2, 3, 4])).2 = .exc (.llcp 90) := by decide
/-- RW = 0 announced by B: A can never send, B (window 2) can -/
example : (⟨128, 128, 0, 2, 128, 128, 2, 0⟩ : Cfg).ok := by decide
example : (step (init ⟨128, 128, 0, 2, 128, 128, 2, 0⟩) .A (.send [1])).2 = .exc (.llcp 11) ∧
    (step (init ⟨128, 128, 0, 2, 128, 128, 2, 0⟩) .B (.send [1])).2 = .ok := by decide
/-- `close()` with an unread message: DISC goes out, the peer ends in CLOSE_WAIT -/
example : let s := run (init cfg23) [(.B, .send [1]), (.B, .deq 128), (.A, .dlv), (.A, .close), (.A, .deq 128), (.B, .dlv)]
    s.a.st = .disconnect ∧ s.a.closing = true ∧ s.b.st = .closeWait := by decide
/-- a woken sender with RW(B)=1 and one unacknowledged I PDU: window still full, nothing happens -/
example : let s := run (init ⟨128, 128, 1, 1, 128, 128, 1, 1⟩) [(.A, .send [1])]
    s.a.sendSlots = 0 ∧ (step s .A (.send [2])).1 = s := by decide

end NfcVerif.C05
