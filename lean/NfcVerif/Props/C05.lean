import NfcVerif.Model.DlcLlc
namespace NfcVerif.C05
open NfcVerif NfcVerif.Dlc

/-- `send` of a message longer than the connection MIU is refused with EMSGSIZE and changes nothing. -/
theorem dlc_emsgsize (e : Ep) (m : Bytes) (hst : e.st = .established) (h : m.length > e.sendMiu) :
    e.send m = (e, .exc (.llcp 90)) := by
  simp [Ep.send, hst, h]

end NfcVerif.C05
