import NfcVerif.Lemmas.Collect
/-!
# C10 - Nothing sent on an LLCP link exceeds the peer's announced MIU

Model: `Model/Collect.lean` (collect / dequeue / sendack of llc.py and tco.py at the level of
PDU sizes).  `EntsOk` says: no raw access point socket (excluded by the property), queued PDUs
have a header of at most 3 octets, PDUs in `send_list` / `dmpdu` are DM PDUs (3 octets).
-/
namespace NfcVerif.C10
open NfcVerif NfcVerif.Collect

/-- **Frame bound.** For every table of service access points with any queue contents (service
discovery answers and requests, DM PDUs, connection-less and connection-mode sockets with any
busy / acknowledgement state), every remote Link MIU (>= 3, in fact >= 128), any ICV size and
aggregation on or off: the frame returned by `collect()` has an information field of at most
the MIU. -/
theorem collect_frame_bound (es : List Ent) (M icv : Nat) (agf : Bool) (hes : EntsOk es) (hM : 3 ≤ M)
    (f : Frame) (es' : List Ent) (h : collect es M icv agf = (some f, es')) : f.info ≤ M :=
  collect_bound es M icv agf hes hM f es' h

/-- the first PDU of a frame fits the Link MIU -/
theorem collect_first_pdu_bound (es : List Ent) (M : Nat) (hes : EntsOk es) (hM : 3 ≤ M) (p : QPdu)
    (h : (firstDequeue (M : Int) (rawFirst es) es).1 = some p) : p.info ≤ M :=
  fit_info ((firstDequeue_spec (M : Int) (by omega) (rawFirst es) es hes).2 p h) hM

/-- whatever the aggregation loops and the voluntary acknowledgements append, the aggregate's
information field stays within the MIU (or nothing was appended) -/
theorem aggregate_bound (es : List Ent) (M icv : Nat) (p : QPdu) (hes : EntsOk es) (hp : p.info ≤ M)
    (f : Frame) (es' : List Ent) (h : aggregate es M icv p = (some f, es')) : f.info ≤ M :=
  aggregate_spec es M icv p hes hp f es' h

/-- batching of service discovery answers and requests respects the size it is given -/
theorem sd_dequeue_bound (s s' : Sd) (m : Int) (p : QPdu) (hs : ∀ p ∈ s.dmpdu, Small p) (hm : 0 ≤ m)
    (h : s.dequeue m = (some p, s')) : Fit p m :=
  (sd_dequeue hs hm h).2 p rfl

/-- a UI / I payload accepted by `sendto()` / `send()` is within the MIU it was checked against,
and the connection MIU used for I PDUs never exceeds the Link MIU -/
theorem ui_i_payload_bound (n miu peerMiu linkMiu : Nat) :
    (sendCheck n miu = .ok () → n ≤ miu) ∧ (sendCheck n miu ≠ .ok () → sendCheck n miu = .error (.llcp 90))
    ∧ clampSendMiu peerMiu linkMiu ≤ linkMiu := by
  unfold sendCheck clampSendMiu
  refine ⟨?_, ?_, ?_⟩
  · split <;> simp <;> omega
  · split <;> simp
  · split <;> omega

/-! Non-vacuity: concrete states, including the two shapes that overshot before the repairs -/
/-- 40 pending SDRES at MIU 130 (finding F7): now 32 answers = 128 octets -/
example : (collect [.sd ⟨List.replicate 40 0, [], []⟩] 130 0 true).1.map Frame.info = some 128 := by decide
/-- UI with 130 octets + pending DM at MIU 135 (finding F34): the DM now waits for the next frame -/
example : (collect [.sap ⟨[.ldl [⟨.ui, 2, 132, 1⟩]], [⟨.dm, 2, 3, 2⟩]⟩] 135 0 true).1.map Frame.info = some 130 := by decide
example : EntsOk [.sap ⟨[.ldl [⟨.ui, 2, 132, 1⟩]], [⟨.dm, 2, 3, 2⟩]⟩, .sd ⟨[1, 2], [(3, 20)], []⟩] := by
  intro e he; simp at he; rcases he with rfl | rfl <;> simp [EntOk, SockOk, POk, Small]
example : (collect [.sap ⟨[.ldl [⟨.ui, 2, 50, 1⟩, ⟨.ui, 2, 60, 2⟩]], []⟩,
                    .sap ⟨[.dlc true false false 1 1 0 1 [⟨.i, 3, 40, 3⟩]], [⟨.dm, 2, 3, 9⟩]⟩] 128 0 true).1.map Frame.info
    = some 124 := by decide

end NfcVerif.C10
