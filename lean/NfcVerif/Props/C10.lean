import NfcVerif.Lemmas.CollectOps
import NfcVerif.Lemmas.CollectPdu
/-!
# C10 - Nothing sent on an LLCP link exceeds the peer's announced MIU

Model: `Model/Collect.lean` (collect / dequeue / sendack / encrypt of llc.py and tco.py at the level of
PDU sizes, for every cipher `sec` that appends `icv_size` octets) and `Model/CollectOps.lean` (the socket
operations that fill the queues).  `EntsOk` says: no raw access point socket (excluded by the property),
queued PDUs have a header of at most 3 octets, PDUs in `send_list` / `dmpdu` are DM PDUs (3 octets).
-/
namespace NfcVerif.C10
open NfcVerif NfcVerif.Collect

/-- **Frame bound.** For every table of service access points with any queue contents (service
discovery answers and requests, DM PDUs, connection-less and connection-mode sockets with any
busy / acknowledgement state), every remote Link MIU (>= 3, in fact >= 128), secure data transfer off
or on with ANY ICV size, aggregation on or off: the frame returned by `collect()` has an information
field of at most the MIU; the one frame that carries more is a single (not aggregated) encrypted
UI / I PDU, by exactly its ICV (`Frame.slack`; llc.py dequeues the first PDU with `icv_size=0` on purpose). -/
theorem collect_frame_bound (es : List Ent) (M : Nat) (sec : Option Nat) (agf : Bool) (hes : EntsOk es) (hM : 3 ≤ M)
    (f : Frame) (es' : List Ent) (h : collect es M sec agf = (some f, es')) : f.info ≤ M + f.slack sec :=
  (collect_bound es M sec agf hes hM f es' h).2

/-- without secure data transfer no frame exceeds the MIU -/
theorem collect_frame_bound_nosec (es : List Ent) (M : Nat) (agf : Bool) (hes : EntsOk es) (hM : 3 ≤ M)
    (f : Frame) (es' : List Ent) (h : collect es M none agf = (some f, es')) : f.info ≤ M := by
  have := collect_frame_bound es M none agf hes hM f es' h
  cases f <;> simp [Frame.slack, icvOf] at this <;> exact this

/-- an aggregate never exceeds the MIU, whatever the ICV size: the ICV of every aggregated UI / I PDU is
inside the budget -/
theorem collect_agf_bound (es : List Ent) (M : Nat) (sec : Option Nat) (agf : Bool) (hes : EntsOk es) (hM : 3 ≤ M)
    (subs : List QPdu) (es' : List Ent) (h : collect es M sec agf = (some (.agf subs), es')) :
    agfLen subs - 2 ≤ M := by
  have := collect_frame_bound es M sec agf hes hM _ es' h
  simpa [Frame.slack, Frame.info] using this

/-- the first PDU of a frame fits the Link MIU (before `encrypt()`) -/
theorem collect_first_pdu_bound (es : List Ent) (M : Nat) (hes : EntsOk es) (hM : 3 ≤ M) (p : QPdu)
    (h : (firstDequeue (M : Int) (rawFirst es) es).1 = some p) : p.info ≤ M := by
  have h1 : p.info ≤ M + (Frame.single p).slack none :=
    first_info none ((firstDequeue_spec (M : Int) (by omega) (rawFirst es) es hes).2 p h) hM
  simp only [Frame.slack, icvOf] at h1
  split at h1 <;> omega

/-- whatever the aggregation loops and the voluntary acknowledgements append, the aggregate's
information field stays within the MIU (or nothing was appended) -/
theorem aggregate_bound (es : List Ent) (M : Nat) (sec : Option Nat) (p : QPdu) (hes : EntsOk es)
    (f : Frame) (es' : List Ent) (h : aggregate es M sec p = (some f, es')) :
    f = .single p ∨ ∃ subs, f = .agf subs ∧ agfLen subs - 2 ≤ M :=
  (aggregate_spec es M sec p hes f es' h).2

/-- batching of service discovery answers and requests respects the size it is given -/
theorem sd_dequeue_bound (s s' : Sd) (m : Int) (p : QPdu) (hs : ∀ p ∈ s.dmpdu, Small p) (hm : 0 ≤ m)
    (h : s.dequeue m = (some p, s')) : Fit p m := by
  have := (sd_dequeue 0 hs hm h).2 p rfl
  exact fitE_encrypt (sec := none) this

/-- a UI / I payload accepted by `sendto()` / `send()` is within the MIU it was checked against,
and the connection MIU used for I PDUs never exceeds the Link MIU -/
theorem ui_i_payload_bound (n miu peerMiu linkMiu : Nat) :
    (sendCheck n miu = .ok () → n ≤ miu) ∧ (sendCheck n miu ≠ .ok () → sendCheck n miu = .error (.llcp 90))
    ∧ clampSendMiu peerMiu linkMiu ≤ linkMiu := by
  unfold sendCheck clampSendMiu
  refine ⟨?_, ?_, ?_⟩
  · split <;> simp <;> omega
  · split <;> simp
  · split <;> omega

/-- **`collect()` neither invents nor alters PDUs** (raw access point sockets included): for predicates
`P`, `Q` with `P` on everything queued and on the generated RR / RNR / SNL PDUs, `Q` on RR / RNR, and
`encrypt()` taking `P` to `Q` - every PDU of the returned frame satisfies `Q`, everything left in the
queues satisfies `P`; a predicate `R` on the connection state variables that survives the updates of
`dequeue()` / `sendack()` is kept. -/
theorem collect_preserves {P Q : QPdu → Prop} {R : Dlc → Prop} {sec : Option Nat} (g : Gen P Q R sec)
    (es : List Ent) (M : Nat) (agf : Bool) (hes : EntsAll P R es) (fo : Option Frame) (es' : List Ent)
    (h : collect es M sec agf = (fo, es')) : EntsAll P R es' ∧ ∀ f, fo = some f → ∀ p ∈ f.pdus, Q p :=
  collect_all g es M agf hes fo es' h

/-- every UI / I PDU of a transmitted frame was encrypted exactly once (its ICV is `icv_size`, its payload
is the queued payload, within the MIU it was accepted under), every other PDU not at all -/
theorem collect_encrypts_once (es : List Ent) (M : Nat) (sec : Option Nat) (agf : Bool)
    (hes : EntsAll (Plain M) (DlcOk M) es) (f : Frame) (es' : List Ent) (h : collect es M sec agf = (some f, es')) :
    ∀ p ∈ f.pdus, (p.isData → p.icv = icvOf sec ∧ p.payload ≤ p.lim ∧ p.lim ≤ M) ∧ (¬ p.isData → p.icv = 0) :=
  fun p hp => ((collect_all (gen_plain_sent M sec) es M agf hes _ es' h).2 f rfl p hp).2

/-- **Histories.** Whatever sequence of socket operations fills the queues - `sendto()` on logical data
link sockets, `send()` on data link connections (with the EMSGSIZE / ENOTCONN / EWOULDBLOCK refusals),
`connect()` / `accept()` with any announced connection MIU, pending service discovery requests and
answers, DM PDUs, arbitrary changes of the receive / send state variables by the peer - interleaved with
`collect()` in any way, starting from any state that satisfies the invariant (e.g. empty queues): every
frame transmitted during the history is within the Link MIU (`FrameOk`: the bound of
`collect_frame_bound`, every UI / I PDU with exactly one ICV and a payload within the connection / link
MIU it was accepted under, which is within the Link MIU), and the invariant holds afterwards. -/
theorem history_frames_ok (M : Nat) (sec : Option Nat) (agf : Bool) (hM : 3 ≤ M) (ops : List Op) (es : List Ent)
    (h : HistOk M es) :
    HistOk M (run M sec agf ops es).2 ∧ ∀ f ∈ frames (run M sec agf ops es).1, FrameOk M sec f :=
  run_ok M sec agf hM ops es h

/-- `llc.sendto()` on a logical data link socket accepts exactly the messages within the Link MIU -/
theorem sendto_ok_iff (M : Nat) (sec : Option Nat) (agf : Bool) (es : List Ent) (a j n id sm : Nat) (q : List QPdu)
    (hg : getSock es a j = some (.ldl sm q)) :
    ((step M sec agf es (.sendto a j n id)).2 = .ok ↔ n ≤ M) ∧
    (n > M → (step M sec agf es (.sendto a j n id)).2 = .exc (.llcp 90)) := by
  simp only [step, hg]
  constructor
  · constructor
    · intro h; split at h
      · cases h
      · omega
    · intro h; rw [if_neg (by omega)]
  · intro h; rw [if_pos h]

/-- `llc.send()` on a data link connection accepts a message only if the connection is established and
the message is within the connection MIU; a longer message gets EMSGSIZE -/
theorem send_ok_only_if (M : Nat) (sec : Option Nat) (agf : Bool) (es : List Ent) (a j n id : Nat) (d : Dlc)
    (q : List QPdu) (hg : getSock es a j = some (.dlc d q)) :
    ((step M sec agf es (.send a j n id)).2 = .ok → d.state = .established ∧ n ≤ d.sendMiu ∧ sendSlots d ≠ 0) ∧
    (d.state = .established → n > d.sendMiu → (step M sec agf es (.send a j n id)).2 = .exc (.llcp 90)) := by
  simp only [step, hg]
  constructor
  · intro h
    split at h
    · cases h
    · rename_i hs
      split at h
      · cases h
      · split at h
        · cases h
        · exact ⟨by cases hd : d.state <;> simp_all, by omega, by assumption⟩
  · intro h1 h2
    rw [if_neg (by simp [h1]), if_pos h2]

/-- the `while miu_size >= 0` loop of `collect()` terminates: the bound on the number of passes that the
model uses (`sendMiu + 1`) is never reached - any larger bound gives the same result -/
theorem collect_aggregation_terminates (M : Nat) (sec : Option Nat) (es : List Ent) (subs : List QPdu) (k : Nat) :
    aggLoop M sec (M + 1 + k) es subs = aggLoop M sec (M + 1) es subs :=
  aggLoop_fuel_enough M sec es subs k

/-- **Aggregation is transparent** (byte level, model `Model/Pdu.lean` of property C11): an aggregate of
valid PDUs within a MIU encodes to exactly the `agfLen` octets the collect model budgets with - so
`collect_frame_bound` speaks about the transmitted octets - and the receiver decodes exactly the collected
PDUs, in the same order (`dispatch()` hands `for p in rcvd_pdu` to the service access points). -/
theorem aggregation_transparent (items : List Pdu.SPdu) (M : Nat) (hv : ∀ p ∈ items, Pdu.ValidS p)
    (hM : (Frame.agf (items.map sizeOf)).info ≤ M) (h16 : M ≤ 65535) :
    ∃ b, Pdu.Impl.encode (.agf 0 0 items) = .ok b ∧ b.length - 2 = (Frame.agf (items.map sizeOf)).info ∧
      Pdu.Impl.decode b = .ok (.agf 0 0 items) := by
  obtain ⟨b, he, hl, hd⟩ := agf_roundtrip items M hv hM h16
  exact ⟨b, he, by rw [hl]; rfl, hd⟩

/-- `len()` of the byte-level aggregate is the `agfLen` of the size-level model -/
theorem agf_size_bridge (items : List Pdu.SPdu) : Pdu.Impl.len (.agf 0 0 items) = agfLen (items.map sizeOf) :=
  agfLen_sizeOf items

/-! Non-vacuity: concrete states, including the two shapes that overshot before the repairs -/
def dlc0 : Dlc := ⟨.established, false, false, 1, 1, 0, 1, 128, 1, 0, 0⟩
/-- a connection with nothing to acknowledge -/
def dlc1 : Dlc := ⟨.established, false, false, 1, 0, 0, 0, 128, 1, 0, 0⟩
/-- 40 pending SDRES at MIU 130 (finding F7): now 32 answers = 128 octets -/
example : (collect [.sd ⟨List.replicate 40 0, [], []⟩] 130 none true).1.map Frame.info = some 128 := by decide
/-- UI with 130 octets + pending DM at MIU 135 (finding F34): the DM now waits for the next frame -/
example : (collect [.sap ⟨[.ldl 135 [⟨.ui, 2, 132, 1, 0, 135⟩]], [⟨.dm, 2, 3, 2, 0, 0⟩]⟩] 135 none true).1.map Frame.info
    = some 130 := by decide
example : EntsOk [.sap ⟨[.ldl 135 [⟨.ui, 2, 132, 1, 0, 135⟩]], [⟨.dm, 2, 3, 2, 0, 0⟩]⟩, .sd ⟨[1, 2], [(3, 20)], []⟩] := by
  intro e he; simp at he; rcases he with rfl | rfl <;> simp [EntOk, SockOk, POk, Small, QPdu.isData]
example : (collect [.sap ⟨[.ldl 128 [⟨.ui, 2, 50, 1, 0, 128⟩, ⟨.ui, 2, 60, 2, 0, 128⟩]], []⟩,
                    .sap ⟨[.dlc dlc0 [⟨.i, 3, 40, 3, 0, 128⟩]], [⟨.dm, 2, 3, 9, 0, 0⟩]⟩] 128 none true).1.map Frame.info
    = some 124 := by decide
/-- secure data transfer (ICV 4), MIU 128: a 10 octet UI, then an I PDU with 101 octets (the largest that
still fits: 2 + (2+2+10+4) + (2+3+101+4) = 130 = 128 + 2) is aggregated, ... -/
example : (collect [.sap ⟨[.ldl 128 [⟨.ui, 2, 12, 1, 0, 128⟩]], []⟩,
                    .sap ⟨[.dlc dlc1 [⟨.i, 3, 104, 3, 0, 128⟩]], []⟩] 128 (some 4) true).1.map Frame.info
    = some 128 := by decide
/-- ... one octet more is left for the next frame (the mutation that forgets `icv_size` in
`DataLinkConnection.dequeue` would aggregate it: 129 > 128) -/
example : (collect [.sap ⟨[.ldl 128 [⟨.ui, 2, 12, 1, 0, 128⟩]], []⟩,
                    .sap ⟨[.dlc dlc1 [⟨.i, 3, 105, 3, 0, 128⟩]], []⟩] 128 (some 4) true).1.map Frame.info
    = some 14 := by decide
/-- the slack is attained: a single encrypted UI PDU with a payload of MIU octets carries MIU + 4 -/
example : (collect [.sap ⟨[.ldl 128 [⟨.ui, 2, 130, 1, 0, 128⟩]], []⟩] 128 (some 4) true).1.map Frame.info
    = some 132 := by decide
/-- a history: sendto 128 octets accepted, 129 refused (EMSGSIZE), send on the connection, collect -/
example : (run 128 (some 4) true [.sendto 0 0 128 1, .sendto 0 0 129 2, .send 1 0 100 3, .send 1 0 129 4, .collect, .collect]
            [.sap ⟨[.ldl 128 []], []⟩, .sap ⟨[.dlc dlc0 []], []⟩]).1.length = 6 := by decide
example : ∃ b, Pdu.Impl.encode (.agf 0 0 [.ui 16 32 [1, 2, 3], .rr 17 33 1]) = .ok b ∧ b.length - 2 = 12 :=
  ⟨_, rfl, rfl⟩
example : ∀ p ∈ [Pdu.SPdu.ui 16 32 [1, 2, 3], Pdu.SPdu.rr 17 33 1], Pdu.ValidS p := by
  intro p hp; simp at hp; rcases hp with rfl | rfl <;> simp [Pdu.ValidS]
example : (Frame.agf ([Pdu.SPdu.ui 16 32 [1, 2, 3], Pdu.SPdu.rr 17 33 1].map sizeOf)).info ≤ 128 := by decide
/-- the predicates of `collect_encrypts_once` satisfy the hypotheses of `collect_preserves` -/
example : Gen (Plain 128) (Sent 128 (some 4)) (DlcOk 128) (some 4) := gen_plain_sent 128 (some 4)
example : HistOk 128 [.sap ⟨[.ldl 128 []], []⟩, .sap ⟨[.dlc dlc0 []], []⟩, .sd ⟨[], [], []⟩] := by
  constructor
  · intro e he; simp at he; rcases he with rfl | rfl | rfl <;> simp [EntOk, SockOk]
  · intro e he; simp at he; rcases he with rfl | rfl | rfl <;> simp [EntAll, SockAll, DlcOk, dlc0]

end NfcVerif.C10
