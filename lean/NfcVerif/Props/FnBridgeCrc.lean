import NfcVerif.Lemmas.FnBridgeCrc
import NfcVerif.Lemmas.Crc
/-!
# Bridge theorems, group Crc (`nfc/clf/device.py` -> `Gen/FnCrc.lean` -> `Model/Crc.lean`, property C14)

`Gen/FnCrc.lean` is regenerated from the source by `harness/translate_fn.py` on every run; each
theorem states, for ALL inputs, that the regenerated definition equals the model function the C14
theorems are about.  Encoding (stated in the theorems): a register `r : BitVec 16` is the Python
int `r.toNat`; an octet string `d : List (BitVec 8)` is the byte string `enc d = d.map BitVec.toNat`
(every byte string is of that form: `enc_dec`, restated as the `_bytes` corollaries).
-/
namespace NfcVerif.FnBridge.Crc
open NfcVerif NfcVerif.PyFn NfcVerif.Crc

/-- `calculate_crc(data, size, reg)` is `crcOf` on the first `size` octets (Python slice clamping),
for every octet string, every `size` (also negative) and every 16-bit register value -/
theorem calculate_crc_bridge (d : List (BitVec 8)) (size : Int) (r : BitVec 16) :
    Gen.Fn.calculate_crc (enc d) size (r.toNat : Int)
      = ((crcOf r (d.take (clampBound d.length size))).toNat : Int) := by
  unfold Gen.Fn.calculate_crc crcOf
  have hs : PyFn.sliceTo (enc d) size = enc (d.take (clampBound d.length size)) := by
    unfold PyFn.sliceTo; rw [enc_take, enc_length]
  rw [hs]
  apply foldl_enc
  intro r o
  have e1 : (1 : Int) = ((1 : Nat) : Int) := rfl
  have e2 : (33800 : Int) = ((33800 : Nat) : Int) := rfl
  rw [range8_cast]
  show List.foldl _ _ _ = _
  rw [foldl_bits _ o.toNat, byteStep_toNat]
  intro reg p
  simp only [e1, e2, shr_ofNat, band_ofNat, bxor_ofNat, bit_eq, natBitStep]
  split <;> simp_all

example : Gen.Fn.calculate_crc [0x12, 0x34] 2 0x6363 = ((crcOf 0x6363#16 [0x12#8, 0x34#8]).toNat : Int) := by
  decide +kernel

/-- whole message: `calculate_crc(data, len(data), reg)` -/
theorem calculate_crc_full (d : List (BitVec 8)) (r : BitVec 16) :
    Gen.Fn.calculate_crc (enc d) (PyFn.len (enc d)) (r.toNat : Int) = ((crcOf r d).toNat : Int) := by
  rw [calculate_crc_bridge, len_eq, enc_length, clampBound_ofNat, Nat.min_self, List.take_length]

/-- message without its last two octets: `calculate_crc(data, len(data)-2, reg)`
(for fewer than two octets the slice `data[:len(data)-2]` is empty) -/
theorem calculate_crc_body (d : List (BitVec 8)) (r : BitVec 16) :
    Gen.Fn.calculate_crc (enc d) (PyFn.len (enc d) - 2) (r.toNat : Int)
      = ((crcOf r (d.take (d.length - 2))).toNat : Int) := by
  have e : clampBound d.length (PyFn.len (enc d) - 2) = d.length - 2 := by
    rw [len_eq, enc_length]; unfold clampBound
    by_cases h : ((d.length : Int) - 2 < 0)
    · simp only [h, if_true]; split
      · omega
      · split <;> omega
    · simp only [h, if_false]; split <;> omega
  rw [calculate_crc_bridge, e]

/-- `Device.add_crc_a` never raises and appends the two octets `addCrcA` appends -/
theorem add_crc_a_bridge (d : List (BitVec 8)) : Gen.Fn.add_crc_a (enc d) = .ok (enc (addCrcA d)) := by
  unfold Gen.Fn.add_crc_a addCrcA
  have h := calculate_crc_full d 0x6363#16
  simp only [show ((0x6363#16 : BitVec 16).toNat : Int) = 25443 from rfl] at h
  simp only [h]
  generalize crcOf 0x6363#16 d = c
  have e1 : (255 : Int) = ((255 : Nat) : Int) := rfl
  have e2 : (8 : Int) = ((8 : Nat) : Int) := rfl
  have hlo : c.toNat &&& 255 < 256 := by rw [← lo_toNat]; exact (lo c).isLt
  have hhi : c.toNat >>> 8 < 256 := by rw [← hi_toNat]; exact (hi c).isLt
  simp only [e1, e2, band_ofNat, shr_ofNat, mkBytes_two _ _ hlo hhi, Py.bind_ok]
  rw [enc_append]; simp [enc, lo_toNat, hi_toNat]

example : Gen.Fn.add_crc_a [0x26] = .ok (enc (addCrcA [0x26#8])) := by decide +kernel

/-- `Device.add_crc_b` -/
theorem add_crc_b_bridge (d : List (BitVec 8)) : Gen.Fn.add_crc_b (enc d) = .ok (enc (addCrcB d)) := by
  unfold Gen.Fn.add_crc_b addCrcB
  have h := calculate_crc_full d 0xFFFF#16
  simp only [show ((0xFFFF#16 : BitVec 16).toNat : Int) = 65535 from rfl] at h
  simp only [h]
  generalize crcOf 0xFFFF#16 d = c
  have e0 : (65535 : Int) = ((2 ^ 16 - 1 : Nat) : Int) := rfl
  have e1 : (255 : Int) = ((255 : Nat) : Int) := rfl
  have e2 : (8 : Int) = ((8 : Nat) : Int) := rfl
  have hn : (2 ^ 16 - 1 - c.toNat % 2 ^ 16 : Nat) = (~~~ c).toNat := by rw [not_toNat]
  simp only [e0, band_bnot_mask, hn]
  generalize ~~~ c = c'
  have hlo : c'.toNat &&& 255 < 256 := by rw [← lo_toNat]; exact (lo c').isLt
  have hhi : c'.toNat >>> 8 < 256 := by rw [← hi_toNat]; exact (hi c').isLt
  simp only [e1, e2, band_ofNat, shr_ofNat, mkBytes_two _ _ hlo hhi, Py.bind_ok]
  rw [enc_append]; simp [enc, lo_toNat, hi_toNat]

example : Gen.Fn.add_crc_b [0x05, 0x00] = .ok (enc (addCrcB [0x05#8, 0x00#8])) := by decide +kernel

/-- `Device.check_crc_a`: `IndexError` below two octets, else the comparison of the last two octets
with the CRC of the rest -/
theorem check_crc_a_bridge (d : List (BitVec 8)) : Gen.Fn.check_crc_a (enc d) = checkCrcA d := by
  unfold Gen.Fn.check_crc_a checkCrcA
  have hb := calculate_crc_body d 0x6363#16
  simp only [show ((0x6363#16 : BitVec 16).toNat : Int) = 25443 from rfl] at hb
  simp only [hb]
  rw [check_common d _ _ rfl]; rfl

example : Gen.Fn.check_crc_a (enc [0x26#8]) = .error .index := by decide +kernel
example : Gen.Fn.check_crc_a (enc (addCrcA [0x26#8, 0x01#8])) = .ok true := by decide +kernel

/-- `Device.check_crc_b` -/
theorem check_crc_b_bridge (d : List (BitVec 8)) : Gen.Fn.check_crc_b (enc d) = checkCrcB d := by
  unfold Gen.Fn.check_crc_b checkCrcB
  have hb := calculate_crc_body d 0xFFFF#16
  simp only [show ((0xFFFF#16 : BitVec 16).toNat : Int) = 65535 from rfl] at hb
  simp only [hb]
  have e0 : (65535 : Int) = ((2 ^ 16 - 1 : Nat) : Int) := rfl
  have hn : ∀ c : BitVec 16, (2 ^ 16 - 1 - c.toNat % 2 ^ 16 : Nat) = (~~~ c).toNat := fun c => by rw [not_toNat]
  simp only [e0, band_bnot_mask, hn]
  rw [check_common d _ _ rfl]; rfl

example : Gen.Fn.check_crc_b (enc (addCrcB [0x05#8, 0x00#8])) = .ok true := by decide +kernel

/-! ## the same statements for plain byte strings (`IsBytes data`) -/

theorem add_crc_a_bytes (data : Bytes) (h : IsBytes data) :
    Gen.Fn.add_crc_a data = .ok (enc (addCrcA (dec data))) := by
  have := add_crc_a_bridge (dec data); rwa [enc_dec data h] at this
theorem add_crc_b_bytes (data : Bytes) (h : IsBytes data) :
    Gen.Fn.add_crc_b data = .ok (enc (addCrcB (dec data))) := by
  have := add_crc_b_bridge (dec data); rwa [enc_dec data h] at this
theorem check_crc_a_bytes (data : Bytes) (h : IsBytes data) : Gen.Fn.check_crc_a data = checkCrcA (dec data) := by
  have := check_crc_a_bridge (dec data); rwa [enc_dec data h] at this
theorem check_crc_b_bytes (data : Bytes) (h : IsBytes data) : Gen.Fn.check_crc_b data = checkCrcB (dec data) := by
  have := check_crc_b_bridge (dec data); rwa [enc_dec data h] at this

example : IsBytes [0x26, 0x01] := by decide

/-! ## the C14 theorems restated for the regenerated functions -/

/-- `C14.crc_impl_eq_iso` for the source: the regenerated bit loop computes the ISO/IEC 14443-3 Annex B CRC -/
theorem gen_calculate_crc_eq_iso (d : List (BitVec 8)) (r : BitVec 16) :
    Gen.Fn.calculate_crc (enc d) (PyFn.len (enc d)) (r.toNat : Int) = ((isoCrcOf r d).toNat : Int) := by
  rw [calculate_crc_full, crcOf_eq_iso]

/-- `C14.crc_a_eq_iso` / `crc_b_eq_iso` -/
theorem gen_add_crc_eq_iso (d : List (BitVec 8)) :
    Gen.Fn.add_crc_a (enc d) = .ok (enc (d ++ [lo (isoCrcA d), hi (isoCrcA d)]))
    ∧ Gen.Fn.add_crc_b (enc d) = .ok (enc (d ++ [lo (isoCrcB d), hi (isoCrcB d)])) := by
  rw [add_crc_a_bridge, add_crc_b_bridge]
  simp [addCrcA, addCrcB, isoCrcA, isoCrcB, crcOf_eq_iso]

/-- `C14.crc_check_add`: what the regenerated `add_crc_x` appends is accepted by the regenerated check -/
theorem gen_check_add (d : List (BitVec 8)) :
    (Gen.Fn.add_crc_a (enc d) >>= Gen.Fn.check_crc_a) = .ok true
    ∧ (Gen.Fn.add_crc_b (enc d) >>= Gen.Fn.check_crc_b) = .ok true := by
  rw [add_crc_a_bridge, add_crc_b_bridge]
  simp only [Py.bind_ok, check_crc_a_bridge, check_crc_b_bridge]
  simp [checkCrcA, addCrcA, checkCrcB, addCrcB]

/-- `C14.crc_detects_single_bit` -/
theorem gen_detects_single_bit (d : List (BitVec 8)) (i : Nat) (b : Fin 8) (h : i < d.length + 2) :
    Gen.Fn.check_crc_a (enc (flipBit (addCrcA d) i b)) = .ok false
    ∧ Gen.Fn.check_crc_b (enc (flipBit (addCrcB d) i b)) = .ok false := by
  rw [check_crc_a_bridge, check_crc_b_bridge]
  exact ⟨checkA_flip d i b h, checkB_flip d i b h⟩

end NfcVerif.FnBridge.Crc
