import NfcVerif.Gen.FnDepMore
import NfcVerif.Model.FnDepMoreRef
import NfcVerif.Props.FnBridgeDepSm
/-!
# Bridge theorems, group DepMore (`nfc/dep.py`: statement RANGES of activate / exchange / deactivate between the cuts of
the groups Dep, DepPdu, DepSm -> `Gen/FnDepMore.lean` -> `Model/FnDepMoreRef.lean`, `Model/NfcDep.lean`)

Properties C04 (payload limits, first request, retransmission), C07 (timeout extension PDU validated before use),
C09 (deactivation deadline), C19 (send limit from the peer's announcement).  The cuts are listed in
`harness/fnspecs/depmore.py` and in the doc comments of `Gen/FnDepMore.lean`.

* `ini_act_tail_bridge`, `tgt_act_held_bridge`: the stored information unit sizes are `DepMoreRef.iniMiu` of the TARGET's
  `atr_res.lr` / `DepMoreRef.tgtMiu` of the INITIATOR's `atr_req.lr`; `gen_ini_miu_peer_lr`, `gen_tgt_miu_peer_lr`: the own
  LR, the FSL of the PSL_REQ and the DID of the ATR_RES have no influence; `gen_ini_frame_fits`, `gen_tgt_frame_fits`: a chunk
  within the limit gives a frame the peer announced it can take; `ini_act_tail_c04`: it is `NfcDep.iMiu` of the C04 model;
* `rtox_step_bridge`, `rtox_order_bridge`: both copies of the timeout extension turn are `DepMoreRef.rtoxTurn` - validate,
  then use - for any validating builder; `gen_rtox_step_safe`: with the regenerated RTOX builder nothing but ProtocolError;
  `gen_rtox_validated_first`: an accepted turn read an octet in 1..59;
* `ini_send_tail_bridge`, `ini_recv_tail_bridge`, `ini_send_final_bridge`, `tgt_send_tail_bridge`: the order of the checks and
  of the packet number increment behind the blocking calls;
* `tgt_first_call_bridge`, `tgt_first_block_bridge`, `gen_first_call_filtered`: the first request passes the filter;
* `tgt_retrans_test_bridge`, `gen_retrans_any_type`: equal packet number = repetition, whatever the PDU type;
* `tgt_deact_*_bridge`, `gen_deact_deadline_fixed`, `gen_deact_bounded`: one deadline, never renewed.
-/
set_option linter.unusedVariables false
namespace NfcVerif.FnBridge.DepMore
open NfcVerif NfcVerif.PyFn NfcVerif.DepMoreRef NfcVerif.FnBridge.DepPdu NfcVerif.FnBridge.DepSm

abbrev mk6 (a : Bytes) (b c d e : Int) (f : Bytes) : Bytes × Int × Int × Int × Int × Bytes := (a, b, c, d, e, f)
abbrev mk7 (a : Bytes) (b c d e f : Int) (g : Bytes) : Bytes × Int × Int × Int × Int × Int × Bytes := (a, b, c, d, e, f, g)

/-! ## `Initiator.activate` -/

/-- the statements behind the PSL exchange: `miu` is the reference `iniMiu` of `atr_res.lr` (LRt), whatever `atr_req.lr`,
`psl_req.lr` and `atr_res.did` are; `gbt = atr_res.gb`, `pni = 0` -/
theorem ini_act_tail_bridge (did nad : Option Int) (lrRes lrReq lrPsl didRes : Int) (gb : Bytes) :
    Gen.Fn.dm_ini_act_tail did nad lrRes lrReq lrPsl didRes gb = (iniMiu lrRes did nad, gb, 0) := by
  unfold Gen.Fn.dm_ini_act_tail iniMiu bit
  cases did <;> cases nad <;> simp

/-- C19 / C04: the Initiator's send limit depends on the TARGET's announced LR only -/
theorem gen_ini_miu_peer_lr (did nad : Option Int) (lrRes lrReq lrPsl didRes lrReq' lrPsl' didRes' : Int) (gb gb' : Bytes) :
    (Gen.Fn.dm_ini_act_tail did nad lrRes lrReq lrPsl didRes gb).1
      = (Gen.Fn.dm_ini_act_tail did nad lrRes lrReq' lrPsl' didRes' gb').1 := by
  rw [ini_act_tail_bridge, ini_act_tail_bridge]

/-- C19: a chunk of at most `self.miu` octets gives an information DEP_REQ of at most LRt transport octets -/
theorem gen_ini_frame_fits (did nad : Option Int) (lrRes lrReq lrPsl didRes n : Int) (gb : Bytes)
    (h : n ≤ (Gen.Fn.dm_ini_act_tail did nad lrRes lrReq lrPsl didRes gb).1) : iniFrameLen did nad n ≤ lrRes := by
  rw [ini_act_tail_bridge] at h
  exact iniMiu_fits lrRes did nad n h

/-- the same value as the statement cut of group DepPdu, hence `NfcDep.iMiu` of the C04 model -/
theorem ini_act_tail_c04 (lrt : Nat) (did nad : Option Nat) (lrReq lrPsl didRes : Int) (gb : Bytes) :
    (Gen.Fn.dm_ini_act_tail (did.map (fun (d : Nat) => (d : Int))) (nad.map (fun (d : Nat) => (d : Int)))
        ((NfcDep.lrTable lrt : Nat) : Int) lrReq lrPsl didRes gb).1 = ((NfcDep.iMiu lrt did nad : Nat) : Int) := by
  rw [← ini_miu_c04]
  rfl

example : Gen.Fn.dm_ini_act_tail (some 1) none 64 254 254 0 [0x46] = (60, [0x46], 0) := by decide +kernel

/-- the ATR_REQ is built from 10 random octets, DID, BS = BR = 0, PP and the general bytes, in this order -/
theorem ini_atr_req_call_bridge (did ppi : Int) (gbi : Bytes) (urandom : Int → Bytes)
    (mk : Bytes → Int → Int → Int → Int → Bytes → (Bytes × Int × Int × Int × Int × Bytes)) :
    Gen.Fn.dm_ini_atr_req_call did ppi gbi mk urandom = mk (urandom 10) did 0 0 ppi gbi
    ∧ Gen.Fn.dm_ini_atr_req_call did ppi gbi mk6 urandom = atrReqArgs (urandom 10) did ppi gbi :=
  ⟨rfl, rfl⟩

example : Gen.Fn.dm_ini_atr_req_call 1 0x32 [7] mk6 (fun n => List.replicate n.toNat 9)
    = (List.replicate 10 9, 1, 0, 0, 0x32, [7]) := by decide +kernel

/-! ## `Initiator.exchange`: the timeout extension turn -/

theorem turn_eq {α} (x : Py α) (data : Bytes) (srwt : Int) :
    (x >>= fun t1 => getB data 0 >>= fun t2 => Except.ok (t1, t2 * srwt)) = rtoxTurn (fun _ => x) data srwt := by
  unfold rtoxTurn
  cases x with
  | error e => rfl
  | ok r =>
    cases data with
    | nil => simp [getB_nil]
    | cons v t => simp [getB_zero]

/-- both copies (send loop, receive loop): the request is built by the validating builder `mk` first, then
`res.data[0]` is read - for every builder -/
theorem rtox_step_bridge (data : Bytes) (srwt : Int) (did nad : Option Int) (mk : Bytes → Option Int → Option Int → Py Rec) :
    Gen.Fn.dm_ini_rtox_step_s data srwt did nad mk = rtoxTurn (fun d => mk d did nad) data srwt
    ∧ Gen.Fn.dm_ini_rtox_step_r data srwt did nad mk = rtoxTurn (fun d => mk d did nad) data srwt := by
  have e := turn_eq (mk data did nad) data srwt
  have e' : rtoxTurn (fun _ => mk data did nad) data srwt = rtoxTurn (fun d => mk d did nad) data srwt := rfl
  exact ⟨e.trans e', e.trans e'⟩

/-- the variant with int tokens for the PDU objects (the one the differential self-test runs) -/
theorem rtox_order_bridge (data : Bytes) (srwt : Int) (did nad : Option Int) (mk : Bytes → Option Int → Option Int → Py Int) :
    Gen.Fn.dm_ini_rtox_order_s data srwt did nad mk = rtoxTurn (fun d => mk d did nad) data srwt
    ∧ Gen.Fn.dm_ini_rtox_order_r data srwt did nad mk = rtoxTurn (fun d => mk d did nad) data srwt := by
  have e := turn_eq (mk data did nad) data srwt
  have e' : rtoxTurn (fun _ => mk data did nad) data srwt = rtoxTurn (fun d => mk d did nad) data srwt := rfl
  exact ⟨e.trans e', e.trans e'⟩

theorem smi_rtox_ok_nonempty (did nad : Option Nat) (d : Bytes) (r : Rec) (h : Gen.Fn.smi_rtox d (oi did) (oi nad) = .ok r) :
    d ≠ [] := by
  rw [rtox_bridge] at h
  cases d with
  | nil => cases h
  | cons v t => simp

/-- C07: whatever the Target puts into a timeout extension PDU (also NO octet), a turn of either loop raises nothing but
ProtocolError - in particular no IndexError from `res.data[0]` -/
theorem gen_rtox_step_safe (data : Bytes) (srwt : Int) (did nad : Option Nat) :
    Safe (fun e => e = .protocol) (Gen.Fn.dm_ini_rtox_step_s data srwt (oi did) (oi nad) Gen.Fn.smi_rtox)
    ∧ Safe (fun e => e = .protocol) (Gen.Fn.dm_ini_rtox_step_r data srwt (oi did) (oi nad) Gen.Fn.smi_rtox) := by
  have key : Safe (fun e => e = .protocol) (rtoxTurn (fun d => Gen.Fn.smi_rtox d (oi did) (oi nad)) data srwt) := by
    intro e he
    have hv := rtoxTurn_only_validator_errors (fun d => Gen.Fn.smi_rtox d (oi did) (oi nad))
      (fun d r h => smi_rtox_ok_nonempty did nad d r h) data srwt e he
    exact gen_rtox_safe data did nad e hv
  rw [(rtox_step_bridge data srwt (oi did) (oi nad) Gen.Fn.smi_rtox).1, (rtox_step_bridge data srwt (oi did) (oi nad) Gen.Fn.smi_rtox).2]
  exact ⟨key, key⟩

/-- C07: an accepted turn read an RTOX octet in 1..59 and waits that many response waiting times -/
theorem gen_rtox_validated_first (data : Bytes) (srwt : Int) (did nad : Option Nat) (r : Rec) (w : Int)
    (h : Gen.Fn.dm_ini_rtox_step_r data srwt (oi did) (oi nad) Gen.Fn.smi_rtox = .ok (r, w)) :
    ∃ v t, data = v :: t ∧ 0 < v ∧ v < 60 ∧ w = (v : Int) * srwt := by
  rw [(rtox_step_bridge data srwt (oi did) (oi nad) Gen.Fn.smi_rtox).2] at h
  obtain ⟨hv, v, t, hd, hw⟩ := rtoxTurn_ok _ _ _ _ _ h
  subst hd
  have hv' : Gen.Fn.smi_rtox (v :: t) (oi did) (oi nad) = .ok r := hv
  rw [rtox_bridge] at hv'
  simp only at hv'
  split at hv'
  · rename_i hr; exact ⟨v, t, rfl, hr.1, hr.2, hw⟩
  · cases hv'

example : Gen.Fn.dm_ini_rtox_step_r [] 5 none none Gen.Fn.smi_rtox = .error .protocol := rfl
example : Gen.Fn.dm_ini_rtox_step_s [7, 1] 5 none none Gen.Fn.smi_rtox = .ok (((9, false, false, 0), none, none, [7]), 35) := by
  rfl
example : Gen.Fn.dm_ini_rtox_order_r [] 5 none none (fun _ _ _ => .error .protocol) = .error .protocol := by decide +kernel

/-! ## `Initiator.exchange`: behind the blocking calls -/

theorem ini_send_tail_bridge (rest : Bytes) (fmt rpni pni : Int) :
    Gen.Fn.dm_ini_send_tail rest fmt rpni pni = iniSendTail rest fmt rpni pni (band (pni + 1) 3) := by
  unfold Gen.Fn.dm_ini_send_tail iniSendTail
  by_cases h1 : fmt = 4 <;> by_cases h2 : rest = [] <;> by_cases h3 : rpni = pni <;> simp [h1, h2, h3]

/-- for packet numbers in their range: the new number is `(pni + 1) % 4` (`NfcDep.sendLoop`) -/
theorem ini_send_tail_nat (rest : Bytes) (fmt : Int) (rp pni : Nat) :
    Gen.Fn.dm_ini_send_tail rest fmt (rp : Int) (pni : Int)
      = iniSendTail rest fmt (rp : Int) (pni : Int) (((pni + 1) % 4 : Nat) : Int) := by
  rw [ini_send_tail_bridge, pni_inc]

theorem ini_recv_tail_bridge (acc data : Bytes) (fmt rpni pni : Int) :
    Gen.Fn.dm_ini_recv_tail acc fmt rpni pni data = iniRecvTail acc fmt rpni pni data (band (pni + 1) 3) := by
  unfold Gen.Fn.dm_ini_recv_tail iniRecvTail
  by_cases h1 : fmt = 0 <;> by_cases h2 : fmt = 1 <;> by_cases h3 : rpni = pni <;> simp [h1, h2, h3]

theorem ini_send_final_bridge (fmt : Int) (data : Bytes) :
    Gen.Fn.dm_ini_send_final fmt data = iniSendFinal fmt data := by
  unfold Gen.Fn.dm_ini_send_final iniSendFinal
  by_cases h1 : fmt = 0 <;> by_cases h2 : fmt = 1 <;> simp [h1, h2]

example : Gen.Fn.dm_ini_send_tail [] 4 2 2 = .error .protocol := by decide +kernel
example : Gen.Fn.dm_ini_send_tail [1] 4 3 3 = .ok 0 := by decide +kernel
example : Gen.Fn.dm_ini_recv_tail [1] 1 2 2 [5] = .ok ([1, 5], 3) := by decide +kernel

/-- `Initiator.deactivate`: the DID comparison (its branch only logs) -/
theorem ini_deact_did_test_bridge (a b : Option Int) : Gen.Fn.dm_ini_deact_did_test a b = decide (a ≠ b) := rfl

/-! ## `Target.activate` -/

theorem tgt_atr_res_call_bridge (nfcid3t gbt : Bytes) (rwt pp : Int)
    (mk : Bytes → Int → Int → Int → Int → Int → Bytes → (Bytes × Int × Int × Int × Int × Int × Bytes)) :
    Gen.Fn.dm_tgt_atr_res_call nfcid3t rwt pp gbt mk = mk nfcid3t 0 0 0 rwt pp gbt
    ∧ Gen.Fn.dm_tgt_atr_res_call nfcid3t rwt pp gbt mk7 = atrResArgs nfcid3t rwt pp gbt :=
  ⟨rfl, rfl⟩

/-- as found (known finding C19 `did0-..`): the ATR_RES of nfcpy's Target always carries DID 0 -/
theorem gen_tgt_atr_res_did0 (nfcid3t gbt : Bytes) (rwt pp : Int) :
    (Gen.Fn.dm_tgt_atr_res_call nfcid3t rwt pp gbt mk7).2.1 = 0 := rfl

theorem tgt_act_consts_bridge (urandom : Int → Bytes) : Gen.Fn.dm_tgt_act_consts urandom = listenConsts (urandom 3) := rfl

/-- the SEL_RES the Target listens with passes the regenerated NFC-DEP test of `Initiator.activate` (group DepSm) -/
theorem gen_tgt_sel_res_accepted (urandom : Int → Bytes) :
    Gen.Fn.smi_act_sel_res (Gen.Fn.dm_tgt_act_consts urandom).2.2 = .ok true := by
  show Gen.Fn.smi_act_sel_res [0x40] = .ok true
  decide +kernel

theorem tgt_act_held_bridge (lrt lrReq didReq : Int) (gbt gbReq : Bytes) :
    Gen.Fn.dm_tgt_act_held lrt gbt gbReq lrReq didReq = tgtHeld lrt gbt gbReq lrReq didReq := by
  unfold Gen.Fn.dm_tgt_act_held tgtHeld tgtMiu tgtDid bit
  by_cases h : didReq > 0 <;> simp [h]

/-- C19 / C04: the Target's send limit depends on the INITIATOR's announced LR (and DID) only, not on its own `lrt` -/
theorem gen_tgt_miu_peer_lr (lrt lrt' lrReq didReq : Int) (gbt gbReq gbt' gbReq' : Bytes) :
    (Gen.Fn.dm_tgt_act_held lrt gbt gbReq lrReq didReq).2.2.2.1 = (Gen.Fn.dm_tgt_act_held lrt' gbt' gbReq' lrReq didReq).2.2.2.1 := by
  rw [tgt_act_held_bridge, tgt_act_held_bridge]; rfl

theorem gen_tgt_frame_fits (lrt lrReq didReq n : Int) (gbt gbReq : Bytes)
    (h : n ≤ (Gen.Fn.dm_tgt_act_held lrt gbt gbReq lrReq didReq).2.2.2.1) : tgtFrameLen didReq n ≤ lrReq := by
  rw [tgt_act_held_bridge] at h
  exact tgtMiu_fits lrReq didReq n h

example : Gen.Fn.dm_tgt_act_held 3 [1] [2] 64 7 = (3, [1], [2], 60, some 7) := by decide +kernel
example : Gen.Fn.dm_tgt_act_held 0 [] [] 254 0 = (0, [], [], 251, none) := by decide +kernel

/-! ## `Target.exchange` -/

theorem tgt_first_call_bridge (deadline : Int) (sdr srr : Option Int → Int → Option Int) :
    Gen.Fn.dm_tgt_first_call deadline sdr srr = firstRequest sdr srr deadline := rfl

theorem tgt_first_block_bridge (sendData : Option Bytes) (deadline : Int) (sdr srr : Option Int → Int → Option Int) :
    Gen.Fn.dm_tgt_first_block sendData deadline sdr srr = firstBlock sendData sdr srr deadline := by
  unfold Gen.Fn.dm_tgt_first_block firstBlock firstRequest
  cases sendData with
  | some d => simp
  | none =>
    cases h : sdr none deadline <;> simp [h]

/-- C04: what the raw receive function would return has no influence on the first request -/
theorem gen_first_call_filtered (deadline : Int) (sdr srr srr' : Option Int → Int → Option Int) :
    Gen.Fn.dm_tgt_first_call deadline sdr srr = Gen.Fn.dm_tgt_first_call deadline sdr srr'
    ∧ Gen.Fn.dm_tgt_first_block none deadline sdr srr = Gen.Fn.dm_tgt_first_block none deadline sdr srr' := by
  rw [tgt_first_block_bridge, tgt_first_block_bridge]
  exact ⟨rfl, rfl⟩

example : Gen.Fn.dm_tgt_first_block none 5 (fun _ d => some (d + 1)) (fun _ _ => none) = .ok (some (6, 0)) := by decide +kernel
example : Gen.Fn.dm_tgt_first_block (some []) 5 (fun _ d => some d) (fun _ _ => none) = .error .assertion := by decide +kernel

theorem tgt_send_tail_bridge (more : Bool) (rest : Bytes) (fmt rpni pni miu : Int) :
    Gen.Fn.dm_tgt_send_tail more rest fmt rpni pni miu
      = tgtSendTail more fmt rpni (band (pni + 1) 3) (delSlice rest 0 miu) := by
  unfold Gen.Fn.dm_tgt_send_tail tgtSendTail
  cases more <;> by_cases h1 : fmt = 4 <;> by_cases h3 : rpni = band (pni + 1) 3 <;> simp [h1, h3]

example : Gen.Fn.dm_tgt_send_tail true [1, 2, 3] 4 1 0 2 = .ok (1, [3]) := by decide +kernel
example : Gen.Fn.dm_tgt_send_tail true [1, 2, 3] 0 1 0 2 = .error .protocol := by decide +kernel

/-! ## `Target.send_dep_res_recv_dep_req` -/

theorem tgt_retrans_test_bridge (rpni pni fmt : Int) : Gen.Fn.dm_tgt_retrans_test rpni pni fmt = isRepeated rpni pni fmt := rfl

/-- C04: a request with the packet number of the last one is recognised as repeated whatever its PDU type - INF, I++
and ACK alike -/
theorem gen_retrans_any_type (pni fmt : Int) : Gen.Fn.dm_tgt_retrans_test pni pni fmt = true := by
  rw [tgt_retrans_test_bridge]; simp [isRepeated]

/-! ## `Target._deactivate` -/

theorem tgt_deact_deadline_bridge (tplus1 : Int) : Gen.Fn.dm_tgt_deact_deadline tplus1 = deactDeadline tplus1 := rfl

theorem tgt_deact_cond_bridge (deadline now : Int) : Gen.Fn.dm_tgt_deact_cond deadline now = deactRunning deadline now := rfl

theorem tgt_deact_dep_bridge (data : Bytes) (deadline fmt rpni tplus1 : Int) (did nad : Option Int)
    (mkatn : Option Int → Option Int → Int) (mkinf : Int → Bytes → Option Int → Option Int → Int) :
    Gen.Fn.dm_tgt_deact_dep data deadline fmt rpni did nad tplus1 mkatn mkinf
      = deactTurn (if fmt = 8 then mkatn did nad else mkinf rpni data did nad) deadline := by
  unfold Gen.Fn.dm_tgt_deact_dep deactTurn
  by_cases h : fmt = 8 <;> simp [h]

theorem tgt_deact_other_bridge (res : Option Int) (deadline tplus1 : Int) :
    Gen.Fn.dm_tgt_deact_other res deadline tplus1 = deactTurn () deadline := rfl

/-- C09: neither an answered DEP_REQ nor a foreign / unknown PDU moves the deadline of the deactivation dialogue -/
theorem gen_deact_deadline_fixed (data : Bytes) (deadline fmt rpni tplus1 : Int) (did nad res : Option Int)
    (mkatn : Option Int → Option Int → Int) (mkinf : Int → Bytes → Option Int → Option Int → Int) :
    (Gen.Fn.dm_tgt_deact_dep data deadline fmt rpni did nad tplus1 mkatn mkinf).2 = deadline
    ∧ (Gen.Fn.dm_tgt_deact_other res deadline tplus1).2 = deadline := by
  rw [tgt_deact_dep_bridge]
  exact ⟨rfl, rfl⟩

/-- C09: with the regenerated start value and loop condition, after any sequence of turns the loop is not entered once
the clock reached start + 1 s -/
theorem gen_deact_bounded (tplus1 now : Int) (turns : List Int) (h : tplus1 ≤ now) :
    Gen.Fn.dm_tgt_deact_cond (turns.foldl (fun d r => (deactTurn r d).2) (Gen.Fn.dm_tgt_deact_deadline tplus1)) now = false := by
  rw [tgt_deact_cond_bridge, tgt_deact_deadline_bridge]
  exact deact_bounded tplus1 now turns h

example : Gen.Fn.dm_tgt_deact_dep [1] 77 8 2 none none 1000 (fun _ _ => 11) (fun _ _ _ _ => 22) = (11, 77) := by decide +kernel
example : Gen.Fn.dm_tgt_deact_cond 10 9 = true ∧ Gen.Fn.dm_tgt_deact_cond 10 10 = false := by decide +kernel

/-! ## counters -/

theorem cnt_bridge (l : List Int) : Gen.Fn.dm_cnt_sent l = total l ∧ Gen.Fn.dm_cnt_rcvd l = total l := ⟨rfl, rfl⟩

example : Gen.Fn.dm_cnt_sent [1, 2, 3] = 6 := by decide +kernel

end NfcVerif.FnBridge.DepMore
