import NfcVerif.Lemmas.DesBytes
import NfcVerif.Lemmas.Mac
import NfcVerif.Lemmas.Auth
/-!
# C20 - Tag authentication and MAC-protected reads cannot be fooled

Statements; proofs are in `Lemmas/Des.lean`, `Lemmas/DesBytes.lean`,
`Lemmas/Mac.lean`, `Lemmas/Auth.lean`.  Models: `Model/Des.lean` (FIPS 46-3
DES and two-key triple DES), `Model/Mac.lean` (`FelicaLite.generate_mac` over
an abstract cipher), `Model/Auth.lean` (reader side of FeliCa Lite / Lite-S /
NTAG21x authentication, `read_with_mac`, `write_with_mac`, key provisioning,
and the tags of the manuals).

NOT claimed (cryptographic assumptions, see the meta note): unforgeability of
the MAC without the key, absence of collisions between messages that differ in
more than one 8-byte group, and hence "authenticate is true ONLY IF the tag
holds the key".
-/
namespace NfcVerif.C20
open NfcVerif NfcVerif.Des NfcVerif.Mac NfcVerif.Auth

/-! ## the cipher is a bijection -/

/-- A Feistel network is a bijection of the pair of halves, for EVERY round function `f`, every
list of round keys and every "xor" `x` with `x (x a b) b = a`. -/
theorem feistel_bijective {α κ : Type} (x : α → α → α) (f : α → κ → α) (hx : ∀ a b, x (x a b) b = a) (ks : List κ) :
    Function.Injective (feistel x f ks) ∧ Function.Surjective (feistel x f ks) :=
  ⟨feistel_injective x f hx ks, feistel_surjective x f hx ks⟩

example : ∀ a b : Bits 32, xorV (xorV a b) b = a := xorV_cancel

/-- the initial and the final permutation of FIPS 46-3 are permutations, inverse to each other -/
theorem ip_perm : (∀ b : Bits 64, perm fpTbl (perm ipTbl b) = b) ∧ (∀ b : Bits 64, perm ipTbl (perm fpTbl b) = b) :=
  ⟨perm_fp_ip, perm_ip_fp⟩

/-- DES under any key is a bijection of the 64-bit blocks; `desDec` is its inverse -/
theorem des_bijective (key : Bits 64) :
    Function.Injective (desEnc key) ∧ Function.Surjective (desEnc key)
      ∧ (∀ b, desDec key (desEnc key b) = b) ∧ (∀ b, desEnc key (desDec key b) = b) :=
  let h := bijective_of_inverse _ _ (desDec_desEnc key) (desEnc_desDec key)
  ⟨h.1, h.2, desDec_desEnc key, desEnc_desDec key⟩

/-- two-key triple DES (EDE) under any key pair is a bijection -/
theorem tdes_bijective (k1 k2 : Bits 64) :
    Function.Injective (tdesEnc k1 k2) ∧ Function.Surjective (tdesEnc k1 k2)
      ∧ (∀ b, tdesDec k1 k2 (tdesEnc k1 k2 b) = b) :=
  let h := bijective_of_inverse _ _ (tdesDec_tdesEnc k1 k2) (tdesEnc_tdesDec k1 k2)
  ⟨h.1, h.2, tdesDec_tdesEnc k1 k2⟩

/-- at the octet level (what `generate_mac` feeds to pyDes): triple DES maps 8-octet blocks to
8-octet blocks, injectively, under every key string -/
theorem tdes_block_cipher : BlockCipher tdesBytes :=
  fun key => ⟨fun b _ => tdesBytes_block key b, fun a b ha hb h => tdesBytes_injOn key a b ha hb h⟩

example : BlockCipher (fun _ b => b) := fun _ => ⟨fun _ h => h, fun _ _ _ _ h => h⟩

/-! ## the MAC -/

/-- Two messages of equal length that differ in exactly one 8-byte group (in particular in one
bit) have different MACs, for every key, start value, and with or without the key flip - for every
cipher that is injective on blocks.  `pre`, `post`: the common parts, whole groups. -/
theorem mac_detects_block_change (C : Cipher) (hC : BlockCipher C) (key iv pre post b b' : Bytes) (flip : Bool)
    (hk : key.length = 16) (hiv : Block iv)
    (hpre : pre.length % 8 = 0) (hpost : post.length % 8 = 0) (hpreB : IsBytes pre) (hpostB : IsBytes post)
    (hb : Block b) (hb' : Block b') (hne : b ≠ b') :
    generateMac C (pre ++ b ++ post) key iv flip ≠ generateMac C (pre ++ b' ++ post) key iv flip :=
  generateMac_ne C hC key iv pre post b b' flip hk hiv hpre hpost hpreB hpostB hb hb' hne

/-- the same for the cipher of the code, without hypothesis on the cipher -/
theorem mac_detects_block_change_tdes (key iv pre post b b' : Bytes) (flip : Bool)
    (hk : key.length = 16) (hiv : Block iv)
    (hpre : pre.length % 8 = 0) (hpost : post.length % 8 = 0) (hpreB : IsBytes pre) (hpostB : IsBytes post)
    (hb : Block b) (hb' : Block b') (hne : b ≠ b') :
    generateMac tdesBytes (pre ++ b ++ post) key iv flip ≠ generateMac tdesBytes (pre ++ b' ++ post) key iv flip :=
  generateMac_ne tdesBytes tdes_block_cipher key iv pre post b b' flip hk hiv hpre hpost hpreB hpostB hb hb' hne

example : generateMac (fun _ b => b) (List.replicate 16 1) (List.replicate 16 2) (List.replicate 8 3) false
    = .ok (List.replicate 8 3) := by decide

example : Block [1, 2, 3, 4, 5, 6, 7, 8] ∧ Block [1, 2, 3, 4, 5, 6, 7, 9] ∧ ([1, 2, 3, 4, 5, 6, 7, 8] : Bytes) ≠ [1, 2, 3, 4, 5, 6, 7, 9] := by
  decide

/-- `read_with_mac` returns data only if the MAC field of the response (all eight octets) equals
`generate_mac` over exactly the returned data (all of it) under the session key and start value. -/
theorem mac_field_compared (C : Cipher) (idm : Bytes) (s : Session) (blocks : List Nat) (rsp d : Bytes)
    (h : readWithMac C idm (some s) blocks rsp = .ok (some d)) :
    ∃ data, readRsp idm (blocks ++ [0x81]) rsp = .ok data ∧ d = slice data 0 (-16)
      ∧ generateMac C d s.sk s.iv false = .ok (slice data (-16) (-8)) :=
  readWithMac_some C idm s blocks rsp d h

/-- A response carrying the data `pre ++ b ++ post` with the tag's MAC `m`: untouched it is
returned; with one 8-byte group of the data changed (and the padding changed at will), or with a
changed MAC field, `read_with_mac` returns `None` - every single-bit modification of data or MAC
is among these. -/
theorem read_tamper_rejected (C : Cipher) (hC : BlockCipher C) (idm : Bytes) (s : Session) (blocks : List Nat) (nb : Nat)
    (pre b b' post m m' p p' : Bytes)
    (hidm : idm.length = 8) (hblk : blocks.length ≤ 4) (hsk : s.sk.length = 16) (hiv : Block s.iv)
    (hlen : (pre ++ b ++ post).length = blocks.length * 16)
    (hpre : pre.length % 8 = 0) (hpost : post.length % 8 = 0) (hpreB : IsBytes pre) (hpostB : IsBytes post)
    (hb : Block b) (hb' : Block b')
    (hm : generateMac C (pre ++ b ++ post) s.sk s.iv false = .ok m) (hp : p.length = 8) (hp' : p'.length = 8) :
    readWithMac C idm (some s) blocks (rspFrame idm 6 ([nb] ++ ((pre ++ b ++ post) ++ (m ++ p))))
        = .ok (some (pre ++ b ++ post))
    ∧ (b' ≠ b → readWithMac C idm (some s) blocks (rspFrame idm 6 ([nb] ++ ((pre ++ b' ++ post) ++ (m ++ p')))) = .ok none)
    ∧ (m' ≠ m → m'.length = 8 →
        readWithMac C idm (some s) blocks (rspFrame idm 6 ([nb] ++ ((pre ++ b ++ post) ++ (m' ++ p')))) = .ok none) := by
  have hl8 : (pre ++ b ++ post).length % 8 = 0 := by simp [hb.1]; omega
  have hl8' : (pre ++ b' ++ post).length % 8 = 0 := by simp [hb'.1]; omega
  have hlen' : (pre ++ b' ++ post).length = blocks.length * 16 := by
    rw [← hlen]; simp [hb.1, hb'.1]
  have hmlen : m.length = 8 := by
    rw [generateMac_ok C _ s.sk s.iv false hl8 hsk hiv.1] at hm
    injection hm with hm
    rw [← hm]
    refine (macBlocks_block C hC _ s.iv _ hiv (chunks8_blocks _ ?_) (chunks8_ne_nil _ (by simp [hb.1]; omega))).1
    exact isBytes_append (isBytes_append hpreB hb.2) hpostB
  refine ⟨?_, ?_, ?_⟩
  · rw [readWithMac_eval C idm s blocks nb _ m p m hidm (by omega) hlen hmlen hp hm]; simp
  · intro hne
    have hg' := generateMac_ok C (pre ++ b' ++ post) s.sk s.iv false hl8' hsk hiv.1
    rw [readWithMac_eval C idm s blocks nb _ m p' _ hidm (by omega) hlen' hmlen hp' hg']
    have hdiff := generateMac_ne C hC s.sk s.iv pre post b' b false hsk hiv hpre hpost hpreB hpostB hb' hb hne
    rw [hg', hm] at hdiff
    have : ¬ (m = macBlocks C (if false = true then s.sk.drop 8 ++ s.sk.take 8 else s.sk) s.iv (chunks8 (pre ++ b' ++ post))) :=
      fun h => hdiff (by rw [h])
    rw [if_neg this]
  · intro hne hm'len
    rw [readWithMac_eval C idm s blocks nb _ m' p' m hidm (by omega) hlen hm'len hp' hm]
    simp [hne]

/-! ## authentication -/

/-- NTAG21x: against the tag of the data sheet, `authenticate(pw)` is true exactly when the tag's
PWD is the first four and its PACK the next two octets of the key derived from `pw` -/
theorem ntag_auth_exact (pw key : Bytes) (t : NtagTag) (hk : ntagKey pw = .ok key) :
    ntagAuthenticate pw (.ok (t.respond (ntagAuthCmd key))) = .ok true ↔ (t.pwd = key.take 4 ∧ t.pack = key.drop 4) :=
  ntag_exact pw key t hk

/-- whatever arrives: true exactly when the arrived octets are the two expected PACK octets;
a `Type2TagCommandError` (no answer) gives false -/
theorem ntag_auth_response_exact (pw key : Bytes) (hk : ntagKey pw = .ok key) :
    (∀ r, ntagAuthenticate pw (.ok r) = .ok true ↔ r = (key.drop 4).take 2)
    ∧ (∀ n, ntagAuthenticate pw (.error (.tagCmd n)) = .ok false) :=
  ⟨fun r => ntag_response_exact pw key r hk, fun n => ntag_error_false pw key n hk⟩

example : ntagKey [1, 2, 3, 4, 5, 6, 7] = .ok [1, 2, 3, 4, 5, 6] := by decide
example : ntagKey [] = .ok [0xFF, 0xFF, 0xFF, 0xFF, 0, 0] := by decide

/-- FeliCa Lite: the tag of the manual that holds the key of the password (card key block in the
layout `revHalves key`) and received the reader's challenge answers so that `authenticate`
returns true and stores the session key - for every cipher, key, challenge and ID block. -/
theorem auth_complete (C : Cipher) (hC : BlockCipher C) (idm pw key rc idBlock wc : Bytes)
    (hidm : idm.length = 8) (hkey : liteKey pw = .ok key) (hrc : rc.length = 16) (hrcB : IsBytes rc)
    (hid : idBlock.length = 16) (hidB : IsBytes idBlock) :
    ∃ sk, sessionKey C key rc = .ok sk ∧ sk.length = 16 ∧
      liteAuthenticate C idm pw rc (writeOk idm)
        (LiteTag.readFrame C ⟨revHalves key, revHalves rc, wc⟩ idm 2 idBlock) = .ok (true, some ⟨sk, rc.take 8⟩) :=
  lite_auth_complete C hC idm pw key rc idBlock wc hidm hkey hrc hrcB hid hidB

example : liteKey (List.replicate 20 7) = .ok (List.replicate 16 7) := by decide

/-- `protect(pw)` then `authenticate(pw)` on FeliCa Lite / Lite-S (internal authentication): the
tag stores the 16 data octets of the key-provisioning command and of the challenge command as
its CK and RC blocks; its answer makes `authenticate` true.  The byte-order conventions of
provisioning and verification agree. -/
theorem protect_then_auth_lite (C : Cipher) (hC : BlockCipher C) (idm pw rc idBlock wc pc cc : Bytes)
    (hidm : idm.length = 8) (hpc : liteProtectKeyCmd idm pw = .ok pc) (hcc : liteChallengeCmd idm rc = .ok cc)
    (hrc : rc.length = 16) (hrcB : IsBytes rc) (hid : idBlock.length = 16) (hidB : IsBytes idBlock) :
    ∃ s, liteAuthenticate C idm pw rc (writeOk idm)
        (LiteTag.readFrame C ⟨pc.drop 16, cc.drop 16, wc⟩ idm 2 idBlock) = .ok (true, some s) := by
  unfold liteProtectKeyCmd at hpc
  rcases Py.bind_eq_ok.mp hpc with ⟨key, hkey, _⟩
  have hpc' : liteProtectKeyCmd idm pw = .ok pc := by unfold liteProtectKeyCmd; exact hpc
  rw [protect_key_block idm pw key pc hidm hkey hpc', challenge_block idm rc cc hidm hrc hcc]
  obtain ⟨sk, _, _, h⟩ := lite_auth_complete C hC idm pw key rc idBlock wc hidm hkey hrc hrcB hid hidB
  exact ⟨_, h⟩

/-- The empty password explicitly (the documented "factory key" option), as opposed to `None`:
`protect(b"")` DOES write a key block, namely 16 zero octets (FeliCa Lite / Lite-S), resp. PWD
FF FF FF FF and PACK 00 00 (NTAG21x), whatever key the tag held before, and `authenticate(b"")`
then succeeds against the tag that stored it; only `protect(None)` writes no key. -/
theorem protect_empty_password (C : Cipher) (hC : BlockCipher C) (idm rc idBlock wc cc : Bytes)
    (hidm : idm.length = 8) (hcc : liteChallengeCmd idm rc = .ok cc)
    (hrc : rc.length = 16) (hrcB : IsBytes rc) (hid : idBlock.length = 16) (hidB : IsBytes idBlock) :
    (∃ pc, liteProtectKeyWrite idm (some []) = .ok (some pc) ∧ pc.drop 16 = zeros 16
      ∧ ∃ s, liteAuthenticate C idm [] rc (writeOk idm)
          (LiteTag.readFrame C ⟨pc.drop 16, cc.drop 16, wc⟩ idm 2 idBlock) = .ok (true, some s))
    ∧ liteProtectKeyWrite idm none = .ok none
    ∧ (∀ rp pf cfg pages, ntagProtectPages [] rp pf cfg = .ok pages →
        NtagTag.ofPages pages = ⟨[0xFF, 0xFF, 0xFF, 0xFF], [0, 0]⟩
        ∧ ntagAuthenticate [] (.ok ((NtagTag.ofPages pages).respond (ntagAuthCmd [0xFF, 0xFF, 0xFF, 0xFF, 0, 0]))) = .ok true) := by
  have hkey : liteKey [] = .ok (zeros 16) := by decide
  have hw := writeCmd_ok idm [0x87] (revHalves (zeros 16)) hidm (by decide)
  obtain ⟨pc0, hpc⟩ : ∃ pc0, liteProtectKeyCmd idm [] = .ok pc0 :=
    ⟨_, by simp only [liteProtectKeyCmd, hkey, Py.bind_ok]; exact hw⟩
  refine ⟨⟨pc0, by simp only [liteProtectKeyWrite, hpc, Py.bind_ok], ?_, ?_⟩, rfl, ?_⟩
  · rw [protect_key_block idm [] (zeros 16) _ hidm hkey hpc]; decide
  · exact protect_then_auth_lite C hC idm [] rc idBlock wc _ cc hidm hpc hcc hrc hrcB hid hidB
  · intro rp pf cfg pages h
    have hk : ntagKey [] = .ok [0xFF, 0xFF, 0xFF, 0xFF, 0, 0] := by decide
    have ht := ntag_protect_tag [] _ cfg rp pf pages hk h
    refine ⟨by rw [ht]; rfl, ?_⟩
    rw [ht]
    exact (ntag_exact [] _ _ hk).mpr ⟨rfl, rfl⟩

example : liteProtectKeyWrite [1, 2, 3, 4, 5, 6, 7, 8] (some [])
    = .ok (some ([32, 8, 1, 2, 3, 4, 5, 6, 7, 8, 1, 9, 0, 1, 0x80, 0x87] ++ List.replicate 16 0)) := by decide

/-- `protect(pw)` then `authenticate` on NTAG21x: the tag whose PWD / PACK pages are the pages the
reader wrote answers PACK to `authenticate(pw)`, which is true; a password with another derived
key is false. -/
theorem protect_then_auth_ntag (pw pw' key key' cfg : Bytes) (rp : Bool) (pf : Nat) (pages : List Bytes)
    (hk : ntagKey pw = .ok key) (hk' : ntagKey pw' = .ok key') (h : ntagProtectPages pw rp pf cfg = .ok pages) :
    ntagAuthenticate pw (.ok ((NtagTag.ofPages pages).respond (ntagAuthCmd key))) = .ok true
    ∧ (key' ≠ key → ntagAuthenticate pw' (.ok ((NtagTag.ofPages pages).respond (ntagAuthCmd key'))) ≠ .ok true) := by
  rw [ntag_protect_tag pw key cfg rp pf pages hk h]
  constructor
  · exact (ntag_exact pw key _ hk).mpr ⟨rfl, rfl⟩
  · intro hne hc
    have := (ntag_exact pw' key' _ hk').mp hc
    have h6 := ntagKey_length pw key hk
    have h6' := ntagKey_length pw' key' hk'
    apply hne
    rw [← List.take_append_drop 4 key', ← List.take_append_drop 4 key, ← this.1, ← this.2]

example : ntagProtectPages [1, 2, 3, 4, 5, 6] true 4 (List.replicate 16 0)
    = .ok [[0, 0, 0, 4], [0x80, 0, 0, 0], [1, 2, 3, 4], [5, 6, 0, 0]] := by decide

/-- Lite-S external authentication / `write_with_mac`: the MAC_A the reader puts into the write
command is the MAC_A the tag of the manual computes (key SK2|SK1, write counter and block number in
the first word), so the tag accepts the write; the command also carries the write counter. -/
theorem lite_s_write_mac_accepted (C : Cipher) (hC : BlockCipher C) (idm key rc wblock data : Bytes) (block : Nat) (sk : Bytes)
    (hidm : idm.length = 8) (hk : key.length = 16) (hrc : rc.length = 16) (hrcB : IsBytes rc)
    (hsk : sessionKey C key rc = .ok sk) (hw : wblock.length = 16) (hd : data.length = 16) (hb : block ≤ 255)
    (hwB : IsBytes wblock) (hdB : IsBytes data) :
    ∃ cmd, writeWithMacCmd C idm (some ⟨sk, rc.take 8⟩) data block (rspFrame idm 6 ([1] ++ wblock)) = .ok cmd
      ∧ cmd.drop 18 = data ++ (LiteTag.macA C ⟨revHalves key, revHalves rc, wblock⟩ block data ++ wblock.take 3 ++ zeros 5) :=
  lite_s_write_mac C hC idm key rc wblock data block sk hidm hk hrc hrcB hsk hw hd hb hwB hdB

/-- Partial (the cryptographic half of "exactly when" is an assumption): `authenticate = true`
implies that the MAC field received from the tag equals `generate_mac` of the received ID block
under the reader's own session key (derived from the password and the challenge) - all eight
octets - and that exactly this session key is stored for later `read_with_mac` calls.  NOT
proved: that only a tag holding the key can produce that MAC. -/
theorem auth_sound_partial (C : Cipher) (idm pw rc rsp1 rsp2 : Bytes) (s : Option Session)
    (h : liteAuthenticate C idm pw rc rsp1 rsp2 = .ok (true, s)) :
    ∃ key sk data, liteKey pw = .ok key ∧ sessionKey C key rc = .ok sk
      ∧ readRsp idm [0x82, 0x81] rsp2 = .ok data
      ∧ generateMac C (slice data 0 (-16)) sk (rc.take 8) false = .ok (slice data (-16) (-8))
      ∧ s = some ⟨sk, rc.take 8⟩ :=
  lite_auth_true C idm pw rc rsp1 rsp2 s h

end NfcVerif.C20
