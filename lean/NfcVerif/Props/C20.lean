import NfcVerif.Lemmas.DesBytes
import NfcVerif.Lemmas.Mac
import NfcVerif.Lemmas.Auth
import NfcVerif.Lemmas.AuthHist
import NfcVerif.Lemmas.AuthCard
import NfcVerif.Lemmas.AuthNdef
/-!
# C20 - Tag authentication and MAC-protected reads cannot be fooled

Statements; proofs are in `Lemmas/Des.lean`, `Lemmas/DesBytes.lean`,
`Lemmas/Mac.lean`, `Lemmas/Auth.lean`.  Models: `Model/Des.lean` (FIPS 46-3
DES and two-key triple DES), `Model/Mac.lean` (`FelicaLite.generate_mac` over
an abstract cipher), `Model/Auth.lean` (reader side of FeliCa Lite / Lite-S /
NTAG21x authentication, `read_with_mac`, `write_with_mac`, key provisioning,
and the tags of the manuals).

Second part (below `## histories`): the same methods as methods of ONE tag object whose attributes
live on from call to call, against an air interface that is an arbitrary state machine
(`Model/AuthHist.lean`), and against the stateful card of the manuals (`Model/AuthCard.lean`):
every session of every history is decided by its own challenge and the frames that arrive in it,
`write_with_mac` reads the write counter from the card in every call, `read_with_mac` sends one
command for all blocks, mutual authentication succeeds in every card state.

NOT claimed (cryptographic assumptions, see the meta note): unforgeability of
the MAC without the key, absence of collisions between messages that differ in
more than one 8-byte group, and hence "authenticate is true ONLY IF the tag
holds the key".
-/
namespace NfcVerif.C20
open NfcVerif NfcVerif.Des NfcVerif.Mac NfcVerif.Auth

/-! ## the cipher is a bijection -/

/-- A Feistel network is a bijection of the pair of halves, for EVERY round function `f`, every
list of round keys and every "xor" `x` with `x (x a b) b = a`. -/
theorem feistel_bijective {α κ : Type} (x : α → α → α) (f : α → κ → α) (hx : ∀ a b, x (x a b) b = a) (ks : List κ) :
    Function.Injective (feistel x f ks) ∧ Function.Surjective (feistel x f ks) :=
  ⟨feistel_injective x f hx ks, feistel_surjective x f hx ks⟩

example : ∀ a b : Bits 32, xorV (xorV a b) b = a := xorV_cancel

/-- the initial and the final permutation of FIPS 46-3 are permutations, inverse to each other -/
theorem ip_perm : (∀ b : Bits 64, perm fpTbl (perm ipTbl b) = b) ∧ (∀ b : Bits 64, perm ipTbl (perm fpTbl b) = b) :=
  ⟨perm_fp_ip, perm_ip_fp⟩

/-- DES under any key is a bijection of the 64-bit blocks; `desDec` is its inverse -/
theorem des_bijective (key : Bits 64) :
    Function.Injective (desEnc key) ∧ Function.Surjective (desEnc key)
      ∧ (∀ b, desDec key (desEnc key b) = b) ∧ (∀ b, desEnc key (desDec key b) = b) :=
  let h := bijective_of_inverse _ _ (desDec_desEnc key) (desEnc_desDec key)
  ⟨h.1, h.2, desDec_desEnc key, desEnc_desDec key⟩

/-- two-key triple DES (EDE) under any key pair is a bijection -/
theorem tdes_bijective (k1 k2 : Bits 64) :
    Function.Injective (tdesEnc k1 k2) ∧ Function.Surjective (tdesEnc k1 k2)
      ∧ (∀ b, tdesDec k1 k2 (tdesEnc k1 k2 b) = b) :=
  let h := bijective_of_inverse _ _ (tdesDec_tdesEnc k1 k2) (tdesEnc_tdesDec k1 k2)
  ⟨h.1, h.2, tdesDec_tdesEnc k1 k2⟩

/-- at the octet level (what `generate_mac` feeds to pyDes): triple DES maps 8-octet blocks to
8-octet blocks, injectively, under every key string -/
theorem tdes_block_cipher : BlockCipher tdesBytes :=
  fun key => ⟨fun b _ => tdesBytes_block key b, fun a b ha hb h => tdesBytes_injOn key a b ha hb h⟩

example : BlockCipher (fun _ b => b) := fun _ => ⟨fun _ h => h, fun _ _ _ _ h => h⟩

/-! ## the MAC -/

/-- Two messages of equal length that differ in exactly one 8-byte group (in particular in one
bit) have different MACs, for every key, start value, and with or without the key flip - for every
cipher that is injective on blocks.  `pre`, `post`: the common parts, whole groups. -/
theorem mac_detects_block_change (C : Cipher) (hC : BlockCipher C) (key iv pre post b b' : Bytes) (flip : Bool)
    (hk : key.length = 16) (hiv : Block iv)
    (hpre : pre.length % 8 = 0) (hpost : post.length % 8 = 0) (hpreB : IsBytes pre) (hpostB : IsBytes post)
    (hb : Block b) (hb' : Block b') (hne : b ≠ b') :
    generateMac C (pre ++ b ++ post) key iv flip ≠ generateMac C (pre ++ b' ++ post) key iv flip :=
  generateMac_ne C hC key iv pre post b b' flip hk hiv hpre hpost hpreB hpostB hb hb' hne

/-- the same for the cipher of the code, without hypothesis on the cipher -/
theorem mac_detects_block_change_tdes (key iv pre post b b' : Bytes) (flip : Bool)
    (hk : key.length = 16) (hiv : Block iv)
    (hpre : pre.length % 8 = 0) (hpost : post.length % 8 = 0) (hpreB : IsBytes pre) (hpostB : IsBytes post)
    (hb : Block b) (hb' : Block b') (hne : b ≠ b') :
    generateMac tdesBytes (pre ++ b ++ post) key iv flip ≠ generateMac tdesBytes (pre ++ b' ++ post) key iv flip :=
  generateMac_ne tdesBytes tdes_block_cipher key iv pre post b b' flip hk hiv hpre hpost hpreB hpostB hb hb' hne

example : generateMac (fun _ b => b) (List.replicate 16 1) (List.replicate 16 2) (List.replicate 8 3) false
    = .ok (List.replicate 8 3) := by decide

example : Block [1, 2, 3, 4, 5, 6, 7, 8] ∧ Block [1, 2, 3, 4, 5, 6, 7, 9] ∧ ([1, 2, 3, 4, 5, 6, 7, 8] : Bytes) ≠ [1, 2, 3, 4, 5, 6, 7, 9] := by
  decide

/-- `read_with_mac` returns data only if the MAC field of the response (all eight octets) equals
`generate_mac` over exactly the returned data (all of it) under the session key and start value. -/
theorem mac_field_compared (C : Cipher) (idm : Bytes) (s : Session) (blocks : List Nat) (rsp d : Bytes)
    (h : readWithMac C idm (some s) blocks rsp = .ok (some d)) :
    ∃ data, readRsp idm (blocks ++ [0x81]) rsp = .ok data ∧ d = slice data 0 (-16)
      ∧ generateMac C d s.sk s.iv false = .ok (slice data (-16) (-8)) :=
  readWithMac_some C idm s blocks rsp d h

/-- A response carrying the data `pre ++ b ++ post` with the tag's MAC `m`: untouched it is
returned; with one 8-byte group of the data changed (and the padding changed at will), or with a
changed MAC field, `read_with_mac` returns `None` - every single-bit modification of data or MAC
is among these. -/
theorem read_tamper_rejected (C : Cipher) (hC : BlockCipher C) (idm : Bytes) (s : Session) (blocks : List Nat) (nb : Nat)
    (pre b b' post m m' p p' : Bytes)
    (hidm : idm.length = 8) (hblk : blocks.length ≤ 4) (hsk : s.sk.length = 16) (hiv : Block s.iv)
    (hlen : (pre ++ b ++ post).length = blocks.length * 16)
    (hpre : pre.length % 8 = 0) (hpost : post.length % 8 = 0) (hpreB : IsBytes pre) (hpostB : IsBytes post)
    (hb : Block b) (hb' : Block b')
    (hm : generateMac C (pre ++ b ++ post) s.sk s.iv false = .ok m) (hp : p.length = 8) (hp' : p'.length = 8) :
    readWithMac C idm (some s) blocks (rspFrame idm 6 ([nb] ++ ((pre ++ b ++ post) ++ (m ++ p))))
        = .ok (some (pre ++ b ++ post))
    ∧ (b' ≠ b → readWithMac C idm (some s) blocks (rspFrame idm 6 ([nb] ++ ((pre ++ b' ++ post) ++ (m ++ p')))) = .ok none)
    ∧ (m' ≠ m → m'.length = 8 →
        readWithMac C idm (some s) blocks (rspFrame idm 6 ([nb] ++ ((pre ++ b ++ post) ++ (m' ++ p')))) = .ok none) := by
  have hl8 : (pre ++ b ++ post).length % 8 = 0 := by simp [hb.1]; omega
  have hl8' : (pre ++ b' ++ post).length % 8 = 0 := by simp [hb'.1]; omega
  have hlen' : (pre ++ b' ++ post).length = blocks.length * 16 := by
    rw [← hlen]; simp [hb.1, hb'.1]
  have hmlen : m.length = 8 := by
    rw [generateMac_ok C _ s.sk s.iv false hl8 hsk hiv.1] at hm
    injection hm with hm
    rw [← hm]
    refine (macBlocks_block C hC _ s.iv _ hiv (chunks8_blocks _ ?_) (chunks8_ne_nil _ (by simp [hb.1]; omega))).1
    exact isBytes_append (isBytes_append hpreB hb.2) hpostB
  refine ⟨?_, ?_, ?_⟩
  · rw [readWithMac_eval C idm s blocks nb _ m p m hidm (by omega) hlen hmlen hp hm]; simp
  · intro hne
    have hg' := generateMac_ok C (pre ++ b' ++ post) s.sk s.iv false hl8' hsk hiv.1
    rw [readWithMac_eval C idm s blocks nb _ m p' _ hidm (by omega) hlen' hmlen hp' hg']
    have hdiff := generateMac_ne C hC s.sk s.iv pre post b' b false hsk hiv hpre hpost hpreB hpostB hb' hb hne
    rw [hg', hm] at hdiff
    have : ¬ (m = macBlocks C (if false = true then s.sk.drop 8 ++ s.sk.take 8 else s.sk) s.iv (chunks8 (pre ++ b' ++ post))) :=
      fun h => hdiff (by rw [h])
    rw [if_neg this]
  · intro hne hm'len
    rw [readWithMac_eval C idm s blocks nb _ m' p' m hidm (by omega) hlen hm'len hp' hm]
    simp [hne]

/-! ## authentication -/

/-- NTAG21x: against the tag of the data sheet, `authenticate(pw)` is true exactly when the tag's
PWD is the first four and its PACK the next two octets of the key derived from `pw` -/
theorem ntag_auth_exact (pw key : Bytes) (t : NtagTag) (hk : ntagKey pw = .ok key) :
    ntagAuthenticate pw (.ok (t.respond (ntagAuthCmd key))) = .ok true ↔ (t.pwd = key.take 4 ∧ t.pack = key.drop 4) :=
  ntag_exact pw key t hk

/-- whatever arrives: true exactly when the arrived octets are the two expected PACK octets;
a `Type2TagCommandError` (no answer) gives false -/
theorem ntag_auth_response_exact (pw key : Bytes) (hk : ntagKey pw = .ok key) :
    (∀ r, ntagAuthenticate pw (.ok r) = .ok true ↔ r = (key.drop 4).take 2)
    ∧ (∀ n, ntagAuthenticate pw (.error (.tagCmd n)) = .ok false) :=
  ⟨fun r => ntag_response_exact pw key r hk, fun n => ntag_error_false pw key n hk⟩

example : ntagKey [1, 2, 3, 4, 5, 6, 7] = .ok [1, 2, 3, 4, 5, 6] := by decide
example : ntagKey [] = .ok [0xFF, 0xFF, 0xFF, 0xFF, 0, 0] := by decide

/-- FeliCa Lite: the tag of the manual that holds the key of the password (card key block in the
layout `revHalves key`) and received the reader's challenge answers so that `authenticate`
returns true and stores the session key - for every cipher, key, challenge and ID block. -/
theorem auth_complete (C : Cipher) (hC : BlockCipher C) (idm pw key rc idBlock wc : Bytes)
    (hidm : idm.length = 8) (hkey : liteKey pw = .ok key) (hrc : rc.length = 16) (hrcB : IsBytes rc)
    (hid : idBlock.length = 16) (hidB : IsBytes idBlock) :
    ∃ sk, sessionKey C key rc = .ok sk ∧ sk.length = 16 ∧
      liteAuthenticate C idm pw rc (writeOk idm)
        (LiteTag.readFrame C ⟨revHalves key, revHalves rc, wc⟩ idm 2 idBlock) = .ok (true, some ⟨sk, rc.take 8⟩) :=
  lite_auth_complete C hC idm pw key rc idBlock wc hidm hkey hrc hrcB hid hidB

example : liteKey (List.replicate 20 7) = .ok (List.replicate 16 7) := by decide

/-- `protect(pw)` then `authenticate(pw)` on FeliCa Lite / Lite-S (internal authentication): the
tag stores the 16 data octets of the key-provisioning command and of the challenge command as
its CK and RC blocks; its answer makes `authenticate` true.  The byte-order conventions of
provisioning and verification agree. -/
theorem protect_then_auth_lite (C : Cipher) (hC : BlockCipher C) (idm pw rc idBlock wc pc cc : Bytes)
    (hidm : idm.length = 8) (hpc : liteProtectKeyCmd idm pw = .ok pc) (hcc : liteChallengeCmd idm rc = .ok cc)
    (hrc : rc.length = 16) (hrcB : IsBytes rc) (hid : idBlock.length = 16) (hidB : IsBytes idBlock) :
    ∃ s, liteAuthenticate C idm pw rc (writeOk idm)
        (LiteTag.readFrame C ⟨pc.drop 16, cc.drop 16, wc⟩ idm 2 idBlock) = .ok (true, some s) := by
  unfold liteProtectKeyCmd at hpc
  rcases Py.bind_eq_ok.mp hpc with ⟨key, hkey, _⟩
  have hpc' : liteProtectKeyCmd idm pw = .ok pc := by unfold liteProtectKeyCmd; exact hpc
  rw [protect_key_block idm pw key pc hidm hkey hpc', challenge_block idm rc cc hidm hrc hcc]
  obtain ⟨sk, _, _, h⟩ := lite_auth_complete C hC idm pw key rc idBlock wc hidm hkey hrc hrcB hid hidB
  exact ⟨_, h⟩

/-- The empty password explicitly (the documented "factory key" option), as opposed to `None`:
`protect(b"")` DOES write a key block, namely 16 zero octets (FeliCa Lite / Lite-S), resp. PWD
FF FF FF FF and PACK 00 00 (NTAG21x), whatever key the tag held before, and `authenticate(b"")`
then succeeds against the tag that stored it; only `protect(None)` writes no key. -/
theorem protect_empty_password (C : Cipher) (hC : BlockCipher C) (idm rc idBlock wc cc : Bytes)
    (hidm : idm.length = 8) (hcc : liteChallengeCmd idm rc = .ok cc)
    (hrc : rc.length = 16) (hrcB : IsBytes rc) (hid : idBlock.length = 16) (hidB : IsBytes idBlock) :
    (∃ pc, liteProtectKeyWrite idm (some []) = .ok (some pc) ∧ pc.drop 16 = zeros 16
      ∧ ∃ s, liteAuthenticate C idm [] rc (writeOk idm)
          (LiteTag.readFrame C ⟨pc.drop 16, cc.drop 16, wc⟩ idm 2 idBlock) = .ok (true, some s))
    ∧ liteProtectKeyWrite idm none = .ok none
    ∧ (∀ rp pf cfg pages, ntagProtectPages [] rp pf cfg = .ok pages →
        NtagTag.ofPages pages = ⟨[0xFF, 0xFF, 0xFF, 0xFF], [0, 0]⟩
        ∧ ntagAuthenticate [] (.ok ((NtagTag.ofPages pages).respond (ntagAuthCmd [0xFF, 0xFF, 0xFF, 0xFF, 0, 0]))) = .ok true) := by
  have hkey : liteKey [] = .ok (zeros 16) := by decide
  have hw := writeCmd_ok idm [0x87] (revHalves (zeros 16)) hidm (by decide)
  obtain ⟨pc0, hpc⟩ : ∃ pc0, liteProtectKeyCmd idm [] = .ok pc0 :=
    ⟨_, by simp only [liteProtectKeyCmd, hkey, Py.bind_ok]; exact hw⟩
  refine ⟨⟨pc0, by simp only [liteProtectKeyWrite, hpc, Py.bind_ok], ?_, ?_⟩, rfl, ?_⟩
  · rw [protect_key_block idm [] (zeros 16) _ hidm hkey hpc]; decide
  · exact protect_then_auth_lite C hC idm [] rc idBlock wc _ cc hidm hpc hcc hrc hrcB hid hidB
  · intro rp pf cfg pages h
    have hk : ntagKey [] = .ok [0xFF, 0xFF, 0xFF, 0xFF, 0, 0] := by decide
    have ht := ntag_protect_tag [] _ cfg rp pf pages hk h
    refine ⟨by rw [ht]; rfl, ?_⟩
    rw [ht]
    exact (ntag_exact [] _ _ hk).mpr ⟨rfl, rfl⟩

example : liteProtectKeyWrite [1, 2, 3, 4, 5, 6, 7, 8] (some [])
    = .ok (some ([32, 8, 1, 2, 3, 4, 5, 6, 7, 8, 1, 9, 0, 1, 0x80, 0x87] ++ List.replicate 16 0)) := by decide

/-- `protect(pw)` then `authenticate` on NTAG21x: the tag whose PWD / PACK pages are the pages the
reader wrote answers PACK to `authenticate(pw)`, which is true; a password with another derived
key is false. -/
theorem protect_then_auth_ntag (pw pw' key key' cfg : Bytes) (rp : Bool) (pf : Nat) (pages : List Bytes)
    (hk : ntagKey pw = .ok key) (hk' : ntagKey pw' = .ok key') (h : ntagProtectPages pw rp pf cfg = .ok pages) :
    ntagAuthenticate pw (.ok ((NtagTag.ofPages pages).respond (ntagAuthCmd key))) = .ok true
    ∧ (key' ≠ key → ntagAuthenticate pw' (.ok ((NtagTag.ofPages pages).respond (ntagAuthCmd key'))) ≠ .ok true) := by
  rw [ntag_protect_tag pw key cfg rp pf pages hk h]
  constructor
  · exact (ntag_exact pw key _ hk).mpr ⟨rfl, rfl⟩
  · intro hne hc
    have := (ntag_exact pw' key' _ hk').mp hc
    have h6 := ntagKey_length pw key hk
    have h6' := ntagKey_length pw' key' hk'
    apply hne
    rw [← List.take_append_drop 4 key', ← List.take_append_drop 4 key, ← this.1, ← this.2]

example : ntagProtectPages [1, 2, 3, 4, 5, 6] true 4 (List.replicate 16 0)
    = .ok [[0, 0, 0, 4], [0x80, 0, 0, 0], [1, 2, 3, 4], [5, 6, 0, 0]] := by decide

/-- Lite-S external authentication / `write_with_mac`: the MAC_A the reader puts into the write
command is the MAC_A the tag of the manual computes (key SK2|SK1, write counter and block number in
the first word), so the tag accepts the write; the command also carries the write counter. -/
theorem lite_s_write_mac_accepted (C : Cipher) (hC : BlockCipher C) (idm key rc wblock data : Bytes) (block : Nat) (sk : Bytes)
    (hidm : idm.length = 8) (hk : key.length = 16) (hrc : rc.length = 16) (hrcB : IsBytes rc)
    (hsk : sessionKey C key rc = .ok sk) (hw : wblock.length = 16) (hd : data.length = 16) (hb : block ≤ 255)
    (hwB : IsBytes wblock) (hdB : IsBytes data) :
    ∃ cmd, writeWithMacCmd C idm (some ⟨sk, rc.take 8⟩) data block (rspFrame idm 6 ([1] ++ wblock)) = .ok cmd
      ∧ cmd.drop 18 = data ++ (LiteTag.macA C ⟨revHalves key, revHalves rc, wblock⟩ block data ++ wblock.take 3 ++ zeros 5) :=
  lite_s_write_mac C hC idm key rc wblock data block sk hidm hk hrc hrcB hsk hw hd hb hwB hdB

/-- Partial (the cryptographic half of "exactly when" is an assumption): `authenticate = true`
implies that the MAC field received from the tag equals `generate_mac` of the received ID block
under the reader's own session key (derived from the password and the challenge) - all eight
octets - and that exactly this session key is stored for later `read_with_mac` calls.  NOT
proved: that only a tag holding the key can produce that MAC. -/
theorem auth_sound_partial (C : Cipher) (idm pw rc rsp1 rsp2 : Bytes) (s : Option Session)
    (h : liteAuthenticate C idm pw rc rsp1 rsp2 = .ok (true, s)) :
    ∃ key sk data, liteKey pw = .ok key ∧ sessionKey C key rc = .ok sk
      ∧ readRsp idm [0x82, 0x81] rsp2 = .ok data
      ∧ generateMac C (slice data 0 (-16)) sk (rc.take 8) false = .ok (slice data (-16) (-8))
      ∧ s = some ⟨sk, rc.take 8⟩ :=
  lite_auth_true C idm pw rc rsp1 rsp2 s h

/-! ## histories: many calls on one tag object -/

open NfcVerif.AuthHist NfcVerif.AuthHist.RW NfcVerif.AuthCard

/-- EVERY session of EVERY history (FeliCa Lite): take any air interface `x` (any card, any attacker,
as a state machine), any start state, any calls `pre` before and `post` after.  If call number
`pre.length`, `authenticate(pw)` with the challenge `rc` that `os.urandom(16)` returned in THAT call,
returns True, then: the command that wrote the challenge block carried THIS `rc`; it and the read of
the ID and MAC blocks were answered during THIS call by `rsp1`, `rsp2` (after at most two unanswered
attempts each); the MAC field of `rsp2` equals `generate_mac` of the received ID block under the
session key derived from the password and THIS challenge (all eight octets); and exactly that
session is what the tag object holds afterwards.  Nothing that happened in `pre` - an earlier
challenge, an earlier session key, an earlier verdict - takes part. -/
theorem session_sound_every_history {σ : Type} (C : Cipher) (forget : Bool) (x : Air σ) (idm pw rc : Bytes)
    (pre post : List (Op σ)) (s0 : St σ)
    (h : (run C forget x idm false (pre ++ .auth pw rc :: post) s0).1[pre.length]? = some (.ok (.bool true))) :
    ∃ key sk c1 c2 rsp1 rsp2 data t1,
      liteKey pw = .ok key ∧ sessionKey C key rc = .ok sk
      ∧ liteChallengeCmd idm rc = .ok c1 ∧ readCmd idm [0x82, 0x81] = .ok c2
      ∧ Answered c1 rsp1 (run C forget x idm false pre s0).2.tr t1
      ∧ Answered c2 rsp2 t1 (run C forget x idm false (pre ++ [.auth pw rc]) s0).2.tr
      ∧ readRsp idm [0x82, 0x81] rsp2 = .ok data
      ∧ generateMac C (slice data 0 (-16)) sk (rc.take 8) false = .ok (slice data (-16) (-8))
      ∧ (run C forget x idm false (pre ++ [.auth pw rc]) s0).2.rd = ⟨some ⟨sk, rc.take 8⟩, true⟩ := by
  rw [run_result_at] at h
  injection h with h
  rcases hs : step C forget x idm false (.auth pw rc) (run C forget x idm false pre s0).2 with ⟨r, s'⟩
  rw [hs] at h
  simp only at h
  subst h
  obtain ⟨c1, c2, rsp1, rsp2, sess, t1, hc1, hc2, ha1, ha2, hla, hrd⟩ :=
    authLite_true C forget x idm (step_auth_lite C forget x idm hs)
  obtain ⟨key, sk, data, hkey, hsk, hdata, hmac, hsess⟩ := lite_auth_true C idm pw rc rsp1 rsp2 sess hla
  refine ⟨key, sk, c1, c2, rsp1, rsp2, data, t1, hkey, hsk, hc1, hc2, ha1, ?_, hdata, hmac, ?_⟩
  · rw [run_state_snoc, hs]; exact ha2
  · rw [run_state_snoc, hs, hrd, hsess]

/-- the 16 octets the challenge command writes to the RC block are the challenge of this call
(byte order of the card), for every state of everything else -/
theorem challenge_written_is_session_challenge (idm rc c1 : Bytes) (hidm : idm.length = 8) (hrc : rc.length = 16)
    (h : liteChallengeCmd idm rc = .ok c1) : c1.drop 16 = revHalves rc :=
  challenge_block idm rc c1 hidm hrc h

/-- EVERY session of EVERY history (FeliCa Lite-S, mutual authentication): if call number
`pre.length` returns True then five commands were answered DURING THAT CALL - the write of this
call's challenge, the ID read, the WCNT read, the MAC'ed STATE write whose MAC_A is computed from
the WCNT answer of this call (`writeWithMacCmd ... rsp3`), the MAC'ed STATE read - and the pure
verdict function of these five answers and this call's challenge is True. -/
theorem session_sound_every_history_lite_s {σ : Type} (C : Cipher) (forget : Bool) (x : Air σ) (idm pw rc : Bytes)
    (pre post : List (Op σ)) (s0 : St σ)
    (h : (run C forget x idm true (pre ++ .auth pw rc :: post) s0).1[pre.length]? = some (.ok (.bool true))) :
    ∃ c1 c2 c3 c4 c5 rsp1 rsp2 rsp3 rsp4 rsp5 sess,
      liteChallengeCmd idm rc = .ok c1 ∧ readCmd idm [0x82, 0x81] = .ok c2 ∧ readCmd idm [0x90] = .ok c3
      ∧ writeWithMacCmd C idm sess ([1] ++ zeros 15) 0x92 rsp3 = .ok c4 ∧ readCmd idm [0x92, 0x81] = .ok c5
      ∧ Answers [(c1, rsp1), (c2, rsp2), (c3, rsp3), (c4, rsp4), (c5, rsp5)]
          (run C forget x idm true pre s0).2.tr (run C forget x idm true (pre ++ [.auth pw rc]) s0).2.tr
      ∧ liteAuthenticate C idm pw rc rsp1 rsp2 = .ok (true, sess)
      ∧ liteSAuthenticate C idm pw rc rsp1 rsp2 rsp3 rsp4 rsp5 = .ok true
      ∧ (run C forget x idm true (pre ++ [.auth pw rc]) s0).2.rd = ⟨sess, true⟩ := by
  rw [run_result_at] at h
  injection h with h
  rcases hs : step C forget x idm true (.auth pw rc) (run C forget x idm true pre s0).2 with ⟨r, s'⟩
  rw [hs] at h
  simp only at h
  subst h
  obtain ⟨c1, c2, c3, c4, c5, rsp1, rsp2, rsp3, rsp4, rsp5, sess, h1, h2, h3, h4, h5, ha, hla, hls, hrd⟩ :=
    authLiteS_true C forget x idm (step_auth_liteS C forget x idm hs)
  refine ⟨c1, c2, c3, c4, c5, rsp1, rsp2, rsp3, rsp4, rsp5, sess, h1, h2, h3, h4, h5, ?_, hla, hls, ?_⟩
  · rw [run_state_snoc, hs]; exact ha
  · rw [run_state_snoc, hs, hrd]

/-- `FelicaLite.authenticate` never looks at `_sk`, `_iv`, `_authenticated`: in two states of the tag
object over the same world the call has the same outcome (verdict or exception), makes the same
exchanges and leaves the same world - there is nothing an implementation of this model could cache
from one authentication to the next. -/
theorem auth_verdict_independent_of_object_state {σ : Type} (C : Cipher) (forget : Bool) (x : Air σ) (idm pw rc : Bytes)
    (rd1 rd2 : Reader) (w : σ) (tr : List (Bytes × Option Bytes)) :
    (authLite C forget x idm pw rc ⟨rd1, w, tr⟩).1 = (authLite C forget x idm pw rc ⟨rd2, w, tr⟩).1
    ∧ (authLite C forget x idm pw rc ⟨rd1, w, tr⟩).2.w = (authLite C forget x idm pw rc ⟨rd2, w, tr⟩).2.w
    ∧ (authLite C forget x idm pw rc ⟨rd1, w, tr⟩).2.tr = (authLite C forget x idm pw rc ⟨rd2, w, tr⟩).2.tr := by
  obtain ⟨h1, h2, h3⟩ := authLite_blind C forget x idm pw rc ⟨rd1, w, tr⟩ ⟨rd2, w, tr⟩ ⟨rfl, rfl⟩
  exact ⟨h1, h2, h3⟩

theorem readRsp_length (idm : Bytes) (blocks : List Nat) (rsp data : Bytes) (h : readRsp idm blocks rsp = .ok data) :
    data.length = blocks.length * 16 := by
  unfold readRsp at h
  rcases Py.bind_eq_ok.mp h with ⟨d, _, h⟩
  split at h
  · cases h
  · rename_i hl
    injection h with h
    subst h
    simp only [List.length_drop]
    omega

/-- EVERY `read_with_mac` of EVERY history, for ANY number of blocks: if call number `pre.length`
returns data `d`, then ONE command `c` asked for all the blocks plus the MAC block (it was
answered during this call by `rsp`, after at most two unanswered attempts), `d` has 16 octets for
every requested block, the MAC field of `rsp` equals `generate_mac` over ALL of `d` under the
session the tag object held (there is no returned block outside the verified MAC), and the tag
object is unchanged. -/
theorem read_covered_every_history {σ : Type} (C : Cipher) (forget : Bool) (x : Air σ) (idm : Bytes) (liteS : Bool)
    (blocks : List Nat) (d : Bytes) (pre post : List (Op σ)) (s0 : St σ)
    (h : (run C forget x idm liteS (pre ++ .readMac blocks :: post) s0).1[pre.length]? = some (.ok (.data (some d)))) :
    ∃ sess c rsp data,
      (run C forget x idm liteS pre s0).2.rd.sess = some sess
      ∧ readCmd idm (blocks ++ [0x81]) = .ok c
      ∧ Answered c rsp (run C forget x idm liteS pre s0).2.tr (run C forget x idm liteS (pre ++ [.readMac blocks]) s0).2.tr
      ∧ readRsp idm (blocks ++ [0x81]) rsp = .ok data ∧ d = slice data 0 (-16)
      ∧ d.length = 16 * blocks.length
      ∧ generateMac C d sess.sk sess.iv false = .ok (slice data (-16) (-8))
      ∧ (run C forget x idm liteS (pre ++ [.readMac blocks]) s0).2.rd = (run C forget x idm liteS pre s0).2.rd := by
  rw [run_result_at] at h
  injection h with h
  rcases hs : step C forget x idm liteS (.readMac blocks) (run C forget x idm liteS pre s0).2 with ⟨r, s'⟩
  rw [hs] at h
  simp only at h
  subst h
  obtain ⟨sess, c, rsp, hsess, hc, ha, hv, hrd⟩ := readMac_some C x idm (step_readMac C forget x idm hs)
  obtain ⟨data, hdata, hd, hmac⟩ := readWithMac_some C idm sess blocks rsp d hv
  have hlen := readRsp_length idm (blocks ++ [0x81]) rsp data hdata
  refine ⟨sess, c, rsp, data, hsess, hc, ?_, hdata, hd, ?_, hmac, ?_⟩
  · rw [run_state_snoc, hs]; exact ha
  · rw [hd]
    unfold slice
    rw [clampBound_zero, clampBound_neg _ 16 (-16) (by simp) (by omega) (by rw [hlen]; simp; omega)]
    simp [hlen]; omega
  · rw [run_state_snoc, hs, hrd]

/-- `write_with_mac(data, block)` in ANY state of tag object and world: when the call completes,
the write counter that went into MAC_A and into the command is the one the card delivered IN THIS
CALL (`rspW` answers the read of block 90h that this call sent first); no counter kept by the tag
object exists in the model. -/
theorem write_counter_read_in_every_write {σ : Type} (C : Cipher) (x : Air σ) (idm data : Bytes) (block : Nat) (s s' : St σ)
    (h : writeMac C x idm data block s = (.ok (), s')) :
    ∃ sess c0 rspW c rsp t1, s.rd.sess = some sess ∧ readCmd idm [0x90] = .ok c0 ∧ Answered c0 rspW s.tr t1
      ∧ writeWithMacCmd C idm (some sess) data block rspW = .ok c ∧ Answered c rsp t1 s'.tr
      ∧ writeRsp idm rsp = .ok () ∧ s'.rd = s.rd :=
  writeMac_ok C x idm h

/-- The repaired behaviour (`forget = true`, fixes/C20/0003): an authentication that does not
return True - refused, or ended by a `TagCommandError` - leaves NO session in the tag object,
whatever an earlier authentication had established, and `read_with_mac` then raises RuntimeError
without sending anything. -/
theorem failed_auth_leaves_no_session_repaired {σ : Type} (C : Cipher) (x : Air σ) (idm pw rc key : Bytes) (s : St σ)
    (blocks : List Nat) (hk : liteKey pw = .ok key) (h : (authLite C true x idm pw rc s).1 ≠ .ok true) :
    (authLite C true x idm pw rc s).2.rd = ⟨none, false⟩
    ∧ readMac C x idm blocks (authLite C true x idm pw rc s).2 = (.error .runtime, (authLite C true x idm pw rc s).2) := by
  have h1 := failed_auth_forgets C x idm hk h
  exact ⟨h1, readMac_no_session C x idm (by rw [h1])⟩

/-- the identity "cipher": enough to run concrete histories inside the kernel -/
def idC : Cipher := fun _ b => b
def idm0 : Bytes := [1, 2, 3, 4, 5, 6, 7, 8]

/-- a device that knows no key: it acknowledges every write and answers every read with one and
the same frame - the one it overheard when the genuine card answered the first authentication
(key, challenge and ID block all zero, MAC 00..00 under the identity cipher) -/
def parrot : Air Unit := fun w cmd =>
  (some (if (cmd.drop 1).take 1 = [8] then writeOk idm0 else rspFrame idm0 6 ([2] ++ zeros 32)), w)

def staleHistory : List (Op Unit) :=
  [.auth (zeros 16) (zeros 16), .auth (zeros 16) (List.replicate 16 1), .readMac [1]]

/-- Finding `stale-session-after-failed-auth` (the code as found, `forget = false`): the first
authentication succeeds, the second one - another challenge, the device replays the old answer -
is refused as it must, and yet `read_with_mac` returns the replayed frame's data, verified under
the session key of the FIRST authentication.  `failed_auth_leaves_no_session_repaired` is false
for `forget = false`. -/
theorem stale_session_counterexample :
    (run idC false parrot idm0 false staleHistory ⟨Reader.init, (), []⟩).1
      = [.ok (.bool true), .ok (.bool false), .ok (.data (some (zeros 16)))] := by decide +kernel

/-- the same history on the repaired code: RuntimeError("authentication required") -/
theorem stale_session_repaired_example :
    (run idC true parrot idm0 false staleHistory ⟨Reader.init, (), []⟩).1
      = [.ok (.bool true), .ok (.bool false), .error .runtime] := by decide +kernel

example : (run idC false parrot idm0 false (staleHistory.take 1 ++ .auth (zeros 16) (List.replicate 16 1) :: [.readMac [1]])
    ⟨Reader.init, (), []⟩).1[(staleHistory.take 1).length]? = some (.ok (.bool false)) := by decide +kernel

/-- non-vacuity of `session_sound_every_history` / `read_covered_every_history`: a history with a
successful session and a successful MAC'ed read -/
example : (run idC false parrot idm0 false ([] ++ .auth (zeros 16) (zeros 16) :: [.readMac [1]]) ⟨Reader.init, (), []⟩).1[0]?
    = some (.ok (.bool true)) := by decide +kernel
example : (run idC false parrot idm0 false ([.auth (zeros 16) (zeros 16)] ++ .readMac [1] :: []) ⟨Reader.init, (), []⟩).1[1]?
    = some (.ok (.data (some (zeros 16)))) := by decide +kernel

/-! ### against the stateful card of the manuals -/

/-- Mutual authentication succeeds in EVERY card state (the C20-r2m3 class: counters are read from
the card): take a Lite-S card that holds the key of `pw` in the layout `protect` writes
(`Holds`: nothing is assumed about the value of its write counter, its challenge block, its
authentication status, MC or the user blocks) and ANY state of the tag object; `authenticate(pw)`
with any challenge returns True, the session is the one of this challenge, the card is externally
authenticated, has counted two more writes and still `Holds` the key - so the statement applies
again to the next call, whatever was written in between. -/
theorem mutual_auth_complete_every_card_state (C : Cipher) (hC : BlockCipher C) (forget : Bool) (c : Card)
    (idm pw key rc : Bytes) (rd : Reader) (tr : List (Bytes × Option Bytes))
    (h : Holds c idm key) (hkey : liteKey pw = .ok key) (hrc : rc.length = 16) (hrcB : IsBytes rc) :
    (∃ sk tr', sessionKey C key rc = .ok sk ∧
      authLiteS C forget (honest C) idm pw rc ⟨rd, c, tr⟩
        = (.ok true, ⟨⟨some ⟨sk, rc.take 8⟩, true⟩, afterAuth c rc, tr'⟩))
    ∧ Holds (afterAuth c rc) idm key ∧ (afterAuth c rc).extAuth = true :=
  authLiteS_card C hC forget c idm pw key rc rd tr h hkey hrc hrcB

/-- a card that `Holds` the factory key, with write counter FF FF 00 -/
def card0 : Card :=
  Card.ofBlocks true idm0 [(0x80, zeros 16), (0x82, idm0 ++ zeros 8), (0x87, zeros 16), (0x88, [0xFF, 0xFF, 0xFF, 0, 7] ++ zeros 11),
    (0x90, [0xFF, 0xFF, 0] ++ zeros 13), (0x92, zeros 16), (5, zeros 16)] false false

example : Holds card0 idm0 (zeros 16) :=
  ⟨rfl, rfl, rfl, rfl, rfl, ⟨_, rfl, rfl, by decide⟩, ⟨_, rfl, rfl, by decide⟩, rfl, rfl⟩

example : liteKey [] = .ok (zeros 16) := by decide

/-- Every session of a history of authentications succeeds: each `authenticate` meets a card whose
write counter was advanced by all the writes before it. -/
theorem every_session_complete (C : Cipher) (hC : BlockCipher C) (forget : Bool) (idm key : Bytes)
    (calls : List (Bytes × Bytes)) (hcalls : ∀ p ∈ calls, liteKey p.1 = .ok key ∧ p.2.length = 16 ∧ IsBytes p.2)
    (c : Card) (rd : Reader) (tr : List (Bytes × Option Bytes)) (h : Holds c idm key) :
    (run C forget (honest C) idm true (calls.map fun p => Op.auth p.1 p.2) ⟨rd, c, tr⟩).1
      = calls.map fun _ => .ok (.bool true) :=
  sessions_card C hC forget idm key calls hcalls c rd tr h

/-- `authenticate`, `write_with_mac(data, n)`, `authenticate` (the history of C20-r2m3): against the
card that holds the key and lets block `n` be written, all three calls succeed for EVERY initial
write counter, the block holds the data, the tag object is authenticated. -/
theorem auth_write_auth_complete (C : Cipher) (hC : BlockCipher C) (forget : Bool) (c : Card) (idm pw key rc1 rc2 data : Bytes)
    (n : Nat) (rd : Reader) (tr : List (Bytes × Option Bytes)) (h : Holds c idm key) (hkey : liteKey pw = .ok key)
    (hrc1 : rc1.length = 16) (hrc1B : IsBytes rc1) (hrc2 : rc2.length = 16) (hrc2B : IsBytes rc2)
    (hn : n < 14) (hpn : c.present n = true) (hrw : c.mcBit 0 n = true) (hd : data.length = 16) (hdB : IsBytes data) :
    let r := run C forget (honest C) idm true [.auth pw rc1, .writeMac data n, .auth pw rc2] ⟨rd, c, tr⟩
    r.1 = [.ok (.bool true), .ok .unit, .ok (.bool true)] ∧ r.2.w.mem n = some data ∧ r.2.rd.authed = true :=
  auth_write_auth_card C hC forget c idm pw key rc1 rc2 data n rd tr h hkey hrc1 hrc1B hrc2 hrc2B hn hpn hrw hd hdB

example : card0.present 5 = true ∧ card0.mcBit 0 5 = true := by decide

/-- `protect(pw)` followed by `authenticate(pw)` succeeds (FeliCa Lite-S), through ALL the commands
of both methods against the stateful card: on a card whose system blocks are not locked yet -
whatever key it holds, whatever its write counter, challenge block and user blocks are -
`FelicaLiteS.protect(pw, read_protect, protect_from >= 1)` reads MC and CKV, writes CKV and the key
block, authenticates mutually with the new key (its own challenge `rc0`) and writes MC: True;
the `authenticate(pw)` that follows on the same tag object (challenge `rc1`, the counter advanced
by the six writes before it) returns True.  `pw` is the empty password or has at least 16 octets. -/
theorem protect_then_authenticate_complete (C : Cipher) (hC : BlockCipher C) (forget : Bool) (c : Card) (idm p rc0 rc1 : Bytes)
    (rp : Bool) (pf : Nat) (rd : Reader) (tr : List (Bytes × Option Bytes)) (h : Unlocked c idm)
    (hp : p = [] ∨ 16 ≤ p.length)
    (hrc0 : rc0.length = 16) (hrc0B : IsBytes rc0) (hrc1 : rc1.length = 16) (hrc1B : IsBytes rc1) :
    (run C forget (honest C) idm true [.protect (some p) rp pf rc0, .auth p rc1] ⟨rd, c, tr⟩).1
      = [.ok (.bool true), .ok (.bool true)] :=
  protect_then_auth_card C hC forget c idm p rc0 rc1 rp pf rd tr h hp hrc0 hrc0B hrc1 hrc1B

/-- the card of `card0` with a CKV block is `Unlocked` (MC octet 2 is FFh) -/
def card1 : Card :=
  Card.ofBlocks true idm0 [(0x80, zeros 16), (0x82, idm0 ++ zeros 8), (0x86, zeros 16), (0x87, List.replicate 16 9),
    (0x88, [0xFF, 0xFF, 0xFF, 0, 7, 0] ++ zeros 10), (0x90, [0xFE, 0xFF, 0] ++ zeros 13), (0x92, zeros 16)] false false

example : Unlocked card1 idm0 :=
  ⟨rfl, rfl, rfl, ⟨_, _, _, _, _, _, rfl, rfl⟩, ⟨_, _, _, rfl, rfl⟩, rfl, ⟨_, rfl, rfl, by decide⟩, ⟨_, rfl, rfl, by decide⟩, rfl, rfl⟩

/-! ### frames of any length, PWD_AUTH answers of any length -/

/-- a frame shorter than the 12 octets of length, code, IDm and status flags is refused with
`TagCommandError(RSP_LENGTH_ERROR)`, never indexed -/
theorem short_frame_refused (idm : Bytes) (code : Nat) (rsp : Bytes) (h : rsp.length < 12) :
    t3Response idm code rsp = .error (.tagCmd 1) := by
  unfold t3Response
  rw [if_pos h]

/-- NTAG21x: `authenticate` is True only for an answer of EXACTLY two octets (the C20-m3 / r2m4
class: an empty answer, a one-octet NAK that equals the first PACK octet, PACK followed by more
octets are all refused) -/
theorem ntag_auth_true_length (pw r : Bytes) (h : ntagAuthenticate pw (.ok r) = .ok true) : r.length = 2 := by
  unfold ntagAuthenticate at h
  rcases Py.bind_eq_ok.mp h with ⟨key, hk, h⟩
  have hl := ntagKey_length pw key hk
  simp only at h
  injection h with h
  have := of_decide_eq_true h
  rw [this]
  simp [hl]

example : ntagAuthenticate [1, 2, 3, 4, 0, 0] (.ok [0]) = .ok false := by decide
example : ntagAuthenticate [] (.ok [0]) = .ok false := by decide
example : ntagAuthenticate [] (.ok []) = .ok false := by decide
example : ntagAuthenticate [] (.ok [0, 0, 0]) = .ok false := by decide
example : ntagAuthenticate [] (.ok [0, 0]) = .ok true := by decide

/-! ## the public attribute `tag.ndef` around `authenticate()` (`Model/AuthNdef.lean`) -/

open NfcVerif.AuthNdef NfcVerif.AuthNdef.NRW

/-- Every octet of `tag.ndef.octets` obtained after a successful `authenticate()` was covered by a
MAC verified in THAT session (the C20-r3m3 class).  Take any history of calls on one FelicaLite /
FelicaLiteS tag object over any air interface: `pre` (anything - in particular `tag.ndef` looked at
before the authentication, answered by falsified frames and cached in the tag object), then
`authenticate(pw)` with challenge `rc` returning True, then calls `mid` none of which is or contains
an authentication (`Quiet`: `tag.ndef`, `has_changed`, `format`, `read_with_mac`, `write_with_mac`,
plain reads and writes, anything happening to the world), then `tag.ndef` returning data `d`.  Then
`d` is `VerifiedNdef` under the session key derived from `pw` and THIS challenge: the attribute
block that gives the length and every data block of `d` came out of `read_with_mac` accepting a
frame under that session - nothing cached before the authentication, nothing read without MAC.
Both behaviours of a failed MAC (`noneOk`) and of a failed authentication (`forget`) are covered. -/
theorem ndef_after_auth_is_mac_verified {σ : Type} (C : Cipher) (forget noneOk : Bool) (x : Air σ) (idm : Bytes) (liteS : Bool)
    (pre mid post : List (NOp σ)) (pw rc d : Bytes) (n0 : NSt σ) (hq : ∀ op ∈ mid, Quiet op)
    (ha : (nrun C forget noneOk x idm liteS (pre ++ .auth pw rc :: (mid ++ .ndef :: post)) n0).1[pre.length]?
      = some (.ok (.bool true)))
    (hn : (nrun C forget noneOk x idm liteS (pre ++ .auth pw rc :: (mid ++ .ndef :: post)) n0).1[pre.length + 1 + mid.length]?
      = some (.ok (.data (some d)))) :
    ∃ key sk, liteKey pw = .ok key ∧ sessionKey C key rc = .ok sk ∧ VerifiedNdef C idm ⟨sk, rc.take 8⟩ d := by
  -- the authentication
  rw [nrun_result_at] at ha
  injection ha with ha
  rcases hs : nstep C forget noneOk x idm liteS (.auth pw rc) (nrun C forget noneOk x idm liteS pre n0).2 with ⟨r, n2⟩
  rw [hs] at ha
  simp only at ha
  subst ha
  simp only [nstep] at hs
  obtain ⟨b, n2', h2, k2⟩ := nbind_ok.mp hs
  obtain ⟨hb, hn2⟩ := npure_ok.mp k2
  injection hb with hb
  subst hb hn2
  obtain ⟨hnd, hum, key, sk, hkey, hsk, hrd⟩ := auth_true C forget x idm h2
  have hj : J C idm ⟨sk, rc.take 8⟩ n2' := ⟨hum, by rw [hrd], fun d hd => by rw [hnd] at hd; cases hd⟩
  -- the quiet calls and the final tag.ndef
  have hsplit : pre ++ NOp.auth pw rc :: (mid ++ NOp.ndef :: post) = (pre ++ [NOp.auth pw rc] ++ mid) ++ NOp.ndef :: post := by simp
  have hlen : pre.length + 1 + mid.length = (pre ++ [NOp.auth pw rc] ++ mid).length := by simp; omega
  rw [hsplit, hlen, nrun_result_at] at hn
  injection hn with hn
  have hstate : (nrun C forget noneOk x idm liteS (pre ++ [NOp.auth pw rc] ++ mid) n0).2
      = (nrun C forget noneOk x idm liteS mid n2').2 := by
    rw [nrun_append, nrun_append, nrun_cons, nrun_nil]
    simp only [nstep]
    rw [hs]
  rw [hstate] at hn
  have hj3 := nrun_J C forget noneOk x idm liteS _ mid hq n2' hj
  obtain ⟨_, hv⟩ := ndefProp_J C noneOk x idm (liteS := liteS) hj3
  refine ⟨key, sk, hkey, hsk, hv d ?_⟩
  simp only [nstep] at hn
  rw [nbind_apply] at hn
  rcases e0 : ndefProp C noneOk x idm liteS (nrun C forget noneOk x idm liteS mid n2').2 with ⟨r0, m0⟩
  rw [e0] at hn
  cases r0 with
  | error e => simp at hn
  | ok v =>
    simp only [npure_apply] at hn
    injection hn with hn
    injection hn with hn
    rw [hn]

/-- a successful `authenticate()` (FelicaLite and FelicaLiteS) leaves no cached NDEF object, switches the
NDEF read service to `read_with_mac` and stores the session of this call's challenge - in any state -/
theorem auth_drops_ndef_cache {σ : Type} (C : Cipher) (forget : Bool) (x : Air σ) (idm pw rc : Bytes) (liteS : Bool) (n n' : NSt σ)
    (h : auth C forget x idm liteS pw rc n = (.ok true, n')) :
    n'.ndef = none ∧ n'.useMac = true ∧
      ∃ key sk, liteKey pw = .ok key ∧ sessionKey C key rc = .ok sk ∧ n'.st.rd = ⟨some ⟨sk, rc.take 8⟩, true⟩ :=
  auth_true C forget x idm h

/-- a FeliCa Lite card for the identity cipher, NDEF formatted, message 01 02 03 -/
def card2 : Card :=
  Card.ofBlocks false idm0 [(0, [0x10, 4, 1, 0, 13, 0, 0, 0, 0, 0, 1, 0, 0, 3, 0, 0x26]), (1, [1, 2, 3] ++ zeros 13),
    (0x80, zeros 16), (0x82, idm0 ++ zeros 8), (0x87, zeros 16), (0x88, [0xFF, 0xFF, 0xFF, 1] ++ zeros 12)] false false

/-- non-vacuity: `tag.ndef` (read without MAC and cached), `authenticate`, `tag.ndef` (read with MAC) -/
example : (nrun idC false false (honest idC) idm0 false ([.ndef] ++ .auth [] (List.replicate 16 7) :: ([] ++ .ndef :: []))
    ⟨⟨Reader.init, card2, []⟩, none, false, true⟩).1
    = [.ok (.data (some [1, 2, 3])), .ok (.bool true), .ok (.data (some [1, 2, 3]))] := by decide +kernel

/-- the same calls while the first answers are falsified in transit (an air interface that flips a bit
of block 1 in the second exchange, the unprotected read of the data block): the application sees the falsified data before the
authentication and the card's data after it -/
def falsifier : Air (Card × Nat) := fun w cmd =>
  let r := w.1.command idC cmd
  ((if w.2 = 1 then r.1.map (fun f => f.set 13 (f.getD 13 0 ^^^ 4)) else r.1), (r.2, w.2 + 1))

example : (nrun idC false false falsifier idm0 false [.ndef, .auth [] (List.replicate 16 7), .ndef]
    ⟨⟨Reader.init, (card2, 0), []⟩, none, false, true⟩).1
    = [.ok (.data (some [5, 2, 3])), .ok (.bool true), .ok (.data (some [1, 2, 3]))] := by decide +kernel

/-- The NDEF cache of `nfc.tag.Tag` for every tag type (used for NTAG21x, which has no MAC): in any
history, right after an `authenticate()` - or `protect()` / `format()` - that returned True the next
`tag.ndef` READS THE TAG and hands out exactly what that read gave, whatever was cached before
(data read before the authentication, possibly falsified, or before the pages were protected). -/
theorem ndef_read_again_after_authenticate (pre post : List TagCache.COp) (c f : Option Bytes) (op : TagCache.COp)
    (hop : op = .auth (.ok true) ∨ op = .protect (.ok true) ∨ op = .format (.ok true)) :
    (TagCache.crun (pre ++ op :: .ndef f :: post) c).1[pre.length + 1]? = some ⟨.ok f, true⟩ :=
  TagCache.fresh_after_success pre post c f op hop

example : (TagCache.crun [.ndef (some [1]), .ndef (some [2]), .auth (.ok false), .ndef (some [3]), .auth (.ok true), .ndef (some [4])] none).1
    = [⟨.ok (some [1]), true⟩, ⟨.ok (some [1]), false⟩, ⟨.ok none, false⟩, ⟨.ok (some [1]), false⟩, ⟨.ok none, false⟩,
       ⟨.ok (some [4]), true⟩] := by decide

end NfcVerif.C20
