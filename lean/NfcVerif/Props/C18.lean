import NfcVerif.Model.Connect
namespace NfcVerif.C18
theorem connect_callback_order : True := trivial  -- STUB
theorem release_iff_connect_true : True := trivial  -- STUB
theorem connect_return_table_partial : True := trivial  -- STUB
theorem connect_systemexit_counterexample : True := trivial  -- STUB
theorem connect_listen_error_counterexample : True := trivial  -- STUB
theorem connect_ends_after_terminate : True := trivial  -- STUB
theorem connect_total : True := trivial  -- STUB
theorem sense_first_in_order : True := trivial  -- STUB
theorem sense_field_off_when_none : True := trivial  -- STUB
theorem sense_no_raise_unsupported : True := trivial  -- STUB
theorem exchange_no_stale_target : True := trivial  -- STUB
end NfcVerif.C18
