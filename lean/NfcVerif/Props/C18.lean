import NfcVerif.Lemmas.Sense
import NfcVerif.Lemmas.Connect
import NfcVerif.Lemmas.ConnectErr
import NfcVerif.Lemmas.ConnectPrompt
/-!
# C18 - connect() and sense() honour their documented contract

Statements only; proofs in `Lemmas/Sense.lean`, `Lemmas/Connect.lean`.
Models: `Model/Sense.lean` (`sense`, `listen`, `exchange`), `Model/Connect.lean`
(`connect`, `_rdwr_connect`, `_llcp_connect`, `_card_connect`) - transcriptions of
`src/nfc/clf/__init__.py` against a scripted world (every driver/collaborator call consumes one
answer of the script `env` and is logged together with the answer; `terminate()` is the
stream `ts`, an exhausted stream answers true).

The theorems quantify over every option record `o` (which of rdwr/llcp/card, every callback
absent or returning any of the seven result values, on-startup results, roles, target lists,
iterations), every script `env` and every terminate stream `ts`.

`mon log` is the monitor of the documented callback discipline (`Lemmas/Connect.lean`):
on-startup first (llcp, rdwr, card, at most once each); then activations: on-discover (rdwr/card),
on-connect only after a true on-discover of the same role (llcp: directly), on-release only - and as
the next callback - after a true on-connect of the same role; nothing after the on-connect that
returned false or the on-release that returned true.  `mon log = none` means the history is illegal.
-/
namespace NfcVerif.C18
open NfcVerif NfcVerif.Clf

/-! ## connect() -/

/-- The callbacks of every run come in the documented order. -/
theorem connect_callback_order (o : Opts) (env : List Ans) (ts : List Bool) :
    (mon (connect o env ts).2.log).isSome = true := by
  obtain ⟨q, h, _⟩ := connect_spec o env ts
  simp [h]

/-- For every role: on-release ran exactly once for every on-connect that returned a true value,
whenever connect() ended by returning None, an object or on-release's value; when it ended through
an exception (returned False, or the exception escaped) at most one on-release is missing - the one
of the activation the exception interrupted.  ("Never otherwise" is `connect_callback_order`: the
monitor admits on-release only directly after a true on-connect of the same role.) -/
theorem release_iff_connect_true (o : Opts) (env : List Ans) (ts : List Bool) (r : Role) :
    let log := (connect o env ts).2.log
    log.countP (isRelease r) ≤ log.countP (isConnTrue r) ∧
    log.countP (isConnTrue r) ≤ log.countP (isRelease r) + 1 ∧
    (∀ v, (connect o env ts).1 = .ret v → log.countP (isRelease r) = log.countP (isConnTrue r)) := by
  obtain ⟨q, h, hout⟩ := connect_spec o env ts
  have hc := runFrom_counts r _ (.su 0) q h
  have h0 : owed r (.su 0) = 0 := rfl
  rw [h0] at hc
  have hq : owed r q ≤ 1 := by cases q <;> simp [owed]; split <;> omega
  refine ⟨by omega, by omega, ?_⟩
  intro v hv
  rw [hv] at hout
  have : owed r q = 0 := by
    cases v with
    | none => rcases hout with h | ⟨k, h⟩ <;> subst h <;> rfl
    | obj r' => simp only at hout; subst hout; rfl
    | val r' v => obtain ⟨_, h⟩ := hout; subst h; rfl
  omega

/-- The return value table of the documentation, read off the history:
* None: the last callback/terminate event is a true `terminate()` - or no option survived on-startup;
* the Tag / LogicalLinkController / TagEmulation object of role r: the last callback is the on-connect
  of r and it returned a false value;
* otherwise the (true) value on-release of role r returned - `True` for the default on-release;
* False: exactly for IOError, UnsupportedTargetError, KeyboardInterrupt.
PARTIAL only because of the last case: an exception leaves connect() (`.raised`) exactly in three
situations, and nothing else can (after the repair of F30 a CommunicationError inside listen() is
"no target this round"; every CommunicationError of every command `nfc.tag.activate` sends is absorbed
and, after the repairs fixes/C18/0003 and 0004, no target makes `nfc.tag.activate` raise a TypeError):
* SystemExit, and then the last event is the link loop `llc.run` answering SystemExit (F21, open);
* TypeError, and then the rdwr on-startup returned a true value that is not iterable;
* ValueError, and then an argument error: the rdwr option has a single target (whose own error is
  raised, as documented for sense()), an element that is not a RemoteTarget, or the card option has
  a LocalTarget of unknown technology. -/
theorem connect_return_table_partial (o : Opts) (env : List Ans) (ts : List Bool) :
    ∃ q, mon (connect o env ts).2.log = some q ∧
      (match (connect o env ts).1 with
       | .ret .none => q = .idle true ∨ ∃ k, q = .su k
       | .ret (.obj r) => q = .finObj r
       | .ret (.val r v) => v.truthy = true ∧ q = .finRel r v.code
       | .caught e => isCaught e = true
       | .raised e =>
         (e = .type_ ∧ NonIterableStartup o) ∨ (e = .value ∧ OptsV o) ∨
         (e = .systemExit ∧ (connect o env ts).2.log.getLast? = some (.call .llcRun .sysExit))) := by
  obtain ⟨q, hq, h⟩ := connect_spec o env ts
  refine ⟨q, hq, ?_⟩
  cases hc : (connect o env ts).1 with
  | ret v => rw [hc] at h; cases v <;> exact h
  | caught e => rw [hc] at h; exact h
  | raised e => exact connect_raised o env ts e hc

/-- The full table: when the option record has no argument error and the link loop does not raise
SystemExit during the run, connect() returns - None, False, the object or on-release's value -
whatever targets are discovered and whatever the tag activation commands are answered. -/
theorem connect_return_table (o : Opts) (env : List Ans) (ts : List Bool)
    (h1 : ¬ NonIterableStartup o) (h2 : ¬ OptsV o)
    (h3 : (connect o env ts).2.log.getLast? ≠ some (.call .llcRun .sysExit)) :
    ∀ e, (connect o env ts).1 ≠ .raised e := by
  intro e he
  rcases connect_raised o env ts e he with ⟨_, h⟩ | ⟨_, h⟩ | ⟨_, h⟩
  · exact h1 h
  · exact h2 h
  · exact h3 h

/-! ## the activation step: `nfc.tag.activate` inside `_rdwr_connect` -/

/-- `nfc.tag.activate(clf, target)` on the target `sense()` just returned (`HasT s`: the frontend
holds a remote target), for EVERY target data `f` (technology incl. a target found by `sense_dep`,
SENS_RES, SEL_RES, SDD_RES variant, RID present or not) and EVERY script - whatever the commands of
the type specific activation are answered (RATS / ATTRIB of a Type 4 Tag, AUTHENTICATE and
GET_VERSION of the NXP Type 2 Tag detection, the nested `sense()` calls that re-select the tag; data,
TimeoutError, TransmissionError, ProtocolError, BrokenLinkError at the first or at any later command):
* the history grows by driver/collaborator calls only (no callback, no terminate poll);
* no CommunicationError ever leaves it - a failed activation is "no tag", connect() tries again;
* no interpreter-internal exception (TypeError, AttributeError, IndexError ...) leaves it: a target
  it cannot operate is "no tag" (repairs fixes/C18/0003, 0004);
* what leaves it is exactly a device error: IOError, KeyboardInterrupt, or the UnsupportedTargetError
  of the nested single-target `sense()` - all of which end connect() with False. -/
theorem activate_absorbs_communication_errors (f : Found) (s : St) (h : HasT s) :
    NExt s (tagActivate f s).2 ∧
    ∀ e, (tagActivate f s).1 = .error e →
      isCommErr e = false ∧ e.internal = false ∧
      (e = .io 5 ∨ e = .keyboardInterrupt ∨ e = .unsupportedTarget) := by
  obtain ⟨hn, he⟩ := tagActivate_act f s h
  refine ⟨hn, fun e h' => ?_⟩
  rcases he e h' with hd | hd | hd <;> subst hd
  · exact ⟨rfl, rfl, Or.inl rfl⟩
  · exact ⟨rfl, rfl, Or.inr (Or.inl rfl)⟩
  · exact ⟨rfl, rfl, Or.inr (Or.inr rfl)⟩

/-- the target `connect()` hands to `nfc.tag.activate` is the one the frontend holds: the commands
of the activation go to the target this round's `sense()` returned, never to an earlier one -/
theorem activate_gets_current_target (tl : List TgtSpec) (iters : Int) (s s1 : St) (x : Nat × Found)
    (h : sense tl iters s = (.ok (some x), s1)) : s1.target = .remote x.1 ∧ HasT s1 :=
  ⟨sense_some_target tl iters s s1 x h, x.1, sense_some_target tl iters s s1 x h⟩

def good' : Ans := .found ⟨[0x44, 0x00], [], false, 20, 0, 0⟩
def rdwr4a : Opts :=
  ⟨some ⟨some (.proper, 0), [.a 0], .ret .true_, .ret .false_, .ret .true_, 1, true⟩, none, none⟩
/-- a Type 4A Tag (SEL_RES 20h) -/
def t4a : Ans := .found { sens := [0x44, 0x03], rid := [], p2p := false, atrLen := 0, var := 1 }
def ats : Ans := .found { sens := [0x05, 0x78, 0x80, 0x70, 0x02], rid := [], p2p := false, atrLen := 0 }

/-- the RATS response of a Type 4A Tag is garbled once (TransmissionError / ProtocolError /
BrokenLinkError / TimeoutError): no on-connect for it, the next round connects the tag and connect()
returns the Tag object because on-connect returned a false value -/
example : (connect rdwr4a [.nothing, t4a, .transErr, .nothing, t4a, ats] [false, false, true]).1 = .ret (.obj .rdwr) := by decide
example : (connect rdwr4a [.nothing, t4a, .protoErr, .nothing, t4a, ats] [false, false, true]).1 = .ret (.obj .rdwr) := by decide
example : (connect rdwr4a [.nothing, t4a, .brokenLink, .nothing, t4a, ats] [false, false, true]).1 = .ret (.obj .rdwr) := by decide
example : (connect rdwr4a [.nothing, t4a, .commErr, .nothing, t4a, ats] [false, false, true]).1 = .ret (.obj .rdwr) := by decide
example : (mon (connect rdwr4a [.nothing, t4a, .transErr, .nothing, t4a, ats] [false, false, true]).2.log)
    = some (.finObj .rdwr) := by decide
/-- an NXP Type 2 Tag (SEL_RES 00h, NFCID1 04..): AUTHENTICATE times out, the tag is re-selected,
GET_VERSION fails with a ProtocolError: no tag this round -/
example : (tagActivate { sens := [0x44, 0x00], rid := [], p2p := false, atrLen := 0, tech := 1 }
    { env := [.commErr, .nothing, good', .protoErr], n := 3, log := [], target := .remote 2 }).1 = .ok none := by decide
example : HasT { env := [], n := 3, log := [], target := .remote 2 } := ⟨2, rfl⟩

/-- `nfc.tag.activate` never raises TypeError (nor any other interpreter-internal exception), for
every target and script: the positive form of the two repaired defects (an NFC-DEP target given to
the rdwr option and accepted by on-discover; SENS_RES byte 1 = xCh without RID response). -/
theorem activate_never_typeerror (f : Found) (s : St) (h : HasT s) :
    (tagActivate f s).1 ≠ .error .type_ ∧ ∀ e, (tagActivate f s).1 = .error e → e.internal = false := by
  obtain ⟨_, he⟩ := activate_absorbs_communication_errors f s h
  refine ⟨?_, fun e h' => (he e h').2.1⟩
  intro h'
  have := (he _ h').2.1
  cases this

def rdwrDep : Opts :=
  ⟨some ⟨some (.proper, 0), [.dep 16, .b], .ret .true_, .ret .true_, .ret .true_, 1, true⟩, none, none⟩
/-- the former failing inputs: the DEP target is "no tag", discovery goes on and finds the Type 4B Tag -/
example : (connect rdwrDep [.nothing, good'] [false, true]).1 = .ret .none := by decide
example : (connect rdwrDep [.nothing, good', .nothing, .nothing, good', good'] [false, false, true]).1
    = .ret (.val .rdwr .true_) := by decide
example : (tagActivate { sens := [0x44, 0x0C], rid := [], p2p := false, atrLen := 0, tech := 1 }
    { env := [], n := 2, log := [], target := .remote 1 }).1 = .ok none := by decide

/-- the full statement ("connect() never raises") is false on the current code -/
def ConnectNeverRaises : Prop := ∀ o env ts e, (connect o env ts).1 ≠ .raised e

def llcpOnly : Opts := ⟨none, some ⟨none, .absent, .absent, .initiator⟩, none⟩
def cardDep : Opts := ⟨none, none, some ⟨some (.proper, 0), .dep, .absent, .absent, .absent⟩⟩

/-- F21: SystemExit from the link loop leaves connect() -/
theorem connect_systemexit_counterexample : ¬ ConnectNeverRaises := by
  intro h
  exact h llcpOnly [.found default, .sysExit] [false, false] .systemExit (by decide)

/-- F30 repaired: a CommunicationError raised inside listen() no longer leaves connect() -/
example : (connect cardDep [.nothing, .listenErr] [false, true]).1 = .ret .none := by decide

/-- connect() ends: the main loop needs at most one round per false answer of terminate() plus one,
for every surviving option set, script and stream (the model's fuel `ts.length + 1` is never used up). -/
theorem connect_total (o : Opts) (env : List Ans) (ts : List Bool) (l : Live) (s : St)
    (h : startupPhase o (St.init env) = (.ok l, s)) :
    (mainLoop l (ts.length + 1) ts s).isSome = true := by
  obtain ⟨⟨k, hk⟩, _⟩ := startupPhase_mon o env
  rw [h] at hk
  obtain ⟨r, s', hm, _⟩ := mainLoop_spec l (ts.length + 1) ts s (.su k) (by omega) hk rfl
  simp [hm]

/-- connect() ends promptly once `terminate()` is true: for every terminate predicate that stays
true once it was true (`Mono ts`; the exhausted stream answers true), wherever the first true answer
is given - at the head of the loop, in the presence loop, inside `llc.run`, in the card loop - at
most 21 further events (callbacks, driver/collaborator calls, terminate polls, sleeps) happen before
connect() returns.  `after log = none`: terminate() never answered true (connect() ended for
another reason). -/
theorem connect_ends_after_terminate (o : Opts) (env : List Ans) (ts : List Bool) (hm : Mono ts) :
    after (connect o env ts).2.log = none ∨
    ∃ n, n ≤ 21 ∧ after (connect o env ts).2.log = some n :=
  connect_prompt o env ts hm

/-- The run loop of the link controller (`run_as_initiator` / `run_as_target`, `while not terminate()`)
notices `terminate()` at the head of the very next turn, WHATEVER the traffic is: for every traffic
list `l` (one entry per exchange the peer still answers, `true` = the local link layer has a PDU to send
in the next turn), if `terminate()` answers false `pre.length` times (the peer answering at least that
many exchanges) and then true, the loop makes exactly these polls and ends with the true answer as its
last event - no further exchange, the remaining stream untouched. -/
theorem llc_run_loop_ends_at_first_true (l : List Bool) (pre rest : List Bool) (s : St)
    (hpre : ∀ b ∈ pre, b = false) (hlen : pre.length ≤ l.length) :
    runLoop l (pre ++ true :: rest) s =
      ({ s with log := s.log ++ pre.map (fun _ => Ev.term false) ++ [.term true] }, rest) := by
  induction pre generalizing l s with
  | nil => cases l <;> simp [runLoop, St.emit]
  | cons b pre ih =>
    have hb : b = false := hpre b (by simp)
    subst hb
    cases l with
    | nil => simp at hlen
    | cons a l =>
      simp only [List.cons_append, runLoop]
      rw [ih l (s.emit (.term false)) (fun b hb => hpre b (by simp [hb])) (by simpa using hlen)]
      simp [St.emit]

/-- the loop never makes more polls than the peer answers exchanges plus one, and the traffic flags
do not matter: it is the bounded poll loop `runPolls` -/
theorem llc_run_loop_polls (l : List Bool) (ts : List Bool) (s : St) :
    runLoop l ts s = runPolls (l.length + 1) ts s := runLoop_eq l ts s

/-- busy traffic in every turn, terminate() true at the third poll: three polls, nothing else -/
example : (runLoop [true, true, true, true, true, true] [false, false, true, true] (St.init [])).1.log
    = [.term false, .term false, .term true] := by decide

example : Mono [false, false, true, true] := by simp [Mono, AllTrue]
def cardF : Opts := ⟨none, none, some ⟨some (.proper, 0), .f, .absent, .absent, .absent⟩⟩
example : after (connect cardF [.nothing, good', good', good', good'] [false, false, true]).2.log = some 1 := by decide
/-- card emulation with the real `nfc.tag.emulate`: only an activation that captured a Type 3 Tag
command is emulated (the others are "nothing this round") -/
example : (connect cardF [.nothing, good', good'] [false, false, true]).1 = .ret (.val .card .true_) := by decide
example : (connect cardDep [.nothing, good', good'] [false, true]).1 = .ret .none := by decide

/-! ## sense() / listen() / exchange() -/

/-- `sense()` with RemoteTarget arguments, from any state (any earlier history): the driver is
called in the order given - `mute`, then per iteration the targets whose arguments are valid, then
`mute` - and the call stops at the FIRST call that produced an acceptable target: the returned
target is the product of the last call, no earlier call of this `sense()` produced one. -/
theorem sense_first_in_order (tl : List TgtSpec) (iters : Int) (s : St)
    (hnt : tl.any (· == .notTarget) = false) :
    ∃ seg, (sense tl iters s).2.log = s.log ++ seg ∧ sitesOf seg <+: senseOrder tl iters ∧
      (∀ x, (sense tl iters s).1 = .ok (some x) →
        ∃ pre e, seg = pre ++ [e] ∧ validFind e = true ∧ (∀ y ∈ pre, validFind y = false) ∧
          x.1 + 1 = (sense tl iters s).2.n) ∧
      ((sense tl iters s).1 = .ok none → ∀ e ∈ seg, validFind e = false) := by
  obtain ⟨⟨seg, h1, h2, _, _, h5, h6⟩, _⟩ := sense_spec tl iters s hnt
  refine ⟨seg, h1, h2, ?_, ?_⟩
  · intro x hx
    obtain ⟨pre, e, a, b, c, d, _⟩ := h5 x hx
    exact ⟨pre, e, a, b, c, d⟩
  · intro hn
    exact (h6 (by intro x hx; rw [hn] at hx; cases hx)).1

theorem getLast_snoc {α} (l : List α) (a : α) : (l ++ [a]).getLast? = some a := by
  induction l with
  | nil => rfl
  | cons b r ih => cases r with
    | nil => rfl
    | cons c r' => simpa [List.getLast?] using ih

theorem senseOrder_last (tl : List TgtSpec) (iters : Int) : (senseOrder tl iters).getLast? = some .mute := by
  have hk : ∃ k, (max 1 iters).toNat = k + 1 := ⟨(max 1 iters).toNat - 1, by omega⟩
  obtain ⟨k, hk⟩ := hk
  unfold senseOrder
  rw [hk]
  by_cases hemp : tl.isEmpty = true
  · have : callOrder tl (k + 1) = [] := by
      have : tl = [] := by simpa using hemp
      subst this
      simp [callOrder, iterOrder, reach]
    rw [this]; rfl
  · have : callOrder tl (k + 1) = callOrder tl k ++ (reach tl ++ [.mute]) := by
      simp [callOrder, List.replicate_succ', iterOrder, hemp]
    rw [this, show (Site.mute :: (callOrder tl k ++ (reach tl ++ [Site.mute])))
      = (Site.mute :: (callOrder tl k ++ reach tl)) ++ [Site.mute] by simp]
    exact getLast_snoc _ _

/-- When nothing was found the last driver call is `mute`: the field is off. -/
theorem sense_field_off_when_none (tl : List TgtSpec) (iters : Int) (s : St)
    (hnt : tl.any (· == .notTarget) = false) (hn : (sense tl iters s).1 = .ok none) :
    ∃ seg, (sense tl iters s).2.log = s.log ++ seg ∧ (sitesOf seg).getLast? = some .mute := by
  obtain ⟨⟨seg, h1, _, h3, _⟩, _⟩ := sense_spec tl iters s hnt
  exact ⟨seg, h1, by rw [h3 hn]; exact senseOrder_last tl iters⟩

/-- With two or more targets `sense()` raises only what the device raises (IOError,
KeyboardInterrupt): never UnsupportedTargetError, never the ValueError of an invalid target
(after the repair of F24), never a CommunicationError. -/
theorem sense_no_raise_unsupported (tl : List TgtSpec) (iters : Int) (s : St)
    (hnt : tl.any (· == .notTarget) = false) (h2 : 2 ≤ tl.length) (e : Exc)
    (he : (sense tl iters s).1 = .error e) : e = .io 5 ∨ e = .keyboardInterrupt := by
  obtain ⟨_, herr⟩ := sense_spec tl iters s hnt
  rcases herr e he with h | h | ⟨h, _⟩
  · exact Or.inl h
  · exact Or.inr h
  · have : (tl.length == 1) = false := by simp; omega
    rw [this] at h; cases h

/-- `exchange()` never uses a target of an earlier `sense()`/`listen()`: from ANY state `s` (any
history, any stale `self.target`), after `sense()` or `listen()` the frontend's target is exactly the
target this call returned - created by an answer consumed during this call - or none; and
`exchange()` drives the device only with the current target (no driver call without one). -/
theorem exchange_no_stale_target (s : St) :
    (∀ tl iters, tl.any (· == .notTarget) = false →
      (∀ x, (sense tl iters s).1 = .ok (some x) →
        (sense tl iters s).2.target = .remote x.1 ∧ s.n ≤ x.1 ∧ x.1 < (sense tl iters s).2.n) ∧
      ((∀ x, (sense tl iters s).1 ≠ .ok (some x)) → (sense tl iters s).2.target = .none)) ∧
    (∀ t,
      (∀ x, (listen t s).1 = .ok (some x) →
        (listen t s).2.target = .loc x.1 ∧ s.n ≤ x.1 ∧ x.1 < (listen t s).2.n) ∧
      ((∀ x, (listen t s).1 ≠ .ok (some x)) → (listen t s).2.target = .none)) ∧
    ((exchange s).2.target = s.target ∧
      (match s.target with
       | .none => exchange s = (.ok none, s)
       | .remote id => ∃ a, (exchange s).2.log = s.log ++ [.call (.cmdRsp id) a]
       | .loc id => ∃ a, (exchange s).2.log = s.log ++ [.call (.rspCmd id) a])) := by
  refine ⟨?_, ?_, exchange_spec s⟩
  · intro tl iters hnt
    obtain ⟨⟨seg, _, _, _, _, h5, h6⟩, _⟩ := sense_spec tl iters s hnt
    constructor
    · intro x hx
      obtain ⟨_, _, _, _, _, hid, hge, htg⟩ := h5 x hx
      exact ⟨htg, hge, by omega⟩
    · intro hx; exact (h6 hx).2
  · intro t
    obtain ⟨_, _, h3, h4⟩ := listen_spec t s
    exact ⟨h3, h4⟩

/-- Target hygiene over whole histories: after ANY sequence `ops` of sense / listen / exchange calls
(whatever they found, however they failed), one more `sense()` or `listen()` leaves the frontend with
exactly the target this last call returned - created by an answer consumed during this call - or
with none; one more `exchange()` leaves the target as it is and drives the device only with it. -/
theorem history_no_stale_target (ops : List Op) (s : St) :
    let s0 := runOps ops s
    (∀ tl iters, tl.any (· == .notTarget) = false →
      (∀ x, (sense tl iters s0).1 = .ok (some x) →
        (runOps (ops ++ [.sense tl iters]) s).target = .remote x.1 ∧ s0.n ≤ x.1) ∧
      ((∀ x, (sense tl iters s0).1 ≠ .ok (some x)) → (runOps (ops ++ [.sense tl iters]) s).target = .none)) ∧
    (∀ t,
      (∀ x, (listen t s0).1 = .ok (some x) →
        (runOps (ops ++ [.listen t]) s).target = .loc x.1 ∧ s0.n ≤ x.1) ∧
      ((∀ x, (listen t s0).1 ≠ .ok (some x)) → (runOps (ops ++ [.listen t]) s).target = .none)) ∧
    (runOps (ops ++ [.exchange]) s).target = s0.target := by
  have happ : ∀ op, runOps (ops ++ [op]) s = runOp op (runOps ops s) := by
    intro op; simp [runOps, List.foldl_append]
  obtain ⟨h1, h2, h3⟩ := exchange_no_stale_target (runOps ops s)
  refine ⟨?_, ?_, ?_⟩
  · intro tl iters hnt
    obtain ⟨ha, hb⟩ := h1 tl iters hnt
    rw [happ]
    exact ⟨fun x hx => ⟨(ha x hx).1, (ha x hx).2.1⟩, hb⟩
  · intro t
    obtain ⟨ha, hb⟩ := h2 t
    rw [happ]
    exact ⟨fun x hx => ⟨(ha x hx).1, (ha x hx).2.1⟩, hb⟩
  · rw [happ]; exact h3.1

/-- sense finds a tag, listen fails with an exception of the device, exchange: no driver call -/
example : (runOps [.sense [.a 0] 1, .listen .a, .exchange] (St.init [.nothing, good', .nothing, .unsupported, good'])).target = .none := by decide
example : (runOps [.sense [.a 0] 1, .listen .a, .exchange] (St.init [.nothing, good', .nothing, .unsupported, good'])).log.length = 4 := by decide

/-! ## Non-vacuity: concrete runs -/

def rdwrAll : Opts :=
  ⟨some ⟨some (.proper, 0), [.a 0, .b], .ret .true_, .ret .true_, .ret .true_, 1, true⟩, none, none⟩
def good : Ans := .found ⟨[0x44, 0x00], [], false, 0, 0, 0⟩

/-- a tag is found by the second target, stays for one presence check, then terminate() turns true -/
example : (connect rdwrAll [.nothing, .nothing, good, good, .nothing, good] [false, false, true]).1
    = .ret (.val .rdwr .true_) := by decide
example : (mon (connect rdwrAll [.nothing, .nothing, good, good, .nothing, good] [false, false, true]).2.log)
    = some (.finRel .rdwr 2) := by decide
/-- a device IOError during the presence check: False, and the on-release is missing -/
example : (connect rdwrAll [.nothing, .nothing, good, good, .nothing, .ioError] [false, false, true]).1
    = .caught (.io 5) := by decide
example : (mon (connect rdwrAll [.nothing, .nothing, good, good, .nothing, .ioError] [false, false, true]).2.log)
    = some (.conn .rdwr) := by decide
/-- sense: the first target is invalid (3 byte sel_req) and is ignored, the second finds a tag -/
example : (sense [.a 3, .b] 2 (St.init [.nothing, good])).1 = .ok (some (1, ⟨[0x44, 0x00], [], false, 0, 0, 2⟩)) := by decide
example : (sense [.a 3] 2 (St.init [.nothing, good])).1 = .error .value := by decide
example : (sense [.unknown, .f] 1 (St.init [])).1 = .ok none := by decide

end NfcVerif.C18
