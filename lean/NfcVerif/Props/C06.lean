import NfcVerif.Lemmas.Snep
import NfcVerif.Lemmas.Handover
/-!
# C06 - SNEP and handover carry NDEF messages intact through fragmentation

Statements only; proofs are in `Lemmas/SnepChannel.lean`, `Lemmas/Snep.lean`,
`Lemmas/Handover.lean`.  Models: `Model/Snep.lean` (`send_request`,
`recv_response`, `put_octets`, `get_octets`, `SnepServer._serve`,
`process_snep_request`), `Model/Handover.lean` (`send_octets`, `recv_octets`,
`HandoverServer.serve`), both as state machines cut at the blocking socket
calls, composed over the reliable ordered channel of `Model/SnepChannel.lean`
(what C05 establishes for a data link connection).  `runOp … fuel` delivers
at most `fuel` messages; every theorem gives a bound from which on the
result no longer changes (the network is quiet).

All statements are for every message, every MIU `≥ 6` (SNEP: both sides send
6-octet control messages regardless of the MIU; LLCP guarantees `≥ 128`) resp.
`≥ 1` (handover), every acceptable-length limit, and any connection state that
is idle - so they compose to any number of requests on one connection.
-/
namespace NfcVerif.C06
open NfcVerif NfcVerif.Chan

/-- Fragmentation loses, adds and reorders nothing: the fragments concatenate to the
message, none exceeds the MIU, none is empty - for the `first fragment, then the rest`
scheme of SNEP (`fragments`) and the plain slicing of handover (`chunks`). -/
theorem frag_concat (miu : Nat) (hm : 0 < miu) (d : Bytes) :
    ((chunks miu d).flatten = d ∧ ∀ f ∈ chunks miu d, f.length ≤ miu ∧ f ≠ []) ∧
    (d ≠ [] → (fragments miu d).flatten = d ∧ ∀ f ∈ fragments miu d, f.length ≤ miu ∧ f ≠ []) := by
  refine ⟨⟨chunks_flatten miu hm d, chunks_bound miu hm d⟩, fun hd => ⟨?_, ?_⟩⟩
  · simp [fragments, chunks_flatten miu hm]
  · intro f hf
    rcases List.mem_cons.mp hf with h | h
    · subst h
      refine ⟨by simp; omega, ?_⟩
      cases d with
      | nil => exact absurd rfl hd
      | cons a t =>
        obtain ⟨k, rfl⟩ : ∃ k, miu = k + 1 := ⟨miu - 1, by omega⟩
        simp
    · exact chunks_bound miu hm _ f h

example : fragments 4 [1, 2, 3, 4, 5, 6, 7, 8, 9] = [[1, 2, 3, 4], [5, 6, 7, 8], [9]] := by decide

section snep
open NfcVerif.Snep

/-- the connection is idle: the server waits for a request, nothing is in flight -/
def Idle (n : SNet) : Prop := n.sst = .idle ∧ n.c2s = [] ∧ n.s2c = []

/-- **Put**: for every message the server accepts by length and the decoder accepts, every
client and server MIU, the application callback is called exactly once with exactly the message
(`dl` grows by this one entry), the client gets Success (`True`), the client sent exactly the
fragments of the request and the connection is idle again. -/
theorem snep_put_delivers (cfg : SCfg) (cc : CCfg) (msg : Bytes) (n : SNet) (hn : Idle n)
    (hc : 6 ≤ cc.miu) (hs : 6 ≤ cfg.smiu) (hlen : msg.length < 2 ^ 32) (hacc : msg.length ≤ cfg.maxAcc)
    (hv : cfg.h.valid msg = true) (hput : cfg.h.put msg = 0x81) :
    ∃ N, ∀ fuel, N ≤ fuel →
      (runOp cfg cc fuel n .put msg).dl = n.dl ++ [(Op.put, msg)] ∧
      result (runOp cfg cc fuel n .put msg) = .okTrue ∧
      (runOp cfg cc fuel n .put msg).logC = n.logC ++ fragments cc.miu (putReq msg) ∧
      Idle (runOp cfg cc fuel n .put msg) := by
  obtain ⟨c0, st, q1, q2, lc, ls, dl0⟩ := n
  obtain ⟨h1, h2, h3⟩ := hn
  simp only at h1 h2 h3
  subst h1 h2 h3
  obtain ⟨N, hN⟩ := put_run cfg cc msg c0 lc ls dl0 hc hs hlen hacc hv
  exact ⟨N, fun fuel hf => by rw [hN fuel hf]; simp [result, cliOnTimeout, putRes, hput, Idle]⟩

example : ∃ (cfg : SCfg) (cc : CCfg) (msg : Bytes), 6 ≤ cc.miu ∧ 6 ≤ cfg.smiu ∧ msg.length ≤ cfg.maxAcc ∧
    cfg.h.valid msg = true ∧ cfg.h.put msg = 0x81 ∧ cc.miu < (putReq msg).length ∧
    (runOp cfg cc 10 Snep.init .put msg).dl = [(Op.put, msg)] :=
  ⟨{ maxAcc := 100, smiu := 6, h := { valid := fun _ => true, put := fun _ => 0x81, get := fun _ => .inl 0xE0 } },
   { miu := 6, acc := 10 }, [0xD1, 1, 3, 0x54, 1, 2, 3], by decide⟩

/-- any number of Put requests on one connection: each message is delivered exactly once, in order -/
theorem snep_put_sequence_delivers (cfg : SCfg) (cc : CCfg) (msgs : List Bytes) (n : SNet) (hn : Idle n)
    (hc : 6 ≤ cc.miu) (hs : 6 ≤ cfg.smiu)
    (hall : ∀ m ∈ msgs, m.length < 2 ^ 32 ∧ m.length ≤ cfg.maxAcc ∧ cfg.h.valid m = true) :
    ∃ N, ∀ fuel, N ≤ fuel →
      (runOps cfg cc fuel n (msgs.map fun m => (Op.put, m))).1 = msgs.map (fun m => putRes (cfg.h.put m)) ∧
      (runOps cfg cc fuel n (msgs.map fun m => (Op.put, m))).2.dl = n.dl ++ msgs.map (fun m => (Op.put, m)) ∧
      Idle (runOps cfg cc fuel n (msgs.map fun m => (Op.put, m))).2 :=
  let ⟨N, h⟩ := puts_run cfg cc hc hs msgs n hn.1 hn.2.1 hn.2.2 hall
  ⟨N, fun fuel hf => ⟨(h fuel hf).1, (h fuel hf).2.1, (h fuel hf).2.2⟩⟩

example : (runOps { maxAcc := 100, smiu := 6, h := { valid := fun _ => true, put := fun _ => 0x81, get := fun _ => .inl 0xE0 } }
    { miu := 7, acc := 10 } 20 Snep.init [(.put, [0xD0, 0, 0]), (.put, [0xD1, 1, 2, 0x54, 7, 8])]).2.dl =
    [(.put, [0xD0, 0, 0]), (.put, [0xD1, 1, 2, 0x54, 7, 8])] := by decide

/-- **Oversize**: a message longer than the server's acceptable length is never delivered, not
even in part (`dl` unchanged); the server's only output is the Reject response; the client sent
nothing beyond the first fragment and reports failure (`False`, or `SnepError(0xFF)` when the
request fitted into one fragment). -/
theorem snep_oversize_rejected (cfg : SCfg) (cc : CCfg) (msg : Bytes) (n : SNet) (hn : Idle n)
    (hc : 6 ≤ cc.miu) (hlen : msg.length < 2 ^ 32) (hacc : cfg.maxAcc < msg.length) :
    ∃ N, ∀ fuel, N ≤ fuel →
      (runOp cfg cc fuel n .put msg).dl = n.dl ∧
      (runOp cfg cc fuel n .put msg).logS = n.logS ++ [rejectRsp] ∧
      (runOp cfg cc fuel n .put msg).logC = n.logC ++ [(putReq msg).take cc.miu] ∧
      result (runOp cfg cc fuel n .put msg) =
        (if (putReq msg).length ≤ cc.miu then .snepError 0xFF else .okFalse) ∧
      Idle (runOp cfg cc fuel n .put msg) := by
  obtain ⟨c0, st, q1, q2, lc, ls, dl0⟩ := n
  obtain ⟨h1, h2, h3⟩ := hn
  simp only at h1 h2 h3
  subst h1 h2 h3
  obtain ⟨N, hN⟩ := put_oversize_run cfg cc msg c0 lc ls dl0 hc hlen hacc
  exact ⟨N, fun fuel hf => by rw [hN fuel hf]; simp [result, cliOnTimeout, Idle]⟩

example : ∃ (cfg : SCfg) (cc : CCfg) (msg : Bytes), 6 ≤ cc.miu ∧ cfg.maxAcc < msg.length ∧
    result (runOp cfg cc 10 Snep.init .put msg) = .okFalse ∧ (runOp cfg cc 10 Snep.init .put msg).dl = [] :=
  ⟨{ maxAcc := 6, smiu := 6, h := { valid := fun _ => true, put := fun _ => 0x81, get := fun _ => .inl 0xE0 } },
   { miu := 8, acc := 10 }, [0xD1, 1, 3, 0x54, 1, 2, 3], by decide⟩

/-- **Get**, response acceptable to the client: the request message reaches the application exactly
once and intact, the response message comes back intact (any sizes, both directions fragmented
as the MIUs require). -/
theorem snep_get_returns (cfg : SCfg) (cc : CCfg) (msg rd : Bytes) (n : SNet) (hn : Idle n)
    (hc : 6 ≤ cc.miu) (hs : 6 ≤ cfg.smiu) (hlen : 4 + msg.length < 2 ^ 32) (hcacc : cc.acc < 2 ^ 32)
    (hacc : 4 + msg.length ≤ cfg.maxAcc) (hv : cfg.h.valid msg = true)
    (hget : cfg.h.get msg = .inr rd) (hrd : rd.length ≤ cc.acc) :
    ∃ N, ∀ fuel, N ≤ fuel →
      (runOp cfg cc fuel n .get msg).dl = n.dl ++ [(Op.get, msg)] ∧
      result (runOp cfg cc fuel n .get msg) = .okData rd ∧
      Idle (runOp cfg cc fuel n .get msg) := by
  obtain ⟨c0, st, q1, q2, lc, ls, dl0⟩ := n
  obtain ⟨h1, h2, h3⟩ := hn
  simp only at h1 h2 h3
  subst h1 h2 h3
  obtain ⟨N, hN⟩ := get_run cfg cc msg rd c0 lc ls dl0 hc hs hlen hcacc hacc hv hget (by omega)
  have hans : getAnswer cc.acc rd = (0x81, rd) := by simp [getAnswer]; omega
  exact ⟨N, fun fuel hf => by rw [hN fuel hf]; simp [result, cliOnTimeout, Idle, hans]⟩

/-- **Get**, response longer than the client's acceptable length: the client gets the ExcessData
error (0xC1) and the server sent the 6-octet error header only - no part of the body. -/
theorem snep_get_excess_data (cfg : SCfg) (cc : CCfg) (msg rd : Bytes) (n : SNet) (hn : Idle n)
    (hc : 6 ≤ cc.miu) (hs : 6 ≤ cfg.smiu) (hlen : 4 + msg.length < 2 ^ 32) (hcacc : cc.acc < 2 ^ 32)
    (hacc : 4 + msg.length ≤ cfg.maxAcc) (hv : cfg.h.valid msg = true)
    (hget : cfg.h.get msg = .inr rd) (hrd : cc.acc < rd.length) (hrd32 : rd.length < 2 ^ 32) :
    ∃ N, ∀ fuel, N ≤ fuel →
      result (runOp cfg cc fuel n .get msg) = .snepError 0xC1 ∧
      (runOp cfg cc fuel n .get msg).logS =
        n.logS ++ (if (getReq cc.acc msg).length ≤ cc.miu then [] else [contRsp]) ++ [hdr 0xC1 0] ∧
      (runOp cfg cc fuel n .get msg).dl = n.dl ++ [(Op.get, msg)] ∧
      Idle (runOp cfg cc fuel n .get msg) := by
  obtain ⟨c0, st, q1, q2, lc, ls, dl0⟩ := n
  obtain ⟨h1, h2, h3⟩ := hn
  simp only at h1 h2 h3
  subst h1 h2 h3
  obtain ⟨N, hN⟩ := get_run cfg cc msg rd c0 lc ls dl0 hc hs hlen hcacc hacc hv hget hrd32
  have hans : getAnswer cc.acc rd = (0xC1, []) := by simp [getAnswer]; omega
  have hfr : fragments cfg.smiu (hdr 0xC1 0) = [hdr 0xC1 0] := by
    have : (hdr 0xC1 0).length ≤ cfg.smiu := by simp [hdr, toBE]; omega
    simp [fragments, List.take_of_length_le this, List.drop_of_length_le this, chunks_nil]
  exact ⟨N, fun fuel hf => by
    rw [hN fuel hf]
    simp only [hans, List.length_nil, List.append_nil, hfr]
    simp [result, cliOnTimeout, Idle]⟩

example : ∃ (cfg : SCfg) (cc : CCfg) (msg rd : Bytes), cfg.h.get msg = .inr rd ∧ cc.acc < rd.length ∧
    result (runOp cfg cc 20 Snep.init .get msg) = .snepError 0xC1 :=
  ⟨{ maxAcc := 100, smiu := 6, h := { valid := fun _ => true, put := fun _ => 0x81, get := fun _ => .inr [0xD0, 0, 0] } },
   { miu := 6, acc := 2 }, [0xD0, 0, 0], [0xD0, 0, 0], by decide⟩

example : result (runOp
    { maxAcc := 100, smiu := 7, h := { valid := fun _ => true, put := fun _ => 0x81, get := fun _ => .inr [0xD1, 1, 2, 0x54, 7, 8] } }
    { miu := 6, acc := 9 } 30 Snep.init .get [0xD0, 0, 0]) = .okData [0xD1, 1, 2, 0x54, 7, 8] := by decide

end snep

section handover
open NfcVerif.Handover

def HIdle (n : HNet) : Prop := n.sst = .collecting [] ∧ n.c2s = [] ∧ n.s2c = []

/-- **Handover**, one request (repaired server): the request reaches `_process_request_data`
exactly once and intact, the select message comes back intact, the server's buffer is empty
again.  `complete` (the strict NDEF decoder) is a parameter: it must accept the two messages and
none of their proper non-empty prefixes. -/
theorem handover_roundtrip (cfg : HCfg) (cmiu : Nat) (msg : Bytes) (n : HNet) (hn : HIdle n)
    (hc : 0 < cmiu) (hs : 0 < cfg.smiu) (hreset : cfg.reset = true)
    (hm : PrefixFree cfg.complete msg) (hr : PrefixFree cfg.complete (cfg.handler msg)) :
    ∃ N, ∀ fuel, N ≤ fuel →
      (runReq cfg cmiu fuel n msg).dl = n.dl ++ [msg] ∧
      Handover.result (runReq cfg cmiu fuel n msg) = some (cfg.handler msg) ∧
      (runReq cfg cmiu fuel n msg).logC = n.logC ++ chunks cmiu msg ∧
      (runReq cfg cmiu fuel n msg).logS = n.logS ++ chunks cfg.smiu (cfg.handler msg) ∧
      HIdle (runReq cfg cmiu fuel n msg) := by
  obtain ⟨c0, st, q1, q2, lc, ls, dl0⟩ := n
  obtain ⟨h1, h2, h3⟩ := hn
  simp only at h1 h2 h3
  subst h1 h2 h3
  obtain ⟨N, hN⟩ := req_run cfg cmiu msg c0 lc ls dl0 hc hs hreset hm hr
  exact ⟨N, fun fuel hf => by rw [hN fuel hf]; simp [Handover.result, HIdle]⟩

/-- the hypothesis is met by the structural NDEF reading used in the model driver -/
example : PrefixFree ndefComplete [0xD1, 1, 2, 0x54, 7, 8] := by
  refine ⟨by decide, by decide, fun k h1 h2 => ?_⟩
  have : k = 1 ∨ k = 2 ∨ k = 3 ∨ k = 4 ∨ k = 5 := by simp at h2; omega
  rcases this with rfl | rfl | rfl | rfl | rfl <;> decide

/-- full statement: any number of requests on one connection, each delivered exactly once, in order -/
theorem handover_sequence_roundtrip (cfg : HCfg) (cmiu : Nat) (msgs : List Bytes) (n : HNet) (hn : HIdle n)
    (hc : 0 < cmiu) (hs : 0 < cfg.smiu) (hreset : cfg.reset = true)
    (hall : ∀ m ∈ msgs, PrefixFree cfg.complete m ∧ PrefixFree cfg.complete (cfg.handler m)) :
    ∃ N, ∀ fuel, N ≤ fuel →
      (runReqs cfg cmiu fuel n msgs).1 = msgs.map (fun m => some (cfg.handler m)) ∧
      (runReqs cfg cmiu fuel n msgs).2.dl = n.dl ++ msgs ∧
      HIdle (runReqs cfg cmiu fuel n msgs).2 :=
  let ⟨N, h⟩ := reqs_run cfg cmiu hc hs hreset msgs n hn.1 hn.2.1 hn.2.2 hall
  ⟨N, fun fuel hf => ⟨(h fuel hf).1, (h fuel hf).2.1, (h fuel hf).2.2⟩⟩

/-- two fragmented requests on one connection of the repaired server (MIU 4 and 2): both delivered, in order -/
example : (runReqs { smiu := 2, complete := ndefComplete, handler := fun _ => [0xD0, 0, 0], reset := true } 4 6
    Handover.init [[0xD1, 1, 2, 0x54, 7, 8], [0xD1, 1, 0, 0x54]]).2.dl = [[0xD1, 1, 2, 0x54, 7, 8], [0xD1, 1, 0, 0x54]] ∧
    (runReqs { smiu := 2, complete := ndefComplete, handler := fun _ => [0xD0, 0, 0], reset := true } 4 6
    Handover.init [[0xD1, 1, 2, 0x54, 7, 8], [0xD1, 1, 0, 0x54]]).1 = [some [0xD0, 0, 0], some [0xD0, 0, 0]] := by decide

/-- the sequence statement for the server as found (`reset = false`, finding F29) -/
def AsFoundSequence : Prop :=
  ∀ (cfg : HCfg) (cmiu : Nat) (msgs : List Bytes), 0 < cmiu → 0 < cfg.smiu → cfg.reset = false →
    (∀ m ∈ msgs, PrefixFree cfg.complete m ∧ PrefixFree cfg.complete (cfg.handler m)) →
    ∃ N, ∀ fuel, N ≤ fuel → (runReqs cfg cmiu fuel Handover.init msgs).2.dl = msgs

def f29cfg : HCfg := { smiu := 128, complete := ndefComplete, handler := fun _ => [0xD0, 0, 0], reset := false }

/-- F29: with the buffer never reset the second request on a connection is not delivered; the
application sees the first message again (here: requests `D0 00 00` then `D1 01 00 54`). -/
theorem handover_asfound_counterexample : ¬ AsFoundSequence := by
  intro h
  have hpf1 : PrefixFree ndefComplete [0xD0, 0, 0] := by
    refine ⟨by decide, by decide, fun k h1 h2 => ?_⟩
    have : k = 1 ∨ k = 2 := by simp at h2; omega
    rcases this with rfl | rfl <;> decide
  have hpf2 : PrefixFree ndefComplete [0xD1, 1, 0, 0x54] := by
    refine ⟨by decide, by decide, fun k h1 h2 => ?_⟩
    have : k = 1 ∨ k = 2 ∨ k = 3 := by simp at h2; omega
    rcases this with rfl | rfl | rfl <;> decide
  obtain ⟨N, hN⟩ := h f29cfg 128 [[0xD0, 0, 0], [0xD1, 1, 0, 0x54]] (by decide) (by decide) rfl
    (by intro m hm; simp at hm; rcases hm with rfl | rfl <;> exact ⟨by assumption, hpf1⟩)
  have h4 := hN (4 + N) (by omega)
  -- both requests are single fragments: four deliveries per request suffice, the rest is idle fuel
  have stable : ∀ (n : HNet) (m : Bytes) (k : Nat),
      quiet (proto f29cfg) (pump (proto f29cfg) 4 (startReq 128 n m)) →
      runReq f29cfg 128 (4 + k) n m = pump (proto f29cfg) 4 (startReq 128 n m) := by
    intro n m k hq
    simp only [runReq]; rw [pump_add, pump_quiet _ _ _ hq]
  have key : (runReqs f29cfg 128 (4 + N) Handover.init [[0xD0, 0, 0], [0xD1, 1, 0, 0x54]]).2.dl =
      [[0xD0, 0, 0], [0xD0, 0, 0, 0xD1, 1, 0, 0x54]] := by
    simp only [runReqs]
    rw [stable Handover.init [0xD0, 0, 0] N (by decide)]
    rw [stable _ [0xD1, 1, 0, 0x54] N (by decide)]
    decide
  rw [key] at h4
  exact absurd h4 (by decide)

end handover
end NfcVerif.C06
