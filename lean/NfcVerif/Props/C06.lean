import NfcVerif.Lemmas.Snep
import NfcVerif.Lemmas.Handover
import NfcVerif.Lemmas.SnepSched
import NfcVerif.Lemmas.NdefRecords
import NfcVerif.Lemmas.SnepHostile
import NfcVerif.Lemmas.SnepObj
/-!
# C06 - SNEP and handover carry NDEF messages intact through fragmentation

Statements only; proofs are in `Lemmas/SnepChannel.lean`, `Lemmas/Snep.lean`,
`Lemmas/Handover.lean`.  Models: `Model/Snep.lean` (`send_request`,
`recv_response`, `put_octets`, `get_octets`, `SnepServer._serve`,
`process_snep_request`), `Model/Handover.lean` (`send_octets`, `recv_octets`,
`HandoverServer.serve`), both as state machines cut at the blocking socket
calls, composed over the reliable ordered channel of `Model/SnepChannel.lean`
(what C05 establishes for a data link connection).  `runOp … fuel` delivers
at most `fuel` messages; every theorem gives a bound from which on the
result no longer changes (the network is quiet).

All statements are for every message, every MIU `≥ 6` (SNEP: both sides send
6-octet control messages regardless of the MIU; LLCP guarantees `≥ 128`) resp.
`≥ 1` (handover), every acceptable-length limit, and any connection state that
is idle - so they compose to any number of requests on one connection.
-/
namespace NfcVerif.C06
open NfcVerif NfcVerif.Chan

/-- Fragmentation loses, adds and reorders nothing: the fragments concatenate to the
message, none exceeds the MIU, none is empty - for the `first fragment, then the rest`
scheme of SNEP (`fragments`) and the plain slicing of handover (`chunks`). -/
theorem frag_concat (miu : Nat) (hm : 0 < miu) (d : Bytes) :
    ((chunks miu d).flatten = d ∧ ∀ f ∈ chunks miu d, f.length ≤ miu ∧ f ≠ []) ∧
    (d ≠ [] → (fragments miu d).flatten = d ∧ ∀ f ∈ fragments miu d, f.length ≤ miu ∧ f ≠ []) := by
  refine ⟨⟨chunks_flatten miu hm d, chunks_bound miu hm d⟩, fun hd => ⟨?_, ?_⟩⟩
  · simp [fragments, chunks_flatten miu hm]
  · intro f hf
    rcases List.mem_cons.mp hf with h | h
    · subst h
      refine ⟨by simp; omega, ?_⟩
      cases d with
      | nil => exact absurd rfl hd
      | cons a t =>
        obtain ⟨k, rfl⟩ : ∃ k, miu = k + 1 := ⟨miu - 1, by omega⟩
        simp
    · exact chunks_bound miu hm _ f h

example : fragments 4 [1, 2, 3, 4, 5, 6, 7, 8, 9] = [[1, 2, 3, 4], [5, 6, 7, 8], [9]] := by decide

section snep
open NfcVerif.Snep

/-- the connection is idle: the server waits for a request, nothing is in flight -/
def Idle (n : SNet) : Prop := n.sst = .idle ∧ n.c2s = [] ∧ n.s2c = []

/-- **Put**: for every message the server accepts by length and the decoder accepts, every
client and server MIU, the application callback is called exactly once with exactly the message
(`dl` grows by this one entry), the client gets Success (`True`), the client sent exactly the
fragments of the request and the connection is idle again. -/
theorem snep_put_delivers (cfg : SCfg) (cc : CCfg) (msg : Bytes) (n : SNet) (hn : Idle n)
    (hc : 6 ≤ cc.miu) (hs : 6 ≤ cfg.smiu) (hlen : msg.length < 2 ^ 32) (hacc : msg.length ≤ cfg.maxAcc)
    (hv : cfg.h.valid msg = true) (hput : cfg.h.put msg = 0x81) :
    ∃ N, ∀ fuel, N ≤ fuel →
      (runOp cfg cc fuel n .put msg).dl = n.dl ++ [(Op.put, msg)] ∧
      result (runOp cfg cc fuel n .put msg) = .okTrue ∧
      (runOp cfg cc fuel n .put msg).logC = n.logC ++ fragments cc.miu (putReq msg) ∧
      Idle (runOp cfg cc fuel n .put msg) := by
  obtain ⟨c0, st, q1, q2, lc, ls, dl0⟩ := n
  obtain ⟨h1, h2, h3⟩ := hn
  simp only at h1 h2 h3
  subst h1 h2 h3
  obtain ⟨N, hN⟩ := put_run cfg cc msg c0 lc ls dl0 hc hs hlen hacc hv
  exact ⟨N, fun fuel hf => by rw [hN fuel hf]; simp [result, cliOnTimeout, putRes, hput, Idle]⟩

example : ∃ (cfg : SCfg) (cc : CCfg) (msg : Bytes), 6 ≤ cc.miu ∧ 6 ≤ cfg.smiu ∧ msg.length ≤ cfg.maxAcc ∧
    cfg.h.valid msg = true ∧ cfg.h.put msg = 0x81 ∧ cc.miu < (putReq msg).length ∧
    (runOp cfg cc 10 Snep.init .put msg).dl = [(Op.put, msg)] :=
  ⟨{ maxAcc := 100, smiu := 6, h := { valid := fun _ => true, put := fun _ => 0x81, get := fun _ => .inl 0xE0 } },
   { miu := 6, acc := 10 }, [0xD1, 1, 3, 0x54, 1, 2, 3], by decide⟩

/-- any number of Put requests on one connection: each message is delivered exactly once, in order -/
theorem snep_put_sequence_delivers (cfg : SCfg) (cc : CCfg) (msgs : List Bytes) (n : SNet) (hn : Idle n)
    (hc : 6 ≤ cc.miu) (hs : 6 ≤ cfg.smiu)
    (hall : ∀ m ∈ msgs, m.length < 2 ^ 32 ∧ m.length ≤ cfg.maxAcc ∧ cfg.h.valid m = true) :
    ∃ N, ∀ fuel, N ≤ fuel →
      (runOps cfg cc fuel n (msgs.map fun m => (Op.put, m))).1 = msgs.map (fun m => putRes (cfg.h.put m)) ∧
      (runOps cfg cc fuel n (msgs.map fun m => (Op.put, m))).2.dl = n.dl ++ msgs.map (fun m => (Op.put, m)) ∧
      Idle (runOps cfg cc fuel n (msgs.map fun m => (Op.put, m))).2 :=
  let ⟨N, h⟩ := puts_run cfg cc hc hs msgs n hn.1 hn.2.1 hn.2.2 hall
  ⟨N, fun fuel hf => ⟨(h fuel hf).1, (h fuel hf).2.1, (h fuel hf).2.2⟩⟩

example : (runOps { maxAcc := 100, smiu := 6, h := { valid := fun _ => true, put := fun _ => 0x81, get := fun _ => .inl 0xE0 } }
    { miu := 7, acc := 10 } 20 Snep.init [(.put, [0xD0, 0, 0]), (.put, [0xD1, 1, 2, 0x54, 7, 8])]).2.dl =
    [(.put, [0xD0, 0, 0]), (.put, [0xD1, 1, 2, 0x54, 7, 8])] := by decide

/-- **Oversize**: a message longer than the server's acceptable length is never delivered, not
even in part (`dl` unchanged); the server's only output is the Reject response; the client sent
nothing beyond the first fragment and reports failure (`False`, or `SnepError(0xFF)` when the
request fitted into one fragment). -/
theorem snep_oversize_rejected (cfg : SCfg) (cc : CCfg) (msg : Bytes) (n : SNet) (hn : Idle n)
    (hc : 6 ≤ cc.miu) (hlen : msg.length < 2 ^ 32) (hacc : cfg.maxAcc < msg.length) :
    ∃ N, ∀ fuel, N ≤ fuel →
      (runOp cfg cc fuel n .put msg).dl = n.dl ∧
      (runOp cfg cc fuel n .put msg).logS = n.logS ++ [rejectRsp] ∧
      (runOp cfg cc fuel n .put msg).logC = n.logC ++ [(putReq msg).take cc.miu] ∧
      result (runOp cfg cc fuel n .put msg) =
        (if (putReq msg).length ≤ cc.miu then .snepError 0xFF else .okFalse) ∧
      Idle (runOp cfg cc fuel n .put msg) := by
  obtain ⟨c0, st, q1, q2, lc, ls, dl0⟩ := n
  obtain ⟨h1, h2, h3⟩ := hn
  simp only at h1 h2 h3
  subst h1 h2 h3
  obtain ⟨N, hN⟩ := put_oversize_run cfg cc msg c0 lc ls dl0 hc hlen hacc
  exact ⟨N, fun fuel hf => by rw [hN fuel hf]; simp [result, cliOnTimeout, Idle]⟩

example : ∃ (cfg : SCfg) (cc : CCfg) (msg : Bytes), 6 ≤ cc.miu ∧ cfg.maxAcc < msg.length ∧
    result (runOp cfg cc 10 Snep.init .put msg) = .okFalse ∧ (runOp cfg cc 10 Snep.init .put msg).dl = [] :=
  ⟨{ maxAcc := 6, smiu := 6, h := { valid := fun _ => true, put := fun _ => 0x81, get := fun _ => .inl 0xE0 } },
   { miu := 8, acc := 10 }, [0xD1, 1, 3, 0x54, 1, 2, 3], by decide⟩

/-- **Get**, response acceptable to the client: the request message reaches the application exactly
once and intact, the response message comes back intact (any sizes, both directions fragmented
as the MIUs require). -/
theorem snep_get_returns (cfg : SCfg) (cc : CCfg) (msg rd : Bytes) (n : SNet) (hn : Idle n)
    (hc : 6 ≤ cc.miu) (hs : 6 ≤ cfg.smiu) (hlen : 4 + msg.length < 2 ^ 32) (hcacc : cc.acc < 2 ^ 32)
    (hacc : 4 + msg.length ≤ cfg.maxAcc) (hv : cfg.h.valid msg = true)
    (hget : cfg.h.get msg = .inr rd) (hrd : rd.length ≤ cc.acc) :
    ∃ N, ∀ fuel, N ≤ fuel →
      (runOp cfg cc fuel n .get msg).dl = n.dl ++ [(Op.get, msg)] ∧
      result (runOp cfg cc fuel n .get msg) = .okData rd ∧
      Idle (runOp cfg cc fuel n .get msg) := by
  obtain ⟨c0, st, q1, q2, lc, ls, dl0⟩ := n
  obtain ⟨h1, h2, h3⟩ := hn
  simp only at h1 h2 h3
  subst h1 h2 h3
  obtain ⟨N, hN⟩ := get_run cfg cc msg rd c0 lc ls dl0 hc hs hlen hcacc hacc hv hget (by omega)
  have hans : getAnswer cc.acc rd = (0x81, rd) := by simp [getAnswer]; omega
  exact ⟨N, fun fuel hf => by rw [hN fuel hf]; simp [result, cliOnTimeout, Idle, hans]⟩

/-- **Get**, response longer than the client's acceptable length: the client gets the ExcessData
error (0xC1) and the server sent the 6-octet error header only - no part of the body. -/
theorem snep_get_excess_data (cfg : SCfg) (cc : CCfg) (msg rd : Bytes) (n : SNet) (hn : Idle n)
    (hc : 6 ≤ cc.miu) (hs : 6 ≤ cfg.smiu) (hlen : 4 + msg.length < 2 ^ 32) (hcacc : cc.acc < 2 ^ 32)
    (hacc : 4 + msg.length ≤ cfg.maxAcc) (hv : cfg.h.valid msg = true)
    (hget : cfg.h.get msg = .inr rd) (hrd : cc.acc < rd.length) (hrd32 : rd.length < 2 ^ 32) :
    ∃ N, ∀ fuel, N ≤ fuel →
      result (runOp cfg cc fuel n .get msg) = .snepError 0xC1 ∧
      (runOp cfg cc fuel n .get msg).logS =
        n.logS ++ (if (getReq cc.acc msg).length ≤ cc.miu then [] else [contRsp]) ++ [hdr 0xC1 0] ∧
      (runOp cfg cc fuel n .get msg).dl = n.dl ++ [(Op.get, msg)] ∧
      Idle (runOp cfg cc fuel n .get msg) := by
  obtain ⟨c0, st, q1, q2, lc, ls, dl0⟩ := n
  obtain ⟨h1, h2, h3⟩ := hn
  simp only at h1 h2 h3
  subst h1 h2 h3
  obtain ⟨N, hN⟩ := get_run cfg cc msg rd c0 lc ls dl0 hc hs hlen hcacc hacc hv hget hrd32
  have hans : getAnswer cc.acc rd = (0xC1, []) := by simp [getAnswer]; omega
  have hfr : fragments cfg.smiu (hdr 0xC1 0) = [hdr 0xC1 0] := by
    have : (hdr 0xC1 0).length ≤ cfg.smiu := by simp [hdr, toBE]; omega
    simp [fragments, List.take_of_length_le this, List.drop_of_length_le this, chunks_nil]
  exact ⟨N, fun fuel hf => by
    rw [hN fuel hf]
    simp only [hans, List.length_nil, List.append_nil, hfr]
    simp [result, cliOnTimeout, Idle]⟩

example : ∃ (cfg : SCfg) (cc : CCfg) (msg rd : Bytes), cfg.h.get msg = .inr rd ∧ cc.acc < rd.length ∧
    result (runOp cfg cc 20 Snep.init .get msg) = .snepError 0xC1 :=
  ⟨{ maxAcc := 100, smiu := 6, h := { valid := fun _ => true, put := fun _ => 0x81, get := fun _ => .inr [0xD0, 0, 0] } },
   { miu := 6, acc := 2 }, [0xD0, 0, 0], [0xD0, 0, 0], by decide⟩

example : result (runOp
    { maxAcc := 100, smiu := 7, h := { valid := fun _ => true, put := fun _ => 0x81, get := fun _ => .inr [0xD1, 1, 2, 0x54, 7, 8] } }
    { miu := 6, acc := 9 } 30 Snep.init .get [0xD0, 0, 0]) = .okData [0xD1, 1, 2, 0x54, 7, 8] := by decide

end snep

section handover
open NfcVerif.Handover

def HIdle (n : HNet) : Prop := n.sst = .collecting [] ∧ n.c2s = [] ∧ n.s2c = []

/-- **Handover**, one request (repaired server): the request reaches `_process_request_data`
exactly once and intact, the select message comes back intact, the server's buffer is empty
again.  `complete` (the strict NDEF decoder) is a parameter: it must accept the two messages and
none of their proper non-empty prefixes. -/
theorem handover_roundtrip (cfg : HCfg) (cmiu : Nat) (msg : Bytes) (n : HNet) (hn : HIdle n)
    (hc : 0 < cmiu) (hs : 0 < cfg.smiu) (hreset : cfg.reset = true)
    (hm : PrefixFree cfg.complete msg) (hr : PrefixFree cfg.complete (cfg.handler msg)) :
    ∃ N, ∀ fuel, N ≤ fuel →
      (runReq cfg cmiu fuel n msg).dl = n.dl ++ [msg] ∧
      Handover.result (runReq cfg cmiu fuel n msg) = some (cfg.handler msg) ∧
      (runReq cfg cmiu fuel n msg).logC = n.logC ++ chunks cmiu msg ∧
      (runReq cfg cmiu fuel n msg).logS = n.logS ++ chunks cfg.smiu (cfg.handler msg) ∧
      HIdle (runReq cfg cmiu fuel n msg) := by
  obtain ⟨c0, st, q1, q2, lc, ls, dl0⟩ := n
  obtain ⟨h1, h2, h3⟩ := hn
  simp only at h1 h2 h3
  subst h1 h2 h3
  obtain ⟨N, hN⟩ := req_run cfg cmiu msg c0 lc ls dl0 hc hs hreset hm hr
  exact ⟨N, fun fuel hf => by rw [hN fuel hf]; simp [Handover.result, HIdle]⟩

/-- the hypothesis is met by the structural NDEF reading used in the model driver -/
example : PrefixFree ndefComplete [0xD1, 1, 2, 0x54, 7, 8] := by
  refine ⟨by decide, by decide, fun k h1 h2 => ?_⟩
  have : k = 1 ∨ k = 2 ∨ k = 3 ∨ k = 4 ∨ k = 5 := by simp at h2; omega
  rcases this with rfl | rfl | rfl | rfl | rfl <;> decide

/-- full statement: any number of requests on one connection, each delivered exactly once, in order -/
theorem handover_sequence_roundtrip (cfg : HCfg) (cmiu : Nat) (msgs : List Bytes) (n : HNet) (hn : HIdle n)
    (hc : 0 < cmiu) (hs : 0 < cfg.smiu) (hreset : cfg.reset = true)
    (hall : ∀ m ∈ msgs, PrefixFree cfg.complete m ∧ PrefixFree cfg.complete (cfg.handler m)) :
    ∃ N, ∀ fuel, N ≤ fuel →
      (runReqs cfg cmiu fuel n msgs).1 = msgs.map (fun m => some (cfg.handler m)) ∧
      (runReqs cfg cmiu fuel n msgs).2.dl = n.dl ++ msgs ∧
      HIdle (runReqs cfg cmiu fuel n msgs).2 :=
  let ⟨N, h⟩ := reqs_run cfg cmiu hc hs hreset msgs n hn.1 hn.2.1 hn.2.2 hall
  ⟨N, fun fuel hf => ⟨(h fuel hf).1, (h fuel hf).2.1, (h fuel hf).2.2⟩⟩

/-- two fragmented requests on one connection of the repaired server (MIU 4 and 2): both delivered, in order -/
example : (runReqs { smiu := 2, complete := ndefComplete, handler := fun _ => [0xD0, 0, 0], reset := true } 4 6
    Handover.init [[0xD1, 1, 2, 0x54, 7, 8], [0xD1, 1, 0, 0x54]]).2.dl = [[0xD1, 1, 2, 0x54, 7, 8], [0xD1, 1, 0, 0x54]] ∧
    (runReqs { smiu := 2, complete := ndefComplete, handler := fun _ => [0xD0, 0, 0], reset := true } 4 6
    Handover.init [[0xD1, 1, 2, 0x54, 7, 8], [0xD1, 1, 0, 0x54]]).1 = [some [0xD0, 0, 0], some [0xD0, 0, 0]] := by decide

/-- the sequence statement for the server as found (`reset = false`, finding F29) -/
def AsFoundSequence : Prop :=
  ∀ (cfg : HCfg) (cmiu : Nat) (msgs : List Bytes), 0 < cmiu → 0 < cfg.smiu → cfg.reset = false →
    (∀ m ∈ msgs, PrefixFree cfg.complete m ∧ PrefixFree cfg.complete (cfg.handler m)) →
    ∃ N, ∀ fuel, N ≤ fuel → (runReqs cfg cmiu fuel Handover.init msgs).2.dl = msgs

def f29cfg : HCfg := { smiu := 128, complete := ndefComplete, handler := fun _ => [0xD0, 0, 0], reset := false }

/-- F29: with the buffer never reset the second request on a connection is not delivered; the
application sees the first message again (here: requests `D0 00 00` then `D1 01 00 54`). -/
theorem handover_asfound_counterexample : ¬ AsFoundSequence := by
  intro h
  have hpf1 : PrefixFree ndefComplete [0xD0, 0, 0] := by
    refine ⟨by decide, by decide, fun k h1 h2 => ?_⟩
    have : k = 1 ∨ k = 2 := by simp at h2; omega
    rcases this with rfl | rfl <;> decide
  have hpf2 : PrefixFree ndefComplete [0xD1, 1, 0, 0x54] := by
    refine ⟨by decide, by decide, fun k h1 h2 => ?_⟩
    have : k = 1 ∨ k = 2 ∨ k = 3 := by simp at h2; omega
    rcases this with rfl | rfl | rfl <;> decide
  obtain ⟨N, hN⟩ := h f29cfg 128 [[0xD0, 0, 0], [0xD1, 1, 0, 0x54]] (by decide) (by decide) rfl
    (by intro m hm; simp at hm; rcases hm with rfl | rfl <;> exact ⟨by assumption, hpf1⟩)
  have h4 := hN (4 + N) (by omega)
  -- both requests are single fragments: four deliveries per request suffice, the rest is idle fuel
  have stable : ∀ (n : HNet) (m : Bytes) (k : Nat),
      quiet (proto f29cfg) (pump (proto f29cfg) 4 (startReq 128 n m)) →
      runReq f29cfg 128 (4 + k) n m = pump (proto f29cfg) 4 (startReq 128 n m) := by
    intro n m k hq
    simp only [runReq]; rw [pump_add, pump_quiet _ _ _ hq]
  have key : (runReqs f29cfg 128 (4 + N) Handover.init [[0xD0, 0, 0], [0xD1, 1, 0, 0x54]]).2.dl =
      [[0xD0, 0, 0], [0xD0, 0, 0, 0xD1, 1, 0, 0x54]] := by
    simp only [runReqs]
    rw [stable Handover.init [0xD0, 0, 0] N (by decide)]
    rw [stable _ [0xD1, 1, 0, 0x54] N (by decide)]
    decide
  rw [key] at h4
  exact absurd h4 (by decide)

end handover
/-! ## Any interleaving, any receive window

The statements above deliver the queued messages in one fixed order over an unbounded channel.
The following ones remove both idealisations: the two applications and the two link threads may
be interleaved in any way (in particular the receiving application may be arbitrarily slow), and
each direction of the data link connection lets only `RW` unacknowledged messages travel and
keeps at most `RW` in the receive queue (`Model/SnepSched.lean`, `WNet`).  With
acknowledgements that follow consumption (`AckMode.onConsume`, the code as it is) nothing is ever
discarded, the link never blocks for ever and every schedule that comes to rest ends in the state
of the ideal run - so every delivery statement of this file holds for every schedule and every
pair of receive windows.  Acknowledging what still sits in the receive queue breaks this
(`ack_on_receipt_loses_fragment`, `ack_all_received_loses_fragment`). -/
section schedules
variable {C S D : Type}

/-- **confluence**: two interleavings of the same network that both come to rest end in the same
state after the same number of deliveries - nothing is delivered twice or skipped by reordering -/
theorem interleavings_confluent (p : Proto C S D) (n m1 m2 : Net C S D) (s1 s2 : List Who)
    (h1 : Exec p n s1 m1) (hq1 : quiet p m1) (h2 : Exec p n s2 m2) (hq2 : quiet p m2) :
    m1 = m2 ∧ s1.length = s2.length :=
  exec_confluent p h1 hq1 h2 hq2

/-- every interleaving can be continued to rest, and then has made exactly as many deliveries as
any other one -/
theorem interleavings_extend (p : Proto C S D) (n m q : Net C S D) (s s0 : List Who)
    (h : Exec p n s m) (h0 : Exec p n s0 q) (hq : quiet p q) :
    ∃ s', Exec p m s' q ∧ s.length + s'.length = s0.length :=
  exec_extend p h h0 hq

/-- two programs that both have a message waiting: the two orders of delivery are two different
executions with the same end -/
def pingProto : Proto Nat Nat Bytes :=
  { srv := fun s m => (s + 1, [], [m]), cli := fun c _ => (c + 1, []), cwait := fun _ => true, swait := fun _ => true }

example : ∃ m, Exec pingProto { cst := 0, sst := 0, c2s := [[1]], s2c := [[2]] } [.srv, .cli] m ∧
    Exec pingProto { cst := 0, sst := 0, c2s := [[1]], s2c := [[2]] } [.cli, .srv] m ∧ quiet pingProto m :=
  ⟨_, Exec.cons .srv _ (by decide) (Exec.cons .cli _ (by decide) (Exec.nil _)),
    Exec.cons .cli _ (by decide) (Exec.cons .srv _ (by decide) (Exec.nil _)), by decide⟩

/-- **the windowed link never discards** (acknowledgement on consumption): whatever the receive
windows and the schedule -/
theorem window_never_discards (p : Proto C S D) (k : Win) (hk : k.mode = .onConsume) (n : Net C S D)
    (ss : List WStep) :
    (runW p k ss n.onLink).c2s.lost = [] ∧ (runW p k ss n.onLink).s2c.lost = [] ∧
    (runW p k ss n.onLink).c2s.inq.length ≤ k.rwS ∧ (runW p k ss n.onLink).s2c.inq.length ≤ k.rwC := by
  obtain ⟨⟨⟨a1, a2, a3⟩, ⟨b1, b2, b3⟩⟩, _⟩ := wnet_refines p k hk ss n.onLink (onLink_inv k n)
  exact ⟨a1, b1, by omega, by omega⟩

/-- **no deadlock by flow control**: receive windows of at least 1, a message under way that its
receiver waits for - then some link or application step is enabled -/
theorem window_no_deadlock (p : Proto C S D) (k : Win) (hk : k.mode = .onConsume) (hS : 0 < k.rwS)
    (hC : 0 < k.rwC) (n : Net C S D) (ss : List WStep) (hq : ¬ quiet p (runW p k ss n.onLink).abs) :
    ∃ s, WEn p k s (runW p k ss n.onLink) :=
  wnet_progress p k hS hC _ (wnet_refines p k hk ss n.onLink (onLink_inv k n)).1 hq

/-- lifting: what holds for the ideal run from some fuel on holds for every windowed schedule that
comes to rest -/
theorem any_window_any_schedule (p : Proto C S D) (k : Win) (hk : k.mode = .onConsume) (n0 : Net C S D)
    (P : Net C S D → Prop) (h : ∃ N, ∀ fuel, N ≤ fuel → P (pump p fuel n0) ∧ quiet p (pump p fuel n0))
    (ss : List WStep) (hq : quiet p (runW p k ss n0.onLink).abs) :
    P (runW p k ss n0.onLink).abs ∧
    (runW p k ss n0.onLink).c2s.lost = [] ∧ (runW p k ss n0.onLink).s2c.lost = [] := by
  obtain ⟨N, hN⟩ := h
  obtain ⟨hp, hqp⟩ := hN N (Nat.le_refl _)
  obtain ⟨he, l1, l2⟩ := windowed_confluent p k hk n0 ss N hq hqp
  exact ⟨by rw [he]; exact hp, l1, l2⟩

end schedules

section snep_windowed
open NfcVerif.Snep

theorem idle_quiet (cfg : SCfg) (n : SNet) (h : Idle n) : quiet (proto cfg) n :=
  ⟨h.2.1, Or.inl h.2.2⟩

/-- **Put over the complete picture**: any receive windows, any interleaving of the two link
threads and the two applications (slow consumers included) - once nothing is deliverable any more
the message has reached the callback exactly once and intact, the client has Success, the
connection is idle, and no I PDU was discarded on the way. -/
theorem snep_put_delivers_windowed (cfg : SCfg) (cc : CCfg) (msg : Bytes) (n : SNet) (hn : Idle n)
    (hc : 6 ≤ cc.miu) (hs : 6 ≤ cfg.smiu) (hlen : msg.length < 2 ^ 32) (hacc : msg.length ≤ cfg.maxAcc)
    (hv : cfg.h.valid msg = true) (hput : cfg.h.put msg = 0x81)
    (k : Win) (hk : k.mode = .onConsume) (ss : List WStep)
    (hq : quiet (proto cfg) (runW (proto cfg) k ss (startOp cc n .put msg).onLink).abs) :
    (runW (proto cfg) k ss (startOp cc n .put msg).onLink).abs.dl = n.dl ++ [(Op.put, msg)] ∧
    result (runW (proto cfg) k ss (startOp cc n .put msg).onLink).abs = .okTrue ∧
    Idle (runW (proto cfg) k ss (startOp cc n .put msg).onLink).abs ∧
    (runW (proto cfg) k ss (startOp cc n .put msg).onLink).c2s.lost = [] ∧
    (runW (proto cfg) k ss (startOp cc n .put msg).onLink).s2c.lost = [] := by
  obtain ⟨N, hN⟩ := snep_put_delivers cfg cc msg n hn hc hs hlen hacc hv hput
  have := any_window_any_schedule (proto cfg) k hk (startOp cc n .put msg)
    (fun m => m.dl = n.dl ++ [(Op.put, msg)] ∧ result m = .okTrue ∧ Idle m)
    ⟨N, fun fuel hf => ⟨⟨(hN fuel hf).1, (hN fuel hf).2.1, (hN fuel hf).2.2.2⟩,
      idle_quiet cfg _ (hN fuel hf).2.2.2⟩⟩ ss hq
  exact ⟨this.1.1, this.1.2.1, this.1.2.2, this.2.1, this.2.2⟩

/-- **Oversize over the complete picture**: never delivered, not even in part, whatever the
schedule and the windows -/
theorem snep_oversize_rejected_windowed (cfg : SCfg) (cc : CCfg) (msg : Bytes) (n : SNet) (hn : Idle n)
    (hc : 6 ≤ cc.miu) (hlen : msg.length < 2 ^ 32) (hacc : cfg.maxAcc < msg.length)
    (k : Win) (hk : k.mode = .onConsume) (ss : List WStep)
    (hq : quiet (proto cfg) (runW (proto cfg) k ss (startOp cc n .put msg).onLink).abs) :
    (runW (proto cfg) k ss (startOp cc n .put msg).onLink).abs.dl = n.dl ∧
    (runW (proto cfg) k ss (startOp cc n .put msg).onLink).abs.logS = n.logS ++ [rejectRsp] ∧
    result (runW (proto cfg) k ss (startOp cc n .put msg).onLink).abs =
      (if (putReq msg).length ≤ cc.miu then .snepError 0xFF else .okFalse) := by
  obtain ⟨N, hN⟩ := snep_oversize_rejected cfg cc msg n hn hc hlen hacc
  have := any_window_any_schedule (proto cfg) k hk (startOp cc n .put msg)
    (fun m => m.dl = n.dl ∧ m.logS = n.logS ++ [rejectRsp] ∧
      result m = (if (putReq msg).length ≤ cc.miu then .snepError 0xFF else .okFalse))
    ⟨N, fun fuel hf => ⟨⟨(hN fuel hf).1, (hN fuel hf).2.1, (hN fuel hf).2.2.2.1⟩,
      idle_quiet cfg _ (hN fuel hf).2.2.2.2⟩⟩ ss hq
  exact this.1

/-- **Get over the complete picture** (response acceptable to the client) -/
theorem snep_get_returns_windowed (cfg : SCfg) (cc : CCfg) (msg rd : Bytes) (n : SNet) (hn : Idle n)
    (hc : 6 ≤ cc.miu) (hs : 6 ≤ cfg.smiu) (hlen : 4 + msg.length < 2 ^ 32) (hcacc : cc.acc < 2 ^ 32)
    (hacc : 4 + msg.length ≤ cfg.maxAcc) (hv : cfg.h.valid msg = true)
    (hget : cfg.h.get msg = .inr rd) (hrd : rd.length ≤ cc.acc)
    (k : Win) (hk : k.mode = .onConsume) (ss : List WStep)
    (hq : quiet (proto cfg) (runW (proto cfg) k ss (startOp cc n .get msg).onLink).abs) :
    (runW (proto cfg) k ss (startOp cc n .get msg).onLink).abs.dl = n.dl ++ [(Op.get, msg)] ∧
    result (runW (proto cfg) k ss (startOp cc n .get msg).onLink).abs = .okData rd ∧
    (runW (proto cfg) k ss (startOp cc n .get msg).onLink).c2s.lost = [] ∧
    (runW (proto cfg) k ss (startOp cc n .get msg).onLink).s2c.lost = [] := by
  obtain ⟨N, hN⟩ := snep_get_returns cfg cc msg rd n hn hc hs hlen hcacc hacc hv hget hrd
  have := any_window_any_schedule (proto cfg) k hk (startOp cc n .get msg)
    (fun m => m.dl = n.dl ++ [(Op.get, msg)] ∧ result m = .okData rd)
    ⟨N, fun fuel hf => ⟨⟨(hN fuel hf).1, (hN fuel hf).2.1⟩, idle_quiet cfg _ (hN fuel hf).2.2⟩⟩ ss hq
  exact ⟨this.1.1, this.1.2, this.2.1, this.2.2⟩

def lossCfg : SCfg := { maxAcc := 100, smiu := 6, h := { valid := fun _ => true, put := fun _ => 0x81, get := fun _ => .inl 0xE0 } }

/-- the hypotheses of `snep_put_delivers_windowed` are satisfiable with a slow consumer: receive
window 1, three fragments, the server application runs only after the link has nothing to do -/
example : (runW (proto lossCfg) { rwS := 1, rwC := 1 }
      [.xmit .srv, .app .srv, .ack .srv, .xmit .cli, .app .cli, .xmit .srv, .xmit .srv, .app .srv, .ack .srv,
       .xmit .srv, .app .srv, .xmit .cli, .app .cli]
      (startOp { miu := 6, acc := 10 } Snep.init .put [0xD1, 1, 3, 0x54, 1, 2, 3]).onLink).abs.dl =
    [(Op.put, [0xD1, 1, 3, 0x54, 1, 2, 3])] := by decide

/-- **acknowledging on receipt loses a fragment** (the class of C06-r2m4: `recv_confs` counted when
the I PDU is enqueued): receive window 1, a Put of three fragments, the server application slower
than the link - the third fragment is discarded by the full receive queue -/
theorem ack_on_receipt_loses_fragment :
    ∃ (ss : List WStep),
      (runW (proto lossCfg) { rwS := 1, rwC := 1, mode := .onReceipt } ss
        (startOp { miu := 6, acc := 10 } Snep.init .put [0xD1, 1, 3, 0x54, 1, 2, 3]).onLink).c2s.lost ≠ [] :=
  ⟨[.xmit .srv, .ack .srv, .app .srv, .xmit .cli, .ack .cli, .app .cli, .xmit .srv, .ack .srv, .xmit .srv], by decide⟩

/-- the plain sink: the server application keeps what it gets -/
def sinkProto : Proto Unit Unit Bytes :=
  { srv := fun _ m => ((), [], [m]), cli := fun _ _ => ((), []), cwait := fun _ => false, swait := fun _ => true }

/-- **acknowledging everything received loses a fragment** (the class of C06-m4: the necessary
acknowledgement sets V(RA) := V(R)): receive window 2, the application has taken one of two queued
messages when the acknowledgement goes out -/
theorem ack_all_received_loses_fragment :
    ∃ (ss : List WStep),
      (runW sinkProto { rwS := 2, rwC := 1, mode := .allReceived } ss
        ({ cst := (), sst := (), c2s := [[1], [2], [3], [4]] } : Net Unit Unit Bytes).onLink).c2s.lost ≠ [] :=
  ⟨[.xmit .srv, .xmit .srv, .app .srv, .ack .srv, .xmit .srv, .xmit .srv], by decide⟩

/-- with acknowledgement on consumption the same schedules lose nothing (instance of
`window_never_discards`) -/
example : (runW sinkProto { rwS := 2, rwC := 1 } [.xmit .srv, .xmit .srv, .app .srv, .ack .srv, .xmit .srv, .xmit .srv]
    ({ cst := (), sst := (), c2s := [[1], [2], [3], [4]] } : Net Unit Unit Bytes).onLink).c2s.lost = [] := by decide

end snep_windowed

section handover_windowed
open NfcVerif.Handover

theorem hidle_quiet (cfg : HCfg) (n : HNet) (h : HIdle n) : quiet (Handover.proto cfg) n :=
  ⟨h.2.1, Or.inl h.2.2⟩

/-- **Handover with ndeflib-shaped messages**: the completeness test is the structural NDEF reading,
request and select message are encodings of non-empty lists of well-formed records - no hypothesis
about prefixes is left: wherever the fragment boundaries fall (also exactly between two records)
the request is delivered once and intact and the select message comes back intact. -/
theorem handover_roundtrip_records (cfg : HCfg) (cmiu : Nat) (rq rs : List Rec) (n : HNet) (hn : HIdle n)
    (hc : 0 < cmiu) (hs : 0 < cfg.smiu) (hreset : cfg.reset = true) (hcomp : cfg.complete = ndefComplete)
    (hq1 : rq ≠ []) (hq2 : ∀ r ∈ rq, r.wf) (hh : cfg.handler (encMsg rq) = encMsg rs)
    (hs1 : rs ≠ []) (hs2 : ∀ r ∈ rs, r.wf) :
    ∃ N, ∀ fuel, N ≤ fuel →
      (runReq cfg cmiu fuel n (encMsg rq)).dl = n.dl ++ [encMsg rq] ∧
      Handover.result (runReq cfg cmiu fuel n (encMsg rq)) = some (encMsg rs) ∧
      HIdle (runReq cfg cmiu fuel n (encMsg rq)) := by
  obtain ⟨N, hN⟩ := handover_roundtrip cfg cmiu (encMsg rq) n hn hc hs hreset
    (by rw [hcomp]; exact prefixFree_encMsg rq hq1 hq2)
    (by rw [hcomp, hh]; exact prefixFree_encMsg rs hs1 hs2)
  exact ⟨N, fun fuel hf => ⟨(hN fuel hf).1, by rw [(hN fuel hf).2.1, hh], (hN fuel hf).2.2.2.2⟩⟩

/-- two records, the first one ends exactly at the fragment boundary (MIU 7): delivered as one message -/
example : (runReq { smiu := 128, complete := ndefComplete, handler := fun _ => [0xD0, 0, 0], reset := true } 7 10
    Handover.init (encMsg [{ tnf := 1, sr := true, typ := [0x54], id := none, payload := [1, 2, 3] },
                           { tnf := 1, sr := true, typ := [0x55], id := none, payload := [4] }])).dl =
    [[0x91, 1, 3, 0x54, 1, 2, 3, 0x51, 1, 1, 0x55, 4]] := by decide

/-- **Handover over the complete picture**: any receive windows, any interleaving -/
theorem handover_roundtrip_windowed (cfg : HCfg) (cmiu : Nat) (msg : Bytes) (n : HNet) (hn : HIdle n)
    (hc : 0 < cmiu) (hs : 0 < cfg.smiu) (hreset : cfg.reset = true)
    (hm : PrefixFree cfg.complete msg) (hr : PrefixFree cfg.complete (cfg.handler msg))
    (k : Win) (hk : k.mode = .onConsume) (ss : List WStep)
    (hq : quiet (Handover.proto cfg) (runW (Handover.proto cfg) k ss (startReq cmiu n msg).onLink).abs) :
    (runW (Handover.proto cfg) k ss (startReq cmiu n msg).onLink).abs.dl = n.dl ++ [msg] ∧
    Handover.result (runW (Handover.proto cfg) k ss (startReq cmiu n msg).onLink).abs = some (cfg.handler msg) ∧
    (runW (Handover.proto cfg) k ss (startReq cmiu n msg).onLink).c2s.lost = [] ∧
    (runW (Handover.proto cfg) k ss (startReq cmiu n msg).onLink).s2c.lost = [] := by
  obtain ⟨N, hN⟩ := handover_roundtrip cfg cmiu msg n hn hc hs hreset hm hr
  have := any_window_any_schedule (Handover.proto cfg) k hk (startReq cmiu n msg)
    (fun m => m.dl = n.dl ++ [msg] ∧ Handover.result m = some (cfg.handler msg))
    ⟨N, fun fuel hf => ⟨⟨(hN fuel hf).1, (hN fuel hf).2.1⟩, hidle_quiet cfg _ (hN fuel hf).2.2.2.2⟩⟩ ss hq
  exact ⟨this.1.1, this.1.2, this.2.1, this.2.2⟩

end handover_windowed

section hostile
open NfcVerif.Snep

/-- **the server alone, against any peer**: whatever sequence of messages arrives on a fresh
connection (correct fragments or not, any version, any length fields) and whether or not the peer
then disconnects, every request that reaches `process_put_request` / `process_get_request` comes
from octets whose SNEP header announced a length within `max_acceptable_length` - the limit check
cannot be bypassed by the way a request is fragmented (in particular not by sending it in one
fragment, the class of C06-m2 / C06-r2m1). -/
theorem snep_server_limit_any_peer (cfg : SCfg) (ms : List Bytes) :
    (∀ e ∈ (srvFeed cfg .idle ms).2.2, Admissible cfg e) ∧
    (∀ e ∈ (srvOnClose cfg (srvFeed cfg .idle ms).1).2, Admissible cfg e) := by
  obtain ⟨h1, h2⟩ := srvFeed_admissible cfg ms .idle trivial
  exact ⟨h2, srvOnClose_admissible cfg _ h1⟩

/-- a single fragment announcing more than the limit: Reject, nothing delivered, whatever follows the header -/
example : srvFeed { maxAcc := 3, smiu := 128, h := { valid := fun _ => true, put := fun _ => 0x81, get := fun _ => .inl 0xE0 } }
    .idle [[0x10, 2, 0, 0, 0, 4, 0xD1, 1, 0, 0x54]] = (.idle, [rejectRsp], []) := by decide

/-- the same request within the limit is delivered -/
example : (srvFeed { maxAcc := 4, smiu := 128, h := { valid := fun _ => true, put := fun _ => 0x81, get := fun _ => .inl 0xE0 } }
    .idle [[0x10, 2, 0, 0, 0, 4, 0xD1, 1, 0, 0x54]]).2.2 = [(Op.put, [0xD1, 1, 0, 0x54])] := by decide

end hostile

/-! ## The client objects over their life time

One `SnepClient` object is used for a whole history of calls: requests over temporary connections
to the default server, `connect(service)` + any number of requests, `close()`, in any order
(`Model/SnepObj.lean`; the peer offers any number of SNEP services, index 0 is the default one). -/
section histories
open NfcVerif.SnepObj NfcVerif.Snep

/-- **every message goes, once, to the service the client is connected to at that time** - the
default service when the connection is temporary - for every history of `connect` / `put` / `get`
/ `close` calls on one `SnepClient` object, every number of services on the peer, every MIU >= 6;
a temporary connection is released right after its request, an explicit one is kept until
`close()` / the next `connect()` (`sock`), and connections are opened exactly once per `connect`
and once per request made while unconnected (`opened`).  `Good`: `connect` names an existing
service and every message is acceptable to every service, so the *outcome* of a request cannot
tell where it went - only the delivery log can. -/
theorem client_history_delivers_to_connected_service (w : World) (hw : GoodWorld w) (acc : Nat) (h : List HOp)
    (hg : ∀ x ∈ h, Good w acc x) :
    ∃ N, ∀ fuel, N ≤ fuel →
      (hrun w fuel false { acc := acc } h).1.dl = specDl none h ∧
      (hrun w fuel false { acc := acc } h).1.sock.map (·.svc) = specCur none h ∧
      (hrun w fuel false { acc := acc } h).1.opened = specOpened none h ∧
      (hrun w fuel false { acc := acc } h).1.closed ++ (specCur none h).toList = (hrun w fuel false { acc := acc } h).1.opened := by
  have hi : Inv w ({ acc := acc } : Obj) none := ⟨rfl, fun c hc => by simp at hc, rfl⟩
  obtain ⟨N, hN⟩ := history_run w hw h { acc := acc } none hi hg
  exact ⟨N, fun fuel hf => by
    obtain ⟨a, b, c⟩ := hN fuel hf
    exact ⟨by simpa using b, a.cur_eq, by simpa using c, a.bal⟩⟩

/-- two services that differ in nothing the client can see -/
def twoServices : World :=
  [{ cfg := { maxAcc := 100, smiu := 6, h := { valid := fun _ => true, put := fun _ => 0x81, get := fun _ => .inl 0xE0 } }, cmiu := 6 },
   { cfg := { maxAcc := 100, smiu := 8, h := { valid := fun _ => true, put := fun _ => 0x81, get := fun _ => .inl 0xE0 } }, cmiu := 7 }]

/-- a temporary connection, then `connect` to the other service and two requests -/
def mixedHistory : List HOp :=
  [.req .put [0xD0, 0, 0], .connect 1, .req .put [0xD1, 1, 1, 0x54, 7], .req .put [0xD1, 1, 0, 0x55], .close, .req .put [0xD0, 0, 0]]

theorem twoServices_good : GoodWorld twoServices :=
  ⟨by decide, fun s hs => by simp [twoServices] at hs; rcases hs with rfl | rfl <;> simp⟩

example : GoodWorld twoServices ∧ (∀ x ∈ mixedHistory, Good twoServices 10 x) := by
  refine ⟨twoServices_good, fun x hx => ?_⟩
  simp only [mixedHistory, List.mem_cons, List.not_mem_nil, or_false] at hx
  rcases hx with rfl | rfl | rfl | rfl | rfl | rfl <;> simp [Good, twoServices]

example : (hrun twoServices 20 false { acc := 10 } mixedHistory).1.dl =
    [(0, .put, [0xD0, 0, 0]), (1, .put, [0xD1, 1, 1, 0x54, 7]), (1, .put, [0xD1, 1, 0, 0x55]), (0, .put, [0xD0, 0, 0])] ∧
    (hrun twoServices 20 false { acc := 10 } mixedHistory).1.opened = [0, 1, 0] ∧
    (hrun twoServices 20 false { acc := 10 } mixedHistory).1.closed = [0, 1, 0] := by decide

/-- the statement for a client whose `release_connection` is only ever raised (C06-r4m1); `rest`
says that every request of the run had enough fuel to come to rest -/
def StickyHistories : Prop :=
  ∀ (w : World) (acc : Nat) (h : List HOp) (fuel : Nat), GoodWorld w → (∀ x ∈ h, Good w acc x) →
    (hrun w fuel true { acc := acc } h).1.rest = true → (hrun w fuel true { acc := acc } h).1.dl = specDl none h

/-- **a release flag that sticks sends messages to the wrong application**: after one request over
a temporary connection the explicit connection to service 1 is torn down after its first request,
and the next message goes to the default service -/
theorem client_history_sticky_release_counterexample : ¬ StickyHistories := by
  intro h
  have := h twoServices 10 mixedHistory 20 twoServices_good (fun x hx => by
    simp only [mixedHistory, List.mem_cons, List.not_mem_nil, or_false] at hx
    rcases hx with rfl | rfl | rfl | rfl | rfl | rfl <;> simp [Good, twoServices]) (by decide)
  exact absurd this (by decide)

/-- where the third message went -/
example : (hrun twoServices 20 true { acc := 10 } mixedHistory).1.dl =
    [(0, .put, [0xD0, 0, 0]), (1, .put, [0xD1, 1, 1, 0x54, 7]), (0, .put, [0xD1, 1, 0, 0x55]), (0, .put, [0xD0, 0, 0])] := by decide

end histories

section handover_histories
open NfcVerif.SnepObj NfcVerif.Handover

/-- **HandoverClient histories**: any sequence of `connect` / request / `close` in which every
request is made while connected - each request message reaches the server application exactly once,
in order, every connection starts with an empty reassembly buffer on both sides, and every request
gets its own select message -/
theorem handover_client_history_delivers (cfg : HCfg) (cmiu : Nat) (hc : 0 < cmiu) (hs : 0 < cfg.smiu)
    (hreset : cfg.reset = true) (h : List HHOp) (msgs : List Bytes) (hsp : hhSpec false h = some msgs)
    (hpf : ∀ m ∈ msgs, PrefixFree cfg.complete m ∧ PrefixFree cfg.complete (cfg.handler m)) :
    ∃ N, ∀ fuel, N ≤ fuel →
      (hhrun cfg cmiu fuel {} h).1.dl = msgs ∧
      (hhrun cfg cmiu fuel {} h).2.filterMap HHRes.answer =
        msgs.map (fun m => some (cfg.handler m)) := by
  obtain ⟨N, hN⟩ := hh_history_run cfg cmiu hc hs hreset h {} false msgs ⟨rfl, fun n hn => by simp at hn⟩ hsp hpf
  exact ⟨N, fun fuel hf => by simpa using hN fuel hf⟩

example : (hhrun { smiu := 2, complete := ndefComplete, handler := fun _ => [0xD0, 0, 0], reset := true } 4 8 {}
    [.connect, .req [0xD1, 1, 2, 0x54, 7, 8], .close, .connect, .req [0xD1, 1, 0, 0x54], .req [0xD0, 0, 0]]).1.dl =
    [[0xD1, 1, 2, 0x54, 7, 8], [0xD1, 1, 0, 0x54], [0xD0, 0, 0]] := by decide

end handover_histories

end NfcVerif.C06
