import NfcVerif.Lemmas.FnBridgeAcr122
import NfcVerif.Lemmas.HostFrame
/-!
# Bridge theorems, group Acr122 (`nfc/clf/acr122.py` -> `Gen/FnAcr122.lean` -> `Model/HostFrame.lean`)

Properties C14 (the CCID escape envelope and the pseudo APDU are well formed) and C13 (which exception
a malformed reader response becomes).  `Gen/FnAcr122.lean` is regenerated from the source on every run.

Encodings: a command code is the Python int `(cmd : Nat)`; the models take naturals, the source ints -
what the source does outside `0..255` (`ValueError` from `bytearray([0xD4, cmd_code])`) is stated
separately (`cmd_build_value`).  The model `ccidBuild` has no counterpart of `struct.error` for a block of
2^32 octets or more; the bridge states where the source raises it.
-/
namespace NfcVerif.FnBridge.Acr122
open NfcVerif NfcVerif.PyFn NfcVerif.HostFrame NfcVerif.FnBridge.HostLink

/-- `ccid_xfr_block`: the octets handed to `transport.write` are `ccidBuild data`, for every block
shorter than 2^32 octets; `struct.error` otherwise -/
theorem ccid_build_bridge (data : Bytes) :
    Gen.Fn.acr122_ccid_build data
      = if data.length < 4294967296 then .ok (ccidBuild data) else .error .struct := by
  unfold Gen.Fn.acr122_ccid_build ccidBuild
  simp only [lit_cast, len_eq, ccid_header]
  by_cases h : data.length < 4294967296 <;> simp [h]

example : Gen.Fn.acr122_ccid_build [0xFF, 0, 0x48, 0, 0] = .ok [0x6F, 5, 0, 0, 0, 0, 0, 0, 0, 0, 0xFF, 0, 0x48, 0, 0] := by
  decide +kernel

/-- `command`: a command code outside `0..255` is a `ValueError` (first `bytearray([..])` display) -/
theorem cmd_build_value (cmd : Int) (d : Bytes) (h : cmd < 0 ∨ cmd > 255) :
    Gen.Fn.acr122_cmd_build cmd d = .error .value := by
  unfold Gen.Fn.acr122_cmd_build
  have e : (212 : Int) = ((212 : Nat) : Int) := rfl
  rw [e, mkBytes_cons]
  simp only [Nat.reduceLT, if_true, mkBytes_bad cmd [] h, Py.bind_error]

/-- `command` followed by `ccid_xfr_block`: what reaches the transport is `acrBuild cmd d`, for every
command code in `0..255` and every payload (`ValueError` when the pseudo APDU body exceeds 255 octets) -/
theorem cmd_build_bridge (cmd : Nat) (d : Bytes) (h : cmd < 256) :
    (Gen.Fn.acr122_cmd_build cmd d >>= Gen.Fn.acr122_ccid_build) = acrBuild cmd d := by
  unfold Gen.Fn.acr122_cmd_build acrBuild
  simp only [lit_cast, len_eq, mkBytes_cons, mkBytes_nil, h, Py.bind_ok, if_true, Nat.reduceLT]
  generalize hn : ([212, cmd] ++ d).length = n
  have hn' : n = d.length + 2 := by rw [← hn]; simp
  by_cases hl : n < 256
  · have h2 : ¬ n > 255 := by omega
    have h3 : ([255, 0, 0, 0, n] ++ ([212, cmd] ++ d)).length < 4294967296 := by simp; omega
    simp only [hl, h2, if_true, if_false, Py.bind_ok, ccid_build_bridge, h3]
    rfl
  · have h2 : n > 255 := by omega
    simp only [hl, h2, if_true, if_false, Py.bind_error]
    rfl

example : (Gen.Fn.acr122_cmd_build 0x4A [1, 0] >>= Gen.Fn.acr122_ccid_build)
    = .ok [0x6F, 9, 0, 0, 0, 0, 0, 0, 0, 0, 0xFF, 0, 0, 0, 4, 0xD4, 0x4A, 1, 0] := by decide +kernel
example : Gen.Fn.acr122_cmd_build 0x4A (List.replicate 254 0) = .error .value := by decide +kernel

/-- `C14.acr122_build_valid` for the regenerated functions: whenever the source hands a frame to the
transport, the independent reading of the CCID escape envelope and the pseudo APDU recovers the command
code and the payload -/
theorem gen_build_valid (cmd : Nat) (d w : Bytes) (hc : cmd < 256)
    (h : (Gen.Fn.acr122_cmd_build cmd d >>= Gen.Fn.acr122_ccid_build) = .ok w) :
    Spec.acrCommand w = some (cmd, d) := by
  rw [cmd_build_bridge cmd d hc] at h
  exact acr_build_valid cmd d w h

/-- `ccid_xfr_block`, response header checks (behind `transport.read`): `ccidAccept`, for every byte string -/
theorem ccid_accept_bridge (f : Bytes) : Gen.Fn.acr122_ccid_accept f = ccidAccept f := by
  unfold Gen.Fn.acr122_ccid_accept ccidAccept HostFrame.EIO
  simp only [lit_cast, slice_ofNat, getB_idxN, sliceFrom_ofNat]
  py_bits
  by_cases h : f.length < 10
  · simp only [h, or_true, if_true]
  · have hne : f ≠ [] := by intro e; rw [e] at h; simp at h
    have h4 : (sliceN f 1 5).length = 4 := by simp [sliceN]; omega
    simp only [h, hne, not_true_eq_false, or_self, if_false, not_false_eq_true]
    rw [idxN_eq_at0 (by omega)]
    simp only [Py.bind_ok, h4, if_true, ule_unLe32 _ h4, Int.natCast_inj, ← Int.natCast_add]

example : Gen.Fn.acr122_ccid_accept [0x80, 2, 0, 0, 0, 0, 0, 0, 0, 0, 0x90, 0] = .ok [0x90, 0] := by decide +kernel
example : Gen.Fn.acr122_ccid_accept [0x80, 3, 0, 0, 0, 0, 0, 0, 0, 0, 0x90, 0] = .error (.io 5) := by decide +kernel

/-- `command`, checks on the pseudo APDU response (behind `ccid_xfr_block`): `acrBody`, for every command
code and every byte string -/
theorem cmd_accept_bridge (cmd : Nat) (f : Bytes) : Gen.Fn.acr122_cmd_accept f cmd = acrBody cmd f := by
  unfold Gen.Fn.acr122_cmd_accept acrBody HostFrame.EIO
  simp only [lit_cast, getB_idxN]
  simp only [getB_idx]
  py_bits
  by_cases h : f.length < 4
  · simp only [h, or_true, if_true]
  · have hne : f ≠ [] := by intro e; rw [e] at h; simp at h
    simp only [h, hne, not_true_eq_false, or_self, if_false, not_false_eq_true]
    rw [idx_neg 1 (by omega) (by omega), idx_neg 2 (by omega) (by omega), idxN_eq_at0 (by omega : 0 < f.length),
      idxN_eq_at0 (by omega : 1 < f.length)]
    simp only [Py.bind_ok, Int.natCast_inj]
    generalize at0 f 0 = a
    generalize at0 f 1 = b
    generalize at0 f (f.length - 2) = y
    generalize at0 f (f.length - 1) = z
    by_cases h1 : a = 213 <;> by_cases h2 : b = cmd + 1 <;> by_cases h3 : y = 144 <;> by_cases h4 : z = 0 <;>
      simp [h1, h2, h3, h4]

example : Gen.Fn.acr122_cmd_accept [0xD5, 0x4B, 0x77, 0x90, 0] 0x4A = .ok [0x77] := by decide +kernel
example : Gen.Fn.acr122_cmd_accept [0xD5, 0x4B, 0x77, 0x63, 0] 0x4A = .error (.io 5) := by decide +kernel

/-- both slices in sequence are the model's `acrAccept` -/
theorem accept_bridge (cmd : Nat) (raw : Bytes) :
    (Gen.Fn.acr122_ccid_accept raw >>= fun f => Gen.Fn.acr122_cmd_accept f cmd) = acrAccept cmd raw := by
  unfold acrAccept
  rw [ccid_accept_bridge]
  congr 1
  funext f
  exact cmd_accept_bridge cmd f

/-- `C14.acr122_accept_sound` for the regenerated checks: data is returned only for a CCID data block that
carries `D5, cmd+1, data, 90 00` -/
theorem gen_accept_sound (cmd : Nat) (raw data : Bytes)
    (h : (Gen.Fn.acr122_ccid_accept raw >>= fun f => Gen.Fn.acr122_cmd_accept f cmd) = .ok data) :
    Spec.acrResponse raw = some (cmd + 1, data) := by
  rw [accept_bridge] at h
  exact acr_accept_sound cmd raw data h

/-- `C14.acr122_accept_documented` / C13: every other response - any byte string - ends in `IOError(EIO)` -/
theorem gen_accept_documented (cmd : Nat) (raw : Bytes) :
    Safe (fun e => e = .io 5) (Gen.Fn.acr122_ccid_accept raw >>= fun f => Gen.Fn.acr122_cmd_accept f cmd) := by
  rw [accept_bridge]
  exact acr_accept_doc cmd raw

end NfcVerif.FnBridge.Acr122
