import NfcVerif.Props.C01T34
import NfcVerif.Lemmas.T3Format
/-!
# C03, part t34 - NDEF writes touch nothing outside the NDEF area (Type 3, Type 4)

The models never address anything but the NDEF service blocks (Type 3) / the NDEF file (Type 4: `Trace` has
no way to change the capability container); the theorems bound the addressed range and state what keeps its value.
-/
namespace NfcVerif.C03T34
open NfcVerif NfcVerif.T34

/-- Type 3: every write command addresses only blocks `0 .. ⌈len/16⌉` (≤ Nmaxb) with 16 octets per block;
everything behind block `⌈len/16⌉` keeps its value; the memory keeps its size; in block 0 only WriteF, Ln and
the checksum change (Ver, Nbr, Nbw, Nmaxb, RWFlag are written back unchanged, RFU octets as zero). -/
theorem t3_write_confined (m data : Bytes) (a : T3.Attr) (wf : T3.WF m a) (hlen : data.length ≤ 16 * a.nmaxb) :
    ∃ t, T3.setOctets m data = .ok (some t) ∧
      (∀ c ∈ t.sent, c.blk + c.n ≤ 1 + (data.length + 15) / 16 ∧ c.blk + c.n ≤ a.nmaxb + 1 ∧ c.data.length = 16 * c.n) ∧
      t.mem.drop (16 * (1 + (data.length + 15) / 16)) = m.drop (16 * (1 + (data.length + 15) / 16)) ∧
      t.mem.length = m.length ∧
      T3.decodeAttr (t.mem.take 16) = .ok (some { a with writef := 0, ln := data.length }) :=
  ⟨_, T3.setOctets_spec m data a wf hlen, T3.write_confined m data a wf hlen⟩

/-- Type 4: every UPDATE BINARY addresses only file offsets below `NLEN size + len` (≤ file size limit),
everything from that offset on keeps its value, the file keeps its size. -/
theorem t4_write_confined (v : T4.Variant) (c : T4.Card) (i : T4.Info) (data : Bytes) (wf : T4.WF v c i)
    (hlen : (data.length : Int) ≤ i.capacity) (hv : v.nlenLoop = true ∨ i.nlenSize ≤ i.maxLc) :
    ∃ t, T4.setOctets v c data = .ok (some t) ∧
      (∀ u ∈ t.sent, u.off + u.data.length ≤ i.nlenSize + data.length ∧
        ((i.nlenSize + data.length : Nat) : Int) ≤ i.nlenSize + i.capacity) ∧
      t.file.drop (i.nlenSize + data.length) = c.file.drop (i.nlenSize + data.length) ∧
      t.file.length = c.file.length := by
  have hcap := wf.cap; have hsz := wf.lim.size; have hlc := wf.lim.lc; have hnl := wf.lim.nl
  have hl : i.nlenSize + data.length ≤ c.file.length := by omega
  have hc := T4.write_confined v i data c.file hlc.1 (by omega) hl
  refine ⟨_, T4.setOctets_spec v c i data wf hlen hv, ?_, hc.2.1, hc.2.2⟩
  intro u hu
  have := hc.1 u hu
  omega

/-- Type 3 `format(version, wipe)` (repaired code, `Model/T3Format.lean`): on a tag of `N ≥ 1` blocks (at most
65536) that accepts at least one block per read / write command, with no version or a version 1.x and no wipe
or a wipe octet: the call returns True; afterwards the memory is the new attribute block (the version,
Nbr = min(limR, 15), Nbw = min(limW, 13) reduced to 12 when block numbers need three octets, Nmaxb = N-1,
WriteF 0, RWFlag 1, Ln 0) followed by the UNCHANGED data blocks (no wipe) or by `16·(N-1)` wipe octets; every
state-changing command, the probing writes included, addresses blocks below `N` only. -/
theorem t3_format_confined (t : T3.Phys) (N : Nat) (hm : t.mem.length = 16 * N) (hN : 1 ≤ N ∧ N ≤ 65536)
    (hr : 1 ≤ t.limR) (hw : 1 ≤ t.limW) (version wipe : Option Nat)
    (hv : ∀ v, version = some v → v / 16 = 1) (hwp : ∀ w, wipe = some w → w < 256) :
    (T3.format true t version wipe).res = .ok true ∧
    (T3.format true t version wipe).mem
      = T3.formatAttr (version.getD 0x10) (min t.limR 15) (T3.fmtNbw t.limW N) (N - 1)
          ++ (match wipe with
              | none => t.mem.drop 16
              | some w => List.replicate (16 * (N - 1)) w) ∧
    ∀ c ∈ (T3.format true t version wipe).sent, ∀ b ∈ c.blocks, b < N :=
  T3.format_spec t N hm hN hr hw version wipe hv hwp

/-- on the unchanged code `format()` without a version raises `struct.error` after the probing writes -/
theorem t3_format_version_none_counterexample :
    (T3.format false ⟨List.replicate 32 7, 1, 1⟩ none none).res = .error .struct ∧
    (T3.format false ⟨List.replicate 32 7, 1, 1⟩ none none).sent.length = 1 := by decide

example : (T3.format true ⟨List.replicate 48 7, 2, 1⟩ none (some 0x5A)).mem
    = T3.formatAttr 0x10 2 1 2 ++ List.replicate 32 0x5A := by decide

example : ∃ t, T3.setOctets C01T34.exM [5, 6] = .ok (some t) ∧ t.mem.drop 32 = C01T34.exM.drop 32 := by
  obtain ⟨t, h1, _, h3, _⟩ := t3_write_confined _ [5, 6] _ C01T34.exWF3 (by decide)
  exact ⟨t, h1, h3⟩

end NfcVerif.C03T34
