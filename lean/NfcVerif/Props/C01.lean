import NfcVerif.Lemmas.TlvSync
/-!
# C01 - NDEF write then read round-trips (Type 1 and Type 2 Tag)

Statements about the executable model `NfcVerif.Model.Tlv` (transcription of `tt1.py`,
`tt2.py` and the `octets` setter of `tag/__init__.py`; F1, F2 modelled as repaired).  Proofs are
in `Lemmas/Tlv.lean` and `Lemmas/TlvSync.lean`.

`WF c m L` is the explicit, decidable well-formedness predicate of `Model/Tlv.lean`;
`readNdef c m = .ok (some L)` says that a fresh reader finds an NDEF TLV described by `L`
(offset, skip set, area end, capacity, flags, message).
-/
namespace NfcVerif.C01
open NfcVerif NfcVerif.Tlv

/-- **Round trip, every layout.**  For every tag image `m` (any size, any number and placement of
NULL / lock control / memory control TLVs, static or dynamic memory, any previous contents) that
is well formed and every message `data` whose length does not exceed the reported capacity
(0 included, 1-byte and 3-byte length format): the write succeeds and a fresh walk over the
final image finds the same NDEF TLV offset, the same skip set, the same capacity and flags
and exactly `data`. -/
theorem t12_roundtrip (c : Cfg) (m : Bytes) (L : Layout) (data : Bytes)
    (hread : readNdef c m = .ok (some L)) (hwf : WF c m L) (hcap : (data.length : Int) ≤ L.cap) :
    ∃ ph, writeNdef c m L data = .ok ph ∧ readNdef c ph.m3 = .ok (some { L with ndef := data }) := by
  obtain ⟨m1, m2, m3a, m3, w, hnew⟩ := roundtrip c m L data ((readNdef_some c m L).1 hread) hwf hcap
  refine ⟨⟨m1, m2, m3a, m3⟩, ?_, (readNdef_some c m3 _).2 hnew⟩
  unfold writeNdef; rw [w.p1, Py.bind_ok, w.p2, Py.bind_ok, w.p3a, Py.bind_ok, w.p3, Py.bind_ok]

/-- Type 2 Tag instance (4-byte pages, capability container at 12, TLV area from 16). -/
theorem t2_roundtrip (m : Bytes) (L : Layout) (data : Bytes)
    (hread : readNdef t2Cfg m = .ok (some L)) (hwf : WF t2Cfg m L) (hcap : (data.length : Int) ≤ L.cap) :
    ∃ ph, writeNdef t2Cfg m L data = .ok ph ∧ readNdef t2Cfg ph.m3 = .ok (some { L with ndef := data }) :=
  t12_roundtrip t2Cfg m L data hread hwf hcap

/-- Type 1 Tag instance, static (byte writes, `unit = 1`) and dynamic memory (8-byte blocks). -/
theorem t1_roundtrip (unit : Nat) (m : Bytes) (L : Layout) (data : Bytes)
    (hread : readNdef (t1Cfg unit) m = .ok (some L)) (hwf : WF (t1Cfg unit) m L)
    (hcap : (data.length : Int) ≤ L.cap) :
    ∃ ph, writeNdef (t1Cfg unit) m L data = .ok ph
      ∧ readNdef (t1Cfg unit) ph.m3 = .ok (some { L with ndef := data }) :=
  t12_roundtrip (t1Cfg unit) m L data hread hwf hcap

/-- **The reported capacity is real.**  A message of `n ≤ capacity` bytes plus its TLV header
(2 or 4 bytes) is not larger than the number of non-reserved bytes between the NDEF TLV and the
end of the data area, and the byte after its last value byte (reserved bytes jumped over) is
still inside the data area. -/
theorem t12_capacity_sound (c : Cfg) (m : Bytes) (L : Layout) (hread : readNdef c m = .ok (some L))
    (n : Nat) (hn : (n : Int) ≤ L.cap) :
    n + hdrLen n ≤ countFree L.skip L.off L.areaEnd
    ∧ countFree L.skip L.off L.areaEnd ≤ L.areaEnd - L.off
    ∧ endAddr L.skip n (L.off + hdrLen n) ≤ L.areaEnd := by
  have hc := ((readNdef_some c m L).1 hread).cap
  rw [hc] at hn
  exact ⟨cap_fits _ _ _ _ hn, countFree_le _ _ _, (endAddr_le_area _ _ _ _ hn).2⟩

/-- **Write-back is exact**: the write commands `synchronize()` issues (the units whose content
differs, ascending) turn the old image into the new one on a plain-memory tag. -/
theorem t12_apply_diff (u : Nat) (hu : 0 < u) (m m' : Bytes) (hl : m.length = m'.length) :
    apply m (diffUnits u m m') = m' :=
  apply_diff u hu m m' hl

/-- The `octets` setter on a writeable well-formed tag succeeds and the commands it sent leave
exactly the final image of `writeNdef` in the tag memory. -/
theorem t12_write_reaches_tag (c : Cfg) (m : Bytes) (L : Layout) (data : Bytes)
    (hread : readNdef c m = .ok (some L)) (hwf : WF c m L) (hcap : (data.length : Int) ≤ L.cap)
    (hw : L.writeable = true) :
    (setOctets c m L data).res = .ok ()
    ∧ readNdef c (apply m (setOctets c m L data).cmds) = .ok (some { L with ndef := data }) := by
  obtain ⟨m1, m2, m3a, m3, w, hnew⟩ := roundtrip c m L data ((readNdef_some c m L).1 hread) hwf hcap
  have hu : 0 < c.unit := hwf.2.1
  have hl1 := w.len1
  have hl2 := w.len2
  have hl3 := w.len3
  have hl3a : m3a.length = m.length := by rw [w.m3a_eq, pre3_length, hl2]
  unfold setOctets
  rw [if_neg (by simp [hw]), if_neg (by omega), writeCmds_eq w]
  refine ⟨rfl, ?_⟩
  simp only
  rw [apply_append, apply_append, apply_append, apply_diff _ hu _ _ hl1.symm, apply_diff _ hu _ _ (by omega),
    apply_diff _ hu _ _ (by omega), apply_diff _ hu _ _ (by omega)]
  exact (readNdef_some c m3 _).2 hnew

/-- **Oversize data is rejected before any command is sent** (and a write-protected tag before
that), whatever the image. -/
theorem setOctets_oversize_no_command (c : Cfg) (m : Bytes) (L : Layout) (data : Bytes)
    (h : (data.length : Int) > L.cap) :
    (setOctets c m L data).cmds = []
    ∧ (setOctets c m L data).res = .error (if L.writeable then .value else .attr) := by
  unfold setOctets
  cases hw : L.writeable <;> simp [h]

/-! ## Non-vacuity: a concrete well-formed Type 2 image with a memory control TLV that reserves
bytes 27..28 inside the message, a NULL TLV, an NDEF TLV at offset 22. -/
def exM : Bytes :=
  List.replicate 12 0 ++ [0xE1, 0x10, 6, 0] ++ [2, 3, 0x33, 2, 3, 0, 3, 2, 0xAA, 0xBB, 0xFE] ++ List.replicate 37 0
def exL : Layout :=
  { off := 22, skip := [(27, 29)], areaEnd := 64, cap := 38, readable := true, writeable := true, ndef := [0xAA, 0xBB] }

example : readNdef t2Cfg exM = .ok (some exL) := by decide +kernel
example : WF t2Cfg exM exL := by decide +kernel
example : ∃ ph, writeNdef t2Cfg exM exL [1, 2, 3, 4, 5, 6] = .ok ph
    ∧ readNdef t2Cfg ph.m3 = .ok (some { exL with ndef := [1, 2, 3, 4, 5, 6] }) :=
  t2_roundtrip exM exL _ (by decide +kernel) (by decide +kernel) (by decide)
/-- the empty message (F1 before the repair) -/
example : (setOctets t2Cfg exM exL []).res = .ok () ∧
    readNdef t2Cfg (apply exM (setOctets t2Cfg exM exL []).cmds) = .ok (some { exL with ndef := [] }) :=
  t12_write_reaches_tag t2Cfg exM exL [] (by decide +kernel) (by decide +kernel) (by decide) rfl
/-- the commands of that write: page 5 three times (L := 0, value + terminator, L := 6) and page 6 -/
example : (setOctets t2Cfg exM exL [1, 2, 3, 4, 5, 6]).cmds =
    [(20, [3, 0, 3, 0]), (24, [1, 2, 3, 0]), (28, [0, 4, 5, 6]), (32, [0xFE, 0, 0, 0]), (20, [3, 0, 3, 6])] := by
  decide +kernel
example : (setOctets t2Cfg exM exL (List.replicate 39 7)) = ⟨[], .error .value⟩ := by decide +kernel
/-- a Type 1 image (static memory, byte writes) -/
def exM1 : Bytes :=
  [1, 2, 3, 4, 5, 6, 7, 0] ++ [0xE1, 0x10, 0x0E, 0] ++ [0, 3, 1, 0x55, 0xFE] ++ List.replicate 103 0
example : ∃ L, readNdef (t1Cfg 1) exM1 = .ok (some L) ∧ WF (t1Cfg 1) exM1 L ∧ L.off = 13 ∧ L.cap = 89 := by
  refine ⟨{ off := 13, skip := [(104, 120)], areaEnd := 120, cap := 89, readable := true, writeable := true,
            ndef := [0x55] }, ?_, ?_, rfl, rfl⟩ <;> decide +kernel

end NfcVerif.C01
