import NfcVerif.Lemmas.FnBridgeSony
import NfcVerif.Lemmas.Auth
/-!
# Bridge theorems, group Sony (`nfc/tag/tt3_sony.py` -> `Gen/FnSony.lean`)

Properties C20 (`read_with_mac`, `_authenticate`, `_protect`, `FelicaLiteS.authenticate`, `write_with_mac`,
`generate_mac`), C16 (which NDEF accessors a tag object carries after an authentication attempt), C02 (the NDEF
attribute overrides: the readable flag is never touched), C01 (`format` helpers), and the response length checks of the
FelicaStandard commands.

The regenerated definitions have every tag command, the MAC function and the cipher object as function parameters;
the theorems hold for ALL such functions (all tags, channels, ciphers).  Model counterparts: `Auth.readWithMac`,
`Auth.liteAuthenticate`, `Auth.liteKey`, `Auth.revHalves`, `AuthHist.keyOf`, `Mac.generateMac` (existing) and the
reference semantics `Model/FnSonyRef.lean` (new).
-/
set_option linter.unusedSimpArgs false
namespace NfcVerif.FnBridge.Sony
open NfcVerif NfcVerif.PyFn NfcVerif.FnBridge.TagCmd NfcVerif.FnBridge.Vendor NfcVerif.SonyRef

/-! ## `read_with_mac` -/

/-- the session guard -/
theorem rwm_guard_bridge (sk iv : Option Bytes) : Gen.Fn.sony_rwm_guard sk iv = sessionGuard sk iv := by
  unfold Gen.Fn.sony_rwm_guard sessionGuard
  cases sk <;> cases iv <;> simp

/-- `Auth.readWithMac` raises the same `RuntimeError` without a session (`_sk`, `_iv` are set together) -/
theorem rwm_guard_model (C : Mac.Cipher) (idm : Bytes) (blocks : List Nat) (rsp : Bytes) :
    Auth.readWithMac C idm none blocks rsp = (Gen.Fn.sony_rwm_guard none none >>= fun _ => .ok none) := rfl

example : Gen.Fn.sony_rwm_guard (some [1]) none = .error .runtime ∧ Gen.Fn.sony_rwm_guard (some [1]) (some [2]) = .ok none := by
  decide

/-- ONE command: the requested blocks, then the MAC block 0x81 (`Auth.readWithMac`: `blocks ++ [0x81]`) -/
theorem rwm_blocks_bridge (blocks : List Int) (bc : Int → Int) :
    Gen.Fn.sony_rwm_blocks blocks bc = (blocks ++ [0x81]).map bc := by
  unfold Gen.Fn.sony_rwm_blocks; simp

example : Gen.Fn.sony_rwm_blocks [5, 6] (fun n => n + 1000) = [1005, 1006, 1129] := by decide

/-- the decision behind the read command -/
theorem rwm_check_bridge (data sk iv : Bytes) (gm : Bytes → Bytes → Bytes → Py Bytes) :
    Gen.Fn.sony_rwm_check data sk iv gm = macCheck (fun d => gm d sk iv) data := by
  unfold Gen.Fn.sony_rwm_check macCheck
  dsimp only
  cases gm (slice data 0 (-16)) sk iv with
  | error e => rfl
  | ok m => simp only [Py.bind_ok]; split <;> rfl

/-- the C20 model function `Auth.readWithMac` IS the frame handling followed by the regenerated decision with
`generate_mac` := `Mac.generateMac C` -/
theorem rwm_check_model (C : Mac.Cipher) (idm : Bytes) (s : Auth.Session) (blocks : List Nat) (rsp : Bytes) :
    Auth.readWithMac C idm (some s) blocks rsp =
      (Auth.readCmd idm (blocks ++ [0x81]) >>= fun _ =>
       Auth.readRsp idm (blocks ++ [0x81]) rsp >>= fun data =>
       Gen.Fn.sony_rwm_check data s.sk s.iv (fun d k i => Mac.generateMac C d k i false)) := by
  simp only [rwm_check_bridge]
  rfl

/-- C20 for the regenerated function, for every MAC function: data is returned iff the received MAC field (all eight
octets) equals the MAC computed over exactly the returned data (all of it) with the session key and start value -/
theorem gen_rwm_accept_iff (data sk iv d : Bytes) (gm : Bytes → Bytes → Bytes → Py Bytes) :
    Gen.Fn.sony_rwm_check data sk iv gm = .ok (some d) ↔
      d = slice data 0 (-16) ∧ gm d sk iv = .ok (slice data (-16) (-8)) := by
  rw [rwm_check_bridge]; exact macCheck_some_iff _ data d

/-- a MAC field that differs in any octet: `None`, never data -/
theorem gen_rwm_mismatch_none (data sk iv m : Bytes) (gm : Bytes → Bytes → Bytes → Py Bytes)
    (hm : gm (slice data 0 (-16)) sk iv = .ok m) (hne : slice data (-16) (-8) ≠ m) :
    Gen.Fn.sony_rwm_check data sk iv gm = .ok none := by
  rw [rwm_check_bridge]; exact macCheck_none _ data m hm hne

/-- C20 `mac_field_compared`, restated with the regenerated decision in place of the model's -/
theorem gen_mac_field_compared (C : Mac.Cipher) (idm : Bytes) (s : Auth.Session) (blocks : List Nat) (rsp d : Bytes)
    (h : Auth.readWithMac C idm (some s) blocks rsp = .ok (some d)) :
    ∃ data, Auth.readRsp idm (blocks ++ [0x81]) rsp = .ok data ∧
      Gen.Fn.sony_rwm_check data s.sk s.iv (fun d k i => Mac.generateMac C d k i false) = .ok (some d) := by
  obtain ⟨data, h1, h2, h3⟩ := Auth.readWithMac_some C idm s blocks rsp d h
  exact ⟨data, h1, (gen_rwm_accept_iff data s.sk s.iv d _).mpr ⟨h2, h3⟩⟩

example : Gen.Fn.sony_rwm_check (List.range 16 ++ [9, 9, 9, 9, 9, 9, 9, 9] ++ List.replicate 8 0) [1] [2]
    (fun _ _ _ => .ok [9, 9, 9, 9, 9, 9, 9, 9]) = .ok (some (List.range 16)) := by decide +kernel
example : Gen.Fn.sony_rwm_check (List.range 16 ++ [9, 9, 9, 9, 9, 9, 9, 8] ++ List.replicate 8 0) [1] [2]
    (fun _ _ _ => .ok [9, 9, 9, 9, 9, 9, 9, 9]) = .ok none := by decide +kernel

/-! ## `generate_mac`: the last statement -/

/-- the MAC is the last eight octets of the ciphertext, last octet first (`Mac.macBlocks`: the last CBC block reversed) -/
theorem mac_tail_bridge (c : Bytes) : Gen.Fn.sony_mac_tail c = (c.drop (c.length - 8)).reverse := by
  unfold Gen.Fn.sony_mac_tail sliceRev
  simp only
  by_cases h8 : c.length < 9
  · have e1 : (if (-9 : Int) + (c.length : Int) < 0 then (-1 : Int)
        else if (-9 : Int) + (c.length : Int) ≥ (c.length : Int) then (c.length : Int) - 1 else (-9 : Int) + (c.length : Int)) = -1 := by
      split <;> omega
    simp only [show ((-9 : Int) < 0) = True from by simp, if_true, e1]
    have e2 : ((c.length : Int) - 1 + 1).toNat = c.length := by omega
    have e3 : ((-1 : Int) + 1).toNat = 0 := by omega
    rw [e2, e3, List.take_length, List.drop_zero, show c.length - 8 = 0 from by omega, List.drop_zero]
  · have e1 : (if (-9 : Int) + (c.length : Int) < 0 then (-1 : Int)
        else if (-9 : Int) + (c.length : Int) ≥ (c.length : Int) then (c.length : Int) - 1 else (-9 : Int) + (c.length : Int)) = (c.length : Int) - 9 := by
      split
      · omega
      · split <;> omega
    simp only [show ((-9 : Int) < 0) = True from by simp, if_true, e1]
    have e2 : ((c.length : Int) - 1 + 1).toNat = c.length := by omega
    have e3 : ((c.length : Int) - 9 + 1).toNat = c.length - 8 := by omega
    rw [e2, e3, List.take_length]

/-- for a ciphertext of whole 8-octet blocks the regenerated tail is the model's "last block, reversed" -/
theorem gen_mac_tail_last_block (pre last : Bytes) (h : last.length = 8) : Gen.Fn.sony_mac_tail (pre ++ last) = last.reverse := by
  rw [mac_tail_bridge]
  have : (pre ++ last).length - 8 = pre.length := by simp [h]
  rw [this, List.drop_left]

example : Gen.Fn.sony_mac_tail (List.range 16) = [15, 14, 13, 12, 11, 10, 9, 8] := by decide +kernel

/-! ## `FelicaLite._authenticate` -/

/-- everything in front of the first command: the key (`Auth.liteKey`), `_authenticated = False` and BOTH NDEF
accessors back to the plain commands - before the challenge is written, whatever the outcome will be -/
theorem auth_reset_bridge (pw : Bytes) (plainRd plainWr : Int) :
    Gen.Fn.sony_auth_reset pw plainRd plainWr = (Auth.liteKey pw >>= fun key => .ok (key, false, plainRd, plainWr)) := by
  unfold Gen.Fn.sony_auth_reset
  by_cases h : pw ≠ [] ∧ len pw < 16
  · rw [if_pos h, key_err pw h]; rfl
  · rw [if_neg h, key_gen pw h]; rfl

example : Gen.Fn.sony_auth_reset [] 10 11 = .ok (List.replicate 16 0, false, 10, 11) := by decide +kernel

/-- the method body against the reference semantics -/
theorem authenticate_bridge (pw rc : Bytes) (macRd : Int) (sk0 iv0 : Option Bytes) (rfs0 : Int)
    (sk : Bytes) (gm : Bytes → Bytes → Bytes → Py Bytes) (rd : Int → Int → Py Bytes) (wr : Bytes → Int → Py Int) :
    Gen.Fn.sony_authenticate pw macRd rc sk0 iv0 rfs0 sk gm rd wr = authenticate pw rc macRd sk0 iv0 rfs0 sk gm rd wr := by
  unfold Gen.Fn.sony_authenticate authenticate
  by_cases h : pw ≠ [] ∧ len pw < 16
  · rw [if_pos h, key_err pw h]; rfl
  · rw [if_neg h, key_gen pw h]
    simp only [Py.bind_ok, revHalves_gen']
    cases wr (Auth.revHalves rc) 128 with
    | error e => rfl
    | ok w =>
    simp only [Py.bind_ok]
    cases rd 130 129 with
    | error e => rfl
    | ok data =>
    simp only [Py.bind_ok]
    cases gm (slice data 0 (-16)) sk (slice rc 0 8) with
    | error e => rfl
    | ok m =>
    simp only [Py.bind_ok]
    split <;> rfl

/-- C20: `_authenticate` returns True iff the MAC the card sent over its ID block (all eight octets) equals the MAC
computed under the session key `sk` (in the code: what the cipher object built from the password key gives for the
challenge of THIS call);
exactly that session key, the first challenge half as start value and the MAC'ed read accessor are stored -/
theorem gen_authenticate_true_iff (pw rc : Bytes) (macRd : Int) (sk0 iv0 : Option Bytes) (rfs0 : Int)
    (sk : Bytes) (gm : Bytes → Bytes → Bytes → Py Bytes) (rd : Int → Int → Py Bytes) (wr : Bytes → Int → Py Int)
    (s i : Option Bytes) (r : Int) :
    Gen.Fn.sony_authenticate pw macRd rc sk0 iv0 rfs0 sk gm rd wr = .ok (true, s, i, r) ↔
      ∃ key w data, Auth.liteKey pw = .ok key ∧ wr (Auth.revHalves rc) 128 = .ok w ∧ rd 130 129 = .ok data
        ∧ gm (slice data 0 (-16)) sk (slice rc 0 8) = .ok (slice data (-16) (-8))
        ∧ s = some sk ∧ i = some (slice rc 0 8) ∧ r = macRd := by
  rw [authenticate_bridge]; exact authenticate_true_iff pw rc macRd sk0 iv0 rfs0 sk gm rd wr s i r

/-- a failed authentication stores nothing of its own -/
theorem gen_authenticate_false (pw rc : Bytes) (macRd : Int) (sk0 iv0 : Option Bytes) (rfs0 : Int)
    (sk : Bytes) (gm : Bytes → Bytes → Bytes → Py Bytes) (rd : Int → Int → Py Bytes) (wr : Bytes → Int → Py Int)
    (s i : Option Bytes) (r : Int)
    (h : Gen.Fn.sony_authenticate pw macRd rc sk0 iv0 rfs0 sk gm rd wr = .ok (false, s, i, r)) : s = sk0 ∧ i = iv0 ∧ r = rfs0 := by
  rw [authenticate_bridge] at h; exact authenticate_false pw rc macRd sk0 iv0 rfs0 sk gm rd wr s i r h

/-- C16: composed with the reset, a failed attempt leaves the PLAIN read accessor installed (never a stale MAC'ed one) -/
theorem gen_failed_auth_plain_accessor (pw rc key : Bytes) (plainRd plainWr macRd : Int) (a : Bool) (rfs wts : Int)
    (sk : Bytes) (gm : Bytes → Bytes → Bytes → Py Bytes) (rd : Int → Int → Py Bytes) (wr : Bytes → Int → Py Int)
    (s i : Option Bytes) (r : Int)
    (h0 : Gen.Fn.sony_auth_reset pw plainRd plainWr = .ok (key, a, rfs, wts))
    (h : Gen.Fn.sony_authenticate pw macRd rc none none rfs sk gm rd wr = .ok (false, s, i, r)) :
    a = false ∧ wts = plainWr ∧ r = plainRd ∧ s = none ∧ i = none := by
  rw [auth_reset_bridge] at h0
  cases hk : Auth.liteKey pw with
  | error e => rw [hk] at h0; cases h0
  | ok k =>
    rw [hk] at h0
    cases h0
    obtain ⟨h1, h2, h3⟩ := gen_authenticate_false pw rc macRd none none plainRd sk gm rd wr s i r h
    exact ⟨rfl, rfl, h3, h1, h2⟩

/-- the challenge block is written first: a failing write is the outcome of the call -/
theorem gen_authenticate_challenge_first (pw rc key : Bytes) (macRd : Int) (sk0 iv0 : Option Bytes) (rfs0 : Int)
    (sk : Bytes) (gm : Bytes → Bytes → Bytes → Py Bytes) (rd : Int → Int → Py Bytes) (wr : Bytes → Int → Py Int)
    (e : Exc) (hk : Auth.liteKey pw = .ok key) (hw : wr (Auth.revHalves rc) 128 = .error e) :
    Gen.Fn.sony_authenticate pw macRd rc sk0 iv0 rfs0 sk gm rd wr = .error e := by
  rw [authenticate_bridge]; exact authenticate_challenge_first pw rc key macRd sk0 iv0 rfs0 sk gm rd wr e hk hw

/-- the C20 model function `Auth.liteAuthenticate` is the regenerated method body with the frame functions of
`Model/Auth.lean` as the commands, `Mac.sessionKey` as what the cipher object computes and `Mac.generateMac` as the MAC -/
theorem authenticate_model (C : Mac.Cipher) (idm pw rc rsp1 rsp2 key sk : Bytes) (macRd rfs0 : Int)
    (hk : Auth.liteKey pw = .ok key) (hs : Mac.sessionKey C key rc = .ok sk) :
    Auth.liteAuthenticate C idm pw rc rsp1 rsp2 =
      (Gen.Fn.sony_authenticate pw macRd rc none none rfs0 sk
        (fun d k i => Mac.generateMac C d k i false)
        (fun _ _ => Auth.readCmd idm [0x82, 0x81] >>= fun _ => Auth.readRsp idm [0x82, 0x81] rsp2)
        (fun d _ => Auth.writeCmd idm [0x80] d >>= fun _ => Auth.writeRsp idm rsp1 >>= fun _ => .ok 0) >>= fun o =>
       .ok (o.1, match o.2.1, o.2.2.1 with
                 | some sk, some iv => some ⟨sk, iv⟩
                 | _, _ => none)) := by
  rw [authenticate_bridge]
  unfold Auth.liteAuthenticate authenticate Auth.liteChallengeCmd
  rw [hk]
  simp only [Py.bind_ok]
  cases Auth.writeCmd idm [128] (Auth.revHalves rc) with
  | error e => rfl
  | ok c1 =>
  simp only [Py.bind_ok]
  cases Auth.writeRsp idm rsp1 with
  | error e => rfl
  | ok u =>
  simp only [Py.bind_ok]
  rw [hs]
  simp only [Py.bind_ok]
  cases Auth.readCmd idm [130, 129] with
  | error e => rfl
  | ok c2 =>
  simp only [Py.bind_ok]
  cases Auth.readRsp idm [130, 129] rsp2 with
  | error e => rfl
  | ok data =>
  simp only [Py.bind_ok]
  have e8 : slice rc 0 8 = rc.take 8 := slice0 rc 8
  rw [e8]
  cases Mac.generateMac C (slice data 0 (-16)) sk (rc.take 8) false with
  | error e => rfl
  | ok m =>
  simp only [Py.bind_ok]
  split <;> rfl

/-! ## `FelicaLite._protect` -/

/-- the password length check is `AuthHist.pwCheck` -/
theorem protect_pwcheck_bridge (pw : Bytes) :
    Gen.Fn.sony_protect_pwcheck pw = (AuthHist.pwCheck (some pw) >>= fun _ => .ok none) := by
  unfold Gen.Fn.sony_protect_pwcheck AuthHist.pwCheck
  by_cases h : pw ≠ [] ∧ len pw < 16
  · have h' : pw ≠ [] ∧ pw.length < 16 := ⟨h.1, by have := h.2; simp only [len_eq] at this; omega⟩
    rw [if_pos h]; simp only [if_pos h']; rfl
  · have h' : ¬ (pw ≠ [] ∧ pw.length < 16) := fun hc => h ⟨hc.1, by simp only [len_eq]; omega⟩
    rw [if_neg h]; simp only [if_neg h']; rfl

theorem lites_protect_pwcheck_bridge (pw : Bytes) :
    Gen.Fn.sony_lites_protect_pwcheck pw = (AuthHist.pwCheck (some pw) >>= fun _ => .ok none) :=
  protect_pwcheck_bridge pw

example : Gen.Fn.sony_protect_pwcheck [] = .ok none ∧ Gen.Fn.sony_protect_pwcheck [1, 2, 3] = .error .value := by decide +kernel

/-- the method body behind the length check against the reference semantics: the card key is `AuthHist.keyOf` of the
password, sent in the layout `Auth.revHalves` to block 0x87 -/
theorem lite_protect_bridge (pw : Option Bytes) (rp : Bool) (pf : Int) (ndef : Option Bytes) (rd : Int → Py Bytes)
    (wr : Bytes → Int → Py Int) :
    Gen.Fn.sony_lite_protect pw rp pf ndef rd wr = liteProtect pw rp pf ndef rd wr := by
  unfold Gen.Fn.sony_lite_protect liteProtect liteProtectTail attrReadOnly
  by_cases h0 : pf < 0
  · rw [if_pos h0, if_pos h0]
  · rw [if_neg h0, if_neg h0]
    cases rp with
    | true => rfl
    | false =>
      simp only [Bool.false_eq_true, if_false]
      cases rd 136 with
      | error e => rfl
      | ok mc =>
        simp only [Py.bind_ok]
        cases pw with
        | none => rfl
        | some p =>
          simp only [revHalves_gen', keyOf_gen]

/-- C20: EVERY byte string given as password, the empty one included, makes the regenerated `_protect` send the key
derived from it to the key block of a card with writeable system blocks -/
theorem gen_protect_writes_key (p : Bytes) (pf : Int) (ndef : Option Bytes) (rd : Int → Py Bytes)
    (wr : Bytes → Int → Py Int) (mc : Bytes) (e : Exc) (hpf : 0 ≤ pf) (hmc : rd 136 = .ok mc)
    (h2 : PyFn.getB mc 2 = .ok 255) (hw : wr (Auth.revHalves (AuthHist.keyOf p)) 135 = .error e) :
    Gen.Fn.sony_lite_protect (some p) false pf ndef rd wr = .error e := by
  rw [lite_protect_bridge]; exact liteProtect_writes_key p pf ndef rd wr mc e hpf hmc h2 hw

/-- C20 (seeds C20-m2, r3m2, r5m3): the EMPTY password writes the factory key of sixteen zero octets -/
theorem gen_protect_empty_password (pf : Int) (ndef : Option Bytes) (rd : Int → Py Bytes)
    (wr : Bytes → Int → Py Int) (mc : Bytes) (e : Exc) (hpf : 0 ≤ pf) (hmc : rd 136 = .ok mc)
    (h2 : PyFn.getB mc 2 = .ok 255) (hw : wr (List.replicate 16 0) 135 = .error e) :
    Gen.Fn.sony_lite_protect (some []) false pf ndef rd wr = .error e := by
  rw [lite_protect_bridge]; exact liteProtect_empty_password pf ndef rd wr mc e hpf hmc h2 hw

/-- without a password no command goes to the key block -/
theorem gen_protect_none_no_key (rp : Bool) (pf : Int) (ndef : Option Bytes) (rd : Int → Py Bytes)
    (wr wr' : Bytes → Int → Py Int) (h : ∀ d b, b ≠ 135 → wr d b = wr' d b) :
    Gen.Fn.sony_lite_protect none rp pf ndef rd wr = Gen.Fn.sony_lite_protect none rp pf ndef rd wr' := by
  rw [lite_protect_bridge, lite_protect_bridge]; exact liteProtect_none_no_key rp pf ndef rd wr wr' h

/-- the key the regenerated `_protect` provisions is the key the regenerated `_authenticate` will use for the same password -/
theorem gen_protect_auth_same_key (pw key : Bytes) (a : Bool) (r w : Int)
    (h : Gen.Fn.sony_auth_reset pw r w = .ok (key, a, r, w)) : AuthHist.keyOf pw = key := by
  rw [auth_reset_bridge] at h
  unfold Auth.liteKey at h
  unfold AuthHist.keyOf
  split at h
  · cases h
  · cases h; rfl

example : Gen.Fn.sony_lite_protect (some []) false 14 none (fun _ => .ok (List.replicate 16 0xFF))
    (fun d b => if b = 135 ∧ d = List.replicate 16 0 then .error .timeout else .ok 0) = .error .timeout := by decide +kernel
example : Gen.Fn.sony_lite_protect none false 14 none (fun _ => .ok (List.replicate 16 0xFF))
    (fun _ b => if b = 135 then .error .timeout else .ok 0) = .ok true := by decide +kernel

/-! ## `FelicaLiteS._protect` -/

theorem lites_protect_head_bridge (pw : Option Bytes) (rp : Bool) (pf : Int) (rd : Int → Py Bytes) :
    Gen.Fn.sony_lites_protect_head pw rp pf rd = if pf < 0 then .error .value else rd 136 := by
  unfold Gen.Fn.sony_lites_protect_head
  split
  · rfl
  · cases rd 136 <;> rfl

/-- the end of the method: system blocks locked (octet 2 = 00), CK/CKV writeable with MAC (octet 5 = 01) -/
theorem lites_protect_tail_bridge (mc : Bytes) (pf : Int) (ndef : Option Bytes) (rd : Int → Py Bytes)
    (wr : Bytes → Int → Py Int) :
    Gen.Fn.sony_lites_protect_tail mc pf ndef rd wr = litesProtectTail pf ndef mc rd wr := by
  unfold Gen.Fn.sony_lites_protect_tail litesProtectTail attrReadOnly
  rfl

/-- the body of `if password is not None:` (byte string passwords) against the reference semantics -/
theorem lites_protect_key_bridge (p : Bytes) (rp : Bool) (pf : Int) (mc : Bytes) (authed : Bool) (auth : Bytes → Py Bool)
    (rd : Int → Py Bytes) (wr : Bytes → Int → Py Int) :
    Gen.Fn.sony_lites_protect_key p rp pf mc authed auth rd wr = litesProtectKey p rp pf mc authed auth rd wr := by
  unfold Gen.Fn.sony_lites_protect_key litesProtectKey litesKeyChange
  dsimp only
  simp only [revHalves_gen', keyOf_gen]

/-- C20: on a Lite-S with writeable system blocks EVERY byte string given as password, the empty one included, is
turned into a key (`AuthHist.keyOf`) that is written to the key block -/
theorem gen_lites_protect_writes_key (p : Bytes) (rp : Bool) (pf : Int) (mc : Bytes) (authed : Bool) (auth : Bytes → Py Bool)
    (rd : Int → Py Bytes) (wr : Bytes → Int → Py Int) (ckv v : Bytes) (x : Int) (e : Exc)
    (hmc : PyFn.getB mc 2 = .ok 255)
    (h1 : rd 134 = .ok ckv) (h2 : PyFn.needExact (slice ckv 0 2) 2 = .ok ())
    (h3 : PyFn.pack [.Hle] [PyFn.imin (PyFn.ule (slice ckv 0 2) 0 2 + 1) 65535] = .ok v)
    (h4 : wr (v ++ PyFn.repeatL [0] 14) 134 = .ok x) (hw : wr (Auth.revHalves (AuthHist.keyOf p)) 135 = .error e) :
    Gen.Fn.sony_lites_protect_key p rp pf mc authed auth rd wr = .error e := by
  rw [lites_protect_key_bridge]
  unfold litesProtectKey
  rw [hmc]
  simp only [Py.bind_ok, ne_eq, not_true_eq_false, if_false]
  exact litesKeyChange_writes_key p rp pf mc auth rd wr ckv v x e h1 h2 h3 h4 hw

/-- `FelicaLite._format`: the NDEF compatibility flag -/
theorem format_compat_bridge (mc : Bytes) (wr : Bytes → Int → Py Int) :
    Gen.Fn.sony_format_compat mc wr = formatCompat mc wr := by
  unfold Gen.Fn.sony_format_compat formatCompat
  cases getB mc 3 with
  | error e => rfl
  | ok m3 => simp only [Py.bind_ok]

/-! ## `FelicaLiteS.authenticate`: external authentication -/

theorem lites_ext_auth_bridge (plainRd plainWr : Int) (rm : Int → Py (Option Bytes)) (wm : Bytes → Int → Py Int) :
    Gen.Fn.sony_lites_ext_auth plainRd plainWr rm wm =
      (wm ([1] ++ List.replicate 15 0) 146 >>= fun _ => rm 146 >>= fun st => .ok (false, plainRd, plainWr, st)) := by
  unfold Gen.Fn.sony_lites_ext_auth
  rfl

theorem lites_ext_cond_bridge (state : Bytes) :
    Gen.Fn.sony_lites_ext_cond state = (getB state 0 >>= fun b => .ok (decide (b = 1))) := by
  unfold Gen.Fn.sony_lites_ext_cond
  cases getB state 0 with
  | error e => rfl
  | ok b => simp

theorem lites_ext_ok_bridge (macRd macWr : Int) : Gen.Fn.sony_lites_ext_ok macRd macWr = (true, macRd, macWr) := rfl

/-- the three regenerated pieces assembled are the reference semantics of the external authentication
(`Model/AuthHist.lean` `extAuthS`: a failed MAC check of the state block yields False) -/
theorem ext_auth_assembled (plainRd plainWr macRd macWr : Int) (rm : Int → Py (Option Bytes)) (wm : Bytes → Int → Py Int) :
    extAuth plainRd plainWr macRd macWr rm wm =
      (Gen.Fn.sony_lites_ext_auth plainRd plainWr rm wm >>= fun o =>
        match o.2.2.2 with
        | none => .ok (o.1, o.2.1, o.2.2.1)
        | some s => Gen.Fn.sony_lites_ext_cond s >>= fun c =>
            if c then .ok (Gen.Fn.sony_lites_ext_ok macRd macWr) else .ok (o.1, o.2.1, o.2.2.1)) := by
  rw [lites_ext_auth_bridge]
  unfold extAuth
  cases wm ([1] ++ List.replicate 15 0) 146 with
  | error e => rfl
  | ok w =>
    simp only [Py.bind_ok]
    cases rm 146 with
    | error e => rfl
    | ok st =>
      simp only [Py.bind_ok]
      cases st with
      | none => rfl
      | some s =>
        simp only [lites_ext_cond_bridge, lites_ext_ok_bridge]
        cases getB s 0 with
        | error e => rfl
        | ok b =>
          simp only [Py.bind_ok]
          by_cases hb : b = 1 <;> simp [hb]

/-- C16 / C20: the MAC'ed accessors are installed only when the MAC-verified state block shows EXT_AUTH = 01; in every
other completed case the tag object keeps the plain accessors and `_authenticated = False` -/
theorem gen_ext_auth_accessors (plainRd plainWr macRd macWr : Int) (rm : Int → Py (Option Bytes)) (wm : Bytes → Int → Py Int)
    (a : Bool) (r w : Int) (h : extAuth plainRd plainWr macRd macWr rm wm = .ok (a, r, w)) :
    (a = true ∧ r = macRd ∧ w = macWr ∧ ∃ s, rm 146 = .ok (some s) ∧ getB s 0 = .ok 1) ∨
    (a = false ∧ r = plainRd ∧ w = plainWr) := by
  unfold extAuth at h
  cases hw : wm ([1] ++ List.replicate 15 0) 146 with
  | error e => rw [hw] at h; cases h
  | ok x =>
    rw [hw] at h
    simp only [Py.bind_ok] at h
    cases hr : rm 146 with
    | error e => rw [hr] at h; cases h
    | ok st =>
      rw [hr] at h
      simp only [Py.bind_ok] at h
      cases st with
      | none => cases h; exact Or.inr ⟨rfl, rfl, rfl⟩
      | some s =>
        simp only at h
        cases hb : getB s 0 with
        | error e => rw [hb] at h; cases h
        | ok b =>
          rw [hb] at h
          simp only [Py.bind_ok] at h
          by_cases h1 : b = 1
          · simp only [h1, if_true] at h; cases h
            exact Or.inl ⟨rfl, rfl, rfl, s, rfl, by rw [hb, h1]⟩
          · simp only [h1, if_false] at h; cases h
            exact Or.inr ⟨rfl, rfl, rfl⟩

example : extAuth 1 2 3 4 (fun _ => .ok (some [1, 0])) (fun _ _ => .ok 0) = .ok (true, 3, 4) := by decide +kernel
example : extAuth 1 2 3 4 (fun _ => .ok none) (fun _ _ => .ok 0) = .ok (false, 1, 2) := by decide +kernel

/-! ## `write_with_mac`, `write_without_mac` -/

theorem wwm_guard_bridge (data : Bytes) (block : Int) (sk iv : Option Bytes) :
    Gen.Fn.sony_wwm_guard data block sk iv =
      if data.length ≠ 16 then .error .value else if sk = none ∨ iv = none then .error .runtime else .ok none := by
  unfold Gen.Fn.sony_wwm_guard
  have e : (len data ≠ 16) ↔ data.length ≠ 16 := by simp only [len_eq]; omega
  simp only [e]
  split
  · rfl
  · cases sk <;> cases iv <;> simp

/-- WCNT is read from the tag (block 0x90) in EVERY call; the MAC input is WCNT, 00, block, 00 91 00, data; MAC_A is the
MAC followed by WCNT and five zero octets (`Auth.writeWithMacCmd`) -/
theorem wwm_body_bridge (data : Bytes) (block : Int) (sk iv : Bytes) (flip : Bytes → Bytes)
    (gm : Bytes → Bytes → Bytes → Py Bytes) (rd : Int → Py Bytes) :
    Gen.Fn.sony_wwm_body data block sk iv flip gm rd =
      (rd 144 >>= fun w =>
       mkBytes [block] >>= fun b =>
       gm (w.take 3 ++ [0] ++ b ++ [0, 145, 0] ++ data) (flip sk) iv >>= fun m =>
       .ok (w.take 3 ++ [0] ++ b ++ [0, 145, 0] ++ data, m ++ w.take 3 ++ List.replicate 5 0)) := by
  unfold Gen.Fn.sony_wwm_body
  cases rd 144 with
  | error e => rfl
  | ok w =>
    simp only [Py.bind_ok]
    have e3 : slice w 0 3 = w.take 3 := slice0 w 3
    rw [e3]
    cases mkBytes [block] with
    | error e => rfl
    | ok b =>
      simp only [Py.bind_ok]
      cases gm (w.take 3 ++ [0] ++ b ++ [0, 145, 0] ++ data) (flip sk) iv with
      | error e => rfl
      | ok m => rfl

/-- a failing WCNT read is the outcome: the counter is never taken from the tag object -/
theorem gen_wwm_reads_counter (data : Bytes) (block : Int) (sk iv : Bytes) (flip : Bytes → Bytes)
    (gm : Bytes → Bytes → Bytes → Py Bytes) (rd : Int → Py Bytes) (e : Exc) (h : rd 144 = .error e) :
    Gen.Fn.sony_wwm_body data block sk iv flip gm rd = .error e := by
  rw [wwm_body_bridge, h]; rfl

theorem wwm_payload_bridge (data maca : Bytes) : Gen.Fn.sony_wwm_payload data maca = sliceN data 8 24 ++ maca := by
  unfold Gen.Fn.sony_wwm_payload
  have e : slice data 8 24 = sliceN data 8 24 := slice_nat data 8 24
  rw [e]

theorem wwm_blocks_bridge (block : Int) (bc : Int → Int) : Gen.Fn.sony_wwm_blocks block bc = [bc block, bc 0x91] := rfl

/-- `write_without_mac`: exactly sixteen octets (`AuthHist.writePlain`) -/
theorem wwom_assert_bridge (data : Bytes) (block : Int) :
    Gen.Fn.sony_wwom_assert data block = if data.length ≠ 16 then .error .assertion else .ok none := by
  unfold Gen.Fn.sony_wwom_assert
  have e : (¬ (len data = 16 ∧ True)) ↔ data.length ≠ 16 := by simp only [len_eq, and_true]; omega
  simp only [e]

example : Gen.Fn.sony_wwm_body (List.replicate 16 7) 0x92 [1] [2] (fun k => k) (fun _ _ _ => .ok [9]) (fun _ => .ok [4, 5, 6, 0]) =
    .ok ([4, 5, 6, 0, 0x92, 0, 0x91, 0] ++ List.replicate 16 7, [9, 4, 5, 6, 0, 0, 0, 0, 0]) := by decide +kernel

/-! ## NDEF attribute data overrides (C02) -/

theorem lite_attr_cond_bridge (a : Option Int) (auth : Bool) : Gen.Fn.sony_lite_attr_cond a auth = (a.isSome && auth) := by
  unfold Gen.Fn.sony_lite_attr_cond
  cases a <;> cases auth <;> rfl

/-- the Lite-S override against the reference semantics -/
theorem lites_attr_bridge (authenticated writeable : Bool) (a : Option Int) (rd : Int → Py Bytes) :
    Gen.Fn.sony_lites_attr authenticated writeable a rd = litesAttr authenticated writeable a rd := by
  unfold Gen.Fn.sony_lites_attr litesAttr
  dsimp only
  cases a with
  | none => simp
  | some v =>
    cases authenticated with
    | false => simp
    | true =>
      simp only [decide_true, if_true, ne_eq, reduceCtorEq, not_false_eq_true, and_self]
      cases rd 136 with
      | error e => rfl
      | ok mc =>
        simp only [Py.bind_ok]
        unfold needExact
        by_cases hl : (slice mc 0 2).length = 2
        · have hlen : len (slice mc 0 2) = 2 := by simp only [len_eq]; omega
          simp [hlen, hl]
        · have hlen : ¬ len (slice mc 0 2) = 2 := by simp only [len_eq]; omega
          simp [hlen, hl]

/-- C02 (seed C02-r4m3): the override hands on the attributes of the generic Type 3 code unchanged and assigns NO
attribute besides `_writeable` - in particular never `_readable`: the result of the regenerated definition has exactly
the two components (attributes, _writeable), and an assignment to any other attribute is refused by the translator -/
theorem gen_lites_attr_passes_attributes (authenticated writeable : Bool) (a a' : Option Int) (rd : Int → Py Bytes)
    (w : Bool) (h : Gen.Fn.sony_lites_attr authenticated writeable a rd = .ok (a', w)) : a' = a := by
  rw [lites_attr_bridge] at h
  unfold litesAttr at h
  split at h
  · cases hr : rd 136 with
    | error e => rw [hr] at h; cases h
    | ok mc =>
      rw [hr] at h
      simp only [Py.bind_ok] at h
      split at h
      · cases h
      · cases h; rfl
  · cases h; rfl

/-- an unauthenticated tag object: no command, the writeable flag stands -/
theorem gen_lites_attr_unauthenticated (writeable : Bool) (rd : Int → Py Bytes) (a : Option Int) :
    Gen.Fn.sony_lites_attr false writeable a rd = .ok (a, writeable) := by
  rw [lites_attr_bridge]; exact litesAttr_unauthenticated writeable rd a

example : Gen.Fn.sony_lites_attr true false (some 7) (fun _ => .ok [0xFF, 0x03, 0, 0]) = .ok (some 7, true) := by decide +kernel
example : Gen.Fn.sony_lites_attr true true (some 7) (fun _ => .ok [0xFE, 0x03, 0, 0]) = .ok (some 7, false) := by decide +kernel

/-! ## `FelicaLite._format`: the wipe -/

theorem format_wipe_none (nmaxb : Int) (wr : Bytes → Int → Py Int) : Gen.Fn.sony_format_wipe none nmaxb wr = .ok true := rfl

/-- a requested wipe writes sixteen copies of the wipe octet to blocks 1 .. Nmaxb, in that order -/
theorem format_wipe_some (w nmaxb : Int) (wr : Bytes → Int → Py Int) :
    Gen.Fn.sony_format_wipe (some w) nmaxb wr =
      (mkBytes (repeatL [w] 16) >>= fun d =>
       forM (PyFn.range 1 (nmaxb + 1)) () (fun _ b => wr d b >>= fun _ => .ok ()) >>= fun _ => .ok true) := by
  unfold Gen.Fn.sony_format_wipe
  dsimp only
  cases mkBytes (repeatL [w] 16) with
  | error e => rfl
  | ok d =>
    simp only [Py.bind_ok]
    cases forM (PyFn.range 1 (nmaxb + 1)) () (fun (_ : Unit) b => wr d b >>= fun _ => Except.ok ()) with
    | error e => rfl
    | ok u => rfl

/-! ## FelicaStandard -/

theorem request_response_chk_bridge (data : Bytes) : Gen.Fn.sony_request_response_chk data = requestResponseBad data := by
  unfold Gen.Fn.sony_request_response_chk requestResponseBad
  have e : (len data ≠ 1) ↔ data.length ≠ 1 := by simp only [len_eq]; omega
  simp only [e]

theorem request_response_pmm_bridge (pmm : Bytes) :
    Gen.Fn.sony_request_response_pmm pmm = (getB pmm 3 >>= fun v => .ok (band v 7, band (shr v 3) 7, shr v 6)) := by
  unfold Gen.Fn.sony_request_response_pmm
  cases getB pmm 3 <;> rfl

theorem request_service_chk_bridge (data : Bytes) (n : Int) :
    Gen.Fn.sony_request_service_chk data n = requestServiceBad data n := rfl

theorem request_system_code_chk_bridge (data : Bytes) :
    Gen.Fn.sony_request_system_code_chk data = requestSystemCodeBad data := by
  unfold Gen.Fn.sony_request_system_code_chk requestSystemCodeBad
  match data with
  | [] => rfl
  | c :: rest =>
    rw [getB_zero]
    simp only [Py.bind_ok, len_eq, List.length_cons]
    have e : (((rest.length + 1 : Nat) : Int) ≠ 1 + (c : Int) * 2) ↔ rest.length ≠ c * 2 := by omega
    simp only [e]

/-- the answers of the three commands pass the test only when their length is the announced one -/
theorem gen_request_lengths (data : Bytes) :
    (Gen.Fn.sony_request_response_chk data = false → data.length = 1) ∧
    (∀ n, Gen.Fn.sony_request_service_chk data n = false → (data.length : Int) = 1 + n * 2) ∧
    (Gen.Fn.sony_request_system_code_chk data = .ok false → data.length = 1 + at0 data 0 * 2) := by
  refine ⟨?_, ?_, ?_⟩
  · intro h
    rw [request_response_chk_bridge] at h
    unfold requestResponseBad at h
    simpa using h
  · intro n h
    rw [request_service_chk_bridge] at h
    unfold requestServiceBad at h
    simpa using h
  · intro h
    rw [request_system_code_chk_bridge] at h
    unfold requestSystemCodeBad at h
    split at h
    · cases h
    · rename_i c rest
      have h' : decide (rest.length ≠ c * 2) = false := Except.ok.inj h
      simp only [List.length_cons, at0_cons_zero]
      simp at h'
      omega

example : Gen.Fn.sony_request_response_chk [2] = false ∧ Gen.Fn.sony_request_response_chk [2, 0] = true := by decide +kernel
example : Gen.Fn.sony_request_system_code_chk [2, 0x12, 0xFC, 0x88, 0xB4] = .ok false := by decide +kernel

theorem search_service_code_cmd_bridge (i : Int) : Gen.Fn.sony_search_service_code_cmd i = PyFn.pack [.Hle] [i] := by
  unfold Gen.Fn.sony_search_service_code_cmd
  cases PyFn.pack [.Hle] [i] <;> rfl

theorem search_service_code_none_bridge (data : Bytes) : Gen.Fn.sony_search_service_code_none data = decide (data ≠ [0xFF, 0xFF]) := rfl

theorem search_service_code_fmt_bridge (data : Bytes) :
    Gen.Fn.sony_search_service_code_fmt data = if data.length = 2 then "<H" else "<HH" := by
  unfold Gen.Fn.sony_search_service_code_fmt
  have e : (len data = 2) ↔ data.length = 2 := by simp only [len_eq]; omega
  simp only [e]

/-! ## `activate` -/

/-- class selection by the IC code of SENSF_RES octet 10, first match in the order Lite, Lite-S, Standard, Mobile, Plug -/
theorem activate_bridge (clf target : Int) (sensf : Bytes) (k0 k1 k2 k3 k4 : List Int) (mk0 mk1 mk3 mk4 mk2 : Int → Int → Int) :
    Gen.Fn.sony_activate clf target sensf k0 k1 k2 k3 k4 mk0 mk1 mk3 mk4 mk2 =
      (getB sensf 10 >>= fun ic =>
        .ok (activate ic k0 k1 k2 k3 k4 (mk0 clf target) (mk1 clf target) (mk2 clf target) (mk3 clf target) (mk4 clf target))) := by
  unfold Gen.Fn.sony_activate activate
  cases getB sensf 10 <;> rfl

end NfcVerif.FnBridge.Sony
