import NfcVerif.Lemmas.Activate
/-!
# C19 - Peer-to-peer activation negotiates limits both sides then obey

Model: `Model/Activate.lean`.  `activate air given I T nfcid3 rnd6` runs the option handling of
`ContactlessFrontend._llcp_connect -> LogicalLinkController.activate -> nfc.dep.Initiator/Target.activate`
for device `I` (Initiator role) and device `T` (Target role) against each other, through the
octets of ATR_REQ / ATR_RES / PSL_REQ / PSL_RES and of the LLCP parameter TLVs in the general
bytes, and returns what both devices hold afterwards.

* NFC-DEP options `brs lri lrt rwt` are ARBITRARY integers (Python clamps them), `acm` any flag,
  `did`/`nad` any value accepted by the `assert`s of `Initiator.activate` (`didNadOk`);
* LLC options are quantified over the documented range `ValidLlc` (MIU 128..2175, link timeout a
  multiple of 10 ms up to 2550, link service class 0..3), aggregation / security flags and the set
  of registered well-known services are arbitrary; outside that range the counter-example
  theorems at the end show which equalities fail (the model is still tied to the code there);
* the environment (`AirCfg`, a target given by the caller or searched) is arbitrary; the theorems
  speak about every case in which a target is found (`discover ... = (some f, acm)`).
-/
namespace NfcVerif.C19
open NfcVerif NfcVerif.Activate

/-- **Negotiated limits.** For every option combination on the two devices (see above), every
environment in which the Initiator finds the target at technology `f.brty`, every NFCID3:
both devices activate, and

* each side's LLCP send MIU is the other side's receive MIU (`miu` option),
* each side's receive link timeout is the other side's announced timeout (`lto` option),
* each side's peer service list is the other side's `wks` bitmap, the peer link service class
  is the other side's `lsc`, both see LLCP version 1.3, both agree on data protection,
* the Initiator's NFC-DEP payload limit is `LR(lrt) - 3 - did - nad` with the Target's clamped
  `lrt`, the Target's is `LR(lri) - 3 - did` with the Initiator's clamped `lri`,
* both sides hold the Target's clamped response waiting time index,
* both sides run at the same bit rate: the selected `brs` (clamped) unless the target was found
  at a higher rate, which is then kept. -/
theorem negotiated_limits (air : AirCfg) (given : Option Nat) (I T : Side) (nfcid3 rnd6 : Bytes)
    (h3 : nfcid3.length = 10) (h6 : rnd6.length = 6)
    (hI : ValidLlc I.llc) (hT : ValidLlc T.llc) (hd : didNadOk I.dep = true)
    (f : Found) (acm : Bool) (hf : discover air given I.dep.acm (clampI 0 2 I.dep.brs) = (some f, acm)) :
    ∃ ih il th tl,
      (activate air given I T nfcid3 rnd6).ini = .ok (some (ih, some il)) ∧
      (activate air given I T nfcid3 rnd6).tgt = .ok (some (th, some tl)) ∧
      -- LLCP
      (il.sendMiu : Int) = T.llc.miu ∧ tl.recvMiu = T.llc.miu ∧
      (tl.sendMiu : Int) = I.llc.miu ∧ il.recvMiu = I.llc.miu ∧
      (il.recvLto : Int) = T.llc.lto ∧ tl.sendLto = T.llc.lto ∧
      (tl.recvLto : Int) = I.llc.lto ∧ il.sendLto = I.llc.lto ∧
      il.sendWks = wksOf T.llc.saps ∧ tl.sendWks = wksOf I.llc.saps ∧
      (il.sendLsc : Int) = T.llc.lsc ∧ (tl.sendLsc : Int) = I.llc.lsc ∧
      il.ver = (1, 3) ∧ tl.ver = (1, 3) ∧ il.dpc = tl.dpc ∧
      -- NFC-DEP
      ih.miu = lrTable (clampI 0 3 T.dep.lrt) - 3 - boolBit I.dep.did.isSome 1 - boolBit I.dep.nad.isSome 1 ∧
      th.miu = lrTable (clampI 0 3 I.dep.lri) - 3 - boolBit (didByte I.dep.did > 0) 1 ∧
      ih.wt = clampI 0 14 T.dep.rwt ∧ th.wt = clampI 0 14 T.dep.rwt ∧
      ih.brty = max f.brty (clampI 0 2 I.dep.brs) ∧ th.brty = ih.brty := by
  obtain ⟨hi, ht⟩ := activate_spec air given I T nfcid3 rnd6 h3 h6 hI hT hd f acm hf
  obtain ⟨_, _, _, _, _, _, _⟩ := hI
  obtain ⟨_, _, _, _, _, _, _⟩ := hT
  refine ⟨_, _, _, _, hi, ht, ?_⟩
  simp only [agreed, iAgreed, tAgreed]
  and_intros <;> first | trivial | omega | (cases I.llc.sec <;> cases T.llc.sec <;> rfl)

/-- LLC half, at the level of the general bytes: what `A` takes over from the bytes `B` built is what
`B` announced, for every valid option set of `B` and ANY options of `A`; the bytes are at most 20. -/
theorem negotiated_llc (A B : LlcOpts) (hB : ValidLlc B) :
    ∃ gb, encodeGb (sendPax B) = .ok gb ∧ gb.length ≤ 20 ∧ llcLink A gb = .ok (some (agreed A B)) :=
  Activate.negotiated_llc A B hB

/-- NFC-DEP half, through the bytes of ATR_REQ / ATR_RES / PSL_REQ, for any general bytes that fit
and that the peers accept: any integer option values, any DID/NAD, any start technology. -/
theorem negotiated_dep (I T : Side) (gbI gbT : Bytes) (f : Found) (acm : Bool) (nfcid3 rnd6 : Bytes)
    (h3 : nfcid3.length = 10) (h6 : rnd6.length = 6) (hgI : gbI.length ≤ 48) (hgT : gbT.length ≤ 47)
    (lI lT : LlcHeld) (hlI : llcLink I.llc gbT = .ok (some lI)) (hlT : llcLink T.llc gbI = .ok (some lT)) :
    (handshake I T gbI gbT f acm nfcid3 rnd6).ini = .ok (some (iAgreed I T f acm, some lI)) ∧
    (handshake I T gbI gbT f acm nfcid3 rnd6).tgt = .ok (some (tAgreed I T f, some lT)) :=
  handshake_spec I T gbI gbT f acm nfcid3 rnd6 h3 h6 hgI hgT lI lT hlI hlT

/-- **Bit rate.** The rate both sides use after activation is the selected `brs` (clamped to 0..2)
whenever the target was found at that rate or below; a target found at a higher rate keeps it; the
result is always one of 106/212/424 when the target was found at one of them. -/
theorem bitrate_selected (I T : Side) (f : Found) (acm : Bool) :
    (iAgreed I T f acm).brty = (tAgreed I T f).brty ∧
    (f.brty ≤ clampI 0 2 I.dep.brs → (iAgreed I T f acm).brty = clampI 0 2 I.dep.brs) ∧
    (clampI 0 2 I.dep.brs ≤ f.brty → (iAgreed I T f acm).brty = f.brty) ∧
    (f.brty ≤ 2 → (iAgreed I T f acm).brty ≤ 2) := by
  have hb : clampI 0 2 I.dep.brs ≤ 2 := clampI_le_nat 2 _
  refine ⟨rfl, ?_, ?_, ?_⟩ <;> intro h <;> simp only [iAgreed] <;> omega

/-- the target search only ever reports one of the three technologies -/
theorem found_technology (air : AirCfg) (given : Option Nat) (acm : Bool) (brs : Nat) (f : Found) (acm' : Bool)
    (hg : ∀ b, given = some b → b ≤ 2) (h : discover air given acm brs = (some f, acm')) : f.brty ≤ 2 :=
  discover_brty air given acm brs f acm' hg h

/-- **PAX round trip.** Every parameter set whose values fit their TLV fields is encoded (at most
17 octets) and decoded back unchanged. -/
theorem pax_roundtrip (p : Pax) (h : Pax.WF p) :
    ∃ t, encodeTlvs p = .ok t ∧ t.length ≤ 17 ∧ decodeTlvs t = .ok p := by
  obtain ⟨t, h1, h2, _, h4⟩ := Activate.pax_roundtrip p h
  exact ⟨t, h1, h2, h4⟩

/-- the general bytes of ANY option set (valid or not) that can be encoded are at most 20 octets:
the slices `gbi[0:48]` / `gbt[0:47]` never cut a TLV and ATR_REQ / ATR_RES stay below 64 octets -/
theorem gb_never_truncated (o : LlcOpts) (gb : Bytes) (h : encodeGb (sendPax o) = .ok gb) :
    gb.length ≤ 20 ∧ gb.take 48 = gb ∧ gb.take 47 = gb ∧
    ∀ id did pp, id.length = 10 → (atrReq id did pp gb).length ≤ 64 ∧ (atrRes id did pp gb).length ≤ 64 := by
  have hl := gb_length o gb h
  refine ⟨hl, List.take_of_length_le (by omega), List.take_of_length_le (by omega), ?_⟩
  intro id did pp hid
  simp [atrReq, atrRes, hid]; omega

/-- ATR_REQ / ATR_RES round trip for every 10-octet NFCID3 and every field value -/
theorem atr_roundtrip (id : Bytes) (h : id.length = 10) (a pp : Nat) (gb : Bytes) :
    decodeAtrReq (atrReq id a pp gb) = .ok ⟨id, a, pp, if pp &&& 2 ≠ 0 then gb else []⟩ ∧
    decodeAtrRes (atrRes id a pp gb) = .ok ⟨id, a, pp, if pp &&& 2 ≠ 0 then gb else []⟩ :=
  ⟨decodeAtrReq_atrReq id h a pp gb, decodeAtrRes_atrRes id h a pp gb⟩

/-- option clamping: any integer ends in range, values in range are kept, values outside go to the
nearest bound -/
theorem clamp_range (hi : Nat) (x : Int) :
    clampI 0 hi x ≤ hi ∧ (0 ≤ x → x ≤ hi → (clampI 0 hi x : Int) = x) ∧
    (x ≤ 0 → clampI 0 hi x = 0) ∧ ((hi : Int) ≤ x → clampI 0 hi x = hi) := by
  unfold clampI
  refine ⟨by omega, ?_, ?_, ?_⟩ <;> intros <;> omega

/-- **Later traffic.** With the payload limits held after activation, every information frame either
side builds for ANY amount of data fits the length reduction the receiver announced:
Initiator frames (with DID and NAD octets as configured) fit `LR(lrt)`, Target frames (DID octet when
the ATR_REQ assigned one, never a NAD) fit `LR(lri)`. -/
theorem later_traffic_within (I T : Side) (f : Found) (acm : Bool) (n : Nat) :
    infLen I.dep.did.isSome I.dep.nad.isSome (chunk (iAgreed I T f acm).miu n) ≤ lrTable (clampI 0 3 T.dep.lrt) ∧
    infLen (decide (didByte I.dep.did > 0)) false (chunk (tAgreed I T f).miu n) ≤ lrTable (clampI 0 3 I.dep.lri) := by
  constructor
  · exact inf_within _ _ _ n
  · have := inf_within (clampI 0 3 I.dep.lri) (decide (didByte I.dep.did > 0)) false n
    simpa [tAgreed, boolBit] using this

/-- taking over ANY peer general bytes never raises: `llc.activate` ends with a configuration or
with "no link" (returns False); a malformed parameter list gives "no link" -/
theorem llc_decode_documented (o : LlcOpts) (gb : Bytes) : ∃ r, llcLink o gb = .ok r :=
  llcLink_total o gb

/-! ## why the LLC option range is a hypothesis -/

def optsA : LlcOpts := ⟨248, 500, 3, true, false, [1]⟩

/-- `miu=100` (below the documented minimum) is announced as 128: the peer's send MIU exceeds what the
device accepts -/
theorem miu_below_128_counterexample :
    ∃ gb h, encodeGb (sendPax { optsA with miu := 100 }) = .ok gb ∧ llcLink optsA gb = .ok (some h) ∧
      h.sendMiu = 128 := by
  refine ⟨_, _, rfl, rfl, rfl⟩

/-- `lto=505` is announced as 500 ms: the link timeout travels in units of 10 ms -/
theorem lto_granularity_counterexample :
    ∃ gb h, encodeGb (sendPax { optsA with lto := 505 }) = .ok gb ∧ llcLink optsA gb = .ok (some h) ∧
      h.recvLto = 500 := by
  refine ⟨_, _, rfl, rfl, rfl⟩

/-- open finding `did0-no-exchange-after-activation`: with `did=0` the Initiator keeps a device identifier
(its requests carry the DID octet 00) while the Target holds none, so the Target drops every request -/
theorem did_zero_counterexample (I T : Side) (f : Found) (acm : Bool) (h : I.dep.did = some 0) :
    (iAgreed I T f acm).did = some 0 ∧ (tAgreed I T f).did = none := by
  simp [iAgreed, tAgreed, h, didByte]

/-- for every other DID the two sides agree on it -/
theorem did_agreement_partial (I T : Side) (f : Found) (acm : Bool) (h : I.dep.did ≠ some 0)
    (hd : didNadOk I.dep = true) :
    (tAgreed I T f).did.map Int.ofNat = (iAgreed I T f acm).did := by
  unfold didNadOk at hd
  cases hdid : I.dep.did with
  | none => simp [iAgreed, tAgreed, hdid, didByte]
  | some v =>
    rw [hdid] at hd h
    simp only [Bool.and_eq_true, decide_eq_true_eq] at hd
    have hv : v ≠ 0 := fun e => h (by rw [e])
    have : v.toNat > 0 := by omega
    simp [iAgreed, tAgreed, hdid, didByte, this]
    omega

/-! ## Non-vacuity -/

def sideI : Side := ⟨⟨2, 1, 3, 8, false, none, none⟩, ⟨1000, 300, 3, true, false, [1]⟩⟩
def sideT : Side := ⟨⟨0, 3, 2, 9, true, none, none⟩, ⟨2175, 1000, 3, true, false, [1, 4]⟩⟩
def airAll : AirCfg := ⟨true, true, true, false⟩

example : ValidLlc sideI.llc ∧ ValidLlc sideT.llc ∧ didNadOk sideI.dep = true := by decide
example : discover airAll none sideI.dep.acm (clampI 0 2 sideI.dep.brs) = (some ⟨0, false, false⟩, false) := by decide
/-- found at 106A, PSL to 424F, LR 192 from the Target, LR 128 from the Initiator -/
example : (iAgreed sideI sideT ⟨0, false, false⟩ false).miu = 189 ∧ (tAgreed sideI sideT ⟨0, false, false⟩).miu = 125
    ∧ (iAgreed sideI sideT ⟨0, false, false⟩ false).brty = 2 := by decide
example : Pax.WF (sendPax sideT.llc) := sendPax_wf _ (by decide)
example : (sendPax sideT.llc) = ⟨some 0x13, some 2047, some 19, some 100, some 3⟩ := by decide
/-- out-of-range values are clamped, not rejected -/
example : clampI 0 2 7 = 2 ∧ clampI 0 3 (-2) = 0 ∧ clampI 0 14 99 = 14 := by decide
/-- malformed peer general bytes: no link, nothing raised; well-formed ones: a configuration -/
example : llcLink optsA [0x46, 0x66, 0x6D, 1, 2, 0x13, 0] = .ok none := by decide
example : (llcLink optsA [0x46, 0x66, 0x6D, 1, 1, 0x13, 2, 2, 0, 120]).toOption.join.map (·.sendMiu) = some 248 := by decide

end NfcVerif.C19
