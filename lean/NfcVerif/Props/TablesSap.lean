import NfcVerif.Gen.Tables
import NfcVerif.Model.Sap
/-!
Bridge theorems (constants of the source = constants of the models). `Gen/Tables.lean` is
regenerated from `/repo/src/nfc` by `harness/translate_tables.py` on every run of a check that
depends on it; each theorem is closed by kernel evaluation, so an edit of a constant in the
source breaks it.  One small module per model so that the checks stay independent.
-/
namespace NfcVerif.Tables
open NfcVerif

/-- `wks_map` of llc.py is exactly the well-known service table of the addressing model (C17) -/
theorem wks_map_bridge :
    Gen.Tables.wksMap.all (fun e => Sap.wks e.1 == some e.2) = true ∧
    Gen.Tables.wksMap.map (·.1) = [Sap.nameSdp, Sap.nameSnep] := by decide

end NfcVerif.Tables
