import NfcVerif.Lemmas.Lock
import NfcVerif.Gen.ClfLock
/-!
# C15 - The frontend never lets two threads drive the device at once

`Gen/ClfLock.lean` is regenerated from `/repo/src/nfc/clf/__init__.py` on every
run by `harness/translate_lock.py`; `clf_wellLocked` is therefore re-checked
against what the code says now.  `lock_sound` is generic (proved once in
`Lemmas/Lock.lean`).
-/
namespace NfcVerif.C15
open NfcVerif.Lock

/-- generic soundness: a well-locked program is safe under every schedule -/
theorem lock_sound (P : List Stmt) (hP : wellLocked P = true) (n : Nat) (σ : Sched n) (d0 : Bool)
    (hthreads : ∀ i, ∃ full c, Runs P .callback full c ∧ ∃ ext, proj σ i ++ ext = full) :
    safeRun ⟨none, d0, fun _ => false⟩ σ :=
  NfcVerif.Lock.lock_sound P hP n σ d0 hthreads

/-- the translated `ContactlessFrontend` passes the syntactic check (T-tie) -/
theorem clf_wellLocked : wellLocked Gen.ClfLock.program = true := by decide +kernel

/-- the side conditions about the source that the translation relies on all hold -/
theorem clf_facts : Gen.ClfLock.facts.all (·.2) = true := by decide +kernel

/-- **C15 for the current source**: for any number of threads each running any sequence of
public or private frontend methods (callbacks may re-enter the frontend), under every
interleaving, every entry into the device driver happens with the device open and with no
other thread inside the driver. -/
theorem clf_threads_never_overlap (n : Nat) (σ : Sched n) (d0 : Bool)
    (hthreads : ∀ i, ∃ full c, Runs Gen.ClfLock.program .callback full c ∧ ∃ ext, proj σ i ++ ext = full) :
    safeRun ⟨none, d0, fun _ => false⟩ σ :=
  lock_sound _ clf_wellLocked n σ d0 hthreads

/-! Non-vacuity and sanity of the checker -/
example : wellLocked [.withLock (.ifDev (.seq (.dev "mute") (.loop (.tryc (.dev "sense_tta") .skip))) .exit)] = true := by decide
example : wellLocked [.seq .callback (.dev "turn_on_led_and_buzzer")] = false := by decide
example : wellLocked [.withLock (.dev "mute")] = false := by decide   -- no guard
example : wellLocked [.withLock (.ifDev (.seq .assignDev (.dev "close")) .skip)] = false := by decide
example : wellLocked [.withLock .callback] = false := by decide
/-- a concrete two-thread schedule in which an unlocked driver call overlaps a locked one -/
example : ¬ safeRun (n := 2) ⟨none, true, fun _ => false⟩
    [(0, .acq, false), (0, .tst true, false), (0, .devB, false), (1, .devB, false)] := by
  simp [safeRun, gstep, SafeAt]

end NfcVerif.C15
