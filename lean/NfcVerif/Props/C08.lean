import NfcVerif.Lemmas.AdvOps
/-!
# C08 - Activating and reading arbitrary tags terminates safely

Models: `Model/AdvT12.lean` (Type 1 / Type 2 readers), `Model/AdvT34.lean` (Type 3 / Type 4 readers, activation),
`Model/IsoDepC08.lean` (the ISO-DEP initiator with the termination repairs of `fixes/C08`),
`Model/AdvOps.lean` (presence checks, `Tag.ndef` / `has_changed` / `is_present` on one tag object, sessions) -
all of the tree WITH `fixes/C08`.  The tag is an arbitrary answer sequence (`Adv.Tag`: the answer to the n-th
interaction, whatever the command was); for Type 4 that is the answer to the n-th FRAME.

Proved here (every theorem quantifies over EVERY tag; `TagBytes` only says that answers consist of octets):
* `session_safe` - the property as a whole: `nfc.tag.activate` on well-framed activation data followed by any
  sequence of `tag.ndef`, `ndef.has_changed`, `tag.is_present`: never an exception, a bounded number of
  interactions, every returned object has its octets from inside the data area.
* `t1_read_safe`, `t2_read_safe`, `t3_read_safe`: the readers, with their own bounds (1300 / 86066 / 6 + 3*65536).
* `t4_read_safe` (APDU level, any transport) and `t4_read_safe_frames` (FRAME level, over the repaired ISO-DEP
  initiator): at most 7 + 65536 APDUs, i.e. `t4Frames` frames; `None` or an object with `length <= capacity`.
* `isodep_exchange_safe`: one `IsoDepInitiator.exchange` against every card: response or
  `Type4TagCommandError`, at most `exchFrames` frames; `isodep_asfound_is_shared_model`: with the repairs
  switched off the model is the one of `Model/IsoDep.lean` (C12); `isodep_wtx_endless_counterexample`,
  `isodep_ack_endless_counterexample`, `isodep_chain_endless_counterexample`: what the unrepaired loops do.
* `is_present_safe_t1/t2/t3/t3rr/t4`, `ops_safe`: presence checks and operation sequences per tag type.
* `activate_safe`: activation never raises, at most 5 interactions, and sets the tag object up as the other
  theorems need it (`TagObjOk`).
Not proved: `length ≤ capacity` for Type 1/2 - FALSE on the current code (open finding
`t12-capacity-below-stored-length`: `get_capacity` under-reports at 257 free bytes).
-/
namespace NfcVerif.C08
open NfcVerif NfcVerif.Adv NfcVerif.IsoDep

/-- THE PROPERTY: activation + any sequence of `tag.ndef` / `has_changed` / `is_present`, every tag, every
well-framed activation variant: terminates within the bound, never raises, objects are safe -/
theorem session_safe (t : Tag) (hT : TagBytes t) (g : Target) (hg : WellFramedS g) (maxSend maxRecv : Nat)
    (hms : 16 ≤ maxSend) (F : Nat) (hF : 966657 ≤ F) (sticky : Bool) (ops : List Op) :
    (∃ r, (session t g maxSend maxRecv IsoDepR.Fix.all F sticky ops).1 = .ok r ∧ SessOk ops r) ∧
    (session t g maxSend maxRecv IsoDepR.Fix.all F sticky ops).2.n ≤ 5 + ops.length * opBound :=
  Adv.session_safe hT g hg maxSend maxRecv hms F hF sticky ops

/-- non-vacuity: a FeliCa Lite SENSF_RES without system code is well-framed (the variant in which `tag.ndef`
polls for 12FCh first) -/
example : WellFramedS ⟨2, [], [], [], [], [], [0x01, 1, 2, 3, 4, 5, 6, 7, 8, 0, 0xF0, 255, 255, 255, 255, 255, 255]⟩ := by
  refine ⟨⟨fun h => absurd h (by decide), fun h => absurd h (by decide), fun _ _ => Or.inl rfl⟩, ?_, fun h => absurd h (by decide)⟩
  intro b hb
  simp only [List.mem_cons, List.mem_nil_iff, or_false] at hb
  rcases hb with h|h|h|h|h|h|h|h|h|h|h|h|h|h|h|h|h <;> omega

/-- non-vacuity of the result: on the tag that never answers the session `[ndef, is_present]` of a Type 2 Tag
gives `None` and `False` -/
example : (session (fun _ => none) ⟨0, [0x44, 0x00], [0x00], [1, 2, 3, 4], [], [], []⟩ 256 256 IsoDepR.Fix.all 1000000 true
    [.ndef, .present]).1.toOption.map (·.map (·.2.length)) = some (some 2) := by decide

/-- Type 4, APDU level, every card: bounded, never an exception, `None` or a safe object -/
theorem t4_read_safe {σ} (X : Xp σ) (hX : XOk X) (known : Option Info)
    (hk : ∀ i, known = some i → InfoOk i) (s : σ) (n : Nat) :
    (readNdef4 (countX X) known (s, n)).1.2 ≤ n + 7 + 65536 ∧
    ((readNdef4 (countX X) known (s, n)).2 = .ok none ∨
     ∃ d i, (readNdef4 (countX X) known (s, n)).2 = .ok (some (d, i)) ∧ SafeNdef d ∧ InfoOk i) :=
  readNdef4_safe hX known hk (s, n)

/-- non-vacuity: a card that never answers (every APDU fails with TIMEOUT_ERROR) satisfies `XOk` -/
example : XOk (⟨fun (s : Unit) _ => (s, .error (.tagCmd 0))⟩ : Xp Unit) := by
  intro s c e _ h; cases h; rfl

/-- Type 4, FRAME level: every card, whatever it answers to every single frame (S(WTX), R(ACK), chaining, junk,
nothing), over the ISO-DEP initiator with the repairs: `_read_ndef_data` ends after at most `t4Frames` frames,
never raises, returns `None` or an object with `length ≤ capacity` and octets from inside the file -/
theorem t4_read_safe_frames (t : Tag) (c : IsoDepR.Cfg) (p0 : Pcd) (sticky : Bool)
    (hR : c.Repaired p0.nNak p0.nAck) (hm : 0 < p0.miu) (known : Option Info)
    (hk : ∀ i, known = some i → InfoOk i) (s : S4) :
    wframes s ≤ wframes (readNdef4 (isoX t c p0 sticky) known s).1 ∧
    wframes (readNdef4 (isoX t c p0 sticky) known s).1 ≤ wframes s + t4Frames c p0 ∧
    ((readNdef4 (isoX t c p0 sticky) known s).2 = .ok none ∨
     ∃ d i, (readNdef4 (isoX t c p0 sticky) known s).2 = .ok (some (d, i)) ∧ SafeNdef d ∧ InfoOk i) :=
  readNdef4_frames t c p0 sticky hR hm known hk s

/-- non-vacuity: the configuration the driver runs the repaired tree with (FWI 4: limit 60416, 5 retries) -/
example : IsoDepR.Cfg.Repaired { fx := IsoDepR.Fix.all, lim := 60416, F := 1000000 } 5 5 :=
  ⟨rfl, rfl, rfl, by decide, by decide, by decide, by decide⟩

/-- one `IsoDepInitiator.exchange` (repaired) against every card: a response or a `Type4TagCommandError`, no
loop fuel used up, at most `exchFrames` frames -/
theorem isodep_exchange_safe {σ} (P : Peer σ) (c : IsoDepR.Cfg) (pcd : Pcd) (hR : c.Repaired pcd.nNak pcd.nAck)
    (hm : 0 < pcd.miu) (cmd : Bytes) (hc : cmd ≠ []) (w : World σ) :
    IsoDepR.CmdRes (IsoDepR.exchange P c pcd cmd w).2.2 ∧
    IsoDepR.frames w ≤ IsoDepR.frames (IsoDepR.exchange P c pcd cmd w).1 ∧
    IsoDepR.frames (IsoDepR.exchange P c pcd cmd w).1 ≤ IsoDepR.frames w + IsoDepR.exchFrames c pcd cmd.length :=
  let h := IsoDepR.exchange_spec P c pcd hR hm cmd hc w
  ⟨h.1, h.2.1, h.2.2.1⟩

/-- with the three repairs switched off the initiator of `Model/IsoDepC08.lean` IS the one of the shared
`Model/IsoDep.lean` (which C12 proves delivery about) -/
theorem isodep_asfound_is_shared_model {σ} (P : Peer σ) (c : IsoDepR.Cfg) (hw : c.fx.wtx = false)
    (ha : c.fx.ack = false) (hc : c.fx.chain = false) (pcd : Pcd) (cmd : Bytes) (w : World σ) :
    IsoDepR.exchange P c pcd cmd w = IsoDep.exchange P c.F pcd cmd w :=
  IsoDepR.exchange_asFound P c hw ha hc pcd cmd w

/-- Type 1: every tag; bounded, never an exception, octets from inside the data area -/
theorem t1_read_safe (t : Tag) (hT : TagBytes t) (uid : Bytes) (w : W) :
    (readNdef1 t uid w).2.w.n ≤ w.n + 1300 ∧
    ((readNdef1 t uid w).1 = .ok none ∨ ∃ d, (readNdef1 t uid w).1 = .ok (some d) ∧ SafeA d ∧ d.lo = 12) :=
  readNdef1_safe hT uid w

/-- non-vacuity: the tag that never answers is a tag of octets -/
example : TagBytes (fun _ => none) := by intro n b h; cases h

/-- Type 2: every tag; bounded, never an exception, octets from inside the data area -/
theorem t2_read_safe (t : Tag) (hT : TagBytes t) (w : W) (sector : Nat) (alive : Bool) :
    (readNdef2 t w sector alive).2.w.n ≤ w.n + 86066 ∧
    ((readNdef2 t w sector alive).1 = .ok none ∨
     ∃ d, (readNdef2 t w sector alive).1 = .ok (some d) ∧ SafeA d ∧ d.lo = 16) :=
  readNdef2_safe hT w sector alive

/-- Type 3: every tag; bounded, never an exception (also not from the polling answer: any length, any
request data), `None` or a safe object; the tag object stays consistent for the next operation -/
theorem t3_read_safe (t : Tag) (hT : TagBytes t) (s : S3) (hI : I3 s) :
    (readNdef3 t s).2.w.n ≤ s.w.n + 6 + 3 * 65536 ∧
    ((readNdef3 t s).1 = .ok none ∨ ∃ d, (readNdef3 t s).1 = .ok (some d) ∧ SafeNdef d ∧ d.lo = 16) ∧
    I3 (readNdef3 t s).2 ∧ ((readNdef3 t s).2.sys = s.sys ∨ (readNdef3 t s).2.sys = 0x12FC) :=
  readNdef3_safe hT s hI

example : I3 { w := W.init, idm := [1, 2, 3, 4, 5, 6, 7, 8], pmm := [0, 0xF0, 255, 255, 255, 255, 255, 255], sys := 0x12FC } :=
  ⟨rfl, rfl⟩

/-- `Type3Tag.polling`: the tuple has the shape that belongs to the request code - what its callers unpack -/
theorem t3_polling_shape (t : Tag) (hT : TagBytes t) (sys rc : Nat) (s : S3) (hs : sys < 65536)
    (hrc : rc = 0 ∨ rc = 1 ∨ rc = 2) (tup : List Bytes) (h : (pollingTuple t sys rc s).1 = .ok tup) :
    (rc = 0 → ∃ a b, tup = [a, b] ∧ a.length = 8 ∧ b.length = 8) ∧ (rc ≠ 0 → ∃ a b c, tup = [a, b, c]) :=
  (pollingTuple_spec hT sys rc s hs hrc).2.2.2.2.2 tup h

/-- presence checks: a boolean, never an exception, bounded -/
theorem is_present_safe_t1 (t : Tag) (uid : Bytes) (hu : uid ≠ []) (w : W) :
    (∃ b, (isPresent1 t uid w).1 = .ok b) ∧ (isPresent1 t uid w).2.n ≤ w.n + 3 :=
  isPresent1_spec t uid hu w

theorem is_present_safe_t2 (t : Tag) (s : S2) :
    (∃ b, (isPresent2 t s).1 = .ok b) ∧ (isPresent2 t s).2.w.n ≤ s.w.n + 3 :=
  isPresent2_spec t s

theorem is_present_safe_t3 (t : Tag) (hT : TagBytes t) (nfcid : Bytes) (s : S3) (hI : I3s s) :
    (∃ b, (isPresent3 t nfcid s).1 = .ok b) ∧ (isPresent3 t nfcid s).2.w.n ≤ s.w.n + 3 ∧ I3s (isPresent3 t nfcid s).2 :=
  isPresent3_spec hT nfcid s hI

theorem is_present_safe_t3rr (t : Tag) (hT : TagBytes t) (nfcid : Bytes) (s : S3) (hI : I3s s) :
    (∃ b, (isPresent3rr t nfcid s).1 = .ok b) ∧ (isPresent3rr t nfcid s).2.w.n ≤ s.w.n + 6 ∧
    I3s (isPresent3rr t nfcid s).2 :=
  isPresent3rr_spec hT nfcid s hI

theorem is_present_safe_t4 (t : Tag) (s : S4) :
    (∃ b, (isPresent4 t s).1 = .ok b) ∧ wframes (isPresent4 t s).2 = wframes s + 1 :=
  isPresent4_spec t s

/-- any sequence of `tag.ndef` / `has_changed` / `is_present` on a tag object whose operations are safe -/
theorem ops_safe {σ κ : Type} {T : TagOps σ κ} {I : σ → Prop} {K : κ → Prop} {G : Ndef → Prop} {n : σ → Nat} {B : Nat}
    (h : OpsOk T I K G n B) (ops : List Op) (o : Obj σ κ) (ho : ObjOk I K G o) :
    ∃ rs, (runOps T ops o []).1 = .ok rs ∧ (∀ r ∈ rs, ResOk G r) ∧ rs.length = ops.length ∧
      n (runOps T ops o []).2.st ≤ n o.st + ops.length * B := by
  obtain ⟨rs, h1, h2, h3, -, h5⟩ := runOps_safe h ops o [] ho (by intro r hr; cases hr)
  exact ⟨rs, h1, h2, by simpa using h3, h5⟩

/-- activation: well-framed activation data never make `nfc.tag.activate` raise; at most 5 interactions; the
tag object is set up as its operations need it (UID present, IDm/PMm of 8 octets, MIU > 0, limits) -/
theorem activate_safe (t : Tag) (maxSend maxRecv : Nat) (hms : 16 ≤ maxSend) (g : Target) (w : W) (hw : WOk w)
    (hg : WellFramedS g) :
    ∃ o, (activate t maxSend maxRecv g w).1 = .ok o ∧ (∀ x, o = some x → TagObjOk x) ∧
      (activate t maxSend maxRecv g w).2.n ≤ w.n + 5 ∧ WOk (activate t maxSend maxRecv g w).2 :=
  activate_spec t maxSend maxRecv hms g w hw hg

example : WellFramed ⟨0, [0x44, 0x00], [0x00], [4, 1, 2, 3, 4, 5, 6], [], [], []⟩ := by
  refine ⟨fun _ => ⟨rfl, rfl, by decide⟩, ⟨fun h => (by cases h), fun h => absurd rfl h⟩⟩

/-- the card that answers every frame with S(WTX) -/
def wtxTag : Tag := fun _ => some [0xF2, 0x01]

/-- FRAME level, UNREPAIRED code: `IsoDepInitiator._exchange` echoes S(WTX) as long as the card sends
it - whatever fuel `F` the loop is given, it is used up (the Python loop never ends) -/
theorem isodep_wtx_endless_counterexample (F : Nat) (w : World Nat) (hw : w.script = []) (out : Bytes) :
    (xchgW (oraclePeer wtxTag) F w out).2 = .fuel ∧ (xchgW (oraclePeer wtxTag) F w out).1.card = w.card + F := by
  induction F generalizing w out with
  | zero => simp [xchgW]
  | succ f ih =>
    have hx : w.xchg (oraclePeer wtxTag) out =
        ({ card := w.card + 1, script := [], trace := w.trace ++ [out] }, .data [0xF2, 0x01]) := by
      simp [World.xchg, nextFault, hw, oraclePeer, wtxTag, legBack]
    unfold xchgW
    simp only [hx, isWtx]
    have := ih { card := w.card + 1, script := [], trace := w.trace ++ [out] } rfl [0xF2, 0x01]
    simp at this ⊢
    exact ⟨this.1, by omega⟩

/-- the card that answers every frame with R(ACK) carrying block number 1 -/
def ackTag : Tag := fun _ => some [0xA3]

/-- FRAME level, UNREPAIRED code: the command phase retransmits the I-block as long as the card sends the R(ACK)
with the other block number - every fuel `f` is used up -/
theorem isodep_ack_endless_counterexample (F n f i : Nat) (req rty out : Bytes) (w : World Nat) (hw : w.script = []) :
    (blockLoop (oraclePeer ackTag) (F + 1) n (some 0xA3) req rty f i out w).2 = .error .outOfFuel ∧
    (blockLoop (oraclePeer ackTag) (F + 1) n (some 0xA3) req rty f i out w).1.card = w.card + f := by
  induction f generalizing w out i with
  | zero => simp [blockLoop]
  | succ f ih =>
    have hx : w.xchg (oraclePeer ackTag) out =
        ({ card := w.card + 1, script := [], trace := w.trace ++ [out] }, .data [0xA3]) := by
      simp [World.xchg, nextFault, hw, oraclePeer, ackTag, legBack]
    unfold blockLoop
    simp only [xchgW, hx, isWtx]
    have := ih (i + 1) req { card := w.card + 1, script := [], trace := w.trace ++ [out] } rfl
    simp at this ⊢
    exact ⟨this.1, by omega⟩

/-- the card that answers the n-th frame with a chained I-block carrying block number n mod 2 and one octet -/
def chainTag : Tag := fun n => some [0x12 ||| (n % 2), 0]

/-- FRAME level, UNREPAIRED code: the response phase acknowledges chained blocks as long as the card sets the
chaining bit - every fuel `f` is used up while the response grows -/
theorem isodep_chain_endless_counterexample (F n f : Nat) (data resp : Bytes) (a : Nat) (inf : Bytes)
    (hd : data = a :: inf) (ha : a &&& 0x10 ≠ 0) (w : World Nat) (hw : w.script = []) :
    (recvChain (oraclePeer chainTag) (F + 1) n f (w.card % 2) data resp w).2.2 = .error .outOfFuel ∧
    (recvChain (oraclePeer chainTag) (F + 1) n f (w.card % 2) data resp w).1.card = w.card + f := by
  induction f generalizing w data resp a inf with
  | zero => simp [recvChain]
  | succ f ih =>
    subst hd
    have hx : w.xchg (oraclePeer chainTag) [0xA2 ||| (w.card % 2)] =
        ({ card := w.card + 1, script := [], trace := w.trace ++ [[0xA2 ||| (w.card % 2)]] }, .data [0x12 ||| (w.card % 2), 0]) := by
      simp [World.xchg, nextFault, hw, oraclePeer, chainTag, legBack]
    have hp : w.card % 2 = 0 ∨ w.card % 2 = 1 := by omega
    have hnw : isWtx [0x12 ||| (w.card % 2), 0] = false := by
      rcases hp with h | h <;> rw [h] <;> decide
    have hbn : (0x12 ||| (w.card % 2)) &&& 0x01 = w.card % 2 := by
      rcases hp with h | h <;> rw [h] <;> decide
    have hch : (0x12 ||| (w.card % 2)) &&& 0x10 ≠ 0 := by
      rcases hp with h | h <;> rw [h] <;> decide
    have hnext : (w.card % 2 + 1) % 2 = (w.card + 1) % 2 := by omega
    unfold recvChain
    simp only [ha, if_false]
    unfold blockLoop
    simp only [xchgW, hx, hnw]
    simp only [Bool.false_eq_true, if_false, reduceCtorEq, if_false, hbn, ne_eq, not_true_eq_false]
    have := ih [0x12 ||| (w.card % 2), 0] (resp ++ [0]) (0x12 ||| (w.card % 2)) [0] rfl hch
      { card := w.card + 1, script := [], trace := w.trace ++ [[0xA2 ||| (w.card % 2)]] } rfl
    simp only at this
    rw [hnext]
    exact ⟨this.1, by have := this.2; omega⟩

end NfcVerif.C08
