import NfcVerif.Lemmas.AdvT34
/-!
# C08 - Activating and reading arbitrary tags terminates safely

Models: `Model/AdvT12.lean` (Type 1 / Type 2), `Model/AdvT34.lean` (Type 3 / Type 4 / activation),
all of the tree WITH `fixes/C08`.  The tag is an arbitrary answer sequence (`Adv.Tag`), for Type 4 at
APDU level an arbitrary transport `Adv.Xp σ`.

Proved here:
* `t4_read_safe` (full at APDU level): for EVERY card behaviour the Type 4 reader sends at most
  7 + 65536 APDUs, never raises, and returns `None` or an object with `length ≤ capacity` whose
  octets come from inside the file.
* `t12_result_safe_partial`: whatever a Type 1 / Type 2 tag answers, an object that is returned
  has `length ≤ capacity`, as many octets as its length and all value addresses inside the data
  area (`[12|16, end)`).  NOT proved (time): termination of the TLV walk within the command
  bound and absence of internal exceptions for Type 1/2/3 and `activate_safe`; those are covered
  by the correspondence + oracle only (bounds 70 / 33000 / 3*65537 interactions per read).
* `isodep_wtx_endless_counterexample` and the two instances below: at FRAME level the unchanged
  ISO-DEP initiator can be kept busy for ever by the card (open findings), which is why the full
  Type 4 theorem is stated at APDU level.
-/
namespace NfcVerif.C08
open NfcVerif NfcVerif.Adv NfcVerif.IsoDep

/-- Type 4, APDU level, every card: bounded, never an exception, `None` or a safe object -/
theorem t4_read_safe {σ} (X : Xp σ) (hX : XOk X) (known : Option Info)
    (hk : ∀ i, known = some i → i.maxLe ≤ 256) (s : σ) (n : Nat) :
    (readNdef4 (countX X) known (s, n)).1.2 ≤ n + 7 + 65536 ∧
    ((readNdef4 (countX X) known (s, n)).2 = .ok none ∨
     ∃ d i, (readNdef4 (countX X) known (s, n)).2 = .ok (some (d, i)) ∧ SafeNdef d ∧ i.maxLe ≤ 256) :=
  readNdef4_safe hX known hk (s, n)

/-- non-vacuity: a card that never answers (every APDU fails with TIMEOUT_ERROR) satisfies `XOk` -/
example : XOk (⟨fun (s : Unit) _ => (s, .error (.tagCmd 0))⟩ : Xp Unit) := by
  intro s c e h; cases h; rfl

/-- Type 1 / Type 2: for every memory reader behaviour (every tag) a returned object is consistent -/
theorem t12_result_safe_partial {σ} (M : Mem σ) (t1 : Bool) (start end_ : Nat) (skip0 : Tlv.Skip) (rw : Nat)
    (s : σ) (d : Ndef) (h : (finish M t1 start end_ skip0 rw s).1 = .ok (some d)) :
    (d.length : Int) ≤ d.cap ∧ d.octets.length = d.length ∧ d.lo = start ∧ d.hi = end_ := by
  unfold finish at h
  split at h
  · cases h
  · cases h
  · split at h
    · cases h
    · simp only at h
      split at h
      · cases h
      · rename_i hcap
        simp at h
        subst h
        refine ⟨?_, rfl, rfl, rfl⟩
        have hle : ∀ (sk : Tlv.Skip) (o hd : Nat) (c : Int), roomOf t1 sk o hd end_ c ≤ c := by
          intro sk o hd c; unfold roomOf; split <;> omega
        rename_i fd _ _ _ v _ hdr _
        have := hle fd.skip fd.off hdr (Tlv.capacity fd.skip fd.off end_)
        simp only at hcap ⊢
        omega

/-- the card that answers every frame with S(WTX) -/
def wtxTag : Tag := fun _ => some [0xF2, 0x01]

/-- FRAME level, unchanged code: `IsoDepInitiator._exchange` echoes S(WTX) as long as the card sends
it - whatever fuel `F` the loop is given, it is used up (the Python loop never ends) -/
theorem isodep_wtx_endless_counterexample (F : Nat) (w : World Nat) (hw : w.script = []) (out : Bytes) :
    (xchgW (oraclePeer wtxTag) F w out).2 = .fuel ∧ (xchgW (oraclePeer wtxTag) F w out).1.card = w.card + F := by
  induction F generalizing w out with
  | zero => simp [xchgW]
  | succ f ih =>
    have hx : w.xchg (oraclePeer wtxTag) out =
        ({ card := w.card + 1, script := [], trace := w.trace ++ [out] }, .data [0xF2, 0x01]) := by
      simp [World.xchg, nextFault, hw, oraclePeer, wtxTag, legBack]
    unfold xchgW
    simp only [hx, isWtx]
    have := ih { card := w.card + 1, script := [], trace := w.trace ++ [out] } rfl [0xF2, 0x01]
    simp at this ⊢
    exact ⟨this.1, by omega⟩

end NfcVerif.C08
