import NfcVerif.Lemmas.AdvT34
import NfcVerif.Lemmas.AdvT3
import NfcVerif.Lemmas.AdvT2
import NfcVerif.Lemmas.AdvAct
/-!
# C08 - Activating and reading arbitrary tags terminates safely

Models: `Model/AdvT12.lean` (Type 1 / Type 2), `Model/AdvT34.lean` (Type 3 / Type 4 / activation),
all of the tree WITH `fixes/C08`.  The tag is an arbitrary answer sequence (`Adv.Tag`), for Type 4 at
APDU level an arbitrary transport `Adv.Xp σ`.

Proved here (every theorem quantifies over EVERY tag, i.e. every answer sequence; `TagBytes` only says
that answers consist of octets):
* `t1_read_safe`: the Type 1 reader needs at most 1300 interactions (amortised over the cache length:
  a tag may answer RALL with fewer than 120 octets again and again), never raises, and returns `None`
  or an object whose octets were read from inside the data area `[12, end)`.
* `t2_read_safe`: the Type 2 reader needs at most 86066 interactions (8 per 16-byte chunk below address
  172100 = 2055 + 4 + 65535 + 104448 reserved bytes at most), never raises (no sector number above 255),
  and returns `None` or an object whose octets were read from inside the data area `[16, end)`.
* `t3_read_safe`: the Type 3 reader needs at most 6 + 3*65536 interactions, never raises, returns `None`
  or an object with `length ≤ capacity` and octets from blocks inside the data area.
* `t4_read_safe` (full at APDU level): at most 7 + 65536 APDUs, never raises, `None` or an object with
  `length ≤ capacity` whose octets come from inside the file.
* `activate_safe`: for activation data of the lengths the drivers deliver, `nfc.tag.activate` never
  raises and needs at most 5 interactions.
* `isodep_wtx_endless_counterexample`: at FRAME level the unchanged ISO-DEP initiator can be kept busy
  for ever by the card (open findings), which is why the Type 4 theorem is stated at APDU level.
Not proved: `length ≤ capacity` for Type 1/2 - FALSE on the current code (open finding
`t12-capacity-below-stored-length`: `get_capacity` under-reports at 257 free bytes).
-/
namespace NfcVerif.C08
open NfcVerif NfcVerif.Adv NfcVerif.IsoDep

/-- Type 4, APDU level, every card: bounded, never an exception, `None` or a safe object -/
theorem t4_read_safe {σ} (X : Xp σ) (hX : XOk X) (known : Option Info)
    (hk : ∀ i, known = some i → i.maxLe ≤ 256) (s : σ) (n : Nat) :
    (readNdef4 (countX X) known (s, n)).1.2 ≤ n + 7 + 65536 ∧
    ((readNdef4 (countX X) known (s, n)).2 = .ok none ∨
     ∃ d i, (readNdef4 (countX X) known (s, n)).2 = .ok (some (d, i)) ∧ SafeNdef d ∧ i.maxLe ≤ 256) :=
  readNdef4_safe hX known hk (s, n)

/-- non-vacuity: a card that never answers (every APDU fails with TIMEOUT_ERROR) satisfies `XOk` -/
example : XOk (⟨fun (s : Unit) _ => (s, .error (.tagCmd 0))⟩ : Xp Unit) := by
  intro s c e h; cases h; rfl

/-- Type 1: every tag; bounded, never an exception, octets from inside the data area -/
theorem t1_read_safe (t : Tag) (hT : TagBytes t) (uid : Bytes) (w : W) :
    (readNdef1 t uid w).2.w.n ≤ w.n + 1300 ∧
    ((readNdef1 t uid w).1 = .ok none ∨ ∃ d, (readNdef1 t uid w).1 = .ok (some d) ∧ SafeA d ∧ d.lo = 12) :=
  readNdef1_safe hT uid w

/-- non-vacuity: the tag that never answers is a tag of octets -/
example : TagBytes (fun _ => none) := by intro n b h; cases h

/-- Type 2: every tag; bounded, never an exception, octets from inside the data area -/
theorem t2_read_safe (t : Tag) (hT : TagBytes t) (w : W) (sector : Nat) (alive : Bool) :
    (readNdef2 t w sector alive).2.w.n ≤ w.n + 86066 ∧
    ((readNdef2 t w sector alive).1 = .ok none ∨
     ∃ d, (readNdef2 t w sector alive).1 = .ok (some d) ∧ SafeA d ∧ d.lo = 16) :=
  readNdef2_safe hT w sector alive

/-- Type 3: every tag; bounded, never an exception, `None` or a safe object -/
theorem t3_read_safe (t : Tag) (hT : TagBytes t) (s : S3) (hI : I3 s) :
    (readNdef3 t s).2.w.n ≤ s.w.n + 6 + 3 * 65536 ∧
    ((readNdef3 t s).1 = .ok none ∨ ∃ d, (readNdef3 t s).1 = .ok (some d) ∧ SafeNdef d ∧ d.lo = 16) :=
  readNdef3_safe hT s hI

example : I3 { w := W.init, idm := [1, 2, 3, 4, 5, 6, 7, 8], pmm := [0, 0xF0, 255, 255, 255, 255, 255, 255], sys := 0x12FC } :=
  ⟨rfl, rfl⟩

/-- activation: well-framed activation data never make `nfc.tag.activate` raise -/
theorem activate_safe (t : Tag) (maxSend maxRecv : Nat) (g : Target) (w : W) (hg : WellFramed g) :
    (∃ o, (activate t maxSend maxRecv g w).1 = .ok o) ∧ (activate t maxSend maxRecv g w).2.n ≤ w.n + 5 :=
  activate_ok t maxSend maxRecv g w hg

example : WellFramed ⟨0, [0x44, 0x00], [0x00], [4, 1, 2, 3, 4, 5, 6], [], [], []⟩ := by
  refine ⟨fun _ => ⟨rfl, rfl, by decide⟩, ⟨fun h => (by cases h), fun h => absurd rfl h⟩⟩

/-- the card that answers every frame with S(WTX) -/
def wtxTag : Tag := fun _ => some [0xF2, 0x01]

/-- FRAME level, unchanged code: `IsoDepInitiator._exchange` echoes S(WTX) as long as the card sends
it - whatever fuel `F` the loop is given, it is used up (the Python loop never ends) -/
theorem isodep_wtx_endless_counterexample (F : Nat) (w : World Nat) (hw : w.script = []) (out : Bytes) :
    (xchgW (oraclePeer wtxTag) F w out).2 = .fuel ∧ (xchgW (oraclePeer wtxTag) F w out).1.card = w.card + F := by
  induction F generalizing w out with
  | zero => simp [xchgW]
  | succ f ih =>
    have hx : w.xchg (oraclePeer wtxTag) out =
        ({ card := w.card + 1, script := [], trace := w.trace ++ [out] }, .data [0xF2, 0x01]) := by
      simp [World.xchg, nextFault, hw, oraclePeer, wtxTag, legBack]
    unfold xchgW
    simp only [hx, isWtx]
    have := ih { card := w.card + 1, script := [], trace := w.trace ++ [out] } rfl [0xF2, 0x01]
    simp at this ⊢
    exact ⟨this.1, by omega⟩

end NfcVerif.C08
