import NfcVerif.Lemmas.NfcDep
/-!
# C04 - NFC-DEP delivers each payload exactly once, intact, or reports failure

Model: `Model/NfcDep.lean` (Initiator and Target of `nfc/dep.py` composed with a
fault script, `run`).  Proofs: `Lemmas/NfcDep.lean`.

Proved here, for every fault script of any length, every fuel, every payload list:

* `dep_frame_bound`            no frame exceeds the LR announced by its receiver
* `dep_error_kind_initiator`   `Initiator.exchange` fails only with CommunicationError classes,
                               `deactivate` never raises (also against an arbitrary peer:
                               `dep_error_kind_initiator_any_peer`)
* `dep_error_kind_target`      `Target.exchange` raises only ProtocolError
* `dep_retransmission_idempotent`  a retransmission, NAK, ATN or corrupted frame never changes
                               the Target (nothing is accepted or delivered twice)
* `dep_codec_roundtrip`        the PDU-level air is justified: decode (encode p) = p
* counter-examples for the code as found (F20, F26, F27, F40) and the matching
  witnesses for the repaired behaviour.

NOT proved (stated as `ExactlyOnceStatement` / `SingleFaultStatement` below): the
prefix property of the composed system and recovery from every isolated fault.
Both are checked only by the correspondence runs and by the oracle on the real code.
-/
namespace NfcVerif.C04
open NfcVerif NfcVerif.NfcDep

/-- configuration as computed by the two `activate()` methods -/
def cAct (v : Variant) (b106 : Bool) (lri lrt : Nat) (did nad : Option Nat) : Cfg :=
  ⟨b106, did, nad, tDidOf did, iMiu lrt did nad, tMiu v.f20 lri (tDidOf did), v⟩

/-- small information units, for short witnesses -/
def cSmall (v : Variant) (did : Option Nat) : Cfg := ⟨true, did, none, did, 4, 4, v⟩

/-! ## Frame sizes -/

/-- Every frame that crosses the air in any run - any fault script, any number of
exchanges, chaining, retransmissions, ATN, NAK, RTOX, DSL/RLS - carries at most
`LRt` transport bytes when sent by the Initiator and at most `LRi` when sent by the
Target; for all `lri`, `lrt`, DID, NAD, both framings.  (Target MIU as repaired, F20.) -/
theorem dep_frame_bound (c : Cfg) (lri lrt : Nat)
    (hi : c.imiu = iMiu lrt c.idid c.inad) (ht : c.tmiu = tMiu true lri c.tdid)
    (fuel : Nat) (script : List Fault) (rel : Nat) (pi pt : List Bytes) :
    ∀ e ∈ (run c fuel script rel pi pt).wire,
      (e.req = true → e.pdu.tlen ≤ lrTable lrt) ∧ (e.req = false → e.pdu.tlen ≤ lrTable lri) := by
  have b1 := lrTable_bounds lrt
  have b2 := lrTable_bounds lri
  have f1 := flag_le c.idid
  have f2 := flag_le c.inad
  have f3 := flag_le c.tdid
  exact (run_inv c (lrTable lrt) (lrTable lri) b1.2 (by omega)
    (by rw [hi]; unfold iMiu; omega) (by rw [ht]; unfold tMiu; simp; omega) fuel script rel pi pt).1

example : (cAct .repaired true 0 2 (some 3) (some 5)).tmiu = tMiu true 0 (cAct .repaired true 0 2 (some 3) (some 5)).tdid := rfl

/-- As found (F20) the Target ignores the DID byte: 65 transport bytes although LRi = 64. -/
theorem dep_frame_bound_target_counterexample :
    ∃ e ∈ (run (cAct .asFound true 0 0 (some 3) none) 50 [] 0 [[1]] [List.replicate 61 0]).wire,
      e.req = false ∧ e.pdu.tlen > lrTable 0 := by
  decide +kernel

/-! ## Error kinds -/

/-- In any run with non-empty payloads every exception that leaves
`Initiator.exchange` is a `CommunicationError` class (`isComm`: Timeout-,
Transmission-, ProtocolError ...; `outOfFuel` is the model's loop bound, not a
Python exception) and `Initiator.deactivate` raises nothing. -/
theorem dep_error_kind_initiator (c : Cfg)
    (hm : c.imiu + 3 + flag c.idid 1 + flag c.inad 1 ≤ 254) (ht : c.tmiu + 3 + flag c.tdid 1 ≤ 254)
    (fuel : Nat) (script : List Fault) (rel : Nat) (pi pt : List Bytes) (hp : ∀ p ∈ pi, p ≠ []) :
    (∀ e, (run c fuel script rel pi pt).errI = some e → isComm e = true ∨ e = .outOfFuel)
    ∧ (run c fuel script rel pi pt).errD = none := by
  have h := run_inv c 254 254 (by omega) (by omega) hm ht fuel script rel pi pt
  exact ⟨fun e he => h.2.1 hp e he, h.2.2⟩

example : (cAct .repaired true 3 3 (some 3) (some 5)).imiu + 3 + flag (some 3) 1 + flag (some 5) 1 ≤ 254 := by decide

/-- The same for the Initiator against an ARBITRARY peer (any responder state machine
`P` with an invariant `Qp`), provided the peer never sends a timeout extension
without its data byte (such a frame makes `res.data[0]` raise IndexError - a
malformed-input defect that belongs to property C07). -/
theorem dep_error_kind_initiator_any_peer {σ : Type} (P : Peer σ) (c : Cfg) (Qp : σ → Prop)
    (hrx : ∀ s rx, Qp s → Qp (P.rx s rx).1 ∧
      ∀ p, (P.rx s rx).2 = some p → ∀ pni did nad, p ≠ .dep fTOX pni did nad [])
    (hm : c.imiu + 3 + flag c.idid 1 + flag c.inad 1 ≤ 254)
    (fuel : Nat) (script : List Fault) (s0 : σ) (hs : Qp s0) (pni : Nat) (p : Bytes) (hp : p ≠ []) :
    Safe (fun e => isComm e = true ∨ e = .outOfFuel)
      (exchange P c fuel { script := script, peer := s0, expired := false, wire := [] } pni p).2.2 := by
  let S := mkSpec P c Qp (fun p => ∀ pni did nad, p ≠ .dep fTOX pni did nad []) 254 (by omega) (by omega) hm hrx
    (fun pni did nad h => h pni did nad rfl)
  exact (exchange_spec S fuel _ pni p ⟨hs, fun e h => by cases h⟩).2 hp

example : ∀ s rx, (fun _ : List (Option Pdu) => True) s →
    (fun _ : List (Option Pdu) => True) ((⟨fun s _ => (s, none)⟩ : Peer (List (Option Pdu))).rx s rx).1 ∧
    ∀ p, ((⟨fun s _ => (s, none)⟩ : Peer (List (Option Pdu))).rx s rx).2 = some p →
      ∀ pni did nad, p ≠ .dep fTOX pni did nad [] := by
  intro s rx _; exact ⟨trivial, fun p h => by cases h⟩

/-- `Target.exchange` raises nothing but `ProtocolError` (it may also return None after
DSL/RLS, or wait): for every run with non-empty Target payloads, with the first-exchange
deselect handled as repaired (F40) and an information unit that fits the length byte. -/
theorem dep_error_kind_target (c : Cfg)
    (hm : c.imiu + 3 + flag c.idid 1 + flag c.inad 1 ≤ 254) (ht : c.tmiu + 3 + flag c.tdid 1 ≤ 254)
    (hf : c.v.f40 = true)
    (fuel : Nat) (script : List Fault) (rel : Nat) (pi pt : List Bytes) (hpt : ∀ p ∈ pt, p ≠ []) :
    ∀ e, (run c fuel script rel pi pt).t.status = .raised e → e = .protocol :=
  run_target_err c hm ht hf fuel script rel pi pt hpt

example : (cAct .repaired true 3 3 (some 3) none).tmiu + 3 + flag (cAct .repaired true 3 3 (some 3) none).tdid 1 ≤ 254 := by decide

/-- As found: (F40) the first request is lost, the Initiator's deadline expires, it releases the
Target, and the first `Target.exchange` raises AttributeError; (F20) with LRi = 254 and a DID the
Target's frame needs a length byte of 256 and `struct.error` leaves `Target.exchange`. -/
theorem dep_error_kind_target_counterexample :
    (run (cSmall .asFound none) 50 [.l, .d, .d, .x] 2 [[1, 2]] [[0x81]]).t.status = .raised .attr ∧
    (run (cAct .asFound true 3 3 (some 3) none) 50 [] 0 [[1]] [List.replicate 251 0]).t.status = .raised .struct := by
  decide +kernel

/-- the same inputs on the repaired behaviour: None after the release; the payload is chained -/
example : (run (cSmall .repaired none) 50 [.l, .d, .d, .x] 2 [[1, 2]] [[0x81]]).t.status = .retNone ∧
    (run (cAct .repaired true 3 3 (some 3) none) 50 [] 0 [[1]] [List.replicate 251 0]).gotI = [List.replicate 251 0] := by
  decide +kernel

/-! ## Nothing is accepted twice -/

/-- Once the Target has left `listen`, a request with the PNI it accepted last, a NAK, an ATN
or a corrupted frame leaves its whole state (PNI, reassembly buffer, delivered payloads,
pending response) unchanged: retransmissions caused by any fault never deliver a payload twice. -/
theorem dep_retransmission_idempotent (c : Cfg) (t : TState) (hl : t.loc ≠ .listen) (fmt pni : Nat)
    (did nad : Option Nat) (data : Bytes)
    (h : fmt = fATN ∨ fmt = fNAK ∨ (fmt ≠ fTOX ∧ t.pni = some pni)) :
    (tRx c t (.frame (.dep fmt pni did nad data))).1 = t ∧ (tRx c t .corrupt).1 = t :=
  tRx_idem c t hl fmt pni did nad data h

example : (⟨some 2, .receiving [1], none, [], [], .running⟩ : TState).loc ≠ .listen := by decide

/-! ## Codec -/

/-- every DEP/DSL/RLS PDU with in-range header fields that `encode_frame` accepts is decoded
by the receiver's `decode_frame` to the same PDU (both roles, both framings): the state
machines may exchange PDUs instead of bytes. -/
theorem dep_codec_roundtrip (b106 req : Bool) (p : Pdu) (hw : p.WF) (f : Bytes)
    (h : encodeFrame b106 req p = .ok f) : decodeFrame b106 req f = .ok p :=
  codec_roundtrip b106 req p hw f h

example : (Pdu.dep fMORE 3 (some 3) (some 5) [1, 2, 3]).WF ∧
    encodeFrame true true (.dep fMORE 3 (some 3) (some 5) [1, 2, 3]) = .ok [0xF0, 9, 0xD4, 6, 0x1F, 3, 5, 1, 2, 3] :=
  ⟨⟨by decide, by decide⟩, by decide⟩

/-! ## Exactly once / recovery: statements, counter-examples as found -/

/-- FULL STATEMENT (not proved): what each side's `exchange()` returned is a prefix of what the
other side passed in. -/
def ExactlyOnceStatement : Prop :=
  ∀ (c : Cfg) (fuel : Nat) (script : List Fault) (rel : Nat) (pi pt : List Bytes),
    (run c fuel script rel pi pt).t.got <+: pi ∧ (run c fuel script rel pi pt).gotI <+: pt

/-- FULL STATEMENT (not proved): faults at least six frames apart and no expiry are all recovered. -/
def SingleFaultStatement (v : Variant) : Prop :=
  ∀ (did : Option Nat) (script : List Fault) (pi pt : List Bytes),
    (∀ i j, i < j → j < script.length → script[i]? ≠ some .d → script[j]? ≠ some .d → i + 6 < j) →
    .x ∉ script → pi.length = pt.length → (∀ p ∈ pi ++ pt, p ≠ []) →
    (run (cSmall v did) (script.length + 1000) script 0 pi pt).errI = none

/-- As found (F26) one lost frame is never recovered when a DID is used ... -/
theorem dep_no_recovery_with_did_counterexample : ¬ SingleFaultStatement .asFound := by
  intro h
  have := h (some 3) [.l] [[1, 2]] [[0x81]] (by intro i j hij hj; simp at hj; omega) (by decide) rfl (by decide)
  revert this
  decide +kernel

/-- ... and (F27) a corrupted ACK during Initiator chaining is fatal even without DID. -/
theorem dep_ack_retransmission_counterexample :
    (run (cSmall .asFound none) 50 [.d, .c] 0 [[1, 2, 3, 4, 5, 6]] [[0x81]]).errI = some .protocol := by
  decide +kernel

/-- the same scripts on the repaired behaviour: recovered, delivered once and intact -/
example : (run (cSmall .repaired (some 3)) 50 [.l] 0 [[1, 2]] [[0x81]]).errI = none ∧
    (run (cSmall .repaired none) 50 [.d, .c] 0 [[1, 2, 3, 4, 5, 6]] [[0x81]]).t.got = [[1, 2, 3, 4, 5, 6]] ∧
    (run (cSmall .repaired none) 50 [.d, .c] 0 [[1, 2, 3, 4, 5, 6]] [[0x81]]).gotI = [[0x81]] := by
  decide +kernel

end NfcVerif.C04
