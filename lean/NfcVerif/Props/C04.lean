import NfcVerif.Lemmas.NfcDepLive
/-!
# C04 - NFC-DEP delivers each payload exactly once, intact, or reports failure

Model: `Model/NfcDep.lean` (Initiator and Target of `nfc/dep.py` composed with a
fault script, `run`).  Proofs: `Lemmas/NfcDep.lean`.

Proved here, for every fault script of any length, every fuel, every payload list:

* `dep_exactly_once`           what each side's `exchange()` returned is a prefix of what the other side
                               passed in (complete, unmodified, in order, nothing twice) - for EVERY
                               configuration (any DID/NAD/MIU/variant), no hypothesis
* `dep_success_complete`       a run without exception delivered every payload, both ways
* `dep_nothing_after_error`    a Target that raised or returned None never delivers or answers again
* `dep_foreign_did_silent`     a request with a foreign DID is never answered and changes nothing
* `dep_transaction_at_most_once`  one `send_dep_req_recv_dep_res` makes the peer accept the request
                               at most once (generic over the peer; the lemma behind `dep_exactly_once`)
* `dep_frame_bound`            no frame exceeds the LR announced by its receiver
* `dep_error_kind_initiator`   `Initiator.exchange` fails only with CommunicationError classes,
                               `deactivate` never raises (also against an arbitrary peer:
                               `dep_error_kind_initiator_any_peer`)
* `dep_error_kind_target`      `Target.exchange` raises only ProtocolError
* `dep_retransmission_idempotent`  a retransmission, NAK, ATN or corrupted frame never changes
                               the Target
* `dep_codec_roundtrip`        the PDU-level air is justified: decode (encode p) = p
* counter-examples for the code as found (F20, F26, F27, F40) and the matching
  witnesses for the repaired behaviour.

* `dep_single_fault_recovered`  under every script whose faults are `lose`/`corrupt` and at least four
                               delivered frames apart nothing fails and everything is delivered
-/
namespace NfcVerif.C04
open NfcVerif NfcVerif.NfcDep

/-- configuration as computed by the two `activate()` methods -/
def cAct (v : Variant) (b106 : Bool) (lri lrt : Nat) (did nad : Option Nat) : Cfg :=
  ⟨b106, did, nad, tDidOf did, iMiu lrt did nad, tMiu v.f20 lri (tDidOf did), v⟩

/-- small information units, for short witnesses -/
def cSmall (v : Variant) (did : Option Nat) : Cfg := ⟨true, did, none, did, 4, 4, v⟩

/-! ## Frame sizes -/

/-- Every frame that crosses the air in any run - any fault script, any number of
exchanges, chaining, retransmissions, ATN, NAK, RTOX, DSL/RLS - carries at most
`LRt` transport bytes when sent by the Initiator and at most `LRi` when sent by the
Target; for all `lri`, `lrt`, DID, NAD, both framings.  (Target MIU as repaired, F20.) -/
theorem dep_frame_bound (c : Cfg) (lri lrt : Nat)
    (hi : c.imiu = iMiu lrt c.idid c.inad) (ht : c.tmiu = tMiu true lri c.tdid)
    (fuel : Nat) (script : List Fault) (rel : Nat) (pi pt : List Bytes) :
    ∀ e ∈ (run c fuel script rel pi pt).wire,
      (e.req = true → e.pdu.tlen ≤ lrTable lrt) ∧ (e.req = false → e.pdu.tlen ≤ lrTable lri) := by
  have b1 := lrTable_bounds lrt
  have b2 := lrTable_bounds lri
  have f1 := flag_le c.idid
  have f2 := flag_le c.inad
  have f3 := flag_le c.tdid
  exact (run_inv c (lrTable lrt) (lrTable lri) b1.2 (by omega)
    (by rw [hi]; unfold iMiu; omega) (by rw [ht]; unfold tMiu; simp; omega) fuel script rel pi pt).1

example : (cAct .repaired true 0 2 (some 3) (some 5)).tmiu = tMiu true 0 (cAct .repaired true 0 2 (some 3) (some 5)).tdid := rfl

/-- As found (F20) the Target ignores the DID byte: 65 transport bytes although LRi = 64. -/
theorem dep_frame_bound_target_counterexample :
    ∃ e ∈ (run (cAct .asFound true 0 0 (some 3) none) 50 [] 0 [[1]] [List.replicate 61 0]).wire,
      e.req = false ∧ e.pdu.tlen > lrTable 0 := by
  decide +kernel

/-! ## Error kinds -/

/-- In any run with non-empty payloads every exception that leaves
`Initiator.exchange` is a `CommunicationError` class (`isComm`: Timeout-,
Transmission-, ProtocolError ...; `outOfFuel` is the model's loop bound, not a
Python exception) and `Initiator.deactivate` raises nothing. -/
theorem dep_error_kind_initiator (c : Cfg)
    (hm : c.imiu + 3 + flag c.idid 1 + flag c.inad 1 ≤ 254) (ht : c.tmiu + 3 + flag c.tdid 1 ≤ 254)
    (fuel : Nat) (script : List Fault) (rel : Nat) (pi pt : List Bytes) (hp : ∀ p ∈ pi, p ≠ []) :
    (∀ e, (run c fuel script rel pi pt).errI = some e → isComm e = true ∨ e = .outOfFuel)
    ∧ (run c fuel script rel pi pt).errD = none := by
  have h := run_inv c 254 254 (by omega) (by omega) hm ht fuel script rel pi pt
  exact ⟨fun e he => h.2.1 hp e he, h.2.2⟩

example : (cAct .repaired true 3 3 (some 3) (some 5)).imiu + 3 + flag (some 3) 1 + flag (some 5) 1 ≤ 254 := by decide

/-- The same for the Initiator against an ARBITRARY peer: any responder state machine `P`, any state,
any answers (RTOX with or without its data byte, NAK, foreign PDUs, silence), any fault script -
the only exceptions leaving `Initiator.exchange` are `CommunicationError` classes.  No hypothesis on
the peer (a timeout extension without RTOX value is a ProtocolError since /repo 8ba1bdd). -/
theorem dep_error_kind_initiator_any_peer {σ : Type} (P : Peer σ) (c : Cfg)
    (hm : c.imiu + 3 + flag c.idid 1 + flag c.inad 1 ≤ 254)
    (fuel : Nat) (script : List Fault) (s0 : σ) (pni : Nat) (p : Bytes) (hp : p ≠ []) :
    Safe (fun e => isComm e = true ∨ e = .outOfFuel)
      (exchange P c fuel { script := script, peer := s0, expired := false, wire := [] } pni p).2.2 := by
  let S := mkSpec P c (fun _ => True) (fun _ => True) 254 (by omega) (by omega) hm
    (fun _ _ _ => ⟨trivial, fun _ _ => trivial⟩)
  exact (exchange_spec S fuel _ pni p ⟨trivial, fun e h => by cases h⟩).2 hp

/-- non-vacuity: a responder that answers the first request with an RTOX PDU without data byte -/
example : (runScripted (cSmall .repaired none) 50 [] [some (.dep fTOX 0 none none [])] [1, 2]).2 = .error .protocol := by
  decide +kernel

/-- `Target.exchange` raises nothing but `ProtocolError` (it may also return None after
DSL/RLS, or wait): for every run with non-empty Target payloads, with the first-exchange
deselect handled as repaired (F40) and an information unit that fits the length byte. -/
theorem dep_error_kind_target (c : Cfg)
    (hm : c.imiu + 3 + flag c.idid 1 + flag c.inad 1 ≤ 254) (ht : c.tmiu + 3 + flag c.tdid 1 ≤ 254)
    (hf : c.v.f40 = true)
    (fuel : Nat) (script : List Fault) (rel : Nat) (pi pt : List Bytes) (hpt : ∀ p ∈ pt, p ≠ []) :
    ∀ e, (run c fuel script rel pi pt).t.status = .raised e → e = .protocol :=
  run_target_err c hm ht hf fuel script rel pi pt hpt

example : (cAct .repaired true 3 3 (some 3) none).tmiu + 3 + flag (cAct .repaired true 3 3 (some 3) none).tdid 1 ≤ 254 := by decide

/-- As found: (F40) the first request is lost, the Initiator's deadline expires, it releases the
Target, and the first `Target.exchange` raises AttributeError; (F20) with LRi = 254 and a DID the
Target's frame needs a length byte of 256 and `struct.error` leaves `Target.exchange`. -/
theorem dep_error_kind_target_counterexample :
    (run (cSmall .asFound none) 50 [.l, .d, .d, .x] 2 [[1, 2]] [[0x81]]).t.status = .raised .attr ∧
    (run (cAct .asFound true 3 3 (some 3) none) 50 [] 0 [[1]] [List.replicate 251 0]).t.status = .raised .struct := by
  decide +kernel

/-- the same inputs on the repaired behaviour: None after the release; the payload is chained -/
example : (run (cSmall .repaired none) 50 [.l, .d, .d, .x] 2 [[1, 2]] [[0x81]]).t.status = .retNone ∧
    (run (cAct .repaired true 3 3 (some 3) none) 50 [] 0 [[1]] [List.replicate 251 0]).gotI = [List.replicate 251 0] := by
  decide +kernel

/-! ## Nothing is accepted twice -/

/-- Once the Target has left `listen`, a request with the PNI it accepted last, a NAK, an ATN
or a corrupted frame leaves its whole state (PNI, reassembly buffer, delivered payloads,
pending response) unchanged: retransmissions caused by any fault never deliver a payload twice. -/
theorem dep_retransmission_idempotent (c : Cfg) (t : TState) (hl : t.loc ≠ .listen) (fmt pni : Nat)
    (did nad : Option Nat) (data : Bytes)
    (h : fmt = fATN ∨ fmt = fNAK ∨ (fmt ≠ fTOX ∧ t.pni = some pni)) :
    (tRx c t (.frame (.dep fmt pni did nad data))).1 = t ∧ (tRx c t .corrupt).1 = t :=
  tRx_idem c t hl fmt pni did nad data h

example : (⟨some 2, .receiving [1], none, [], [], .running⟩ : TState).loc ≠ .listen := by decide

/-! ## Codec -/

/-- every DEP/DSL/RLS PDU with in-range header fields that `encode_frame` accepts is decoded
by the receiver's `decode_frame` to the same PDU (both roles, both framings): the state
machines may exchange PDUs instead of bytes. -/
theorem dep_codec_roundtrip (b106 req : Bool) (p : Pdu) (hw : p.WF) (f : Bytes)
    (h : encodeFrame b106 req p = .ok f) : decodeFrame b106 req f = .ok p :=
  codec_roundtrip b106 req p hw f h

example : (Pdu.dep fMORE 3 (some 3) (some 5) [1, 2, 3]).WF ∧
    encodeFrame true true (.dep fMORE 3 (some 3) (some 5) [1, 2, 3]) = .ok [0xF0, 9, 0xD4, 6, 0x1F, 3, 5, 1, 2, 3] :=
  ⟨⟨by decide, by decide⟩, by decide⟩

/-! ## Exactly once, in order, intact -/

/-- **Safety, full.**  For every configuration (bit rate framing, DID and NAD on either side, equal or
not, any information unit sizes, any variant of the known defects), every fault script
`deliver/lose/corrupt/expire` of any length, every fuel, every release mode and all payload lists: the
payloads returned so far by `Target.exchange` are a prefix of the payloads the Initiator passed to
`Initiator.exchange`, and the payloads returned by `Initiator.exchange` are a prefix of those the Target
passed in.  List prefix on whole payloads = each one complete, unmodified, in order, none twice, none
invented; after an exception the application stops, so nothing follows an error.  Chaining both ways,
PNI wrap-around (mod 4), retransmission, ATN, NAK are all covered; the Target never sends RTOX. -/
theorem dep_exactly_once (c : Cfg) (fuel : Nat) (script : List Fault) (rel : Nat) (pi pt : List Bytes) :
    (run c fuel script rel pi pt).t.got <+: pi ∧ (run c fuel script rel pi pt).gotI <+: pt :=
  run_prefix c fuel script rel pi pt

/-- non-vacuity: a run with chaining both ways, two faults, PNI wrap - both lists delivered -/
example : (run (cSmall .repaired (some 3)) 50 [.d, .l, .d, .d, .d, .d, .d, .c] 2
      [[1, 2, 3, 4, 5, 6], [7], [8], [9], [10]] [[0x81, 0x82, 0x83, 0x84, 0x85], [0x86], [0x87], [0x88], [0x89]]).t.got
    = [[1, 2, 3, 4, 5, 6], [7], [8], [9], [10]] := by
  decide +kernel

/-- When the DIDs agree and `Initiator.exchange` never raised, everything was delivered: the Target got
exactly the Initiator's list and the Initiator got the matching answers. -/
theorem dep_success_complete (c : Cfg) (hdid : c.tdid = c.idid) (fuel : Nat) (script : List Fault) (rel : Nat)
    (pi pt : List Bytes) (hok : (run c fuel script rel pi pt).errI = none) :
    (run c fuel script rel pi pt).t.got = pi ∧ (run c fuel script rel pi pt).gotI = pt.take pi.length :=
  run_complete c hdid fuel script rel pi pt hok

example : (run (cSmall .repaired none) 50 [.d, .c] 0 [[1, 2, 3, 4, 5, 6]] [[0x81]]).errI = none := by decide +kernel

/-- After `Target.exchange` raised, returned None or the application stopped, no frame changes the
Target or is answered: nothing is delivered after an error. -/
theorem dep_nothing_after_error (c : Cfg) (t : TState) (h : t.status ≠ .running) (rx : Rx) :
    tRx c t rx = (t, none) := by
  cases rx with
  | corrupt => rfl
  | frame p => simp [tRx, h]

example : (⟨some 1, .receiving [], none, [], [[1]], .raised .protocol⟩ : TState).status ≠ .running := by decide

/-- **Foreign DID is met with silence.**  A request of any kind (DEP INF/ACK/NAK/ATN/RTOX, DSL, RLS, PSL,
ATR) whose DID differs from the Target's - another DID, no DID while the Target has one, a DID while
the Target has none - is never answered: no saved response, no payload, no PNI leaks to a frame addressed
to another target; and the Target state (PNI, reassembly buffer, delivered and pending payloads, saved
response, status) is unchanged, for every state.  (Only `clf.listen`, which in the simulator returns with
the first DEP_REQ whatever its DID, moves from `listen` to `first`.) -/
theorem dep_foreign_did_silent (c : Cfg) (t : TState) (req : Pdu) (h : req.didAttr ≠ c.tdid) :
    (tRx c t (.frame req)).2 = none ∧
    ((tRx c t (.frame req)).1 = t ∨ (t.loc = .listen ∧ (tRx c t (.frame req)).1 = { t with loc := .first })) :=
  tRx_foreign c t req h

example : (Pdu.dep fINF 1 (some 7) none [0x27]).didAttr ≠ (cSmall .repaired none).tdid := by decide

/-- As found (F41) a repeated RTOX request - the Initiator sends it again when the Target's next
information PDU was lost after a timeout extension - is handed to `Target.exchange` as a new request:
with packet number 3 the check `(pni + 1) & 3 == req.pni` passes and the RTOX value `02` is returned
to the application as a received payload that nobody sent.  Repaired: the saved response is sent again
and nothing changes.  (The Target application of the composed model never requests timeout extensions,
so `dep_exactly_once` is not affected; the oracle runs the scenario on the real code.) -/
theorem dep_rtox_request_counterexample :
    let t : TState := ⟨some 3, .sending [0x84], some (.dep fINF 3 none none [0x84]), [[0x85]], [[1], [2], [3], [4]], .running⟩
    (tRx (cSmall .asFound none) t (.frame (.dep fTOX 0 none none [2]))).1.got = [[1], [2], [3], [4], [2]]
    ∧ (tRx (cSmall .repaired none) t (.frame (.dep fTOX 0 none none [2]))).2 = some (.dep fINF 3 none none [0x84])
    ∧ (tRx (cSmall .repaired none) t (.frame (.dep fTOX 0 none none [2]))).1.got = [[1], [2], [3], [4]]
    ∧ (tRx (cSmall .repaired none) t (.frame (.dep fTOX 0 none none [2]))).1.status = .running := by
  decide +kernel

/-- The lemma behind `dep_exactly_once`, for ANY peer state machine `P`: if `A` (request not yet
accepted) is closed under ATN and accepting `req` leads from `A` to `B` with answer `r1`, and in `B`
a retransmitted `req`, a NAK and an ATN keep `B` and return `r1` or nothing, then for every fault script
and fuel `transact` (= `send_dep_req_recv_dep_res` + RTOX handling) ends in `A` without a result or
in `B`, and a result is exactly `r1`: the request is accepted at most once and the answer is the
answer to this request. -/
theorem dep_transaction_at_most_once {σ : Type} (P : Peer σ) (c : Cfg) (A B : σ → Prop) (r1 : Option Pdu)
    (pni : Nat) (req : Pdu) (H : TXHyp P c A B r1 pni req)
    (hnt : ∀ res, r1 = some res → res.fmt? ≠ some fTOX) (fuel : Nat) (a : Air σ) (h : A a.peer) :
    TXPost A B r1 (transact P c fuel pni a req) :=
  transact_tx H hnt fuel a h

/-! ## Recovery: statement, counter-examples as found -/

/-- **Recovery, full.**  `sparse K 0 script`: the script contains only `lose`/`corrupt` faults (no
expiry) and after every fault the next `K` frames are delivered.  For every `K ≥ 4` - one fault per
recovery, any number of faults in the conversation, at any frame position: request, response, ATN
exchange excluded only by the spacing - and for every configuration with the same DID on both sides,
ATN carrying the DID and the ACK accepted after NAK (as repaired, F26/F27), frames that fit the length
byte and non-zero information units: no exception is raised, `Target.exchange` returned exactly the
Initiator's payloads and the Initiator got the matching answers.  Any payload sizes (chaining both
ways), any number of exchanges (PNI wraps); `F + 2` is the model's loop bound, payloads `≤ F + 1`. -/
theorem dep_single_fault_recovered (c : Cfg) (L : LiveCfg c) (K F : Nat) (hK : 4 ≤ K) (script : List Fault) (rel : Nat)
    (pi pt : List Bytes) (hs : sparse K 0 script = true) (hlen : pi.length ≤ pt.length)
    (hpi : ∀ p ∈ pi, p ≠ [] ∧ p.length ≤ F + 1) (hpt : ∀ p ∈ pt, p ≠ [] ∧ p.length ≤ F + 1) :
    (run c (F + 2) script rel pi pt).errI = none
    ∧ (run c (F + 2) script rel pi pt).t.got = pi
    ∧ (run c (F + 2) script rel pi pt).gotI = pt.take pi.length := by
  have h := run_live c L K F hK script rel pi pt hs hlen hpi hpt
  exact ⟨h, run_complete c L.did (F + 2) script rel pi pt h⟩

/-- non-vacuity: an activated configuration with DID and NAD, a script with three isolated faults -/
example : LiveCfg (cAct .repaired true 0 2 (some 3) (some 5)) ∧
    sparse 4 0 [.l, .d, .d, .d, .d, .c, .d, .d, .d, .d, .d, .l] = true :=
  ⟨⟨rfl, rfl, rfl, by decide, by decide, by decide, by decide⟩, by decide⟩

/-- the statement specialised to the small configuration, used for the as-found counter-example -/
def SingleFaultStatement (v : Variant) : Prop :=
  ∀ (did : Option Nat) (F : Nat) (script : List Fault) (pi pt : List Bytes),
    sparse 4 0 script = true → pi.length ≤ pt.length →
    (∀ p ∈ pi, p ≠ [] ∧ p.length ≤ F + 1) → (∀ p ∈ pt, p ≠ [] ∧ p.length ≤ F + 1) →
    (run (cSmall v did) (F + 2) script 0 pi pt).errI = none

theorem dep_single_fault_statement_repaired : SingleFaultStatement .repaired := by
  intro did F script pi pt hs hlen hpi hpt
  have L : LiveCfg (cSmall .repaired did) :=
    ⟨rfl, rfl, rfl, by cases did <;> simp [cSmall, flag], by cases did <;> simp [cSmall, flag], by simp [cSmall], by simp [cSmall]⟩
  exact run_live (cSmall .repaired did) L 4 F (by decide) script 0 pi pt hs hlen hpi hpt

/-- As found (F26) one lost frame is never recovered when a DID is used ... -/
theorem dep_no_recovery_with_did_counterexample : ¬ SingleFaultStatement .asFound := by
  intro h
  have := h (some 3) 48 [.l] [[1, 2]] [[0x81]] (by decide) (by decide) (by decide) (by decide)
  revert this
  decide +kernel

/-- ... and (F27) a corrupted ACK during Initiator chaining is fatal even without DID. -/
theorem dep_ack_retransmission_counterexample :
    (run (cSmall .asFound none) 50 [.d, .c] 0 [[1, 2, 3, 4, 5, 6]] [[0x81]]).errI = some .protocol := by
  decide +kernel

/-- the same scripts on the repaired behaviour: recovered, delivered once and intact -/
example : (run (cSmall .repaired (some 3)) 50 [.l] 0 [[1, 2]] [[0x81]]).errI = none ∧
    (run (cSmall .repaired none) 50 [.d, .c] 0 [[1, 2, 3, 4, 5, 6]] [[0x81]]).t.got = [[1, 2, 3, 4, 5, 6]] ∧
    (run (cSmall .repaired none) 50 [.d, .c] 0 [[1, 2, 3, 4, 5, 6]] [[0x81]]).gotI = [[0x81]] := by
  decide +kernel

end NfcVerif.C04
