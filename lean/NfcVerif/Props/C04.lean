import NfcVerif.Model.NfcDep
namespace NfcVerif.C04
end NfcVerif.C04
