import NfcVerif.Props.ExcFlow
/-!
# Exception flow, instance theorems: C13: the driver boundary

Re-checked on the regenerated `Gen/ExcFlow.lean` (see `Props/ExcFlow.lean` for what `Only` / `Can` mean).
-/
namespace NfcVerif.ExcFlowProps
open NfcVerif.ExcFlow NfcVerif.Gen.ClassTree NfcVerif.Gen.ExcFlow

/-! ## C13: the driver boundary

Assumption (table): the transport (`self.transport.read/write`, the UDP socket, `select`) raises `IOError`
only.  Everything between the transport and `Device.send_cmd_recv_rsp` / `send_rsp_recv_cmd` is translated:
`Chipset.command`, the chipset helpers, the register access of all PN53x variants, `acr122.Chipset.command`. -/

/-- every `Only` statement of this section, checked with one evaluation of the summary table -/
def driversOnly : List (Site × List Cls) := [
  (Site.fn_pn53x_Chipset_command, [Cls.clf_pn53x_Chipset_Error, Cls.OSError, Cls.AssertionError]),
  (Site.fn_rcs380_Device_send_cmd_recv_rsp, [Cls.clf_CommunicationError, Cls.OSError]),
  (Site.fn_rcs380_Device_send_rsp_recv_cmd, [Cls.clf_CommunicationError, Cls.OSError, Cls.AssertionError]),
  (Site.fn_clf_exchange, [Cls.clf_CommunicationError, Cls.OSError, Cls.AssertionError, Cls.NotImplementedError]),
  (Site.fn_pn53x_Device_send_cmd_recv_rsp, [Cls.clf_CommunicationError, Cls.OSError, Cls.AssertionError, Cls.NotImplementedError]),
  (Site.fn_pn533_Device_send_cmd_recv_rsp, [Cls.clf_CommunicationError, Cls.OSError, Cls.AssertionError, Cls.NotImplementedError]),
  (Site.fn_pn53x_Device_send_rsp_recv_cmd, [Cls.clf_CommunicationError, Cls.OSError, Cls.AssertionError]),
  (Site.fn_pn533_Device_send_rsp_recv_cmd, [Cls.clf_CommunicationError, Cls.OSError, Cls.AssertionError]),
  (Site.fn_udp_Device_send_cmd_recv_rsp, [Cls.clf_CommunicationError, Cls.OSError]),
  (Site.fn_udp_Device_send_rsp_recv_cmd, [Cls.clf_CommunicationError, Cls.OSError])]
def driversCan : List (Site × Cls) := [
  (Site.fn_pn53x_Device__send_cmd_recv_rsp, Cls.clf_pn53x_Chipset_Error),
  (Site.fn_pn53x_Device_send_cmd_recv_rsp, Cls.clf_TransmissionError),
  (Site.fn_pn53x_Device_send_cmd_recv_rsp, Cls.OSError),
  (Site.fn_rcs380_Device__send_cmd_recv_rsp, Cls.clf_rcs380_StatusError),
  (Site.fn_rcs380_Chipset_in_comm_rf, Cls.clf_rcs380_CommunicationError)]
/-- both lists, checked with one evaluation of the summary table -/
theorem driversAll_ok : checkAll world table prog driversOnly [] driversCan = true := by decide +kernel
theorem driversOnly_ok : checkOnly world table prog driversOnly = true := (checkAll_split driversAll_ok).1
theorem driversCan_ok : checkCan world table prog driversCan = true := (checkAll_split driversAll_ok).2.2


/-- the PN53x chipset layer raises `Chipset.Error`, `IOError`, and `AssertionError` (frame size / argument
`assert`s) - this is what the `Device` layer has to translate -/
theorem pn53x_chipset_command_escapes : Only Site.fn_pn53x_Chipset_command
    [Cls.clf_pn53x_Chipset_Error, Cls.OSError, Cls.AssertionError] :=
  escapesOnly_of_checkOnly tree_ordered driversOnly_ok (by decide)
theorem pn53x_chipset_raises_internal : Can Site.fn_pn53x_Device__send_cmd_recv_rsp Cls.clf_pn53x_Chipset_Error :=
  canEscape_of_checkCan tree_ordered driversCan_ok (by decide)

/-- PN53x family `send_cmd_recv_rsp` (base class, inherited by pn531/pn532/rcs956/acr122/arygon, and the
pn533 override; `self.chipset` / `self._tt1_send_cmd_recv_rsp` dispatch to every variant): no `Chipset.Error`.
Residual outside the documented set: `AssertionError` (the `assert`s of `Chipset.command` /
`write_register`), `NotImplementedError` (Type 1 command on a driver without `_tt1_send_cmd_recv_rsp`). -/
theorem pn53x_send_cmd_recv_rsp_escapes : ∀ f ∈ [Site.fn_pn53x_Device_send_cmd_recv_rsp, Site.fn_pn533_Device_send_cmd_recv_rsp],
    Only f [Cls.clf_CommunicationError, Cls.OSError, Cls.AssertionError, Cls.NotImplementedError] := by
  intro f hf
  simp only [List.mem_cons, List.not_mem_nil, or_false] at hf
  rcases hf with h | h <;> subst h <;> exact escapesOnly_of_checkOnly tree_ordered driversOnly_ok (by decide)
theorem pn53x_send_rsp_recv_cmd_escapes : ∀ f ∈ [Site.fn_pn53x_Device_send_rsp_recv_cmd, Site.fn_pn533_Device_send_rsp_recv_cmd],
    Only f [Cls.clf_CommunicationError, Cls.OSError, Cls.AssertionError] := by
  intro f hf
  simp only [List.mem_cons, List.not_mem_nil, or_false] at hf
  rcases hf with h | h <;> subst h <;> exact escapesOnly_of_checkOnly tree_ordered driversOnly_ok (by decide)
theorem pn53x_send_cmd_recv_rsp_can_fail : Can Site.fn_pn53x_Device_send_cmd_recv_rsp Cls.clf_TransmissionError ∧
    Can Site.fn_pn53x_Device_send_cmd_recv_rsp Cls.OSError :=
  ⟨canEscape_of_checkCan tree_ordered driversCan_ok (by decide),
   canEscape_of_checkCan tree_ordered driversCan_ok (by decide)⟩

/-- RC-S380: `StatusError` and the driver-internal `CommunicationError` do not escape -/
theorem rcs380_send_cmd_recv_rsp_escapes : Only Site.fn_rcs380_Device_send_cmd_recv_rsp [Cls.clf_CommunicationError, Cls.OSError] :=
  escapesOnly_of_checkOnly tree_ordered driversOnly_ok (by decide)
/-- `send_rsp_recv_cmd` starts with `assert timeout is None or timeout >= 0` -/
theorem rcs380_send_rsp_recv_cmd_escapes : Only Site.fn_rcs380_Device_send_rsp_recv_cmd
    [Cls.clf_CommunicationError, Cls.OSError, Cls.AssertionError] :=
  escapesOnly_of_checkOnly tree_ordered driversOnly_ok (by decide)
theorem rcs380_inner_raises_internal : Can Site.fn_rcs380_Device__send_cmd_recv_rsp Cls.clf_rcs380_StatusError ∧
    Can Site.fn_rcs380_Chipset_in_comm_rf Cls.clf_rcs380_CommunicationError :=
  ⟨canEscape_of_checkCan tree_ordered driversCan_ok (by decide),
   canEscape_of_checkCan tree_ordered driversCan_ok (by decide)⟩

theorem udp_exchange_escapes : ∀ f ∈ [Site.fn_udp_Device_send_cmd_recv_rsp, Site.fn_udp_Device_send_rsp_recv_cmd],
    Only f [Cls.clf_CommunicationError, Cls.OSError] := by
  intro f hf
  simp only [List.mem_cons, List.not_mem_nil, or_false] at hf
  rcases hf with h | h <;> subst h <;> exact escapesOnly_of_checkOnly tree_ordered driversOnly_ok (by decide)

/-- `ContactlessFrontend.exchange` over all translated drivers -/
theorem clf_exchange_escapes : Only Site.fn_clf_exchange
    [Cls.clf_CommunicationError, Cls.OSError, Cls.AssertionError, Cls.NotImplementedError] :=
  escapesOnly_of_checkOnly tree_ordered driversOnly_ok (by decide)

end NfcVerif.ExcFlowProps
