import NfcVerif.Lemmas.TlvSync
import NfcVerif.Lemmas.T1Format
/-!
# C03 - NDEF writes touch nothing outside the NDEF message area (Type 1 and Type 2 Tag)

`Area L x`: `x` lies behind the NDEF TLV's tag byte, inside the data area, and is not reserved
by a lock/memory control TLV (nor, Type 1, one of the static lock/reserved bytes 104..127).
Everything else - UID, static lock bytes, OTP, capability container, the TLVs in front of the
NDEF TLV and its tag byte, reserved ranges, dynamic lock bytes and whatever follows the data
area - is outside.  Model: `NfcVerif.Model.Tlv` (F1, F2, F3 modelled as repaired).
-/
namespace NfcVerif.C03
open NfcVerif NfcVerif.Tlv

/-- **Bytes outside the area keep their value** in each of the three images that reach the
tag, for every well-formed image and every message up to the capacity (`Hdr3`: a message of
255 bytes or more needs the 3-byte length field, whose bytes must not be reserved - the
property's "anywhere except on the NDEF TLV's tag and length-field bytes"). -/
theorem t12_write_confined (c : Cfg) (m : Bytes) (L : Layout) (data : Bytes)
    (hread : readNdef c m = .ok (some L)) (hwf : WF c m L) (hcap : (data.length : Int) ≤ L.cap)
    (h3 : Hdr3 L data.length) :
    ∃ ph, writeNdef c m L data = .ok ph ∧ ph.m3.length = m.length ∧
      ∀ x, ¬ Area L x → ph.m1[x]? = m[x]? ∧ ph.m2[x]? = m[x]? ∧ ph.m3a[x]? = m[x]? ∧ ph.m3[x]? = m[x]? := by
  obtain ⟨m1, m2, m3a, m3, w, _⟩ := roundtrip c m L data ((readNdef_some c m L).1 hread) hwf hcap
  obtain ⟨s1, s2, s3a, s3⟩ := steps_area w hwf h3
  refine ⟨⟨m1, m2, m3a, m3⟩, ?_, w.len3, fun x hx => ?_⟩
  · unfold writeNdef; rw [w.p1, Py.bind_ok, w.p2, Py.bind_ok, w.p3a, Py.bind_ok, w.p3, Py.bind_ok]
  · have e1 : m1[x]? = m[x]? := Classical.byContradiction fun h => hx (s1 x h)
    have e2 : m2[x]? = m1[x]? := Classical.byContradiction fun h => hx (s2 x h)
    have e3a : m3a[x]? = m2[x]? := Classical.byContradiction fun h => hx (s3a x h)
    have e3 : m3[x]? = m3a[x]? := Classical.byContradiction fun h => hx (s3 x h)
    exact ⟨e1, by rw [e2, e1], by rw [e3a, e2, e1], by rw [e3, e3a, e2, e1]⟩

/-- **No command addresses a unit wholly outside the area**: every write command the setter
sends (all `synchronize()` calls) covers at least one byte of `Area`. -/
theorem t12_commands_confined (c : Cfg) (m : Bytes) (L : Layout) (data : Bytes)
    (hread : readNdef c m = .ok (some L)) (hwf : WF c m L) (hcap : (data.length : Int) ≤ L.cap)
    (h3 : Hdr3 L data.length) :
    ∀ cmd ∈ (setOctets c m L data).cmds, ∃ x, cmd.1 ≤ x ∧ x < cmd.1 + cmd.2.length ∧ Area L x := by
  obtain ⟨m1, m2, m3a, m3, w, _⟩ := roundtrip c m L data ((readNdef_some c m L).1 hread) hwf hcap
  obtain ⟨s1, s2, s3a, s3⟩ := steps_area w hwf h3
  have hl1 := w.len1
  have hl2 := w.len2
  have hl3 := w.len3
  have hl3a : m3a.length = m.length := by rw [w.m3a_eq, pre3_length, hl2]
  intro cmd hc
  unfold setOctets at hc
  split at hc
  · cases hc
  · rw [if_neg (by omega), writeCmds_eq w] at hc
    simp only [List.mem_append] at hc
    rcases hc with ((hc | hc) | hc) | hc
    · exact cmd_covers c.unit m m1 hl1.symm _ s1 cmd hc
    · exact cmd_covers c.unit m1 m2 (by omega) _ s2 cmd hc
    · exact cmd_covers c.unit m2 m3a (by omega) _ s3a cmd hc
    · exact cmd_covers c.unit m3a m3 (by omega) _ s3 cmd hc

/-- **Type 2 format (erase), with and without wipe** - `Type2Tag._format` as repaired (F3): only
bytes of the area change, and every WRITE covers a byte of the area.  Hypotheses: the length byte
exists inside the data area and is not reserved. -/
theorem t2_format_confined (m m' : Bytes) (L : Layout) (wipe : Option Nat)
    (hs1 : inSkip L.skip (L.off + 1) = false) (h1 : L.off + 1 < L.areaEnd)
    (h : formatT2 m L wipe = .ok m') :
    m'.length = m.length ∧ (∀ x, ¬ Area L x → m'[x]? = m[x]?)
    ∧ ∀ cmd ∈ diffUnits 4 m m', ∃ x, cmd.1 ≤ x ∧ x < cmd.1 + cmd.2.length ∧ Area L x := by
  obtain ⟨hl, hc⟩ := formatT2_spec m m' L wipe hs1 h1 h
  exact ⟨hl, fun x hx => Classical.byContradiction fun hne => hx (hc x hne),
    fun cmd hcmd => cmd_covers 4 m m' hl.symm _ hc cmd hcmd⟩

/-- **Topaz / Topaz-512 format (erase) on NDEF formatted tags**, `version=None`, with and without
wipe (`tt1_broadcom.py`): on a tag that already carries the factory NDEF management data (capability
container and, Topaz-512, the lock and memory control TLVs, NDEF TLV tag at 12 resp. 22 - everything
`_format` writes except the length byte) only bytes of the area change - the NDEF length byte
and, with wipe, the data bytes 14..103 resp. 24..103 and 128..511; never the UID, the static lock
and reserved bytes 104..127 or the capability container - and every write command (byte writes on
the Topaz, 8-byte blocks on the Topaz-512) covers a byte of the area.  `topazLayout` /
`topaz512Layout` are what the reader computes on such tags. -/
theorem t1_format_confined (m m' : Bytes) (wipe : Option Nat) :
    ((∀ i, i < 5 → m[8 + i]? = topazHdr[i]?) → formatTopaz m wipe = .ok m' →
      m'.length = m.length ∧ (∀ x, ¬ Area topazLayout x → m'[x]? = m[x]?)
      ∧ ∀ cmd ∈ diffUnits 1 m m', ∃ x, cmd.1 ≤ x ∧ x < cmd.1 + cmd.2.length ∧ Area topazLayout x)
    ∧ ((∀ i, i < 15 → m[8 + i]? = topaz512Hdr[i]?) → formatTopaz512 m wipe = .ok m' →
      m'.length = m.length ∧ (∀ x, ¬ Area topaz512Layout x → m'[x]? = m[x]?)
      ∧ ∀ cmd ∈ diffUnits 8 m m', ∃ x, cmd.1 ≤ x ∧ x < cmd.1 + cmd.2.length ∧ Area topaz512Layout x) := by
  constructor
  · intro hfac h
    obtain ⟨hl, hc⟩ := formatTopaz_spec m m' wipe hfac h
    exact ⟨hl, fun x hx => Classical.byContradiction fun hne => hx (hc x hne),
      fun cmd hcmd => cmd_covers 1 m m' hl.symm _ hc cmd hcmd⟩
  · intro hfac h
    obtain ⟨hl, hc⟩ := formatTopaz512_spec m m' wipe hfac h
    exact ⟨hl, fun x hx => Classical.byContradiction fun hne => hx (hc x hne),
      fun cmd hcmd => cmd_covers 8 m m' hl.symm _ hc cmd hcmd⟩

/-- non-vacuity: a factory formatted Topaz with a 3-byte message; the reader finds `topazLayout`'s
offset, skip set and area end; format with wipe succeeds -/
def tpM : Bytes :=
  [1, 2, 3, 4, 5, 6, 7, 0] ++ [0xE1, 0x10, 0x0E, 0, 3, 3, 0xD0, 0, 0, 0xFE] ++ List.replicate 102 0x5A
example : (∀ i, i < 5 → tpM[8 + i]? = topazHdr[i]?) ∧ (formatTopaz tpM (some 0)).isOk = true
    ∧ readNdef (t1Cfg 1) tpM = .ok (some { topazLayout with ndef := [0xD0, 0, 0] }) := by
  decide +kernel

/-! ## Non-vacuity -/
/-- memory control TLV reserving bytes 27..28 inside the message (the image of `Props/C01`) -/
def exM : Bytes :=
  List.replicate 12 0 ++ [0xE1, 0x10, 6, 0] ++ [2, 3, 0x33, 2, 3, 0, 3, 2, 0xAA, 0xBB, 0xFE] ++ List.replicate 37 0
def exL : Layout :=
  { off := 22, skip := [(27, 29)], areaEnd := 64, cap := 38, readable := true, writeable := true, ndef := [0xAA, 0xBB] }
example : readNdef t2Cfg exM = .ok (some exL) ∧ WF t2Cfg exM exL ∧ Hdr3 exL 6 := by decide +kernel
/-- the reserved bytes 27, 28 are outside the area, 26 and 29 inside -/
example : ¬ Area exL 27 ∧ ¬ Area exL 28 ∧ Area exL 26 ∧ Area exL 29 ∧ ¬ Area exL 22 ∧ ¬ Area exL 64 := by
  unfold Area; decide
/-- F3 witness layout: a memory control TLV reserves the second byte after the NDEF TLV tag (24);
the repaired format puts the terminator at 25 and leaves 24 alone -/
def f3M : Bytes :=
  List.replicate 12 0 ++ [0xE1, 0x10, 6, 0] ++ [2, 3, 0x30, 1, 3, 0, 3, 1, 0x77, 0x55, 0xFE] ++ List.replicate 37 0
def f3L : Layout :=
  { off := 22, skip := [(24, 25)], areaEnd := 64, cap := 39, readable := true, writeable := true, ndef := [0x55] }
example : readNdef t2Cfg f3M = .ok (some f3L) := by decide +kernel
example : ∃ m', formatT2 f3M f3L none = .ok m' ∧ m'[24]? = some 0x77 ∧ m'[25]? = some 0xFE ∧ m'[23]? = some 0
    ∧ diffUnits 4 f3M m' = [(20, [3, 0, 3, 0]), (24, [0x77, 0xFE, 0xFE, 0])] := by
  refine ⟨_, rfl, ?_⟩; decide +kernel

/-! ## The hypothesis `Hdr3` is necessary (documentation, not a finding: the property's quantifier
excludes reserved ranges on the NDEF TLV's length-field bytes, and a message of 255 bytes or more
has the three bytes behind the tag as its length field)

320-byte data area, memory control TLV reserving byte 24, NDEF TLV at 22 carrying the 1-byte
message `42` (length byte 23, byte 24 = `99` reserved and jumped over, value at 25): well formed.
Writing 255 bytes puts `FF 00 FF` at 23..25: the reserved byte 24 becomes `00`. -/
def h3M : Bytes :=
  List.replicate 12 0 ++ [0xE1, 0x10, 40, 0] ++ [2, 3, 0x30, 1, 3, 0, 3, 1, 0x99, 0x42, 0xFE] ++ List.replicate 309 0
def h3L : Layout :=
  { off := 22, skip := [(24, 25)], areaEnd := 336, cap := 309, readable := true, writeable := true, ndef := [0x42] }

theorem t12_long_length_counterexample :
    readNdef t2Cfg h3M = .ok (some h3L) ∧ WF t2Cfg h3M h3L ∧ ((255 : Nat) : Int) ≤ h3L.cap ∧ ¬ Hdr3 h3L 255
    ∧ inSkip h3L.skip 24 = true ∧ h3M[24]? = some 0x99
    ∧ (match writeNdef t2Cfg h3M h3L (List.replicate 255 0) with
       | .ok ph => ph.m3[24]? | .error _ => none) = some 0 := by
  decide +kernel

end NfcVerif.C03
