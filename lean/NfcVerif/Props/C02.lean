import NfcVerif.Lemmas.TlvSync
import NfcVerif.Lemmas.HistC02
/-!
# C02 - an interrupted NDEF write never leaves a corrupt message (Type 1 and Type 2 Tag)

A write is the concatenation of the command lists of its `synchronize()` calls; a crash point
is a prefix length `k` of that list; the tag memory after the crash is `apply m (cmds.take k)`.
Model: `NfcVerif.Model.Tlv` with the length-field write as REPAIRED by fixes/C02 (F2): the
bytes `hi`/`lo` of a 3-byte length field that lie in a later write unit than `FF` are prepared
while the first length byte is still `00` (`phase3a`).  The as-found behaviour is kept as
`writeCmdsAsFound` and shown to be unsafe at the end of this file.
-/
namespace NfcVerif.C02
open NfcVerif NfcVerif.Tlv NfcVerif.Hist

/-- what a fresh reader may see after an interrupted write: the previous message, an empty
message, or the complete new message - in each case with the same TLV offset, skip set,
capacity and flags.  (For Type 1/2 the alternatives "no NDEF" / "not readable" never occur.) -/
def Outcome (L : Layout) (new : Bytes) (r : Py (Option Layout)) : Prop :=
  r = .ok (some L) ∨ r = .ok (some { L with ndef := [] }) ∨ r = .ok (some { L with ndef := new })

/-- **Cut safety, full.**  For every well-formed image (any layout, any alignment of the NDEF TLV
in the write unit, unit 1, 4 or 8, old message in either length format), every message up to
the capacity (1-byte and 3-byte length format) and EVERY prefix length `k` of the write-command
list, a re-walk of the tag memory after the first `k` commands sees the old message, an empty
message or the complete new message - never a mixture. -/
theorem t12_cut_safe (c : Cfg) (m : Bytes) (L : Layout) (data : Bytes)
    (hread : readNdef c m = .ok (some L)) (hwf : WF c m L) (hcap : (data.length : Int) ≤ L.cap) (k : Nat) :
    Outcome L data (readNdef c (apply m ((setOctets c m L data).cmds.take k))) := by
  by_cases hw : L.writeable = true
  · have hs : setOctets c m L data = writeCmds c m L data := by
      unfold setOctets; rw [if_neg (by simp [hw]), if_neg (by omega)]
    rw [hs]
    rcases cut_safe c m L data ((readNdef_some c m L).1 hread) hwf hcap k with h | h | h
    · exact Or.inl ((readNdef_some c _ _).2 h)
    · exact Or.inr (Or.inl ((readNdef_some c _ _).2 h))
    · exact Or.inr (Or.inr ((readNdef_some c _ _).2 h))
  · -- a write-protected tag: the setter raises before any command, the memory stays as it is
    have hs : (setOctets c m L data).cmds = [] := by
      unfold setOctets; rw [if_pos (by simpa using hw)]
    rw [hs]
    exact Or.inl (by simpa [apply] using hread)

/-- After ANY prefix of ANY write-back (`synchronize()`), every byte of the tag memory holds its
old or its new value, for every unit size. -/
theorem t12_prefix_mixture (u : Nat) (m m' : Bytes) (hl : m.length = m'.length) (k : Nat) :
    let img := apply m ((diffUnits u m m').take k)
    img.length = m.length ∧ ∀ x : Nat, img[x]? = m[x]? ∨ img[x]? = m'[x]? :=
  prefix_mix u m m' hl k

/-- ... more precisely, the new image below a unit boundary and the old image from there on
(commands go out in ascending order). -/
theorem t12_prefix_threshold (u : Nat) (hu : 0 < u) (m m' : Bytes) (hl : m.length = m'.length) (k : Nat) :
    ∃ j, ∀ x : Nat, (apply m ((diffUnits u m m').take k))[x]? = if x < j * u then m'[x]? else m[x]? :=
  prefix_threshold u hu m m' hl k

/-! ## Histories: faults of both kinds, retries through the same object (repaired memory reader)

`NfcVerif.Hist` (`Model/HistC01.lean`): the memory reader keeps the image it wants on the tag (`cache`,
`_data_in_cache`), the image it believes to be there (`belief`, `_data_from_tag`) and - since the repair
`fixes/C02/0002` - the set of units whose write command did not return (`dirty`, `_unconfirmed`); `tag` is the real
content.  A `Fault ⟨k, late⟩` makes state-changing command `k` of an attempt fail: `late = false` - the tag does
not execute it (this is also a power cut after `k` commands), `late = true` - the tag executes it but the reader
gets no answer (a power cut after `k+1` commands, or a lost acknowledgement with the tag staying in the field).
`historyR c L (freshR m) hs` runs the attempts `hs = [(message, fault?), ...]` through the object that found layout
`L` on image `m`. -/

/-- a freshly activated object without a fault sends exactly the commands of `setOctets` (the writer `t12_cut_safe`
speaks about), so the history model extends that writer -/
theorem t12_history_extends_writer (c : Cfg) (hu : 0 < c.unit) (m : Bytes) (L : Layout) (data : Bytes) :
    (attemptR c L (freshR m) data none).cmds = (setOctets c m L data).cmds ∧
    (attemptR c L (freshR m) data none).res = (setOctets c m L data).res := by
  obtain ⟨h1, h2⟩ := attemptR_clean c L m data
  obtain ⟨h3, h4⟩ := attempt_clean c hu m L data
  exact ⟨h1.trans h3, h2.trans h4⟩

/-- **What the cache may assume about the tag - after ANY history.**  Whatever attempts were made and however they
failed (any command, executed by the tag or not), outside the units remembered as unconfirmed the picture
`_data_from_tag` equals the tag; all images keep the size of the memory; tag and cache still hold the original bytes
in front of the NDEF TLV's length field.  (Before the repair there was no such set and the statement was false as
soon as one failed command had been executed - `t12_unacknowledged_mixture_asFound` below.) -/
theorem t12_cache_coherent (c : Cfg) (m : Bytes) (L : Layout) (hread : readNdef c m = .ok (some L)) (hwf : WF c m L)
    (hs : List (Bytes × Option Fault)) :
    (∀ i, i ∉ (historyR c L (freshR m) hs).1.dirty →
      sliceN (historyR c L (freshR m) hs).1.tag (i * c.unit) (i * c.unit + c.unit)
        = sliceN (historyR c L (freshR m) hs).1.belief (i * c.unit) (i * c.unit + c.unit)) ∧
    (historyR c L (freshR m) hs).1.tag.length = m.length ∧
    (historyR c L (freshR m) hs).1.belief.length = m.length ∧
    (∀ x, x < L.off + 1 → (historyR c L (freshR m) hs).1.tag[x]? = m[x]?) ∧
    (∀ x, x < L.off + 1 → (historyR c L (freshR m) hs).1.cache[x]? = m[x]?) := by
  have hi := historyR_inv c m L ((readNdef_some c m L).1 hread) hwf hs (freshR m) (InvR.fresh _ m _)
  exact ⟨hi.sync, hi.len.tag, hi.len.belief, hi.tag, hi.cache⟩

/-- **A `synchronize()` changes the tag by a prefix of the units in which tag and cache really differ**, in
ascending order - after any history, for every cache content of the right size, every fault position and kind;
resending an unconfirmed unit or a unit the reader only believes to differ does not alter the tag. -/
theorem t12_sync_is_prefix (c : Cfg) (m : Bytes) (L : Layout) (hread : readNdef c m = .ok (some L)) (hwf : WF c m L)
    (hs : List (Bytes × Option Fault)) (C : Bytes) (hC : C.length = m.length) (f : Option Fault) :
    ∃ k, (syncR c.unit { (historyR c L (freshR m) hs).1 with cache := C } f).st.tag
      = apply (historyR c L (freshR m) hs).1.tag ((diffUnits c.unit (historyR c L (freshR m) hs).1.tag C).take k) := by
  have hi := historyR_inv c m L ((readNdef_some c m L).1 hread) hwf hs (freshR m) (InvR.fresh _ m _)
  exact syncR_prefix c.unit hwf.2.1 _ f m.length ⟨hi.len.tag, hi.len.belief, hC⟩ hi.sync

/-- **Retry after any history, with any further fault.**  After ANY history `hs` (any number of attempts, any
messages, each completed or aborted at any command by a fault of either kind) the application assigns `d2` (any
length up to the capacity) through the SAME object and this attempt is again disturbed at any command in either way
(`f`), or not at all.  Then the tag holds what it held before the attempt, or shows an empty message, or shows
exactly `d2` (same offset, skip set, capacity, flags); when nothing disturbs the attempt it returns normally and
the tag shows `d2`; and whenever it returns normally the tag shows `d2`. -/
theorem t12_retry_cut_safe (c : Cfg) (m : Bytes) (L : Layout) (hread : readNdef c m = .ok (some L)) (hwf : WF c m L)
    (hw : L.writeable = true) (hs : List (Bytes × Option Fault)) (d2 : Bytes) (hcap2 : (d2.length : Int) ≤ L.cap)
    (f : Option Fault) :
    ((attemptR c L (historyR c L (freshR m) hs).1 d2 f).st.tag = (historyR c L (freshR m) hs).1.tag
      ∨ readNdef c (attemptR c L (historyR c L (freshR m) hs).1 d2 f).st.tag = .ok (some { L with ndef := [] })
      ∨ readNdef c (attemptR c L (historyR c L (freshR m) hs).1 d2 f).st.tag = .ok (some { L with ndef := d2 }))
    ∧ ((attemptR c L (historyR c L (freshR m) hs).1 d2 f).res = .ok () →
        readNdef c (attemptR c L (historyR c L (freshR m) hs).1 d2 f).st.tag = .ok (some { L with ndef := d2 }))
    ∧ (f = none → (attemptR c L (historyR c L (freshR m) hs).1 d2 f).res = .ok ()) := by
  have hr := (readNdef_some c m L).1 hread
  have hi := historyR_inv c m L hr hwf hs (freshR m) (InvR.fresh _ m _)
  have hsp := writeFromR_spec c m L d2 _ f hr hwf hcap2 hi
  have hat : attemptR c L (historyR c L (freshR m) hs).1 d2 f = writeFromR c L (historyR c L (freshR m) hs).1 d2 f := by
    unfold attemptR; rw [if_neg (by simp [hw]), if_neg (by omega)]
  rw [hat]
  refine ⟨?_, fun h => (readNdef_some c _ _).2 (hsp.2.1 h).1, hsp.2.2⟩
  rcases writeFromR_view c m L d2 _ f hr hwf hcap2 hi with h | h | h
  · exact Or.inl h
  · exact Or.inr (Or.inl ((readNdef_some c _ _).2 h))
  · exact Or.inr (Or.inr ((readNdef_some c _ _).2 h))

/-- **A fault is a cut.**  After any history, the commands the tag executes during an assignment disturbed at command
`k` are exactly the first `k` commands of the undisturbed assignment (`k + 1` when the tag executes the failing
command), and the tag then holds its previous content with exactly those commands applied.  So the fault histories of
this section contain every power cut "after the k-th state-changing command" of every (re)assignment. -/
theorem t12_fault_is_cut (c : Cfg) (m : Bytes) (L : Layout) (hread : readNdef c m = .ok (some L)) (hwf : WF c m L)
    (hs : List (Bytes × Option Fault)) (d2 : Bytes) (k : Nat) (late : Bool) :
    (attemptR c L (historyR c L (freshR m) hs).1 d2 (some ⟨k, late⟩)).cmds
      = (attemptR c L (historyR c L (freshR m) hs).1 d2 none).cmds.take (k + late.toNat) ∧
    (attemptR c L (historyR c L (freshR m) hs).1 d2 (some ⟨k, late⟩)).st.tag
      = apply (historyR c L (freshR m) hs).1.tag
          ((attemptR c L (historyR c L (freshR m) hs).1 d2 none).cmds.take (k + late.toNat)) := by
  have hr := (readNdef_some c m L).1 hread
  have hi := historyR_inv c m L hr hwf hs (freshR m) (InvR.fresh _ m _)
  have key : (attemptR c L (historyR c L (freshR m) hs).1 d2 (some ⟨k, late⟩)).cmds
      = (attemptR c L (historyR c L (freshR m) hs).1 d2 none).cmds.take (k + late.toNat) := by
    unfold attemptR
    split
    · simp
    · split
      · simp
      · rename_i hc
        exact writeFromR_fault c m L d2 _ k late hr hwf (by omega) hi
  refine ⟨key, ?_⟩
  rw [← key]
  unfold attemptR
  split
  · rfl
  · split
    · rfl
    · exact writeFromR_tag_apply c L _ d2 _
/-- **Cut safety over histories (full).**  For every well-formed image and EVERY history of assignments through one
tag object - any number of attempts, any messages (oversize ones are refused without a command), each attempt
completed or aborted at ANY state-changing command, the command not executed (lost / power cut) or executed but
unacknowledged - a fresh reader of the tag sees the message found at activation, an empty message, or the COMPLETE
message of one of the attempts that were not refused, with unchanged offset, skip set, capacity and flags.  Never a
mixture. -/
theorem t12_history_cut_safe (c : Cfg) (m : Bytes) (L : Layout) (hread : readNdef c m = .ok (some L)) (hwf : WF c m L)
    (hs : List (Bytes × Option Fault)) :
    ∃ x, (x = L.ndef ∨ x = [] ∨ x ∈ sentMsgs L hs) ∧
      readNdef c (historyR c L (freshR m) hs).1.tag = .ok (some { L with ndef := x }) := by
  have hr := (readNdef_some c m L).1 hread
  rcases historyR_view c m L hr hwf hs (freshR m) (InvR.fresh _ m _) with h | ⟨x, hx, h⟩
  · exact ⟨L.ndef, Or.inl rfl, by rw [h]; exact hread⟩
  · exact ⟨x, Or.inr hx, (readNdef_some c _ _).2 h⟩

/-- the same for the stricter reader of the present tree (`readBack`: a TLV that is not stored completely inside the
data area is not accepted): it reports what `readNdef` reports, or no NDEF at all -/
theorem t12_history_cut_safe_strict (c : Cfg) (m : Bytes) (L : Layout) (hread : readNdef c m = .ok (some L))
    (hwf : WF c m L) (hs : List (Bytes × Option Fault)) :
    readBack c (historyR c L (freshR m) hs).1.tag = .ok none ∨
    ∃ x, (x = L.ndef ∨ x = [] ∨ x ∈ sentMsgs L hs) ∧
      readBack c (historyR c L (freshR m) hs).1.tag = .ok (some { L with ndef := x }) := by
  obtain ⟨x, hx, h⟩ := t12_history_cut_safe c m L hread hwf hs
  unfold readBack
  rw [h]
  simp only
  split <;> split <;> first | exact Or.inr ⟨x, hx, rfl⟩ | exact Or.inl rfl

/-! ### the memory reader as found (before `fixes/C02/0002`) was not safe under unacknowledged commands

Type 2 Tag of 64 byte, NDEF TLV at 18 (length byte = last byte of page 4, value from page 5), old message `AA BB`.
Writing `01 02 03` sends three WRITE commands; the tag executes the last one (page 4 with the length byte 03) but
the answer is lost.  The reader as found (`Hist.history`) still believes page 4 to hold length 00, so the empty
message assigned next sends only page 5 (the terminator) and returns normally: the tag keeps length 03 over
`FE 02 03` - a 3-byte message that is neither the old one, nor empty, nor a message of the history. -/
def hM : Bytes := List.replicate 12 0 ++ [0xE1, 0x10, 6, 0] ++ [0, 0, 3, 2, 0xAA, 0xBB, 0xFE] ++ List.replicate 41 0
def hL : Layout :=
  { off := 18, skip := [], areaEnd := 64, cap := 44, readable := true, writeable := true, ndef := [0xAA, 0xBB] }
def hHist : List (Bytes × Option Fault) := [([1, 2, 3], some ⟨2, true⟩), ([], none)]

theorem t12_unacknowledged_mixture_asFound :
    readNdef t2Cfg hM = .ok (some hL) ∧ WF t2Cfg hM hL ∧
    (history t2Cfg hL (fresh hM) hHist).2 =
      [([(16, [0, 0, 3, 0]), (20, [1, 2, 3, 0xFE]), (16, [0, 0, 3, 3])], .error faultErr),
       ([(20, [0xFE, 2, 3, 0xFE])], .ok ())] ∧
    readNdef t2Cfg (history t2Cfg hL (fresh hM) hHist).1.tag = .ok (some { hL with ndef := [0xFE, 2, 3] }) ∧
    ¬ ([0xFE, 2, 3] = hL.ndef ∨ [0xFE, 2, 3] = [] ∨ [0xFE, 2, 3] ∈ sentMsgs hL hHist) ∧
    -- the picture of page 4 differs from the tag although the reader has nothing marked
    (history t2Cfg hL (fresh hM) [([1, 2, 3], some ⟨2, true⟩)]).1.tag
      ≠ (history t2Cfg hL (fresh hM) [([1, 2, 3], some ⟨2, true⟩)]).1.belief := by
  refine ⟨?_, ?_, ?_, ?_, ?_, ?_⟩ <;> decide +kernel

/-- the same history on the repaired reader: page 4 is sent again (length 00), then the terminator; the tag shows
the empty message, as `t12_history_cut_safe` promises -/
example : (historyR t2Cfg hL (freshR hM) hHist).2 =
      [([(16, [0, 0, 3, 0]), (20, [1, 2, 3, 0xFE]), (16, [0, 0, 3, 3])], .error faultErr),
       ([(16, [0, 0, 3, 0]), (20, [0xFE, 2, 3, 0xFE])], .ok ())] ∧
    readNdef t2Cfg (historyR t2Cfg hL (freshR hM) hHist).1.tag = .ok (some { hL with ndef := [] }) := by
  constructor <;> decide +kernel

/-- non-vacuity: three aborted attempts (a lost first command; an unacknowledged data page; the third attempt first
flushes what the second left behind, its fourth command - the length page - is executed but unacknowledged: the
tag then shows `09` and page 4 is unconfirmed), then `07 07` interrupted by a power cut after its first command,
which is page 4 with length 00: empty -/
example :
    let hs : List (Bytes × Option Fault) :=
      [([1, 2, 3], some ⟨0, false⟩), ([4, 5, 6, 7, 8], some ⟨1, true⟩), ([9], some ⟨3, true⟩)]
    readNdef t2Cfg (historyR t2Cfg hL (freshR hM) hs).1.tag = .ok (some { hL with ndef := [9] }) ∧
    (historyR t2Cfg hL (freshR hM) hs).1.dirty = [4] ∧
    readNdef t2Cfg (historyR t2Cfg hL (freshR hM) (hs ++ [([7, 7], some ⟨1, false⟩)])).1.tag
      = .ok (some { hL with ndef := [] }) := by
  refine ⟨?_, ?_, ?_⟩ <;> decide +kernel

/-! ## Non-vacuity and the two straddling alignments

Type 2 Tag, 304 byte.  `cxM`: one NULL TLV in front, NDEF TLV at offset 17: length bytes at
18, 19 (page 4) and 20 (page 5): alignment `FF hi | lo`.  `zM`: three NULL TLVs, NDEF TLV at 18:
length bytes 19 (page 4) and 20, 21 (page 5): alignment `FF | hi lo`.  Old message `AA BB`. -/
def cxM : Bytes :=
  List.replicate 12 0 ++ [0xE1, 0x10, 36, 0] ++ [0, 3, 2, 0xAA, 0xBB, 0xFE] ++ List.replicate 282 0
def cxL : Layout :=
  { off := 17, skip := [], areaEnd := 304, cap := 283, readable := true, writeable := true, ndef := [0xAA, 0xBB] }
def cxD : Bytes := List.replicate 255 7

def zM : Bytes :=
  List.replicate 12 0 ++ [0xE1, 0x10, 36, 0] ++ [0, 0, 3, 2, 0xAA, 0xBB, 0xFE] ++ List.replicate 281 0
def zL : Layout :=
  { off := 18, skip := [], areaEnd := 304, cap := 282, readable := true, writeable := true, ndef := [0xAA, 0xBB] }

example : readNdef t2Cfg cxM = .ok (some cxL) ∧ WF t2Cfg cxM cxL ∧ (cxD.length : Int) ≤ cxL.cap := by
  decide +kernel
example : readNdef t2Cfg zM = .ok (some zL) ∧ WF t2Cfg zM zL ∧ (cxD.length : Int) ≤ zL.cap := by
  decide +kernel
example : ∀ k, Outcome cxL cxD (readNdef t2Cfg (apply cxM ((setOctets t2Cfg cxM cxL cxD).cmds.take k))) :=
  fun k => t12_cut_safe t2Cfg cxM cxL cxD (by decide +kernel) (by decide +kernel) (by decide +kernel) k
/-- `FF hi | lo`: `lo` goes out in a command of its own (page 5 = `FF 07 07 07`) while the first
length byte is 0, the last command is page 4 with `FF 00`: 68 commands, after 67 the reader still
sees an empty message. -/
example : (setOctets t2Cfg cxM cxL cxD).cmds.length = 68
    ∧ (setOctets t2Cfg cxM cxL cxD).cmds.getLast? = some (16, [0, 3, 0xFF, 0])
    ∧ readNdef t2Cfg (apply cxM ((setOctets t2Cfg cxM cxL cxD).cmds.take 67)) = .ok (some { cxL with ndef := [] }) := by
  decide +kernel
/-- `FF | hi lo`: old value bytes at 20, 21 are zeroed with the data, then page 4 (`FF`), then
page 5 (`00 FF`): between the last two commands the field reads `FF 00 00` = empty. -/
example : readNdef t2Cfg (apply zM ((setOctets t2Cfg zM zL cxD).cmds.take
      ((setOctets t2Cfg zM zL cxD).cmds.length - 1))) = .ok (some { zL with ndef := [] })
    ∧ ((setOctets t2Cfg zM zL cxD).cmds.drop ((setOctets t2Cfg zM zL cxD).cmds.length - 2)).map Prod.fst = [16, 20] := by
  decide +kernel

/-! ## The code as found (before fixes/C02) was not cut safe (F2)

On `cxM` the as-found write is 68 commands; after the 67th (page 4 = `00 03 FF 00` written,
page 5 still holding the old byte `BB` at 20) the length field reads `FF 00 BB`: a 187-byte
message made of the first 187 new bytes. -/
example :
    (writeCmdsAsFound t2Cfg cxM cxL cxD).cmds.length = 68
    ∧ readNdef t2Cfg (apply cxM ((writeCmdsAsFound t2Cfg cxM cxL cxD).cmds.take 67))
        = .ok (some { cxL with ndef := List.replicate 187 7 }) := by
  decide +kernel

end NfcVerif.C02
