import NfcVerif.Lemmas.TlvSync
import NfcVerif.Lemmas.TlvRetry
/-!
# C02 - an interrupted NDEF write never leaves a corrupt message (Type 1 and Type 2 Tag)

A write is the concatenation of the command lists of its `synchronize()` calls; a crash point
is a prefix length `k` of that list; the tag memory after the crash is `apply m (cmds.take k)`.
Model: `NfcVerif.Model.Tlv` with the length-field write as REPAIRED by fixes/C02 (F2): the
bytes `hi`/`lo` of a 3-byte length field that lie in a later write unit than `FF` are prepared
while the first length byte is still `00` (`phase3a`).  The as-found behaviour is kept as
`writeCmdsAsFound` and shown to be unsafe at the end of this file.
-/
namespace NfcVerif.C02
open NfcVerif NfcVerif.Tlv

/-- what a fresh reader may see after an interrupted write: the previous message, an empty
message, or the complete new message - in each case with the same TLV offset, skip set,
capacity and flags.  (For Type 1/2 the alternatives "no NDEF" / "not readable" never occur.) -/
def Outcome (L : Layout) (new : Bytes) (r : Py (Option Layout)) : Prop :=
  r = .ok (some L) ∨ r = .ok (some { L with ndef := [] }) ∨ r = .ok (some { L with ndef := new })

/-- **Cut safety, full.**  For every well-formed image (any layout, any alignment of the NDEF TLV
in the write unit, unit 1, 4 or 8, old message in either length format), every message up to
the capacity (1-byte and 3-byte length format) and EVERY prefix length `k` of the write-command
list, a re-walk of the tag memory after the first `k` commands sees the old message, an empty
message or the complete new message - never a mixture. -/
theorem t12_cut_safe (c : Cfg) (m : Bytes) (L : Layout) (data : Bytes)
    (hread : readNdef c m = .ok (some L)) (hwf : WF c m L) (hcap : (data.length : Int) ≤ L.cap) (k : Nat) :
    Outcome L data (readNdef c (apply m ((setOctets c m L data).cmds.take k))) := by
  by_cases hw : L.writeable = true
  · have hs : setOctets c m L data = writeCmds c m L data := by
      unfold setOctets; rw [if_neg (by simp [hw]), if_neg (by omega)]
    rw [hs]
    rcases cut_safe c m L data ((readNdef_some c m L).1 hread) hwf hcap k with h | h | h
    · exact Or.inl ((readNdef_some c _ _).2 h)
    · exact Or.inr (Or.inl ((readNdef_some c _ _).2 h))
    · exact Or.inr (Or.inr ((readNdef_some c _ _).2 h))
  · -- a write-protected tag: the setter raises before any command, the memory stays as it is
    have hs : (setOctets c m L data).cmds = [] := by
      unfold setOctets; rw [if_pos (by simpa using hw)]
    rw [hs]
    exact Or.inl (by simpa [apply] using hread)

/-- After ANY prefix of ANY write-back (`synchronize()`), every byte of the tag memory holds its
old or its new value, for every unit size. -/
theorem t12_prefix_mixture (u : Nat) (m m' : Bytes) (hl : m.length = m'.length) (k : Nat) :
    let img := apply m ((diffUnits u m m').take k)
    img.length = m.length ∧ ∀ x : Nat, img[x]? = m[x]? ∨ img[x]? = m'[x]? :=
  prefix_mix u m m' hl k

/-- ... more precisely, the new image below a unit boundary and the old image from there on
(commands go out in ascending order). -/
theorem t12_prefix_threshold (u : Nat) (hu : 0 < u) (m m' : Bytes) (hl : m.length = m'.length) (k : Nat) :
    ∃ j, ∀ x : Nat, (apply m ((diffUnits u m m').take k))[x]? = if x < j * u then m'[x]? else m[x]? :=
  prefix_threshold u hu m m' hl k

/-! ## A lost command and a retry on the same NDEF object

The memory reader keeps the image it wants on the tag (`_data_in_cache`) and the image it
believes to be there (`_data_from_tag`); `synchronize()` sends the units in which they differ. -/

/-- **What the cache may assume about the tag.**  `_write_to_tag` records a unit in
`_data_from_tag` only after its command succeeded; hence when command `j` of a `synchronize()`
is lost (the exception reaches the application) the recorded image still equals the content of
the tag, for every unit list, cache and fault position.  (With the two statements swapped this
is false - see the example below - and a later write computes its commands against an image the
tag does not hold.) -/
theorem t12_cache_coherent (u : Nat) (cache : Bytes) (is : List Nat) (j : Nat) (b : Bytes) :
    (syncLost u cache is j (b, b)).1 = (syncLost u cache is j (b, b)).2 :=
  syncLost_coherent u cache is j b

/-- **Retry after a lost command.**  Command `k` of the write of `d1` is lost (`failedWrite`: tag
content `T` = the acknowledged commands, cache `C` = the image of the interrupted phase).  The
application then assigns `d2` (the same or another message, any length up to the capacity) on the
SAME object: the assignment succeeds, afterwards a fresh reader sees exactly `d2`, and after every
prefix of its commands (a second interruption) the tag is unchanged (`T`, itself old / empty by
`t12_cut_safe`), or shows an empty message, or shows `d2` - for every well-formed image, every `k`,
every alignment and unit. -/
theorem t12_retry_cut_safe (c : Cfg) (m : Bytes) (L : Layout) (d1 d2 : Bytes) (k : Nat) (T C : Bytes)
    (hread : readNdef c m = .ok (some L)) (hwf : WF c m L)
    (hcap1 : (d1.length : Int) ≤ L.cap) (hcap2 : (d2.length : Int) ≤ L.cap)
    (hfail : failedWrite c m L d1 k = some (T, C)) :
    (writeCmdsFrom c T C L d2).res = .ok ()
    ∧ readNdef c (apply T (writeCmdsFrom c T C L d2).cmds) = .ok (some { L with ndef := d2 })
    ∧ ∀ j, apply T ((writeCmdsFrom c T C L d2).cmds.take j) = T
        ∨ readNdef c (apply T ((writeCmdsFrom c T C L d2).cmds.take j)) = .ok (some { L with ndef := [] })
        ∨ readNdef c (apply T ((writeCmdsFrom c T C L d2).cmds.take j)) = .ok (some { L with ndef := d2 }) := by
  have hr := (readNdef_some c m L).1 hread
  obtain ⟨hTl, hCl, hTb, hCb⟩ := failedWrite_state c m L d1 k T C hr hwf hcap1 hfail
  obtain ⟨h1, h2, h3⟩ := retry_safe c m T C L d2 hr hwf hcap2 hTl hCl hTb hCb
  refine ⟨h1, (readNdef_some c _ _).2 h2, fun j => ?_⟩
  rcases h3 j with e | e | e
  · exact Or.inl e
  · exact Or.inr (Or.inl ((readNdef_some c _ _).2 e))
  · exact Or.inr (Or.inr ((readNdef_some c _ _).2 e))

/-- a fresh object is the special case `T = C = m` -/
example (c : Cfg) (m : Bytes) (L : Layout) (d : Bytes) : writeCmdsFrom c m m L d = writeCmds c m L d := rfl

/-! ## Non-vacuity and the two straddling alignments

Type 2 Tag, 304 byte.  `cxM`: one NULL TLV in front, NDEF TLV at offset 17: length bytes at
18, 19 (page 4) and 20 (page 5): alignment `FF hi | lo`.  `zM`: three NULL TLVs, NDEF TLV at 18:
length bytes 19 (page 4) and 20, 21 (page 5): alignment `FF | hi lo`.  Old message `AA BB`. -/
def cxM : Bytes :=
  List.replicate 12 0 ++ [0xE1, 0x10, 36, 0] ++ [0, 3, 2, 0xAA, 0xBB, 0xFE] ++ List.replicate 282 0
def cxL : Layout :=
  { off := 17, skip := [], areaEnd := 304, cap := 283, readable := true, writeable := true, ndef := [0xAA, 0xBB] }
def cxD : Bytes := List.replicate 255 7

def zM : Bytes :=
  List.replicate 12 0 ++ [0xE1, 0x10, 36, 0] ++ [0, 0, 3, 2, 0xAA, 0xBB, 0xFE] ++ List.replicate 281 0
def zL : Layout :=
  { off := 18, skip := [], areaEnd := 304, cap := 282, readable := true, writeable := true, ndef := [0xAA, 0xBB] }

example : readNdef t2Cfg cxM = .ok (some cxL) ∧ WF t2Cfg cxM cxL ∧ (cxD.length : Int) ≤ cxL.cap := by
  decide +kernel
example : readNdef t2Cfg zM = .ok (some zL) ∧ WF t2Cfg zM zL ∧ (cxD.length : Int) ≤ zL.cap := by
  decide +kernel
example : ∀ k, Outcome cxL cxD (readNdef t2Cfg (apply cxM ((setOctets t2Cfg cxM cxL cxD).cmds.take k))) :=
  fun k => t12_cut_safe t2Cfg cxM cxL cxD (by decide +kernel) (by decide +kernel) (by decide +kernel) k
/-- `FF hi | lo`: `lo` goes out in a command of its own (page 5 = `FF 07 07 07`) while the first
length byte is 0, the last command is page 4 with `FF 00`: 68 commands, after 67 the reader still
sees an empty message. -/
example : (setOctets t2Cfg cxM cxL cxD).cmds.length = 68
    ∧ (setOctets t2Cfg cxM cxL cxD).cmds.getLast? = some (16, [0, 3, 0xFF, 0])
    ∧ readNdef t2Cfg (apply cxM ((setOctets t2Cfg cxM cxL cxD).cmds.take 67)) = .ok (some { cxL with ndef := [] }) := by
  decide +kernel
/-- `FF | hi lo`: old value bytes at 20, 21 are zeroed with the data, then page 4 (`FF`), then
page 5 (`00 FF`): between the last two commands the field reads `FF 00 00` = empty. -/
example : readNdef t2Cfg (apply zM ((setOctets t2Cfg zM zL cxD).cmds.take
      ((setOctets t2Cfg zM zL cxD).cmds.length - 1))) = .ok (some { zL with ndef := [] })
    ∧ ((setOctets t2Cfg zM zL cxD).cmds.drop ((setOctets t2Cfg zM zL cxD).cmds.length - 2)).map Prod.fst = [16, 20] := by
  decide +kernel

/-- non-vacuity of the retry theorem: command 30 of the 68 is lost, the tag then shows an empty
message; the retry of the same message needs 38 commands (the 30 acknowledged ones are not repeated) -/
example : ((failedWrite t2Cfg cxM cxL cxD 30).map fun p =>
      (decide (readNdef t2Cfg p.1 = .ok (some { cxL with ndef := [] })),
       (writeCmdsFrom t2Cfg p.1 p.2 cxL cxD).cmds.length)) = some (true, 38) := by
  decide +kernel

/-- with `_data_from_tag` updated BEFORE the command is sent, a lost command is believed stored:
belief and tag differ (unit size 4, cache differs from the tag in unit 1, its command is lost) -/
example :
    let tag := [0, 0, 0, 0, 1, 1, 1, 1]
    let cache := [0, 0, 0, 0, 9, 9, 9, 9]
    -- correct order: nothing recorded
    syncLost 4 cache [0, 1] 0 (tag, tag) = (tag, tag)
    -- swapped order would record the unit although the tag never got it
    ∧ writeAt tag 4 (sliceN cache 4 8) ≠ tag := by
  decide

/-! ## The code as found (before fixes/C02) was not cut safe (F2)

On `cxM` the as-found write is 68 commands; after the 67th (page 4 = `00 03 FF 00` written,
page 5 still holding the old byte `BB` at 20) the length field reads `FF 00 BB`: a 187-byte
message made of the first 187 new bytes. -/
example :
    (writeCmdsAsFound t2Cfg cxM cxL cxD).cmds.length = 68
    ∧ readNdef t2Cfg (apply cxM ((writeCmdsAsFound t2Cfg cxM cxL cxD).cmds.take 67))
        = .ok (some { cxL with ndef := List.replicate 187 7 }) := by
  decide +kernel

end NfcVerif.C02
