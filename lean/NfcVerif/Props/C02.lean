import NfcVerif.Lemmas.TlvSync
/-!
# C02 - an interrupted NDEF write never leaves a corrupt message (Type 1 and Type 2 Tag)

A write is the concatenation of the command lists of its three `synchronize()` calls; a crash
point is a prefix length `k` of that list; the tag memory after the crash is
`apply m (cmds.take k)`.  Model: `NfcVerif.Model.Tlv`, the length-field write (phase 3) AS FOUND
in `tt2.py:263-269` / `tt1.py:241-247` (finding F2 is open).
-/
namespace NfcVerif.C02
open NfcVerif NfcVerif.Tlv

/-- what a fresh reader may see after an interrupted write: the previous message, an empty
message, or the complete new message - in each case with the same TLV offset, skip set,
capacity and flags.  (For Type 1/2 the alternatives "no NDEF" / "not readable" never occur.) -/
def Outcome (L : Layout) (new : Bytes) (r : Py (Option Layout)) : Prop :=
  r = .ok (some L) ∨ r = .ok (some { L with ndef := [] }) ∨ r = .ok (some { L with ndef := new })

/-- the full statement of the property for the Type 1/2 model -/
def CutSafe : Prop :=
  ∀ (c : Cfg) (m : Bytes) (L : Layout) (data : Bytes), readNdef c m = .ok (some L) → WF c m L →
    (data.length : Int) ≤ L.cap → ∀ k, Outcome L data (readNdef c (apply m ((setOctets c m L data).cmds.take k)))

/-- **Cut safety (partial).**  For every well-formed image, every message up to the capacity and
every prefix of the write-command list the re-walk sees old, empty or new - never a mixture -
PROVIDED the new length field reaches the tag in one command (`OneCmd`: the message is shorter
than 255 bytes, or the three bytes `FF hi lo` lie inside one write unit).  Every alignment of
the TLV in the write unit, unit 1, 4 or 8, old message in either length format.
Missing part: 3-byte length field that straddles two write units - false on the code as found,
see `t12_cut_counterexample`. -/
theorem t12_cut_safe_partial (c : Cfg) (m : Bytes) (L : Layout) (data : Bytes)
    (hread : readNdef c m = .ok (some L)) (hwf : WF c m L) (hcap : (data.length : Int) ≤ L.cap)
    (hone : OneCmd c L data.length) (k : Nat) :
    Outcome L data (readNdef c (apply m ((setOctets c m L data).cmds.take k))) := by
  by_cases hw : L.writeable = true
  · have hs : setOctets c m L data = writeCmds c m L data := by
      unfold setOctets; rw [if_neg (by simp [hw]), if_neg (by omega)]
    rw [hs]
    rcases cut_safe c m L data ((readNdef_some c m L).1 hread) hwf hcap hone k with h | h | h
    · exact Or.inl ((readNdef_some c _ _).2 h)
    · exact Or.inr (Or.inl ((readNdef_some c _ _).2 h))
    · exact Or.inr (Or.inr ((readNdef_some c _ _).2 h))
  · -- a write-protected tag: the setter raises before any command, the memory stays as it is
    have hs : (setOctets c m L data).cmds = [] := by
      unfold setOctets; rw [if_pos (by simpa using hw)]
    rw [hs]
    exact Or.inl (by simpa [apply] using hread)

/-- After ANY prefix of ANY write-back (`synchronize()`), every byte of the tag memory holds its
old or its new value, for every unit size (the basis of the theorem above; it also holds for the
straddling case, where it is not enough). -/
theorem t12_prefix_mixture (u : Nat) (m m' : Bytes) (hl : m.length = m'.length) (k : Nat) :
    let img := apply m ((diffUnits u m m').take k)
    img.length = m.length ∧ ∀ x : Nat, img[x]? = m[x]? ∨ img[x]? = m'[x]? :=
  prefix_mix u m m' hl k

/-! ## The missing part is false on the code as found (F2)

Type 2 Tag, 304 byte, one NULL TLV in front of the NDEF TLV (offset 17): the length bytes
`FF | hi lo`... here `FF 00 | FF` occupy bytes 18, 19 (page 4) and 20 (page 5).  Old message
`AA BB` (byte 20 = `BB`), new message 255 bytes.  The write is 68 commands; after the 67th
(page 4 = `00 03 FF 00` written, page 5 not yet) the length field reads `FF 00 BB`: a
187-byte message made of the first 187 new bytes. -/
def cxM : Bytes :=
  List.replicate 12 0 ++ [0xE1, 0x10, 36, 0] ++ [0, 3, 2, 0xAA, 0xBB, 0xFE] ++ List.replicate 282 0
def cxL : Layout :=
  { off := 17, skip := [], areaEnd := 304, cap := 283, readable := true, writeable := true, ndef := [0xAA, 0xBB] }
def cxD : Bytes := List.replicate 255 7

theorem t12_cut_counterexample :
    readNdef t2Cfg cxM = .ok (some cxL) ∧ WF t2Cfg cxM cxL ∧ (cxD.length : Int) ≤ cxL.cap
    ∧ ¬ OneCmd t2Cfg cxL cxD.length
    ∧ (setOctets t2Cfg cxM cxL cxD).cmds.length = 68
    ∧ readNdef t2Cfg (apply cxM ((setOctets t2Cfg cxM cxL cxD).cmds.take 67))
        = .ok (some { cxL with ndef := List.replicate 187 7 }) := by
  decide +kernel

/-- hence the unrestricted statement does not hold for the code as found -/
theorem t12_cut_safe_false : ¬ CutSafe := by
  intro h
  obtain ⟨h1, h2, h3, _, _, h6⟩ := t12_cut_counterexample
  have := h t2Cfg cxM cxL cxD h1 h2 h3 67
  rw [h6] at this
  have hlen : ∀ r : Py (Option Layout), r = .ok (some { cxL with ndef := List.replicate 187 7 }) →
      (match r with | .ok (some l) => l.ndef.length | _ => 0) = 187 := by
    intro r hr; subst hr; exact List.length_replicate
  rcases this with e | e | e
  · have h2 : (2 : Nat) = 187 := hlen _ e.symm
    omega
  · have h2 : (0 : Nat) = 187 := hlen _ e.symm
    omega
  · have h2 : (List.replicate 255 7).length = 187 := hlen _ e.symm
    rw [List.length_replicate] at h2
    omega

/-! ## Non-vacuity of the partial theorem: an unaligned 1-byte case and an aligned 3-byte case -/
example : OneCmd t2Cfg cxL 254 := by decide +kernel
example : ∀ k, k ≤ 68 → Outcome cxL (List.replicate 254 7)
    (readNdef t2Cfg (apply cxM ((setOctets t2Cfg cxM cxL (List.replicate 254 7)).cmds.take k))) :=
  fun k _ => t12_cut_safe_partial t2Cfg cxM cxL _ (by decide +kernel) (by decide +kernel) (by decide +kernel)
    (by decide +kernel) k
/-- NDEF TLV at offset 16: `FF hi lo` in bytes 17..19, one page -/
def alM : Bytes :=
  List.replicate 12 0 ++ [0xE1, 0x10, 36, 0] ++ [3, 2, 0xAA, 0xBB, 0xFE] ++ List.replicate 283 0
def alL : Layout :=
  { off := 16, skip := [], areaEnd := 304, cap := 284, readable := true, writeable := true, ndef := [0xAA, 0xBB] }
example : readNdef t2Cfg alM = .ok (some alL) ∧ WF t2Cfg alM alL ∧ OneCmd t2Cfg alL 255 := by decide +kernel

end NfcVerif.C02
